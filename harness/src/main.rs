// Harness: includes fselect's own source files unchanged (through #[path]) and exposes their
// pure public functions over a line-oriented JSON protocol on stdin/stdout.
#![allow(dead_code, unused_imports, unused_variables, unused_mut, unexpected_cfgs)]

#[macro_use]
extern crate serde_derive;
#[cfg(all(unix, feature = "users"))]
extern crate uzers;
#[cfg(unix)]
extern crate xattr;

#[path = "/repo/src/config.rs"]
mod config;
#[path = "/repo/src/expr.rs"]
mod expr;
#[path = "/repo/src/field.rs"]
mod field;
#[path = "/repo/src/fileinfo.rs"]
mod fileinfo;
#[path = "/repo/src/function.rs"]
mod function;
#[path = "/repo/src/ignore/mod.rs"]
mod ignore;
#[path = "/repo/src/lexer.rs"]
mod lexer;
#[path = "/repo/src/mode.rs"]
mod mode;
#[path = "/repo/src/operators.rs"]
mod operators;
#[path = "/repo/src/output/mod.rs"]
mod output;
#[path = "/repo/src/parser.rs"]
mod parser;
#[path = "/repo/src/query.rs"]
mod query;
#[path = "/repo/src/searcher.rs"]
mod searcher;
#[path = "/repo/src/util/mod.rs"]
mod util;

use serde_json::{json, Value};
use std::io::{BufRead, Write};
use std::panic;
use std::rc::Rc;
use std::str::FromStr;

fn strs(v: &Value) -> Vec<String> {
    v.as_array().map(|a| a.iter().map(|x| x.as_str().unwrap_or("").to_string()).collect()).unwrap_or_default()
}

fn lexems(parts: Vec<String>) -> Vec<String> {
    let mut lx = lexer::Lexer::new(parts);
    let mut out = vec![];
    while let Some(l) = lx.next_lexem() {
        out.push(format!("{:?}", l));
        if out.len() > 100000 {
            break;
        }
    }
    out
}

fn field_expr(name: &str) -> expr::Expr {
    match field::Field::from_str(name) {
        Ok(f) => expr::Expr::field(f),
        Err(_) => match function::Function::from_str(name) {
            Ok(f) => expr::Expr::function(f),
            Err(_) => expr::Expr::value(name.to_string()),
        },
    }
}

fn handle(v: &Value) -> Value {
    let cmd = v["cmd"].as_str().unwrap_or("");
    match cmd {
        "ping" => json!("pong"),
        // TopN<Criteria<String>, String> exactly as the searcher instantiates it
        "topn" => {
            let limit = v["limit"].as_u64().unwrap_or(0) as u32;
            let fields: Vec<expr::Expr> = strs(&v["fields"]).iter().map(|s| field_expr(s)).collect();
            let fields = Rc::new(fields);
            let asc: Vec<bool> = v["asc"].as_array().unwrap().iter().map(|b| b.as_bool().unwrap()).collect();
            let asc = Rc::new(asc);
            let mut t: util::TopN<util::Criteria<String>, String> = if limit == 0 { util::TopN::limitless() } else { util::TopN::new(limit) };
            let mut evicted = vec![];
            for ins in v["inserts"].as_array().unwrap() {
                let keys = strs(&ins["k"]);
                let val = ins["v"].as_str().unwrap().to_string();
                let c = util::Criteria::new(fields.clone(), keys, asc.clone());
                evicted.push(t.insert(c, val));
            }
            json!({"values": t.values(), "evicted": evicted})
        }
        // TopN with plain integer keys
        "topn_int" => {
            let limit = v["limit"].as_u64().unwrap_or(0) as u32;
            let mut t: util::TopN<i64, i64> = if limit == 0 { util::TopN::limitless() } else { util::TopN::new(limit) };
            let mut evicted = vec![];
            for ins in v["inserts"].as_array().unwrap() {
                let k = ins[0].as_i64().unwrap();
                let val = ins[1].as_i64().unwrap();
                evicted.push(t.insert(k, val));
            }
            json!({"values": t.values(), "evicted": evicted})
        }
        "criteria_cmp" => {
            let fields: Vec<expr::Expr> = strs(&v["fields"]).iter().map(|s| field_expr(s)).collect();
            let fields = Rc::new(fields);
            let asc: Vec<bool> = v["asc"].as_array().unwrap().iter().map(|b| b.as_bool().unwrap()).collect();
            let asc = Rc::new(asc);
            let a = util::Criteria::new(fields.clone(), strs(&v["a"]), asc.clone());
            let b = util::Criteria::new(fields.clone(), strs(&v["b"]), asc.clone());
            json!(format!("{:?}", a.cmp(&b)))
        }
        "lex" => json!(lexems(strs(&v["parts"]))),
        "parse" => {
            let mut p = parser::Parser::new();
            match p.parse(strs(&v["parts"]), false) {
                Ok(q) => json!({"ok": format!("{:?}", q)}),
                Err(e) => json!({"err": e}),
            }
        }
        "parse_json" => {
            let mut p = parser::Parser::new();
            match p.parse(strs(&v["parts"]), false) {
                Ok(q) => json!({"ok": {
                    "fields": serde_json::to_value(&q.fields).unwrap(),
                    "roots": format!("{:?}", q.roots),
                    "expr": serde_json::to_value(&q.expr).unwrap(),
                    "grouping": serde_json::to_value(&*q.grouping_fields).unwrap(),
                    "ordering": serde_json::to_value(&*q.ordering_fields).unwrap(),
                    "asc": serde_json::to_value(&*q.ordering_asc).unwrap(),
                    "limit": q.limit,
                    "format": format!("{:?}", q.output_format),
                }}),
                Err(e) => json!({"err": e}),
            }
        }
        "filesize" => json!(util::parse_filesize(v["s"].as_str().unwrap())),
        "fmtsize" => json!(util::format_filesize(v["n"].as_u64().unwrap(), v["m"].as_str().unwrap())),
        "glob" => json!(util::convert_glob_to_pattern(v["s"].as_str().unwrap())),
        "like" => json!(util::convert_like_to_pattern(v["s"].as_str().unwrap())),
        "is_glob" => json!(util::is_glob(v["s"].as_str().unwrap())),
        // Variant::to_int on a value that only has its text (a literal in a comparison with an integer column)
        "to_int" => json!(function::Variant::from_string(&v["s"].as_str().unwrap().to_string()).to_int()),
        // the filters the real search_upstream_* builds from an ignore file with the given lines, placed in the
        // directory `dir` (created by the caller; canonical), and the verdicts of matches_*_filter on `dir/rel`
        "ignore" => {
            let dir = std::path::PathBuf::from(v["dir"].as_str().unwrap());
            let rels = strs(&v["rels"]);
            if v["tool"].as_str().unwrap() == "docker" {
                let mut fs = vec![];
                ignore::docker::search_upstream_dockerignore(&mut fs, &dir);
                let verdicts: Vec<bool> = rels.iter().map(|r| ignore::docker::matches_dockerignore_filter(&fs, &format!("{}/{}", dir.display(), r))).collect();
                json!({"filters": fs.iter().map(|f| json!([f.regex.as_str(), f.negate])).collect::<Vec<_>>(), "verdicts": verdicts})
            } else {
                let mut fs = vec![];
                ignore::hg::search_upstream_hgignore(&mut fs, &dir);
                let verdicts: Vec<bool> = rels.iter().map(|r| ignore::hg::matches_hgignore_filter(&fs, &format!("{}/{}", dir.display(), r))).collect();
                json!({"filters": fs.iter().map(|f| json!([f.regex.as_str(), false])).collect::<Vec<_>>(), "verdicts": verdicts})
            }
        }
        "regex" => match regex::Regex::new(v["p"].as_str().unwrap()) {
            Ok(r) => json!({"ok": r.is_match(v["s"].as_str().unwrap())}),
            Err(e) => json!({"err": format!("{}", e)}),
        },
        "func" => {
            let f = function::Function::from_str(v["f"].as_str().unwrap()).ok();
            let r = function::get_value(&f, v["arg"].as_str().unwrap().to_string(), strs(&v["args"]), None, &None);
            json!({"s": r.to_string(), "t": format!("{:?}", r.get_type())})
        }
        "agg" => {
            let f = function::Function::from_str(v["f"].as_str().unwrap()).ok();
            let mut rows = vec![];
            for r in v["rows"].as_array().unwrap() {
                let mut m = std::collections::HashMap::new();
                for (k, val) in r.as_object().unwrap() {
                    m.insert(k.clone(), val.as_str().unwrap().to_string());
                }
                rows.push(m);
            }
            let dv = v["default"].as_str().map(|s| s.to_string());
            json!(function::get_aggregate_value(&f, &rows, v["key"].as_str().unwrap().to_string(), &dv))
        }
        "datetime" => match util::parse_datetime(v["s"].as_str().unwrap()) {
            Ok((a, b)) => json!({"ok": [a.and_utc().timestamp(), b.and_utc().timestamp()]}),
            Err(e) => json!({"err": e}),
        },
        "format_mode" => json!(mode::format_mode(v["m"].as_u64().unwrap() as u32)),
        "str_to_bool" => json!(util::str_to_bool(v["s"].as_str().unwrap())),
        "op_from" => json!(operators::Op::from(v["s"].as_str().unwrap().to_string()).map(|o| format!("{:?}", o))),
        "op_negate" => json!(operators::Op::from(v["s"].as_str().unwrap().to_string()).map(|o| format!("{:?}", operators::Op::negate(o)))),
        "field_from" => json!(field::Field::from_str(v["s"].as_str().unwrap()).ok().map(|f| format!("{:?}", f))),
        "function_from" => json!(function::Function::from_str(v["s"].as_str().unwrap()).ok().map(|f| format!("{:?}", f))),
        "write_rows" => {
            // ResultsWriter exactly as check_file / list_search_results drive it (streamed path)
            let fmt = query::OutputFormat::from(v["format"].as_str().unwrap()).unwrap();
            let mut w = output::ResultsWriter::new(&fmt);
            let mut buf = util::WritableBuffer::new();
            let _ = w.write_header(&mut buf);
            let sep = v["separators"].as_bool().unwrap_or(true);
            let mut first = true;
            for row in v["rows"].as_array().unwrap() {
                if !first && sep {
                    let _ = w.write_row_separator(&mut buf);
                }
                first = false;
                let items: Vec<(String, String)> = row.as_array().unwrap().iter().map(|kv| (kv[0].as_str().unwrap().to_string(), kv[1].as_str().unwrap().to_string())).collect();
                let _ = w.write_row(&mut buf, items);
            }
            let _ = w.write_footer(&mut buf);
            json!(String::from(buf))
        }
        _ => json!({"unknown": cmd}),
    }
}

fn main() {
    panic::set_hook(Box::new(|_| {}));
    let stdin = std::io::stdin();
    let stdout = std::io::stdout();
    let mut out = stdout.lock();
    for line in stdin.lock().lines() {
        let line = match line {
            Ok(l) => l,
            Err(_) => break,
        };
        if line.trim().is_empty() {
            continue;
        }
        let v: Value = match serde_json::from_str(&line) {
            Ok(v) => v,
            Err(e) => {
                writeln!(out, "{}", json!({"bad_request": format!("{}", e)})).unwrap();
                continue;
            }
        };
        let r = panic::catch_unwind(panic::AssertUnwindSafe(|| handle(&v)));
        let res = match r {
            Ok(val) => json!({"r": val}),
            Err(e) => {
                let msg = if let Some(s) = e.downcast_ref::<String>() { s.clone() } else if let Some(s) = e.downcast_ref::<&str>() { s.to_string() } else { "panic".into() };
                json!({"panic": msg})
            }
        };
        writeln!(out, "{}", res).unwrap();
    }
}
