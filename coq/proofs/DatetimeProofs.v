(* Theorems about model/Datetime.v: interval semantics of date literals at each precision,
   relative days, format/parse round trip, the algebra of the eight comparison operators, and
   the absence of panics (every unwrap site of parse_datetime is unreachable). *)
From Coq Require Import String ZArith NArith List Lia Bool.
From FS Require Import lib.Str lib.Res lib.Civil model.Datetime.
Import ListNotations.
Open Scope Z_scope.

Ltac Zify.zify_post_hook ::= Z.div_mod_to_equations.

(* ------------------------------------------------------------------------- *)
(* Digit characters                                                          *)
(* ------------------------------------------------------------------------- *)

Lemma dchar_range k : 0 <= k <= 9 -> (48 <= dchar k <= 57)%N.
Proof. intros Hk. unfold dchar. lia. Qed.

Lemma is_digit_dchar k : 0 <= k <= 9 -> is_digit (dchar k) = true.
Proof.
  intros Hk. pose proof (dchar_range k Hk) as R. unfold is_digit.
  apply andb_true_iff. split; apply N.leb_le; lia.
Qed.

Lemma is_digit_is_nd c : is_digit c = true -> is_nd c = true.
Proof. intros H. exact H. Qed.

(* the class [0-9] of DATE_REGEX is exactly the ASCII digits *)
Lemma is_nd_range c : is_nd c = true <-> (48 <= c <= 57)%N.
Proof.
  unfold is_nd, is_digit. rewrite andb_true_iff, !N.leb_le. tauto.
Qed.

Lemma is_nd_dchar k : 0 <= k <= 9 -> is_nd (dchar k) = true.
Proof. intros Hk. apply is_digit_is_nd, is_digit_dchar, Hk. Qed.

Lemma dval_dchar k : 0 <= k -> Z.of_N (dchar k) - 48 = k.
Proof. intros Hk. unfold dchar. lia. Qed.

Lemma is_digit_range c : is_digit c = true -> (48 <= c <= 57)%N.
Proof.
  unfold is_digit. intros H. apply andb_true_iff in H. destruct H as [H1 H2].
  apply N.leb_le in H1, H2. lia.
Qed.

(* a run of exactly n `[0-9]` characters *)
Definition digits_n (n : nat) (l : str) : Prop :=
  length l = n /\ Forall (fun c => is_nd c = true) l.

Lemma digits_pad2 x : 0 <= x < 100 -> digits_n 2 (pad2 x).
Proof.
  intros Hx. split; [reflexivity|]. unfold pad2.
  repeat constructor; apply is_nd_dchar; lia.
Qed.

Lemma digits_pad4 y : 0 <= y <= 9999 -> digits_n 4 (pad4 y).
Proof.
  intros Hy. split; [reflexivity|]. unfold pad4.
  repeat constructor; apply is_nd_dchar; lia.
Qed.

(* ------------------------------------------------------------------------- *)
(* Number parsing                                                            *)
(* ------------------------------------------------------------------------- *)

Definition dec_val (l : str) : Z := fold_left (fun a c => a * 10 + (Z.of_N c - 48)) l 0.

Lemma parse_dec_acc_val l : forall acc, Forall (fun c => is_digit c = true) l ->
  parse_dec_acc acc l = Some (fold_left (fun a c => a * 10 + (Z.of_N c - 48)) l acc).
Proof.
  induction l as [|c l IH]; intros acc H; cbn [parse_dec_acc fold_left]; [reflexivity|].
  rewrite (Forall_inv H). apply IH. exact (Forall_inv_tail H).
Qed.

Lemma parse_dec_val l : l <> [] -> Forall (fun c => is_digit c = true) l ->
  parse_dec l = Some (dec_val l).
Proof.
  intros Hne H. unfold parse_dec, dec_val. destruct l as [|c l]; [congruence|].
  now apply parse_dec_acc_val.
Qed.

Lemma parse_dec_pad2 x : 0 <= x < 100 -> parse_dec (pad2 x) = Some x.
Proof.
  intros Hx. unfold pad2, parse_dec. cbn [parse_dec_acc].
  rewrite !is_digit_dchar by lia. rewrite !dval_dchar by lia. f_equal. lia.
Qed.

Lemma parse_dec_pad4 y : 0 <= y <= 9999 -> parse_dec (pad4 y) = Some y.
Proof.
  intros Hy. unfold pad4, parse_dec. cbn [parse_dec_acc].
  rewrite !is_digit_dchar by lia. rewrite !dval_dchar by lia. f_equal. lia.
Qed.

(* ------------------------------------------------------------------------- *)
(* The scanner on digit runs                                                 *)
(* ------------------------------------------------------------------------- *)

Lemma take_digits_zero l : take_digits 0 l = ([], l).
Proof. destruct l; reflexivity. Qed.

Lemma take_digits_nil n : take_digits n [] = ([], []).
Proof. destruct n; reflexivity. Qed.

Lemma take_digits_app n ds r : digits_n n ds -> take_digits n (ds ++ r) = (ds, r).
Proof.
  intros [Hlen Hall]. subst n. revert Hall. induction ds as [|c ds IH]; intros Hall.
  - cbn [length app]. apply take_digits_zero.
  - cbn [length app take_digits]. rewrite (Forall_inv Hall), (IH (Forall_inv_tail Hall)). reflexivity.
Qed.

Lemma take_digits_split n : forall l, fst (take_digits n l) ++ snd (take_digits n l) = l.
Proof.
  induction n as [|n IH]; intros l.
  - now rewrite take_digits_zero.
  - destruct l as [|c r]; [reflexivity|]. cbn [take_digits].
    destruct (is_nd c); [|reflexivity].
    specialize (IH r). destruct (take_digits n r) as [ds rest]. cbn [fst snd app] in *. now rewrite IH.
Qed.

Lemma opt_char_hit c r : opt_char c (c :: r) = r.
Proof. cbn [opt_char]. now rewrite N.eqb_refl. Qed.

Lemma digits_n_nonempty n ds : digits_n (S n) ds -> exists c r, ds = c :: r.
Proof. intros [Hlen _]. destruct ds as [|c r]; [discriminate|eauto]. Qed.

Lemma opt_group_digits ds r : digits_n 2 ds -> opt_group (ds ++ r) = (Some ds, r).
Proof.
  intros H. unfold opt_group. rewrite (take_digits_app 2 ds r H).
  destruct (digits_n_nonempty _ _ H) as (c & r' & ->). reflexivity.
Qed.

Lemma opt_group_digits_end ds : digits_n 2 ds -> opt_group ds = (Some ds, []).
Proof. intros H. rewrite <- (app_nil_r ds) at 1. now apply opt_group_digits. Qed.

Lemma opt_group_nil : opt_group [] = (None, []).
Proof. reflexivity. Qed.

Lemma scan_time_day : scan_time [] = (None, None, None).
Proof. reflexivity. Qed.

Lemma scan_time_hour hd : digits_n 2 hd -> scan_time (32%N :: hd) = (Some hd, None, None).
Proof.
  intros Hh. unfold scan_time. rewrite opt_char_hit, (opt_group_digits_end hd Hh).
  reflexivity.
Qed.

Lemma scan_time_minute hd md : digits_n 2 hd -> digits_n 2 md ->
  scan_time (32%N :: hd ++ 58%N :: md) = (Some hd, Some md, None).
Proof.
  intros Hh Hm. unfold scan_time.
  rewrite opt_char_hit, (opt_group_digits hd _ Hh), opt_char_hit, (opt_group_digits_end md Hm).
  reflexivity.
Qed.

Lemma scan_time_second hd md sd : digits_n 2 hd -> digits_n 2 md -> digits_n 2 sd ->
  scan_time (32%N :: hd ++ 58%N :: md ++ 58%N :: sd) = (Some hd, Some md, Some sd).
Proof.
  intros Hh Hm Hs. unfold scan_time.
  rewrite opt_char_hit, (opt_group_digits hd _ Hh), opt_char_hit, (opt_group_digits md _ Hm),
    opt_char_hit, (opt_group_digits_end sd Hs).
  reflexivity.
Qed.

Lemma match_at_lit yd sep1 md sep2 dd tl :
  digits_n 4 yd -> digits_n 2 md -> digits_n 2 dd -> is_sep sep1 = true -> is_sep sep2 = true ->
  match_at (yd ++ sep1 :: md ++ sep2 :: dd ++ tl)
  = let '(h, mi, se) := scan_time tl in Some (mkCaps yd md dd h mi se).
Proof.
  intros Hy Hm Hd H1 H2. unfold match_at.
  rewrite (take_digits_app 4 yd _ Hy).
  destruct Hy as [Ly _]. rewrite Ly. cbn [Nat.eqb]. rewrite H1.
  rewrite (take_digits_app 2 md _ Hm).
  destruct (digits_n_nonempty _ _ Hm) as (cm & rm & Em).
  destruct (digits_n_nonempty _ _ Hd) as (cd & rd & Ed).
  rewrite Em at 1. rewrite H2.
  rewrite (take_digits_app 2 dd _ Hd).
  rewrite Ed at 1. reflexivity.
Qed.

Lemma find_date_head l c : match_at l = Some c -> find_date l = Some c.
Proof. intros H. destruct l; cbn [find_date]; now rewrite H. Qed.

(* fewer than 5 characters can never match *)
Lemma match_at_short l : (length l <= 4)%nat -> match_at l = None.
Proof.
  intros Hl. unfold match_at.
  pose proof (take_digits_split 4 l) as Hs.
  destruct (take_digits 4 l) as [yd r1]. cbn [fst snd] in Hs.
  destruct (Nat.eqb (length yd) 4) eqn:E4; [|reflexivity].
  apply Nat.eqb_eq in E4.
  assert (Hr : length r1 = 0%nat).
  { apply (f_equal (@length N)) in Hs. rewrite app_length in Hs. lia. }
  destruct r1; [reflexivity|discriminate].
Qed.

Lemma find_date_short l : (length l <= 4)%nat -> find_date l = None.
Proof.
  induction l as [|c l IH]; intros Hl; cbn [find_date]; rewrite (match_at_short _ Hl); [reflexivity|].
  apply IH. cbn [length] in Hl. lia.
Qed.

(* ------------------------------------------------------------------------- *)
(* Keywords                                                                  *)
(* ------------------------------------------------------------------------- *)

Lemma str_eqb_head_ne c c' r r' : (c =? c')%N = false -> str_eqb (c :: r) (c' :: r') = false.
Proof. intros H. cbn [str_eqb]. now rewrite H. Qed.

Lemma not_keyword_lt c r : (c < 116)%N ->
  str_eqb (c :: r) lit_today = false /\ str_eqb (c :: r) lit_yesterday = false.
Proof.
  intros Hc. unfold lit_today, lit_yesterday.
  split; apply str_eqb_head_ne; apply N.eqb_neq; lia.
Qed.

Lemma not_keyword_pad4 y r : 0 <= y <= 9999 ->
  str_eqb (pad4 y ++ r) lit_today = false /\ str_eqb (pad4 y ++ r) lit_yesterday = false.
Proof.
  intros Hy. unfold pad4. cbn [app]. apply not_keyword_lt.
  assert (Hk : 0 <= y / 1000 <= 9) by lia.
  pose proof (dchar_range _ Hk). lia.
Qed.

(* ------------------------------------------------------------------------- *)
(* Interval semantics of rendered literals                                   *)
(* ------------------------------------------------------------------------- *)

Definition wf_lit (y m d hh mm ss : Z) (sep : N) : Prop :=
  0 <= y <= 9999 /\ valid_date y m d = true /\ 0 <= hh < 24 /\ 0 <= mm < 60 /\ 0 <= ss < 60
  /\ is_sep sep = true.

(* the interval a literal of precision p denotes *)
Definition lit_interval (p : prec) (y m d hh mm ss : Z) : Z * Z :=
  match p with
  | PDay => (secs_of y m d 0 0 0, secs_of y m d 23 59 59)
  | PHour => (secs_of y m d hh 0 0, secs_of y m d hh 59 59)
  | PMinute => (secs_of y m d hh mm 0, secs_of y m d hh mm 59)
  | PSecond => (secs_of y m d hh mm ss, secs_of y m d hh mm ss)
  end.

Lemma with_hms_ok dn h mi se : h < 24 -> mi < 60 -> se < 60 ->
  with_hms dn h mi se = Some (dn * 86400 + h * 3600 + mi * 60 + se).
Proof.
  intros Hh Hm Hs. unfold with_hms.
  destruct (Z.ltb_spec h 24) as [_|F]; [|lia].
  destruct (Z.ltb_spec mi 60) as [_|F]; [|lia].
  destruct (Z.ltb_spec se 60) as [_|F]; [|lia]. reflexivity.
Qed.

Lemma month_day_bounds y m d : valid_date y m d = true -> 0 <= m < 100 /\ 0 <= d < 100.
Proof.
  intros Hv. destruct (valid_date_bounds y m d Hv) as [Hm Hd].
  pose proof (days_in_month_bounds y m). lia.
Qed.

Theorem parse_render : forall now p y m d hh mm ss sep,
  wf_lit y m d hh mm ss sep ->
  parse_datetime now (render_lit p y m d hh mm ss sep) = Det (Ok (lit_interval p y m d hh mm ss)).
Proof.
  intros now p y m d hh mm ss sep (Hy & Hv & Hh & Hmi & Hs & Hsep).
  destruct (month_day_bounds y m d Hv) as [Bm Bd].
  pose proof (digits_pad4 y Hy) as Dy. pose proof (digits_pad2 m Bm) as Dm.
  pose proof (digits_pad2 d Bd) as Dd.
  pose proof (digits_pad2 hh ltac:(lia)) as Dh. pose proof (digits_pad2 mm ltac:(lia)) as Dmi.
  pose proof (digits_pad2 ss ltac:(lia)) as Ds.
  unfold parse_datetime, render_lit.
  destruct (not_keyword_pad4 y
    (sep :: pad2 m ++ sep :: pad2 d ++
       match p with
       | PDay => []
       | PHour => 32%N :: pad2 hh
       | PMinute => 32%N :: pad2 hh ++ 58%N :: pad2 mm
       | PSecond => 32%N :: pad2 hh ++ 58%N :: pad2 mm ++ 58%N :: pad2 ss
       end) Hy) as [K1 K2].
  rewrite K1, K2. clear K1 K2.
  match goal with |- context [find_date ?l] => set (lit := l) end.
  assert (Hfind : exists h mi se, find_date lit = Some (mkCaps (pad4 y) (pad2 m) (pad2 d) h mi se)
            /\ (h, mi, se) = match p with
                             | PDay => (None, None, None)
                             | PHour => (Some (pad2 hh), None, None)
                             | PMinute => (Some (pad2 hh), Some (pad2 mm), None)
                             | PSecond => (Some (pad2 hh), Some (pad2 mm), Some (pad2 ss))
                             end).
  { subst lit.
    match goal with |- context [find_date (_ ++ _ :: _ ++ _ :: _ ++ ?tl)] => set (tail := tl) end.
    pose proof (match_at_lit (pad4 y) sep (pad2 m) sep (pad2 d) tail Dy Dm Dd Hsep Hsep) as M.
    assert (St : scan_time tail = match p with
                             | PDay => (None, None, None)
                             | PHour => (Some (pad2 hh), None, None)
                             | PMinute => (Some (pad2 hh), Some (pad2 mm), None)
                             | PSecond => (Some (pad2 hh), Some (pad2 mm), Some (pad2 ss))
                             end).
    { subst tail. destruct p.
      - apply scan_time_day.
      - now apply scan_time_hour.
      - now apply scan_time_minute.
      - now apply scan_time_second. }
    destruct (scan_time tail) as [[h mi] se].
    exists h, mi, se. split; [now apply find_date_head|exact St]. }
  destruct Hfind as (h & mi & se & Hf & Hg). rewrite Hf. clear Hf.
  f_equal. unfold eval_caps. cbn [c_year c_month c_day c_hour c_min c_sec].
  rewrite (parse_dec_pad4 y Hy), (parse_dec_pad2 m Bm), (parse_dec_pad2 d Bd).
  cbn [unwrap bind].
  destruct p; inversion Hg; subst h mi se; unfold opt_field;
    rewrite ?(parse_dec_pad2 hh) by lia; rewrite ?(parse_dec_pad2 mm) by lia;
    rewrite ?(parse_dec_pad2 ss) by lia;
    cbn [unwrap bind fst snd]; rewrite Hv;
    rewrite !with_hms_ok by lia; cbn [bind lit_interval]; unfold secs_of; reflexivity.
Qed.

Lemma secs_of_aligned y m d : secs_of y m d 0 0 0 mod 86400 = 0.
Proof. unfold secs_of. lia. Qed.

(* `YYYY-MM-DD` denotes the whole day *)
Theorem interval_day : forall now y m d hh mm ss sep,
  wf_lit y m d hh mm ss sep ->
  exists a b,
    parse_datetime now (render_lit PDay y m d hh mm ss sep) = Det (Ok (a, b))
    /\ a = secs_of y m d 0 0 0 /\ b - a + 1 = 86400 /\ a mod 86400 = 0
    /\ a <= secs_of y m d hh mm ss <= b.
Proof.
  intros now y m d hh mm ss sep H. pose proof (parse_render now PDay _ _ _ _ _ _ _ H) as P.
  destruct H as (Hy & Hv & Hh & Hmi & Hs & Hsep).
  eexists _, _. split; [exact P|]. unfold secs_of. repeat split; lia.
Qed.

(* `YYYY-MM-DD HH` denotes the whole hour *)
Theorem interval_hour : forall now y m d hh mm ss sep,
  wf_lit y m d hh mm ss sep ->
  exists a b,
    parse_datetime now (render_lit PHour y m d hh mm ss sep) = Det (Ok (a, b))
    /\ a = secs_of y m d hh 0 0 /\ b - a + 1 = 3600 /\ a mod 3600 = 0
    /\ a <= secs_of y m d hh mm ss <= b.
Proof.
  intros now y m d hh mm ss sep H. pose proof (parse_render now PHour _ _ _ _ _ _ _ H) as P.
  destruct H as (Hy & Hv & Hh & Hmi & Hs & Hsep).
  eexists _, _. split; [exact P|]. unfold secs_of. repeat split; lia.
Qed.

(* `YYYY-MM-DD HH:MM` denotes the whole minute *)
Theorem interval_minute : forall now y m d hh mm ss sep,
  wf_lit y m d hh mm ss sep ->
  exists a b,
    parse_datetime now (render_lit PMinute y m d hh mm ss sep) = Det (Ok (a, b))
    /\ a = secs_of y m d hh mm 0 /\ b - a + 1 = 60 /\ a mod 60 = 0
    /\ a <= secs_of y m d hh mm ss <= b.
Proof.
  intros now y m d hh mm ss sep H. pose proof (parse_render now PMinute _ _ _ _ _ _ _ H) as P.
  destruct H as (Hy & Hv & Hh & Hmi & Hs & Hsep).
  eexists _, _. split; [exact P|]. unfold secs_of. repeat split; lia.
Qed.

(* `YYYY-MM-DD HH:MM:SS` denotes a single second *)
Theorem interval_second : forall now y m d hh mm ss sep,
  wf_lit y m d hh mm ss sep ->
  exists a b,
    parse_datetime now (render_lit PSecond y m d hh mm ss sep) = Det (Ok (a, b))
    /\ a = secs_of y m d hh mm ss /\ b - a + 1 = 1.
Proof.
  intros now y m d hh mm ss sep H. pose proof (parse_render now PSecond _ _ _ _ _ _ _ H) as P.
  eexists _, _. split; [exact P|]. split; [reflexivity|lia].
Qed.

(* ------------------------------------------------------------------------- *)
(* Relative days                                                             *)
(* ------------------------------------------------------------------------- *)

Theorem relative_today : forall now,
  parse_datetime now (s "today") = Det (Ok (now * 86400, now * 86400 + 86399)).
Proof. intros now. reflexivity. Qed.

Theorem relative_yesterday : forall now,
  parse_datetime now (s "yesterday") = Det (Ok ((now - 1) * 86400, (now - 1) * 86400 + 86399)).
Proof. intros now. reflexivity. Qed.

Lemma utf8_len1_ascii c : (c < 128)%N -> utf8_len1 c = 1.
Proof. intros H. unfold utf8_len1. destruct (N.ltb_spec c 128) as [_|F]; [reflexivity|lia]. Qed.

Lemma byte_len_ascii l : Forall (fun c => (c < 128)%N) l -> byte_len l = Z.of_nat (length l).
Proof.
  induction l as [|c l IH]; intros H; [reflexivity|].
  cbn [byte_len length]. rewrite (utf8_len1_ascii c (Forall_inv H)), (IH (Forall_inv_tail H)). lia.
Qed.

(* sign followed by 1..3 ASCII digits: [now + value] / [now - value] *)
Theorem relative_signed : forall now ds,
  (1 <= length ds <= 3)%nat -> Forall (fun c => is_digit c = true) ds ->
  parse_datetime now (43%N :: ds) = Det (Ok (day_interval (now + dec_val ds)))
  /\ parse_datetime now (45%N :: ds) = Det (Ok (day_interval (now - dec_val ds))).
Proof.
  intros now ds Hlen Hd.
  assert (Hne : ds <> []) by (destruct ds; [cbn in Hlen; lia|discriminate]).
  assert (Hascii : Forall (fun c => (c < 128)%N) ds).
  { eapply Forall_impl; [|exact Hd]. intros c Hc. cbv beta in Hc. apply is_digit_range in Hc. lia. }
  assert (G : forall sg : N, (sg = 43 \/ sg = 45)%N ->
            parse_datetime now (sg :: ds) =
            match parse_i64 (sg :: ds) with
            | Some n => Det (Ok (day_interval (now + n)))
            | None => Det (Exit2 (msg_parse ++ sg :: ds))
            end).
  { intros sg Hsg. unfold parse_datetime.
    destruct (not_keyword_lt sg ds ltac:(lia)) as [K1 K2]. rewrite K1, K2.
    rewrite find_date_short by (cbn [length]; lia).
    assert (B : byte_len (sg :: ds) = 1 + Z.of_nat (length ds)).
    { cbn [byte_len]. rewrite (utf8_len1_ascii sg) by lia. now rewrite byte_len_ascii. }
    rewrite B.
    destruct (Z.leb_spec 5 (1 + Z.of_nat (length ds))) as [F|_]; [lia|].
    destruct (Z.leb_spec 2 (1 + Z.of_nat (length ds))) as [_|F]; [|lia].
    assert (S : (starts_with [43%N] (sg :: ds) || starts_with [45%N] (sg :: ds)) = true).
    { destruct Hsg as [-> | ->]; reflexivity. }
    rewrite S. reflexivity. }
  split.
  - rewrite (G 43%N) by (left; reflexivity). cbn [parse_i64].
    now rewrite (parse_dec_val ds Hne Hd).
  - rewrite (G 45%N) by (right; reflexivity). cbn [parse_i64].
    rewrite (parse_dec_val ds Hne Hd). cbn [option_map]. reflexivity.
Qed.

(* a canonical decimal rendering of 0..999 *)
Definition render_nat (n : Z) : str :=
  if n <? 10 then [dchar n]
  else if n <? 100 then pad2 n
  else [dchar (n / 100); dchar (n / 10 mod 10); dchar (n mod 10)].

Lemma render_nat_ok n : 0 <= n <= 999 ->
  (1 <= length (render_nat n) <= 3)%nat
  /\ Forall (fun c => is_digit c = true) (render_nat n)
  /\ dec_val (render_nat n) = n.
Proof.
  intros Hn. unfold render_nat.
  destruct (Z.ltb_spec n 10) as [L1|G1]; [|destruct (Z.ltb_spec n 100) as [L2|G2]].
  - split; [cbn [length]; lia|]. split; [repeat constructor; apply is_digit_dchar; lia|].
    unfold dec_val. cbn [fold_left]. rewrite dval_dchar by lia. lia.
  - split; [cbn [length pad2]; lia|]. split; [unfold pad2; repeat constructor; apply is_digit_dchar; lia|].
    unfold dec_val, pad2. cbn [fold_left]. rewrite !dval_dchar by lia. lia.
  - split; [cbn [length]; lia|]. split; [repeat constructor; apply is_digit_dchar; lia|].
    unfold dec_val. cbn [fold_left]. rewrite !dval_dchar by lia. lia.
Qed.

(* today / yesterday / +N / -N denote [d*86400, d*86400 + 86399] for d = now, now-1, now+N, now-N *)
Theorem relative_days : forall now,
  parse_datetime now (s "today") = Det (Ok (now * 86400, now * 86400 + 86399))
  /\ parse_datetime now (s "yesterday") = Det (Ok ((now - 1) * 86400, (now - 1) * 86400 + 86399))
  /\ forall n, 0 <= n <= 999 ->
       parse_datetime now (43%N :: render_nat n) = Det (Ok ((now + n) * 86400, (now + n) * 86400 + 86399))
       /\ parse_datetime now (45%N :: render_nat n) = Det (Ok ((now - n) * 86400, (now - n) * 86400 + 86399)).
Proof.
  intros now. split; [apply relative_today|]. split; [apply relative_yesterday|].
  intros n Hn. destruct (render_nat_ok n Hn) as (H1 & H2 & H3).
  destruct (relative_signed now (render_nat n) H1 H2) as [P M]. rewrite H3 in P, M.
  split; assumption.
Qed.

(* ------------------------------------------------------------------------- *)
(* parse_datetime never panics                                               *)
(* ------------------------------------------------------------------------- *)

Definition all_digits (g : str) : Prop := Forall (fun c => is_digit c = true) g.

(* a participating capture group: a non-empty run of at most n ASCII digits *)
Definition good (n : nat) (g : str) : Prop := g <> [] /\ (length g <= n)%nat /\ all_digits g.
Definition good_opt (g : option str) : Prop := match g with Some ds => good 2 ds | None => True end.
Definition good_caps (c : caps) : Prop :=
  good 4 (c_year c) /\ good 2 (c_month c) /\ good 2 (c_day c)
  /\ good_opt (c_hour c) /\ good_opt (c_min c) /\ good_opt (c_sec c).

(* whatever the input, a run taken by the scanner consists of at most n ASCII digits *)
Lemma take_digits_digits n : forall l,
  all_digits (fst (take_digits n l)) /\ (length (fst (take_digits n l)) <= n)%nat.
Proof.
  induction n as [|n IH]; intros l.
  - rewrite take_digits_zero. split; [constructor|cbn [fst length]; lia].
  - destruct l as [|c r]; [split; [constructor|cbn [take_digits fst length]; lia]|]. cbn [take_digits].
    destruct (is_nd c) eqn:D.
    + destruct (IH r) as [F L]. destruct (take_digits n r) as [ds rest]. cbn [fst length] in *.
      split; [constructor; [exact D|exact F]|lia].
    + split; [constructor|cbn [fst length]; lia].
Qed.

Lemma opt_group_good l : good_opt (fst (opt_group l)).
Proof.
  unfold opt_group. destruct (take_digits_digits 2 l) as [F L].
  destruct (take_digits 2 l) as [ds rest]. cbn [fst] in *.
  destruct ds as [|d ds]; [exact I|]. split; [discriminate|]. split; assumption.
Qed.

Lemma scan_time_good l :
  let '(h, mi, se) := scan_time l in good_opt h /\ good_opt mi /\ good_opt se.
Proof.
  unfold scan_time.
  pose proof (opt_group_good (opt_char 32 l)) as G1. destruct (opt_group (opt_char 32 l)) as [h r1].
  pose proof (opt_group_good (opt_char 58 r1)) as G2. destruct (opt_group (opt_char 58 r1)) as [mi r2].
  pose proof (opt_group_good (opt_char 58 r2)) as G3. destruct (opt_group (opt_char 58 r2)) as [se r3].
  cbn [fst] in *. now repeat split.
Qed.

Lemma match_at_good l c : match_at l = Some c -> good_caps c.
Proof.
  unfold match_at.
  destruct (take_digits_digits 4 l) as [Fy Ly]. destruct (take_digits 4 l) as [yd r1]. cbn [fst] in *.
  destruct (Nat.eqb_spec (length yd) 4) as [Ey|]; [|discriminate].
  destruct r1 as [|c1 r2]; [discriminate|]. destruct (is_sep c1); [|discriminate].
  destruct (take_digits_digits 2 r2) as [Fm Lm]. destruct (take_digits 2 r2) as [md r3]. cbn [fst] in *.
  destruct md as [|m0 md]; [discriminate|]. destruct r3 as [|c2 r4]; [discriminate|].
  destruct (is_sep c2); [|discriminate].
  destruct (take_digits_digits 2 r4) as [Fd Ld]. destruct (take_digits 2 r4) as [dd r5]. cbn [fst] in *.
  destruct dd as [|d0 dd]; [discriminate|].
  pose proof (scan_time_good r5) as St. destruct (scan_time r5) as [[h mi] se].
  intros [= <-]. unfold good_caps, good. cbn [c_year c_month c_day c_hour c_min c_sec].
  destruct St as (G1 & G2 & G3). repeat split; try assumption; try discriminate.
  intros ->. discriminate.
Qed.

Lemma find_date_good l : forall c, find_date l = Some c -> good_caps c.
Proof.
  induction l as [|x l IH]; intros c; cbn [find_date].
  - destruct (match_at []) eqn:M; [|discriminate]. intros [= <-]. now apply (match_at_good []).
  - destruct (match_at (x :: l)) eqn:M.
    + intros [= <-]. now apply (match_at_good (x :: l)).
    + apply IH.
Qed.

(* `cap[n].parse()` succeeds on every capture *)
Lemma parse_dec_good n g : good n g -> parse_dec g = Some (dec_val g).
Proof. intros (Hne & _ & F). now apply parse_dec_val. Qed.

Lemma opt_field_good st g lo hi : good_opt g -> exists p, opt_field st g lo hi = Ok p.
Proof.
  unfold opt_field. destruct g as [ds|]; [|now eexists]. intros G.
  rewrite (parse_dec_good 2 ds G). cbn [unwrap bind]. now eexists.
Qed.

(* the `Some(cap)` arm: a value or one of the two Err messages, never an unwrap failure *)
Lemma eval_caps_outcome x c : good_caps c ->
  (exists ab, eval_caps x c = Ok ab)
  \/ eval_caps x c = Exit2 (msg_parse ++ x) \/ eval_caps x c = Exit2 (msg_convert ++ x).
Proof.
  intros (Gy & Gm & Gd & Gh & Gmi & Gs). unfold eval_caps.
  rewrite (parse_dec_good _ _ Gy), (parse_dec_good _ _ Gm), (parse_dec_good _ _ Gd). cbn [unwrap bind].
  destruct (opt_field_good site_hour _ 0 23 Gh) as [ph Eh]. rewrite Eh.
  destruct (opt_field_good site_min _ 0 59 Gmi) as [pm Emi]. rewrite Emi.
  destruct (opt_field_good site_sec _ 0 59 Gs) as [ps Es]. rewrite Es. cbn [bind].
  destruct (valid_date _ _ _); [|right; right; reflexivity].
  destruct (with_hms _ _ _ _); [|right; left; reflexivity].
  destruct (with_hms _ _ _ _); [left; now eexists|right; left; reflexivity].
Qed.

(* For EVERY input (any code points, any clock) parse_datetime returns a value, returns one of
   its two Err messages, or hands the text to chrono_english; the latter only for a text of at
   least 5 bytes in which DATE_REGEX finds nothing. *)
Theorem parse_datetime_outcomes : forall now x,
  match parse_datetime now x with
  | Unmodelled => find_date x = None /\ 5 <= byte_len x
  | Det (Ok _) => True
  | Det (Exit2 m) => m = msg_parse ++ x \/ m = msg_convert ++ x
  | Det _ => False
  end.
Proof.
  intros now x. unfold parse_datetime.
  destruct (str_eqb x lit_today); [exact I|]. destruct (str_eqb x lit_yesterday); [exact I|].
  destruct (find_date x) as [c|] eqn:F.
  - destruct (eval_caps_outcome x c (find_date_good x c F)) as [[ab E]|[E|E]]; rewrite E; auto.
  - destruct (5 <=? byte_len x) eqn:B; [split; [reflexivity|apply Z.leb_le; exact B]|].
    destruct ((2 <=? byte_len x) && (starts_with [43%N] x || starts_with [45%N] x));
      [destruct (parse_i64 x)|]; auto.
Qed.

(* the only outcomes are Det (Ok _), Det (Exit2 _) and Unmodelled *)
Corollary parse_datetime_ok_err_or_unmodelled : forall now x,
  match parse_datetime now x with
  | Det (Ok _) | Det (Exit2 _) | Unmodelled => True
  | _ => False
  end.
Proof.
  intros now x. pose proof (parse_datetime_outcomes now x) as H.
  destruct (parse_datetime now x) as [|[ab|m|st|st|]]; try exact I; exact H.
Qed.

Theorem parse_datetime_never_panics : forall now x,
  match parse_datetime now x with Det (Panic _) => False | _ => True end.
Proof.
  intros now x. pose proof (parse_datetime_outcomes now x) as H.
  destruct (parse_datetime now x) as [|[ab|m|st|st|]]; try exact I; exact H.
Qed.

(* composed with any chrono_english component that does not panic, parse_datetime does not *)
Corollary parse_datetime_with_never_panics : forall ce now x,
  (forall y, match ce y with Ok _ | Exit2 _ => True | _ => False end) ->
  match parse_datetime_with ce now x with Ok _ | Exit2 _ => True | _ => False end.
Proof.
  intros ce now x Hce. unfold parse_datetime_with.
  pose proof (parse_datetime_outcomes now x) as H.
  destruct (parse_datetime now x) as [|[ab|m|st|st|]]; try exact I; try contradiction. apply Hce.
Qed.

(* Texts of fewer than 5 bytes: a signed integer is a day offset, everything else -- "+a", "-x",
   "+1.5", "--1", non-ASCII digits -- is the Err of the final else branch. *)
Lemma utf8_len1_pos c : 1 <= utf8_len1 c.
Proof. unfold utf8_len1. destruct (_ <? _)%N; [lia|]. destruct (_ <? _)%N; [lia|]. destruct (_ <? _)%N; lia. Qed.

Lemma length_le_byte_len l : Z.of_nat (length l) <= byte_len l.
Proof.
  induction l as [|c l IH]; [cbn; lia|]. cbn [length byte_len]. pose proof (utf8_len1_pos c). lia.
Qed.

Theorem short_input : forall now x, byte_len x < 5 ->
  parse_datetime now x =
  if (2 <=? byte_len x) && (starts_with [43%N] x || starts_with [45%N] x) then
    match parse_i64 x with
    | Some n => Det (Ok (day_interval (now + n)))
    | None => Det (Exit2 (msg_parse ++ x))
    end
  else Det (Exit2 (msg_parse ++ x)).
Proof.
  intros now x Hb. unfold parse_datetime.
  destruct (str_eqb x lit_today) eqn:K1.
  { apply str_eqb_eq in K1. subst x. exfalso. revert Hb. vm_compute. discriminate. }
  destruct (str_eqb x lit_yesterday) eqn:K2.
  { apply str_eqb_eq in K2. subst x. exfalso. revert Hb. vm_compute. discriminate. }
  rewrite find_date_short by (pose proof (length_le_byte_len x); lia).
  destruct (Z.leb_spec 5 (byte_len x)); [lia|reflexivity].
Qed.

Corollary signed_not_a_number : forall now x,
  byte_len x < 5 -> parse_i64 x = None -> parse_datetime now x = Det (Exit2 (msg_parse ++ x)).
Proof.
  intros now x Hb Hp. rewrite (short_input now x Hb), Hp.
  destruct ((2 <=? byte_len x) && (starts_with [43%N] x || starts_with [45%N] x)); reflexivity.
Qed.

(* ------------------------------------------------------------------------- *)
(* format_datetime / parse_datetime round trip                               *)
(* ------------------------------------------------------------------------- *)

Definition year_of_secs (t : Z) : Z :=
  let '(y, _, _, _, _, _) := datetime_of_secs t in y.

Lemma format_is_render t : 0 <= year_of_secs t <= 9999 ->
  format_datetime t =
  (let '(y, m, d, hh, mm, ss) := datetime_of_secs t in render_lit PSecond y m d hh mm ss 45%N).
Proof.
  unfold year_of_secs, format_datetime.
  destruct (datetime_of_secs t) as [[[[[y m] d] hh] mm] ss]. intros Hy.
  unfold fmt_year, render_lit.
  destruct (Z.leb_spec 0 y) as [_|F]; [|lia]. destruct (Z.leb_spec y 9999) as [_|F]; [|lia].
  reflexivity.
Qed.

Theorem format_roundtrip : forall now t,
  0 <= year_of_secs t <= 9999 ->
  parse_datetime now (format_datetime t) = Det (Ok (t, t)).
Proof.
  intros now t Hy. rewrite (format_is_render t Hy).
  pose proof (secs_of_datetime t) as H. unfold year_of_secs in Hy.
  destruct (datetime_of_secs t) as [[[[[y m] d] hh] mm] ss].
  destruct H as (E & Hv & Hh & Hm & Hs).
  rewrite parse_render by (repeat split; try assumption; try lia; reflexivity).
  cbn [lit_interval]. now rewrite E.
Qed.

(* the same with the year condition expressed on the timestamp:
   0000-01-01 00:00:00 = -62167219200, 9999-12-31 23:59:59 = 253402300799 *)
Lemma year_of_secs_range t : -62167219200 <= t <= 253402300799 -> 0 <= year_of_secs t <= 9999.
Proof.
  intros Ht. unfold year_of_secs, datetime_of_secs.
  set (dd := t / 86400).
  assert (Hd : -719528 <= dd <= 2932896) by (subst dd; lia).
  assert (Lo : civil_from_days (-719528) = (0, 1, 1)) by reflexivity.
  assert (Hi : civil_from_days 2932896 = (9999, 12, 31)) by reflexivity.
  assert (A : 0 <= fst (fst (civil_from_days dd))).
  { destruct (Z.eq_dec dd (-719528)) as [->|N]; [rewrite Lo; cbn; lia|].
    pose proof (civil_from_days_mono (-719528) dd ltac:(lia)) as M. rewrite Lo in M.
    destruct (civil_from_days dd) as [[y m] d]. cbn [fst]. unfold date_lt in M. lia. }
  assert (B : fst (fst (civil_from_days dd)) <= 9999).
  { destruct (Z.eq_dec dd 2932896) as [->|N]; [rewrite Hi; cbn; lia|].
    pose proof (civil_from_days_mono dd 2932896 ltac:(lia)) as M. rewrite Hi in M.
    destruct (civil_from_days dd) as [[y m] d]. cbn [fst]. unfold date_lt in M. lia. }
  destruct (civil_from_days dd) as [[y m] d]. cbn [fst] in A, B. lia.
Qed.

Corollary format_roundtrip_secs : forall now t,
  -62167219200 <= t <= 253402300799 ->
  parse_datetime now (format_datetime t) = Det (Ok (t, t)).
Proof. intros now t Ht. apply format_roundtrip, year_of_secs_range, Ht. Qed.

(* ------------------------------------------------------------------------- *)
(* Algebra of the comparison operators                                       *)
(* ------------------------------------------------------------------------- *)

(* for a non-empty interval exactly one of <, =, > holds *)
Theorem trichotomy : forall a b t, a <= b ->
  (cmp_dt_spec OpLt t a b = true /\ cmp_dt_spec OpEq t a b = false /\ cmp_dt_spec OpGt t a b = false)
  \/ (cmp_dt_spec OpLt t a b = false /\ cmp_dt_spec OpEq t a b = true /\ cmp_dt_spec OpGt t a b = false)
  \/ (cmp_dt_spec OpLt t a b = false /\ cmp_dt_spec OpEq t a b = false /\ cmp_dt_spec OpGt t a b = true).
Proof.
  intros a b t Hab. unfold cmp_dt_spec.
  destruct (Z.ltb_spec t a) as [C1|C1]; destruct (Z.leb_spec a t) as [C2|C2]; try lia;
    destruct (Z.leb_spec t b) as [C3|C3]; try lia;
    destruct (Z.ltb_spec b t) as [C4|C4]; try lia; cbn [andb]; tauto.
Qed.

Theorem ne_complement : forall a b t,
  cmp_dt_spec OpNe t a b = negb (cmp_dt_spec OpEq t a b).
Proof.
  intros a b t. unfold cmp_dt_spec.
  destruct (Z.ltb_spec t a) as [C1|C1]; destruct (Z.leb_spec a t) as [C2|C2]; try lia;
    destruct (Z.leb_spec t b) as [C3|C3]; destruct (Z.ltb_spec b t) as [C4|C4]; try lia; reflexivity.
Qed.

Theorem ene_complement : forall a b t,
  cmp_dt_spec OpEne t a b = negb (cmp_dt_spec OpEeq t a b).
Proof. reflexivity. Qed.

Theorem le_is_lt_or_eq : forall a b t, a <= b ->
  cmp_dt_spec OpLte t a b = cmp_dt_spec OpLt t a b || cmp_dt_spec OpEq t a b.
Proof.
  intros a b t Hab. unfold cmp_dt_spec.
  destruct (Z.ltb_spec t a) as [C1|C1]; destruct (Z.leb_spec a t) as [C2|C2]; try lia;
    destruct (Z.leb_spec t b) as [C3|C3]; try lia; reflexivity.
Qed.

Theorem ge_is_gt_or_eq : forall a b t, a <= b ->
  cmp_dt_spec OpGte t a b = cmp_dt_spec OpGt t a b || cmp_dt_spec OpEq t a b.
Proof.
  intros a b t Hab. unfold cmp_dt_spec.
  destruct (Z.ltb_spec b t) as [C1|C1]; destruct (Z.leb_spec a t) as [C2|C2]; try lia;
    destruct (Z.leb_spec t b) as [C3|C3]; try lia; reflexivity.
Qed.

(* === implies =, for a non-empty interval *)
Theorem eeq_implies_eq : forall a b t, a <= b ->
  cmp_dt_spec OpEeq t a b = true -> cmp_dt_spec OpEq t a b = true.
Proof.
  intros a b t Hab H. unfold cmp_dt_spec in *. apply Z.eqb_eq in H. subst t.
  apply andb_true_iff. split; apply Z.leb_le; lia.
Qed.

(* on a one-second interval (second precision) = and === coincide *)
Theorem eq_is_eeq_on_point : forall a t, cmp_dt_spec OpEq t a a = cmp_dt_spec OpEeq t a a.
Proof.
  intros a t. unfold cmp_dt_spec.
  destruct (Z.leb_spec a t) as [C1|C1]; destruct (Z.leb_spec t a) as [C2|C2];
    destruct (Z.eqb_spec t a) as [C3|C3]; try lia; reflexivity.
Qed.

(* ------------------------------------------------------------------------- *)
(* Non-vacuity                                                               *)
(* ------------------------------------------------------------------------- *)

Example nv_wf_leap : wf_lit 2024 2 29 23 59 59 45%N.
Proof. unfold wf_lit. repeat split; try lia; reflexivity. Qed.

Example nv_render_leap :
  render_lit PDay 2024 2 29 23 59 59 45%N = s "2024-02-29"
  /\ render_lit PHour 2024 2 29 23 59 59 45%N = s "2024-02-29 23"
  /\ render_lit PMinute 2024 2 29 23 59 59 58%N = s "2024:02:29 23:59"
  /\ render_lit PSecond 2024 2 29 23 59 59 45%N = s "2024-02-29 23:59:59".
Proof. vm_compute. repeat split; reflexivity. Qed.

(* leap day 2024-02-29 = [1709164800, 1709251199] *)
Example nv_leap_day : parse_datetime 0 (s "2024-02-29") = Det (Ok (1709164800, 1709251199)).
Proof.
  change (s "2024-02-29") with (render_lit PDay 2024 2 29 23 59 59 45%N).
  rewrite (parse_render 0 PDay _ _ _ _ _ _ _ nv_wf_leap). reflexivity.
Qed.

(* the last second of the leap day is the last second of its day/hour/minute intervals *)
Example nv_leap_last_second :
  parse_datetime 0 (s "2024-02-29 23") = Det (Ok (1709247600, 1709251199))
  /\ parse_datetime 0 (s "2024:02:29 23:59") = Det (Ok (1709251140, 1709251199))
  /\ parse_datetime 0 (s "2024-02-29 23:59:59") = Det (Ok (1709251199, 1709251199)).
Proof. vm_compute. repeat split; reflexivity. Qed.

(* not a leap year: Err, not a date *)
Example nv_not_leap : parse_datetime 0 (s "2023-02-29") = Det (Exit2 (msg_convert ++ s "2023-02-29")).
Proof. vm_compute. reflexivity. Qed.

(* year end: the second after 2023-12-31 23:59:59 is 2024-01-01 00:00:00 *)
Example nv_year_end :
  exists a b a' b',
    parse_datetime 0 (s "2023-12-31") = Det (Ok (a, b))
    /\ parse_datetime 0 (s "2024-01-01") = Det (Ok (a', b'))
    /\ b + 1 = a' /\ format_datetime b = s "2023-12-31 23:59:59"
    /\ format_datetime (b + 1) = s "2024-01-01 00:00:00".
Proof. exists 1703980800, 1704067199, 1704067200, 1704153599. vm_compute. repeat split; reflexivity. Qed.

Example nv_format_roundtrip :
  parse_datetime 7 (format_datetime 1709251199) = Det (Ok (1709251199, 1709251199)).
Proof. apply format_roundtrip_secs. lia. Qed.

Example nv_relative : parse_datetime 19782 (s "-2") = Det (Ok (19780 * 86400, 19780 * 86400 + 86399))
  /\ parse_datetime 19782 (s "+10") = Det (Ok (19792 * 86400, 19792 * 86400 + 86399)).
Proof.
  destruct (relative_days 19782) as (_ & _ & R).
  destruct (R 2 ltac:(lia)) as [_ M]. destruct (R 10 ltac:(lia)) as [P _].
  split; [exact M|exact P].
Qed.

(* modified = '2024-02-29' selects exactly the files whose timestamp lies in the leap day *)
(* the formerly panicking inputs *)
Example nv_no_panic :
  parse_datetime 19782 (s "+a") = Det (Exit2 (s "Error parsing date/time value: +a"))
  /\ parse_datetime 19782 (s "-x") = Det (Exit2 (s "Error parsing date/time value: -x"))
  /\ parse_datetime 19782 (s "+1.5") = Det (Exit2 (s "Error parsing date/time value: +1.5"))
  /\ parse_datetime 19782 [0x661; 0x662]%N = Det (Exit2 (msg_parse ++ [0x661; 0x662]%N))
  /\ parse_datetime 19782 [0x662; 0x660; 0x662; 0x663; 45; 0x661; 0x662; 45; 0x661; 0x661]%N = Unmodelled
  /\ find_date [0x662; 0x660; 0x662; 0x663; 45; 0x661; 0x662; 45; 0x661; 0x661]%N = None
  /\ parse_datetime 19782 (s "2023-12-11 " ++ [0x661]%N) = Det (Ok (1702252800, 1702339199)).
Proof.
  split; [apply signed_not_a_number; [reflexivity|reflexivity]|].
  split; [apply signed_not_a_number; [reflexivity|reflexivity]|].
  split; [apply signed_not_a_number; [reflexivity|reflexivity]|].
  vm_compute. repeat split; reflexivity.
Qed.

Example nv_cmp :
  cmp_dt_spec OpEq 1709164800 1709164800 1709251199 = true
  /\ cmp_dt_spec OpEq 1709251199 1709164800 1709251199 = true
  /\ cmp_dt_spec OpEq 1709251200 1709164800 1709251199 = false
  /\ cmp_dt_spec OpGt 1709251200 1709164800 1709251199 = true
  /\ cmp_dt_spec OpGt 1709251199 1709164800 1709251199 = false
  /\ cmp_dt_spec OpEeq 1709164800 1709164800 1709251199 = true
  /\ cmp_dt_spec OpEeq 1709164801 1709164800 1709251199 = false.
Proof. vm_compute. repeat split; reflexivity. Qed.

Print Assumptions parse_render.
Print Assumptions interval_day.
Print Assumptions interval_hour.
Print Assumptions interval_minute.
Print Assumptions interval_second.
Print Assumptions relative_days.
Print Assumptions relative_signed.
Print Assumptions parse_datetime_outcomes.
Print Assumptions parse_datetime_ok_err_or_unmodelled.
Print Assumptions parse_datetime_never_panics.
Print Assumptions parse_datetime_with_never_panics.
Print Assumptions short_input.
Print Assumptions signed_not_a_number.
Print Assumptions format_roundtrip.
Print Assumptions format_roundtrip_secs.
Print Assumptions trichotomy.
Print Assumptions ne_complement.
Print Assumptions le_is_lt_or_eq.
Print Assumptions ge_is_gt_or_eq.
