(* Small facts about the expression model used by the parser. *)
From Coq Require Import List NArith Bool.
From FS Require Import lib.Str gen.OpsGen gen.FieldGen gen.FuncGen model.Expr.
Import ListNotations.

(* With the corrected Op::negate (Gt<->Lte, Lt<->Gte) negation is an involution ... *)
Lemma Op_negate_involutive o : Op_negate (Op_negate o) = o.
Proof. destruct o; reflexivity. Qed.

Lemma negate_logical_involutive o : negate_logical (negate_logical o) = o.
Proof. destruct o; reflexivity. Qed.

(* ... and so is Parser::negate_expr_op (it swaps And/Or as well: De Morgan): `not not c`
   handled by the toggle in parse_cond agrees with negating twice. *)
Fixpoint negate_expr_op_involutive (e : expr) : negate_expr_op (negate_expr_op e) = e.
Proof.
  destruct e as [l a lo o r m fd fn args v]. cbn [negate_expr_op].
  f_equal.
  - destruct l as [x|]; [f_equal; apply negate_expr_op_involutive|reflexivity].
  - destruct lo as [x|]; [f_equal; apply negate_logical_involutive|reflexivity].
  - destruct o as [x|]; [f_equal; apply Op_negate_involutive|reflexivity].
  - destruct r as [x|]; [f_equal; apply negate_expr_op_involutive|reflexivity].
Qed.

(* negation does not change which fields an expression needs, nor its printed form *)
Fixpoint negate_required_fields (e : expr) : get_required_fields (negate_expr_op e) = get_required_fields e.
Proof.
  destruct e as [l a lo o r m fd fn args v]. cbn [negate_expr_op get_required_fields].
  f_equal; [|f_equal].
  - destruct l as [x|]; [apply negate_required_fields|reflexivity].
  - destruct r as [x|]; [apply negate_required_fields|reflexivity].
Qed.

Fixpoint negate_display (e : expr) : display (negate_expr_op e) = display e.
Proof.
  destruct e as [l a lo o r m fd fn args v].
  destruct l as [x|], r as [y|]; cbn [negate_expr_op display];
    try rewrite (negate_display x); try rewrite (negate_display y); reflexivity.
Qed.

Print Assumptions negate_expr_op_involutive.
Print Assumptions negate_display.
