(* HTML: the table written today is read back only when no value contains a markup character
   (F18: values are not escaped); with entity escaping the round trip holds for ALL values. *)
From Coq Require Import String List NArith Bool Lia.
From FS Require Import lib.Str model.Format model.Decode proofs.Common proofs.Demo.
Import ListNotations.
Open Scope N_scope.

(* ---- skipping and the fixed pieces ---- *)

Lemma hgo_skip p : forall st cur row rows w,
  hgo (length p) st cur row rows (p ++ w) = hgo 0 st cur row rows w.
Proof.
  induction p as [|c p IH]; intros st cur row rows w; [reflexivity|].
  cbn [length app]. change (hgo (S (length p)) st cur row rows (c :: p ++ w))
    with (hgo (length p) st cur row rows (p ++ w)). apply IH.
Qed.

Lemma strip_prefix_app p : forall w, strip_prefix p (p ++ w) = Some w.
Proof.
  induction p as [|a p IH]; intros w; [reflexivity|].
  cbn [app strip_prefix]. rewrite N.eqb_refl. apply IH.
Qed.

Lemma h_row_open rows w : hgo 0 HRow [] [] rows (h_tr ++ w) = hgo 0 HCell [] [] rows w.
Proof. reflexivity. Qed.
Lemma h_row_footer rows : hgo 0 HRow [] [] rows h_footer = Some (rev rows).
Proof. reflexivity. Qed.
Lemma h_cell_open row rows w : hgo 0 HCell [] row rows (h_td ++ w) = hgo 0 HText [] row rows w.
Proof. reflexivity. Qed.
Lemma h_row_close row rows w :
  hgo 0 HCell [] row rows (h_tr_close ++ w) = hgo 0 HRow [] [] (rev row :: rows) w.
Proof. reflexivity. Qed.
Lemma h_cell_close cur row rows w :
  hgo 0 HText cur row rows (h_td_close ++ w) = hgo 0 HCell [] (rev cur :: row) rows w.
Proof. reflexivity. Qed.

Lemma hgo_text_eq cur row rows c r :
  hgo 0 HText cur row rows (c :: r)
  = if starts_with h_td_close (c :: r)
    then hgo (pred (length h_td_close)) HCell [] (rev cur :: row) rows r
    else if c =? 60 then None
    else if c =? 38 then
      match entity_at entities (c :: r) with
      | Some (x, k) => hgo k HText (x :: cur) row rows r
      | None => None
      end
    else hgo 0 HText (c :: cur) row rows r.
Proof. reflexivity. Qed.

(* an ordinary text character *)
Lemma h_text_plain cur row rows c r : (c =? 60) = false -> (c =? 38) = false ->
  hgo 0 HText cur row rows (c :: r) = hgo 0 HText (c :: cur) row rows r.
Proof.
  intros H60 H38. rewrite hgo_text_eq.
  assert (Hsw : starts_with h_td_close (c :: r) = false).
  { change h_td_close with (60 :: s "/td>"). cbn [starts_with].
    rewrite (N.eqb_sym 60 c), H60. reflexivity. }
  rewrite Hsw, H60, H38. reflexivity.
Qed.

(* ---- cell contents ---- *)

(* [enc] is read back as the text [v] *)
Definition reads_as (enc v : str) : Prop := forall cur row rows rest,
  hgo 0 HText cur row rows (enc ++ rest) = hgo 0 HText (rev v ++ cur) row rows rest.

Definition html_safe_char (c : N) : bool := negb ((c =? 60) || (c =? 62) || (c =? 38)).
Definition html_safe_str (v : str) : bool := forallb html_safe_char v.
(* no value contains "<", ">" or "&" *)
Definition html_safe (t : table) : bool := forallb (forallb html_safe_str) (values t).

Lemma raw_reads_as v : html_safe_str v = true -> reads_as v v.
Proof.
  induction v as [|c v IH]; intros H cur row rows rest; [reflexivity|].
  cbn [html_safe_str forallb] in H. apply andb_true_iff in H. destruct H as [Hc Hv].
  unfold html_safe_char in Hc. apply negb_true_iff in Hc.
  apply orb_false_elim in Hc. destruct Hc as [Hc H38].
  apply orb_false_elim in Hc. destruct Hc as [H60 _].
  cbn [app rev]. rewrite (h_text_plain cur row rows c _ H60 H38).
  rewrite (IH Hv (c :: cur) row rows rest), <- app_assoc. reflexivity.
Qed.

(* one escaped character is read back as that character, whatever it is *)
Lemma h_text_hesc cur row rows c rest :
  hgo 0 HText cur row rows (hesc c ++ rest) = hgo 0 HText (c :: cur) row rows rest.
Proof.
  unfold hesc.
  destruct (c =? 38) eqn:E38; [apply N.eqb_eq in E38; subst c; reflexivity|].
  destruct (c =? 60) eqn:E60; [apply N.eqb_eq in E60; subst c; reflexivity|].
  destruct (c =? 62) eqn:E62; [apply N.eqb_eq in E62; subst c; reflexivity|].
  destruct (c =? 34) eqn:E34; [apply N.eqb_eq in E34; subst c; reflexivity|].
  destruct (c =? 39) eqn:E39; [apply N.eqb_eq in E39; subst c; reflexivity|].
  cbn [app]. apply h_text_plain; assumption.
Qed.

Lemma escaped_reads_as v : reads_as (html_escape v) v.
Proof.
  unfold html_escape. induction v as [|c v IH]; intros cur row rows rest; [reflexivity|].
  cbn [flat_map rev]. rewrite <- !app_assoc. rewrite h_text_hesc, (IH (c :: cur) row rows rest).
  reflexivity.
Qed.

(* ---- cells, rows, document (for any cell encoder that is read back) ---- *)

Section Cells.
  Variable cell : str -> str.

  Definition tdf (v : str) : str := h_td ++ cell v ++ h_td_close.

  Lemma hgo_cells vs : forall row rows rest, Forall (fun v => reads_as (cell v) v) vs ->
    hgo 0 HCell [] row rows (concat (map tdf vs) ++ h_tr_close ++ rest)
    = hgo 0 HRow [] [] ((rev row ++ vs) :: rows) rest.
  Proof.
    induction vs as [|v vs IH]; intros row rows rest H.
    - cbn [map concat app]. rewrite h_row_close, app_nil_r. reflexivity.
    - inversion H as [|x l Hv Hvs]; subst.
      cbn [map concat]. unfold tdf at 1. rewrite <- !app_assoc.
      rewrite h_cell_open, Hv, h_cell_close, app_nil_r, rev_involutive.
      rewrite IH by exact Hvs. cbn [rev]. rewrite <- app_assoc. reflexivity.
  Qed.

  Definition trf (vs : list str) : str := h_tr ++ concat (map tdf vs) ++ h_tr_close.

  Lemma hgo_rows vt : forall rows, Forall (Forall (fun v => reads_as (cell v) v)) vt ->
    hgo 0 HRow [] [] rows (concat (map trf vt) ++ h_footer) = Some (rev rows ++ vt).
  Proof.
    induction vt as [|vs vt IH]; intros rows H.
    - cbn [map concat app]. rewrite h_row_footer, app_nil_r. reflexivity.
    - inversion H as [|x l Hvs Hvt]; subst.
      cbn [map concat]. unfold trf at 1. rewrite <- !app_assoc.
      rewrite h_row_open, (hgo_cells vs [] rows _ Hvs). cbn [rev app].
      rewrite IH by exact Hvt. cbn [rev]. rewrite <- app_assoc. reflexivity.
  Qed.

  Lemma decode_html_doc vt : Forall (Forall (fun v => reads_as (cell v) v)) vt ->
    decode_html (h_header ++ concat (map trf vt) ++ h_footer) = Some vt.
  Proof.
    intros H. unfold decode_html. rewrite strip_prefix_app. apply (hgo_rows vt [] H).
  Qed.
End Cells.

Lemma emit_doc_html t :
  emit_doc Html t = h_header ++ concat (map (trf (fun v => v)) (values t)) ++ h_footer.
Proof.
  unfold emit_doc, emit_doc_with, values. cbn [row_sep_with]. rewrite join_nil_sep, map_map. reflexivity.
Qed.

Lemma emit_doc_escaped_eq t :
  emit_doc_escaped t = h_header ++ concat (map (trf html_escape) (values t)) ++ h_footer.
Proof.
  unfold emit_doc_escaped, emit_doc_escaped_with, values. rewrite map_map. reflexivity.
Qed.

(* ================================================================================== *)

(* What fselect prints today is read back when no value contains a markup character. *)
Theorem html_roundtrip_safe : forall t : table,
  html_safe t = true -> decode_html (emit_doc Html t) = Some (map (map snd) t).
Proof.
  intros t H. rewrite emit_doc_html. apply (decode_html_doc (fun v => v)).
  unfold html_safe in H. rewrite forallb_forall in H.
  apply Forall_forall. intros vs Hvs. specialize (H vs Hvs). rewrite forallb_forall in H.
  apply Forall_forall. intros v Hv. apply raw_reads_as, H, Hv.
Qed.

Example html_safe_satisfiable :
  html_safe [ [ (s "name", s "a ""quoted"", 'value'" ++ [13; 10; 9; 233; 8364; 128512]); (s "size", []) ];
              [ (s "name", s "x/y;z#39"); (s "size", s "lt;") ] ] = true.
Proof. vm_compute. reflexivity. Qed.

(* F18: a value containing "<" breaks the table ... *)
Definition f18_table : table := [ [ (s "name", s "a<b") ] ].
Theorem html_refuted :
  html_safe f18_table = false /\ decode_html (emit_doc Html f18_table) = None.
Proof. split; vm_compute; reflexivity. Qed.

(* ... or silently changes it: one file name becomes two cells; an "&" sequence in a name is
   read as another character. *)
Definition f18_table2 : table := [ [ (s "name", s "a</td><td>b") ]; [ (s "name", s "R&amp;D") ] ].
Theorem html_refuted_silently :
  decode_html (emit_doc Html f18_table2) = Some [ [s "a"; s "b"]; [s "R&D"] ]
  /\ Some [ [s "a"; s "b"]; [s "R&D"] ] <> Some (values f18_table2).
Proof. split; [vm_compute; reflexivity | vm_compute; discriminate]. Qed.

(* With the five entities escaped (what a fixed fselect would print), every table is read
   back, whatever the values contain. *)
Theorem html_escaped_roundtrip : forall t : table,
  decode_html (emit_doc_escaped t) = Some (map (map snd) t).
Proof.
  intros t. rewrite emit_doc_escaped_eq. apply (decode_html_doc html_escape).
  apply Forall_forall. intros vs _. apply Forall_forall. intros v _. apply escaped_reads_as.
Qed.

Example html_escaped_demo :
  decode_html (emit_doc_escaped demo_table) = Some (values demo_table)
  /\ decode_html (emit_doc_escaped f18_table2) = Some (values f18_table2)
  /\ emit_doc_escaped f18_table
     = s "<html><body><table><tr><td>a&lt;b</td></tr></table></body></html>".
Proof. repeat split; vm_compute; reflexivity. Qed.

Print Assumptions html_roundtrip_safe.
Print Assumptions html_refuted.
Print Assumptions html_refuted_silently.
Print Assumptions html_escaped_roundtrip.
