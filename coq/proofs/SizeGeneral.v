(* Second half of the general size-rendering proofs (first half: SizeGeneralA.v; the one finite evaluation: SizeCompute.v). *)
From Coq Require Import String ZArith NArith List Bool Lia.
From FS Require Export lib.Str lib.Res lib.Dec lib.Fin lib.SoftF64 gen.SizeGen model.Size spec.SizeSpec proofs.SizeProofs proofs.SizeGeneralA proofs.SizeCompute.
Import ListNotations.
Open Scope Z_scope.

Arguments Z.mul : simpl never.
Arguments Z.add : simpl never.
Arguments Z.pow : simpl never.
Arguments Z.div : simpl never.
Arguments Z.modulo : simpl never.
Arguments N.mul : simpl never.
Arguments N.add : simpl never.

(* SizeProofs.v ends by marking these opaque for its vm_compute-based grid lemmas; the general
   proofs below need to unfold them (a conversion-strategy hint only, restored at the end) *)
Strategy transparent [render accurate_text roundtrips_text centibytes_of parse_filesize format_filesize].


Lemma rt_chk_spec R k :
  100 <= R <= 102400 -> 1 <= k <= 4 ->
  exists m e, round_ne false R 100 = FFin false m e /\ p52 <= m < p53 /\ -60 <= e <= 0 /\
              rt_bounds R k (to_u64 (FFin false m (e + 10 * k))) = true.
Proof.
  intros HR Hk.
  pose proof (forall_below_pow2 17 rt_chk_range rt_chk_all (Z.to_N R)) as G.
  assert (HR' : (Z.to_N R < 2 ^ N.of_nat 17)%N) by (change (2 ^ N.of_nat 17)%N with 131072%N; lia).
  specialize (G HR'). unfold rt_chk_range in G.
  assert (L1 : (Z.to_N R <? 100)%N = false) by (apply N.ltb_ge; lia).
  assert (L2 : (102400 <? Z.to_N R)%N = false) by (apply N.ltb_ge; lia).
  rewrite L1, L2, Z2N.id in G by lia. unfold rt_chk in G.
  destruct (round_ne false R 100) as [| |neg|neg m e]; try discriminate.
  destruct neg; [discriminate|].
  apply andb_true_iff in G. destruct G as [G G5]. apply andb_true_iff in G. destruct G as [G G4].
  apply andb_true_iff in G. destruct G as [G G3]. apply andb_true_iff in G. destruct G as [G1 G2].
  apply Z.leb_le in G1, G3, G4. apply Z.ltb_lt in G2.
  exists m, e. split; [reflexivity|]. split; [lia|]. split; [lia|].
  cbn [forallb] in G5.
  apply andb_true_iff in G5. destruct G5 as [K1 G5]. apply andb_true_iff in G5. destruct G5 as [K2 G5].
  apply andb_true_iff in G5. destruct G5 as [K3 G5]. apply andb_true_iff in G5. destruct G5 as [K4 _].
  assert (Hc : k = 1 \/ k = 2 \/ k = 3 \/ k = 4) by lia.
  destruct Hc as [->|[->|[->| ->]]]; assumption.
Qed.

Lemma rt_bounds_spec R k p n :
  0 <= k -> rt_bounds R k p = true -> 2 * Z.abs (100 * n - R * upow k) <= upow k ->
  0 <= p /\ 2 * Z.abs (100 * p - 100 * n) <= upow k + 200.
Proof.
  intros Hk Hb Hn. pose proof (upow_pos k Hk) as HU. unfold rt_bounds in Hb. cbv zeta in Hb.
  set (U := upow k) in *.
  apply andb_true_iff in Hb. destruct Hb as [Hb B3]. apply andb_true_iff in Hb. destruct Hb as [B1 B2].
  apply Z.leb_le in B1, B2, B3. split; [exact B1|].
  set (X := 2 * R * U) in *.
  assert (HX : X - U <= 200 * n <= X + U) by (unfold X; lia).
  assert (Hlo : - ((- (X - U)) / 200) <= n) by (Z.div_mod_to_equations; lia).
  assert (Hhi : n <= (X + U) / 200) by (Z.div_mod_to_equations; lia).
  lia.
Qed.

Lemma dec_value_100 R len : 0 < R -> 0 <= len -> dec_value false R len (-2) = round_ne false R 100.
Proof.
  intros HR Hl. unfold dec_value.
  assert (H0 : (R =? 0) = false) by (apply Z.eqb_neq; lia). rewrite H0.
  change (400 <? -2) with false. cbv iota.
  assert (H2 : (-2 + len <? -400) = false) by (apply Z.ltb_ge; lia). rewrite H2.
  change (0 <=? -2) with false. cbv iota. reflexivity.
Qed.

Lemma roundtrips_text_intro t v U places n p :
  read_rendered t = Some (v, U, places) -> parse_filesize t = Some p -> 0 < U ->
  2 * Z.abs (100 * Z.of_N p - 100 * Z.of_N n) <= U + 200 ->
  roundtrips_text t n = true.
Proof.
  intros Hr Hp HU H. unfold roundtrips_text. rewrite Hr, Hp. apply Z.leb_le. destruct (places =? 2); lia.
Qed.

(* (G3) below 1 PiB = 2^50 (from there on the text uses PiB / EiB, which parse_filesize does
   not know: SizeProofs.roundtrip_fails_from_1PiB) parse_filesize reads the rendered text back
   to within half a unit of the last displayed digit plus the truncation byte *)
Theorem format_roundtrip_all n : (n < 2 ^ 50)%N -> roundtrips n = true.
Proof.
  intros Hn.
  assert (Hn' : Z.of_N n < 2 ^ 50) by (change (2 ^ 50) with (Z.of_N (2 ^ 50)); lia).
  destruct (N.eq_dec n 0) as [->|H0]; [vm_compute; reflexivity|].
  assert (Hpos : 0 < Z.of_N n < 2 ^ 64) by (change (2 ^ 50) with 1125899906842624 in Hn'; change (2 ^ 64) with 18446744073709551616; lia).
  assert (Hsm : 0 < Z.of_N n < p53) by (change (2 ^ 50) with 1125899906842624 in Hn'; unfold p53; lia).
  destruct (render_shape n Hpos) as (k & u & Hix & Hk6 & Hu & Hshape). cbv zeta in Hshape.
  destruct (render_read n Hpos) as [places Hrd].
  rewrite (rnd53_small _ Hsm) in *. set (V := Z.of_N n) in *.
  assert (HV : 0 < V) by lia.
  assert (HL : Z.log2 V < 50) by (apply Z.log2_lt_pow2; lia).
  assert (Hk4 : (k <= 4)%nat).
  { unfold unit_ix in Hix. pose proof (Z.log2_nonneg V). Z.div_mod_to_equations. lia. }
  rewrite <- Hix in Hrd.
  destruct (unit_table_parse k Hk4) as (u2 & u' & Hu2 & HM & Hsp & Hrest).
  rewrite Hu in Hu2. injection Hu2 as <-.
  set (U := upow (Z.of_nat k)) in *.
  assert (HU : 0 < U) by (apply upow_pos; lia).
  assert (HU4 : U <= 2 ^ 40) by (unfold U, upow; apply pow2_le; lia).
  change (2 ^ 40) with 1099511627776 in HU4.
  pose proof (cfun_accurate V HV) as Hacc. unfold cfun in Hacc. rewrite <- Hix in Hacc. fold U in Hacc.
  unfold cfun in Hrd. rewrite <- Hix in Hrd. fold U in Hrd.
  set (R := div_rne (100 * V) U) in *.
  destruct Hshape as [HR [[Hmod Htxt]|[Hk1 Htxt]]].
  - (* no decimals *)
    pose proof (Z.div_mod R 100 ltac:(lia)) as HRdm. rewrite Hmod in HRdm.
    assert (HRd : 0 <= R / 100 <= 1024) by lia.
    assert (Hlt : Z.of_N (Z.to_N (R / 100)) * U < 2 ^ 53).
    { rewrite Z2N.id by lia. change (2 ^ 53) with 9007199254740992. nia. }
    pose proof (units_exact u' U u (Z.to_N (R / 100)) HM Hsp Hlt) as Hparse.
    unfold roundtrips. rewrite Htxt in *.
    apply (roundtrips_text_intro _ _ _ _ _ _ Hrd Hparse HU).
    rewrite !Z2N.id by nia. fold V.
    replace (100 * (R / 100 * U)) with (R * U) by nia. lia.
  - (* two decimals *)
    destruct (Hrest Hk1) as (Hb & He & Hfac).
    assert (HRd : 0 <= R / 100) by (apply Z.div_pos; lia).
    pose proof (Z.mod_pos_bound R 100 ltac:(lia)) as HRm.
    assert (HF : (Z.to_N (R mod 100) < 100)%N) by lia.
    destruct (frac_text _ HF) as (F1 & F2 & F3).
    assert (Hfne : pad_left 2 (show_N (Z.to_N (R mod 100))) <> []) by (intros E; rewrite E in F2; discriminate).
    destruct (fraction_semantics u' U u (show_N (Z.to_N (R / 100))) (pad_left 2 (show_N (Z.to_N (R mod 100))))
                (Z.to_N R) HM Hb He Hsp (show_N_nonnil _) (show_N_digits _) Hfne F1
                (parse_N_number R ltac:(lia))) as [_ Hparse].
    rewrite F2 in Hparse. change (- Z.of_nat 2) with (-2) in Hparse.
    rewrite Z2N.id in Hparse by lia.
    rewrite dec_value_100 in Hparse by lia.
    destruct (rt_chk_spec R (Z.of_nat k) HR ltac:(lia)) as (m' & e' & Hround & Hm' & He' & Hbounds).
    rewrite Hround, Hfac, apply_factors_1024 in Hparse by lia.
    rewrite <- app_assoc in Hparse. cbn [app] in Hparse.
    fold (txt2 R u) in Hparse.
    destruct (rt_bounds_spec R (Z.of_nat k) _ V ltac:(lia) Hbounds) as [Hp0 Hfin].
    { fold U. rewrite <- Z.abs_opp. replace (- (100 * V - R * U)) with (R * U - 100 * V) by ring. exact Hacc. }
    unfold roundtrips. rewrite Htxt in *.
    apply (roundtrips_text_intro _ _ _ _ _ _ Hrd Hparse HU).
    rewrite Z2N.id by exact Hp0. fold V. exact Hfin.
Qed.

(* the bound of (G3) is sharp *)
Example format_roundtrip_bound_sharp : roundtrips (2 ^ 50) = false /\ render (2 ^ 50) = s "1PiB".
Proof. vm_compute. split; reflexivity. Qed.

Strategy opaque [render accurate_text roundtrips_text centibytes_of parse_filesize format_filesize].

Print Assumptions format_monotone_all.
Print Assumptions format_accurate_f64_all.
Print Assumptions format_accurate_exact.
Print Assumptions format_accurate_partial.
Print Assumptions format_accurate_all_refuted.
Print Assumptions format_accuracy_all.
Print Assumptions format_roundtrip_all.
Print Assumptions format_roundtrip_bound_sharp.
