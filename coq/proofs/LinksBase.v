(* Proof infrastructure for model/WalkLinks.v (the walk with the `symlinks` option on a graph):
   - the inner `fix loop` of lvisit named (lloop0, a syntactic copy; lloop, a factored equivalent form),
     the equation lemma lvisit_S and a case-analysis ("functional induction") principle lloop_rule;
   - fuel irrelevance for lvisit / ldrain / lwalk;
   - the inodes a walk over g can ever mark (universe g) and the termination measure. *)
From Coq Require Import List NArith Bool Lia Permutation.
From FS Require Import lib.Str gen.GatesGen model.Walk model.WalkLinks.
Import ListNotations.
Open Scope N_scope.

(* ---------- membership tests ---------- *)
Lemma memN_true (k : N) (l : list N) : existsb (N.eqb k) l = true <-> In k l.
Proof.
  rewrite existsb_exists. split.
  - intros [x [Hin He]]. apply N.eqb_eq in He. now subst.
  - intro H. exists k. split; [assumption | apply N.eqb_refl].
Qed.

Lemma memN_false (k : N) (l : list N) : existsb (N.eqb k) l = false <-> ~ In k l.
Proof.
  split; intro H.
  - intro H1. apply memN_true in H1. congruence.
  - destruct (existsb (N.eqb k) l) eqn:E; [|reflexivity]. apply memN_true in E. contradiction.
Qed.

Lemma memS_true (k : str) (l : list str) : existsb (str_eqb k) l = true <-> In k l.
Proof.
  rewrite existsb_exists. split.
  - intros [x [Hin He]]. apply str_eqb_eq in He. now subst.
  - intro H. exists k. split; [assumption | apply str_eqb_refl].
Qed.

Lemma memS_false (k : str) (l : list str) : existsb (str_eqb k) l = false <-> ~ In k l.
Proof.
  split; intro H.
  - intro H1. apply memS_true in H1. congruence.
  - destruct (existsb (str_eqb k) l) eqn:E; [|reflexivity]. apply memS_true in E. contradiction.
Qed.

(* ---------- queue items, entry targets ---------- *)
Definition item := (str * str * N)%type.            (* path as spelled, canonical path, inode *)
Definition it_path (it : item) : str := fst (fst it).
Definition it_canon (it : item) : str := snd (fst it).
Definition it_ino (it : item) : N := snd it.
Definition qinos (s : lst) : list N := map it_ino (l_queue s).

(* what the loop body does with an entry when the descend gate is open:
   Some (inode tested by ok_to_visit_dir, (path entered, canonical path, inode entered)) *)
Definition etarget (dir canon : str) (e : dent) : option (N * item) :=
  match d_kind e with
  | KFile => None
  | KDir j => Some (d_ino e, (join_path dir (d_name e), join_path canon (d_name e), j))
  | KLink t None => None
  | KLink t (Some (j, tc)) => Some (j, (path_join dir t, tc, j))
  end.

(* the readable listing of a directory *)
Definition ents_of (g : fsgraph) (i : N) : option (list dent) :=
  match listing g i with Some (true, es) => Some es | _ => None end.

Definition vbase (rd : N) (canon : str) : N := base_depth_of rd (calc_depth canon).
Definition vdepth (rd : N) (canon : str) : N := depth_of (calc_depth canon) (vbase rd canon).

(* ---------- the loop, named ---------- *)
Section Loop.
Variables (mn mx : N) (dfs : bool) (limit : N).
Variable visit : str -> str -> N -> N -> lst -> option lst.
Variables (dir canon : str) (depth base : N).

(* syntactic copy of the anonymous `fix loop` inside lvisit, with the recursive call abstracted *)
Fixpoint lloop0 (es : list dent) (s : lst) : option lst :=
  match es with
  | [] => Some s
  | e :: es' =>
    if gate_limit_dir false limit (l_found s) then Some s
    else
      let path := join_path dir (d_name e) in
      let s1 := if gate_report mn depth then set_out s path else s in
      if gate_descend mx depth then
        match d_kind e with
        | KFile => lloop0 es' s1
        | KDir j =>
          let '(ok, s2) := ok_visit (d_ino e) s1 in
          if ok then
            if dfs then match visit path (join_path canon (d_name e)) j base s2 with Some s3 => lloop0 es' s3 | None => None end
            else lloop0 es' (push_q s2 (path, join_path canon (d_name e), j))
          else lloop0 es' s2
        | KLink t None => lloop0 es' s1
        | KLink t (Some (j, tcanon)) =>
          let enter := path_join dir t in
          let '(ok, s2) := ok_visit j s1 in
          if ok then
            if dfs then match visit enter tcanon j base s2 with Some s3 => lloop0 es' s3 | None => None end
            else lloop0 es' (push_q s2 (enter, tcanon, j))
          else lloop0 es' s2
        end
      else lloop0 es' s1
  end.

(* the report step *)
Definition rep (e : dent) (s : lst) : lst :=
  if gate_report mn depth then set_out s (join_path dir (d_name e)) else s.

(* factored form: the two "directory-like" cases share one body *)
Fixpoint lloop (es : list dent) (s : lst) : option lst :=
  match es with
  | [] => Some s
  | e :: es' =>
    if gate_limit_dir false limit (l_found s) then Some s
    else
      if gate_descend mx depth then
        match etarget dir canon e with
        | None => lloop es' (rep e s)
        | Some (key, it) =>
          if existsb (N.eqb key) (l_vis (rep e s)) then lloop es' (rep e s)
          else
            if dfs then
              match visit (it_path it) (it_canon it) (it_ino it) base (add_vis (rep e s) key) with
              | Some s3 => lloop es' s3
              | None => None
              end
            else lloop es' (push_q (add_vis (rep e s) key) it)
        end
      else lloop es' (rep e s)
  end.

Lemma lloop0_eq : forall (es : list dent) (s : lst), lloop0 es s = lloop es s.
Proof.
  induction es as [|e es IH]; intro s; [reflexivity|].
  cbn [lloop0 lloop]. fold (rep e s).
  destruct (gate_limit_dir false limit (l_found s)); [reflexivity|].
  destruct (gate_descend mx depth); [|apply IH].
  unfold etarget.
  destruct (d_kind e) as [|j|t [[j tc]|]]; try apply IH.
  - unfold ok_visit. destruct (existsb (N.eqb (d_ino e)) (l_vis (rep e s))); [apply IH|].
    cbn [it_path it_canon it_ino fst snd].
    destruct dfs; [|apply IH].
    destruct (visit _ _ _ _ _); [apply IH|reflexivity].
  - unfold ok_visit. destruct (existsb (N.eqb j) (l_vis (rep e s))); [apply IH|].
    cbn [it_path it_canon it_ino fst snd].
    destruct dfs; [|apply IH].
    destruct (visit _ _ _ _ _); [apply IH|reflexivity].
Qed.

(* case analysis on one run of the loop, done once and for all *)
Lemma lloop_rule (P : list dent -> lst -> lst -> Prop)
  (C_nil : forall s, P [] s s)
  (C_lim : forall e es s, gate_limit_dir false limit (l_found s) = true -> P (e :: es) s s)
  (C_skip : forall e es s s',
      gate_limit_dir false limit (l_found s) = false ->
      gate_descend mx depth = false \/ etarget dir canon e = None ->
      lloop es (rep e s) = Some s' -> P es (rep e s) s' -> P (e :: es) s s')
  (C_seen : forall e es s s' key it,
      gate_limit_dir false limit (l_found s) = false -> gate_descend mx depth = true ->
      etarget dir canon e = Some (key, it) -> In key (l_vis (rep e s)) ->
      lloop es (rep e s) = Some s' -> P es (rep e s) s' -> P (e :: es) s s')
  (C_dfs : forall e es s s3 s' key it,
      gate_limit_dir false limit (l_found s) = false -> gate_descend mx depth = true ->
      etarget dir canon e = Some (key, it) -> ~ In key (l_vis (rep e s)) -> dfs = true ->
      visit (it_path it) (it_canon it) (it_ino it) base (add_vis (rep e s) key) = Some s3 ->
      lloop es s3 = Some s' -> P es s3 s' -> P (e :: es) s s')
  (C_bfs : forall e es s s' key it,
      gate_limit_dir false limit (l_found s) = false -> gate_descend mx depth = true ->
      etarget dir canon e = Some (key, it) -> ~ In key (l_vis (rep e s)) -> dfs = false ->
      lloop es (push_q (add_vis (rep e s) key) it) = Some s' ->
      P es (push_q (add_vis (rep e s) key) it) s' -> P (e :: es) s s') :
  forall (es : list dent) (s s' : lst), lloop es s = Some s' -> P es s s'.
Proof.
  induction es as [|e es IH]; intros s s' H.
  - cbn [lloop] in H. injection H as <-. apply C_nil.
  - cbn [lloop] in H.
    destruct (gate_limit_dir false limit (l_found s)) eqn:El.
    { injection H as <-. now apply C_lim. }
    destruct (gate_descend mx depth) eqn:Ed.
    2:{ apply C_skip; auto. }
    destruct (etarget dir canon e) as [[key it]|] eqn:Et.
    2:{ apply C_skip; auto. }
    destruct (existsb (N.eqb key) (l_vis (rep e s))) eqn:Em.
    { apply memN_true in Em. eapply C_seen; eauto. }
    apply memN_false in Em.
    destruct dfs eqn:Edfs.
    + destruct (visit (it_path it) (it_canon it) (it_ino it) base (add_vis (rep e s) key)) as [s3|] eqn:Ev; [|discriminate].
      eapply C_dfs; eauto.
    + eapply C_bfs; eauto.
Qed.
End Loop.

(* ---------- the equation of lvisit ---------- *)
Lemma lvisit_S0 (g : fsgraph) (mn mx : N) (dfs : bool) (limit : N) (f : nat) (dir canon : str) (i rd : N) (s : lst) :
  lvisit g mn mx dfs limit (S f) dir canon i rd s =
  if existsb (str_eqb dir) (l_vdirs s) then Some s
  else match listing g i with
       | None | Some (false, _) => Some (add_lerr (add_ent (add_vdir s dir) i) dir)
       | Some (true, ents) =>
         lloop0 mn mx dfs limit (lvisit g mn mx dfs limit f) dir canon (vdepth rd canon) (vbase rd canon) ents
                (add_ent (add_vdir s dir) i)
       end.
Proof. reflexivity. Qed.

Lemma lvisit_S (g : fsgraph) (mn mx : N) (dfs : bool) (limit : N) (f : nat) (dir canon : str) (i rd : N) (s : lst) :
  lvisit g mn mx dfs limit (S f) dir canon i rd s =
  if existsb (str_eqb dir) (l_vdirs s) then Some s
  else match ents_of g i with
       | None => Some (add_lerr (add_ent (add_vdir s dir) i) dir)
       | Some ents =>
         lloop mn mx dfs limit (lvisit g mn mx dfs limit f) dir canon (vdepth rd canon) (vbase rd canon) ents
               (add_ent (add_vdir s dir) i)
       end.
Proof.
  rewrite lvisit_S0. unfold ents_of.
  destruct (existsb (str_eqb dir) (l_vdirs s)); [reflexivity|].
  destruct (listing g i) as [[[|] ents]|]; try reflexivity.
  apply lloop0_eq.
Qed.

Lemma ldrain_S (g : fsgraph) (mn mx : N) (dfs : bool) (limit : N) (f : nat) (base : N) (s : lst) :
  ldrain g mn mx dfs limit (S f) base s =
  match l_queue s with
  | [] => Some s
  | it :: rest =>
    match lvisit g mn mx dfs limit f (it_path it) (it_canon it) (it_ino it) base (set_q s rest) with
    | Some s2 => ldrain g mn mx dfs limit f base s2
    | None => None
    end
  end.
Proof. cbn [ldrain]. destruct (l_queue s) as [|[[p c] j] rest]; reflexivity. Qed.

(* ---------- fuel irrelevance ---------- *)
Section Mono.
Variables (g : fsgraph) (mn mx : N) (dfs : bool) (limit : N).

Lemma lloop_mono (v1 v2 : str -> str -> N -> N -> lst -> option lst) (dir canon : str) (depth base : N)
  (Hv : forall p c j b s s', v1 p c j b s = Some s' -> v2 p c j b s = Some s') :
  forall (es : list dent) (s s' : lst),
    lloop mn mx dfs limit v1 dir canon depth base es s = Some s' ->
    lloop mn mx dfs limit v2 dir canon depth base es s = Some s'.
Proof.
  apply (lloop_rule mn mx dfs limit v1 dir canon depth base
           (fun es s s' => lloop mn mx dfs limit v2 dir canon depth base es s = Some s')).
  - reflexivity.
  - intros e es s El. cbn [lloop]. now rewrite El.
  - intros e es s s' El [Ed|Et] _ IH; cbn [lloop]; rewrite El.
    + now rewrite Ed.
    + rewrite Et. now destruct (gate_descend mx depth).
  - intros e es s s' key it El Ed Et Hin _ IH. cbn [lloop]. rewrite El, Ed, Et.
    apply memN_true in Hin. now rewrite Hin.
  - intros e es s s3 s' key it El Ed Et Hni Edfs Hvis _ IH. cbn [lloop]. rewrite El, Ed, Et.
    apply memN_false in Hni. rewrite Hni. rewrite Edfs in IH |- *. now rewrite (Hv _ _ _ _ _ _ Hvis).
  - intros e es s s' key it El Ed Et Hni Edfs _ IH. cbn [lloop]. rewrite El, Ed, Et.
    apply memN_false in Hni. rewrite Hni. rewrite Edfs in IH |- *. exact IH.
Qed.

Lemma lvisit_mono : forall (f f' : nat) (dir canon : str) (i rd : N) (s s' : lst),
  lvisit g mn mx dfs limit f dir canon i rd s = Some s' -> (f <= f')%nat ->
  lvisit g mn mx dfs limit f' dir canon i rd s = Some s'.
Proof.
  induction f as [|f IH]; intros f' dir canon i rd s s' H Hle; [discriminate|].
  destruct f' as [|f']; [lia|].
  rewrite lvisit_S in H |- *.
  destruct (existsb (str_eqb dir) (l_vdirs s)); [assumption|].
  destruct (ents_of g i) as [ents|]; [|assumption].
  revert H. apply lloop_mono. intros p c j b s0 s0' H0. apply (IH f'); [assumption|lia].
Qed.

Lemma ldrain_mono : forall (f f' : nat) (base : N) (s s' : lst),
  ldrain g mn mx dfs limit f base s = Some s' -> (f <= f')%nat ->
  ldrain g mn mx dfs limit f' base s = Some s'.
Proof.
  induction f as [|f IH]; intros f' base s s' H Hle; [discriminate|].
  destruct f' as [|f']; [lia|].
  rewrite ldrain_S in H |- *.
  destruct (l_queue s) as [|it rest]; [assumption|].
  destruct (lvisit g mn mx dfs limit f (it_path it) (it_canon it) (it_ino it) base (set_q s rest)) as [s2|] eqn:Ev; [|discriminate].
  rewrite (lvisit_mono f f' _ _ _ _ _ _ Ev) by lia.
  apply (IH f'); [assumption|lia].
Qed.

End Mono.

Theorem lwalk_fuel_irrelevant (g : fsgraph) (mn mx : N) (dfs : bool) (limit : N) (fuel fuel' : nat) (rootpath canon : str) (root_ino : N) (s : lst) :
  lwalk g mn mx dfs limit fuel rootpath canon root_ino = Some s -> (fuel <= fuel')%nat ->
  lwalk g mn mx dfs limit fuel' rootpath canon root_ino = Some s.
Proof.
  unfold lwalk. intros H Hle.
  destruct (lvisit g mn mx dfs limit fuel rootpath canon root_ino 0 (add_vis lst0 root_ino)) as [s1|] eqn:Ev; [|discriminate].
  rewrite (lvisit_mono g mn mx dfs limit fuel fuel' _ _ _ _ _ _ Ev Hle).
  destruct dfs; [assumption|]. now apply (ldrain_mono g mn mx false limit fuel fuel').
Qed.

(* ---------- the inodes a walk can mark, and the measure ---------- *)
Definition ekey (e : dent) : option N :=
  match d_kind e with
  | KDir _ => Some (d_ino e)
  | KLink _ (Some (j, _)) => Some j
  | _ => None
  end.

Lemma etarget_ekey (dir canon : str) (e : dent) (k : N) (it : item) :
  etarget dir canon e = Some (k, it) -> ekey e = Some k.
Proof.
  unfold etarget, ekey. destruct (d_kind e) as [|j|t [[j tc]|]]; intro H; try discriminate; now injection H as <- _.
Qed.

Definition ekeys (es : list dent) : list N :=
  flat_map (fun e => match ekey e with Some k => [k] | None => [] end) es.

(* every inode the walk can hand to ok_to_visit_dir *)
Definition universe (g : fsgraph) : list N := flat_map (fun x => ekeys (snd (snd x))) g.

(* the fuel bound: one more than the number of (occurrences of) markable inodes in g *)
Definition fuel_bound (g : fsgraph) : nat := S (length (universe g)).

Lemma ekeys_in (es : list dent) (e : dent) (k : N) : In e es -> ekey e = Some k -> In k (ekeys es).
Proof.
  intros Hin Hk. unfold ekeys. apply in_flat_map. exists e. split; [assumption|]. rewrite Hk. now left.
Qed.

Lemma listing_universe (g : fsgraph) (i : N) (b : bool) (es : list dent) (e : dent) (k : N) :
  listing g i = Some (b, es) -> In e es -> ekey e = Some k -> In k (universe g).
Proof.
  induction g as [|[j l] r IH]; cbn [listing]; [discriminate|].
  intros H Hin Hk. unfold universe. cbn [flat_map snd]. apply in_or_app.
  destruct (i =? j).
  - injection H as ->. left. cbn [snd]. now apply (ekeys_in es e k).
  - right. now apply IH.
Qed.

Lemma ents_of_universe (g : fsgraph) (i : N) (es : list dent) (e : dent) (k : N) :
  ents_of g i = Some es -> In e es -> ekey e = Some k -> In k (universe g).
Proof.
  unfold ents_of. destruct (listing g i) as [[[|] es']|] eqn:El; try discriminate.
  intro H. injection H as ->. now apply (listing_universe g i true es).
Qed.

(* number of (occurrences of) elements of U not in vis *)
Fixpoint unv (U vis : list N) : nat :=
  match U with
  | [] => 0%nat
  | u :: U' => ((if existsb (N.eqb u) vis then 0 else 1) + unv U' vis)%nat
  end.

Lemma unv_le_length (U vis : list N) : (unv U vis <= length U)%nat.
Proof.
  induction U as [|u U IH]; cbn [unv length]; [lia|].
  destruct (existsb (N.eqb u) vis); lia.
Qed.

Lemma unv_add_le (U vis : list N) (k : N) : (unv U (k :: vis) <= unv U vis)%nat.
Proof.
  induction U as [|u U IH]; cbn [unv existsb]; [lia|].
  destruct (u =? k); cbn [orb]; destruct (existsb (N.eqb u) vis); lia.
Qed.

Lemma unv_add_lt (U vis : list N) (k : N) : In k U -> ~ In k vis -> (unv U (k :: vis) < unv U vis)%nat.
Proof.
  intros Hin Hni. induction U as [|u U IH]; [contradiction|].
  cbn [unv existsb]. pose proof (unv_add_le U vis k) as Hle.
  destruct Hin as [->|Hin].
  - rewrite N.eqb_refl. cbn [orb]. apply memN_false in Hni. rewrite Hni. lia.
  - specialize (IH Hin). destruct (u =? k); cbn [orb]; destruct (existsb (N.eqb u) vis); lia.
Qed.
