(* Theorems about model/Funcs.v (property C16): the model of function::get_value computes the
   documented value (spec/FuncsSpec.v) for every argument string.  Every implication is followed
   by an Example evaluated with vm_compute. *)
From Coq Require Import String List Arith NArith ZArith Bool Lia Floats.
From FS Require Import lib.Str lib.Res lib.Dec lib.F64 lib.Fin lib.Civil lib.Utf8 lib.Base64 gen.FuncGen
  model.Datetime model.CaseTab model.Funcs spec.FuncsSpec proofs.DatetimeProofs.
Import ListNotations.
Open Scope N_scope.

Ltac Zify.zify_post_hook ::= Z.to_euclidean_division_equations.

(* ========================================================================= *)
(* LENGTH, CONCAT, CONCAT_WS, COALESCE                                       *)
(* ========================================================================= *)

(* LENGTH counts characters (code points), not bytes *)
Theorem length_chars : forall e now arg args,
  get_value_gen e now FnLength arg args = Ok (VInt (Z.of_nat (length arg))).
Proof. reflexivity. Qed.

Example length_chars_ex : get_value 0 FnLength (s "h" ++ [233; 0x1F600] ++ s "llo") [] = Ok (VInt 6).
Proof. vm_compute. reflexivity. Qed.

Theorem concat : forall e now arg args,
  get_value_gen e now FnConcat arg args = Ok (VStr (arg ++ List.concat args)).
Proof. reflexivity. Qed.

Example concat_ex : get_value 0 FnConcat (s "a") [s "b"; []; s "cd"] = Ok (VStr (s "abcd")).
Proof. vm_compute. reflexivity. Qed.

(* CONCAT_WS: the first argument is the separator, put BETWEEN the others *)
Theorem concat_ws : forall e now sep args,
  get_value_gen e now FnConcatWs sep args = Ok (VStr (join sep args)).
Proof. reflexivity. Qed.

Lemma join_cons sep x y r : join sep (x :: y :: r) = x ++ sep ++ join sep (y :: r).
Proof. reflexivity. Qed.

(* the separator occurs exactly between consecutive arguments *)
Theorem concat_ws_shape : forall sep x r,
  join sep (x :: r) = x ++ List.concat (map (fun y => sep ++ y) r).
Proof.
  intros sep x r. revert x. induction r as [|y r IH]; intros x.
  - cbn. now rewrite app_nil_r.
  - rewrite join_cons, IH. cbn [map List.concat]. now rewrite app_assoc_reverse.
Qed.

Example concat_ws_ex : get_value 0 FnConcatWs (s ", ") [s "a"; s "b"; s "c"] = Ok (VStr (s "a, b, c")).
Proof. vm_compute. reflexivity. Qed.
Example concat_ws_none : get_value 0 FnConcatWs (s ", ") [] = Ok (VStr []).
Proof. vm_compute. reflexivity. Qed.

Definition nonempty (x : str) : bool := negb (match x with [] => true | _ => false end).

Lemma filter_first_nonempty l :
  match filter nonempty l with
  | x :: _ => first_nonempty l (Some x)
  | [] => first_nonempty l None
  end.
Proof.
  induction l as [|y l IH]; cbn [filter]; [constructor|].
  destruct y as [|c y]; cbn [nonempty negb].
  - destruct (filter nonempty l) as [|x t].
    + constructor; [reflexivity|exact IH].
    + destruct IH as (pre & post & E & F & N). exists ([] :: pre), post.
      split; [now rewrite E|]. split; [constructor; [reflexivity|exact F]|exact N].
  - exists [], l. split; [reflexivity|]. split; [constructor|discriminate].
Qed.

(* COALESCE returns the first non-empty string among its arguments, the empty value if none *)
Theorem coalesce_first_nonempty : forall e now arg args,
  (exists x, get_value_gen e now FnCoalesce arg args = Ok (VStr x) /\ first_nonempty (arg :: args) (Some x))
  \/ (get_value_gen e now FnCoalesce arg args = Ok VEmpty /\ first_nonempty (arg :: args) None).
Proof.
  intros e now arg args.
  change (get_value_gen e now FnCoalesce arg args)
    with (match filter nonempty (arg :: args) with x :: _ => Ok (VStr x) | [] => @Ok value VEmpty end).
  pose proof (filter_first_nonempty (arg :: args)) as H.
  destruct (filter nonempty (arg :: args)) as [|x t].
  - right. split; [reflexivity|exact H].
  - left. exists x. split; [reflexivity|exact H].
Qed.

Example coalesce_ex : get_value 0 FnCoalesce [] [[]; s "x"; s "y"] = Ok (VStr (s "x"))
  /\ get_value 0 FnCoalesce [] [[]; []] = Ok VEmpty.
Proof. vm_compute. split; reflexivity. Qed.

(* ========================================================================= *)
(* TRIM / LTRIM / RTRIM                                                      *)
(* ========================================================================= *)

Lemma is_ws_spec c : is_ws c = white_space c.
Proof.
  unfold is_ws, white_space, white_space_ranges, in_rng. cbn [existsb fst snd].
  rewrite orb_false_r.
  assert (E : forall k, (c =? k) = ((k <=? c) && (c <=? k))).
  { intros k. destruct (N.eqb_spec c k) as [->|Hn].
    - now rewrite N.leb_refl.
    - destruct (N.leb_spec k c), (N.leb_spec c k); try reflexivity. lia. }
  rewrite !E. rewrite !orb_assoc. reflexivity.
Qed.

Lemma drop_ws_split x : exists a, x = a ++ drop_ws x /\ forallb is_ws a = true.
Proof.
  induction x as [|c x (a & E & F)]; [exists []; split; reflexivity|].
  cbn [drop_ws]. destruct (is_ws c) eqn:W.
  - exists (c :: a). split; [cbn; now rewrite <- E|]. cbn [forallb]. now rewrite W, F.
  - exists []. split; reflexivity.
Qed.

Lemma drop_ws_head x : match drop_ws x with [] => True | c :: _ => is_ws c = false end.
Proof.
  induction x as [|c x IH]; [exact I|]. cbn [drop_ws]. destruct (is_ws c) eqn:W; [exact IH|exact W].
Qed.

Lemma all_ws_of a : forallb is_ws a = true -> all_ws a.
Proof.
  intros H. apply Forall_forall. intros c Hc. rewrite forallb_forall in H.
  rewrite <- is_ws_spec. now apply H.
Qed.

Lemma starts_clean_of r : match r with [] => True | c :: _ => is_ws c = false end -> starts_clean r.
Proof. destruct r as [|c r]; [trivial|]. unfold starts_clean. now rewrite <- is_ws_spec. Qed.

Lemma forallb_rev {A} (f : A -> bool) l : forallb f (rev l) = forallb f l.
Proof.
  induction l as [|x l IH]; [reflexivity|]. cbn [rev forallb].
  rewrite forallb_app, IH. cbn [forallb]. rewrite andb_true_r. apply andb_comm.
Qed.

Theorem ltrim_correct : forall e now arg args,
  exists r, get_value_gen e now FnLTrim arg args = Ok (VStr r) /\ ltrim_spec arg r.
Proof.
  intros e now arg args. exists (drop_ws arg). split; [reflexivity|].
  destruct (drop_ws_split arg) as (a & E & F). exists a.
  split; [exact E|]. split; [now apply all_ws_of|]. apply starts_clean_of, drop_ws_head.
Qed.

Lemma trim_end_split x : exists b, x = trim_end x ++ b /\ forallb is_ws b = true.
Proof.
  unfold trim_end. destruct (drop_ws_split (rev x)) as (a & E & F).
  exists (rev a). split.
  - apply (f_equal (@rev N)) in E. rewrite rev_involutive, rev_app_distr in E. exact E.
  - now rewrite forallb_rev.
Qed.

Lemma trim_end_clean x : ends_clean (trim_end x).
Proof.
  unfold ends_clean, trim_end. rewrite rev_involutive. apply starts_clean_of, drop_ws_head.
Qed.

Theorem rtrim_correct : forall e now arg args,
  exists r, get_value_gen e now FnRTrim arg args = Ok (VStr r) /\ rtrim_spec arg r.
Proof.
  intros e now arg args. exists (trim_end arg). split; [reflexivity|].
  destruct (trim_end_split arg) as (b & E & F). exists b.
  split; [exact E|]. split; [now apply all_ws_of|apply trim_end_clean].
Qed.

Theorem trim_correct : forall e now arg args,
  exists r, get_value_gen e now FnTrim arg args = Ok (VStr r) /\ trim_spec arg r.
Proof.
  intros e now arg args. exists (trim arg). split; [reflexivity|].
  unfold trim, trim_start.
  destruct (drop_ws_split arg) as (a & Ea & Fa).
  destruct (trim_end_split (drop_ws arg)) as (b & Eb & Fb).
  exists a, b. split; [rewrite <- Eb; exact Ea|].
  split; [now apply all_ws_of|]. split; [now apply all_ws_of|].
  split; [|apply trim_end_clean].
  pose proof (drop_ws_head arg) as Hd. rewrite Eb in Hd.
  apply starts_clean_of. destruct (trim_end (drop_ws arg)) as [|c r]; [exact I|exact Hd].
Qed.

(* the specification determines the result: trimming is a function of the argument *)
Lemma all_ws_clean_prefix a r a' r' :
  a ++ r = a' ++ r' -> all_ws a -> all_ws a' -> starts_clean r -> starts_clean r' -> a = a' /\ r = r'.
Proof.
  revert a'. induction a as [|c a IH]; intros a' E Wa Wa' Cr Cr'.
  - destruct a' as [|c' a']; [now split|]. cbn [app] in E. subst r. unfold starts_clean in Cr.
    inversion Wa' as [|? ? W _]. cbv beta in W. congruence.
  - destruct a' as [|c' a'].
    + cbn [app] in E. subst r'. unfold starts_clean in Cr'. inversion Wa as [|? ? W _].
      cbv beta in W. congruence.
    + cbn [app] in E. inversion E as [[Ec Er]]. subst c'.
      inversion Wa as [|? ? _ Wa2]; inversion Wa' as [|? ? _ Wa2']; subst.
      destruct (IH a' Er Wa2 Wa2' Cr Cr') as [-> ->]. now split.
Qed.

Theorem ltrim_spec_unique x r r' : ltrim_spec x r -> ltrim_spec x r' -> r = r'.
Proof.
  intros (a & E & W & C) (a' & E' & W' & C'). rewrite E in E'.
  now destruct (all_ws_clean_prefix a r a' r' E' W W' C C').
Qed.

Example trim_ex : get_value 0 FnTrim ([0x3000; 9] ++ s " a b " ++ [0xA0; 0x2003]) [] = Ok (VStr (s "a b"))
  /\ get_value 0 FnLTrim ([0x3000; 9] ++ s " a b ") [] = Ok (VStr (s "a b "))
  /\ get_value 0 FnRTrim (s " a b " ++ [0xA0; 0x2003]) [] = Ok (VStr (s " a b")).
Proof. vm_compute. repeat split; reflexivity. Qed.
(* U+200B ZERO WIDTH SPACE and U+FEFF are NOT White_Space *)
Example trim_zwsp : get_value 0 FnTrim [0x200B; 32; 0xFEFF] [] = Ok (VStr [0x200B; 32; 0xFEFF]).
Proof. vm_compute. reflexivity. Qed.

(* ========================================================================= *)
(* SUBSTRING                                                                 *)
(* ========================================================================= *)

Lemma drop_N_skipn x : forall n, drop_N n x = skipn (N.to_nat n) x.
Proof.
  induction x as [|c x IH]; intros n; cbn [drop_N]; [now rewrite skipn_nil|].
  destruct (N.eqb_spec n 0) as [->|Hn]; [reflexivity|].
  replace (N.to_nat n) with (S (N.to_nat (n - 1))) by lia. cbn [skipn]. apply IH.
Qed.

Lemma take_N_firstn x : forall n, take_N n x = firstn (N.to_nat n) x.
Proof.
  induction x as [|c x IH]; intros n; cbn [take_N]; [now rewrite firstn_nil|].
  destruct (N.eqb_spec n 0) as [->|Hn]; [reflexivity|].
  replace (N.to_nat n) with (S (N.to_nat (n - 1))) by lia. cbn [firstn]. f_equal. apply IH.
Qed.

(* parse_signed without the deep pattern match on the sign character *)
Definition parse_signed' (bound : Z) (x : str) : option Z :=
  let plain := match parse_N x with Some n => if (Z.of_N n <? bound)%Z then Some (Z.of_N n) else None | None => None end in
  match x with
  | c :: r =>
      if c =? 45 then match parse_N r with Some n => if (Z.of_N n <=? bound)%Z then Some (- Z.of_N n)%Z else None | None => None end
      else if c =? 43 then match parse_N r with Some n => if (Z.of_N n <? bound)%Z then Some (Z.of_N n) else None | None => None end
      else plain
  | [] => plain
  end.

Lemma parse_signed_eq bound x : parse_signed bound x = parse_signed' bound x.
Proof.
  destruct x as [|c r]; [reflexivity|].
  destruct c as [|p]; [reflexivity|].
  do 7 (try (destruct p as [p|p|]; try reflexivity)).
Qed.

Lemma parse_signed_range bound x z : (0 < bound)%Z -> parse_signed bound x = Some z -> (- bound <= z < bound)%Z.
Proof.
  intros Hb. rewrite parse_signed_eq. unfold parse_signed'. intros H.
  assert (P : match parse_N x with Some n => if (Z.of_N n <? bound)%Z then Some (Z.of_N n) else None | None => None end = Some z
              -> (- bound <= z < bound)%Z).
  { destruct (parse_N x) as [n|]; [|discriminate]. destruct (Z.ltb_spec (Z.of_N n) bound); [|discriminate].
    intros [= <-]. lia. }
  destruct x as [|c r]; [now apply P|].
  destruct (c =? 45).
  - destruct (parse_N r) as [n|]; [|discriminate]. destruct (Z.leb_spec (Z.of_N n) bound); [|discriminate].
    injection H as <-. lia.
  - destruct (c =? 43); [|now apply P].
    destruct (parse_N r) as [n|]; [|discriminate]. destruct (Z.ltb_spec (Z.of_N n) bound); [|discriminate].
    injection H as <-. lia.
Qed.

Lemma parse_i32_range a p : parse_i32 a = Some p -> (-2147483648 <= p < 2147483648)%Z.
Proof. apply parse_signed_range. lia. Qed.

(* the i64 position arithmetic and the `as usize` cast compute the documented start, for EVERY
   integer position and every string *)
Lemma skip_pos_from p x : skip_pos (substr_pos (length x) p) x = substr_from p x.
Proof.
  unfold substr_from, substr_pos, skip_pos. cbv zeta.
  destruct (Z.leb_spec 1 p) as [H1|H1].
  - destruct (Z.ltb_spec (p - 1) 0); [lia|].
    destruct (Z.ltb_spec (p - 1) 0); [lia|]. rewrite drop_N_skipn. f_equal. lia.
  - destruct (Z.ltb_spec (p - 1) 0); [|lia].
    destruct (Z.ltb_spec p 0) as [H0|H0]; cbn [andb].
    + destruct (Z.leb_spec (- p) (Z.of_nat (length x))) as [Hq|Hq].
      * destruct (Z.ltb_spec (Z.of_nat (length x) - Z.abs (p - 1) + 1) 0); [lia|].
        rewrite drop_N_skipn. f_equal. lia.
      * destruct (Z.ltb_spec (Z.of_nat (length x) - Z.abs (p - 1) + 1) 0); [reflexivity|lia].
    + assert (p = 0%Z) by lia. subst p.
      destruct (Z.ltb_spec (Z.of_nat (length x) - Z.abs (0 - 1) + 1) 0); [reflexivity|].
      rewrite drop_N_skipn. apply skipn_all2. lia.
Qed.

(* SUBSTRING(s, p) and SUBSTRING(s, p, len) for EVERY position the i32 parser accepts (including
   -2147483648 and -2147483647, where the former i32 arithmetic overflowed) and EVERY string: no
   bound on the length of the string is needed.
   Deviation from the documentation kept visible: an explicit length 0 means "to the end"
   (substr_len0 below). *)
Theorem substr_model : forall e now arg a p,
  parse_i32 a = Some p ->
  get_value_gen e now FnSubstring arg [a] = Ok (VStr (substr_spec p None arg))
  /\ forall l n rest, parse_usize l = Some n -> 1 <= n ->
       get_value_gen e now FnSubstring arg (a :: l :: rest) = Ok (VStr (substr_spec p (Some (N.to_nat n)) arg)).
Proof.
  intros e now arg a p Hp.
  split.
  - cbn [get_value_gen]. unfold substring. rewrite Hp. cbn [bind nth_error].
    cbn [N.ltb N.compare]. rewrite skip_pos_from. reflexivity.
  - intros l n rest Hn Hn1. cbn [get_value_gen]. unfold substring. rewrite Hp. cbn [bind nth_error].
    rewrite Hn. cbn [bind]. destruct (N.ltb_spec 0 n); [|lia].
    rewrite skip_pos_from. rewrite take_N_firstn. reflexivity.
Qed.

(* p >= 1: characters p, p+1, ... (1-based) *)
Corollary substr_positive : forall e now arg a p,
  parse_i32 a = Some p -> (1 <= p)%Z ->
  get_value_gen e now FnSubstring arg [a] = Ok (VStr (skipn (Z.to_nat (p - 1)) arg))
  /\ forall l n, parse_usize l = Some n -> 1 <= n ->
       get_value_gen e now FnSubstring arg [a; l] = Ok (VStr (firstn (N.to_nat n) (skipn (Z.to_nat (p - 1)) arg))).
Proof.
  intros e now arg a p Hp H1. destruct (substr_model e now arg a p Hp) as [A B].
  assert (F : substr_from p arg = skipn (Z.to_nat (p - 1)) arg).
  { unfold substr_from. destruct (Z.leb_spec 1 p); [reflexivity|lia]. }
  split.
  - rewrite A. unfold substr_spec. now rewrite F.
  - intros l n Hn Hn1. rewrite (B l n [] Hn Hn1). unfold substr_spec. now rewrite F.
Qed.

(* p < 0: the last |p| characters (then cut to len); nothing if the string is shorter *)
Corollary substr_negative : forall e now arg a p,
  parse_i32 a = Some p -> (p < 0)%Z ->
  get_value_gen e now FnSubstring arg [a]
  = Ok (VStr (if (- p <=? Z.of_nat (length arg))%Z then skipn (length arg - Z.to_nat (- p)) arg else [])).
Proof.
  intros e now arg a p Hp H1. destruct (substr_model e now arg a p Hp) as [A _].
  rewrite A. unfold substr_spec, substr_from.
  destruct (Z.leb_spec 1 p); [lia|]. destruct (Z.ltb_spec p 0); [|lia]. cbn [andb].
  destruct (Z.leb_spec (- p) (Z.of_nat (length arg))); [|reflexivity].
  do 3 f_equal. lia.
Qed.

(* no position argument: the whole string; position 0: nothing *)
Theorem substr_no_args : forall e now arg, get_value_gen e now FnSubstring arg [] = Ok (VStr arg).
Proof. intros e now [|c r]; reflexivity. Qed.

(* FINDING (documentation deviation): an explicit length 0 is "to the end", not "" *)
Theorem substr_len0 : forall e now arg a l p, parse_i32 a = Some p -> parse_usize l = Some 0 ->
  get_value_gen e now FnSubstring arg [a; l] = get_value_gen e now FnSubstring arg [a].
Proof.
  intros e now arg a l p Hp Hl. cbn [get_value_gen]. unfold substring. rewrite Hp. cbn [bind nth_error].
  rewrite Hl. reflexivity.
Qed.

(* error_exit paths *)
Theorem substr_bad_position : forall e now arg a rest, parse_i32 a = None ->
  get_value_gen e now FnSubstring arg (a :: rest) = Exit2 (msg_substr_pos ++ [58; 32] ++ a).
Proof. intros e now arg a rest H. cbn [get_value_gen]. unfold substring. rewrite H. reflexivity. Qed.

Theorem substr_bad_length : forall e now arg a l rest p, parse_i32 a = Some p -> parse_usize l = None ->
  get_value_gen e now FnSubstring arg (a :: l :: rest) = Exit2 (msg_substr_len ++ [58; 32] ++ l).
Proof.
  intros e now arg a l rest p Hp Hl. cbn [get_value_gen]. unfold substring. rewrite Hp. cbn [bind nth_error].
  rewrite Hl. reflexivity.
Qed.

Example substr_ex : get_value 0 FnSubstring (s "h" ++ [233] ++ s "llo") [s "2"; s "3"] = Ok (VStr ([233] ++ s "ll"))
  /\ get_value 0 FnSubstring (s "hello") [s "-3"; s "2"] = Ok (VStr (s "ll"))
  /\ get_value 0 FnSubstring (s "hello") [s "-5"] = Ok (VStr (s "hello"))
  /\ get_value 0 FnSubstring (s "hello") [s "-6"] = Ok (VStr [])
  /\ get_value 0 FnSubstring (s "hello") [s "0"] = Ok (VStr [])
  /\ get_value 0 FnSubstring (s "hello") [s "6"] = Ok (VStr [])
  /\ get_value 0 FnSubstring (s "hello") [s "-2147483648"] = Ok (VStr [])
  /\ get_value 0 FnSubstring (s "hello") [s "-2147483647"] = Ok (VStr [])
  /\ get_value 0 FnSubstring (s "hello") [s "-2147483647"; s "3"] = Ok (VStr [])
  /\ get_value 0 FnSubstring (s "hello") [s "2147483647"] = Ok (VStr [])
  /\ get_value 0 FnSubstring (s "hello") [s "2"; s "0"] = Ok (VStr (s "ello"))
  /\ get_value 0 FnSubstring (s "hello") [s "2"; s "18446744073709551615"] = Ok (VStr (s "ello")).
Proof. vm_compute. repeat split; reflexivity. Qed.
Example substr_exit_ex : get_value 0 FnSubstring (s "hello") [s "1.5"] = Exit2 (s "Could not parse position argument of SUBSTRING function: 1.5")
  /\ get_value 0 FnSubstring (s "hello") [s "1"; s "-1"] = Exit2 (s "Could not parse length argument of SUBSTRING function: -1").
Proof. vm_compute. split; reflexivity. Qed.

(* ========================================================================= *)
(* REPLACE                                                                   *)
(* ========================================================================= *)

Lemma repl_skip from to a r : repl from to (a ++ r) (length a) = repl from to r 0.
Proof. induction a as [|c a IH]; [reflexivity|]. cbn [app length repl]. exact IH. Qed.

Lemma starts_with_app p r : starts_with p (p ++ r) = true.
Proof. apply starts_with_spec. now exists r. Qed.

Lemma repl_hit from to r : from <> [] -> repl from to (from ++ r) 0 = to ++ repl from to r 0.
Proof.
  intros Hne. destruct from as [|f0 f']; [congruence|].
  change ((f0 :: f') ++ r) with (f0 :: (f' ++ r)). cbn [repl].
  change (f0 :: f' ++ r) with ((f0 :: f') ++ r). rewrite starts_with_app.
  cbn [length]. replace (S (length f') - 1)%nat with (length f') by lia.
  now rewrite repl_skip.
Qed.

Lemma repl_miss from to c r : starts_with from (c :: r) = false ->
  repl from to (c :: r) 0 = c :: repl from to r 0.
Proof. intros H. cbn [repl]. now rewrite H. Qed.

Lemma repl_sound from to : from <> [] -> forall n x, (length x <= n)%nat -> replace_spec from to x (repl from to x 0).
Proof.
  intros Hne. induction n as [|n IH]; intros x Hx.
  - destruct x; [constructor|cbn in Hx; lia].
  - destruct x as [|c r]; [constructor|].
    destruct (starts_with from (c :: r)) eqn:S.
    + apply starts_with_spec in S. destruct S as [r' E]. rewrite E, repl_hit by exact Hne.
      constructor. apply IH. apply (f_equal (@length N)) in E. rewrite app_length in E. cbn [length] in *.
      destruct from; [congruence|]. cbn [length] in E. lia.
    + rewrite repl_miss by exact S. constructor; [exact S|]. apply IH. cbn [length] in Hx. lia.
Qed.

Lemma repl_complete from to x y : from <> [] -> replace_spec from to x y -> y = repl from to x 0.
Proof.
  intros Hne H. induction H as [|r y _ IH|c r y S _ IH].
  - reflexivity.
  - rewrite repl_hit by exact Hne. now rewrite IH.
  - rewrite repl_miss by exact S. now rewrite IH.
Qed.

(* REPLACE with a non-empty needle computes exactly the relation "all non-overlapping
   occurrences, chosen left to right" *)
Theorem replace_nonempty_needle : forall e now arg from to rest y, from <> [] ->
  (get_value_gen e now FnReplace arg (from :: to :: rest) = Ok (VStr y) <-> replace_spec from to arg y).
Proof.
  intros e now arg from to rest y Hne. cbn [get_value_gen]. unfold replace.
  destruct from as [|f0 f']; [congruence|]. split.
  - intros [= <-]. apply (repl_sound (f0 :: f') to Hne (length arg) arg (le_n _)).
  - intros H. now rewrite (repl_complete _ _ _ _ Hne H).
Qed.

(* the needle does not occur: identity *)
Theorem replace_not_found : forall e now arg from to rest, from <> [] -> find_sub from arg = false ->
  get_value_gen e now FnReplace arg (from :: to :: rest) = Ok (VStr arg).
Proof.
  intros e now arg from to rest Hne Hf. cbn [get_value_gen]. unfold replace.
  destruct from as [|f0 f']; [congruence|]. do 2 f_equal.
  induction arg as [|c r IH]; [reflexivity|].
  cbn [find_sub] in Hf. apply orb_false_iff in Hf. destruct Hf as [S F].
  rewrite repl_miss by exact S. f_equal. apply IH. exact F.
Qed.

(* decomposition form: x = p0 from p1 from ... from pn and result = p0 to p1 to ... to pn, where
   in each p_i ++ from (i < n) the only occurrence of from is the final one, and p_n contains
   none: the occurrences replaced are the leftmost non-overlapping ones *)
Fixpoint pieces_ok (from : str) (ps : list str) : Prop :=
  match ps with
  | [] => False
  | [p] => ~ occurs_in from p
  | p :: rest => leftmost_piece from p /\ pieces_ok from rest
  end.

Lemma app_eq_self_mid (a f b : str) : f = a ++ f ++ b -> a = [] /\ b = [].
Proof.
  intros H. apply (f_equal (@length N)) in H. rewrite !app_length in H.
  destruct a; destruct b; cbn [length] in H; try lia. now split.
Qed.

Theorem replace_pieces : forall from to x y, from <> [] -> replace_spec from to x y ->
  exists ps, x = join from ps /\ y = join to ps /\ pieces_ok from ps.
Proof.
  intros from to x y Hne H. induction H as [|r y _ (ps & Ex & Ey & Ok)|c r y S _ (ps & Ex & Ey & Ok)].
  - exists [[]]. repeat split. intros (a & b & E). destruct a; destruct from; cbn in E; congruence.
  - destruct ps as [|p ps]; [destruct Ok|].
    exists ([] :: p :: ps). split; [rewrite join_cons, Ex; reflexivity|].
    split; [rewrite join_cons, Ey; reflexivity|].
    split; [|exact Ok]. intros a b E. cbn [app] in E. now destruct (app_eq_self_mid a from b E).
  - destruct ps as [|p ps]; [destruct Ok|].
    exists ((c :: p) :: ps).
    destruct ps as [|q ps].
    + cbn [join] in *. subst r y. repeat split.
      intros (a & b & E). destruct a as [|a0 a].
      * cbn [app] in E. assert (T : starts_with from (c :: p) = true) by (apply starts_with_spec; now exists b).
        congruence.
      * cbn [app] in E. inversion E; subst. apply Ok. now exists a, b.
    + rewrite join_cons in Ex, Ey. split; [rewrite join_cons, Ex; reflexivity|].
      split; [rewrite join_cons, Ey; reflexivity|].
      destruct Ok as [L Ok]. split; [|exact Ok].
      intros a b E. destruct a as [|a0 a].
      * exfalso. cbn [app] in E.
        assert (T : starts_with from (c :: r) = true).
        { apply starts_with_spec. exists (b ++ join from (q :: ps)). rewrite Ex.
          transitivity ((c :: p ++ from) ++ join from (q :: ps)).
          - cbn [app]. now rewrite <- app_assoc.
          - rewrite E. now rewrite <- app_assoc. }
        congruence.
      * cbn [app] in E. inversion E as [[E0 E1]]. apply (L a b). exact E1.
Qed.

(* an empty needle matches at every character boundary *)
Theorem replace_empty_needle : forall e now arg to rest,
  get_value_gen e now FnReplace arg ([] :: to :: rest) = Ok (VStr (to ++ flat_map (fun c => c :: to) arg)).
Proof. reflexivity. Qed.

Theorem replace_arity : forall e now arg args, (length args < 2)%nat ->
  get_value_gen e now FnReplace arg args = Exit2 (msg_replace ++ [58; 32] ++ arg).
Proof.
  intros e now arg args H. destruct args as [|a [|b r]]; try reflexivity. cbn [length] in H. lia.
Qed.

Example replace_ex : get_value 0 FnReplace (s "aaaa") [s "aa"; s "b"] = Ok (VStr (s "bb"))
  /\ get_value 0 FnReplace (s "ababa") [s "aba"; s "x"] = Ok (VStr (s "xba"))
  /\ get_value 0 FnReplace (s "abc") [s "c"; s "cc"] = Ok (VStr (s "abcc"))
  /\ get_value 0 FnReplace (s "abc") [s "x"; s "y"] = Ok (VStr (s "abc"))
  /\ get_value 0 FnReplace (s "ab") [[]; s "-"] = Ok (VStr (s "-a-b-"))
  /\ get_value 0 FnReplace [] [[]; s "-"] = Ok (VStr (s "-"))
  /\ get_value 0 FnReplace (s "ab") [s "a"] = Exit2 (s "REPLACE function requires two arguments: ab").
Proof. vm_compute. repeat split; reflexivity. Qed.
Example replace_pieces_ex : s "ababa" = join (s "aba") [[]; s "ba"] /\ s "xba" = join (s "x") [[]; s "ba"].
Proof. vm_compute. split; reflexivity. Qed.

(* ========================================================================= *)
(* TO_BASE64 / FROM_BASE64                                                   *)
(* ========================================================================= *)

Lemma b64_char_ascii v : (b64_char v <? 0x80) = true.
Proof.
  unfold b64_char. apply N.ltb_lt.
  destruct (N.ltb_spec v 26); [lia|]. destruct (N.ltb_spec v 52); [lia|].
  destruct (N.ltb_spec v 62); [lia|]. destruct (v =? 62); lia.
Qed.

Lemma b64_encode_ascii bs : forallb (fun c => c <? 0x80) (b64_encode bs) = true.
Proof.
  rewrite b64_encode_split, forallb_app. apply andb_true_iff. split.
  - induction (b64_body bs) as [|v l IH]; [reflexivity|]. cbn [map forallb]. now rewrite b64_char_ascii, IH.
  - unfold b64_pad. destruct (Nat.modulo (length bs) 3) as [|[|[|?]]]; reflexivity.
Qed.

(* the model's encoder is the RFC 4648 definition *)
Lemma b64_char_sym_all : forallb (fun v => b64_char v =? b64_sym v) (below_pow2 6) = true.
Proof. vm_compute. reflexivity. Qed.
Lemma b64_char_sym v : v < 64 -> b64_char v = b64_sym v.
Proof. intros H. apply N.eqb_eq. exact (forall_below_pow2 6 _ b64_char_sym_all v H). Qed.

Theorem to_base64_rfc : forall bs, bytes_ok bs = true -> b64_encode bs = b64_rfc bs.
Proof.
  unfold bytes_ok.
  induction bs as [| a | a b | a b c r IH] using list_ind3; cbn [forallb b64_encode b64_rfc]; intros H.
  - reflexivity.
  - rewrite andb_true_iff, N.ltb_lt in H. cbv zeta.
    rewrite <- !b64_char_sym by lia. repeat (f_equal; try lia).
  - rewrite !andb_true_iff, !N.ltb_lt in H. cbv zeta.
    rewrite <- !b64_char_sym by lia. repeat (f_equal; try lia).
  - rewrite !andb_true_iff, !N.ltb_lt in H. destruct H as (Ha & Hb & Hc & Hr). cbv zeta.
    rewrite <- !b64_char_sym by lia. rewrite (IH Hr). repeat (f_equal; try lia).
Qed.

Theorem to_base64_spec_ok : forall e now x, forallb valid_scalar x = true ->
  get_value_gen e now FnToBase64 x [] = Ok (VStr (to_base64_spec x)).
Proof.
  intros e now x V. cbn [get_value_gen]. unfold to_base64_spec.
  now rewrite to_base64_rfc by (apply utf8_encode_bytes; exact V).
Qed.

(* FROM_BASE64 (TO_BASE64 x) = x for every string of Unicode scalar values *)
Theorem base64_inverse : forall e now x, forallb valid_scalar x = true ->
  exists enc, get_value_gen e now FnToBase64 x [] = Ok (VStr enc)
           /\ get_value_gen e now FnFromBase64 enc [] = Ok (VStr x).
Proof.
  intros e now x V. exists (b64_encode (utf8_encode x)). split; [reflexivity|].
  cbn [get_value_gen]. rewrite utf8_encode_ascii by apply b64_encode_ascii.
  rewrite b64_decode_encode by (apply utf8_encode_bytes; exact V).
  now rewrite utf8_lossy_encode by exact V.
Qed.

(* the other direction holds on canonical encodings only: the decoder is lenient *)
Example from_base64_lenient : get_value 0 FnFromBase64 (s "QR") [] = Ok (VStr (s "A"))
  /\ get_value 0 FnToBase64 (s "A") [] = Ok (VStr (s "QQ==")).
Proof. vm_compute. split; reflexivity. Qed.
Example base64_ex : get_value 0 FnToBase64 (s "h" ++ [233; 0x20AC; 0x1F600]) [] = Ok (VStr (s "aMOp4oKs8J+YgA=="))
  /\ get_value 0 FnFromBase64 (s "aMOp4oKs8J+YgA==") [] = Ok (VStr (s "h" ++ [233; 0x20AC; 0x1F600])).
Proof. vm_compute. split; reflexivity. Qed.
(* invalid input: the empty string; invalid UTF-8 in the decoded bytes: U+FFFD *)
Example from_base64_invalid : get_value 0 FnFromBase64 (s "a b") [] = Ok (VStr [])
  /\ get_value 0 FnFromBase64 (s "4oI=") [] = Ok (VStr [0xFFFD]).
Proof. vm_compute. split; reflexivity. Qed.

(* ========================================================================= *)
(* LOWER / UPPER / INITCAP                                                   *)
(* ========================================================================= *)

Definition ascii (x : str) : bool := forallb (fun c => c <? 0x80) x.

Lemma upper1_idem c : upper1 (upper1 c) = upper1 c.
Proof.
  unfold upper1, is_lower.
  destruct ((97 <=? c) && (c <=? 122)) eqn:E; [|now rewrite E].
  apply andb_true_iff in E. destruct E as [E1 E2]. apply N.leb_le in E1, E2.
  assert (H : (97 <=? c - 32) = false) by (apply N.leb_gt; lia). now rewrite H.
Qed.

Lemma upper1_lower1 c : upper1 (lower1 c) = upper1 c.
Proof.
  unfold lower1, upper1, is_upper, is_lower.
  destruct ((65 <=? c) && (c <=? 90)) eqn:E.
  - apply andb_true_iff in E. destruct E as [E1 E2]. apply N.leb_le in E1, E2.
    assert (H1 : (97 <=? c + 32) = true) by (apply N.leb_le; lia).
    assert (H2 : (c + 32 <=? 122) = true) by (apply N.leb_le; lia).
    assert (H3 : (97 <=? c) = false) by (apply N.leb_gt; lia).
    rewrite H1, H2, H3. cbn [andb]. lia.
  - reflexivity.
Qed.

Lemma lower1_ascii c : c < 0x80 -> lower1 c < 0x80.
Proof.
  intros H. unfold lower1, is_upper. destruct ((65 <=? c) && (c <=? 90)) eqn:E; [|exact H].
  apply andb_true_iff in E. destruct E as [_ E2]. apply N.leb_le in E2. lia.
Qed.
Lemma upper1_ascii c : c < 0x80 -> upper1 c < 0x80.
Proof. intros H. unfold upper1. destruct (is_lower c); lia. Qed.

Lemma to_lower_ascii x : ascii x = true -> to_lower x = ascii_lower x /\ ascii (ascii_lower x) = true.
Proof.
  unfold ascii. induction x as [|c x IH]; intros H; [split; reflexivity|].
  cbn [forallb] in H. apply andb_true_iff in H. destruct H as [Hc Hx]. destruct (IH Hx) as [E A].
  unfold to_lower, ascii_lower in *. cbn [flat_map map forallb]. unfold lower_cp at 1. rewrite Hc, E.
  split; [reflexivity|]. rewrite A. apply N.ltb_lt in Hc. apply lower1_ascii in Hc. apply N.ltb_lt in Hc. now rewrite Hc.
Qed.

Lemma to_upper_ascii x : ascii x = true -> to_upper x = ascii_upper x /\ ascii (ascii_upper x) = true.
Proof.
  unfold ascii. induction x as [|c x IH]; intros H; [split; reflexivity|].
  cbn [forallb] in H. apply andb_true_iff in H. destruct H as [Hc Hx]. destruct (IH Hx) as [E A].
  unfold to_upper, ascii_upper in *. cbn [flat_map map forallb]. unfold upper_cp at 1. rewrite Hc, E.
  split; [reflexivity|]. rewrite A. apply N.ltb_lt in Hc. apply upper1_ascii in Hc. apply N.ltb_lt in Hc. now rewrite Hc.
Qed.

Lemma ascii_modelled x : ascii x = true -> case_modelled x = true.
Proof.
  unfold ascii, case_modelled. intros H. rewrite forallb_forall in *. intros c Hc.
  unfold char_modelled. now rewrite (H c Hc).
Qed.

(* on ASCII text LOWER / UPPER are the ASCII mappings; idempotent; LOWER after UPPER = LOWER *)
Theorem lower_upper_ascii_idempotent : forall e now x args, ascii x = true ->
  get_value_gen e now FnLower x args = Ok (VStr (ascii_lower x))
  /\ get_value_gen e now FnUpper x args = Ok (VStr (ascii_upper x))
  /\ get_value_gen e now FnLower (ascii_lower x) args = Ok (VStr (ascii_lower x))
  /\ get_value_gen e now FnUpper (ascii_upper x) args = Ok (VStr (ascii_upper x))
  /\ get_value_gen e now FnLower (ascii_upper x) args = Ok (VStr (ascii_lower x))
  /\ get_value_gen e now FnUpper (ascii_lower x) args = Ok (VStr (ascii_upper x)).
Proof.
  intros e now x args A.
  destruct (to_lower_ascii x A) as [L AL]. destruct (to_upper_ascii x A) as [U AU].
  destruct (to_lower_ascii _ AL) as [LL _]. destruct (to_upper_ascii _ AU) as [UU _].
  destruct (to_lower_ascii _ AU) as [LU _]. destruct (to_upper_ascii _ AL) as [UL _].
  cbn [get_value_gen]. unfold case_fn.
  rewrite (ascii_modelled x A), (ascii_modelled _ AL), (ascii_modelled _ AU).
  rewrite L, U, LL, UU, LU, UL. rewrite ascii_lower_idem.
  assert (E1 : ascii_upper (ascii_upper x) = ascii_upper x).
  { unfold ascii_upper. rewrite map_map. apply map_ext, upper1_idem. }
  assert (E2 : ascii_lower (ascii_upper x) = ascii_lower x).
  { unfold ascii_lower, ascii_upper. rewrite map_map. apply map_ext, lower1_upper1. }
  assert (E3 : ascii_upper (ascii_lower x) = ascii_upper x).
  { unfold ascii_lower, ascii_upper. rewrite map_map. apply map_ext, upper1_lower1. }
  rewrite E1, E2, E3. repeat split; reflexivity.
Qed.

Example lower_upper_ex : get_value 0 FnLower (s "MiXeD 123 [\]") [] = Ok (VStr (s "mixed 123 [\]"))
  /\ get_value 0 FnUpper (s "MiXeD 123 {|}") [] = Ok (VStr (s "MIXED 123 {|}")).
Proof. vm_compute. split; reflexivity. Qed.

(* caseless scripts: identity *)
Lemma caseless_cp c : caseless c = true -> lower_cp c = [c] /\ upper_cp c = [c] /\ char_modelled c = true.
Proof.
  intros H.
  assert (R : 0x2B0 <= c /\ (c < 0x370 \/ 0x4FF < c)).
  { unfold caseless, caseless_ranges, in_rng in H. cbn [existsb fst snd] in H.
    rewrite !orb_true_iff, !andb_true_iff, !N.leb_le in H. lia. }
  unfold lower_cp, upper_cp, char_modelled, in_blocks, in_rng. rewrite H.
  destruct (N.ltb_spec c 0x80); [lia|].
  assert (B1 : (c <=? 0x17F) = false) by (apply N.leb_gt; lia).
  assert (B2 : (0x370 <=? c) && (c <=? 0x3FF) = false).
  { destruct (N.leb_spec 0x370 c); destruct (N.leb_spec c 0x3FF); try reflexivity. lia. }
  assert (B3 : (0x400 <=? c) && (c <=? 0x4FF) = false).
  { destruct (N.leb_spec 0x400 c); destruct (N.leb_spec c 0x4FF); try reflexivity. lia. }
  rewrite B1, B2, B3, andb_false_r. cbn [orb andb]. repeat split; try now rewrite orb_true_r.
Qed.

Theorem lower_upper_caseless : forall e now x args, forallb caseless x = true ->
  get_value_gen e now FnLower x args = Ok (VStr x) /\ get_value_gen e now FnUpper x args = Ok (VStr x).
Proof.
  intros e now x args H.
  assert (G : to_lower x = x /\ to_upper x = x /\ case_modelled x = true).
  { induction x as [|c x IH]; [repeat split|].
    cbn [forallb] in H. apply andb_true_iff in H. destruct H as [Hc Hx].
    destruct (IH Hx) as (L & U & M). destruct (caseless_cp c Hc) as (Lc & Uc & Mc).
    unfold to_lower, to_upper, case_modelled in *. cbn [flat_map forallb].
    rewrite Lc, Uc, Mc, L, U, M. repeat split. }
  destruct G as (L & U & M). cbn [get_value_gen]. unfold case_fn. rewrite M, L, U. split; reflexivity.
Qed.

Example caseless_ex : get_value 0 FnUpper [0x65E5; 0x672C; 0x8A9E; 0x30C6; 0x1F600; 0x5E9] [] = Ok (VStr [0x65E5; 0x672C; 0x8A9E; 0x30C6; 0x1F600; 0x5E9]).
Proof. vm_compute. reflexivity. Qed.
(* tabulated blocks (validated against the real code): multi-character and cross-block mappings *)
Example case_tab_ex : get_value 0 FnUpper [0xDF; 0x149; 0xFF; 0xB5; 0x44F] [] = Ok (VStr [83; 83; 0x2BC; 78; 0x178; 0x39C; 0x42F])
  /\ get_value 0 FnLower [0x130; 0x3A9; 0x416] [] = Ok (VStr [105; 0x307; 0x3C9; 0x436]).
Proof. vm_compute. split; reflexivity. Qed.

(* ---- INITCAP ---- *)

Definition not_ws (c : N) : bool := negb (is_ws c).

Lemma words_aux_spec x : forall cur, forallb not_ws cur = true ->
  Forall (fun w => w <> [] /\ forallb not_ws w = true) (words_aux x cur)
  /\ List.concat (words_aux x cur) = rev cur ++ filter not_ws x.
Proof.
  induction x as [|c x IH]; intros cur Hc.
  - cbn [words_aux filter]. destruct cur as [|d cur]; [split; [constructor|reflexivity]|].
    split; [|cbn [List.concat]; now rewrite !app_nil_r].
    constructor; [|constructor]. split; [|now rewrite forallb_rev].
    intros E. apply (f_equal (@length N)) in E. rewrite rev_length in E. discriminate.
  - cbn [words_aux filter]. destruct (is_ws c) eqn:W.
    + assert (N1 : not_ws c = false) by (unfold not_ws; now rewrite W). rewrite N1.
      destruct (IH [] eq_refl) as [F C]. destruct cur as [|d cur].
      * split; [exact F|exact C].
      * split.
        -- constructor; [|exact F]. split; [|now rewrite forallb_rev].
           intros E. apply (f_equal (@length N)) in E. rewrite rev_length in E. discriminate.
        -- cbn [List.concat]. rewrite C. reflexivity.
    + assert (N1 : not_ws c = true) by (unfold not_ws; now rewrite W). rewrite N1.
      assert (Hc' : forallb not_ws (c :: cur) = true).
      { cbn [forallb]. now rewrite N1, Hc. }
      destruct (IH (c :: cur) Hc') as [F C]. split; [exact F|].
      rewrite C. cbn [rev]. now rewrite <- app_assoc.
Qed.

(* split_whitespace: the words are non-empty, free of White_Space, and together are exactly the
   non-White_Space characters of the argument, in order *)
Theorem split_ws_spec x :
  Forall (fun w => w <> [] /\ forallb not_ws w = true) (split_ws x)
  /\ List.concat (split_ws x) = filter not_ws x.
Proof. exact (words_aux_spec x [] eq_refl). Qed.

Lemma cap_word_ascii c r : ascii (c :: r) = true -> cap_word (c :: r) = upper1 c :: ascii_lower r.
Proof.
  intros A. unfold cap_word. destruct (to_lower_ascii (c :: r) A) as [L AL]. rewrite L.
  unfold ascii_lower. cbn [map capitalize]. unfold upper_cp.
  unfold ascii in AL. unfold ascii_lower in AL. cbn [map forallb] in AL.
  apply andb_true_iff in AL. destruct AL as [A1 _]. rewrite A1. cbn [app]. now rewrite upper1_lower1.
Qed.

(* INITCAP: the words of the argument (split at White_Space runs), each lower-cased with its
   first character upper-cased, joined by single spaces *)
Theorem initcap_shape : forall e now arg args, case_modelled arg = true ->
  get_value_gen e now FnInitCap arg args = Ok (VStr (join [32] (map cap_word (split_ws arg))))
  /\ Forall (fun w => w <> [] /\ forallb not_ws w = true) (split_ws arg)
  /\ List.concat (split_ws arg) = filter not_ws arg
  /\ (ascii arg = true ->
      Forall (fun w => exists c r, w = c :: r /\ cap_word w = upper1 c :: ascii_lower r) (split_ws arg)).
Proof.
  intros e now arg args M. destruct (split_ws_spec arg) as [F C].
  split; [cbn [get_value_gen]; now rewrite M|]. split; [exact F|]. split; [exact C|].
  intros A. apply Forall_forall. intros w Hw.
  rewrite Forall_forall in F. destruct (F w Hw) as [Hne _].
  destruct w as [|c r]; [congruence|]. exists c, r. split; [reflexivity|].
  apply cap_word_ascii.
  (* every character of a word is a character of the argument *)
  unfold ascii in *. rewrite forallb_forall in *. intros d Hd. apply A.
  assert (I : In d (List.concat (split_ws arg))) by (apply in_concat; exists (c :: r); split; assumption).
  rewrite C in I. apply filter_In in I. tauto.
Qed.

Example initcap_ex : get_value 0 FnInitCap ([9] ++ s "hELLO" ++ [0x3000; 32] ++ s "wORLD-x  a1B ") [] = Ok (VStr (s "Hello World-x A1b"))
  /\ get_value 0 FnInitCap (s "   ") [] = Ok (VStr [])
  /\ get_value 0 FnInitCap ([0xC9] ++ s "COLE stra" ++ [0xDF] ++ s "e " ++ [0xDF] ++ s "x") [] = Ok (VStr ([0xC9] ++ s "cole Stra" ++ [0xDF] ++ s "e SSx")).
Proof. vm_compute. repeat split; reflexivity. Qed.

(* ========================================================================= *)
(* BIN / HEX / OCT                                                           *)
(* ========================================================================= *)

Lemma digit_roundtrip_all : forallb (fun d => match digit_of_char (digit_char d) with Some d' => (d' =? d) && negb ((digit_char d =? 48) && negb (d =? 0)) | None => false end) (below_pow2 4) = true.
Proof. vm_compute. reflexivity. Qed.

Lemma digit_roundtrip d : d < 16 -> digit_of_char (digit_char d) = Some d /\ (d <> 0 -> digit_char d <> 48).
Proof.
  intros H. pose proof (forall_below_pow2 4 _ digit_roundtrip_all d H) as E. cbv beta in E.
  destruct (digit_of_char (digit_char d)) as [d'|]; [|discriminate].
  apply andb_true_iff in E. destruct E as [E1 E2]. apply N.eqb_eq in E1. subst d'. split; [reflexivity|].
  intros Hd C. apply N.eqb_eq in C. apply N.eqb_neq in Hd. now rewrite C, Hd in E2.
Qed.

Lemma positional_app b x : forall acc y, positional b acc (x ++ y) =
  match positional b acc x with Some v => positional b v y | None => None end.
Proof.
  induction x as [|c x IH]; intros acc y; cbn [app positional]; [reflexivity|].
  destruct (digit_of_char c) as [d|]; [|reflexivity]. destruct (d <? b); [apply IH|reflexivity].
Qed.

Lemma log2_div_lt b n : 2 <= b -> b <= n -> N.log2 (n / b) < N.log2 n.
Proof.
  intros Hb Hn.
  assert (n / b <= n / 2) by (apply N.div_le_compat_l; lia).
  assert (N.log2 (n / b) <= N.log2 (n / 2)) by (apply N.log2_le_mono; assumption).
  assert (N.log2 (n / 2) = N.log2 n - 1).
  { rewrite <- N.div2_div. rewrite N.div2_spec. rewrite N.log2_shiftr. reflexivity. }
  assert (0 < N.log2 n) by (apply N.log2_pos; lia). lia.
Qed.

Lemma to_base_fuel_spec b : 2 <= b <= 16 -> forall fuel n acc, (N.to_nat (N.log2 n) < fuel)%nat ->
  exists ds, to_base_fuel fuel b n acc = ds ++ acc /\ ds <> []
    /\ (forall a, positional b a ds = Some (a * b ^ N.of_nat (length ds) + n))
    /\ (n <> 0 -> forall r, ds <> 48 :: r) /\ (n = 0 -> ds = [48]).
Proof.
  intros Hb. induction fuel as [|f IH]; intros n acc Hf; [lia|].
  cbn [to_base_fuel]. destruct (N.ltb_spec n b) as [L|G].
  - exists [digit_char n]. destruct (digit_roundtrip n ltac:(lia)) as [D Z].
    split; [reflexivity|]. split; [discriminate|]. split; [|split].
    + intros a. cbn [positional length]. rewrite D. destruct (N.ltb_spec n b); [|lia].
      change (N.of_nat 1) with 1. now rewrite N.pow_1_r.
    + intros Hn r E. inversion E as [E1]. now apply Z.
    + intros ->. reflexivity.
  - assert (Hlog : (N.to_nat (N.log2 (n / b)) < f)%nat) by (pose proof (log2_div_lt b n ltac:(lia) G); lia).
    destruct (IH (n / b) (digit_char (n mod b) :: acc) Hlog) as (ds & E1 & Hne & Hp & Hz & _).
    assert (Hm : n mod b < b) by (apply N.mod_lt; lia).
    destruct (digit_roundtrip (n mod b) ltac:(lia)) as [D _].
    assert (Hq : n / b <> 0).
    { intros C. apply N.div_small_iff in C; lia. }
    exists (ds ++ [digit_char (n mod b)]). split; [rewrite E1, <- app_assoc; reflexivity|].
    split; [now destruct ds|]. split; [|split].
    + intros a. rewrite positional_app, Hp. cbn [positional]. rewrite D.
      destruct (N.ltb_spec (n mod b) b); [|lia]. f_equal.
      rewrite app_length. cbn [length]. rewrite Nat.add_1_r, Nat2N.inj_succ, N.pow_succ_r'.
      pose proof (N.div_mod n b ltac:(lia)) as Hdm.
      set (q := n / b) in *. set (r := n mod b) in *. clearbody q r.
      rewrite Hdm. ring.
    + intros _ r E. destruct ds as [|d0 ds']; [congruence|]. cbn [app] in E. inversion E as [[E0 E2]].
      apply (Hz Hq ds'). now rewrite E0.
    + intros ->. lia.
Qed.

Lemma to_base_numeral b n : 2 <= b <= 16 -> numeral_of b n (to_base b n).
Proof.
  intros Hb. unfold to_base.
  destruct (to_base_fuel_spec b Hb (S (N.to_nat (N.log2 n))) n [] ltac:(lia)) as (ds & E & Hne & Hp & Hz & H0).
  rewrite E, app_nil_r. split; [exact Hne|]. split; [rewrite Hp; f_equal; lia|].
  intros r Er. destruct (N.eq_dec n 0) as [Hn|Hn].
  - rewrite (H0 Hn) in Er. now inversion Er.
  - exfalso. exact (Hz Hn r Er).
Qed.

(* BIN / HEX / OCT print the numeral (no leading zeros, lower-case digits) of the 64-bit
   two's-complement value; read back in the base, the digits give z mod 2^64 *)
Theorem bin_hex_oct_roundtrip : forall e now arg args z, Dec.parse_i64 arg = Some z ->
  (exists o, get_value_gen e now FnBin arg args = Ok (VStr o) /\ numeral_of 2 (twos_complement_64 z) o)
  /\ (exists o, get_value_gen e now FnHex arg args = Ok (VStr o) /\ numeral_of 16 (twos_complement_64 z) o)
  /\ (exists o, get_value_gen e now FnOct arg args = Ok (VStr o) /\ numeral_of 8 (twos_complement_64 z) o).
Proof.
  intros e now arg args z Hz. cbn [get_value_gen]. unfold radix. rewrite Hz.
  change (u64_of_i64 z) with (twos_complement_64 z).
  repeat split; eexists; (split; [reflexivity|apply to_base_numeral; lia]).
Qed.

Theorem bin_hex_oct_not_a_number : forall e now arg args, Dec.parse_i64 arg = None ->
  get_value_gen e now FnBin arg args = Ok VEmpty /\ get_value_gen e now FnHex arg args = Ok VEmpty
  /\ get_value_gen e now FnOct arg args = Ok VEmpty.
Proof. intros e now arg args H. cbn [get_value_gen]. unfold radix. rewrite H. repeat split. Qed.

Example radix_ex : get_value 0 FnBin (s "10") [] = Ok (VStr (s "1010"))
  /\ get_value 0 FnHex (s "255") [] = Ok (VStr (s "ff"))
  /\ get_value 0 FnOct (s "-1") [] = Ok (VStr (s "1777777777777777777777"))
  /\ get_value 0 FnHex (s "-9223372036854775808") [] = Ok (VStr (s "8000000000000000"))
  /\ get_value 0 FnBin (s "0") [] = Ok (VStr (s "0"))
  /\ get_value 0 FnHex (s "9223372036854775808") [] = Ok VEmpty
  /\ get_value 0 FnHex (s "1.5") [] = Ok VEmpty.
Proof. vm_compute. repeat split; reflexivity. Qed.
Example positional_ex : positional 16 0 (s "ffffffffffffff01") = Some (twos_complement_64 (-255)).
Proof. vm_compute. reflexivity. Qed.

(* ========================================================================= *)
(* ABS, LEAST, GREATEST                                                      *)
(* (these use the FloatAxioms specifications of the kernel primitives        *)
(*  abs / ltb / eqb: abs_spec, ltb_spec, eqb_spec)                           *)
(* ========================================================================= *)

Definition sf_nonneg (f : spec_float) : Prop :=
  match f with
  | S754_zero sg | S754_infinity sg | S754_finite sg _ _ => sg = false
  | S754_nan => True
  end.

Definition no_minus (l : str) : Prop := match l with c :: _ => c <> 45 | [] => True end.

Lemma show_N_head n : exists d r, show_N n = d :: r /\ d <> 45.
Proof.
  pose proof (parse_show_N n) as P. pose proof (show_N_digits n) as D.
  destruct (show_N n) as [|d r]; [discriminate|]. exists d, r. split; [reflexivity|].
  cbn [forallb] in D. apply andb_true_iff in D. destruct D as [D _].
  unfold is_digit in D. apply andb_true_iff in D. destruct D as [D _]. apply N.leb_le in D. lia.
Qed.

Lemma render_dec_no_minus D k : no_minus (render_dec D k).
Proof.
  unfold render_dec. destruct (show_N_head (Z.to_N D)) as (d & r & E & Hd). rewrite E.
  destruct (0 <=? k)%Z; [exact Hd|].
  destruct (Nat.ltb_spec (Z.to_nat (- k)) (length (d :: r))) as [L|G]; [|cbn [app no_minus]; lia].
  cbn [length] in *. replace (S (length r) - Z.to_nat (- k))%nat with (S (length r - Z.to_nat (- k))) by lia.
  exact Hd.
Qed.

Lemma show_f64_nonneg x : sf_nonneg (Prim2SF x) -> no_minus (show_f64 x).
Proof.
  unfold show_f64, sf_nonneg. destruct (Prim2SF x) as [sg|sg| |sg m e0]; intros H; try subst sg.
  - vm_compute. discriminate.
  - vm_compute. discriminate.
  - vm_compute. discriminate.
  - destruct (shortest_digits (Z.pos m) e0) as [[D k]|]; [|vm_compute; discriminate].
    destruct (strip_zeros 400 D k) as [D' k']. cbn [app]. apply render_dec_no_minus.
Qed.

(* ABS of anything that parses as a number is a float without a sign: never negative, and
   its printed form never starts with '-' *)
Theorem abs_nonneg : forall e now arg args v, get_value_gen e now FnAbs arg args = Ok (VFloat v) ->
  sf_nonneg (Prim2SF v) /\ no_minus (v_show (VFloat v)).
Proof.
  intros e now arg args v H. cbn [get_value_gen] in H. destruct (parse_f64 arg) as [x|]; [|discriminate].
  injection H as <-.
  assert (S : sf_nonneg (Prim2SF (abs x))).
  { rewrite abs_spec. destruct (Prim2SF x); cbn [SFabs sf_nonneg]; auto. }
  split; [exact S|]. cbn [v_show]. now apply show_f64_nonneg.
Qed.

Theorem abs_not_a_number : forall e now arg args, parse_f64 arg = None -> get_value_gen e now FnAbs arg args = Ok VEmpty.
Proof. intros e now arg args H. cbn [get_value_gen]. now rewrite H. Qed.

Example abs_ex : observe FnAbs (get_value 0 FnAbs (s "-2.5") []) = (0, 2, s "2.5")
  /\ observe FnAbs (get_value 0 FnAbs (s "-0") []) = (0, 2, s "0")
  /\ observe FnAbs (get_value 0 FnAbs (s "-inf") []) = (0, 2, s "inf")
  /\ observe FnAbs (get_value 0 FnAbs (s "-1e-7") []) = (0, 2, s "0.0000001")
  /\ observe FnAbs (get_value 0 FnAbs (s "abc") []) = (0, 0, []).
Proof. vm_compute. repeat split; reflexivity. Qed.

(* ---- the order on non-NaN spec floats ---- *)

Lemma SFltb_irrefl a : SFltb a a = false.
Proof.
  unfold SFltb. destruct a as [sa|sa| |sa ma ea]; cbn [SFcompare]; try destruct sa; try reflexivity;
    rewrite Z.compare_refl; change (Pos.compare_cont Eq ma ma) with (Pos.compare ma ma);
    now rewrite Pos.compare_refl.
Qed.

Lemma SFltb_trans a b c : SFltb a b = true -> SFltb b c = true -> SFltb a c = true.
Proof.
  unfold SFltb.
  destruct a as [sa|sa| |sa ma ea], b as [sb|sb| |sb mb eb], c as [sc|sc| |sc mc ec]; cbn [SFcompare];
    try destruct sa; try destruct sb; try destruct sc; try discriminate; try reflexivity.
  - (* negative finite *)
    change (Pos.compare_cont Eq ma mb) with (Pos.compare ma mb).
    change (Pos.compare_cont Eq mb mc) with (Pos.compare mb mc).
    change (Pos.compare_cont Eq ma mc) with (Pos.compare ma mc).
    destruct (Z.compare_spec ea eb), (Z.compare_spec eb ec), (Z.compare_spec ea ec); subst; try lia;
      try discriminate; try reflexivity.
    destruct (Pos.compare_spec ma mb), (Pos.compare_spec mb mc), (Pos.compare_spec ma mc); subst;
      cbn [CompOpp]; try discriminate; try reflexivity; lia.
  - (* positive finite *)
    change (Pos.compare_cont Eq ma mb) with (Pos.compare ma mb).
    change (Pos.compare_cont Eq mb mc) with (Pos.compare mb mc).
    change (Pos.compare_cont Eq ma mc) with (Pos.compare ma mc).
    destruct (Z.compare_spec ea eb), (Z.compare_spec eb ec), (Z.compare_spec ea ec); subst; try lia;
      try discriminate; try reflexivity.
    destruct (Pos.compare_spec ma mb), (Pos.compare_spec mb mc), (Pos.compare_spec ma mc); subst;
      try discriminate; try reflexivity; lia.
Qed.

Open Scope float_scope.

Lemma fltb_irrefl x : (x <? x) = false.
Proof. rewrite ltb_spec. apply SFltb_irrefl. Qed.
Lemma fltb_trans x y z : (x <? y) = true -> (y <? z) = true -> (x <? z) = true.
Proof. rewrite !ltb_spec. apply SFltb_trans. Qed.

(* the numbers among the further arguments *)
Definition parsed (args : list str) : list float :=
  flat_map (fun a => match parse_f64 a with Some v => [v] | None => [] end) args.

Lemma fold_parsed_eq op args : forall acc, fold_parsed op acc args = fold_left op (parsed args) acc.
Proof.
  induction args as [|a r IH]; intros acc; [reflexivity|]. cbn [fold_parsed parsed flat_map].
  fold (parsed r). destruct (parse_f64 a); cbn [app fold_left]; apply IH.
Qed.

Definition lower_bound (r : float) (l : list float) : Prop := Forall (fun x => (x <? r) = false) l.
Definition upper_bound (r : float) (l : list float) : Prop := Forall (fun x => (r <? x) = false) l.

Lemma fold_fmin_inv l : forall acc seen, is_nan acc = false -> Forall (fun x => is_nan x = false) l ->
  In acc seen -> lower_bound acc seen ->
  In (fold_left fmin l acc) (seen ++ l) /\ lower_bound (fold_left fmin l acc) (seen ++ l).
Proof.
  induction l as [|v l IH]; intros acc seen Na Nl Hin Hlb.
  - rewrite app_nil_r. now split.
  - inversion Nl as [|? ? Nv Nl']; subst. cbn [fold_left].
    replace (seen ++ v :: l) with ((seen ++ [v]) ++ l) by now rewrite <- app_assoc.
    unfold fmin at 2 4. rewrite Na, Nv.
    destruct (v <? acc) eqn:C.
    + apply IH; [exact Nv|exact Nl'|apply in_or_app; right; now left|].
      apply Forall_app. split; [|constructor; [apply fltb_irrefl|constructor]].
      unfold lower_bound in Hlb. rewrite Forall_forall in *. intros w Hw.
      destruct (w <? v) eqn:D; [|reflexivity].
      specialize (Hlb w Hw). rewrite (fltb_trans w v acc D C) in Hlb. discriminate.
    + apply IH; [exact Na|exact Nl'|apply in_or_app; now left|].
      apply Forall_app. split; [exact Hlb|constructor; [exact C|constructor]].
Qed.

Lemma fold_fmax_inv l : forall acc seen, is_nan acc = false -> Forall (fun x => is_nan x = false) l ->
  In acc seen -> upper_bound acc seen ->
  In (fold_left fmax l acc) (seen ++ l) /\ upper_bound (fold_left fmax l acc) (seen ++ l).
Proof.
  induction l as [|v l IH]; intros acc seen Na Nl Hin Hub.
  - rewrite app_nil_r. now split.
  - inversion Nl as [|? ? Nv Nl']; subst. cbn [fold_left].
    replace (seen ++ v :: l) with ((seen ++ [v]) ++ l) by now rewrite <- app_assoc.
    unfold fmax at 2 4. rewrite Na, Nv.
    destruct (acc <? v) eqn:C.
    + apply IH; [exact Nv|exact Nl'|apply in_or_app; right; now left|].
      apply Forall_app. split; [|constructor; [apply fltb_irrefl|constructor]].
      unfold upper_bound in Hub. rewrite Forall_forall in *. intros w Hw.
      destruct (v <? w) eqn:D; [|reflexivity].
      specialize (Hub w Hw). rewrite (fltb_trans acc v w C D) in Hub. discriminate.
    + apply IH; [exact Na|exact Nl'|apply in_or_app; now left|].
      apply Forall_app. split; [exact Hub|constructor; [exact C|constructor]].
Qed.

(* LEAST / GREATEST over the arguments that are numbers (no NaN among them): the result is one
   of them, and none of them is smaller (greater).  Arguments that do not parse are skipped. *)
Theorem least_greatest_bounds : forall e now arg args v, parse_f64 arg = Some v ->
  Forall (fun x => is_nan x = false) (v :: parsed args) ->
  (exists r, get_value_gen e now FnLeast arg args = Ok (VFloat r)
             /\ In r (v :: parsed args) /\ lower_bound r (v :: parsed args))
  /\ (exists r, get_value_gen e now FnGreatest arg args = Ok (VFloat r)
             /\ In r (v :: parsed args) /\ upper_bound r (v :: parsed args)).
Proof.
  intros e now arg args v Hv Hn. inversion Hn as [|? ? Nv Nl]; subst.
  cbn [get_value_gen]. rewrite Hv, !fold_parsed_eq. split.
  - eexists. split; [reflexivity|].
    apply (fold_fmin_inv (parsed args) v [v] Nv Nl (or_introl eq_refl)).
    constructor; [apply fltb_irrefl|constructor].
  - eexists. split; [reflexivity|].
    apply (fold_fmax_inv (parsed args) v [v] Nv Nl (or_introl eq_refl)).
    constructor; [apply fltb_irrefl|constructor].
Qed.

(* a NaN operand is ignored by f64::min / f64::max *)
Lemma fmin_fmax_nan a b : (is_nan a = true -> fmin a b = b /\ fmax a b = b)
  /\ (is_nan a = false -> is_nan b = true -> fmin a b = a /\ fmax a b = a).
Proof. unfold fmin, fmax. split; [intros ->; now split|intros -> ->; now split]. Qed.

Theorem least_not_a_number : forall e now arg args, parse_f64 arg = None ->
  get_value_gen e now FnLeast arg args = Ok VEmpty /\ get_value_gen e now FnGreatest arg args = Ok VEmpty.
Proof. intros e now arg args H. cbn [get_value_gen]. rewrite H. now split. Qed.

Close Scope float_scope.

Example least_ex : observe FnLeast (get_value 0 FnLeast (s "3") [s "x"; s "-2.5"; s "1e3"]) = (0, 2, s "-2.5")
  /\ observe FnGreatest (get_value 0 FnGreatest (s "3") [s "x"; s "-2.5"; s "1e3"]) = (0, 2, s "1000")
  /\ observe FnLeast (get_value 0 FnLeast (s "nan") [s "7"]) = (0, 2, s "7")
  /\ observe FnLeast (get_value 0 FnLeast (s "7") [s "nan"]) = (0, 2, s "7")
  /\ observe FnLeast (get_value 0 FnLeast (s "0") [s "-0"]) = (0, 2, s "0")
  /\ observe FnLeast (get_value 0 FnLeast (s "x") [s "1"]) = (0, 0, []).
Proof. vm_compute. repeat split; reflexivity. Qed.

(* ========================================================================= *)
(* FORMAT_TIME                                                               *)
(* ========================================================================= *)

Lemma dhms_sum n : let '(d, h, m, sc) := dhms n in
  d * 86400 + h * 3600 + m * 60 + sc = n /\ h < 24 /\ m < 60 /\ sc < 60.
Proof. unfold dhms. lia. Qed.

Lemma time_parts_dhms n : time_parts n =
  let '(d, h, m, sc) := dhms n in
  [(d, unit_d); (h, unit_h); (m, unit_m); (sc, unit_s); (0, unit_ms); (0, unit_us)].
Proof.
  unfold time_parts, dhms. cbv zeta.
  repeat (f_equal; try lia).
Qed.

Definition show_part (p : N * str) : str := show_N (fst p) ++ snd p.

(* FORMAT_TIME n = the non-zero ones of "<days>d", "<hours>h", "<minutes>m", "<seconds>s" (with
   days*86400 + hours*3600 + minutes*60 + seconds = n, hours < 24, minutes < 60, seconds < 60)
   separated by commas; "0" followed by U+03BC "s" for n = 0 *)
Theorem format_time_units : forall e now arg args n, arg <> [] -> parse_u64 arg = Some n ->
  let '(d, h, m, sc) := dhms n in
  get_value_gen e now FnFormatTime arg args =
    Ok (VStr (match filter (fun p => 0 <? fst p) [(d, unit_d); (h, unit_h); (m, unit_m); (sc, unit_s)] with
              | [] => [48; 0x3BC; 115]
              | l => join [44] (map show_part l)
              end))
  /\ d * 86400 + h * 3600 + m * 60 + sc = n /\ h < 24 /\ m < 60 /\ sc < 60.
Proof.
  intros e now arg args n Hne Hn. pose proof (dhms_sum n) as S. pose proof (time_parts_dhms n) as T.
  destruct (dhms n) as [[[d h] m] sc]. split; [|exact S].
  cbn [get_value_gen]. destruct arg as [|c r]; [congruence|]. rewrite Hn.
  unfold human_time. rewrite T.
  change [(d, unit_d); (h, unit_h); (m, unit_m); (sc, unit_s); (0, unit_ms); (0, unit_us)]
    with ([(d, unit_d); (h, unit_h); (m, unit_m); (sc, unit_s)] ++ [(0, unit_ms); (0, unit_us)]).
  rewrite filter_app.
  assert (Z2 : filter (fun p : N * str => 0 <? fst p) [(0, unit_ms); (0, unit_us)] = []) by reflexivity.
  rewrite Z2, app_nil_r.
  destruct (filter _ _); reflexivity.
Qed.

Theorem format_time_bad : forall e now arg args, arg <> [] -> parse_u64 arg = None ->
  get_value_gen e now FnFormatTime arg args = Exit2 (msg_format_time ++ [58; 32] ++ arg).
Proof. intros e now arg args Hne H. cbn [get_value_gen]. destruct arg; [congruence|]. now rewrite H. Qed.

Theorem format_time_empty : forall e now args, get_value_gen e now FnFormatTime [] args = Ok VEmpty.
Proof. reflexivity. Qed.

Example format_time_ex : get_value 0 FnFormatTime (s "90061") [] = Ok (VStr (s "1d,1h,1m,1s"))
  /\ get_value 0 FnFormatTime (s "3600") [] = Ok (VStr (s "1h"))
  /\ get_value 0 FnFormatTime (s "86461") [] = Ok (VStr (s "1d,1m,1s"))
  /\ get_value 0 FnFormatTime (s "0") [] = Ok (VStr [48; 0x3BC; 115])
  /\ get_value 0 FnFormatTime (s "18446744073709551615") [] = Ok (VStr (s "213503982334601d,7h,15s"))
  /\ get_value 0 FnFormatTime (s "-1") [] = Exit2 (s "Could not parse an argument of FORMAT_TIME function: -1")
  /\ get_value 0 FnFormatTime (s "1.5") [] = Exit2 (s "Could not parse an argument of FORMAT_TIME function: 1.5").
Proof. vm_compute. repeat split; reflexivity. Qed.

(* ========================================================================= *)
(* YEAR / MONTH / DAY / DAYOFWEEK                                            *)
(* ========================================================================= *)

Open Scope Z_scope.

(* DAYOFWEEK is always in 1..7 (1 = Sunday) *)
Theorem dow_range : forall e now arg args k,
  get_value_gen e now FnDayOfWeek arg args = Ok (VInt k) -> 1 <= k <= 7.
Proof.
  intros e now arg args k H. cbn [get_value_gen] in H. unfold date_part in H.
  match type of H with match ?r with _ => _ end = _ => destruct r as [[a b]|m|st|st|] end; try discriminate.
  - injection H as <-. unfold number_from_sunday. pose proof (weekday_range (a / 86400)). lia.
  - destruct (starts_with msg_unmodelled m); discriminate.
Qed.

(* on a canonical `YYYY-MM-DD` text of a valid date the four functions return the civil
   components of lib/Civil.v, DAYOFWEEK with 1 = Sunday *)
Theorem year_month_day : forall e now y m d args,
  0 <= y <= 9999 -> valid_date y m d = true ->
  let arg := render_lit PDay y m d 0 0 0 45 in
  get_value_gen e now FnYear arg args = Ok (VInt y)
  /\ get_value_gen e now FnMonth arg args = Ok (VInt m)
  /\ get_value_gen e now FnDay arg args = Ok (VInt d)
  /\ get_value_gen e now FnDayOfWeek arg args = Ok (VInt (number_from_sunday (days_from_civil y m d)))
  /\ 1 <= number_from_sunday (days_from_civil y m d) <= 7.
Proof.
  intros e now y m d args Hy Hv arg.
  assert (W : wf_lit y m d 0 0 0 45) by (unfold wf_lit; repeat split; try lia; assumption).
  pose proof (parse_render now PDay y m d 0 0 0 45 W) as P. fold arg in P.
  cbn [get_value_gen]. unfold date_part. rewrite P. cbn [lit_interval].
  assert (D : secs_of y m d 0 0 0 / 86400 = days_from_civil y m d) by (unfold secs_of; lia).
  rewrite D. unfold civ_y, civ_m, civ_d. rewrite (civil_roundtrip y m d Hv). cbn [fst snd].
  repeat split; unfold number_from_sunday; pose proof (weekday_range (days_from_civil y m d)); lia.
Qed.

Close Scope Z_scope.

Example date_ex : get_value 0 FnYear (s "2024-02-29") [] = Ok (VInt 2024)
  /\ get_value 0 FnMonth (s "2024-02-29") [] = Ok (VInt 2)
  /\ get_value 0 FnDay (s "2024-02-29") [] = Ok (VInt 29)
  /\ get_value 0 FnDayOfWeek (s "2024-02-29") [] = Ok (VInt 5)          (* a Thursday *)
  /\ get_value 0 FnDayOfWeek (s "2023-12-31") [] = Ok (VInt 1)          (* a Sunday *)
  /\ get_value 0 FnDay (s "2023-02-29") [] = Ok VEmpty                  (* not a date: empty *)
  /\ get_value 0 FnYear (s "1999-12-31 23:59:59") [] = Ok (VInt 1999)
  /\ get_value 20726 FnYear (s "today") [] = Ok (VInt 2026)
  /\ get_value 20726 FnDayOfWeek (s "yesterday") [] = Ok (VInt 3).
Proof. vm_compute. repeat split; reflexivity. Qed.

(* ========================================================================= *)
(* An argument of the wrong kind never crashes                               *)
(* ========================================================================= *)

Definition no_crash {A} (r : res A) : Prop := match r with Ok _ | Exit2 _ => True | _ => False end.

(* "parse_datetime crashes on this argument": never the case any more ([date_crash_never]);
   it used to hold for short signed non-numbers and for dates written with non-ASCII digits *)
Definition date_crash (now : Z) (arg : str) : bool :=
  match parse_datetime now arg with
  | Det (Ok _) | Det (Exit2 _) | Datetime.Unmodelled => false
  | _ => true
  end.

Theorem date_crash_never : forall now arg, date_crash now arg = false.
Proof.
  intros now arg. unfold date_crash.
  pose proof (parse_datetime_ok_err_or_unmodelled now arg) as H.
  destruct (parse_datetime now arg) as [|[ab|m|st|st|]]; try reflexivity; contradiction.
Qed.

(* the unmodelled chrono_english component is ASSUMED not to crash.
   FINDING (py/funcsdiff.py --datetime): the real chrono_english 0.1.7 does not satisfy this
   assumption.  On some texts of 5 bytes or more in which DATE_REGEX finds nothing -- exactly the
   texts on which the model answers [Unmodelled] -- `parse_date_string` panics: "invalid time"
   (e.g. "-0.79", "12:61", "25:00:00") and "end byte index _ is not a char boundary" (non-ASCII
   text such as "-415" ++ [233] or "ab" ++ [0x661] ++ "cd").  Those panics are inside the
   third-party crate, not at any unwrap site of parse_datetime / get_value. *)
Definition ext_sane (e : option ext) : Prop :=
  match e with Some x => forall a, no_crash (x_chrono x a) | None => True end.

(* YEAR / MONTH / DAY / DAYOFWEEK of ANY argument: an integer, the empty value, or (without an
   [ext]) the "unmodelled" marker for chrono_english; never a panic *)
Lemma date_part_outcome e now arg k : ext_sane e ->
  match date_part e now arg k with
  | Ok (VInt _) | Ok VEmpty => True
  | Exit2 m => starts_with msg_unmodelled m = true
  | _ => False
  end.
Proof.
  intros He. unfold date_part.
  pose proof (parse_datetime_ok_err_or_unmodelled now arg) as H.
  destruct (parse_datetime now arg) as [|[[a b]|m|st|st|]]; try contradiction.
  - unfold with_ext. destruct e as [x|]; [|reflexivity]. specialize (He arg).
    destruct (x_chrono x arg) as [[a b]|m|st|st|]; try contradiction; [exact I|].
    destruct (starts_with msg_unmodelled m) eqn:U; [exact U|exact I].
  - exact I.
  - destruct (starts_with msg_unmodelled m) eqn:U; [exact U|exact I].
Qed.

Lemma date_part_no_crash e now arg k : ext_sane e -> no_crash (date_part e now arg k).
Proof.
  intros He. pose proof (date_part_outcome e now arg k He) as H.
  destruct (date_part e now arg k) as [v|m|st|st|]; try contradiction; exact I.
Qed.

(* EVERY argument, for every modelled function: a value or a status-2 diagnostic, never a panic
   (no side condition on the argument of the date functions any more) *)
Theorem wrong_kind_never_panics : forall e now f arg args,
  modelled f = true -> ext_sane e ->
  no_crash (get_value_gen e now f arg args).
Proof.
  intros e now f arg args M He.
  destruct f; try discriminate M; cbn [get_value_gen]; try exact I;
    try (apply date_part_no_crash; exact He).
  - unfold case_fn, with_ext. destruct (case_modelled arg); [exact I|]. destruct e; exact I.
  - unfold case_fn, with_ext. destruct (case_modelled arg); [exact I|]. destruct e; exact I.
  - unfold with_ext. destruct (case_modelled arg); [exact I|]. destruct e; exact I.
  - unfold substring. destruct args as [|a r]; cbn [bind nth_error].
    + exact I.
    + destruct (parse_i32 a); cbn [bind error_exit]; [|exact I].
      destruct r as [|l r']; cbn [nth_error bind]; [exact I|].
      destruct (parse_usize l); cbn [bind error_exit]; exact I.
  - destruct args as [|a [|b r]]; exact I.
  - unfold radix. destruct (Dec.parse_i64 arg); exact I.
  - unfold radix. destruct (Dec.parse_i64 arg); exact I.
  - unfold radix. destruct (Dec.parse_i64 arg); exact I.
  - destruct (parse_f64 arg); exact I.
  - destruct (parse_f64 arg); [|exact I]. destruct args as [|a r]; cbn [bind].
    + destruct (pow_exact _ _); [exact I|]. unfold with_ext. destruct e; exact I.
    + destruct (parse_f64 a); cbn [bind error_exit]; [|exact I].
      destruct (pow_exact _ _); [exact I|]. unfold with_ext. destruct e; exact I.
  - destruct (parse_f64 arg); exact I.
  - destruct (parse_f64 arg); [|exact I]. destruct args as [|a r]; cbn [bind].
    + destruct (log_exact _ _); [exact I|]. unfold with_ext. destruct e; exact I.
    + destruct (parse_f64 a); cbn [bind error_exit]; [|exact I].
      destruct (log_exact _ _); [exact I|]. unfold with_ext. destruct e; exact I.
  - unfold libm1, with_ext. destruct (parse_f64 arg); [|exact I]. destruct (ln_exact _); [exact I|]. destruct e; exact I.
  - unfold libm1, with_ext. destruct (parse_f64 arg); [|exact I]. destruct (exp_exact _); [exact I|]. destruct e; exact I.
  - destruct (parse_f64 arg); exact I.
  - destruct (parse_f64 arg); exact I.
  - destruct arg; [exact I|]. destruct (parse_u64 _); exact I.
  - destruct (filter _ _); exact I.
Qed.

Theorem date_fns_outcome : forall e now f arg args, ext_sane e -> is_date_fn f = true ->
  match get_value_gen e now f arg args with
  | Ok (VInt _) | Ok VEmpty => True
  | Exit2 m => starts_with msg_unmodelled m = true
  | _ => False
  end.
Proof.
  intros e now f arg args He Hf. destruct f; try discriminate Hf; cbn [get_value_gen];
    apply date_part_outcome; exact He.
Qed.

Corollary date_fns_never_panic : forall e now f arg args, ext_sane e -> is_date_fn f = true ->
  no_crash (get_value_gen e now f arg args).
Proof.
  intros e now f arg args He Hf. apply wrong_kind_never_panics; [destruct f; try discriminate; reflexivity|exact He].
Qed.

(* the inputs on which the real code (and the model) used to panic: now the empty value *)
Theorem date_fn_former_crashes : forall now,
  get_value now FnYear (s "+a") [] = Ok VEmpty
  /\ get_value now FnDayOfWeek (s "-x") [] = Ok VEmpty
  /\ get_value now FnDay (s "+1.5") [] = Ok VEmpty
  /\ get_value now FnMonth [0x661; 0x662] [] = Ok VEmpty
  /\ is_unmodelled (get_value now FnMonth [0x662; 0x660; 0x662; 0x663; 45; 0x661; 0x662; 45; 0x661; 0x661] []) = true
  /\ get_value now FnYear (s "2023-12-11 " ++ [0x661]) [] = Ok (VInt 2023).
Proof.
  intros now.
  assert (G : forall f x, is_date_fn f = true -> (byte_len x < 5)%Z -> Datetime.parse_i64 x = None ->
              get_value now f x [] = Ok VEmpty).
  { intros f x Hf Hb Hp. destruct f; try discriminate Hf; cbn [get_value get_value_gen]; unfold date_part;
      rewrite (signed_not_a_number now x Hb Hp); reflexivity. }
  split; [apply G; reflexivity|]. split; [apply G; reflexivity|]. split; [apply G; reflexivity|].
  split; [apply G; reflexivity|]. split; reflexivity.
Qed.

(* the status-2 diagnostics for arguments of the wrong kind *)
Example wrong_kind_ex :
  get_value 0 FnPower (s "2") [s "x"] = Exit2 (s "Could not parse an argument of POWER function: x")
  /\ get_value 0 FnLog (s "2") [s ""] = Exit2 (s "Could not parse an argument of LOG function: ")
  /\ get_value 0 FnPower (s "x") [s "y"] = Ok VEmpty
  /\ get_value 0 FnSqrt (s "x") [] = Ok VEmpty
  /\ get_value 0 FnHex (s "0x10") [] = Ok VEmpty
  /\ get_value 0 FnYear (s "soon") [] = Ok VEmpty
  /\ get_value 0 FnLength (s "12") [] = Ok (VInt 2).
Proof. vm_compute. repeat split; reflexivity. Qed.

(* ========================================================================= *)
(* error_exit paths of POWER / LOG; default second arguments                 *)
(* ========================================================================= *)

Theorem power_log_bad_argument : forall e now arg a rest v, parse_f64 arg = Some v -> parse_f64 a = None ->
  get_value_gen e now FnPower arg (a :: rest) = Exit2 (msg_power ++ [58; 32] ++ a)
  /\ get_value_gen e now FnLog arg (a :: rest) = Exit2 (msg_log ++ [58; 32] ++ a).
Proof. intros e now arg a rest v Hv Ha. cbn [get_value_gen]. rewrite Hv, Ha. split; reflexivity. Qed.

(* the first argument is examined first: if it is not a number the result is empty even when
   the second is not a number either *)
Theorem power_log_first_not_a_number : forall e now arg args, parse_f64 arg = None ->
  get_value_gen e now FnPower arg args = Ok VEmpty /\ get_value_gen e now FnLog arg args = Ok VEmpty.
Proof. intros e now arg args H. cbn [get_value_gen]. rewrite H. split; reflexivity. Qed.

(* FINDING (documentation deviation): POWER without an exponent is x^0 = 1 *)
Theorem power_default_exponent : forall e now arg v, parse_f64 arg = Some v ->
  get_value_gen e now FnPower arg [] = Ok (VFloat 1%float).
Proof. intros e now arg v H. cbn [get_value_gen]. rewrite H. reflexivity. Qed.

Example libm_exact_ex :
  observe FnPower (get_value 0 FnPower (s "2") [s "10"]) = (0, 2, s "1024")
  /\ observe FnPower (get_value 0 FnPower (s "-3") [s "3"]) = (0, 2, s "-27")
  /\ observe FnPower (get_value 0 FnPower (s "nan") [s "0"]) = (0, 2, s "1")
  /\ observe FnLog (get_value 0 FnLog (s "1") [s "0.5"]) = (0, 2, s "-0")
  /\ observe FnLog (get_value 0 FnLog (s "0") []) = (0, 2, s "-inf")
  /\ observe FnLog (get_value 0 FnLog (s "7") [s "7"]) = (0, 2, s "1")
  /\ observe FnLn (get_value 0 FnLn (s "-1") []) = (0, 2, s "NaN")
  /\ observe FnExp (get_value 0 FnExp (s "0") []) = (0, 2, s "1")
  /\ observe FnExp (get_value 0 FnExp (s "1000") []) = (0, 2, s "inf")
  /\ observe FnSqrt (get_value 0 FnSqrt (s "2") []) = (0, 2, s "1.4142135623730951")
  /\ observe FnSqrt (get_value 0 FnSqrt (s "-1") []) = (0, 2, s "NaN")
  /\ is_unmodelled (get_value 0 FnExp (s "1") []) = true
  /\ is_unmodelled (get_value 0 FnPower (s "2") [s "0.5"]) = true.
Proof. vm_compute. repeat split; reflexivity. Qed.

(* ========================================================================= *)
(* Assumptions                                                               *)
(* ========================================================================= *)

Print Assumptions length_chars.
Print Assumptions concat.
Print Assumptions concat_ws.
Print Assumptions concat_ws_shape.
Print Assumptions coalesce_first_nonempty.
Print Assumptions ltrim_correct.
Print Assumptions rtrim_correct.
Print Assumptions trim_correct.
Print Assumptions ltrim_spec_unique.
Print Assumptions substr_model.
Print Assumptions substr_positive.
Print Assumptions substr_negative.
Print Assumptions substr_len0.
Print Assumptions substr_bad_position.
Print Assumptions substr_bad_length.
Print Assumptions replace_nonempty_needle.
Print Assumptions replace_not_found.
Print Assumptions replace_pieces.
Print Assumptions replace_empty_needle.
Print Assumptions replace_arity.
Print Assumptions to_base64_rfc.
Print Assumptions to_base64_spec_ok.
Print Assumptions base64_inverse.
Print Assumptions utf8_roundtrip.
Print Assumptions b64_decode_encode.
Print Assumptions lower_upper_ascii_idempotent.
Print Assumptions lower_upper_caseless.
Print Assumptions split_ws_spec.
Print Assumptions initcap_shape.
Print Assumptions bin_hex_oct_roundtrip.
Print Assumptions bin_hex_oct_not_a_number.
Print Assumptions abs_nonneg.
Print Assumptions least_greatest_bounds.
Print Assumptions format_time_units.
Print Assumptions format_time_bad.
Print Assumptions dow_range.
Print Assumptions year_month_day.
Print Assumptions wrong_kind_never_panics.
Print Assumptions date_crash_never.
Print Assumptions date_fns_outcome.
Print Assumptions date_fns_never_panic.
Print Assumptions date_fn_former_crashes.
Print Assumptions power_log_bad_argument.
Print Assumptions power_default_exponent.
