(* C18: non-vacuity of the hypotheses of proofs/Links*.v on a concrete CYCLIC graph (the same graph as
   g_cycle in props/C18.v), instances of every main theorem on it, and two counterexamples showing that
   neither hypothesis (wf_graph, path_functional) can be dropped. *)
From Coq Require Import List NArith Bool Lia Permutation String.
From FS Require Import lib.Str gen.GatesGen model.Walk model.WalkLinks proofs.LinksProofs.
Import ListNotations.
Open Scope N_scope.

(* r/ { a/ { f, up -> .. (the root: an ancestor cycle), self -> self (dangling loop) }, l -> a (relative), m -> /x/r/a (absolute) } *)
Definition g_cycle : fsgraph :=
  [ (1, (true, [ {| d_name := s "a"; d_ino := 2; d_kind := KDir 2 |};
                 {| d_name := s "l"; d_ino := 10; d_kind := KLink (s "a") (Some (2, s "/x/r/a")) |};
                 {| d_name := s "m"; d_ino := 11; d_kind := KLink (s "/x/r/a") (Some (2, s "/x/r/a")) |} ]));
    (2, (true, [ {| d_name := s "f"; d_ino := 3; d_kind := KFile |};
                 {| d_name := s "up"; d_ino := 12; d_kind := KLink (s "..") (Some (1, s "/x/r")) |};
                 {| d_name := s "self"; d_ino := 13; d_kind := KLink (s "self") None |} ])) ]%string.

(* ---------- the hypotheses hold ---------- *)
Example g_cycle_wf : wf_graph g_cycle = true.
Proof. reflexivity. Qed.

Example g_cycle_fuel_bound : fuel_bound g_cycle = 5%nat.
Proof. reflexivity. Qed.

(* the graph really is cyclic: 1 -> 2 -> 1 *)
Example g_cycle_edge_1_2 : edge g_cycle 1 2.
Proof.
  eexists. exists {| d_name := s "l"; d_ino := 10; d_kind := KLink (s "a") (Some (2, s "/x/r/a")) |}%string.
  split; [reflexivity|]. split; [right; now left|reflexivity].
Qed.

Example g_cycle_edge_2_1 : edge g_cycle 2 1.
Proof.
  eexists. exists {| d_name := s "up"; d_ino := 12; d_kind := KLink (s "..") (Some (1, s "/x/r")) |}%string.
  split; [reflexivity|]. split; [right; now left|reflexivity].
Qed.

Example g_cycle_reach_2 : reach g_cycle 1 2.
Proof. apply (reach_step g_cycle 1 1 2); [constructor|exact g_cycle_edge_1_2]. Qed.

Example g_cycle_reach_cycle : reach g_cycle 1 1 /\ reach g_cycle 2 2.
Proof.
  split; [constructor|]. constructor.
Qed.

(* path_functional on the cyclic graph: infinitely many spelled paths (r/a/../a/../a ...), yet each names
   one directory - paths naming inode 1 end in 'r' or '.', paths naming inode 2 end in 'a' *)
Definition lastc (p : str) : N := last p 0.

Lemma last_app_ne {A : Type} (a b : list A) (x : A) : b <> [] -> last (a ++ b) x = last b x.
Proof.
  intro Hb. induction a as [|y a IH]; [reflexivity|].
  cbn [app]. destruct (a ++ b) eqn:E.
  - destruct a; [cbn [app] in E; contradiction|discriminate].
  - change (last (y :: a0 :: l) x) with (last (a0 :: l) x). exact IH.
Qed.

Lemma lastc_join (d n : str) : n <> [] -> lastc (join_path d n) = lastc n.
Proof.
  intro Hn. unfold lastc, join_path. destruct d as [|c d]; [reflexivity|].
  destruct (ends_with [47] (c :: d)).
  - now apply last_app_ne.
  - rewrite app_assoc. now apply last_app_ne.
Qed.

Lemma g_cycle_spelled_shape (p : str) (i : N) :
  spelled g_cycle (s "r") 1 p i ->
  (i = 1 /\ (lastc p = 114 \/ lastc p = 46)) \/ (i = 2 /\ lastc p = 97).
Proof.
  intro H. induction H as [|d i es e p j Hd IH He Hin Hp].
  - left. split; [reflexivity|left; reflexivity].
  - destruct IH as [[-> _]|[-> _]].
    + (* entries of the root *)
      vm_compute in He. injection He as <-.
      destruct Hin as [<-|[<-|[<-|[]]]]; unfold epath in Hp; cbn [d_kind d_name] in Hp; injection Hp as <- <-; right; (split; [reflexivity|]).
      * apply lastc_join. discriminate.
      * unfold path_join. cbn [is_abs]. apply lastc_join. discriminate.
      * reflexivity.
    + (* entries of a *)
      vm_compute in He. injection He as <-.
      destruct Hin as [<-|[<-|[<-|[]]]]; unfold epath in Hp; cbn [d_kind d_name] in Hp; try discriminate.
      injection Hp as <- <-. left. split; [reflexivity|]. right.
      unfold path_join. cbn [is_abs]. rewrite lastc_join; [reflexivity|discriminate].
Qed.

Example g_cycle_path_functional : path_functional g_cycle (s "r") 1.
Proof.
  intros p i j Hi Hj.
  destruct (g_cycle_spelled_shape p i Hi) as [[-> Hpi]|[-> Hpi]];
  destruct (g_cycle_spelled_shape p j Hj) as [[-> Hpj]|[-> Hpj]]; try reflexivity; exfalso.
  - rewrite Hpj in Hpi. destruct Hpi; discriminate.
  - rewrite Hpi in Hpj. destruct Hpj; discriminate.
Qed.

(* ---------- the theorems, instantiated on the cyclic graph ---------- *)
Example g_cycle_terminates (mn mx : N) (dfs : bool) (limit : N) (fuel : nat) :
  (5 <= fuel)%nat -> lwalk g_cycle mn mx dfs limit fuel (s "r") (s "/x/r") 1 <> None.
Proof. intro H. now apply lwalk_terminates. Qed.

Example g_cycle_all (mn : N) (dfs : bool) (fuel : nat) :
  (5 <= fuel)%nat ->
  exists st, lwalk g_cycle mn 0 dfs 0 fuel (s "r") (s "/x/r") 1 = Some st /\
             NoDup (l_vis st) /\ NoDup (l_vdirs st) /\ NoDup (l_ent st) /\
             (forall j, reach g_cycle 1 j <-> In j (l_ent st)) /\
             In 1 (l_ent st) /\ In 2 (l_ent st).
Proof.
  intro Hf.
  destruct (C18_links g_cycle mn 0 dfs 0 (s "r") (s "/x/r") 1 fuel Hf) as [st [H1 [_ [H3 [H4 [H5 [H6 _]]]]]]].
  exists st. split; [assumption|]. split; [assumption|]. split; [assumption|].
  destruct (H5 g_cycle_wf) as [H5a _].
  pose proof (H6 g_cycle_wf g_cycle_path_functional eq_refl eq_refl) as Hiff.
  split; [assumption|]. split; [assumption|].
  split; apply Hiff; [constructor|exact g_cycle_reach_2].
Qed.

(* the kernel agrees: both real directories are entered once, in either order, with the minimal fuel *)
Example g_cycle_run :
  option_map (fun st => (l_ent st, l_vis st, l_out st, l_errs st)) (lwalk g_cycle 0 0 false 0 5 (s "r") (s "/x/r") 1)
    = Some ([2; 1], [2; 1], [s "r/a"; s "r/l"; s "r/m"; s "r/a/f"; s "r/a/up"; s "r/a/self"], [])%string /\
  option_map (fun st => (l_ent st, l_vis st, l_out st, l_errs st)) (lwalk g_cycle 0 0 true 0 5 (s "r") (s "/x/r") 1)
    = Some ([2; 1], [2; 1], [s "r/a"; s "r/a/f"; s "r/a/up"; s "r/a/self"; s "r/l"; s "r/m"], [])%string.
Proof. vm_compute. split; reflexivity. Qed.

(* ---------- the hypotheses cannot be dropped ---------- *)

(* (1) without wf_graph: two entries naming directory 5 under different lstat inodes -> 5 is entered twice *)
Definition g_not_wf : fsgraph :=
  [ (1, (true, [ {| d_name := s "a"; d_ino := 7; d_kind := KDir 5 |};
                 {| d_name := s "b"; d_ino := 8; d_kind := KDir 5 |} ]));
    (5, (true, [])) ]%string.

Example not_wf_enters_twice :
  wf_graph g_not_wf = false /\
  option_map l_ent (lwalk g_not_wf 0 0 true 0 10 (s "r") (s "/x/r") 1) = Some [5; 5; 1].
Proof. vm_compute. split; reflexivity. Qed.

(* (2) without path_functional: the link l claims that "r/a" (its text joined to r) is directory 3, while the
   entry a says r/a is directory 2: the second visit of the spelled path r/a returns at once, and directory 4
   (reachable: 1 -> 3 -> 4) is never marked *)
Definition g_clash : fsgraph :=
  [ (1, (true, [ {| d_name := s "a"; d_ino := 2; d_kind := KDir 2 |};
                 {| d_name := s "l"; d_ino := 10; d_kind := KLink (s "a") (Some (3, s "/x/r/b")) |} ]));
    (2, (true, []));
    (3, (true, [ {| d_name := s "c"; d_ino := 4; d_kind := KDir 4 |} ]));
    (4, (true, [])) ]%string.

Example clash_incomplete :
  wf_graph g_clash = true /\ reach g_clash 1 4 /\
  option_map l_vis (lwalk g_clash 0 0 true 0 10 (s "r") (s "/x/r") 1) = Some [3; 2; 1] /\
  option_map l_vis (lwalk g_clash 0 0 false 0 10 (s "r") (s "/x/r") 1) = Some [3; 2; 1].
Proof.
  split; [reflexivity|]. split; [|vm_compute; split; reflexivity].
  apply (reach_step g_clash 1 3 4).
  - apply (reach_step g_clash 1 1 3); [constructor|].
    eexists. exists {| d_name := s "l"; d_ino := 10; d_kind := KLink (s "a") (Some (3, s "/x/r/b")) |}%string.
    split; [reflexivity|]. split; [right; now left|reflexivity].
  - eexists. exists {| d_name := s "c"; d_ino := 4; d_kind := KDir 4 |}%string.
    split; [reflexivity|]. split; [now left|reflexivity].
Qed.

Example clash_not_functional : ~ path_functional g_clash (s "r") 1.
Proof.
  intro H.
  assert (H2 : spelled g_clash (s "r") 1 (s "r/a") 2).
  { eapply (sp_step g_clash (s "r") 1 (s "r") 1 _ {| d_name := s "a"; d_ino := 2; d_kind := KDir 2 |}%string);
      [constructor|reflexivity|now left|reflexivity]. }
  assert (H3 : spelled g_clash (s "r") 1 (s "r/a") 3).
  { eapply (sp_step g_clash (s "r") 1 (s "r") 1 _ {| d_name := s "l"; d_ino := 10; d_kind := KLink (s "a") (Some (3, s "/x/r/b")) |}%string);
      [constructor|reflexivity|right; now left|reflexivity]. }
  pose proof (H _ _ _ H2 H3). discriminate.
Qed.

Print Assumptions g_cycle_path_functional.
Print Assumptions g_cycle_all.
