(* A. `display` (Rust's `impl Display for Expr`: the per-row cache key, the JSON key, the
   GROUP BY key) is injective on arithmetic column expressions.

   Source language: numbers (non-empty strings of ASCII digits), columns, both optionally
   with the unary minus that parse_func_scalar records in `Expr.minus`, and the five binary
   arithmetic operators.  `embed` builds the `expr` exactly as the parser does
   (Expr_value / Expr_field + set_minus, Expr_arithmetic_op).

   Route: a decoder `undisplay` for the fully bracketed text, and
       undisplay fuel (display (embed a) ++ rest) = Some (a, rest)
   for every rest that does not start with an ASCII alphanumeric character. *)
From Coq Require Import List NArith Bool Arith Lia.
From FS Require Import lib.Str gen.OpsGen gen.FieldGen gen.FuncGen model.Expr.
Import ListNotations.
Open Scope N_scope.

Inductive aexp :=
| ANum (neg : bool) (digits : str)
| ACol (neg : bool) (f : Field)
| ABin (o : ArithmeticOp) (l r : aexp).

Fixpoint embed (a : aexp) : expr :=
  match a with
  | ANum neg ds => set_minus (Expr_value ds) neg
  | ACol neg f => set_minus (Expr_field f) neg
  | ABin o l r => Expr_arithmetic_op (embed l) o (embed r)
  end.

Fixpoint wf (a : aexp) : Prop :=
  match a with
  | ANum _ ds => ds <> [] /\ forallb is_digit ds = true
  | ACol _ _ => True
  | ABin _ l r => wf l /\ wf r
  end.

Fixpoint height (a : aexp) : nat :=
  match a with
  | ABin _ l r => S (Nat.max (height l) (height r))
  | _ => O
  end.

(* ---------- the printed form ---------- *)
Definition op_char (o : ArithmeticOp) : N :=
  match o with AAdd => 43 | ASubtract => 45 | AMultiply => 42 | ADivide => 47 | AModulo => 37 end.
Definition op_of_char (c : N) : option ArithmeticOp :=
  if c =? 43 then Some AAdd else if c =? 45 then Some ASubtract else if c =? 42 then Some AMultiply
  else if c =? 47 then Some ADivide else if c =? 37 then Some AModulo else None.

Lemma arith_symbol_eq o : arith_symbol o = [32; op_char o; 32].
Proof. destruct o; reflexivity. Qed.
Lemma op_of_char_op_char o : op_of_char (op_char o) = Some o.
Proof. destruct o; reflexivity. Qed.

Definition sign (neg : bool) : str := if neg then [45] else [].

Lemma display_num neg ds : display (embed (ANum neg ds)) = sign neg ++ ds.
Proof. destruct neg; cbn; rewrite app_nil_r; reflexivity. Qed.
Lemma display_col neg f : display (embed (ACol neg f)) = sign neg ++ Field_name f.
Proof. destruct neg; cbn [embed set_minus Expr_field display sign e_left e_arithmetic_op e_logical_op e_op e_right e_field e_function e_args e_val app];
  rewrite !app_nil_r; reflexivity. Qed.
Lemma display_bin o l r : display (embed (ABin o l r)) = [40] ++ display (embed l) ++ [32; op_char o; 32] ++ display (embed r) ++ [41].
Proof. cbn [embed]. rewrite <- arith_symbol_eq. reflexivity. Qed.

(* ---------- the decoder ---------- *)
Fixpoint span_alnum (x : str) : str * str :=
  match x with
  | c :: r => if is_alnum c then let '(a, b) := span_alnum r in (c :: a, b) else ([], x)
  | [] => ([], [])
  end.

Definition field_of_name (x : str) : option Field :=
  find (fun f => str_eqb (Field_name f) x) Field_all.

Definition strip_sign (x : str) : bool * str :=
  match x with c :: t => if c =? 45 then (true, t) else (false, x) | [] => (false, x) end.

Definition undisplay_atom (x : str) : option (aexp * str) :=
  let '(neg, body) := strip_sign x in
  let '(run, rest) := span_alnum body in
  match run with
  | [] => None
  | c :: _ =>
      if is_digit c then Some (ANum neg run, rest)
      else match field_of_name run with Some f => Some (ACol neg f, rest) | None => None end
  end.

Fixpoint undisplay (fuel : nat) (x : str) : option (aexp * str) :=
  match fuel with
  | O => None
  | S k =>
      match x with
      | [] => undisplay_atom x
      | c0 :: x1 =>
          if negb (c0 =? 40) then undisplay_atom x else
          match undisplay k x1 with
          | Some (l, 32 :: c :: 32 :: x2) =>
              match op_of_char c with
              | Some o =>
                  match undisplay k x2 with
                  | Some (r, 41 :: x3) => Some (ABin o l r, x3)
                  | _ => None
                  end
              | None => None
              end
          | _ => None
          end
      end
  end.

(* ---------- facts about the generated Field table, by computation ---------- *)
Definition name_ok (x : str) : bool :=
  match x with
  | c :: _ => forallb is_alnum x && negb (is_digit c) && negb (c =? 40) && negb (c =? 45)
  | [] => false
  end.

Lemma Field_name_ok f : name_ok (Field_name f) = true.
Proof. destruct f; vm_compute; reflexivity. Qed.
Lemma field_of_name_Field_name f : field_of_name (Field_name f) = Some f.
Proof. destruct f; vm_compute; reflexivity. Qed.

(* ---------- span ---------- *)
Definition stops (rest : str) : Prop := match rest with [] => True | c :: _ => is_alnum c = false end.

Lemma span_alnum_app run rest : forallb is_alnum run = true -> stops rest -> span_alnum (run ++ rest) = (run, rest).
Proof.
  intros Hr Hs. induction run as [|c run IH]; cbn [app].
  - destruct rest as [|d rest]; [reflexivity|]. cbn [span_alnum]. cbn [stops] in Hs. now rewrite Hs.
  - cbn [forallb] in Hr. apply andb_true_iff in Hr. destruct Hr as [Hc Hr]. cbn [span_alnum]. rewrite Hc, (IH Hr). reflexivity.
Qed.

Lemma digit_alnum c : is_digit c = true -> is_alnum c = true.
Proof. intros H. unfold is_alnum. now rewrite H. Qed.
Lemma digits_alnum ds : forallb is_digit ds = true -> forallb is_alnum ds = true.
Proof.
  induction ds as [|c ds IH]; [reflexivity|]. cbn [forallb]. rewrite !andb_true_iff. intros [H1 H2].
  split; [now apply digit_alnum|now apply IH].
Qed.
Lemma digit_not_special c : is_digit c = true -> (c =? 40) = false /\ (c =? 45) = false.
Proof.
  unfold is_digit. rewrite andb_true_iff, !N.leb_le. intros [H1 H2]. split; apply N.eqb_neq; lia.
Qed.

(* an atom's text [sign ++ run] decodes to what the run says *)
Lemma undisplay_atom_run neg run rest c run' :
  run = c :: run' -> forallb is_alnum run = true -> (c =? 45) = false -> stops rest ->
  undisplay_atom (sign neg ++ run ++ rest) =
    if is_digit c then Some (ANum neg run, rest)
    else match field_of_name run with Some f => Some (ACol neg f, rest) | None => None end.
Proof.
  intros -> Hal H45 Hs. unfold undisplay_atom.
  assert (E : strip_sign (sign neg ++ (c :: run') ++ rest) = (neg, (c :: run') ++ rest)).
  { destruct neg; cbn [sign app strip_sign]; [reflexivity|]. now rewrite H45. }
  rewrite E. rewrite (span_alnum_app (c :: run') rest Hal Hs). reflexivity.
Qed.

(* first character of the text of an atom is not '(' *)
Lemma atom_head neg run rest c run' : run = c :: run' -> (c =? 40) = false ->
  exists d t, sign neg ++ run ++ rest = d :: t /\ (d =? 40) = false.
Proof. intros -> H. destruct neg; cbn [sign app]; [exists 45, (c :: run' ++ rest)|exists c, (run' ++ rest)]; auto. Qed.

Lemma undisplay_not_open k d t : (d =? 40) = false -> undisplay (S k) (d :: t) = undisplay_atom (d :: t).
Proof.
  intros H. cbn [undisplay]. now rewrite H.
Qed.

Theorem undisplay_display : forall a rest fuel, wf a -> stops rest -> (height a < fuel)%nat ->
  undisplay fuel (display (embed a) ++ rest) = Some (a, rest).
Proof.
  induction a as [neg ds|neg f|o l IHl r IHr]; intros rest fuel Hwf Hs Hf.
  - (* number *)
    destruct Hwf as [Hne Hd]. destruct ds as [|c ds']; [congruence|]. clear Hne.
    assert (Hc : is_digit c = true) by (cbn [forallb] in Hd; now apply andb_true_iff in Hd).
    destruct (digit_not_special c Hc) as [H40 H45].
    rewrite display_num, <- app_assoc. destruct fuel as [|k]; [lia|].
    destruct (atom_head neg (c :: ds') rest c ds' eq_refl H40) as (d & t & E & Hd40).
    rewrite E, (undisplay_not_open k d t Hd40), <- E.
    rewrite (undisplay_atom_run neg (c :: ds') rest c ds' eq_refl (digits_alnum _ Hd) H45 Hs), Hc. reflexivity.
  - (* column *)
    pose proof (Field_name_ok f) as Hn. destruct (Field_name f) as [|c nm] eqn:En; [discriminate Hn|].
    cbn [name_ok] in Hn. rewrite !andb_true_iff, !negb_true_iff in Hn. destruct Hn as [[[Hal Hnd] H40] H45].
    rewrite display_col, En, <- app_assoc. destruct fuel as [|k]; [lia|].
    destruct (atom_head neg (c :: nm) rest c nm eq_refl H40) as (d & t & E & Hd40).
    rewrite E, (undisplay_not_open k d t Hd40), <- E.
    rewrite (undisplay_atom_run neg (c :: nm) rest c nm eq_refl Hal H45 Hs), Hnd, <- En, field_of_name_Field_name. reflexivity.
  - (* binary node *)
    destruct Hwf as [Hwl Hwr]. cbn [height] in Hf. destruct fuel as [|k]; [lia|].
    rewrite display_bin.
    replace (([40] ++ display (embed l) ++ [32; op_char o; 32] ++ display (embed r) ++ [41]) ++ rest)
      with (40 :: display (embed l) ++ (32 :: op_char o :: 32 :: display (embed r) ++ (41 :: rest)))
      by (cbn [app]; rewrite <- app_assoc; cbn [app]; rewrite <- app_assoc; reflexivity).
    cbn [undisplay]. change (negb (40 =? 40)) with false. cbv iota.
    rewrite (IHl (32 :: op_char o :: 32 :: display (embed r) ++ 41 :: rest) k Hwl eq_refl ltac:(lia)).
    rewrite op_of_char_op_char.
    rewrite (IHr (41 :: rest) k Hwr eq_refl ltac:(lia)). reflexivity.
Qed.

Theorem display_injective : forall a b, wf a -> wf b -> display (embed a) = display (embed b) -> a = b.
Proof.
  intros a b Ha Hb E.
  pose (fuel := S (Nat.max (height a) (height b))).
  pose proof (undisplay_display a [] fuel Ha I ltac:(unfold fuel; lia)) as H1.
  pose proof (undisplay_display b [] fuel Hb I ltac:(unfold fuel; lia)) as H2.
  rewrite E, H2 in H1. now inversion H1.
Qed.

(* the same with the fuel given by the length of the text *)
Lemma height_le_length a : (height a <= length (display (embed a)))%nat.
Proof.
  induction a as [neg ds|neg f|o l IHl r IHr]; [cbn [height]; lia|cbn [height]; lia|].
  rewrite display_bin. cbn [height]. rewrite !app_length. cbn [length]. lia.
Qed.

Corollary undisplay_display_len : forall a rest, wf a -> stops rest ->
  undisplay (S (length (display (embed a) ++ rest))) (display (embed a) ++ rest) = Some (a, rest).
Proof.
  intros a rest Hw Hs. apply undisplay_display; [exact Hw|exact Hs|].
  pose proof (height_le_length a). rewrite app_length. lia.
Qed.

(* embed is injective too, so equal Display texts come from equal parser outputs only *)
Lemma embed_injective : forall a b, embed a = embed b -> a = b.
Proof.
  induction a as [neg ds|neg f|o l IHl r IHr]; intros [neg' ds'|neg' f'|o' l' r'] E; cbn in E; try discriminate E.
  - inversion E; reflexivity.
  - inversion E; reflexivity.
  - inversion E as [[E1 E2 E3]]. f_equal; auto.
Qed.

Print Assumptions undisplay_display.
Print Assumptions undisplay_display_len.
Print Assumptions display_injective.
