(* D. Totality of the model parser: no Panic (no unwrap on None, no index underflow in
   drop_lexem) and no OutOfFuel with the fuel the model itself computes.

   Technique: a weakest-precondition predicate `wp X m st Q` over the state monad ("m run from
   st ends with Ok (a, st') and Q a st'"; an Exit2 -- only the unmodelled `~` root produces one
   inside the monad -- is allowed iff X, with X = False for the expression grammar and X = True
   for the statement level; Panic / Hang / OutOfFuel are never allowed), one specification per function of the mutual fixpoint,
   all proved together by induction on the fuel.  The fuel hypothesis is linear in the
   number of tokens that are left:  16 * (|toks| - index) + c_f  <=  fuel,  with a constant c_f
   per function (24 for parse_expr), which pfuel = 16 * (|toks| + 4) satisfies at any index.
   Besides "no Panic / OutOfFuel" the specifications say that the index never moves
   backwards across a call (so every drop_lexem is preceded by its next_lexem), that a
   successful expression parser consumes at least one token, and that Ok(None) is never
   returned by the expression grammar (all the `unwrap()`s are safe). *)
From Coq Require Import String List NArith Bool Arith Lia.
From FS Require Import lib.Str lib.Res lib.Dec gen.OpsGen gen.FieldGen gen.FuncGen
  model.Show model.Lexer model.Expr model.Parser proofs.ParserEqs.
Import ListNotations.
Open Scope nat_scope.

Definition wp (X : Prop) {A} (m : M A) (st : pstate) (Q : A -> pstate -> Prop) : Prop :=
  match m st with Ok (a, st') => Q a st' | Exit2 _ => X | _ => False end.

Lemma wp_bind X {A B} (m : M A) (f : A -> M B) st Q :
  wp X m st (fun a st' => wp X (f a) st' Q) -> wp X (bindM m f) st Q.
Proof. unfold wp, bindM. destruct (m st) as [[a st']| | | |]; auto. Qed.
Lemma wp_try X {A B} (m : M (rr A)) (f : A -> M (rr B)) st Q :
  wp X m st (fun r st' => match r with ROk a => wp X (f a) st' Q | RErr e => Q (RErr e) st' end) -> wp X (tryM m f) st Q.
Proof. intros H. unfold tryM. apply wp_bind. unfold wp in *. destruct (m st) as [[[a|e] st']| | | |]; auto. Qed.
Lemma wp_ret X {A} (a : A) st (Q : A -> pstate -> Prop) : Q a st -> wp X (ret a) st Q.
Proof. auto. Qed.
Lemma wp_err X {A} msg st (Q : rr A -> pstate -> Prop) : Q (RErr (s msg)) st -> wp X (err msg) st Q.
Proof. auto. Qed.
Lemma wp_get X st (Q : pstate -> pstate -> Prop) : Q st st -> wp X get_state st Q.
Proof. auto. Qed.
Lemma wp_next X T st (Q : option lexem -> pstate -> Prop) :
  Q (nth_error T (idx st)) (mkPS (S (idx st)) (roots_parsed st) (where_parsed st)) -> wp X (next_lexem T) st Q.
Proof. auto. Qed.
Lemma wp_drop X st (Q : unit -> pstate -> Prop) : 1 <= idx st ->
  Q tt (mkPS (idx st - 1) (roots_parsed st) (where_parsed st)) -> wp X drop_lexem st Q.
Proof. unfold wp, drop_lexem. destruct (idx st) as [|i]; [lia|]. cbn [Nat.sub]. now rewrite Nat.sub_0_r. Qed.
Lemma wp_weaken (X : Prop) {A} (m : M A) st Q : wp False m st Q -> wp X m st Q.
Proof. unfold wp. destruct (m st) as [[a st']| | | |]; tauto. Qed.
Lemma wp_mono X {A} (m : M A) st (Q Q' : A -> pstate -> Prop) :
  wp X m st Q -> (forall a st', Q a st' -> Q' a st') -> wp X m st Q'.
Proof. unfold wp. destruct (m st) as [[a st']| | | |]; auto. Qed.

(* one monadic step that needs no thought *)
Ltac wp1 :=
  lazymatch goal with
  | |- wp _ (bindM (next_lexem _) _) _ _ => apply wp_bind; apply wp_next; cbv beta; cbn [idx roots_parsed where_parsed]
  | |- wp _ (bindM drop_lexem _) _ _ => apply wp_bind; apply wp_drop; [cbn [idx]; lia|]; cbv beta; cbn [idx roots_parsed where_parsed]
  | |- wp _ (bindM get_state _) _ _ => apply wp_bind; apply wp_get; cbv beta
  | |- wp _ (bindM (ret _) _) _ _ => apply wp_bind; apply wp_ret; cbv beta
  | |- wp _ (ret _) _ _ => apply wp_ret
  | |- wp _ (err _) _ _ => apply wp_err
  end.
Ltac wps := repeat wp1.

Section Total.
Variable T : list lexem.

Definition rem (st : pstate) : nat := length T - idx st.
Definition need (c : nat) (st : pstate) : nat := 16 * rem st + c.

(* results of an expression parser / of a loop that was given Some left operand / of parse_function *)
Definition post_p (st : pstate) (r : rr (option expr)) (st' : pstate) : Prop :=
  match r with ROk (Some _) => idx st < idx st' | ROk None => False | RErr _ => idx st <= idx st' end.
Definition post_l (st : pstate) (r : rr (option expr)) (st' : pstate) : Prop :=
  match r with ROk None => False | _ => idx st <= idx st' end.
Definition post_f (st : pstate) (r : rr expr) (st' : pstate) : Prop := idx st <= idx st'.

Lemma post_p_l st r st' : post_p st r st' -> post_l st r st'.
Proof. destruct r as [[e|]|m]; cbn; lia. Qed.

Record All (k : nat) : Prop := mkAll {
  a_expr   : forall st, need 24 st <= k -> wp False (parse_expr T k) st (post_p st);
  a_eloop  : forall st l rgt, need 23 st <= k -> wp False (expr_loop T k (Some l) rgt) st (post_l st);
  a_and    : forall st, need 22 st <= k -> wp False (parse_and T k) st (post_p st);
  a_aloop  : forall st l rgt, need 21 st <= k -> wp False (and_loop T k (Some l) rgt) st (post_l st);
  a_cond   : forall st, need 20 st <= k -> wp False (parse_cond T k) st (post_p st);
  a_nots   : forall st neg, need 19 st <= k -> wp False (cond_nots T k neg) st (post_p st);
  a_body   : forall st neg, need 18 st <= k -> wp False (cond_body T k neg) st (post_p st);
  a_add    : forall st, need 17 st <= k -> wp False (parse_add_sub T k) st (post_p st);
  a_addl   : forall st l, need 16 st <= k -> wp False (add_sub_loop T k (Some l)) st (post_l st);
  a_mul    : forall st, need 15 st <= k -> wp False (parse_mul_div T k) st (post_p st);
  a_mull   : forall st l, need 14 st <= k -> wp False (mul_div_loop T k (Some l)) st (post_l st);
  a_paren  : forall st, need 13 st <= k -> wp False (parse_paren T k) st (post_p st);
  a_fs     : forall st, need 12 st <= k -> wp False (parse_func_scalar T k) st (post_p st);
  a_fn     : forall st fn, need 11 st <= k -> wp False (parse_function T k fn) st (post_f st);
  a_args   : forall st fe cm args, need 10 st <= k -> wp False (function_args_loop T k fe cm args) st (post_f st) }.

(* calling a function whose specification is known *)
Ltac call spec :=
  lazymatch goal with |- wp _ (tryM _ _) _ _ => apply wp_try | |- wp _ (bindM _ _) _ _ => apply wp_bind end; eapply wp_mono;
  [apply spec; unfold need, rem in *; cbn [idx] in *; lia | cbv beta].

Ltac fuel := unfold need, rem in *; cbn [idx] in *; lia.

(* a token was read: it exists, so the index is inside the vector *)
Lemma tok_inside i t : nth_error T i = Some t -> i < length T.
Proof. intros H. apply nth_error_Some. congruence. Qed.

Lemma cond_post_some st neg e : exists e', cond_post st neg (ROk (Some e)) = ROk (Some e').
Proof.
  unfold cond_post.
  destruct (e_field e) as [fd|].
  - destruct (is_none (e_left e) && is_none (e_right e) && Field_is_boolean_field fd && roots_parsed st && negb (where_parsed st));
      destruct neg; eexists; reflexivity.
  - destruct (e_function e) as [fn|].
    + destruct (is_none (e_right e) && match e_args e with Some a => is_empty a | None => true end
                && Function_is_boolean_function fn && roots_parsed st && negb (where_parsed st));
        destruct neg; eexists; reflexivity.
    + destruct neg; eexists; reflexivity.
Qed.

(* beyond the end of the vector parse_expr fails after nine calls, one index further *)
Lemma expr_at_end k st : nth_error T (idx st) = None -> 9 <= k ->
  exists m, parse_expr T k st = Ok (RErr m, mkPS (S (idx st)) (roots_parsed st) (where_parsed st)).
Proof.
  intros H Hk. do 9 (destruct k as [|k]; [lia|]). clear Hk. destruct st as [i rp wp']. cbn [idx roots_parsed where_parsed] in *.
  eexists.
  rewrite parse_expr_S. unfold tryM at 1. unfold bindM at 1.
  rewrite parse_and_S. unfold tryM at 1. unfold bindM at 1.
  rewrite parse_cond_S, cond_nots_S. unfold bindM at 1. unfold next_lexem at 1. cbn [idx roots_parsed where_parsed]. rewrite H.
  unfold bindM at 1. unfold drop_lexem at 1. cbn [idx roots_parsed where_parsed].
  rewrite cond_body_S. unfold bindM at 1.
  rewrite parse_add_sub_S. unfold tryM at 1. unfold bindM at 1.
  rewrite parse_mul_div_S. unfold tryM at 1. unfold bindM at 1.
  rewrite parse_paren_S. unfold bindM at 1. unfold next_lexem at 1. cbn [idx roots_parsed where_parsed]. rewrite H.
  unfold bindM at 1. unfold drop_lexem at 1. cbn [idx roots_parsed where_parsed].
  rewrite parse_func_scalar_S. unfold bindM at 1. unfold next_lexem at 1. cbn [idx roots_parsed where_parsed]. rewrite H.
  reflexivity.
Qed.

Lemma all_S k : All k -> All (S k).
Proof.
  intros H. constructor.
  - (* parse_expr *)
    intros st Hf. rewrite parse_expr_S. call (a_and k H). intros [[l|]|m] st1 H1; cbv beta iota; cbn [post_p] in H1; [|contradiction|exact H1].
    eapply wp_mono; [apply (a_eloop k H); fuel|]. intros [[e|]|m] st2 H2; cbn [post_l post_p] in *; lia.
  - (* expr_loop *)
    intros st l rgt Hf. rewrite expr_loop_S. wps.
    destruct (nth_error T (idx st)) as [t|] eqn:E; [pose proof (tok_inside _ _ E) as Hin; destruct t|];
      try (wps; destruct rgt; wps; cbn [post_l idx]; lia).
    call (a_and k H). intros [[e|]|m] st1 H1; cbv beta iota; cbn [post_p idx] in H1; [|contradiction|cbn [post_l]; lia].
    destruct rgt as [r|]; (eapply wp_mono; [apply (a_eloop k H); fuel|]); intros r2 st2 H2; destruct r2 as [[?|]|?]; cbn [post_l] in *; lia.
  - (* parse_and *)
    intros st Hf. rewrite parse_and_S. call (a_cond k H). intros [[l|]|m] st1 H1; cbv beta iota; cbn [post_p] in H1; [|contradiction|exact H1].
    eapply wp_mono; [apply (a_aloop k H); fuel|]. intros [[e|]|m] st2 H2; cbn [post_l post_p] in *; lia.
  - (* and_loop *)
    intros st l rgt Hf. rewrite and_loop_S. wps.
    destruct (nth_error T (idx st)) as [t|] eqn:E; [pose proof (tok_inside _ _ E) as Hin; destruct t|];
      try (wps; destruct rgt; wps; cbn [post_l idx]; lia).
    call (a_cond k H). intros [[e|]|m] st1 H1; cbv beta iota; cbn [post_p idx] in H1; [|contradiction|cbn [post_l]; lia].
    destruct rgt as [r|]; (eapply wp_mono; [apply (a_aloop k H); fuel|]); intros r2 st2 H2; destruct r2 as [[?|]|?]; cbn [post_l] in *; lia.
  - (* parse_cond *)
    intros st Hf. rewrite parse_cond_S. apply (a_nots k H). fuel.
  - (* cond_nots *)
    intros st neg Hf. rewrite cond_nots_S. wps.
    destruct (nth_error T (idx st)) as [t|] eqn:E; [pose proof (tok_inside _ _ E) as Hin; destruct t|];
      try (wps; eapply wp_mono; [apply (a_body k H); fuel|]; intros [[?|]|?] st1 H1; cbn [post_p idx] in *; lia).
    eapply wp_mono; [apply (a_nots k H); fuel|]. intros [[?|]|?] st1 H1; cbn [post_p idx] in *; lia.
  - (* cond_body *)
    intros st neg Hf. rewrite cond_body_S. call (a_add k H).
    intros [[l|]|m] st1 H1; cbv beta iota; cbn [post_p] in H1; [|contradiction|wps; cbn [post_p]; lia].
    wps.
    (* the optional NOT in front of the operator: in both cases the state that follows is at least st1 *)
    apply wp_bind.
    assert (Hnot : wp False (match nth_error T (idx st1) with
                       | Some Not => ret true
                       | _ => dom _ <- drop_lexem;; ret false
                       end) (mkPS (S (idx st1)) (roots_parsed st1) (where_parsed st1))
                      (fun _ st2 => idx st1 <= idx st2)).
    { destruct (nth_error T (idx st1)) as [[]|]; wps; cbn [idx]; lia. }
    eapply wp_mono; [exact Hnot|]. cbv beta. intros not st2 H2. clear Hnot.
    wps.
    destruct (nth_error T (idx st2)) as [t|] eqn:E; [pose proof (tok_inside _ _ E) as Hin; destruct t|];
      try (wps; match goal with |- context [cond_post ?s ?n (ROk (Some ?e))] => destruct (cond_post_some s n e) as [e' ->] end; cbn [post_p idx]; lia).
    destruct (str_eqb (ascii_lower x) (s "between")).
    + call (a_add k H). intros [[lb|]|m] st3 H3; cbv beta iota; cbn [post_p idx] in H3; [|contradiction|wps; cbn [post_p]; lia].
      wps. destruct (nth_error T (idx st3)) as [t|] eqn:E3; [destruct t|]; try (wps; cbn [post_p idx]; lia).
      call (a_add k H). intros [[rb|]|m] st4 H4; cbv beta iota zeta; cbn [post_p idx] in H4; [|contradiction|wps; cbn [post_p]; lia].
      wps. match goal with |- context [cond_post ?s ?n (ROk (Some ?e))] => destruct (cond_post_some s n e) as [e' ->] end.
      cbn [post_p]. lia.
    + call (a_add k H). intros [[r|]|m] st3 H3; cbv beta iota; cbn [post_p idx] in H3; [|contradiction|wps; cbn [post_p]; lia].
      destruct (Op_from_with_not x not) as [op|]; [|wps; cbn [post_p]; lia].
      wps. match goal with |- context [cond_post ?s ?n (ROk (Some ?e))] => destruct (cond_post_some s n e) as [e' ->] end.
      cbn [post_p]. lia.
  - (* parse_add_sub *)
    intros st Hf. rewrite parse_add_sub_S. call (a_mul k H). intros [[l|]|m] st1 H1; cbv beta iota; cbn [post_p] in H1; [|contradiction|exact H1].
    eapply wp_mono; [apply (a_addl k H); fuel|]. intros [[e|]|m] st2 H2; cbn [post_l post_p] in *; lia.
  - (* add_sub_loop *)
    intros st l Hf. rewrite add_sub_loop_S. wps.
    destruct (nth_error T (idx st)) as [t|] eqn:E; [pose proof (tok_inside _ _ E) as Hin; destruct t|];
      try (wps; cbn [post_l idx]; lia).
    destruct (Arith_from x) as [[]|]; try (wps; cbn [post_l idx]; lia).
    all: call (a_mul k H); intros [[e|]|m] st1 H1; cbv beta iota; cbn [post_p idx] in H1; [|contradiction|cbn [post_l]; lia];
      (eapply wp_mono; [apply (a_addl k H); fuel|]); intros r2 st2 H2; destruct r2 as [[?|]|?]; cbn [post_l] in *; lia.
  - (* parse_mul_div *)
    intros st Hf. rewrite parse_mul_div_S. call (a_paren k H). intros [[l|]|m] st1 H1; cbv beta iota; cbn [post_p] in H1; [|contradiction|exact H1].
    eapply wp_mono; [apply (a_mull k H); fuel|]. intros [[e|]|m] st2 H2; cbn [post_l post_p] in *; lia.
  - (* mul_div_loop *)
    intros st l Hf. rewrite mul_div_loop_S. wps.
    destruct (nth_error T (idx st)) as [t|] eqn:E; [pose proof (tok_inside _ _ E) as Hin; destruct t|];
      try (wps; cbn [post_l idx]; lia).
    destruct (Arith_from x) as [[]|]; try (wps; cbn [post_l idx]; lia).
    all: call (a_paren k H); intros [[e|]|m] st1 H1; cbv beta iota; cbn [post_p idx] in H1; [|contradiction|cbn [post_l]; lia];
      (eapply wp_mono; [apply (a_mull k H); fuel|]); intros r2 st2 H2; destruct r2 as [[?|]|?]; cbn [post_l] in *; lia.
  - (* parse_paren *)
    intros st Hf. rewrite parse_paren_S. wps.
    destruct (nth_error T (idx st)) as [t|] eqn:E; [pose proof (tok_inside _ _ E) as Hin; destruct t|];
      try (wps; eapply wp_mono; [apply (a_fs k H); fuel|]; intros [[?|]|?] st1 H1; cbn [post_p idx] in *; lia).
    + apply wp_bind. eapply wp_mono; [apply (a_expr k H); fuel|]. cbv beta. intros r st1 H1. wps.
      destruct (nth_error T (idx st1)) as [[]|]; wps; destruct r as [[?|]|?]; cbn [post_p idx] in *; lia.
    + apply wp_bind. eapply wp_mono; [apply (a_expr k H); fuel|]. cbv beta. intros r st1 H1. wps.
      destruct (nth_error T (idx st1)) as [[]|]; wps; destruct r as [[?|]|?]; cbn [post_p idx] in *; lia.
  - (* parse_func_scalar *)
    intros st Hf. rewrite parse_func_scalar_S. wps. apply wp_bind.
    (* the sign: afterwards we hold a token read at an index >= idx st, and stand right after it *)
    assert (Hsign : wp False (match nth_error T (idx st) with
                        | Some (ArithmeticOperator x) =>
                            if str_eqb x (s "-") then dom lx' <- next_lexem T;; ret (true, lx')
                            else if str_eqb x (s "+") then ret (false, nth_error T (idx st))
                            else dom _ <- drop_lexem;; ret (false, nth_error T (idx st))
                        | _ => ret (false, nth_error T (idx st))
                        end) (mkPS (S (idx st)) (roots_parsed st) (where_parsed st))
                       (fun ml st1 => idx st <= idx st1 /\
                                      match snd ml with
                                      | Some (RawString _) | Some (QString _) => idx st < idx st1 /\ idx st1 <= length T
                                      | _ => True end)).
    { destruct (nth_error T (idx st)) as [t|] eqn:E; [pose proof (tok_inside _ _ E) as Hin; destruct t|]; wps; cbn [idx snd]; try (split; lia).
      destruct (str_eqb x (s "-")).
      - wps. cbn [idx snd]. split; [lia|]. destruct (nth_error T (S (idx st))) as [t|] eqn:E2; [pose proof (tok_inside _ _ E2); destruct t|]; auto; lia.
      - destruct (str_eqb x (s "+")); wps; cbn [idx snd]; split; auto; lia. }
    eapply wp_mono; [exact Hsign|]. cbv beta. clear Hsign. intros [minus lexem] st1 [H1 H2]. cbn [snd] in H2.
    destruct lexem as [[]|]; try (wps; cbn [post_p]; lia).
    destruct (Field_from_str x); [wps; cbn [post_p]; lia|].
    destruct (Function_from_str x) as [fn|]; [|wps; cbn [post_p]; lia].
    call (a_fn k H). intros [e|m] st2 H3; unfold post_f in H3; wps; cbn [post_p]; lia.
  - (* parse_function *)
    intros st fn Hf. rewrite parse_function_S. cbv zeta. wps.
    assert (Hbody : forall cm, idx st < length T ->
              wp False (dom r <- parse_expr T k;;
                  match r with
                  | ROk (Some function_arg) => function_args_loop T k (set_left (Expr_function fn) (Some function_arg)) cm []
                  | _ => ret (ROk (Expr_function fn))
                  end) (mkPS (S (idx st)) (roots_parsed st) (where_parsed st)) (post_f st)).
    { intros cm Hin. apply wp_bind. eapply wp_mono; [apply (a_expr k H); fuel|]. cbv beta.
      intros [[e|]|m] st1 H1; cbv beta iota; cbn [post_p idx] in H1; [|contradiction|wps; unfold post_f; lia].
      eapply wp_mono; [apply (a_args k H); fuel|]. intros r st2 H2. unfold post_f in *. lia. }
    destruct (nth_error T (idx st)) as [t|] eqn:E; [pose proof (tok_inside _ _ E) as Hin; destruct t|];
      try (wps; unfold post_f; cbn [idx]; lia); try (apply Hbody; exact Hin).
    (* no token at all: parse_expr runs beyond the end and fails; the Err is swallowed *)
    destruct (expr_at_end k (mkPS (S (idx st)) (roots_parsed st) (where_parsed st))) as [m Hm].
    { cbn [idx]. apply nth_error_None. apply nth_error_None in E. lia. }
    { fuel. }
    apply wp_bind. unfold wp at 1. rewrite Hm. wps. unfold post_f. cbn [idx]. lia.
  - (* function_args_loop *)
    intros st fe cm args Hf. rewrite function_args_loop_S. wps.
    destruct (nth_error T (idx st)) as [t|] eqn:E; [pose proof (tok_inside _ _ E) as Hin; destruct t|];
      try (wps; unfold post_f; cbn [idx]; lia).
    + apply wp_bind. eapply wp_mono; [apply (a_expr k H); fuel|]. cbv beta.
      intros [[e|]|m] st1 H1; cbv beta iota; cbn [post_p idx] in H1; [|contradiction|wps; unfold post_f; lia].
      eapply wp_mono; [apply (a_args k H); fuel|]. intros r st2 H2. unfold post_f in *. lia.
    + destruct (negb cm); wps; unfold post_f; cbn [idx]; lia.
    + destruct cm; wps; unfold post_f; cbn [idx]; lia.
Qed.

Lemma all_0 : All 0.
Proof. constructor; intros; unfold need in *; lia. Qed.

Lemma all_k k : All k.
Proof. induction k as [|k IH]; [exact all_0|exact (all_S k IH)]. Qed.

(* ---- the expression sub-parser is total ---- *)
Theorem parse_expr_total : forall k st, 16 * (length T - idx st) + 24 <= k ->
  match parse_expr T k st with
  | Ok (r, st') => idx st <= idx st' /\ r <> ROk None /\ (forall e, r = ROk (Some e) -> idx st < idx st')
  | _ => False
  end.
Proof.
  intros k st Hk. pose proof (a_expr k (all_k k) st Hk) as H. unfold wp in H.
  destruct (parse_expr T k st) as [[r st']|m| | |] eqn:E; try contradiction. destruct r as [[e|]|m]; cbn [post_p] in H; [|contradiction|].
    + split; [lia|]. split; [discriminate|]. intros; exact H.
    + split; [exact H|]. split; [discriminate|]. intros; discriminate.
Qed.

(* ---- the statement level: parse_fields, parse_roots, parse_root_options, parse_where,
        parse_group_by, parse_order_by, parse_limit, parse_output_format ---- *)
Definition Tr {A} : A -> pstate -> Prop := fun _ _ => True.

Lemma expr_top_spec X st : wp X (parse_expr_top T) st (post_p st).
Proof. apply wp_weaken. unfold parse_expr_top. apply (a_expr _ (all_k _)). unfold need, rem, pfuel. lia. Qed.

Ltac ifs := repeat match goal with |- wp _ (if ?c then _ else _) _ _ => destruct c end.
Ltac rfuel := unfold rem in *; cbn [idx] in *; lia.

Lemma fields_loop_ok : forall k st fields, rem st + 1 <= k -> wp True (fields_loop T k fields) st Tr.
Proof.
  induction k as [|k IH]; intros st fields Hf; [lia|]. rewrite fields_loop_S. cbv zeta. wps.
  assert (Hpush : forall fields, idx st < length T ->
            wp True (tryr f <- parse_expr_top T;;
                     match f with Some field => fields_loop T k (fields ++ [field]) | None => fields_loop T k fields end)
               (mkPS (idx st) (roots_parsed st) (where_parsed st)) Tr).
  { intros fs Hin. apply wp_try. eapply wp_mono; [apply expr_top_spec|]. cbv beta.
    intros [[e|]|m] st1 H1; cbn [post_p idx] in H1; [|contradiction|exact I]. apply IH. rfuel. }
  destruct (nth_error T (idx st)) as [t|] eqn:E; [pose proof (tok_inside _ _ E) as Hin; destruct t|];
    try (wps; exact I); try (apply IH; rfuel);
    try (wps; cbn [idx roots_parsed where_parsed]; replace (S (idx st) - 1) with (idx st) by lia; apply Hpush; exact Hin).
  all: destruct (lo_is x "select"); [apply IH; rfuel|]; destruct (str_eqb x (s "*")); [apply IH; rfuel|].
  all: apply wp_bind;
    assert (Hbrk : wp True (if kw_is (uni_lower x) "group"
                            then dom lx2 <- next_lexem T;;
                                 match lx2 with
                                 | Some By => dom _ <- drop_lexem;; dom _ <- drop_lexem;; ret true
                                 | _ => dom _ <- drop_lexem;; ret false
                                 end
                            else ret false) (mkPS (S (idx st)) (roots_parsed st) (where_parsed st))
                      (fun brk st1 => if brk then True else st1 = mkPS (S (idx st)) (roots_parsed st) (where_parsed st)));
    [destruct (kw_is (uni_lower x) "group"); wps; [|reflexivity];
     destruct (nth_error T (S (idx st))) as [[]|]; wps; cbn [idx roots_parsed where_parsed Nat.sub]; try exact I;
     rewrite ?Nat.sub_0_r; reflexivity|];
    (eapply wp_mono; [exact Hbrk|]); cbv beta; intros [|] st1 H1; [wps; exact I|]; subst st1; wps;
    destruct (is_root_option_keyword x); [wps; exact I|];
    cbn [idx roots_parsed where_parsed]; replace (S (idx st) - 1) with (idx st) by lia; apply Hpush; exact Hin.
Qed.

Lemma parse_fields_ok st : wp True (parse_fields T) st Tr.
Proof.
  unfold parse_fields. apply wp_try. eapply wp_mono; [apply fields_loop_ok; unfold rem, pfuel; lia|]. cbv beta.
  intros [fs|m] st1 _; [|exact I]. destruct (is_empty fs); wps; exact I.
Qed.

Lemma root_options_loop_ok : forall k st mode o, rem st + 1 <= k ->
  wp True (root_options_loop T k mode o) st (fun r st' => idx st <= idx st' /\ (fst r <> mode -> idx st < idx st')).
Proof.
  induction k as [|k IH]; intros st mode o Hf; [lia|]. rewrite root_options_loop_S. wps.
  assert (Hrec : forall mode' o', idx st < length T ->
            wp True (root_options_loop T k mode' o') (mkPS (S (idx st)) (roots_parsed st) (where_parsed st))
               (fun r st' => idx st <= idx st' /\ (fst r <> mode -> idx st < idx st'))).
  { intros mode' o' Hin. eapply wp_mono; [apply IH; rfuel|]. cbv beta. intros r st1 [H1 _]. cbn [idx] in H1. split; [lia|]. intros _. lia. }
  assert (Hstop : 1 <= S (idx st) ->
            wp True (dom _ <- drop_lexem;; ret (mode, o)) (mkPS (S (idx st)) (roots_parsed st) (where_parsed st))
               (fun r st' => idx st <= idx st' /\ (fst r <> mode -> idx st < idx st'))).
  { intros _. wps. cbn [idx fst]. split; [lia|]. intros C. congruence. }
  destruct (nth_error T (idx st)) as [t|] eqn:E; [pose proof (tok_inside _ _ E) as Hin; destruct t|];
    try (apply Hstop; lia).
  - destruct mode; ifs; try (apply Hrec; exact Hin); try (apply Hstop; lia);
      destruct (parse_u32 x); try (apply Hrec; exact Hin); apply Hstop; lia.
  - ifs; [apply Hrec; exact Hin|apply Hstop; lia].
  - destruct mode; ifs; try (apply Hrec; exact Hin); try (apply Hstop; lia);
      destruct (parse_u32 x); try (apply Hrec; exact Hin); apply Hstop; lia.
  - wps. cbn [idx fst]. split; [lia|]. intros C. congruence.
Qed.

Lemma parse_root_options_ok st :
  wp True (parse_root_options T) st (fun r st' => idx st <= idx st' /\ (r <> None -> idx st < idx st')).
Proof.
  unfold parse_root_options. apply wp_bind. eapply wp_mono; [apply root_options_loop_ok; unfold rem, pfuel; lia|]. cbv beta.
  intros [mode o] st1 [H1 H2]. cbn [fst] in H2.
  destruct mode; wps; (split; [exact H1|]); intros C; try congruence; apply H2; discriminate.
Qed.

Lemma roots_loop_ok : forall k st mode path ro roots, rem st + 1 <= k ->
  wp True (roots_loop T k mode path ro roots) st Tr.
Proof.
  induction k as [|k IH]; intros st mode path ro roots Hf; [lia|]. rewrite roots_loop_S. cbv zeta. wps.
  assert (Hopt : forall i, idx st <= i -> idx st < length T ->
            wp True (dom o <- parse_root_options T;;
                     match o with
                     | Some options => roots_loop T k RMRoot path options roots
                     | None => ret (roots ++ [mkRoot path RootOptions_new])
                     end) (mkPS i (roots_parsed st) (where_parsed st)) Tr).
  { intros i Hi Hin. apply wp_bind. eapply wp_mono; [apply parse_root_options_ok|]. cbv beta. cbn [idx].
    intros [o|] st1 [H1 H2]; [|wps; exact I]. apply IH. assert (i < idx st1) by (apply H2; discriminate). rfuel. }
  destruct (nth_error T (idx st)) as [t|] eqn:E; [pose proof (tok_inside _ _ E) as Hin; destruct t|];
    try (wps; exact I).
  - (* RawString *)
    destruct mode.
    + destruct (starts_with [126%N] x); [exact I|apply IH; rfuel].
    + apply wp_bind. destruct (kw_is (uni_lower x) "group").
      * wps. destruct (nth_error T (S (idx st))) as [[]|]; wps; try exact I;
          cbn [idx roots_parsed where_parsed]; apply Hopt; lia.
      * wps. cbn [idx roots_parsed where_parsed]. apply Hopt; lia.
    + destruct (starts_with [126%N] x); [exact I|apply IH; rfuel].
  - (* Comma *)
    destruct (negb (is_empty path)); [apply IH; rfuel|wps; exact I].
  - (* QString *)
    destruct mode.
    + destruct (starts_with [126%N] x); [exact I|apply IH; rfuel].
    + apply wp_bind. destruct (kw_is (uni_lower x) "group").
      * wps. destruct (nth_error T (S (idx st))) as [[]|]; wps; try exact I;
          cbn [idx roots_parsed where_parsed]; apply Hopt; lia.
      * wps. cbn [idx roots_parsed where_parsed]. apply Hopt; lia.
    + destruct (starts_with [126%N] x); [exact I|apply IH; rfuel].
Qed.

Lemma parse_roots_ok st : wp True (parse_roots T) st Tr.
Proof.
  unfold parse_roots. wps. destruct (nth_error T (idx st)) as [[]|]; try (wps; exact I).
  apply roots_loop_ok. unfold rem, pfuel. cbn [idx]. lia.
Qed.

Lemma parse_where_ok st : wp True (parse_where T) st Tr.
Proof.
  unfold parse_where. wps. destruct (nth_error T (idx st)) as [[]|]; try (wps; exact I).
  eapply wp_mono; [apply expr_top_spec|]. intros; exact I.
Qed.

Lemma group_by_loop_ok : forall k st acc, rem st + 1 <= k -> wp True (group_by_loop T k acc) st Tr.
Proof.
  induction k as [|k IH]; intros st acc Hf; [lia|]. rewrite group_by_loop_S. wps.
  destruct (nth_error T (idx st)) as [t|] eqn:E; [pose proof (tok_inside _ _ E) as Hin; destruct t|];
    try (wps; exact I); try (apply IH; rfuel).
  wps. apply wp_try. eapply wp_mono; [apply expr_top_spec|]. cbv beta.
  intros [[e|]|m] st1 H1; cbn [post_p idx] in H1; [|contradiction|exact I]. apply IH. rfuel.
Qed.

Lemma parse_group_by_ok st : wp True (parse_group_by T) st Tr.
Proof.
  unfold parse_group_by. wps. destruct (nth_error T (idx st)) as [[]|]; try (wps; exact I).
  destruct (kw_is (uni_lower x) "group"); [|wps; exact I]. wps.
  destruct (nth_error T (S (idx st))) as [[]|]; try (wps; exact I).
  apply group_by_loop_ok. unfold rem, pfuel. cbn [idx]. lia.
Qed.

Lemma order_index_ok (fields : list expr) i :
  (1 <=? i)%N && (i <=? N.of_nat (length fields))%N = true -> nth_error fields (N.to_nat (i - 1)) <> None.
Proof.
  rewrite andb_true_iff, !N.leb_le. intros [H1 H2]. apply nth_error_Some. lia.
Qed.

Lemma order_by_loop_ok : forall k st fields obf obd, rem st + 1 <= k -> wp True (order_by_loop T k fields obf obd) st Tr.
Proof.
  induction k as [|k IH]; intros st fields obf obd Hf; [lia|]. rewrite order_by_loop_S. wps.
  destruct (nth_error T (idx st)) as [t|] eqn:E; [pose proof (tok_inside _ _ E) as Hin; destruct t|];
    try (wps; exact I); try (apply IH; rfuel).
  - apply wp_bind.
    set (st1 := mkPS (S (idx st)) (roots_parsed st) (where_parsed st)).
    assert (Hexpr : wp True (dom _ <- drop_lexem;; tryr e <- parse_expr_top T;;
                             match e with Some f => order_by_loop T k fields (obf ++ [f]) (obd ++ [true]) | None => err "Error parsing order by" end) st1 Tr).
    { unfold st1. wps. apply wp_try. eapply wp_mono; [apply expr_top_spec|]. cbv beta.
      intros [[e|]|m] st2 H1; cbn [post_p idx] in H1; [|contradiction|exact I]. apply IH. rfuel. }
    assert (Hpos : forall i, wp True (if (1 <=? i)%N && (i <=? N.of_nat (length fields))%N
                                      then match nth_error fields (N.to_nat (i - 1)) with
                                           | Some f => order_by_loop T k fields (obf ++ [f]) (obd ++ [true])
                                           | None => panic "parse_order_by: fields[idx - 1]" end
                                      else err "Order by position is out of range") st1 Tr).
    { intros i. destruct ((1 <=? i)%N && (i <=? N.of_nat (length fields))%N) eqn:Er; [|wps; exact I].
      pose proof (order_index_ok fields i Er) as Hn.
      destruct (nth_error fields (N.to_nat (i - 1))); [apply IH; unfold st1; rfuel|congruence]. }
    destruct (parse_usize x) as [i|].
    + wps. cbn [Nat.sub]. fold st1.
      replace (mkPS (idx st1 - 0) (roots_parsed st1) (where_parsed st1)) with st1 by (unfold st1; cbn [idx roots_parsed where_parsed]; now rewrite Nat.sub_0_r).
      destruct (nth_error T (idx st1)) as [[]|]; first [apply Hpos | exact Hexpr].
    + wps. exact Hexpr.
  - destruct (is_empty obd); [wps; exact I|apply IH; rfuel].
Qed.

Lemma parse_order_by_ok st fields : wp True (parse_order_by T fields) st Tr.
Proof.
  unfold parse_order_by. wps. destruct (nth_error T (idx st)) as [[]|]; try (wps; exact I). wps.
  destruct (nth_error T (S (idx st))) as [[]|]; try (wps; exact I).
  apply order_by_loop_ok. unfold rem, pfuel. cbn [idx]. lia.
Qed.

Lemma parse_limit_ok st : wp True (parse_limit T) st Tr.
Proof.
  unfold parse_limit. wps. destruct (nth_error T (idx st)) as [[]|]; try (wps; exact I). wps.
  destruct (nth_error T (S (idx st))) as [[]|]; try (wps; exact I); destruct (parse_u32 x); wps; exact I.
Qed.

Lemma parse_output_format_ok st : wp True (parse_output_format T) st Tr.
Proof.
  unfold parse_output_format. wps. destruct (nth_error T (idx st)) as [[]|]; try (wps; exact I). wps.
  destruct (nth_error T (S (idx st))) as [[]|]; try (wps; exact I); destruct (OutputFormat_from x); wps; exact I.
Qed.

Lemma remaining_ok st : wp True (there_are_remaining_lexems T) st Tr.
Proof. unfold there_are_remaining_lexems. wps. destruct (nth_error T (idx st)); wps; exact I. Qed.

Ltac seq spec := lazymatch goal with |- wp _ (tryM _ _) _ _ => apply wp_try | |- wp _ (bindM _ _) _ _ => apply wp_bind end;
  eapply wp_mono; [apply spec|]; cbv beta.

Lemma parse_main_ok st : wp True (parse_main T) st Tr.
Proof.
  unfold parse_main.
  seq parse_fields_ok. intros [fields|m] st1 _; [|exact I].
  seq parse_roots_ok. intros roots st2 _.
  seq parse_root_options_ok. intros ro st3 _.
  apply wp_bind. unfold wp at 1, set_roots_parsed. cbv beta.
  seq parse_where_ok. intros [ex|m] st4 _; [|exact I].
  apply wp_bind. unfold wp at 1, set_where_parsed. cbv beta.
  seq parse_group_by_ok. intros [gf|m] st5 _; [|exact I].
  seq parse_order_by_ok. intros [[of oa]|m] st6 _; [|exact I].
  seq parse_limit_ok. intros [lim|m] st7 _; [|exact I].
  seq parse_output_format_ok. intros [fmt|m] st8 _; [|exact I].
  apply wp_bind. destruct (is_empty roots).
  - eapply wp_mono; [apply parse_roots_ok|]. cbv beta. intros roots' st9 _.
    seq remaining_ok. intros [|] st10 _; wps; exact I.
  - wps. seq remaining_ok. intros [|] st10 _; wps; exact I.
Qed.

End Total.

(* ---- D: the whole parser never panics and never runs out of its own fuel ---- *)
Definition benign {A} (r : res A) : Prop :=
  match r with Ok _ | Exit2 _ => True | Panic _ | Hang _ | OutOfFuel => False end.

Theorem parse_tokens_total : forall toks, benign (parse_tokens toks).
Proof.
  intros toks. unfold parse_tokens. pose proof (parse_main_ok toks (mkPS 0 false false)) as H. unfold wp in H.
  destruct (parse_main toks (mkPS 0 false false)) as [[[q|m] st]|m|x|x|]; try contradiction; exact I.
Qed.

Theorem parse_total : forall parts, benign (parse parts).
Proof. intros parts. apply parse_tokens_total. Qed.

(* the expression grammar started anywhere, with the model's own fuel *)
Theorem parse_expr_top_total : forall toks st,
  match parse_expr_top toks st with
  | Ok (r, st') => idx st <= idx st' /\ r <> ROk None /\ (forall e, r = ROk (Some e) -> idx st < idx st')
  | _ => False
  end.
Proof. intros toks st. apply parse_expr_total. unfold pfuel. lia. Qed.

Print Assumptions parse_expr_total.
Print Assumptions parse_tokens_total.
Print Assumptions parse_total.
