(* Output formats: summary of the round-trip theorems (proved in JsonProofs, CsvProofs,
   HtmlProofs, FlatProofs) and the cross-format agreement corollary.

     emitters   model/Format.v    (mirror src/output/*.rs, serde_json, csv-core)
     decoders   model/Decode.v    (independent reference readers)

   Everything here is closed under the global context (no axioms). *)
From Coq Require Import String List Arith NArith Bool Lia Permutation Sorted.
From FS Require Import lib.Str model.Format model.Decode proofs.Common proofs.Demo.
From FS Require Export proofs.JsonProofs proofs.CsvProofs proofs.HtmlProofs proofs.FlatProofs.
Import ListNotations.
Open Scope N_scope.

(* ---------------------------------------------------------------------------------- *)
(* the statements, for reference (Check fails if a statement drifts)                     *)

Check (json_roundtrip :
  forall t : table, decode_json (emit_doc Json t) = Some (map canon_row t)).
Check (canon_row_sorted : forall r, StronglySorted key_lt (canon_row r)).
Check (canon_row_keys_nodup : forall r, NoDup (map fst (canon_row r))).
Check (canon_row_lookup : forall q r, assoc q (canon_row r) = assoc q (rev r)).
Check (canon_row_perm : forall r, NoDup (map fst r) -> Permutation r (canon_row r)).
Check (json_roundtrip_distinct :
  forall t : table, distinct_keys t ->
  exists t', decode_json (emit_doc Json t) = Some t'
             /\ Forall2 (@Permutation (str * str)) t t'
             /\ Forall2 (fun r o => lookup_all (map fst r) o = Some (map snd r)) t t').
Check (json_wellformed : forall t : table, json_ok (emit_doc Json t) = true).
Check (json_nosep_refuted :
  emit_doc_nosep Json f17_table = s "[{""name"":""a""}{""name"":""b""}]"
  /\ decode_json (emit_doc_nosep Json f17_table) = None
  /\ json_ok (emit_doc_nosep Json f17_table) = false).
Check (csv_roundtrip :
  forall t : table, nonempty_rows t -> decode_csv (emit_doc Csv t) = Some (map (map snd) t)).
Check (html_roundtrip_safe :
  forall t : table, html_safe t = true -> decode_html (emit_doc Html t) = Some (map (map snd) t)).
Check (html_refuted :
  html_safe f18_table = false /\ decode_html (emit_doc Html f18_table) = None).
Check (html_escaped_roundtrip :
  forall t : table, decode_html (emit_doc_escaped t) = Some (map (map snd) t)).
Check (flat_roundtrip :
  forall (n : nat) (t : table), (0 < n)%nat -> ncols_is n t = true -> values_avoid is_nul t = true ->
  decode_flat 0 0 n (emit_doc List t) = Some (map (map snd) t)).
Check (flat_roundtrip_tabs :
  forall (n : nat) (t : table), (0 < n)%nat -> ncols_is n t = true -> values_avoid is_tab_or_lf t = true ->
  decode_flat 9 10 n (emit_doc Tabs t) = Some (map (map snd) t)).
Check (flat_roundtrip_lines :
  forall (n : nat) (t : table), (0 < n)%nat -> ncols_is n t = true -> values_avoid is_lf t = true ->
  decode_flat 10 10 n (emit_doc Lines t) = Some (map (map snd) t)).

(* ---------------------------------------------------------------------------------- *)
(* all formats carry the same values                                                   *)

Lemma json_values_of_lookups (t : table) tj :
  Forall2 (fun r o => lookup_all (map fst r) o = Some (map snd r)) t tj ->
  json_values (map (map fst) t) tj = Some (values t).
Proof.
  intros H. induction H as [|r o t tj Hr _ IH]; [reflexivity|].
  cbn [map json_values]. unfold values in IH. rewrite Hr, IH. reflexivity.
Qed.

Lemma ncols_nonempty n t : (0 < n)%nat -> ncols_is n t = true -> nonempty_rows t.
Proof.
  intros Hn H. unfold ncols_is in H. rewrite forallb_forall in H.
  unfold nonempty_rows. apply Forall_forall. intros r Hr Hnil.
  specialize (H r Hr). apply Nat.eqb_eq in H. subst r. cbn [length] in H. lia.
Qed.

(* For a table with n > 0 columns per row, pairwise distinct column names within each row
   and no NUL in any value: parsing the JSON output and reading each object by the column
   names, parsing the CSV output, parsing the (escaped) HTML output and splitting the list
   output all yield the same values, namely those of the table. *)
Theorem formats_agree : forall (n : nat) (t : table),
  (0 < n)%nat -> ncols_is n t = true -> distinct_keys t -> values_avoid is_nul t = true ->
  exists tj,
    decode_json (emit_doc Json t) = Some tj
    /\ json_values (map (map fst) t) tj = Some (values t)
    /\ decode_csv (emit_doc Csv t) = Some (values t)
    /\ decode_html (emit_doc_escaped t) = Some (values t)
    /\ decode_flat 0 0 n (emit_doc List t) = Some (values t).
Proof.
  intros n t Hn Hc Hd Hv.
  destruct (json_roundtrip_distinct t Hd) as (tj & Hj & _ & Hl).
  exists tj. split; [exact Hj|]. split; [apply json_values_of_lookups, Hl|].
  split; [apply csv_roundtrip, (ncols_nonempty n t Hn Hc)|].
  split; [apply html_escaped_roundtrip|].
  apply flat_roundtrip; assumption.
Qed.

(* the HTML fselect prints today joins the agreement only for markup-free values *)
Corollary formats_agree_html_today : forall (t : table),
  html_safe t = true -> decode_html (emit_doc Html t) = decode_html (emit_doc_escaped t).
Proof. intros t H. now rewrite html_roundtrip_safe, html_escaped_roundtrip. Qed.

Example formats_agree_hyp_satisfiable :
  (0 < 3)%nat /\ ncols_is 3 demo_table = true /\ distinct_keys demo_table
  /\ values_avoid is_nul demo_table = true.
Proof.
  split; [lia|]. split; [vm_compute; reflexivity|].
  split; [apply distinct_keysb_ok; vm_compute; reflexivity | vm_compute; reflexivity].
Qed.

Example formats_agree_demo :
  exists tj,
    decode_json (emit_doc Json demo_table) = Some tj
    /\ json_values (map (map fst) demo_table) tj = Some (values demo_table)
    /\ decode_csv (emit_doc Csv demo_table) = Some (values demo_table)
    /\ decode_html (emit_doc_escaped demo_table) = Some (values demo_table)
    /\ decode_flat 0 0 3 (emit_doc List demo_table) = Some (values demo_table).
Proof.
  destruct formats_agree_hyp_satisfiable as (H1 & H2 & H3 & H4).
  exact (formats_agree 3 demo_table H1 H2 H3 H4).
Qed.

Print Assumptions json_roundtrip.
Print Assumptions json_roundtrip_distinct.
Print Assumptions json_wellformed.
Print Assumptions json_nosep_refuted.
Print Assumptions csv_roundtrip.
Print Assumptions html_roundtrip_safe.
Print Assumptions html_refuted.
Print Assumptions html_escaped_roundtrip.
Print Assumptions flat_roundtrip.
Print Assumptions flat_roundtrip_tabs.
Print Assumptions flat_roundtrip_lines.
Print Assumptions formats_agree.
