(* T5: corollaries on the listings (and through T1/T2 on the walk): BFS/DFS permutation, BFS depth
   monotonicity, DFS contiguity, archives (C19), ignore pruning (C20), fault isolation (C17). *)
From Coq Require Import List NArith Bool Lia ZifyBool Arith Permutation Sorted.
From FS Require Import lib.Str gen.GatesGen model.Walk spec.WalkSpec proofs.WalkBase proofs.WalkDfs proofs.WalkBfs proofs.WalkRoots.
Import ListNotations.
Open Scope N_scope.
Arguments N.add : simpl never.
Arguments N.sub : simpl never.
Arguments N.eqb : simpl never.
Arguments N.ltb : simpl never.
Arguments N.leb : simpl never.

Section C.
Variable ign : bool.
Variable mx : N.

Definition dgate (d : N) : bool := (mx =? 0) || (d <? mx).
Definition mk (d : N) (dir : str) (k : node) : entry := (d, join_path dir (nname k), k).
Definition vis_kids (kids : list node) : list node := filter (fun k => negb (hidden ign k)) kids.
(* the entries directly inside an entry *)
Definition ch (e : entry) : list entry :=
  if dgate (e_depth e) then map (mk (e_depth e + 1) (e_path e)) (vis_kids (kids_of (e_node e))) else [].

Fixpoint pre_e (F : nat) (e : entry) : list entry :=
  match F with O => [] | S f => e :: flat_map (pre_e f) (ch e) end.

Lemma level_children_ch lvl : level_children ign mx lvl = flat_map ch lvl.
Proof. reflexivity. Qed.

Lemma pre_node_0 d dir kids : flat_map (pre_node ign 0 mx d dir) kids = [].
Proof. induction kids; [reflexivity|assumption]. Qed.
Lemma pre_e_0 l : flat_map (pre_e 0) l = [].
Proof. induction l; [reflexivity|assumption]. Qed.

Lemma pre_as_entries : forall F d dir kids,
  flat_map (pre_node ign F mx d dir) kids = flat_map (pre_e F) (map (mk d dir) (vis_kids kids)).
Proof.
  induction F as [|F IH]; intros d dir kids; [now rewrite pre_node_0, pre_e_0|].
  induction kids as [|k ks IHks]; [reflexivity|].
  cbn [flat_map]. rewrite IHks, pre_node_S. unfold vis_kids at 2. cbn [filter].
  destruct (hidden ign k); [reflexivity|]. cbn [negb map flat_map]. fold (vis_kids ks).
  f_equal. cbn [pre_e]. change (mk d dir k) with (d, join_path dir (nname k), k). f_equal.
  unfold ch. cbn [e_depth e_path e_node fst snd]. unfold dgate.
  destruct ((mx =? 0) || (d <? mx)); [apply IH|reflexivity].
Qed.

Lemma preorder_as_entries F dir kids :
  preorder ign F mx dir kids = flat_map (pre_e F) (map (mk 1 dir) (vis_kids kids)).
Proof. apply pre_as_entries. Qed.
Lemma levelorder_as_entries F dir kids :
  levelorder ign F mx dir kids = levels ign F mx (map (mk 1 dir) (vis_kids kids)).
Proof. reflexivity. Qed.

(* ---------- (a) BFS and DFS list the same entries ---------- *)
Lemma interleave {A} (g : A -> list A) l : Permutation (l ++ flat_map g l) (flat_map (fun e => e :: g e) l).
Proof.
  induction l as [|a l IH]; [constructor|]. cbn [flat_map app]. constructor.
  rewrite Permutation_app_swap_app. apply Permutation_app_head. exact IH.
Qed.

Lemma levels_perm : forall F lvl, Permutation (levels ign F mx lvl) (flat_map (pre_e F) lvl).
Proof.
  induction F as [|F IH]; intros lvl; [rewrite pre_e_0; constructor|].
  rewrite levels_S, level_children_ch.
  rewrite (IH (flat_map ch lvl)), flat_map_flat_map. apply interleave.
Qed.

Theorem T5a_perm F dir kids : Permutation (levelorder ign F mx dir kids) (preorder ign F mx dir kids).
Proof. rewrite preorder_as_entries, levelorder_as_entries. apply levels_perm. Qed.

Theorem T5a_rows_perm accept arc mn F dir kids :
  Permutation (spec_rows accept arc mn mx (levelorder ign F mx dir kids))
              (spec_rows accept arc mn mx (preorder ign F mx dir kids)).
Proof.
  unfold spec_rows.
  assert (PF : forall {A} (f : A -> bool) a b, Permutation a b -> Permutation (filter f a) (filter f b)).
  { intros A f a b H. induction H; cbn [filter].
    - constructor.
    - destruct (f x); [now constructor|assumption].
    - destruct (f x), (f y); [apply perm_swap|apply Permutation_refl|apply Permutation_refl|apply Permutation_refl].
    - eapply Permutation_trans; eassumption. }
  apply PF. apply Permutation_flat_map. apply PF. apply T5a_perm.
Qed.

Theorem T5a_failing_perm F dir kids :
  Permutation (failing mx (levelorder ign F mx dir kids)) (failing mx (preorder ign F mx dir kids)).
Proof. unfold failing. apply Permutation_flat_map. apply T5a_perm. Qed.

(* ---------- (b) BFS: depth never decreases ---------- *)
Lemma SSorted_app {A} (R : A -> A -> Prop) a b :
  StronglySorted R a -> StronglySorted R b -> (forall x y, In x a -> In y b -> R x y) -> StronglySorted R (a ++ b).
Proof.
  induction a as [|x a IH]; intros Ha Hb H; [exact Hb|].
  apply StronglySorted_inv in Ha. destruct Ha as [Ha Hx]. cbn [app]. constructor.
  - apply IH; [exact Ha|exact Hb|]. intros u v Hu Hv. apply H; [now right|exact Hv].
  - apply Forall_app. split; [exact Hx|]. apply Forall_forall. intros y Hy. apply H; [now left|exact Hy].
Qed.

Lemma SSorted_const (l : list N) d : (forall x, In x l -> x = d) -> StronglySorted N.le l.
Proof.
  induction l as [|x l IH]; intros H; constructor.
  - apply IH. intros y Hy. apply H. now right.
  - apply Forall_forall. intros y Hy. rewrite (H x), (H y); [lia|now right|now left].
Qed.

Lemma ch_depth e e' : In e' (ch e) -> e_depth e' = e_depth e + 1.
Proof.
  unfold ch. destruct (dgate (e_depth e)); [|intros []]. intros H. apply in_map_iff in H.
  destruct H as [k [<- _]]. reflexivity.
Qed.

Lemma levels_sorted : forall F lvl d, (forall e, In e lvl -> e_depth e = d) ->
  StronglySorted N.le (map e_depth (levels ign F mx lvl)) /\
  (forall e, In e (levels ign F mx lvl) -> d <= e_depth e).
Proof.
  induction F as [|F IH]; intros lvl d H; [split; [constructor|intros ? []]|].
  rewrite levels_S, level_children_ch.
  destruct (IH (flat_map ch lvl) (d + 1)) as [S1 L1].
  { intros e He. apply in_flat_map in He. destruct He as [e0 [H0 He]]. rewrite (ch_depth _ _ He), (H e0 H0). reflexivity. }
  split.
  - rewrite map_app. apply SSorted_app; [|exact S1|].
    + apply (SSorted_const _ d). intros x Hx. apply in_map_iff in Hx. destruct Hx as [e [<- He]]. now apply H.
    + intros x y Hx Hy. apply in_map_iff in Hx. destruct Hx as [e [<- He]].
      apply in_map_iff in Hy. destruct Hy as [e' [<- He']]. rewrite (H e He). specialize (L1 e' He'). lia.
  - intros e He. apply in_app_or in He. destruct He as [He|He]; [rewrite (H e He); lia|specialize (L1 e He); lia].
Qed.

Theorem T5b_bfs_depth_sorted F dir kids : Sorted N.le (map e_depth (levelorder ign F mx dir kids)).
Proof.
  apply StronglySorted_Sorted. rewrite levelorder_as_entries.
  assert (H1 : forall e, In e (map (mk 1 dir) (vis_kids kids)) -> e_depth e = 1).
  { intros e He. apply in_map_iff in He. destruct He as [k [<- _]]. reflexivity. }
  exact (proj1 (levels_sorted F _ 1 H1)).
Qed.

(* ---------- (c) DFS: the sub-tree of a directory follows it immediately ---------- *)
Theorem T5c_dfs_contiguous F d dir kids :
  flat_map (pre_node ign (S F) mx d dir) kids =
  flat_map (fun k => if hidden ign k then []
                     else (d, join_path dir (nname k), k) ::
                          (if dgate d then flat_map (pre_node ign F mx (d + 1) (join_path dir (nname k))) (kids_of k) else []))
           kids.
Proof. apply flat_map_ext. intros k. apply pre_node_S. Qed.

Corollary T5c_preorder F dir kids :
  preorder ign (S F) mx dir kids =
  flat_map (fun k => if hidden ign k then []
                     else (1, join_path dir (nname k), k) ::
                          (if dgate 1 then flat_map (pre_node ign F mx 2 (join_path dir (nname k))) (kids_of k) else []))
           kids.
Proof. apply (T5c_dfs_contiguous F 1 dir kids). Qed.

End C.

(* ---------- (e) archives (C19): member rows are extra rows, the ordinary rows are unchanged ---------- *)
Definition plain_row (r : row) : bool := match snd r with None => true | Some _ => false end.

Lemma filter_comm {A} (f g : A -> bool) l : filter f (filter g l) = filter g (filter f l).
Proof.
  induction l as [|a l IH]; [reflexivity|]. cbn [filter].
  destruct (g a) eqn:G, (f a) eqn:Ff; cbn [filter]; rewrite ?G, ?Ff, IH; reflexivity.
Qed.

Lemma rows_of_plain e : filter plain_row (rows_of true e) = rows_of false e.
Proof.
  unfold rows_of. cbn [filter plain_row snd]. f_equal.
  destruct (e_node e) as [? ? ? [ms|]|? ? ?|? ? ? ? ?]; try reflexivity.
  induction ms as [|m ms IH]; [reflexivity|exact IH].
Qed.

Theorem T5e_archives accept mn mx es :
  filter plain_row (spec_rows accept true mn mx es) = spec_rows accept false mn mx es.
Proof.
  unfold spec_rows. rewrite filter_comm. f_equal. rewrite filter_flat_map.
  apply flat_map_ext. intros e. apply rows_of_plain.
Qed.

(* ---------- ancestry-carrying pre-order ---------- *)
Section A.
Variable mx : N.

Fixpoint preA (ign : bool) (F : nat) (d : N) (dir : str) (anc : list node) (k : node) : list (list node * entry) :=
  match F with
  | O => []
  | S f =>
    if hidden ign k then []
    else let p := join_path dir (nname k) in
         (anc, (d, p, k)) ::
         (if (mx =? 0) || (d <? mx) then flat_map (preA ign f (d + 1) p (anc ++ [k])) (kids_of k) else [])
  end.

(* forgetting the ancestry gives the pre-order of the spec *)
Lemma preA_forget ign : forall F d dir anc kids,
  map snd (flat_map (preA ign F d dir anc) kids) = flat_map (pre_node ign F mx d dir) kids.
Proof.
  induction F as [|F IH]; intros d dir anc kids.
  - rewrite pre_node_0. induction kids; [reflexivity|assumption].
  - induction kids as [|k ks IHks]; [reflexivity|]. cbn [flat_map]. rewrite map_app, IHks, pre_node_S. f_equal.
    cbn [preA]. destruct (hidden ign k); [reflexivity|]. cbn [map snd]. f_equal.
    destruct ((mx =? 0) || (d <? mx)); [apply IH|reflexivity].
Qed.

(* every entry below `anc` has `anc` as a prefix of its ancestry *)
Lemma preA_prefix ign : forall F d dir anc kids ae,
  In ae (flat_map (preA ign F d dir anc) kids) -> exists t, fst ae = anc ++ t.
Proof.
  induction F as [|F IH]; intros d dir anc kids ae H.
  - exfalso. induction kids; [exact H|auto].
  - apply in_flat_map in H. destruct H as [k [_ H]]. cbn [preA] in H.
    destruct (hidden ign k); [destruct H|]. destruct H as [<-|H]; [exists []; now rewrite app_nil_r|].
    destruct ((mx =? 0) || (d <? mx)); [|destruct H].
    apply IH in H. destruct H as [t Ht]. exists ([k] ++ t). now rewrite Ht, app_assoc.
Qed.

Lemma filter_none {A} (f : A -> bool) l : (forall a, In a l -> f a = false) -> filter f l = [].
Proof.
  induction l as [|a l IH]; intros H; [reflexivity|]. cbn [filter]. rewrite (H a) by now left.
  apply IH. intros b Hb. apply H. now right.
Qed.

(* ---------- (e) ignore pruning (C20) ---------- *)
Definition not_ign (k : node) : bool := negb (nign k).
Definition unignored (ae : list node * entry) : bool := forallb not_ign (fst ae ++ [e_node (snd ae)]).

Lemma pruned_is_filter : forall F d dir anc kids, forallb not_ign anc = true ->
  flat_map (pre_node true F mx d dir) kids =
  map snd (filter unignored (flat_map (preA false F d dir anc) kids)).
Proof.
  induction F as [|F IH]; intros d dir anc kids Ha.
  - rewrite pre_node_0. induction kids; [reflexivity|assumption].
  - induction kids as [|k ks IHks]; [reflexivity|]. cbn [flat_map]. rewrite filter_app, map_app, <- IHks, pre_node_S. f_equal.
    cbn [preA]. unfold hidden. cbn [andb filter]. unfold unignored at 1. cbn [fst snd e_node].
    rewrite forallb_app, Ha. cbn [forallb andb]. unfold not_ign at 1. rewrite andb_true_r.
    destruct (nign k) eqn:G; cbn [negb].
    + (* ignored: nothing below it survives *)
      rewrite filter_none; [reflexivity|]. intros ae Hae.
      destruct ((mx =? 0) || (d <? mx)); [|destruct Hae].
      apply preA_prefix in Hae. destruct Hae as [t Ht]. unfold unignored. rewrite Ht.
      rewrite <- !app_assoc, !forallb_app. cbn [forallb]. unfold not_ign at 2. rewrite G. cbn. now rewrite andb_false_r.
    + cbn [map snd]. f_equal. destruct ((mx =? 0) || (d <? mx)); [|reflexivity].
      apply IH. rewrite forallb_app, Ha. cbn. unfold not_ign. now rewrite G.
Qed.

Theorem T5e_ignore F dir kids :
  preorder true F mx dir kids = map snd (filter unignored (flat_map (preA false F 1 dir []) kids)) /\
  preorder false F mx dir kids = map snd (flat_map (preA false F 1 dir []) kids).
Proof. split; [now apply pruned_is_filter|symmetry; apply preA_forget]. Qed.

(* ---------- (d) fault isolation (C17) ---------- *)
Variable bad : N -> bool.       (* the directories (by inode) that cannot be listed in the faulty run *)

Fixpoint blind (n : node) : node :=
  match n with
  | NDir a i g l kk => NDir a i g (l && negb (bad i)) (map blind kk)
  | _ => n
  end.
Definition blind_e (e : entry) : entry := (e_depth e, e_path e, blind (e_node e)).
Definition is_bad (k : node) : bool := match k with NDir _ i _ _ _ => bad i | _ => false end.
Definition reachable (ae : list node * entry) : bool := forallb (fun a => negb (is_bad a)) (fst ae).

Lemma blind_name k : nname (blind k) = nname k. Proof. destruct k; reflexivity. Qed.
Lemma blind_hidden ign k : hidden ign (blind k) = hidden ign k. Proof. destruct k; reflexivity. Qed.

Lemma blinded_is_filter ign : forall F d dir anc kids, forallb (fun a => negb (is_bad a)) anc = true ->
  flat_map (pre_node ign F mx d dir) (map blind kids) =
  map blind_e (map snd (filter reachable (flat_map (preA ign F d dir anc) kids))).
Proof.
  induction F as [|F IH]; intros d dir anc kids Ha.
  - rewrite pre_node_0. induction kids; [reflexivity|assumption].
  - induction kids as [|k ks IHks]; [reflexivity|]. cbn [flat_map map]. rewrite filter_app, !map_app, <- IHks, pre_node_S. f_equal.
    cbn [preA]. rewrite blind_hidden, blind_name. destruct (hidden ign k); [reflexivity|].
    cbn [filter]. unfold reachable at 1. cbn [fst]. rewrite Ha. cbn [map snd]. unfold blind_e at 1. cbn [e_depth e_path e_node fst snd].
    f_equal. destruct ((mx =? 0) || (d <? mx)); [|reflexivity].
    destruct k as [a i g z|a i g|a i g l kk]; try reflexivity. cbn [blind kids_of].
    destruct l; cbn [andb kids_of]; [|reflexivity].
    destruct (bad i) eqn:B; cbn [negb kids_of].
    + rewrite filter_none; [reflexivity|]. intros ae Hae. apply preA_prefix in Hae. destruct Hae as [t Ht].
      unfold reachable. rewrite Ht, <- !app_assoc, !forallb_app. cbn [forallb app is_bad]. rewrite B. cbn. now rewrite andb_false_r.
    + apply IH. rewrite forallb_app, Ha. cbn [forallb is_bad]. now rewrite B.
Qed.

Lemma rows_of_blind arc e : rows_of arc (blind_e e) = rows_of arc e.
Proof. unfold rows_of, blind_e. cbn [e_path e_node fst snd]. destruct (e_node e) as [? ? ? [?|]|? ? ?|? ? ? ? ?]; reflexivity. Qed.

Lemma spec_rows_blind accept arc mn es :
  spec_rows accept arc mn mx (map blind_e es) = spec_rows accept arc mn mx es.
Proof.
  unfold spec_rows. f_equal. induction es as [|e es IH]; [reflexivity|]. cbn [map filter].
  replace (in_window mn mx (blind_e e)) with (in_window mn mx e) by reflexivity.
  destruct (in_window mn mx e); [cbn [flat_map]; now rewrite IH, rows_of_blind|exact IH].
Qed.

(* rows of the faulty tree = rows of the fault-free listing minus what lies strictly below a failed directory *)
Theorem T5d_fault_rows accept arc mn ign F dir kids :
  spec_rows accept arc mn mx (preorder ign F mx dir (map blind kids)) =
  spec_rows accept arc mn mx (map snd (filter reachable (flat_map (preA ign F 1 dir []) kids)))
  /\ spec_rows accept arc mn mx (preorder ign F mx dir kids) =
     spec_rows accept arc mn mx (map snd (flat_map (preA ign F 1 dir []) kids)).
Proof.
  split; [|now rewrite preA_forget].
  unfold preorder. rewrite (blinded_is_filter ign F 1 dir [] kids eq_refl). apply spec_rows_blind.
Qed.

(* the errors of the faulty run: the reachable directories that are unlistable in the faulty tree
   (originally unlistable, or failed) and inside the descend bound *)
Theorem T5d_fault_errs ign F dir kids :
  failing mx (preorder ign F mx dir (map blind kids)) =
  flat_map (fun e => match e_node e with
                     | NDir _ i _ l _ => if (negb l || bad i) && ((mx =? 0) || (e_depth e <? mx)) then [e_path e] else []
                     | _ => [] end)
           (map snd (filter reachable (flat_map (preA ign F 1 dir []) kids))).
Proof.
  unfold preorder. rewrite (blinded_is_filter ign F 1 dir [] kids eq_refl). unfold failing.
  rewrite flat_map_map. apply flat_map_ext. intros e. unfold blind_e. cbn [e_node e_depth e_path fst snd].
  destruct (e_node e) as [? ? ? ?|? ? ?|a i g l kk]; try reflexivity. cbn [blind].
  destruct l, (bad i); reflexivity.
Qed.

(* the well-formedness hypotheses of T1/T2 carry over to the faulty tree *)
Lemma blind_inodes kids : inodes_of (map blind kids) = inodes_of kids.
Proof.
  unfold inodes_of. induction kids as [|k ks IH]; [reflexivity|]. cbn [map flat_map]. rewrite IH. f_equal.
  clear IH. induction k as [| |a i g l kk IHk] using node_ind2; try reflexivity.
  cbn [blind inodes_node]. f_equal. induction IHk as [|k' kk' Hk _ IHkk]; [reflexivity|].
  cbn [map flat_map]. now rewrite Hk, IHkk.
Qed.

Lemma blind_names_ok kids : names_ok kids -> names_ok (map blind kids).
Proof.
  unfold names_ok. intros H. rewrite forallb_forall in *. intros k' Hk'. apply in_map_iff in Hk'.
  destruct Hk' as [k [<- Hk]]. specialize (H k Hk). clear Hk. revert H.
  induction k as [| |a i g l kk IHk] using node_ind2; try (intros H; exact H).
  cbn [blind node_names_ok nname]. intros H. apply andb_true_iff in H. destruct H as [H1 H2]. rewrite H1. cbn [andb].
  rewrite forallb_forall in *. intros k' Hk'. apply in_map_iff in Hk'. destruct Hk' as [k [<- Hk]].
  rewrite Forall_forall in IHk. apply IHk; [exact Hk|]. now apply H2.
Qed.

Lemma blind_height k : height (blind k) = height k.
Proof.
  induction k as [| |a i g l kk IHk] using node_ind2; try reflexivity.
  cbn [blind height]. f_equal. induction IHk as [|k' kk' Hk _ IHkk]; [reflexivity|].
  cbn [map fold_right]. now rewrite Hk, IHkk.
Qed.

Lemma blind_hts kk : hts (map blind kk) = hts kk.
Proof. induction kk as [|k ks IH]; [reflexivity|]. cbn [map]. now rewrite !hts_cons, blind_height, IH. Qed.

Lemma blind_nodes k : nodes (blind k) = nodes k.
Proof.
  induction k as [| |a i g l kk IHk] using node_ind2; try reflexivity.
  cbn [blind nodes]. f_equal. induction IHk as [|k' kk' Hk _ IHkk]; [reflexivity|].
  cbn [map fold_right]. now rewrite Hk, IHkk.
Qed.

End A.

(* C17 on the walk itself (DFS): the faulty run prints the fault-free rows that are not strictly below a
   failed directory, and names each failed reachable directory once *)
Theorem C17_dfs accept buffered o bad fuel F nm i g kk p c s0 :
  o_dfs o = true ->
  (height (NDir nm i g true kk) <= fuel)%nat -> (height (NDir nm i g true kk) <= F)%nat ->
  canon_ok c -> names_ok kk -> NoDup (i :: inodes_of kk) ->
  (forall x, In x (vis s0) -> ~ In x (i :: inodes_of kk)) ->
  let surviving := map snd (filter (reachable bad) (flat_map (preA (o_max o) (o_ign o) F 1 p []) kk)) in
  exists s1, walk_root accept buffered 0 o fuel p c (NDir nm i g true (map (blind bad) kk)) s0 = Some s1 /\
    out s1 = out s0 ++ spec_rows accept (o_arc o) (o_min o) (o_max o) surviving /\
    errs s1 = errs s0 ++
      flat_map (fun e => match e_node e with
                         | NDir _ j _ l _ => if (negb l || bad j) && ((o_max o =? 0) || (e_depth e <? o_max o)) then [e_path e] else []
                         | _ => [] end) surviving.
Proof.
  intros Hd Hf HF Hc Hn Hnd Hfr surviving.
  assert (HH : height (NDir nm i g true (map (blind bad) kk)) = height (NDir nm i g true kk)) by (rewrite !height_dir; now rewrite blind_hts).
  destruct (T1_dfs accept buffered o fuel F nm i g (map (blind bad) kk) p c s0 Hd) as [s1 [E [Ho [He _]]]].
  - now rewrite HH.
  - now rewrite HH.
  - exact Hc.
  - now apply blind_names_ok.
  - now rewrite blind_inodes.
  - now rewrite blind_inodes.
  - exists s1. split; [exact E|]. split.
    + rewrite Ho. f_equal. apply (proj1 (T5d_fault_rows (o_max o) bad accept (o_arc o) (o_min o) (o_ign o) F p kk)).
    + rewrite He. f_equal. apply T5d_fault_errs.
Qed.


(* ---------- the same corollaries on the walk (from the initial state, no limit) ---------- *)
Definition set_dfs (b : bool) (o : opts) : opts :=
  {| o_min := o_min o; o_max := o_max o; o_dfs := b; o_arc := o_arc o; o_ign := o_ign o |}.
Definition set_arc (b : bool) (o : opts) : opts :=
  {| o_min := o_min o; o_max := o_max o; o_dfs := o_dfs o; o_arc := b; o_ign := o_ign o |}.

Section W.
Variables (accept : row -> bool) (buffered : bool) (o : opts) (fuel : nat).
Variables (nm : str) (i : N) (g : bool) (kk : list node) (p c : str).
Hypothesis Hfuel : (nodes (NDir nm i g true kk) <= fuel)%nat.
Hypothesis Hc : canon_ok c.
Hypothesis Hn : names_ok kk.
Hypothesis Hnd : NoDup (i :: inodes_of kk).
Let root := NDir nm i g true kk.
Let F := height root.

Lemma Hfuel_h : (height root <= fuel)%nat.
Proof. pose proof (WalkRoots.height_le_nodes root). unfold root in *. lia. Qed.

Lemma st0_fresh : forall x, In x (vis st0) -> ~ In x (i :: inodes_of kk).
Proof. intros x []. Qed.

(* (a) BFS and DFS print the same rows and the same errors, up to order *)
Theorem T5a_walk :
  exists sd sb, walk_root accept buffered 0 (set_dfs true o) fuel p c root st0 = Some sd /\
                walk_root accept buffered 0 (set_dfs false o) fuel p c root st0 = Some sb /\
                Permutation (out sb) (out sd) /\ Permutation (errs sb) (errs sd).
Proof.
  destruct (T1_dfs accept buffered (set_dfs true o) fuel F nm i g kk p c st0 eq_refl Hfuel_h (le_n _) Hc Hn Hnd st0_fresh)
    as [sd [Ed [Od [Erd _]]]].
  destruct (T2_bfs accept buffered (set_dfs false o) fuel F nm i g kk p c st0 eq_refl Hfuel (le_n _) Hc Hn Hnd st0_fresh)
    as [sb [Eb [Ob [Erb _]]]].
  exists sd, sb. split; [exact Ed|]. split; [exact Eb|]. rewrite Od, Ob, Erd, Erb. cbn [st0 out errs app set_dfs o_min o_max o_arc o_ign].
  split; [apply T5a_rows_perm|apply T5a_failing_perm].
Qed.

(* (e) C19: switching archive search on only adds member rows (DFS; the BFS statement is identical with T2) *)
Theorem C19_walk_dfs : o_dfs o = true ->
  exists s1 s2, walk_root accept buffered 0 (set_arc true o) fuel p c root st0 = Some s1 /\
                walk_root accept buffered 0 (set_arc false o) fuel p c root st0 = Some s2 /\
                filter plain_row (out s1) = out s2 /\ errs s1 = errs s2.
Proof.
  intros Hd.
  destruct (T1_dfs accept buffered (set_arc true o) fuel F nm i g kk p c st0 Hd Hfuel_h (le_n _) Hc Hn Hnd st0_fresh)
    as [s1 [E1 [O1 [Er1 _]]]].
  destruct (T1_dfs accept buffered (set_arc false o) fuel F nm i g kk p c st0 Hd Hfuel_h (le_n _) Hc Hn Hnd st0_fresh)
    as [s2 [E2 [O2 [Er2 _]]]].
  exists s1, s2. split; [exact E1|]. split; [exact E2|]. rewrite O1, O2, Er1, Er2.
  cbn [st0 out errs app set_arc o_min o_max o_arc o_ign]. split; [apply T5e_archives|reflexivity].
Qed.

(* (e) C20: with an ignore option, exactly the entries without an ignored ancestor-or-self are listed *)
Theorem C20_walk_dfs : o_dfs o = true -> o_ign o = true ->
  exists s1, walk_root accept buffered 0 o fuel p c root st0 = Some s1 /\
    out s1 = spec_rows accept (o_arc o) (o_min o) (o_max o)
               (map snd (filter unignored (flat_map (preA (o_max o) false F 1 p []) kk))).
Proof.
  intros Hd Hi.
  destruct (T1_dfs accept buffered o fuel F nm i g kk p c st0 Hd Hfuel_h (le_n _) Hc Hn Hnd st0_fresh)
    as [s1 [E1 [O1 _]]].
  exists s1. split; [exact E1|]. rewrite O1, Hi. cbn [st0 out app]. f_equal. apply T5e_ignore.
Qed.
End W.

Print Assumptions T5a_perm.
Print Assumptions T5a_rows_perm.
Print Assumptions T5b_bfs_depth_sorted.
Print Assumptions T5c_dfs_contiguous.
Print Assumptions T5e_archives.
Print Assumptions T5e_ignore.
Print Assumptions T5d_fault_rows.
Print Assumptions T5d_fault_errs.
Print Assumptions C17_dfs.
Print Assumptions T5a_walk.
Print Assumptions C19_walk_dfs.
Print Assumptions C20_walk_dfs.
