(* Shared by the per-format proof files: boolean side conditions on tables (with their
   reflection lemmas) and equations for [join]. *)
From Coq Require Import String List NArith Bool.
From FS Require Import lib.Str model.Format.
Import ListNotations.
Open Scope N_scope.

(* ---- boolean side conditions ------------------------------------------------------- *)

Fixpoint mem_str (x : str) (l : list str) : bool :=
  match l with [] => false | y :: r => str_eqb x y || mem_str x r end.
Fixpoint nodupb (l : list str) : bool :=
  match l with [] => true | x :: r => negb (mem_str x r) && nodupb r end.

Lemma mem_str_In x l : mem_str x l = true <-> In x l.
Proof.
  induction l as [|y r IH]; cbn [mem_str In]; [split; [discriminate | intros []]|].
  rewrite orb_true_iff, IH, str_eqb_eq. split; intros [H|H]; auto.
Qed.

Lemma nodupb_NoDup l : nodupb l = true -> NoDup l.
Proof.
  induction l as [|x r IH]; cbn [nodupb]; intros H; [constructor|].
  apply andb_true_iff in H. destruct H as [H1 H2]. constructor; [|now apply IH].
  intros HIn. apply mem_str_In in HIn. rewrite HIn in H1. discriminate.
Qed.

(* every row has pairwise distinct column names *)
Definition distinct_keys (t : table) : Prop := Forall (fun r => NoDup (map fst r)) t.
Definition distinct_keysb (t : table) : bool := forallb (fun r => nodupb (map fst r)) t.
Lemma distinct_keysb_ok t : distinct_keysb t = true -> distinct_keys t.
Proof.
  unfold distinct_keysb, distinct_keys. rewrite forallb_forall, Forall_forall.
  intros H r Hr. apply nodupb_NoDup, H, Hr.
Qed.

(* no value of the table contains a character satisfying [bad] *)
Definition values_avoid (bad : N -> bool) (t : table) : bool :=
  forallb (fun r => forallb (fun kv => forallb (fun c => negb (bad c)) (snd kv)) r) t.

(* every row has exactly n columns *)
Definition ncols_is (n : nat) (t : table) : bool :=
  forallb (fun r => Nat.eqb (length r) n) t.
Definition rows_nonempty (t : table) : bool :=
  forallb (fun r => negb (Nat.eqb (length r) 0)) t.

(* the values of a table, column names dropped *)
Definition values (t : table) : list (list str) := map (map snd) t.

(* ---- join ---------------------------------------------------------------------------- *)

Lemma join_one (sep a : str) : join sep [a] = a.
Proof. reflexivity. Qed.
Lemma join_cons2 (sep a b : str) l : join sep (a :: b :: l) = a ++ sep ++ join sep (b :: l).
Proof. reflexivity. Qed.

(* a format without row separator just concatenates its rows *)
Lemma join_nil_sep (l : list str) : join [] l = concat l.
Proof.
  induction l as [|x l IH]; [reflexivity|].
  destruct l as [|y l].
  - cbn [concat]. rewrite join_one, app_nil_r. reflexivity.
  - rewrite join_cons2, IH. reflexivity.
Qed.
