(* T2 / T4 (breadth-first): the root visit followed by the drain loop, from any state, appends
   exactly the rows of the level-order listing the limit still has room for. *)
From Coq Require Import List NArith Bool Lia ZifyBool Arith.
From FS Require Import lib.Str gen.GatesGen model.Walk spec.WalkSpec proofs.WalkBase.
Import ListNotations.
Open Scope N_scope.
Arguments N.add : simpl never.
Arguments N.sub : simpl never.
Arguments N.eqb : simpl never.
Arguments N.ltb : simpl never.
Arguments N.leb : simpl never.

(* entries that also carry the canonical path the walk computes for them *)
Definition xentry := (N * str * str * node)%type.
Definition xd (x : xentry) : N := fst (fst (fst x)).
Definition xp (x : xentry) : str := snd (fst (fst x)).
Definition xc (x : xentry) : str := snd (fst x).
Definition xn (x : xentry) : node := snd x.
Definition forget (x : xentry) : entry := (xd x, xp x, xn x).

Definition top1 (k : node) : list N :=
  match k with NFile _ _ _ _ => [] | NLink _ i _ => [i] | NDir _ i _ _ _ => [i] end.
Definition tops (kids : list node) : list N := flat_map top1 kids.
Definition below1 (k : node) : list N :=
  match k with NDir _ _ _ _ kk => inodes_of kk | _ => [] end.
Definition belows (kids : list node) : list N := flat_map below1 kids.

Definition set_queue (q : list (str * str * node)) (s : wst) : wst :=
  {| found := found s; vis := vis s; queue := q; errs := errs s; out := out s |}.
Lemma set_queue_id s : set_queue (queue s) s = s.
Proof. destruct s; reflexivity. Qed.

Definition isdir (it : str * str * node) : Prop := match snd it with NDir _ _ _ _ _ => True | _ => False end.

Ltac fin_eq := cbn [spec_rows filter flat_map failing app map e_node e_path e_depth fst snd];
               rewrite ?app_nil_r; reflexivity.

Section B.
Variable accept : row -> bool.
Variable buffered : bool.
Variable limit : N.
Variable o : opts.
Hypothesis Hbfs : o_dfs o = false.

Notation visit := (visit accept buffered limit o).
Notation drain := (drain accept buffered limit o).
Notation post := (post buffered limit).
Notation sat := (sat buffered limit).
Notation take := (take buffered limit).
Notation lim_on := (lim_on buffered limit).
Notation step_k := (step_k accept buffered limit o).
Notation rows := (spec_rows accept (o_arc o) (o_min o) (o_max o)).
Notation ptrans := (post_trans _ _ _ _ _ _ _ _ _ _ _ _ _).

Definition gate (d : N) : bool := (o_max o =? 0) || (d <? o_max o).
Definition xkids (dir canon : str) (d : N) (kids : list node) : list xentry :=
  map (fun k => (d, join_path dir (nname k), join_path canon (nname k), k))
      (filter (fun k => negb (hidden (o_ign o) k)) kids).
Definition xchildren (x : xentry) : list xentry :=
  if gate (xd x) then xkids (xp x) (xc x) (xd x + 1) (kids_of (xn x)) else [].
Definition pushed (x : xentry) : list (str * str * node) :=
  match xn x with NDir _ _ _ _ _ => if gate (xd x) then [(xp x, xc x, xn x)] else [] | _ => [] end.
Definition qof (xl : list xentry) : list (str * str * node) := flat_map pushed xl.

Lemma xkids_cons dir canon d k ks :
  xkids dir canon d (k :: ks) =
  (if hidden (o_ign o) k then [] else [(d, join_path dir (nname k), join_path canon (nname k), k)]) ++ xkids dir canon d ks.
Proof. unfold xkids. cbn [filter]. destruct (hidden (o_ign o) k); reflexivity. Qed.

Lemma xkids_app dir canon d a b : xkids dir canon d (a ++ b) = xkids dir canon d a ++ xkids dir canon d b.
Proof. unfold xkids. now rewrite filter_app, map_app. Qed.

Lemma qof_app a b : qof (a ++ b) = qof a ++ qof b.
Proof. apply flat_map_app. Qed.

Lemma level_children_forget xl :
  level_children (o_ign o) (o_max o) (map forget xl) = map forget (flat_map xchildren xl).
Proof.
  unfold level_children. induction xl as [|x xl IH]; [reflexivity|].
  cbn [map flat_map]. rewrite map_app, IH. f_equal.
  unfold xchildren, gate, xkids, forget at 1 2 3 4. cbn [e_depth e_path e_node fst snd].
  destruct ((o_max o =? 0) || (xd x <? o_max o)); [|reflexivity]. now rewrite map_map.
Qed.

(* ---------- one entry, one directory ---------- *)
Lemma step_bfs f dir canon rd d k s :
  name_okb (nname k) = true -> depth_inv canon rd d -> (o_max o = 0 \/ d <= o_max o) ->
  fresh (vis s) (top1 k) -> sat s = false ->
  exists s', step_k f dir canon rd k s = Some s' /\
    post s s' (rows (map forget (xkids dir canon d [k]))) [] (top1 k) (qof (xkids dir canon d [k])).
Proof.
  intros Hnm Hd Hw Hfr Hs.
  unfold WalkBase.step_k. destruct Hd as [D1 [D2 [D3 D4]]]. rewrite D4.
  rewrite xkids_cons. unfold hidden.
  destruct (o_ign o && nign k); [eexists; split; [reflexivity|apply post_refl]|].
  set (p := join_path dir (nname k)).
  set (s1 := if gate_report (o_min o) d then report accept buffered limit o p k s else s).
  assert (P1 : post s s1 (if gate_report (o_min o) d then filter accept (rows_of (o_arc o) (d, p, k)) else []) [] [] []).
  { unfold s1. destruct (gate_report (o_min o) d); [now apply report_post|apply post_refl]. }
  assert (V1 : vis s1 = vis s) by exact (post_vis_nil _ _ _ _ _ _ _ P1).
  cbn [map app]. unfold forget at 1. cbn [xd xp xn fst snd]. fold p.
  rewrite spec_rows_cons, (in_window_gate _ _ _ _ _ Hw).
  unfold qof. cbn [flat_map]. unfold pushed. cbn [xd xp xc xn fst snd].
  rewrite gate_descend_eq. fold (gate d). destruct (gate d) eqn:G.
  2:{ exists s1. split; [reflexivity|].
      assert (Q0 : match k with NDir _ _ _ _ _ => @nil (str * str * node) | _ => [] end = []) by (destruct k; reflexivity).
      rewrite Q0. eapply post_eq; [| |eapply post_weaken; [|exact P1]]; [fin_eq|reflexivity|intros ? []]. }
  destruct k as [a i g z|a i g|a i g l kk]; cbn [top1] in *.
  - exists s1. split; [reflexivity|]. eapply post_eq; [| |exact P1]; [fin_eq|reflexivity].
  - rewrite ok_to_visit_fresh by (rewrite V1; intro Hi; apply (Hfr i Hi); now left). cbn [snd nino].
    eexists. split; [reflexivity|].
    pose proof (ptrans P1 (post_visited buffered limit s1 i)) as P.
    eapply post_eq; [| |exact P]; [fin_eq|reflexivity].
  - rewrite ok_to_visit_fresh by (rewrite V1; intro Hv; apply (Hfr i Hv); now left).
    cbn [fst snd nino nname]. rewrite Hbfs.
    eexists. split; [reflexivity|].
    pose proof (ptrans (ptrans P1 (post_visited buffered limit s1 i)) (post_push buffered limit _ (p, join_path canon a, NDir a i g l kk))) as P.
    eapply post_eq; [| |exact P]; [fin_eq|reflexivity].
Qed.

Lemma visit_bfs f dir canon rd d kids : forall s,
  names_ok kids -> depth_inv canon rd d -> (o_max o = 0 \/ d <= o_max o) ->
  NoDup (tops kids) -> fresh (vis s) (tops kids) ->
  exists s', visit (S f) dir canon true kids rd s = Some s' /\
    post s s' (rows (map forget (xkids dir canon d kids))) [] (tops kids) (qof (xkids dir canon d kids)).
Proof.
  induction kids as [|k ks IHks]; intros s Hn Hd Hw Hnd Hfr.
  - exists s. split; [apply visit_nil|apply post_refl].
  - rewrite visit_cons. destruct (sat s) eqn:Hs.
    { exists s. split; [reflexivity|]. now apply post_sat. }
    pose proof (names_ok_cons _ _ Hn) as [Hnm [Hnks _]].
    unfold tops in Hnd, Hfr. cbn [flat_map] in Hnd, Hfr. fold (tops ks) in Hnd, Hfr.
    apply NoDup_app_iff in Hnd. destruct Hnd as [Nk [Nks Ndis]].
    destruct (step_bfs f dir canon rd d k s Hnm Hd Hw) as [s1 [E1 P1]]; [|exact Hs|].
    { intros x Hx Hk. apply (Hfr x Hx). apply in_or_app. now left. }
    rewrite E1.
    destruct (IHks s1 Hnks Hd Hw Nks) as [s2 [E2 P2]].
    { eapply post_fresh; [exact P1| |].
      - intros x Hx Hk. apply (Hfr x Hx). apply in_or_app. now right.
      - intros x Hx Hk. exact (Ndis x Hx Hk). }
    exists s2. split; [exact E2|].
    pose proof (ptrans P1 P2) as P.
    change (k :: ks) with ([k] ++ ks). rewrite xkids_app, map_app, spec_rows_app, qof_app.
    exact P.
Qed.


(* ---------- inode bookkeeping across levels ---------- *)
Definition xbelow (xl : list xentry) : list N := flat_map (fun x => below1 (xn x)) xl.
Definition ktops (x : xentry) : list N := match xn x with NDir _ _ _ true kk => tops kk | _ => [] end.
Definition xtops (xl : list xentry) : list N := flat_map ktops xl.

Lemma incl_flat_map {A C} (f g : A -> list C) l : (forall a, incl (g a) (f a)) -> incl (flat_map g l) (flat_map f l).
Proof.
  intros H. induction l as [|a l IH]; [intros ? []|]. cbn [flat_map]. intros x Hx.
  apply in_app_or in Hx. apply in_or_app. destruct Hx; [left; now apply H|right; now apply IH].
Qed.

Lemma incl_flat_map_filter {A C} (g : A -> list C) p l : incl (flat_map g (filter p l)) (flat_map g l).
Proof.
  induction l as [|a l IH]; [intros ? []|]. cbn [filter flat_map]. intros x Hx.
  destruct (p a); [cbn [flat_map] in Hx; apply in_app_or in Hx|]; apply in_or_app; [destruct Hx; [now left|right; now apply IH]|right; now apply IH].
Qed.

Lemma NoDup_flat_map_sub {A C} (f g : A -> list C) p l :
  (forall a, incl (g a) (f a)) -> (forall a, NoDup (f a) -> NoDup (g a)) ->
  NoDup (flat_map f l) -> NoDup (flat_map g (filter p l)).
Proof.
  intros Hi Hn. induction l as [|a l IH]; intros H; [constructor|]. cbn [flat_map filter] in *.
  apply NoDup_app_iff in H. destruct H as [Na [Nl D]]. destruct (p a); [|now apply IH].
  cbn [flat_map]. apply NoDup_app_iff. repeat split; [now apply Hn|now apply IH|].
  intros x Hx Hy. apply (D x); [now apply Hi|]. apply (incl_flat_map f g l Hi). now apply (incl_flat_map_filter g p l).
Qed.

Lemma top1_incl k : incl (top1 k) (inodes_node k).
Proof. destruct k; cbn; intros x Hx; [exact Hx|exact Hx|]. destruct Hx as [<-|[]]. now left. Qed.
Lemma below1_incl k : incl (below1 k) (inodes_node k).
Proof. destruct k; cbn [below1 inodes_node]; intros x Hx; try destruct Hx. right. exact Hx. Qed.
Lemma tops_incl kids : incl (tops kids) (inodes_of kids).
Proof. apply incl_flat_map, top1_incl. Qed.
Lemma belows_incl kids : incl (belows kids) (inodes_of kids).
Proof. apply incl_flat_map, below1_incl. Qed.

Lemma tops_nodup kids : NoDup (inodes_of kids) -> NoDup (tops kids).
Proof.
  intros H.
  assert (F : filter (fun _ : node => true) kids = kids) by (clear H; induction kids as [|k ks IH]; [reflexivity|cbn; now rewrite IH]).
  unfold tops. rewrite <- F. apply (NoDup_flat_map_sub inodes_node top1); [apply top1_incl| |exact H].
  intros k Hk. destruct k; cbn [top1]; repeat constructor; intros [].
Qed.

Lemma belows_filter_nodup p kids : NoDup (inodes_of kids) -> NoDup (belows (filter p kids)).
Proof.
  apply (NoDup_flat_map_sub inodes_node below1); [apply below1_incl|].
  intros k Hk. destruct k; cbn [below1 inodes_node] in *; try constructor. now apply NoDup_cons_iff in Hk.
Qed.

Lemma tops_belows_disj kids : NoDup (inodes_of kids) -> forall x, In x (tops kids) -> In x (belows kids) -> False.
Proof.
  induction kids as [|k ks IH]; intros H x Ht Hb; [destruct Ht|].
  unfold inodes_of, tops, belows in *. cbn [flat_map] in *.
  apply NoDup_app_iff in H. destruct H as [Nk [Nks D]].
  apply in_app_or in Ht. apply in_app_or in Hb. destruct Ht as [Ht|Ht], Hb as [Hb|Hb].
  - destruct k; cbn [top1 below1 inodes_node] in *; try destruct Hb.
    destruct Ht as [<-|[]]. apply NoDup_cons_iff in Nk. now apply (proj1 Nk).
  - apply (D x); [now apply top1_incl|now apply belows_incl].
  - apply (D x); [now apply below1_incl|now apply tops_incl].
  - now apply (IH Nks x).
Qed.

Lemma xbelow_xkids dir canon d kids :
  xbelow (xkids dir canon d kids) = belows (filter (fun k => negb (hidden (o_ign o) k)) kids).
Proof. unfold xbelow, xkids, belows. rewrite flat_map_map. reflexivity. Qed.

Lemma xchildren_dir x : xchildren x <> [] -> exists a i g kk, xn x = NDir a i g true kk /\ gate (xd x) = true /\
  xchildren x = xkids (xp x) (xc x) (xd x + 1) kk.
Proof.
  unfold xchildren. destruct (gate (xd x)); [|congruence].
  destruct (xn x) as [? ? ? ?|? ? ?|a i g [|] kk]; cbn [kids_of]; try (intros H; now elim H).
  intros _. now exists a, i, g, kk.
Qed.

Lemma xchildren_cases x :
  (exists a i g kk, xn x = NDir a i g true kk /\ gate (xd x) = true /\ xchildren x = xkids (xp x) (xc x) (xd x + 1) kk)
  \/ xchildren x = [].
Proof.
  destruct (xchildren x) eqn:E; [now right|]. left. rewrite <- E. apply xchildren_dir. rewrite E. discriminate.
Qed.

Lemma child_below_incl x : incl (xbelow (xchildren x)) (below1 (xn x)).
Proof.
  destruct (xchildren_cases x) as [[a [i [g [kk [E1 [E2 E3]]]]]]|E]; [|rewrite E; intros ? []].
  rewrite E3, E1, xbelow_xkids. cbn [below1]. intros y Hy. apply belows_incl. eapply (incl_flat_map_filter below1). eassumption.
Qed.

Lemma child_below_nodup x : NoDup (below1 (xn x)) -> NoDup (xbelow (xchildren x)).
Proof.
  destruct (xchildren_cases x) as [[a [i [g [kk [E1 [E2 E3]]]]]]|E]; [|rewrite E; constructor].
  rewrite E3, E1, xbelow_xkids. cbn [below1]. apply belows_filter_nodup.
Qed.

Lemma ktops_incl x : incl (ktops x) (below1 (xn x)).
Proof. unfold ktops. destruct (xn x) as [? ? ? ?|? ? ?|a i g [|] kk]; try (intros ? []). cbn [below1]. apply tops_incl. Qed.

Lemma ktops_child_disj x : NoDup (below1 (xn x)) -> forall y, In y (ktops x) -> In y (xbelow (xchildren x)) -> False.
Proof.
  intros H y Ht Hb.
  destruct (xchildren_cases x) as [[a [i [g [kk [E1 [E2 E3]]]]]]|E]; [|rewrite E in Hb; destruct Hb].
  rewrite E3, xbelow_xkids in Hb. unfold ktops in Ht. rewrite E1 in *. cbn [below1] in H.
  apply (tops_belows_disj kk H y Ht). eapply (incl_flat_map_filter below1). eassumption.
Qed.

Lemma level_below_incl xl : incl (xbelow (flat_map xchildren xl)) (xbelow xl).
Proof.
  unfold xbelow at 1. rewrite flat_map_flat_map. apply incl_flat_map. intros x. apply child_below_incl.
Qed.

Lemma xtops_incl xl : incl (xtops xl) (xbelow xl).
Proof. apply incl_flat_map. intros x. apply ktops_incl. Qed.

Lemma xbelow_app a b : xbelow (a ++ b) = xbelow a ++ xbelow b.
Proof. apply flat_map_app. Qed.

Lemma level_below_nodup xl : NoDup (xbelow xl) -> NoDup (xbelow (flat_map xchildren xl)).
Proof.
  induction xl as [|x xl IH]; intros H; [constructor|].
  cbn [flat_map]. rewrite xbelow_app. unfold xbelow in H at 1. cbn [flat_map] in H. fold (xbelow xl) in H.
  apply NoDup_app_iff in H. destruct H as [Nx [Nl D]].
  apply NoDup_app_iff. repeat split; [now apply child_below_nodup|now apply IH|].
  intros y Hy Hz. apply (D y); [now apply child_below_incl|now apply level_below_incl].
Qed.

Lemma level_tops_disj xl : NoDup (xbelow xl) ->
  forall y, In y (xtops xl) -> In y (xbelow (flat_map xchildren xl)) -> False.
Proof.
  induction xl as [|x xl IH]; intros H y Ht Hb; [destruct Ht|].
  unfold xtops in Ht. cbn [flat_map] in Ht, Hb. fold (xtops xl) in Ht. rewrite xbelow_app in Hb.
  unfold xbelow in H at 1. cbn [flat_map] in H. fold (xbelow xl) in H.
  apply NoDup_app_iff in H. destruct H as [Nx [Nl D]].
  apply in_app_or in Ht. apply in_app_or in Hb. destruct Ht as [Ht|Ht], Hb as [Hb|Hb].
  - now apply (ktops_child_disj x Nx y).
  - apply (D y); [now apply ktops_incl|now apply level_below_incl].
  - apply (D y); [now apply child_below_incl|now apply xtops_incl].
  - now apply (IH Nl y).
Qed.

(* ---------- measures ---------- *)
Definition kw (kk : list node) : nat := fold_right (fun k a => (nodes k + a)%nat) 0%nat kk.
Definition xw (xl : list xentry) : nat := fold_right (fun x a => (nodes (xn x) + a)%nat) 0%nat xl.
Definition xhts (xl : list xentry) : nat := fold_right (fun x a => Nat.max (height (xn x)) a) 0%nat xl.

Lemma xw_app a b : xw (a ++ b) = (xw a + xw b)%nat.
Proof. induction a as [|x a IH]; [reflexivity|]. cbn [app xw fold_right] in *. fold (xw (a ++ b)) (xw a). lia. Qed.
Lemma xhts_app a b : xhts (a ++ b) = Nat.max (xhts a) (xhts b).
Proof. induction a as [|x a IH]; [reflexivity|]. cbn [app xhts fold_right] in *. fold (xhts (a ++ b)) (xhts a). lia. Qed.

Lemma xw_xkids dir canon d kk : (xw (xkids dir canon d kk) <= kw kk)%nat.
Proof.
  induction kk as [|k kk IH]; [cbn; lia|]. rewrite xkids_cons, xw_app. cbn [kw fold_right]. fold (kw kk).
  destruct (hidden (o_ign o) k); cbn [xw fold_right xn snd]; lia.
Qed.
Lemma xhts_xkids dir canon d kk : (xhts (xkids dir canon d kk) <= hts kk)%nat.
Proof.
  induction kk as [|k kk IH]; [cbn; lia|]. rewrite xkids_cons, xhts_app, hts_cons.
  destruct (hidden (o_ign o) k); cbn [xhts fold_right xn snd]; lia.
Qed.

Lemma pushed_len x : (length (pushed x) <= 1)%nat.
Proof. unfold pushed. destruct (xn x); cbn; try lia. destruct (gate (xd x)); cbn; lia. Qed.

Lemma child_weight x : (length (pushed x) + xw (xchildren x) <= nodes (xn x))%nat.
Proof.
  destruct (xchildren_cases x) as [[a [i [g [kk [E1 [E2 E3]]]]]]|E].
  - rewrite E3. pose proof (xw_xkids (xp x) (xc x) (xd x + 1) kk). pose proof (pushed_len x).
    rewrite E1. cbn [nodes]. fold (kw kk). lia.
  - rewrite E. unfold pushed. destruct (xn x); cbn; try lia. destruct (gate (xd x)); cbn; lia.
Qed.

Lemma level_weight xl : (length (qof xl) + xw (flat_map xchildren xl) <= xw xl)%nat.
Proof.
  induction xl as [|x xl IH]; [cbn; lia|]. unfold qof in *. cbn [flat_map]. rewrite app_length, xw_app.
  pose proof (child_weight x). cbn [xw fold_right]. fold (xw xl). lia.
Qed.

Lemma child_height x : (xhts (xchildren x) <= Nat.pred (height (xn x)))%nat.
Proof.
  destruct (xchildren_cases x) as [[a [i [g [kk [E1 [E2 E3]]]]]]|E]; [|rewrite E; cbn; lia].
  rewrite E3, E1, height_dir. pose proof (xhts_xkids (xp x) (xc x) (xd x + 1) kk). cbn [Nat.pred]. lia.
Qed.

Lemma level_height xl : (xhts (flat_map xchildren xl) <= Nat.pred (xhts xl))%nat.
Proof.
  induction xl as [|x xl IH]; [cbn; lia|]. cbn [flat_map]. rewrite xhts_app.
  pose proof (child_height x). cbn [xhts fold_right]. fold (xhts xl). lia.
Qed.

Lemma height0_leaf xl : xhts xl = 0%nat -> flat_map xchildren xl = [] /\ qof xl = [].
Proof.
  induction xl as [|x xl IH]; [now split|]. cbn [xhts fold_right]. fold (xhts xl). intros H.
  destruct IH as [I1 I2]; [lia|]. unfold qof in *. cbn [flat_map]. rewrite I1, I2.
  assert (Hx : height (xn x) = 0%nat) by lia.
  unfold xchildren, pushed. destruct (xn x) as [? ? ? ?|? ? ?|? ? ? ? ?]; [| |rewrite height_dir in Hx; lia];
    cbn [kids_of]; unfold xkids; cbn; destruct (gate (xd x)); now split.
Qed.


(* ---------- queue-agnostic delta ---------- *)
Definition post0 (s s' : wst) (R : list row) (E : list str) (I : list N) : Prop :=
  post (set_queue [] s) (set_queue [] s') R E I [].

Lemma post0_of_post s s' R E I Q : post s s' R E I Q -> post0 s s' R E I.
Proof.
  intros [Ao Af Av _ Ae]. constructor; cbn [set_queue out found vis queue errs]; try assumption.
  exists []. split; [reflexivity|]. split; [cbn; lia|]. split; [intros ? []|reflexivity].
Qed.
Lemma post0_trans s s1 s2 R1 R2 E1 E2 I1 I2 :
  post0 s s1 R1 E1 I1 -> post0 s1 s2 R2 E2 I2 -> post0 s s2 (R1 ++ R2) (E1 ++ E2) (I1 ++ I2).
Proof. intros H1 H2. exact (ptrans H1 H2). Qed.
Lemma post0_refl s I : post0 s s [] [] I.
Proof. apply post_refl. Qed.
Lemma post0_weaken s s' R E I I' : incl I I' -> post0 s s' R E I -> post0 s s' R E I'.
Proof. apply post_weaken. Qed.
Lemma post0_eq s s' R R' E E' I : R = R' -> E = E' -> post0 s s' R E I -> post0 s s' R' E' I.
Proof. now intros -> ->. Qed.
Lemma post0_out s s' R E I : post0 s s' R E I -> out s' = out s ++ take s R.
Proof. intros H. exact (p_out _ _ _ _ _ _ _ _ H). Qed.
Lemma post0_found s s' R E I : post0 s s' R E I -> found s' = found s + N.of_nat (length (take s R)).
Proof. intros H. exact (p_found _ _ _ _ _ _ _ _ H). Qed.
Lemma post0_vis s s' R E I : post0 s s' R E I -> exists a, vis s' = a ++ vis s /\ incl a I.
Proof. intros H. exact (p_vis _ _ _ _ _ _ _ _ H). Qed.
Lemma post0_errs s s' R E I : post0 s s' R E I -> lim_on = false -> errs s' = errs s ++ E.
Proof. intros H. exact (p_errs _ _ _ _ _ _ _ _ H). Qed.
Lemma post0_sat s s' R E I : sat s = true -> out s' = out s -> found s' = found s -> vis s' = vis s -> post0 s s' R E I.
Proof. intros Hs Ho Hf Hv. apply post_sat; try assumption. reflexivity. Qed.
Lemma post0_fresh s s' R E I L : post0 s s' R E I -> fresh (vis s) L -> fresh I L -> fresh (vis s') L.
Proof. intros H. exact (post_fresh _ _ _ _ _ _ _ _ _ H). Qed.
Lemma post0_sat_mono s s' R E I : post0 s s' R E I -> sat s' = false -> sat s = false.
Proof.
  intros H H'. destruct (sat s) eqn:S1; [|reflexivity].
  rewrite (sat_mono buffered limit s s' _ (post0_found _ _ _ _ _ H) S1) in H'. discriminate.
Qed.

(* ---------- the drain loop ---------- *)
Variable base : N.
Hypothesis Hbase : base <> 0.

Lemma drain_nil n s : queue s = [] -> drain (S n) base s = Some s.
Proof. intros H. cbn [Walk.drain]. now rewrite H. Qed.

Lemma drain_cons n s p c a i g l kk rest : queue s = (p, c, NDir a i g l kk) :: rest ->
  drain (S n) base s =
  match visit n p c l kk base (set_queue rest s) with Some s2 => drain n base s2 | None => None end.
Proof. intros H. cbn [Walk.drain]. rewrite H. reflexivity. Qed.

Lemma drain_sat : forall fuel s, sat s = true -> (length (queue s) < fuel)%nat -> Forall isdir (queue s) ->
  exists s', drain fuel base s = Some s' /\ out s' = out s /\ found s' = found s /\ vis s' = vis s /\ queue s' = [].
Proof.
  induction fuel as [|n IH]; intros s Hs Hl Hd; [lia|].
  destruct (queue s) as [|[[p c] k] rest] eqn:Q.
  - exists s. rewrite (drain_nil n s Q). auto.
  - inversion Hd as [|? ? Hk Hrest]; subst. unfold isdir in Hk. cbn [snd] in Hk.
    destruct k as [? ? ? ?|? ? ?|a i g l kk]; try contradiction.
    rewrite (drain_cons n s p c a i g l kk rest Q). cbn [length] in Hl.
    destruct n as [|n]; [lia|].
    destruct l.
    + rewrite visit_sat by exact Hs.
      destruct (IH (set_queue rest s)) as [s' [E [Ho [Hf [Hv Hq]]]]]; [exact Hs|cbn [set_queue queue]; lia|exact Hrest|].
      exists s'. auto.
    + rewrite visit_unl.
      destruct (IH (add_err p (set_queue rest s))) as [s' [E [Ho [Hf [Hv Hq]]]]]; [exact Hs|cbn [add_err set_queue queue]; lia|exact Hrest|].
      exists s'. auto.
Qed.

Definition item_ok (x : xentry) : Prop :=
  match xn x with NDir _ _ _ _ kk => names_ok kk /\ depth_inv (xc x) base (xd x + 1) | _ => True end.

Lemma names_ok_in kk k : names_ok kk -> In k kk ->
  name_okb (nname k) = true /\ match k with NDir _ _ _ _ kk' => names_ok kk' | _ => True end.
Proof.
  unfold names_ok. intros H Hi. rewrite forallb_forall in H. specialize (H k Hi).
  destruct k; cbn [node_names_ok nname] in H; apply andb_true_iff in H; destruct H; auto.
Qed.

Lemma xkids_item_ok dir canon d kk : names_ok kk -> depth_inv canon base d -> Forall item_ok (xkids dir canon d kk).
Proof.
  intros Hn Hd. unfold xkids. apply Forall_forall. intros x Hx. apply in_map_iff in Hx.
  destruct Hx as [k [<- Hk]]. apply filter_In in Hk. destruct Hk as [Hk _].
  destruct (names_ok_in kk k Hn Hk) as [H1 H2]. unfold item_ok. cbn [xn xc xd fst snd].
  destruct k as [? ? ? ?|? ? ?|a i g l kk']; auto. split; [exact H2|]. cbn [nname] in *.
  pose proof (depth_inv_step canon base d a Hd H1) as S1. rewrite (base_depth_nz base _ Hbase) in S1. exact S1.
Qed.

Lemma children_item_ok x : item_ok x -> Forall item_ok (xchildren x).
Proof.
  intros H. destruct (xchildren_cases x) as [[a [i [g [kk [E1 [E2 E3]]]]]]|E]; [|rewrite E; constructor].
  rewrite E3. unfold item_ok in H. rewrite E1 in H. destruct H as [H1 H2]. now apply xkids_item_ok.
Qed.

Lemma level_item_ok xl : Forall item_ok xl -> Forall item_ok (flat_map xchildren xl).
Proof.
  induction 1 as [|x xl Hx _ IH]; [constructor|]. cbn [flat_map]. apply Forall_app. split; [now apply children_item_ok|exact IH].
Qed.

Lemma qof_isdir xl : Forall isdir (qof xl).
Proof.
  unfold qof. induction xl as [|x xl IH]; [constructor|]. cbn [flat_map]. apply Forall_app. split; [|exact IH].
  unfold pushed. destruct (xn x) eqn:E; try constructor. destruct (gate (xd x)); constructor; [|constructor].
  exact I.
Qed.

Definition fh (x : xentry) : list str :=
  match xn x with NDir _ _ _ false _ => if gate (xd x) then [xp x] else [] | _ => [] end.

Lemma x_cases x :
  (pushed x = [] /\ xchildren x = [] /\ fh x = []) \/
  (exists a i g l kk, xn x = NDir a i g l kk /\ gate (xd x) = true /\ pushed x = [(xp x, xc x, xn x)] /\
     xchildren x = (if l then xkids (xp x) (xc x) (xd x + 1) kk else []) /\
     fh x = (if l then [] else [xp x]) /\ ktops x = (if l then tops kk else [])).
Proof.
  unfold pushed, xchildren, fh, ktops.
  destruct (xn x) as [? ? ? ?|? ? ?|a i g l kk] eqn:E; cbn [kids_of]; try (left; destruct (gate (xd x)); now repeat split).
  destruct (gate (xd x)) eqn:G; [|left; destruct l; now repeat split].
  right. exists a, i, g, l, kk. destruct l; repeat split; reflexivity.
Qed.

Definition queue_post (s' : wst) (r Q : list (str * str * node)) : Prop :=
  exists q, queue s' = r ++ q /\ (length q <= length Q)%nat /\ incl q Q /\ (sat s' = false -> q = Q).

(* process one whole level's worth of queue items *)
Lemma batch : forall xl r s f, (1 <= f)%nat -> queue s = qof xl ++ r ->
  Forall item_ok xl -> NoDup (xbelow xl) -> fresh (vis s) (xbelow xl) ->
  exists s', drain (length (qof xl) + f) base s = drain f base s' /\
    post0 s s' (rows (map forget (flat_map xchildren xl))) (failing (o_max o) (map forget xl)) (xtops xl) /\
    queue_post s' r (qof (flat_map xchildren xl)).
Proof.
  induction xl as [|x xl IH]; intros r s f Hf Hq Hok Hnd Hfr.
  - exists s. split; [reflexivity|]. split; [apply post0_refl|]. exists []. cbn in Hq. rewrite app_nil_r.
    split; [exact Hq|]. split; [cbn; lia|]. split; [intros ? []|reflexivity].
  - inversion Hok as [|? ? Hx Hok']; subst.
    unfold xbelow in Hnd, Hfr. cbn [flat_map] in Hnd, Hfr. fold (xbelow xl) in Hnd, Hfr.
    apply NoDup_app_iff in Hnd. destruct Hnd as [Nx [Nl D]].
    assert (Fl : fresh (vis s) (xbelow xl)) by (intros y Hy Hb; apply (Hfr y Hy); apply in_or_app; now right).
    assert (Fx : fresh (vis s) (below1 (xn x))) by (intros y Hy Hb; apply (Hfr y Hy); apply in_or_app; now left).
    unfold qof in Hq |- *. cbn [flat_map map] in Hq |- *. fold (qof xl) in Hq |- *.
    fold (qof (flat_map xchildren xl)). rewrite map_app, spec_rows_app, failing_cons, qof_app.
    unfold xtops. cbn [flat_map]. fold (xtops xl).
    change (e_node (forget x)) with (xn x). change (e_depth (forget x)) with (xd x). change (e_path (forget x)) with (xp x).
    fold (gate (xd x)). fold (fh x).
    assert (EASY : pushed x = [] -> xchildren x = [] -> fh x = [] ->
              exists s', drain (length (pushed x ++ qof xl) + f) base s = drain f base s' /\
                post0 s s' (rows (map forget (xchildren x)) ++ rows (map forget (flat_map xchildren xl)))
                      (fh x ++ failing (o_max o) (map forget xl)) (ktops x ++ xtops xl) /\
                queue_post s' r (qof (xchildren x) ++ qof (flat_map xchildren xl))).
    { intros E1 E2 E3. rewrite E1, E2, E3 in *. destruct (IH r s f Hf) as [s' [E4 [P4 Q4]]]; try assumption.
      exists s'. split; [exact E4|]. split; [|exact Q4].
      eapply post0_weaken; [|exact P4]. intros y Hy. apply in_or_app. now right. }
    destruct (x_cases x) as [[E1 [E2 E3]]|[a [i [g [l [kk [E1 [E2 [E3 [E4 [E5 E6]]]]]]]]]]]; [now apply EASY|].
    unfold item_ok in Hx. rewrite E1 in Hx, Nx, Fx, D. destruct Hx as [Hnk Hdk]. cbn [below1] in Nx, Fx, D.
    rewrite E3 in Hq |- *. rewrite E4, E5, E6. clear EASY.
    cbn [app length Nat.add] in Hq |- *. rewrite E1 in Hq.
    rewrite (drain_cons _ s (xp x) (xc x) a i g l kk (qof xl ++ r) Hq).
    destruct (length (qof xl) + f)%nat as [|f'] eqn:Ef; [lia|].
    set (s1 := set_queue (qof xl ++ r) s).
    set (p := xp x) in *. set (c := xc x) in *. set (d := xd x) in *.
    destruct l.
    + (* a listable directory: its entries are reported, its sub-directories queued *)
      destruct (visit_bfs f' p c base (d + 1) kk s1 Hnk Hdk) as [s2 [Ev2 P2]].
      { unfold gate in E2. lia. }
      { now apply tops_nodup. }
      { intros y Hy Ht. apply (Fx y Hy). now apply tops_incl. }
      rewrite Ev2.
      destruct (p_queue _ _ _ _ _ _ _ _ P2) as [q2 [Q2a [Q2b [Q2c Q2d]]]]. cbn [s1 set_queue queue] in Q2a.
      destruct (IH (r ++ q2) s2 f Hf) as [s' [Ed3 [P3 [q3 [Q3a [Q3b [Q3c Q3d]]]]]]]; try assumption.
      { now rewrite Q2a, app_assoc. }
      { eapply post_fresh; [exact P2|exact Fl|]. intros y Hy Hb. apply (D y); [now apply tops_incl|exact Hb]. }
      rewrite <- Ef, Ed3. exists s'. split; [reflexivity|].
      pose proof (post0_trans _ _ _ _ _ _ _ _ _ (post0_of_post _ _ _ _ _ _ P2) P3) as P.
      split; [exact P|].
      exists (q2 ++ q3). rewrite Q3a, app_assoc. split; [reflexivity|]. split; [rewrite !app_length; lia|].
      split; [intros y Hy; apply in_app_or in Hy; apply in_or_app; destruct Hy; [left|right]; auto|].
      intros S3. rewrite Q3d by exact S3. rewrite Q2d; [reflexivity|]. exact (post0_sat_mono _ _ _ _ _ P3 S3).
    + (* an unlistable directory: one error, nothing else *)
      rewrite visit_unl.
      destruct (IH r (add_err p s1) f Hf) as [s' [Ed3 [P3 Q3]]]; [reflexivity|assumption|assumption|exact Fl|].
      rewrite <- Ef, Ed3. exists s'. split; [reflexivity|].
      pose proof (post0_trans _ _ _ _ _ _ _ _ _ (post0_of_post _ _ _ _ _ _ (post_add_err buffered limit s1 p)) P3) as P.
      split; [exact P|exact Q3].
Qed.


Lemma levels_S ign F mx l : levels ign (S F) mx l = l ++ levels ign F mx (level_children ign mx l).
Proof. destruct l as [|e l]; [|reflexivity]. cbn [levels app]. destruct F; reflexivity. Qed.

(* the drain loop lists everything below the queued level, level by level *)
Lemma drain_levels : forall F xl s fuel,
  (xhts xl <= F)%nat -> (xw xl < fuel)%nat ->
  (length (queue s) <= length (qof xl))%nat -> incl (queue s) (qof xl) -> (sat s = false -> queue s = qof xl) ->
  Forall item_ok xl -> NoDup (xbelow xl) -> fresh (vis s) (xbelow xl) ->
  exists s', drain fuel base s = Some s' /\ queue s' = [] /\
    post0 s s' (rows (levels (o_ign o) F (o_max o) (map forget (flat_map xchildren xl))))
               (failing (o_max o) (map forget xl ++ levels (o_ign o) F (o_max o) (map forget (flat_map xchildren xl))))
               (xbelow xl).
Proof.
  induction F as [|F IHF]; intros xl s fuel HF Hfu Hql Hqi Hqs Hok Hnd Hfr;
    pose proof (level_weight xl) as LW;
    (destruct (sat s) eqn:Hs;
     [ destruct (drain_sat fuel s Hs) as [s' [E [Ho [Hf [Hv Hq]]]]];
       [lia|apply Forall_forall; intros it Hit; exact (proj1 (Forall_forall _ _) (qof_isdir xl) it (Hqi it Hit))|];
       exists s'; split; [exact E|]; split; [exact Hq|]; now apply post0_sat
     | ]);
    specialize (Hqs eq_refl);
    (destruct (batch xl [] s (fuel - length (qof xl))%nat) as [sm [Eb [Pb [q [Qa [Qb [Qc Qd]]]]]]];
      [lia|now rewrite app_nil_r|assumption|assumption|assumption|]);
    replace (length (qof xl) + (fuel - length (qof xl)))%nat with fuel in Eb by lia;
    cbn [app] in Qa.
  - (* no directories left *)
    destruct (height0_leaf xl ltac:(lia)) as [H1 H2]. rewrite H1 in *. rewrite H2 in *.
    destruct q; [|cbn in Qb; lia].
    exists sm. rewrite Eb. destruct (fuel - length (@nil (str * str * node)))%nat as [|n] eqn:En; [cbn in En; lia|].
    split; [now apply drain_nil|]. split; [exact Qa|].
    eapply post0_eq; [| |eapply post0_weaken; [apply xtops_incl|exact Pb]]; [reflexivity|cbn [levels]; now rewrite app_nil_r].
  - destruct (IHF (flat_map xchildren xl) sm (fuel - length (qof xl))%nat) as [s' [E [Hq P]]].
    + pose proof (level_height xl). lia.
    + lia.
    + now rewrite Qa.
    + now rewrite Qa.
    + intros S1. rewrite Qa. now apply Qd.
    + now apply level_item_ok.
    + now apply level_below_nodup.
    + eapply post0_fresh; [exact Pb| |].
      * intros y Hy Hb. apply (Hfr y Hy). now apply level_below_incl.
      * intros y Hy Hb. exact (level_tops_disj xl Hnd y Hy Hb).
    + exists s'. rewrite Eb. split; [exact E|]. split; [exact Hq|].
      pose proof (post0_trans _ _ _ _ _ _ _ _ _ Pb P) as PP.
      eapply post0_eq; [| |eapply post0_weaken; [|exact PP]].
      * rewrite levels_S, level_children_forget, spec_rows_app. reflexivity.
      * rewrite levels_S, level_children_forget, !failing_app. reflexivity.
      * intros y Hy. apply in_app_or in Hy. destruct Hy; [now apply xtops_incl|now apply level_below_incl].
Qed.

End B.

(* ---------- one root ---------- *)
Section R.
Variable accept : row -> bool.
Variable buffered : bool.
Variable limit : N.
Variable o : opts.
Hypothesis Hbfs : o_dfs o = false.
Notation rows := (spec_rows accept (o_arc o) (o_min o) (o_max o)).

Theorem bfs_root : forall fuel F nm i g kk p c s0,
  (nodes (NDir nm i g true kk) <= fuel)%nat -> (height (NDir nm i g true kk) <= F)%nat ->
  canon_ok c -> names_ok kk -> NoDup (i :: inodes_of kk) -> fresh (vis s0) (inodes_of kk) ->
  exists s1, walk_root accept buffered limit o fuel p c (NDir nm i g true kk) s0 = Some s1 /\
    root_post buffered limit s0 s1 i (rows (levelorder (o_ign o) F (o_max o) p kk))
                      (failing (o_max o) (levelorder (o_ign o) F (o_max o) p kk))
                      (inodes_of kk).
Proof.
  intros fuel F nm i g kk p c s0 Hf HF Hc Hn Hnd Hfr. rewrite height_dir in HF. cbn [nodes] in Hf. fold (kw kk) in Hf.
  apply NoDup_cons_iff in Hnd. destruct Hnd as [Hi Hnd].
  unfold Walk.walk_root.
  set (s0' := {| found := found s0; vis := i :: vis s0; queue := []; errs := errs s0; out := out s0 |}).
  destruct fuel as [|fuel']; [lia|].
  pose proof (depth_inv_root c Hc) as Hd.
  destruct (visit_bfs accept buffered limit o Hbfs fuel' p c 0 1 kk s0' Hn Hd) as [s1 [E1 P1]].
  { lia. }
  { now apply tops_nodup. }
  { intros x Hx Hk. apply tops_incl in Hk. cbn [s0' vis] in Hx. destruct Hx as [<-|Hx]; [contradiction|exact (Hfr x Hx Hk)]. }
  rewrite E1, Hbfs.
  set (base := base_depth_of 0 (calc_depth c)).
  assert (Hbase : base <> 0). { pose proof (calc_depth_pos c) as Hp. change base with (calc_depth c). lia. }
  set (L1 := xkids o p c 1 kk) in *.
  destruct (p_queue _ _ _ _ _ _ _ _ P1) as [q [Qa [Qb [Qc Qd]]]]. cbn [s0' queue app] in Qa.
  destruct F as [|F0]; [lia|].
  destruct (drain_levels accept buffered limit o Hbfs base Hbase F0 L1 s1 (S fuel')) as [s2 [E2 [Q2 P2]]].
  - pose proof (xhts_xkids o Hbfs p c 1 kk). fold L1 in H. lia.
  - pose proof (xw_xkids o Hbfs p c 1 kk). fold L1 in H. lia.
  - now rewrite Qa.
  - now rewrite Qa.
  - intros S1. rewrite Qa. now apply Qd.
  - apply xkids_item_ok; [exact Hbase|exact Hn|]. exact (depth_inv_base c 0 1 Hd).
  - unfold L1. rewrite xbelow_xkids. now apply belows_filter_nodup.
  - eapply post_fresh; [exact P1| |].
    + intros x Hx Hb. unfold L1 in Hb. rewrite xbelow_xkids in Hb.
      apply (incl_flat_map_filter below1) in Hb. apply belows_incl in Hb.
      cbn [s0' vis] in Hx. destruct Hx as [<-|Hx]; [contradiction|exact (Hfr x Hx Hb)].
    + intros x Hx Hb. unfold L1 in Hb. rewrite xbelow_xkids in Hb.
      apply (incl_flat_map_filter below1) in Hb. exact (tops_belows_disj kk Hnd x Hx Hb).
  - exists s2. split; [exact E2|].
    pose proof (post0_trans _ _ _ _ _ _ _ _ _ _ _ (post0_of_post _ _ o Hbfs _ _ _ _ _ _ P1) P2) as PP.
    assert (EL : levelorder (o_ign o) (S F0) (o_max o) p kk =
                 map forget L1 ++ levels (o_ign o) F0 (o_max o) (map forget (flat_map (xchildren o) L1))).
    { unfold levelorder. rewrite levels_S. unfold L1 at 1 2. unfold xkids. rewrite map_map.
      f_equal. f_equal. fold (xkids o p c 1 kk). fold L1.
      rewrite <- level_children_forget. unfold L1, xkids. now rewrite map_map. }
    rewrite EL. unfold root_post. repeat split.
    + rewrite spec_rows_app. exact (post0_out _ _ _ _ _ _ _ PP).
    + rewrite spec_rows_app. exact (post0_found _ _ _ _ _ _ _ PP).
    + exact Q2.
    + destruct (post0_vis _ _ _ _ _ _ _ PP) as [a [Va Vi]]. exists a. split; [exact Va|].
      intros x Hx. apply Vi in Hx. apply in_app_or in Hx. destruct Hx as [Hx|Hx]; [now apply tops_incl|].
      unfold L1 in Hx. rewrite xbelow_xkids in Hx. apply (incl_flat_map_filter below1) in Hx. now apply belows_incl.
    + intros L. exact (post0_errs _ _ _ _ _ _ _ PP L).
Qed.

End R.

(* ---------- T2: no limit (or a buffered query): the exact level-order listing ---------- *)
Theorem T2_bfs accept buffered o fuel F nm i g kk p c s0 :
  o_dfs o = false ->
  (nodes (NDir nm i g true kk) <= fuel)%nat -> (height (NDir nm i g true kk) <= F)%nat ->
  canon_ok c -> names_ok kk -> NoDup (i :: inodes_of kk) ->
  (forall x, In x (vis s0) -> ~ In x (i :: inodes_of kk)) ->
  let es := levelorder (o_ign o) F (o_max o) p kk in
  let new := spec_rows accept (o_arc o) (o_min o) (o_max o) es in
  exists s1, walk_root accept buffered 0 o fuel p c (NDir nm i g true kk) s0 = Some s1 /\
    out s1 = out s0 ++ new /\
    errs s1 = errs s0 ++ failing (o_max o) es /\
    found s1 = found s0 + N.of_nat (length new) /\
    queue s1 = [] /\
    exists a, vis s1 = a ++ i :: vis s0 /\ incl a (inodes_of kk).
Proof.
  intros Hbfs Hf HF Hc Hn Hnd Hfr es new.
  destruct (bfs_root accept buffered 0 o Hbfs fuel F nm i g kk p c s0) as [s1 [E [Ho [Hfd [Hq [Hv He]]]]]]; try assumption.
  { intros x Hx Hk. apply (Hfr x Hx). now right. }
  assert (L : lim_on buffered 0 = false) by (unfold lim_on; now rewrite andb_false_r).
  unfold take in *. rewrite L in *. exists s1. repeat split; auto.
Qed.

Print Assumptions T2_bfs.
Print Assumptions bfs_root.
