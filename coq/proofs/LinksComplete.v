(* C18, completeness: with no depth limit (mx = 0) and no LIMIT (limit = 0), on a well-formed graph in
   which a spelled path names at most one directory, every inode reachable from the root through
   directory entries and links to directories is marked AND entered (read_dir attempted);
   and (mn = 0, limit = 0, any graph) every entry of every entered directory gives exactly one output row. *)
From Coq Require Import List NArith Bool Lia Permutation.
From FS Require Import lib.Str gen.GatesGen model.Walk model.WalkLinks proofs.LinksBase proofs.LinksOnce.
Import ListNotations.
Open Scope N_scope.

(* ---------- the graph as a relation ---------- *)
(* the directory an entry leads to: a subdirectory, or a link whose target is a directory *)
Definition etgt (e : dent) : option N :=
  match d_kind e with
  | KDir j => Some j
  | KLink _ (Some (j, _)) => Some j
  | _ => None
  end.

(* ... and the path under which the walk enters it from a directory spelled `dir` *)
Definition epath (dir : str) (e : dent) : option (str * N) :=
  match d_kind e with
  | KDir j => Some (join_path dir (d_name e), j)
  | KLink t (Some (j, _)) => Some (path_join dir t, j)
  | _ => None
  end.

Lemma etarget_epath (dir canon : str) (e : dent) (key : N) (it : item) :
  etarget dir canon e = Some (key, it) -> epath dir e = Some (it_path it, it_ino it).
Proof.
  unfold etarget, epath. destruct (d_kind e) as [|j|t [[j tc]|]]; intro H; try discriminate; now injection H as _ <-.
Qed.

Lemma etarget_etgt (dir canon : str) (e : dent) (key : N) (it : item) :
  etarget dir canon e = Some (key, it) -> etgt e = Some (it_ino it).
Proof.
  unfold etarget, etgt. destruct (d_kind e) as [|j|t [[j tc]|]]; intro H; try discriminate; now injection H as _ <-.
Qed.

Lemma etarget_none_etgt (dir canon : str) (e : dent) : etarget dir canon e = None -> etgt e = None.
Proof. unfold etarget, etgt. destruct (d_kind e) as [|j|t [[j tc]|]]; intro H; try discriminate; reflexivity. Qed.

(* i -> j : the readable directory i has an entry leading to directory j *)
Definition edge (g : fsgraph) (i j : N) : Prop :=
  exists es e, ents_of g i = Some es /\ In e es /\ etgt e = Some j.

Inductive reach (g : fsgraph) (r : N) : N -> Prop :=
| reach_root : reach g r r
| reach_step (i j : N) : reach g r i -> edge g i j -> reach g r j.

(* the (path as spelled, inode) pairs the walk can produce from the root *)
Inductive spelled (g : fsgraph) (rootpath : str) (root : N) : str -> N -> Prop :=
| sp_root : spelled g rootpath root rootpath root
| sp_step (d : str) (i : N) (es : list dent) (e : dent) (p : str) (j : N) :
    spelled g rootpath root d i -> ents_of g i = Some es -> In e es -> epath d e = Some (p, j) ->
    spelled g rootpath root p j.

(* HYPOTHESIS of completeness: a spelled path names at most one directory.  Any observed file system
   satisfies it (path resolution is a function); it is needed because visit_dir returns at once
   when the spelled path is already in visited_dirs, whatever the inode. *)
Definition path_functional (g : fsgraph) (rootpath : str) (root : N) : Prop :=
  forall p i j, spelled g rootpath root p i -> spelled g rootpath root p j -> i = j.

Lemma gate_limit0 (f : N) : gate_limit_dir false 0 f = false.
Proof. reflexivity. Qed.
Lemma gate_descend0 (d : N) : gate_descend 0 d = true.
Proof. reflexivity. Qed.
Lemma gate_report0 (d : N) : gate_report 0 d = true.
Proof. reflexivity. Qed.

Section Complete.
Variables (g : fsgraph) (rootpath : str) (root : N).
Hypothesis Hwf : wf_graph g = true.
Hypothesis Hfun : path_functional g rootpath root.
Variable mn : N.

Definition closed (s : lst) (k : N) : Prop := forall j, edge g k j -> In j (l_vis s).

(* A: inodes marked by the callers but not yet closed (the DFS stack, current directory first) *)
Definition cinv (A : list N) (s : lst) : Prop :=
  (forall k, In k (l_vis s) -> In k (l_ent s) \/ In k (qinos s) \/ In k A) /\
  (forall k, In k (l_ent s) -> In k A \/ closed s k) /\
  (forall p, In p (l_vdirs s) -> exists i, In i (l_ent s) /\ spelled g rootpath root p i) /\
  (forall it, In it (l_queue s) -> spelled g rootpath root (it_path it) (it_ino it)).

Lemma closed_mono (s t : lst) (k : N) : incl (l_vis s) (l_vis t) -> closed s k -> closed t k.
Proof. intros Hi Hc j Hj. apply Hi. now apply Hc. Qed.

Lemma cinv_core (A : list N) (s t : lst) :
  l_vis t = l_vis s -> l_vdirs t = l_vdirs s -> l_ent t = l_ent s -> l_queue t = l_queue s ->
  cinv A s -> cinv A t.
Proof. unfold cinv, closed, qinos. intros -> -> -> ->. exact (fun H => H). Qed.

Lemma cinv_rep (A : list N) (dir : str) (depth : N) (e : dent) (s : lst) : cinv A s -> cinv A (rep mn dir depth e s).
Proof. destruct (rep_core mn dir depth e s) as [H1 [H2 [H3 H4]]]. now apply cinv_core. Qed.

Lemma cinv_add_vis (A : list N) (s : lst) (k : N) : cinv A s -> cinv (k :: A) (add_vis s k).
Proof.
  intros [C1 [C2 [C3 C4]]]. unfold cinv, qinos in *. cbn [add_vis l_vis l_vdirs l_ent l_queue].
  split; [|split; [|split]]; try assumption.
  - intros x [<-|Hx]; [right; right; now left|].
    destruct (C1 x Hx) as [H|[H|H]]; [now left|right; now left|right; right; now right].
  - intros x Hx. destruct (C2 x Hx) as [H|H]; [left; now right|right].
    intros j Hj. right. now apply H.
Qed.

Lemma cinv_push (A : list N) (s : lst) (it : item) :
  cinv (it_ino it :: A) s -> ~ In (it_ino it) (l_ent s) -> spelled g rootpath root (it_path it) (it_ino it) ->
  cinv A (push_q s it).
Proof.
  intros [C1 [C2 [C3 C4]]] Hni Hsp. unfold cinv, qinos in *. cbn [push_q l_vis l_vdirs l_ent l_queue].
  split; [|split; [|split]]; try assumption.
  - intros x Hx. destruct (C1 x Hx) as [H|[H|[<-|H]]].
    + now left.
    + right; left. rewrite map_app. apply in_or_app. now left.
    + right; left. rewrite map_app. apply in_or_app. right. now left.
    + right; now right.
  - intros x Hx. destruct (C2 x Hx) as [[<-|H]|H]; [contradiction|now left|now right].
  - intros it' Hi. apply in_app_or in Hi. destruct Hi as [Hi|[<-|[]]]; [now apply C4|assumption].
Qed.

Lemma cinv_enter (A : list N) (s : lst) (dir : str) (i : N) :
  cinv (i :: A) s -> spelled g rootpath root dir i -> cinv (i :: A) (add_ent (add_vdir s dir) i).
Proof.
  intros [C1 [C2 [C3 C4]]] Hsp. unfold cinv, qinos in *. cbn [add_ent add_vdir l_vis l_vdirs l_ent l_queue].
  split; [|split; [|split]]; try assumption.
  - intros x Hx. destruct (C1 x Hx) as [H|[H|H]]; [left; now right|right; now left|right; now right].
  - intros x [<-|Hx]; [left; now left|now apply C2].
  - intros p [<-|Hp].
    + exists i. split; [now left|assumption].
    + destruct (C3 p Hp) as [i' [Hi' Hs']]. exists i'. split; [now right|assumption].
Qed.

Lemma cinv_leave (A : list N) (s : lst) (i : N) :
  cinv (i :: A) s -> In i (l_ent s) -> closed s i -> cinv A s.
Proof.
  intros [C1 [C2 [C3 C4]]] Hin Hc. unfold cinv in *.
  split; [|split; [|split]]; try assumption.
  - intros x Hx. destruct (C1 x Hx) as [H|[H|[<-|H]]]; [now left|right; now left|now left|right; now right].
  - intros x Hx. destruct (C2 x Hx) as [[<-|H]|H]; [now right|now left|now right].
Qed.

Lemma cinv_pop (s : lst) (it : item) (rest : list item) :
  cinv [] s -> l_queue s = it :: rest ->
  cinv [it_ino it] (set_q s rest) /\ spelled g rootpath root (it_path it) (it_ino it).
Proof.
  intros [C1 [C2 [C3 C4]]] Eq. unfold cinv, qinos in *. rewrite Eq in C1, C4. cbn [map] in C1.
  cbn [set_q l_vis l_vdirs l_ent l_queue].
  split; [split; [|split; [|split]]|]; try assumption.
  - intros x Hx. destruct (C1 x Hx) as [H|[[<-|H]|[]]]; [now left|right; right; now left|right; now left].
  - intros x Hx. destruct (C2 x Hx) as [[]|H]. now right.
  - intros it' Hi. apply C4. now right.
  - apply C4. now left.
Qed.

(* what a visit of (p, j) guarantees, A being the callers' stack *)
Definition cspec (visit : str -> str -> N -> N -> lst -> option lst) : Prop :=
  forall A p c j b s s',
    once_inv s -> cinv (j :: A) s -> In j (l_vis s) -> ~ In j (l_ent s ++ qinos s) ->
    spelled g rootpath root p j -> visit p c j b s = Some s' ->
    once_inv s' /\ cinv A s' /\ incl (l_vis s) (l_vis s') /\ incl (l_ent s) (l_ent s').

Section LoopC.
Variables (dfs : bool) (visit : str -> str -> N -> N -> lst -> option lst).
Hypothesis Hvisit : cspec visit.
Variables (dir canon : str) (depth base : N) (i : N) (A : list N) (ents : list dent).
Hypothesis Hsp : spelled g rootpath root dir i.
Hypothesis Hents : ents_of g i = Some ents.

Definition lpost (es : list dent) (s s' : lst) : Prop :=
  once_inv s' /\ cinv (i :: A) s' /\ incl (l_vis s) (l_vis s') /\ incl (l_ent s) (l_ent s') /\
  (forall e j, In e es -> etgt e = Some j -> In j (l_vis s')).

Lemma lpost_cons (e : dent) (es : list dent) (s sm s' : lst) :
  incl (l_vis s) (l_vis sm) -> incl (l_ent s) (l_ent sm) ->
  (forall j, etgt e = Some j -> In j (l_vis sm)) ->
  lpost es sm s' -> lpost (e :: es) s s'.
Proof.
  intros Hv He Ht [P1 [P2 [P3 [P4 P5]]]]. unfold lpost.
  split; [assumption|]. split; [assumption|].
  split; [intros x Hx; apply P3; now apply Hv|].
  split; [intros x Hx; apply P4; now apply He|].
  intros e' j [<-|Hin] Hj; [apply P3; now apply Ht|now apply (P5 e' j)].
Qed.

Lemma lloop_complete : forall (es : list dent) (s s' : lst),
  lloop mn 0 dfs 0 visit dir canon depth base es s = Some s' ->
  incl es ents -> once_inv s -> cinv (i :: A) s -> lpost es s s'.
Proof.
  apply (lloop_rule mn 0 dfs 0 visit dir canon depth base
           (fun es s s' => incl es ents -> once_inv s -> cinv (i :: A) s -> lpost es s s')).
  - intros s _ Ho Hc. unfold lpost.
    split; [assumption|split; [assumption|split; [apply incl_refl|split; [apply incl_refl|intros e j []]]]].
  - intros e es s El. rewrite gate_limit0 in El. discriminate.
  - intros e es s s' _ Hor _ IH Hincl Ho Hc.
    destruct (rep_core mn dir depth e s) as [R1 [R2 [R3 R4]]].
    apply (lpost_cons e es s (rep mn dir depth e s) s').
    + rewrite R1. apply incl_refl.
    + rewrite R3. apply incl_refl.
    + intros j Hj. destruct Hor as [Hd|Hn]; [rewrite gate_descend0 in Hd; discriminate|].
      rewrite (etarget_none_etgt dir canon e Hn) in Hj. discriminate.
    + apply IH; [intros x Hx; apply Hincl; now right|now apply once_rep|now apply cinv_rep].
  - intros e es s s' key it _ _ Et Hin _ IH Hincl Ho Hc.
    destruct (rep_core mn dir depth e s) as [R1 [R2 [R3 R4]]].
    assert (Hk : key = it_ino it).
    { apply (etarget_wf dir canon e); [|assumption]. apply (wf_ents_of g i ents); [assumption|assumption|apply Hincl; now left]. }
    apply (lpost_cons e es s (rep mn dir depth e s) s').
    + rewrite R1. apply incl_refl.
    + rewrite R3. apply incl_refl.
    + intros j Hj. rewrite (etarget_etgt dir canon e key it Et) in Hj. injection Hj as <-. now rewrite <- Hk.
    + apply IH; [intros x Hx; apply Hincl; now right|now apply once_rep|now apply cinv_rep].
  - intros e es s s3 s' key it _ _ Et Hni _ Hv _ IH Hincl Ho Hc.
    destruct (rep_core mn dir depth e s) as [R1 [R2 [R3 R4]]].
    assert (Hk : key = it_ino it).
    { apply (etarget_wf dir canon e); [|assumption]. apply (wf_ents_of g i ents); [assumption|assumption|apply Hincl; now left]. }
    subst key.
    destruct (once_add_vis (rep mn dir depth e s) (it_ino it) (once_rep mn dir depth e s Ho) Hni) as [H2 [Hin2 Hni2]].
    assert (Hc2 : cinv (it_ino it :: i :: A) (add_vis (rep mn dir depth e s) (it_ino it))).
    { apply cinv_add_vis. now apply cinv_rep. }
    assert (Hsp2 : spelled g rootpath root (it_path it) (it_ino it)).
    { apply (sp_step g rootpath root dir i ents e); [assumption|assumption|apply Hincl; now left|].
      now apply (etarget_epath dir canon e (it_ino it)). }
    destruct (Hvisit (i :: A) _ _ _ _ _ _ H2 Hc2 Hin2 Hni2 Hsp2 Hv) as [Ho3 [Hc3 [Hv3 He3]]].
    apply (lpost_cons e es s s3 s').
    + intros x Hx. apply Hv3. cbn [add_vis l_vis]. right. now rewrite R1.
    + intros x Hx. apply He3. cbn [add_vis l_ent]. now rewrite R3.
    + intros j Hj. rewrite (etarget_etgt dir canon e _ it Et) in Hj. injection Hj as <-. apply Hv3. assumption.
    + apply IH; [intros x Hx; apply Hincl; now right|assumption|assumption].
  - intros e es s s' key it _ _ Et Hni _ _ IH Hincl Ho Hc.
    destruct (rep_core mn dir depth e s) as [R1 [R2 [R3 R4]]].
    assert (Hk : key = it_ino it).
    { apply (etarget_wf dir canon e); [|assumption]. apply (wf_ents_of g i ents); [assumption|assumption|apply Hincl; now left]. }
    subst key.
    destruct (once_add_vis (rep mn dir depth e s) (it_ino it) (once_rep mn dir depth e s Ho) Hni) as [H2 [Hin2 Hni2]].
    assert (Hc2 : cinv (it_ino it :: i :: A) (add_vis (rep mn dir depth e s) (it_ino it))).
    { apply cinv_add_vis. now apply cinv_rep. }
    assert (Hsp2 : spelled g rootpath root (it_path it) (it_ino it)).
    { apply (sp_step g rootpath root dir i ents e); [assumption|assumption|apply Hincl; now left|].
      now apply (etarget_epath dir canon e (it_ino it)). }
    apply (lpost_cons e es s (push_q (add_vis (rep mn dir depth e s) (it_ino it)) it) s').
    + intros x Hx. cbn [push_q add_vis l_vis]. right. now rewrite R1.
    + intros x Hx. cbn [push_q add_vis l_ent]. now rewrite R3.
    + intros j Hj. rewrite (etarget_etgt dir canon e _ it Et) in Hj. injection Hj as <-. cbn [push_q add_vis l_vis]. now left.
    + apply IH; [intros x Hx; apply Hincl; now right| |].
      * now apply once_push.
      * apply cinv_push; [assumption| |assumption].
        intro Hx. apply Hni2. apply in_or_app. now left.
Qed.
End LoopC.

Lemma lvisit_complete (dfs : bool) : forall f : nat, cspec (lvisit g mn 0 dfs 0 f).
Proof.
  induction f as [|f IH]; intros A dir canon i rd s s' Ho Hc Hin Hni Hsp Hv; [discriminate|].
  rewrite lvisit_S in Hv.
  destruct (existsb (str_eqb dir) (l_vdirs s)) eqn:Ed.
  { (* the spelled path was seen before: impossible, it would name an already entered inode *)
    exfalso. apply memS_true in Ed. destruct Hc as [_ [_ [C3 _]]].
    destruct (C3 dir Ed) as [i' [Hi' Hs']].
    assert (i' = i) by (apply (Hfun dir); assumption). subst i'.
    apply Hni. apply in_or_app. now left. }
  apply memS_false in Ed.
  pose proof (once_enter s dir i Ho Hin Hni Ed) as Ho1.
  pose proof (cinv_enter A s dir i Hc Hsp) as Hc1.
  destruct (ents_of g i) as [ents|] eqn:Ee.
  - destruct (lloop_complete dfs _ IH dir canon (vdepth rd canon) (vbase rd canon) i A ents Hsp Ee ents _ _ Hv
                (incl_refl _) Ho1 Hc1) as [P1 [P2 [P3 [P4 P5]]]].
    cbn [add_ent add_vdir l_vis l_ent] in P3, P4.
    split; [assumption|]. split; [|split].
    + apply (cinv_leave A s' i P2).
      * apply P4. now left.
      * intros j [es [e [He [Hine Het]]]]. rewrite Ee in He. injection He as <-. now apply (P5 e j).
    + assumption.
    + intros x Hx. apply P4. now right.
  - injection Hv as <-.
    split; [revert Ho1; now apply once_inv_core|]. split; [|split].
    + apply (cinv_leave A _ i).
      * revert Hc1. now apply cinv_core.
      * cbn [add_lerr add_ent l_ent]. now left.
      * intros j [es [e [He _]]]. rewrite Ee in He. discriminate.
    + cbn [add_lerr add_ent add_vdir l_vis]. apply incl_refl.
    + cbn [add_lerr add_ent add_vdir l_ent]. apply incl_tl, incl_refl.
Qed.

Lemma ldrain_complete (dfs : bool) : forall (f : nat) (base : N) (s s' : lst),
  once_inv s -> cinv [] s -> ldrain g mn 0 dfs 0 f base s = Some s' ->
  once_inv s' /\ cinv [] s' /\ l_queue s' = [] /\ incl (l_vis s) (l_vis s') /\ incl (l_ent s) (l_ent s').
Proof.
  induction f as [|f IH]; intros base s s' Ho Hc Hd; [discriminate|].
  rewrite ldrain_S in Hd. destruct (l_queue s) as [|it rest] eqn:Eq.
  { injection Hd as <-. split; [assumption|split; [assumption|split; [exact Eq|split; apply incl_refl]]]. }
  destruct (lvisit g mn 0 dfs 0 f (it_path it) (it_canon it) (it_ino it) base (set_q s rest)) as [s2|] eqn:Ev; [|discriminate].
  destruct (once_pop s it rest Ho Eq) as [Ho1 [Hin1 Hni1]].
  destruct (cinv_pop s it rest Hc Eq) as [Hc1 Hsp1].
  destruct (lvisit_complete dfs f [] _ _ _ _ _ _ Ho1 Hc1 Hin1 Hni1 Hsp1 Ev) as [Ho2 [Hc2 [Hv2 He2]]].
  destruct (IH base s2 s' Ho2 Hc2 Hd) as [Q1 [Q2 [Q3 [Q4 Q5]]]].
  split; [assumption|split; [assumption|split; [assumption|split]]].
  - intros x Hx. apply Q4. now apply Hv2.
  - intros x Hx. apply Q5. now apply He2.
Qed.
End Complete.

(* in depth-first mode the queue is never touched *)
Section DfsQueue.
Variables (g : fsgraph) (mn mx limit : N).

Lemma lloop_dfs_queue (visit : str -> str -> N -> N -> lst -> option lst) (dir canon : str) (depth base : N)
  (Hvisit : forall p c j b s s', visit p c j b s = Some s' -> l_queue s' = l_queue s) :
  forall (es : list dent) (s s' : lst),
    lloop mn mx true limit visit dir canon depth base es s = Some s' -> l_queue s' = l_queue s.
Proof.
  apply (lloop_rule mn mx true limit visit dir canon depth base (fun es s s' => l_queue s' = l_queue s)).
  - reflexivity.
  - reflexivity.
  - intros e es s s' _ _ _ IH. rewrite IH. apply (rep_core mn dir depth e s).
  - intros e es s s' key it _ _ _ _ _ IH. rewrite IH. apply (rep_core mn dir depth e s).
  - intros e es s s3 s' key it _ _ _ _ _ Hv _ IH. rewrite IH, (Hvisit _ _ _ _ _ _ Hv).
    cbn [add_vis l_queue]. apply (rep_core mn dir depth e s).
  - intros e es s s' key it _ _ _ _ Hf. discriminate.
Qed.

Lemma lvisit_dfs_queue : forall (f : nat) (dir canon : str) (i rd : N) (s s' : lst),
  lvisit g mn mx true limit f dir canon i rd s = Some s' -> l_queue s' = l_queue s.
Proof.
  induction f as [|f IH]; intros dir canon i rd s s' Hv; [discriminate|].
  rewrite lvisit_S in Hv.
  destruct (existsb (str_eqb dir) (l_vdirs s)).
  { now injection Hv as <-. }
  destruct (ents_of g i) as [ents|].
  - rewrite (lloop_dfs_queue _ _ _ _ _ (fun p c j b s0 s0' => IH p c j b s0 s0') ents _ _ Hv). reflexivity.
  - now injection Hv as <-.
Qed.
End DfsQueue.

Lemma cinv_start (g : fsgraph) (rootpath : str) (root : N) : cinv g rootpath root [root] (add_vis lst0 root).
Proof.
  unfold cinv, qinos. cbn [add_vis lst0 l_vis l_vdirs l_ent l_queue map].
  split; [|split; [|split]].
  - intros k [<-|[]]. right; right; now left.
  - intros k [].
  - intros p [].
  - intros it [].
Qed.

(* ---------- (c) COMPLETENESS, for the original lwalk ---------- *)
Theorem lwalk_final_closed (g : fsgraph) (mn : N) (dfs : bool) (fuel : nat) (rootpath canon : str) (root_ino : N) (s : lst) :
  wf_graph g = true -> path_functional g rootpath root_ino ->
  lwalk g mn 0 dfs 0 fuel rootpath canon root_ino = Some s ->
  In root_ino (l_vis s) /\
  (forall k, In k (l_vis s) -> In k (l_ent s)) /\
  (forall k j, In k (l_ent s) -> edge g k j -> In j (l_vis s)).
Proof.
  unfold lwalk. intros Hwf Hfun H.
  destruct (lvisit g mn 0 dfs 0 fuel rootpath canon root_ino 0 (add_vis lst0 root_ino)) as [s1|] eqn:Ev; [|discriminate].
  destruct (once_inv_start root_ino) as [Ho0 [Hin0 Hni0]].
  destruct (lvisit_complete g rootpath root_ino Hwf Hfun mn dfs fuel [] _ _ _ _ _ _
              Ho0 (cinv_start g rootpath root_ino) Hin0 Hni0 (sp_root g rootpath root_ino) Ev) as [Ho1 [Hc1 [Hv1 He1]]].
  assert (Hfin : forall t, once_inv t -> cinv g rootpath root_ino [] t -> l_queue t = [] -> incl (l_vis s1) (l_vis t) ->
                 In root_ino (l_vis t) /\ (forall k, In k (l_vis t) -> In k (l_ent t)) /\
                 (forall k j, In k (l_ent t) -> edge g k j -> In j (l_vis t))).
  { intros t _ [C1 [C2 _]] Hq Hi. unfold qinos in C1. rewrite Hq in C1. cbn [map] in C1. split; [|split].
    - apply Hi, Hv1. now left.
    - intros k Hk. destruct (C1 k Hk) as [Hx|[[]|[]]]. exact Hx.
    - intros k j Hk Hedge. destruct (C2 k Hk) as [[]|Hcl]. now apply Hcl. }
  destruct dfs.
  - injection H as <-. apply Hfin; try assumption; [|apply incl_refl].
    now rewrite (lvisit_dfs_queue g mn 0 0 fuel _ _ _ _ _ _ Ev).
  - destruct (ldrain_complete g rootpath root_ino Hwf Hfun mn false fuel _ _ _ Ho1 Hc1 H) as [Q1 [Q2 [Q3 [Q4 Q5]]]].
    now apply Hfin.
Qed.

Theorem lwalk_complete (g : fsgraph) (mn : N) (dfs : bool) (fuel : nat) (rootpath canon : str) (root_ino : N) (s : lst) :
  wf_graph g = true -> path_functional g rootpath root_ino ->
  lwalk g mn 0 dfs 0 fuel rootpath canon root_ino = Some s ->
  forall j, reach g root_ino j -> In j (l_vis s) /\ In j (l_ent s).
Proof.
  intros Hwf Hfun H.
  destruct (lwalk_final_closed g mn dfs fuel rootpath canon root_ino s Hwf Hfun H) as [Hr [Hve Hcl]].
  assert (Hall : forall j, reach g root_ino j -> In j (l_vis s)).
  { intros j Hj. induction Hj as [|i j Hi IHi Hedge]; [assumption|]. apply (Hcl i j); [now apply Hve|assumption]. }
  intros j Hj. split; [now apply Hall|apply Hve; now apply Hall].
Qed.

(* ---------- soundness (all gates, limits, orders): only reachable inodes are ever marked ---------- *)
Section Sound.
Variables (g : fsgraph) (root : N) (mn mx limit : N).
Hypothesis Hwf : wf_graph g = true.

Definition sinv (s : lst) : Prop :=
  (forall k, In k (l_vis s) -> reach g root k) /\ (forall it, In it (l_queue s) -> reach g root (it_ino it)).

Lemma sinv_core (s t : lst) : l_vis t = l_vis s -> l_queue t = l_queue s -> sinv s -> sinv t.
Proof. unfold sinv. intros -> ->. exact (fun H => H). Qed.

Lemma sinv_rep (dir : str) (depth : N) (e : dent) (s : lst) : sinv s -> sinv (rep mn dir depth e s).
Proof. destruct (rep_core mn dir depth e s) as [H1 [_ [_ H4]]]. now apply sinv_core. Qed.

Lemma sinv_add_vis (s : lst) (k : N) : sinv s -> reach g root k -> sinv (add_vis s k).
Proof.
  intros [S1 S2] Hk. split; cbn [add_vis l_vis l_queue]; [|assumption].
  intros x [<-|Hx]; [assumption|now apply S1].
Qed.

Lemma sinv_push (s : lst) (it : item) : sinv s -> reach g root (it_ino it) -> sinv (push_q s it).
Proof.
  intros [S1 S2] Hk. split; cbn [push_q l_vis l_queue]; [assumption|].
  intros x Hx. apply in_app_or in Hx. destruct Hx as [Hx|[<-|[]]]; [now apply S2|assumption].
Qed.

Definition sspec (visit : str -> str -> N -> N -> lst -> option lst) : Prop :=
  forall p c j b s s', sinv s -> reach g root j -> visit p c j b s = Some s' -> sinv s'.

Lemma lloop_sound (dfs : bool) (visit : str -> str -> N -> N -> lst -> option lst) (dir canon : str) (depth base : N)
  (i : N) (ents : list dent) (Hi : reach g root i) (Hents : ents_of g i = Some ents) (Hvisit : sspec visit) :
  forall (es : list dent) (s s' : lst),
    lloop mn mx dfs limit visit dir canon depth base es s = Some s' -> incl es ents -> sinv s -> sinv s'.
Proof.
  assert (Hkey : forall e es key it, incl (e :: es) ents -> etarget dir canon e = Some (key, it) ->
                                     key = it_ino it /\ reach g root key).
  { intros e es key it Hincl Et.
    assert (Hin : In e ents) by (apply Hincl; now left).
    pose proof (etarget_wf dir canon e key it (wf_ents_of g i ents e Hwf Hents Hin) Et) as Hk.
    split; [assumption|]. rewrite Hk.
    apply (reach_step g root i); [assumption|]. exists ents, e. split; [assumption|]. split; [assumption|].
    now apply (etarget_etgt dir canon e key it). }
  apply (lloop_rule mn mx dfs limit visit dir canon depth base (fun es s s' => incl es ents -> sinv s -> sinv s')).
  - intros s _ H. exact H.
  - intros e es s _ _ H. exact H.
  - intros e es s s' _ _ _ IH Hincl H. apply IH; [intros x Hx; apply Hincl; now right|now apply sinv_rep].
  - intros e es s s' key it _ _ _ _ _ IH Hincl H. apply IH; [intros x Hx; apply Hincl; now right|now apply sinv_rep].
  - intros e es s s3 s' key it _ _ Et _ _ Hv _ IH Hincl H. apply IH; [intros x Hx; apply Hincl; now right|].
    destruct (Hkey e es key it Hincl Et) as [Hk Hr].
    refine (Hvisit _ _ _ _ (add_vis (rep mn dir depth e s) key) _ _ _ Hv).
    + apply sinv_add_vis; [now apply sinv_rep|assumption].
    + now rewrite <- Hk.
  - intros e es s s' key it _ _ Et _ _ _ IH Hincl H. apply IH; [intros x Hx; apply Hincl; now right|].
    destruct (Hkey e es key it Hincl Et) as [Hk Hr].
    apply sinv_push; [apply sinv_add_vis; [now apply sinv_rep|assumption]|now rewrite <- Hk].
Qed.

Lemma lvisit_sound (dfs : bool) : forall f : nat, sspec (lvisit g mn mx dfs limit f).
Proof.
  induction f as [|f IH]; intros dir canon i rd s s' H Hi Hv; [discriminate|].
  rewrite lvisit_S in Hv.
  destruct (existsb (str_eqb dir) (l_vdirs s)).
  { now injection Hv as <-. }
  destruct (ents_of g i) as [ents|] eqn:Ee.
  - refine (lloop_sound dfs _ dir canon _ _ i ents Hi Ee IH ents _ _ Hv (incl_refl _) _).
    revert H. now apply sinv_core.
  - injection Hv as <-. revert H. now apply sinv_core.
Qed.

Lemma ldrain_sound (dfs : bool) : forall (f : nat) (base : N) (s s' : lst),
  sinv s -> ldrain g mn mx dfs limit f base s = Some s' -> sinv s'.
Proof.
  induction f as [|f IH]; intros base s s' H Hd; [discriminate|].
  rewrite ldrain_S in Hd. destruct (l_queue s) as [|it rest] eqn:Eq.
  { now injection Hd as <-. }
  destruct (lvisit g mn mx dfs limit f (it_path it) (it_canon it) (it_ino it) base (set_q s rest)) as [s2|] eqn:Ev; [|discriminate].
  apply (IH base s2 s'); [|assumption].
  destruct H as [S1 S2]. rewrite Eq in S2.
  refine (lvisit_sound dfs f _ _ _ _ (set_q s rest) _ _ _ Ev).
  - split; cbn [set_q l_vis l_queue]; [assumption|]. intros x Hx. apply S2. now right.
  - apply S2. now left.
Qed.
End Sound.

Theorem lwalk_sound (g : fsgraph) (mn mx : N) (dfs : bool) (limit : N) (fuel : nat) (rootpath canon : str) (root_ino : N) (s : lst) :
  wf_graph g = true ->
  lwalk g mn mx dfs limit fuel rootpath canon root_ino = Some s ->
  forall k, In k (l_vis s) -> reach g root_ino k.
Proof.
  unfold lwalk. intros Hwf H.
  destruct (lvisit g mn mx dfs limit fuel rootpath canon root_ino 0 (add_vis lst0 root_ino)) as [s1|] eqn:Ev; [|discriminate].
  assert (H0 : sinv g root_ino (add_vis lst0 root_ino)).
  { split; cbn [add_vis lst0 l_vis l_queue]; [|intros it []]. intros k [<-|[]]. constructor. }
  pose proof (lvisit_sound g root_ino mn mx limit Hwf dfs fuel _ _ _ _ _ _ H0 (reach_root g root_ino) Ev) as H1.
  destruct dfs.
  - injection H as <-. exact (proj1 H1).
  - exact (proj1 (ldrain_sound g root_ino mn mx limit Hwf false fuel _ _ _ H1 H)).
Qed.

(* the entered inodes are EXACTLY the reachable ones, each exactly once *)
Theorem lwalk_exactly_reachable_once (g : fsgraph) (mn : N) (dfs : bool) (fuel : nat) (rootpath canon : str) (root_ino : N) (s : lst) :
  wf_graph g = true -> path_functional g rootpath root_ino ->
  lwalk g mn 0 dfs 0 fuel rootpath canon root_ino = Some s ->
  NoDup (l_ent s) /\ forall j, In j (l_ent s) <-> reach g root_ino j.
Proof.
  intros Hwf Hfun H.
  destruct (lwalk_enters_once g mn 0 dfs 0 fuel rootpath canon root_ino s Hwf H) as [_ [_ [Hnd Hincl]]].
  split; [assumption|]. intro j. split.
  - intro Hj. apply (lwalk_sound g mn 0 dfs 0 fuel rootpath canon root_ino s Hwf H). now apply Hincl.
  - intro Hj. now apply (lwalk_complete g mn dfs fuel rootpath canon root_ino s Hwf Hfun H).
Qed.

Print Assumptions lwalk_complete.
Print Assumptions lwalk_sound.
Print Assumptions lwalk_exactly_reachable_once.
