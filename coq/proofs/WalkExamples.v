(* Concrete instances of T1 / T2 / T4: the hypotheses are satisfiable and the equations compute. *)
From Coq Require Import List NArith Bool String Lia.
From FS Require Import lib.Str gen.GatesGen model.Walk spec.WalkSpec proofs.WalkBase proofs.WalkDfs proofs.WalkBfs proofs.WalkRoots.
Import ListNotations.
Open Scope N_scope.

Definition nm (x : string) : str := Str.s x.

(* r/ { a, d1/ { b.zip[m1,m2], l -> ., d2/ { c, d3/ { deep } } }, bad/ (unreadable) { x }, ig/ (ignored) { y } } *)
Definition ex_kids : list node :=
  [ NFile (nm "a") 10 false None;
    NDir (nm "d1") 2 false true
      [ NFile (nm "b.zip") 11 false (Some [nm "m1"; nm "m2"]);
        NLink (nm "l") 3 false;
        NDir (nm "d2") 4 false true
          [ NFile (nm "c") 12 false None;
            NDir (nm "d3") 5 false true [ NFile (nm "deep") 13 false None ] ] ];
    NDir (nm "bad") 6 false false [ NFile (nm "x") 14 false None ];
    NDir (nm "ig") 7 true true [ NFile (nm "y") 15 false None ] ].
Definition ex_root : node := NDir (nm "r") 1 false true ex_kids.
Definition ex_p : str := nm "r".
Definition ex_c : str := nm "/home/u/r".
Definition ex_accept (r : row) : bool := negb (str_eqb (fst r) (nm "r/d1/d2/c")).
(* mindepth 2, maxdepth 3, archives on, an ignore option on *)
Definition ex_o (dfs : bool) : opts := {| o_min := 2; o_max := 3; o_dfs := dfs; o_arc := true; o_ign := true |}.
Definition ex_o_wide (dfs : bool) : opts := {| o_min := 0; o_max := 0; o_dfs := dfs; o_arc := true; o_ign := false |}.

Lemma ex_canon_ok : canon_ok ex_c.
Proof. right. split; [vm_compute; reflexivity|vm_compute; discriminate]. Qed.
Lemma ex_names_ok : names_ok ex_kids.
Proof. vm_compute. reflexivity. Qed.
Lemma ex_nodup : NoDup (1 :: inodes_of ex_kids).
Proof. vm_compute. repeat (constructor; [cbn; intuition discriminate|]). constructor. Qed.
Lemma ex_fresh : forall x, In x (vis st0) -> ~ In x (1 :: inodes_of ex_kids).
Proof. intros x []. Qed.

(* the model computes, and agrees with the textbook listing *)
Example ex_dfs_run' :
  option_map (fun s1 => (out s1, errs s1, found s1, queue s1, vis s1))
             (walk_root ex_accept false 0 (ex_o true) 5 ex_p ex_c ex_root st0) =
  Some ([ (nm "r/d1/b.zip", None); (nm "r/d1/b.zip", Some (nm "m1")); (nm "r/d1/b.zip", Some (nm "m2"));
          (nm "r/d1/l", None); (nm "r/d1/d2", None); (nm "r/d1/d2/d3", None) ],
        [nm "r/bad"], 6, [], [6; 4; 3; 2; 1]).
Proof. vm_compute. reflexivity. Qed.

Example ex_dfs_spec :
  spec_rows ex_accept true 2 3 (preorder true 5 3 ex_p ex_kids) =
  [ (nm "r/d1/b.zip", None); (nm "r/d1/b.zip", Some (nm "m1")); (nm "r/d1/b.zip", Some (nm "m2"));
    (nm "r/d1/l", None); (nm "r/d1/d2", None); (nm "r/d1/d2/d3", None) ]
  /\ failing 3 (preorder true 5 3 ex_p ex_kids) = [nm "r/bad"].
Proof. split; vm_compute; reflexivity. Qed.

(* T1 instantiated *)
Example ex_T1 := T1_dfs ex_accept false (ex_o true) 5 5 (nm "r") 1 false ex_kids ex_p ex_c st0
                        eq_refl ltac:(vm_compute; lia) ltac:(vm_compute; lia) ex_canon_ok ex_names_ok ex_nodup ex_fresh.

(* BFS on the whole tree (no window, nothing ignored): level order *)
Example ex_bfs_run :
  option_map (fun s1 => (map fst (filter (fun r => match snd r with None => true | _ => false end) (out s1)), errs s1, found s1, queue s1))
             (walk_root (fun _ => true) false 0 (ex_o_wide false) 12 ex_p ex_c ex_root st0) =
  Some ([ nm "r/a"; nm "r/d1"; nm "r/bad"; nm "r/ig";
          nm "r/d1/b.zip"; nm "r/d1/l"; nm "r/d1/d2"; nm "r/ig/y";
          nm "r/d1/d2/c"; nm "r/d1/d2/d3"; nm "r/d1/d2/d3/deep" ],
        [nm "r/bad"], 13, []).
Proof. vm_compute. reflexivity. Qed.

Example ex_bfs_eq :
  option_map out (walk_root ex_accept false 0 (ex_o false) 12 ex_p ex_c ex_root st0) =
  Some (spec_rows ex_accept true 2 3 (levelorder true 5 3 ex_p ex_kids)).
Proof. vm_compute. reflexivity. Qed.

Example ex_T2 := T2_bfs ex_accept false (ex_o false) 13 5 (nm "r") 1 false ex_kids ex_p ex_c st0
                        eq_refl ltac:(vm_compute; lia) ltac:(vm_compute; lia) ex_canon_ok ex_names_ok ex_nodup ex_fresh.

(* the fuel bound of T2 is the number of nodes, not the height: the drain loop spends one unit per queued
   directory.  A root with six empty sub-directories has height 2; fuel 3 (> height) runs dry in BFS
   mode although it is plenty for DFS; fuel 7 = nodes suffices. *)
Definition flat_root : node :=
  NDir (nm "w") 1 false true (map (fun i => NDir [48 + i] (10 + i) false true []) [0; 1; 2; 3; 4; 5]).
Example ex_bfs_fuel :
  height flat_root = 2%nat /\ nodes flat_root = 7%nat /\
  walk_root (fun _ => true) false 0 (ex_o_wide false) 3 (nm "w") (nm "/w") flat_root st0 = None /\
  option_map (fun s1 => List.length (out s1)) (walk_root (fun _ => true) false 0 (ex_o_wide true) 3 (nm "w") (nm "/w") flat_root st0) = Some 6%nat /\
  option_map (fun s1 => List.length (out s1)) (walk_root (fun _ => true) false 0 (ex_o_wide false) 7 (nm "w") (nm "/w") flat_root st0) = Some 6%nat.
Proof. repeat split; vm_compute; reflexivity. Qed.

(* T4: LIMIT 4 *)
Example ex_limit_dfs :
  option_map out (walk_root ex_accept false 4 (ex_o true) 12 ex_p ex_c ex_root st0) =
  option_map (fun s1 => firstn 4 (out s1)) (walk_root ex_accept false 0 (ex_o true) 12 ex_p ex_c ex_root st0).
Proof. vm_compute. reflexivity. Qed.
Example ex_limit_bfs :
  option_map out (walk_root (fun _ => true) false 7 (ex_o_wide false) 12 ex_p ex_c ex_root st0) =
  option_map (fun s1 => firstn 7 (out s1)) (walk_root (fun _ => true) false 0 (ex_o_wide false) 12 ex_p ex_c ex_root st0).
Proof. vm_compute. reflexivity. Qed.

Lemma ex_fresh' : fresh (vis st0) (inodes_of ex_kids).
Proof. intros x []. Qed.
Example ex_T4 := T4_limit_root ex_accept 4 13 5 (ex_o false) ex_p ex_c (nm "r") 1 false ex_kids st0
                        eq_refl ltac:(vm_compute; lia) ltac:(vm_compute; lia) ex_canon_ok ex_names_ok ex_nodup ex_fresh'.

(* two roots: the same shape under different inode numbers would be needed; here the second root is a plain file *)
Example ex_roots :
  option_map (fun s1 => (List.length (out s1), errs s1))
    (walk_roots (fun _ => true) false 0 12
       [ (ex_o_wide true, ex_p, ex_c, ex_root); (ex_o_wide true, nm "f", nm "/home/u/f", NFile (nm "f") 99 false None) ] st0) =
  Some (13%nat, [nm "r/bad"; nm "f"]).
Proof. vm_compute. reflexivity. Qed.
Check ex_T1.
Check ex_T2.
Check ex_T4.
Print Assumptions ex_T1.
Print Assumptions ex_T2.
Print Assumptions ex_T4.

(* ---------- the root directory "/" as a search root ---------- *)
(* calc_depth "/" = 1, "/usr" = 2, "/usr/lib" = 3; canon_ok holds for "/" and for every absolute path
   without a trailing separator *)
Example calc_depth_examples :
  calc_depth (nm "/") = 1 /\ calc_depth (nm "/usr") = 2 /\ calc_depth (nm "/usr/lib") = 3 /\
  calc_depth (join_path (nm "/") (nm "usr")) = calc_depth (nm "/") + 1.
Proof. repeat split; vm_compute; reflexivity. Qed.
Example canon_ok_root : canon_ok [47].
Proof. left. reflexivity. Qed.
Example canon_ok_usr : canon_ok (Str.s "/usr").
Proof. right. split; [vm_compute; reflexivity|vm_compute; discriminate]. Qed.
Example canon_ok_rejects : ~ canon_ok (nm "/usr/") /\ ~ canon_ok (nm "usr") /\ ~ canon_ok [].
Proof.
  repeat split; intros [E|[E1 E2]]; try discriminate E; try discriminate E1; vm_compute in E2; now apply E2.
Qed.

(* / { etc/ { passwd, ssl/ { cert } }, usr/ { lib/ { x/ { deep } } }, f } *)
Definition rt_kids : list node :=
  [ NDir (nm "etc") 2 false true
      [ NFile (nm "passwd") 10 false None;
        NDir (nm "ssl") 3 false true [ NFile (nm "cert") 11 false None ] ];
    NDir (nm "usr") 4 false true
      [ NDir (nm "lib") 5 false true [ NDir (nm "x") 6 false true [ NFile (nm "deep") 12 false None ] ] ];
    NFile (nm "f") 13 false None ].
Definition rt_root : node := NDir (nm "/") 1 false true rt_kids.
Definition rt_o (mn mx : N) (dfs : bool) : opts := {| o_min := mn; o_max := mx; o_dfs := dfs; o_arc := false; o_ign := false |}.

(* from / maxdepth 2: exactly the entries at depths 1 and 2 (nothing at depth 3: no /etc/ssl/cert, no /usr/lib/x) *)
Example rt_dfs_max2 :
  option_map (fun s1 => (map fst (out s1), errs s1))
             (walk_root (fun _ => true) false 0 (rt_o 0 2 true) 6 (nm "/") (nm "/") rt_root st0) =
  Some ([ nm "/etc"; nm "/etc/passwd"; nm "/etc/ssl"; nm "/usr"; nm "/usr/lib"; nm "/f" ], []).
Proof. vm_compute. reflexivity. Qed.
Example rt_bfs_max2 :
  option_map (fun s1 => (map fst (out s1), errs s1))
             (walk_roots (fun _ => true) false 0 8 [ (rt_o 0 2 false, nm "/", nm "/", rt_root) ] st0) =
  Some ([ nm "/etc"; nm "/usr"; nm "/f"; nm "/etc/passwd"; nm "/etc/ssl"; nm "/usr/lib" ], []).
Proof. vm_compute. reflexivity. Qed.
(* mindepth 2 maxdepth 2: depth 2 only; mindepth 3 maxdepth 3: depth 3 only; maxdepth 1: the three top entries *)
Example rt_dfs_windows :
  option_map (fun s1 => map fst (out s1))
             (walk_root (fun _ => true) false 0 (rt_o 2 2 true) 6 (nm "/") (nm "/") rt_root st0) =
  Some [ nm "/etc/passwd"; nm "/etc/ssl"; nm "/usr/lib" ] /\
  option_map (fun s1 => map fst (out s1))
             (walk_root (fun _ => true) false 0 (rt_o 3 3 true) 6 (nm "/") (nm "/") rt_root st0) =
  Some [ nm "/etc/ssl/cert"; nm "/usr/lib/x" ] /\
  option_map (fun s1 => map fst (out s1))
             (walk_root (fun _ => true) false 0 (rt_o 0 1 true) 6 (nm "/") (nm "/") rt_root st0) =
  Some [ nm "/etc"; nm "/usr"; nm "/f" ].
Proof. repeat split; vm_compute; reflexivity. Qed.
(* the same tree mounted at /mnt gives the same depth profile *)
Example rt_same_as_subdir :
  option_map (fun s1 => List.length (out s1))
             (walk_root (fun _ => true) false 0 (rt_o 0 2 true) 6 (nm "/") (nm "/") rt_root st0) =
  option_map (fun s1 => List.length (out s1))
             (walk_root (fun _ => true) false 0 (rt_o 0 2 true) 6 (nm "/mnt") (nm "/mnt") (NDir (nm "mnt") 1 false true rt_kids) st0).
Proof. vm_compute. reflexivity. Qed.
(* the model agrees with the specification listing at the root, and T1 / T2 apply to it *)
Example rt_spec :
  option_map out (walk_root (fun _ => true) false 0 (rt_o 0 2 true) 6 (nm "/") (nm "/") rt_root st0) =
  Some (spec_rows (fun _ => true) false 0 2 (preorder false 5 2 (nm "/") rt_kids)).
Proof. vm_compute. reflexivity. Qed.
Lemma rt_names_ok : names_ok rt_kids.
Proof. vm_compute. reflexivity. Qed.
Lemma rt_nodup : NoDup (1 :: inodes_of rt_kids).
Proof. vm_compute. repeat (constructor; [cbn; intuition discriminate|]). constructor. Qed.
Lemma rt_fresh : forall x, In x (vis st0) -> ~ In x (1 :: inodes_of rt_kids).
Proof. intros x []. Qed.
Example rt_T1 := T1_dfs (fun _ => true) false (rt_o 0 2 true) 5 5 (nm "/") 1 false rt_kids (nm "/") (nm "/") st0
                        eq_refl ltac:(vm_compute; lia) ltac:(vm_compute; lia) canon_ok_root rt_names_ok rt_nodup rt_fresh.
Example rt_T2 := T2_bfs (fun _ => true) false (rt_o 0 2 false) 10 5 (nm "/") 1 false rt_kids (nm "/") (nm "/") st0
                        eq_refl ltac:(vm_compute; lia) ltac:(vm_compute; lia) canon_ok_root rt_names_ok rt_nodup rt_fresh.
Check rt_T1.
Check rt_T2.
Print Assumptions rt_T1.
Print Assumptions rt_T2.
