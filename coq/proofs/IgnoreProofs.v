(* .dockerignore / .hgignore: the regular expressions built by src/ignore/docker.rs and
   src/ignore/hg.rs (model/Ignore.v) against the regex-free reference matchers
   (spec/IgnoreSpec.v).  See the summary at the end of the file. *)
From Coq Require Import List NArith Bool Lia String.
From FS Require Import lib.Str lib.Regex lib.RegexParse spec.IgnoreSpec model.Ignore.
Import ListNotations.
Open Scope N_scope.

(* ================================================================== 0. strings *)
Definition nonl (w : str) : bool := forallb (fun c => negb (c =? 10)) w.
Definition no_backslash (w : str) : bool := negb (contains_char 92 w).

Lemma nonl_app u v : nonl (u ++ v) = true <-> nonl u = true /\ nonl v = true.
Proof. unfold nonl. rewrite forallb_app, andb_true_iff. reflexivity. Qed.

Lemma tsm_drop_while f x : trim_start_matches f x = drop_while f x.
Proof. induction x as [|c x IH]; cbn; [reflexivity|]. now rewrite IH. Qed.
Lemma tem_drop_end f x : trim_end_matches f x = drop_end f x.
Proof. unfold trim_end_matches, drop_end. now rewrite tsm_drop_while. Qed.
Lemma trim_strip x : trim x = strip x.
Proof. unfold trim, strip, trim_start. now rewrite tem_drop_end, tsm_drop_while. Qed.
Lemma line_kept_skipped line : line_kept line = negb (line_skipped line).
Proof.
  unfold line_kept, line_skipped. rewrite trim_strip, negb_orb.
  destruct (strip line); reflexivity.
Qed.

Lemma contains_char_app c u v : contains_char c (u ++ v) = contains_char c u || contains_char c v.
Proof. induction u as [|d u IH]; cbn; [reflexivity|]. now rewrite IH, orb_assoc. Qed.
Lemma contains_char_rev c u : contains_char c (rev u) = contains_char c u.
Proof.
  induction u as [|d u IH]; cbn; [reflexivity|].
  rewrite contains_char_app, IH. cbn. rewrite orb_false_r. apply orb_comm.
Qed.
(* dropping characters other than c does not change whether c occurs *)
Lemma contains_drop_while c f x : f c = false -> contains_char c (drop_while f x) = contains_char c x.
Proof.
  intros F. induction x as [|d x IH]; cbn; [reflexivity|].
  destruct (f d) eqn:Fd; [|reflexivity]. rewrite IH.
  destruct (N.eqb_spec c d) as [->|_]; [congruence|reflexivity].
Qed.
Lemma contains_drop_end c f x : f c = false -> contains_char c (drop_end f x) = contains_char c x.
Proof. intros F. unfold drop_end. now rewrite contains_char_rev, contains_drop_while, contains_char_rev. Qed.
(* dropping never introduces a character *)
Lemma contains_drop_while_le c f x : contains_char c x = false -> contains_char c (drop_while f x) = false.
Proof.
  induction x as [|d x IH]; cbn; [reflexivity|]. intros H. apply orb_false_iff in H. destruct H as [H1 H2].
  destruct (f d); [now apply IH|]. cbn. now rewrite H1, H2.
Qed.
Lemma contains_drop_end_le c f x : contains_char c x = false -> contains_char c (drop_end f x) = false.
Proof.
  intros H. unfold drop_end. rewrite contains_char_rev. apply contains_drop_while_le. now rewrite contains_char_rev.
Qed.

(* x does not end with `/` *)
Fixpoint ends_slash (x : str) : bool :=
  match x with [] => false | c :: r => match r with [] => c =? 47 | _ :: _ => ends_slash r end end.

Lemma ends_slash_app_single x c : ends_slash (x ++ [c]) = (c =? 47).
Proof.
  induction x as [|d x IH]; [reflexivity|].
  change ((d :: x) ++ [c]) with (d :: (x ++ [c])). cbn [ends_slash]. destruct (x ++ [c]) eqn:E.
  - destruct x; discriminate.
  - exact IH.
Qed.
Lemma ends_slash_rev_cons c y : ends_slash (rev (c :: y)) = (c =? 47).
Proof. cbn [rev]. apply ends_slash_app_single. Qed.

Lemma drop_end_slash_no_trailing x : ends_slash (drop_end IgnoreSpec.is_slash x) = false.
Proof.
  unfold drop_end. induction (rev x) as [|c y IH]; [reflexivity|].
  cbn [drop_while]. destruct (IgnoreSpec.is_slash c) eqn:E; [exact IH|].
  rewrite ends_slash_rev_cons. exact E.
Qed.

(* ================================================================== 1. regex::escape *)
Lemma needs_escape_meta c : needs_escape c = is_meta c.
Proof. reflexivity. Qed.

Lemma not_meta_lit c : needs_escape c = false -> classify c = KLit.
Proof.
  intros H. apply classify_lit; intros ->; vm_compute in H; discriminate H.
Qed.

Definition chars (x : str) : list re := map (fun c => Chr c) x.

(* the parser reads regex::escape(x) as the literal characters of x *)
Lemma go_escape x : forall stk alts sq q rest,
  go false false stk alts sq q None (regex_escape x ++ rest)
  = go false false stk alts (rev (chars x) ++ sq) (match x with [] => q | _ => false end) None rest.
Proof.
  induction x as [|c x IH]; intros stk alts sq q rest; [reflexivity|].
  unfold regex_escape. cbn [flat_map]. fold (regex_escape x). rewrite <- app_assoc.
  assert (E : go false false stk alts sq q None (escape_char c ++ regex_escape x ++ rest)
              = go false false stk alts (Chr c :: sq) false None (regex_escape x ++ rest)).
  { unfold escape_char. destruct (needs_escape c) eqn:M.
    - cbn [app]. now rewrite go_esc by (now rewrite <- needs_escape_meta).
    - cbn [app]. now rewrite go_lit by (now apply not_meta_lit). }
  rewrite E, IH. cbn [chars map rev]. rewrite <- app_assoc. cbn [app].
  destruct x; reflexivity.
Qed.

Lemma strip_flag_not_paren x : hd 0 x <> 40 -> strip_flag x = ((false, false), x).
Proof.
  destruct x as [|a [|b [|c [|d r]]]]; try reflexivity. cbn [hd]. intros H.
  unfold strip_flag. now rewrite (proj2 (N.eqb_neq a 40) H).
Qed.
Lemma strip_caret_not_caret x : hd 0 x <> 94 -> strip_caret x = (false, x).
Proof.
  destruct x as [|a r]; [reflexivity|]. cbn [hd]. intros H. unfold strip_caret.
  now rewrite (proj2 (N.eqb_neq a 94) H).
Qed.

Lemma escape_hd x rest : hd 0 rest <> 40 -> hd 0 rest <> 94 ->
  hd 0 (regex_escape x ++ rest) <> 40 /\ hd 0 (regex_escape x ++ rest) <> 94.
Proof.
  intros H1 H2. destruct x as [|c x]; [now split|].
  unfold regex_escape. cbn [flat_map]. unfold escape_char. destruct (needs_escape c) eqn:M.
  - cbn. split; discriminate.
  - cbn. split; intros ->; vm_compute in M; discriminate M.
Qed.

Lemma lang_chars x w : lang (fold_right Seq Eps (chars x)) w <-> w = x.
Proof.
  revert w; induction x as [|c x IH]; intros w; cbn [chars map fold_right].
  - apply lang_eps_iff.
  - rewrite lang_seq_iff. split.
    + intros (u & v & -> & Hu & Hv). apply lang_sym in Hu. destruct Hu as (d & -> & T).
      cbn [cset_test] in T. apply N.eqb_eq in T. subst d. apply IH in Hv. now subst.
    + intros ->. exists [c], x. repeat split.
      * constructor. cbn [cset_test]. apply N.eqb_refl.
      * now apply IH.
Qed.

(* escape_literal: for EVERY string x, regex::escape(x) parses, unanchored, to a body whose
   language is exactly {x}.  lib/RegexParse accepts all eighteen escapes that regex::escape
   produces (including \# \& \- \~), so x is unrestricted. *)
Theorem escape_literal x :
  exists b, parse_regex (regex_escape x) = Some (mkrx false false b) /\ forall w, lang b w <-> w = x.
Proof.
  exists (fold_right Seq Eps (chars x)). split; [|apply lang_chars].
  unfold parse_regex.
  assert (H := escape_hd x [] ltac:(cbn; discriminate) ltac:(cbn; discriminate)). rewrite app_nil_r in H.
  destruct H as [H1 H2]. rewrite (strip_flag_not_paren _ H1), (strip_caret_not_caret _ H2).
  cbn [fst snd orb]. rewrite (strip_flag_not_paren _ H1). cbn [fst snd orb].
  rewrite <- (app_nil_r (regex_escape x)), go_escape, app_nil_r.
  cbn [go close is_nil fold_left negb andb]. now rewrite close_seq_rev.
Qed.

(* consequently: Regex::new(escape(x)).is_match(w) iff x occurs in w *)
Corollary escape_literal_is_match x w :
  is_match (regex_escape x) w = Some (find_sub x w).
Proof.
  destruct (escape_literal x) as (b & P & L). unfold is_match. rewrite P. f_equal.
  apply eq_true_iff_eq. rewrite rx_re_ok, find_sub_spec. cbn [anchored_start anchored_end body]. split.
  - intros (a & m & c & -> & Hm & _). apply L in Hm. subst. now exists a, c.
  - intros (a & c & ->). exists a, x, c. repeat split; try discriminate. now apply L.
Qed.

(* ================================================================== 2. tokens: texts and regexes *)
Definition noslash : cset := CClass true [(47, 47)].
Definition dirs_re : re := Opt (Seq (Star Any) (Seq (Chr 47) Eps)).        (* (.*/)?  and  (?:.*/)? *)

(* the regex of a token; q_any = `?` is `.` (hg) rather than `[^/]` (docker) *)
Definition tok_re (q_any : bool) (t : tok) : re :=
  match t with
  | TChr c => Chr c
  | TQ => if q_any then Any else Sym noslash
  | TStar => Star (Sym noslash)
  | TAny => Star Any
  | TDirs => dirs_re
  end.
Definition toks_re (q_any : bool) (toks : list tok) : list re := map (tok_re q_any) toks.

(* the text docker.rs emits for a token (when `**` is final or followed by `/`) *)
Definition docker_tok_text (t : tok) : str :=
  match t with
  | TChr c => escape_char c
  | TQ => s "[^/]"
  | TStar => s "[^/]*"
  | TAny => s ".*"
  | TDirs => s "(.*/)?"
  end.

(* the characters hg.rs escapes (single-character rows of hg_glob_table other than * and ?) *)
Definition hg_escaped (c : N) : bool := existsb (N.eqb c) [46; 91; 93; 40; 41; 94; 36; 43; 124; 123; 125].
Definition hg_tok_text (t : tok) : str :=
  match t with
  | TChr c => if hg_escaped c then [92; c] else [c]
  | TQ => s "."
  | TStar => s "[^/]*"
  | TAny => s ".*"
  | TDirs => s "(?:.*/)?"
  end.

Lemma docker_tok_step t stk alts sq q rest : exists q',
  go false false stk alts sq q None (docker_tok_text t ++ rest)
  = go false false stk alts (tok_re false t :: sq) q' None rest.
Proof.
  destruct t as [c| | | |]; cbn [docker_tok_text tok_re].
  - exists false. unfold escape_char. destruct (needs_escape c) eqn:M; cbn [app].
    + now rewrite go_esc.
    + now rewrite go_lit by (now apply not_meta_lit).
  - exists false. destruct rest as [|h rest]; reflexivity.
  - exists true. reflexivity.
  - exists true. reflexivity.
  - exists true. reflexivity.
Qed.

(* a literal token that hg.rs can emit safely: not `*`, `?` (never literal tokens) and not `\` *)
Definition tok_lit_ok (t : tok) : bool :=
  match t with TChr c => negb (c =? 42) && negb (c =? 63) && negb (c =? 92) | _ => true end.

Lemma hg_tok_step t stk alts sq q rest : tok_lit_ok t = true -> exists q',
  go false false stk alts sq q None (hg_tok_text t ++ rest)
  = go false false stk alts (tok_re true t :: sq) q' None rest.
Proof.
  intros OK. destruct t as [c| | | |]; cbn [hg_tok_text tok_re].
  - exists false. destruct (hg_escaped c) eqn:M; cbn [app].
    + rewrite go_esc; [reflexivity|].
      unfold hg_escaped in M. cbn [existsb] in M. rewrite !orb_true_iff in M.
      repeat (destruct M as [M|M]; [apply N.eqb_eq in M; subst c; reflexivity|]). discriminate M.
    + rewrite go_lit; [reflexivity|].
      cbn [tok_lit_ok] in OK. rewrite !andb_true_iff, !negb_true_iff, !N.eqb_neq in OK.
      destruct OK as [[O1 O2] O3].
      apply classify_lit; try assumption; intros ->; vm_compute in M; discriminate M.
  - exists false. reflexivity.
  - exists true. reflexivity.
  - exists true. reflexivity.
  - exists true. reflexivity.
Qed.

Lemma docker_toks_go toks : forall stk alts sq q rest, exists q',
  go false false stk alts sq q None (flat_map docker_tok_text toks ++ rest)
  = go false false stk alts (rev (toks_re false toks) ++ sq) q' None rest.
Proof.
  induction toks as [|t toks IH]; intros stk alts sq q rest.
  - exists q. reflexivity.
  - cbn [flat_map toks_re map rev]. rewrite <- !app_assoc.
    destruct (docker_tok_step t stk alts sq q (flat_map docker_tok_text toks ++ rest)) as [q1 E1]. rewrite E1.
    destruct (IH stk alts (tok_re false t :: sq) q1 rest) as [q2 E2]. rewrite E2.
    exists q2. reflexivity.
Qed.

Lemma hg_toks_go toks : forallb tok_lit_ok toks = true -> forall stk alts sq q rest, exists q',
  go false false stk alts sq q None (flat_map hg_tok_text toks ++ rest)
  = go false false stk alts (rev (toks_re true toks) ++ sq) q' None rest.
Proof.
  induction toks as [|t toks IH]; intros OK stk alts sq q rest.
  - exists q. reflexivity.
  - cbn [forallb] in OK. apply andb_true_iff in OK. destruct OK as [OKt OK].
    cbn [flat_map toks_re map rev]. rewrite <- !app_assoc.
    destruct (hg_tok_step t stk alts sq q (flat_map hg_tok_text toks ++ rest) OKt) as [q1 E1]. rewrite E1.
    destruct (IH OK stk alts (tok_re true t :: sq) q1 rest) as [q2 E2]. rewrite E2.
    exists q2. reflexivity.
Qed.

(* ---- induction along glob_tokens ---- *)
Lemma glob_ind (P : str -> Prop) :
  P [] -> P [42] -> P [42; 42] ->
  (forall r3, P r3 -> P (42 :: 42 :: 47 :: r3)) ->
  (forall e r3, e <> 47 -> P (e :: r3) -> P (42 :: 42 :: e :: r3)) ->
  (forall d r2, d <> 42 -> P (d :: r2) -> P (42 :: d :: r2)) ->
  (forall r, P r -> P (63 :: r)) ->
  (forall c r, c <> 42 -> c <> 63 -> P r -> P (c :: r)) ->
  forall p, P p.
Proof.
  intros H0 H1 H2 H3 H4 H5 H6 H7 p.
  assert (G : forall n p, (List.length p <= n)%nat -> P p).
  { induction n as [|n IH]; intros q L.
    - destruct q; [exact H0|cbn in L; lia].
    - destruct q as [|c r]; [exact H0|]. cbn [List.length] in L.
      destruct (N.eqb_spec c 42) as [->|Nc].
      + destruct r as [|d r2]; [exact H1|]. cbn [List.length] in L.
        destruct (N.eqb_spec d 42) as [->|Nd].
        * destruct r2 as [|e r3]; [exact H2|]. cbn [List.length] in L.
          destruct (N.eqb_spec e 47) as [->|Ne].
          -- apply H3. apply IH. lia.
          -- apply H4; [exact Ne|]. apply IH. cbn [List.length]. lia.
        * apply H5; [exact Nd|]. apply IH. cbn [List.length]. lia.
      + destruct (N.eqb_spec c 63) as [->|Nq].
        * apply H6. apply IH. lia.
        * apply H7; try assumption. apply IH. lia. }
  apply (G (List.length p)). lia.
Qed.

(* equations of glob_tokens along that induction *)
Lemma gt_dirs r3 : glob_tokens (42 :: 42 :: 47 :: r3) = TDirs :: glob_tokens r3.
Proof. reflexivity. Qed.
Lemma gt_any e r3 : e <> 47 -> glob_tokens (42 :: 42 :: e :: r3) = TAny :: glob_tokens (e :: r3).
Proof. intros H. cbn [glob_tokens N.eqb Pos.eqb]. now rewrite (proj2 (N.eqb_neq e 47) H). Qed.
Lemma gt_star d r2 : d <> 42 -> glob_tokens (42 :: d :: r2) = TStar :: glob_tokens (d :: r2).
Proof. intros H. cbn [glob_tokens N.eqb Pos.eqb]. now rewrite (proj2 (N.eqb_neq d 42) H). Qed.
Lemma gt_q r : glob_tokens (63 :: r) = TQ :: glob_tokens r.
Proof. reflexivity. Qed.
Lemma gt_chr c r : c <> 42 -> c <> 63 -> glob_tokens (c :: r) = TChr c :: glob_tokens r.
Proof.
  intros H1 H2. cbn [glob_tokens]. now rewrite (proj2 (N.eqb_neq c 42) H1), (proj2 (N.eqb_neq c 63) H2).
Qed.

(* ================================================================== 3. the two converters emit the token texts *)
(* `**` may only be the last token (otherwise docker.rs emits (.*/)? where the reference reads .* ) *)
Fixpoint any_only_last (toks : list tok) : bool :=
  match toks with
  | [] => true
  | t :: r => (match t with TAny => is_empty r | _ => true end) && any_only_last r
  end.

Lemma ends_slash_cons2 c d r : ends_slash (c :: d :: r) = ends_slash (d :: r).
Proof. reflexivity. Qed.

Lemma glob_tokens_nonempty c r : glob_tokens (c :: r) <> [].
Proof.
  cbn [glob_tokens]. destruct (c =? 42); [|destruct (c =? 63); discriminate].
  destruct r as [|d r2]; [discriminate|]. destruct (d =? 42); [|discriminate].
  destruct r2 as [|e r3]; [discriminate|]. destruct (e =? 47); discriminate.
Qed.

Lemma docker_loop_tokens g :
  ends_slash g = false -> any_only_last (glob_tokens g) = true ->
  docker_glob_loop g = flat_map docker_tok_text (glob_tokens g).
Proof.
  induction g as [ | | |r3 IH|e r3 Ne IH|d r2 Nd IH|r IH|c r Nc Nq IH] using glob_ind; intros ES WF.
  - reflexivity.
  - reflexivity.
  - reflexivity.
  - (* **/ r3 *)
    rewrite gt_dirs in *. cbn [any_only_last andb] in WF. cbn [flat_map docker_tok_text].
    destruct r3 as [|x g]; [discriminate ES|].
    rewrite <- IH; [reflexivity|exact ES|exact WF].
  - (* ** e r3, e not / : excluded *)
    rewrite gt_any in WF by assumption. cbn [any_only_last] in WF.
    destruct (glob_tokens (e :: r3)) eqn:E; [now apply glob_tokens_nonempty in E|discriminate WF].
  - (* * d r2 *)
    rewrite gt_star in * by assumption. cbn [any_only_last andb] in WF. cbn [flat_map docker_tok_text].
    rewrite <- IH; [|exact ES|exact WF].
    cbn [docker_glob_loop N.eqb Pos.eqb]. now rewrite (proj2 (N.eqb_neq d 42) Nd).
  - (* ? r *)
    rewrite gt_q in *. cbn [any_only_last andb] in WF. cbn [flat_map docker_tok_text].
    destruct r as [|x g]; [reflexivity|]. rewrite <- IH; [reflexivity|exact ES|exact WF].
  - (* c r *)
    rewrite gt_chr in * by assumption. cbn [any_only_last andb] in WF. cbn [flat_map docker_tok_text].
    assert (E : docker_glob_loop (c :: r) = regex_escape [c] ++ docker_glob_loop r).
    { cbn [docker_glob_loop]. now rewrite (proj2 (N.eqb_neq c 42) Nc), (proj2 (N.eqb_neq c 63) Nq). }
    rewrite E. unfold regex_escape. cbn [flat_map]. rewrite app_nil_r.
    destruct r as [|x g]; [reflexivity|]. rewrite <- IH; [reflexivity|exact ES|exact WF].
Qed.

(* hg: Regex::replace_all with the token table, for EVERY glob text *)
Lemma first_token_none c r :
  c <> 42 -> c <> 63 -> hg_escaped c = false -> first_token hg_glob_table (c :: r) = None.
Proof.
  intros H1 H2 H3. unfold hg_escaped in H3. cbn [existsb] in H3. rewrite !orb_false_iff in H3.
  repeat match type of H3 with _ /\ _ => let A := fresh "A" in destruct H3 as [A H3]; apply N.eqb_neq in A end.
  let tb := eval vm_compute in hg_glob_table in change hg_glob_table with tb.
  cbn [first_token starts_with].
  rewrite !(proj2 (N.eqb_neq 42 c)) by congruence.
  rewrite !(proj2 (N.eqb_neq 63 c)) by congruence.
  rewrite !(proj2 (N.eqb_neq _ c)) by congruence.
  reflexivity.
Qed.

Lemma rt_any e r3 : e <> 47 ->
  replace_tokens hg_glob_table O (42 :: 42 :: e :: r3) = s ".*" ++ replace_tokens hg_glob_table O (e :: r3).
Proof.
  intros H. let tb := eval vm_compute in hg_glob_table in change hg_glob_table with tb.
  cbn -[N.eqb]. rewrite !N.eqb_refl, (proj2 (N.eqb_neq 47 e)) by congruence. reflexivity.
Qed.
Lemma rt_star d r2 : d <> 42 ->
  replace_tokens hg_glob_table O (42 :: d :: r2) = s "[^/]*" ++ replace_tokens hg_glob_table O (d :: r2).
Proof.
  intros H. let tb := eval vm_compute in hg_glob_table in change hg_glob_table with tb.
  cbn -[N.eqb]. rewrite !N.eqb_refl, !(proj2 (N.eqb_neq 42 d)) by congruence. reflexivity.
Qed.

Lemma hg_replace_tokens g :
  replace_tokens hg_glob_table O g = flat_map hg_tok_text (glob_tokens g).
Proof.
  induction g as [ | | |r3 IH|e r3 Ne IH|d r2 Nd IH|r IH|c r Nc Nq IH] using glob_ind.
  - reflexivity.
  - reflexivity.
  - reflexivity.
  - rewrite gt_dirs. cbn [flat_map hg_tok_text]. rewrite <- IH. reflexivity.
  - rewrite gt_any, rt_any by assumption. cbn [flat_map hg_tok_text]. now rewrite <- IH.
  - rewrite gt_star, rt_star by assumption. cbn [flat_map hg_tok_text]. now rewrite <- IH.
  - rewrite gt_q. cbn [flat_map hg_tok_text]. rewrite <- IH. reflexivity.
  - rewrite gt_chr by assumption. cbn [flat_map hg_tok_text]. rewrite <- IH.
    destruct (hg_escaped c) eqn:M.
    + unfold hg_escaped in M. cbn [existsb] in M. rewrite !orb_true_iff in M.
      repeat (destruct M as [M|M]; [apply N.eqb_eq in M; subst c; reflexivity|]). discriminate M.
    + cbn [replace_tokens]. now rewrite first_token_none.
Qed.

Lemma glob_tokens_lit_ok g : no_backslash g = true -> forallb tok_lit_ok (glob_tokens g) = true.
Proof.
  unfold no_backslash.
  induction g as [ | | |r3 IH|e r3 Ne IH|d r2 Nd IH|r IH|c r Nc Nq IH] using glob_ind; intros NB; try reflexivity.
  - rewrite gt_dirs. apply IH. cbn in NB. exact NB.
  - rewrite gt_any by assumption. apply IH. cbn in NB. exact NB.
  - rewrite gt_star by assumption. apply IH. cbn in NB. exact NB.
  - rewrite gt_q. apply IH. cbn in NB. exact NB.
  - rewrite gt_chr by assumption. cbn [forallb tok_lit_ok]. cbn [contains_char] in NB.
    rewrite negb_orb in NB. apply andb_true_iff in NB. destruct NB as [N1 N2].
    rewrite IH by exact N2. rewrite (proj2 (N.eqb_neq c 42) Nc), (proj2 (N.eqb_neq c 63) Nq).
    rewrite N.eqb_sym. rewrite N1. reflexivity.
Qed.

(* ================================================================== 4. language of the token regexes *)
Lemma lang_star_sym k u : lang (Star (Sym k)) u <-> forallb (cset_test k) u = true.
Proof.
  induction u as [|c u IH].
  - split; [reflexivity|constructor].
  - cbn [forallb]. rewrite andb_true_iff, <- IH. split.
    + intros H. apply star_cons in H. destruct H as (x & v & E & Hx & Hv).
      apply lang_sym in Hx. destruct Hx as (d & Ed & T). inversion Ed; subst. cbn [app]. now split.
    + intros [T H]. change (c :: u) with ([c] ++ u). apply LStarS; [now constructor|exact H].
Qed.

Lemma lang_seq_list_cons a l w :
  lang (fold_right Seq Eps (a :: l)) w <-> exists u v, w = u ++ v /\ lang a u /\ lang (fold_right Seq Eps l) v.
Proof. cbn [fold_right]. apply lang_seq_iff. Qed.

Lemma lang_seq_list_app l1 l2 : forall w,
  lang (fold_right Seq Eps (l1 ++ l2)) w <->
  exists u v, w = u ++ v /\ lang (fold_right Seq Eps l1) u /\ lang (fold_right Seq Eps l2) v.
Proof.
  induction l1 as [|a l1 IH]; intros w.
  - cbn [app fold_right]. split.
    + intros H. exists [], w. repeat split; [constructor|exact H].
    + intros (u & v & -> & Hu & Hv). apply lang_eps in Hu. now subst.
  - cbn [app]. rewrite lang_seq_list_cons. split.
    + intros (u & v & -> & Hu & Hv). apply IH in Hv. destruct Hv as (u' & v' & -> & Hu' & Hv').
      exists (u ++ u'), v'. rewrite app_assoc. repeat split; [|exact Hv'].
      apply lang_seq_list_cons. now exists u, u'.
    + intros (u & v & -> & Hu & Hv). apply lang_seq_list_cons in Hu. destruct Hu as (x & y & -> & Hx & Hy).
      exists x, (y ++ v). rewrite app_assoc. repeat split; [exact Hx|]. apply IH. now exists y, v.
Qed.

Lemma noslash_test c : cset_test noslash c = negb (c =? 47).
Proof.
  unfold noslash. cbn [cset_test existsb]. rewrite orb_false_r. unfold in_range. cbn [fst snd].
  destruct (N.eqb_spec c 47) as [->|H]; [reflexivity|]. cbn [negb].
  destruct (N.leb_spec 47 c), (N.leb_spec c 47); cbn; try reflexivity. lia.
Qed.

Definition not_slash (c : N) : bool := negb (c =? 47).

Lemma forallb_ext (f g : N -> bool) l : (forall a, f a = g a) -> forallb f l = forallb g l.
Proof. intros E. induction l as [|a l IH]; cbn; [reflexivity|]. now rewrite E, IH. Qed.
Lemma forallb_noslash u : forallb (cset_test noslash) u = forallb not_slash u.
Proof. apply forallb_ext. intros a. apply noslash_test. Qed.

Lemma star_from_ok f w :
  star_from f w = true <-> exists u v, w = u ++ v /\ forallb not_slash u = true /\ f v = true.
Proof.
  induction w as [|c w IH]; cbn [star_from].
  - rewrite orb_false_r. split.
    + intros H. now exists [], [].
    + intros (u & v & E & _ & H). symmetry in E. apply app_eq_nil in E. destruct E as [_ ->]. exact H.
  - rewrite orb_true_iff, andb_true_iff, IH. split.
    + intros [H|[T (u & v & -> & Hu & Hv)]]; [now exists [], (c :: w)|].
      exists (c :: u), v. repeat split; [|exact Hv]. cbn [forallb]. unfold not_slash at 1. now rewrite T.
    + intros (u & v & E & Hu & Hv). destruct u as [|d u].
      * cbn [app] in E. subst. now left.
      * cbn [app] in E. inversion E; subst. cbn [forallb] in Hu. apply andb_true_iff in Hu.
        destruct Hu as [T Hu]. right. split; [exact T|]. now exists u, v.
Qed.

Lemma any_from_ok f w : any_from f w = true <-> exists u v, w = u ++ v /\ f v = true.
Proof.
  induction w as [|c w IH]; cbn [any_from].
  - rewrite orb_false_r. split.
    + intros H. now exists [], [].
    + intros (u & v & E & H). symmetry in E. apply app_eq_nil in E. destruct E as [_ ->]. exact H.
  - rewrite orb_true_iff, IH. split.
    + intros [H|(u & v & -> & Hv)]; [now exists [], (c :: w)|]. now exists (c :: u), v.
    + intros (u & v & E & Hv). destruct u as [|d u].
      * cbn [app] in E. subst. now left.
      * cbn [app] in E. inversion E; subst. right. now exists u, v.
Qed.

Lemma after_slash_ok f w : after_slash f w = true <-> exists u v, w = u ++ 47 :: v /\ f v = true.
Proof.
  induction w as [|c w IH]; cbn [after_slash].
  - split; [discriminate|]. intros (u & v & E & _). destruct u; discriminate.
  - rewrite orb_true_iff, andb_true_iff, IH. split.
    + intros [[T H]|(u & v & -> & Hv)].
      * apply N.eqb_eq in T. subst. now exists [], w.
      * now exists (c :: u), v.
    + intros (u & v & E & Hv). destruct u as [|d u].
      * cbn [app] in E. inversion E; subst. left. split; [apply N.eqb_refl|exact Hv].
      * cbn [app] in E. inversion E; subst. right. now exists u, v.
Qed.

Lemma any_test c : cset_test CAny c = negb (c =? 10).
Proof. reflexivity. Qed.

Lemma lang_star_any u : lang (Star Any) u <-> nonl u = true.
Proof. rewrite lang_star_sym. reflexivity. Qed.

(* (.*/)? : nothing, or anything without newline followed by `/` *)
Lemma lang_dirs u : lang dirs_re u <-> u = [] \/ exists u', u = u' ++ [47] /\ nonl u' = true.
Proof.
  unfold dirs_re. rewrite lang_opt. split.
  - intros [H|H]; [|now left]. right.
    apply lang_seq in H. destruct H as (x & y & -> & Hx & Hy).
    apply lang_seq in Hy. destruct Hy as (y1 & y2 & -> & Hy1 & Hy2).
    apply lang_eps in Hy2. subst. apply lang_sym in Hy1. destruct Hy1 as (d & -> & T).
    cbn [cset_test] in T. apply N.eqb_eq in T. subst. rewrite app_nil_r.
    exists x. split; [reflexivity|now apply lang_star_any].
  - intros [->|(u' & -> & N)]; [now right|]. left.
    constructor; [now apply lang_star_any|].
    change [47] with ([47] ++ []). constructor; [|constructor]. constructor. apply N.eqb_refl.
Qed.

(* the regex of a token list denotes exactly the strings glob_full accepts (newline-free subject) *)
Theorem lang_toks qa toks : forall w, nonl w = true ->
  (lang (fold_right Seq Eps (toks_re qa toks)) w <-> glob_full qa toks w = true).
Proof.
  induction toks as [|t toks IH]; intros w NL.
  - cbn [toks_re map fold_right glob_full]. rewrite lang_eps_iff. destruct w; cbn; split; congruence.
  - unfold toks_re. cbn [map]. fold (toks_re qa toks). rewrite lang_seq_list_cons.
    destruct t as [c| | | |]; cbn [tok_re glob_full].
    + (* literal *)
      split.
      * intros (u & v & -> & Hu & Hv). apply lang_sym in Hu. destruct Hu as (d & -> & T).
        cbn [cset_test] in T. cbn [app]. rewrite T. cbn [andb]. apply IH; [|exact Hv].
        apply (nonl_app [d] v) in NL. apply NL.
      * destruct w as [|d w]; [discriminate|]. intros H. apply andb_true_iff in H. destruct H as [T H].
        exists [d], w. repeat split; [now constructor|]. apply IH; [|exact H].
        apply (nonl_app [d] w) in NL. apply NL.
    + (* ? *)
      split.
      * intros (u & v & -> & Hu & Hv).
        assert (exists d, u = [d] /\ (qa || negb (d =? 47)) = true) as (d & -> & T).
        { destruct qa; apply lang_sym in Hu; destruct Hu as (d & -> & T); exists d; split; try reflexivity.
          now rewrite noslash_test in T. }
        cbn [app]. rewrite T. cbn [andb]. apply IH; [|exact Hv]. apply (nonl_app [d] v) in NL. apply NL.
      * destruct w as [|d w]; [discriminate|]. intros H. apply andb_true_iff in H. destruct H as [T H].
        pose proof (proj1 (nonl_app [d] w) NL) as [N1 N2].
        exists [d], w. repeat split; [|now apply IH].
        destruct qa; constructor.
        -- rewrite any_test. cbn [nonl forallb] in N1. now rewrite andb_true_r in N1.
        -- now rewrite noslash_test.
    + (* * *)
      rewrite star_from_ok. split.
      * intros (u & v & -> & Hu & Hv). exists u, v. repeat split.
        -- apply lang_star_sym in Hu. now rewrite forallb_noslash in Hu.
        -- apply IH; [|exact Hv]. apply nonl_app in NL. apply NL.
      * intros (u & v & -> & Hu & Hv). exists u, v. repeat split.
        -- apply lang_star_sym. now rewrite forallb_noslash.
        -- apply IH; [|exact Hv]. apply nonl_app in NL. apply NL.
    + (* ** *)
      rewrite any_from_ok. split.
      * intros (u & v & -> & Hu & Hv). exists u, v. split; [reflexivity|].
        apply IH; [|exact Hv]. apply nonl_app in NL. apply NL.
      * intros (u & v & -> & Hv). apply nonl_app in NL. destruct NL as [N1 N2].
        exists u, v. repeat split; [now apply lang_star_any|now apply IH].
    + (* **/ *)
      rewrite orb_true_iff, after_slash_ok. split.
      * intros (u & v & -> & Hu & Hv). apply nonl_app in NL. destruct NL as [N1 N2].
        apply lang_dirs in Hu. destruct Hu as [->|(u' & -> & N')].
        -- left. now apply IH.
        -- right. exists u', v. rewrite <- app_assoc. split; [reflexivity|now apply IH].
      * intros [H|(u & v & -> & Hv)].
        -- exists [], w. repeat split; [apply lang_dirs; now left|now apply IH].
        -- apply nonl_app in NL. destruct NL as [N1 N2].
           apply (nonl_app [47] v) in N2. destruct N2 as [_ N2].
           exists (u ++ [47]), v. rewrite <- app_assoc. repeat split; [|now apply IH].
           apply lang_dirs. right. now exists u.
Qed.

(* ================================================================== 5. Docker: one pattern *)
Definition docker_tail : re := Opt (Seq (Chr 47) (Seq (Star Any) Eps)).     (* the final optional group: slash, dot, star *)

Lemma go_docker_tail sq q :
  go false false [] [] sq q None (s "(/.*)?$") = Some (close_seq (docker_tail :: sq), true, false).
Proof. reflexivity. Qed.

Lemma lang_docker_tail t : lang docker_tail t <-> t = [] \/ exists v, t = 47 :: v /\ nonl v = true.
Proof.
  unfold docker_tail. rewrite lang_opt. split.
  - intros [H|H]; [|now left]. right.
    apply lang_seq in H. destruct H as (x & y & -> & Hx & Hy).
    apply lang_sym in Hx. destruct Hx as (d & -> & T). cbn [cset_test] in T. apply N.eqb_eq in T. subst.
    apply lang_seq in Hy. destruct Hy as (y1 & y2 & -> & Hy1 & Hy2). apply lang_eps in Hy2. subst.
    rewrite app_nil_r. exists y1. split; [reflexivity|now apply lang_star_any].
  - intros [->|(v & -> & N)]; [now right|]. left.
    change (47 :: v) with ([47] ++ v). constructor; [constructor; apply N.eqb_refl|].
    rewrite <- (app_nil_r v). constructor; [now apply lang_star_any|constructor].
Qed.

(* `^` + regex::escape(dir) + `/` + rest *)
Lemma parse_dir_prefix dir rest :
  parse_regex (s "^" ++ regex_escape dir ++ 47 :: rest) =
  match go false false [] [] (Chr 47 :: rev (chars dir)) false None rest with
  | Some (b, ae, topalt) => if topalt then None else Some (mkrx true ae b)
  | None => None
  end.
Proof.
  change (s "^") with [94]. cbn [app]. unfold parse_regex.
  rewrite (strip_flag_not_paren (94 :: _)) by (cbn; discriminate).
  cbn [strip_caret N.eqb Pos.eqb fst snd orb].
  destruct (escape_hd dir (47 :: rest)) as [H1 H2]; [cbn; discriminate|cbn; discriminate|].
  rewrite (strip_flag_not_paren _ H1). cbn [fst snd orb].
  rewrite go_escape, app_nil_r. rewrite go_lit by reflexivity. reflexivity.
Qed.

Lemma rev_pattern (d : list re) (m : list re) (t : re) :
  t :: rev m ++ Chr 47 :: rev d = rev (d ++ Chr 47 :: m ++ [t]).
Proof.
  rewrite rev_app_distr. cbn [rev]. rewrite rev_app_distr. cbn [rev app]. now rewrite <- app_assoc.
Qed.

Definition docker_body (dir : str) (toks : list tok) : re :=
  fold_right Seq Eps (chars dir ++ Chr 47 :: toks_re false toks ++ [docker_tail]).

Lemma parse_docker dir toks :
  parse_regex (s "^" ++ regex_escape dir ++ s "/" ++ flat_map docker_tok_text toks ++ s "(/.*)?$")
  = Some (mkrx true true (docker_body dir toks)).
Proof.
  change (s "/") with [47]. cbn [app]. rewrite parse_dir_prefix.
  destruct (docker_toks_go toks [] [] (Chr 47 :: rev (chars dir)) false (s "(/.*)?$")) as [q' E].
  rewrite E, go_docker_tail, rev_pattern, close_seq_rev. reflexivity.
Qed.

Lemma lang_single a w : lang (fold_right Seq Eps [a]) w <-> lang a w.
Proof.
  cbn [fold_right]. rewrite lang_seq_iff. split.
  - intros (u & v & -> & Hu & Hv). apply lang_eps in Hv. subst. now rewrite app_nil_r.
  - intros H. exists w, []. rewrite app_nil_r. repeat split; [exact H|constructor].
Qed.

(* language of  dir / middle tail  *)
Lemma lang_dir_pattern dir (m : list re) (t : re) w :
  lang (fold_right Seq Eps (chars dir ++ Chr 47 :: m ++ [t])) w <->
  exists x y, w = dir ++ 47 :: x ++ y /\ lang (fold_right Seq Eps m) x /\ lang t y.
Proof.
  rewrite lang_seq_list_app. split.
  - intros (u & v & -> & Hu & Hv). apply lang_chars in Hu. subst u.
    apply lang_seq_list_cons in Hv. destruct Hv as (a & b & -> & Ha & Hb).
    apply lang_sym in Ha. destruct Ha as (d & -> & T). cbn [cset_test] in T. apply N.eqb_eq in T. subst d.
    apply lang_seq_list_app in Hb. destruct Hb as (x & y & -> & Hx & Hy). apply (proj1 (lang_single _ _)) in Hy.
    now exists x, y.
  - intros (x & y & -> & Hx & Hy). exists dir, (47 :: x ++ y). repeat split; [now apply lang_chars|].
    apply lang_seq_list_cons. exists [47], (x ++ y). repeat split; [constructor; apply N.eqb_refl|].
    apply lang_seq_list_app. exists x, y. repeat split; [exact Hx|now apply lang_single].
Qed.

Lemma seg_prefixes_ok x w :
  In x (seg_prefixes w) <-> exists t, w = x ++ t /\ (t = [] \/ exists v, t = 47 :: v).
Proof.
  revert x; induction w as [|c w IH]; intros x; cbn [seg_prefixes].
  - split.
    + intros [<-|[]]. exists []. now split; [|left].
    + intros (t & E & _). symmetry in E. apply app_eq_nil in E. left. now destruct E.
  - rewrite in_app_iff, in_map_iff. split.
    + intros [H|(x' & <- & H)].
      * destruct (N.eqb_spec c 47) as [->|_]; [|destruct H]. destruct H as [<-|[]].
        exists (47 :: w). split; [reflexivity|right; now exists w].
      * apply IH in H. destruct H as (t & -> & Ht). now exists t.
    + intros (t & E & Ht). destruct x as [|d x'].
      * cbn [app] in E. subst t. destruct Ht as [Ht|(v & Ht)]; [discriminate|]. inversion Ht; subst.
        left. cbn. now left.
      * cbn [app] in E. inversion E; subst. right. exists x'. split; [reflexivity|]. apply IH. now exists t.
Qed.

Lemma docker_match_ok toks rel :
  docker_match toks rel = true <->
  exists x t, rel = x ++ t /\ glob_full false toks x = true /\ (t = [] \/ exists v, t = 47 :: v).
Proof.
  unfold docker_match. rewrite existsb_exists. split.
  - intros (x & I & G). apply seg_prefixes_ok in I. destruct I as (t & -> & Ht). now exists x, t.
  - intros (x & t & -> & G & Ht). exists x. split; [|exact G]. apply seg_prefixes_ok. now exists t.
Qed.

(* the regex docker.rs builds for an already trimmed glob text g, against dir/rel *)
Theorem docker_glob_correct dir g rel :
  ends_slash g = false -> any_only_last (glob_tokens g) = true -> nonl rel = true ->
  is_match (s "^" ++ regex_escape dir ++ s "/" ++ docker_glob_loop g ++ s "(/.*)?$") (dir ++ [47] ++ rel)
  = Some (docker_match (glob_tokens g) rel).
Proof.
  intros ES WF NL. rewrite docker_loop_tokens by assumption.
  unfold is_match. rewrite parse_docker. f_equal. unfold rx_re. cbn [anchored_start anchored_end body].
  apply eq_true_iff_eq. rewrite matches_ok. unfold docker_body. rewrite lang_dir_pattern, docker_match_ok. split.
  - intros (x & y & E & Hx & Hy). apply app_inv_head in E. cbn [app] in E. inversion E; subst rel.
    apply nonl_app in NL. destruct NL as [N1 N2].
    exists x, y. repeat split; [now apply lang_toks|].
    apply lang_docker_tail in Hy. destruct Hy as [->|(v & -> & _)]; [now left|right; now exists v].
  - intros (x & t & -> & G & Ht). apply nonl_app in NL. destruct NL as [N1 N2].
    exists x, t. repeat split; [now apply lang_toks|].
    apply lang_docker_tail. destruct Ht as [->|(v & ->)]; [now left|]. right. exists v. split; [reflexivity|].
    apply (nonl_app [47] v) in N2. apply N2.
Qed.

(* ================================================================== 6. Docker: lines and files *)
Lemma drop_while_snoc f l c : f c = false -> drop_while f (l ++ [c]) = drop_while f l ++ [c].
Proof.
  intros F. induction l as [|d l IH]; cbn [app drop_while]; [now rewrite F|].
  destruct (f d); [exact IH|reflexivity].
Qed.
Lemma drop_end_cons_keep f c p : f c = false -> exists y, drop_end f (c :: p) = c :: y.
Proof.
  intros F. unfold drop_end. cbn [rev]. rewrite drop_while_snoc by exact F.
  rewrite rev_app_distr. cbn [rev app]. eauto.
Qed.

Lemma lead_trim p :
  starts_with [92] (drop_end IgnoreSpec.is_slash (drop_while IgnoreSpec.is_slash p)) = false ->
  drop_while is_slash_or_backslash p = drop_while IgnoreSpec.is_slash p.
Proof.
  induction p as [|c p IH]; intros NB; [reflexivity|].
  cbn [drop_while] in *. unfold is_slash_or_backslash at 1. unfold IgnoreSpec.is_slash at 1.
  unfold IgnoreSpec.is_slash at 2 in NB.
  destruct (c =? 47) eqn:E; cbn [orb]; [now apply IH|].
  destruct (drop_end_cons_keep IgnoreSpec.is_slash c p E) as [y Ey]. rewrite Ey in NB.
  cbn [starts_with] in NB. rewrite andb_true_r, N.eqb_sym in NB. now rewrite NB.
Qed.

(* well-formedness of a .dockerignore line: its pattern text (after trimming, `!`, leading and
   trailing `/`) does not START with `\` (docker.rs also strips leading backslashes) and `**`
   occurs only as `**/` or at the very end.  A `\` further inside is harmless here: both sides
   take it as a literal character. *)
Definition docker_wf (line : str) : bool :=
  let p := fst (docker_line_pattern line) in
  negb (starts_with [92] p) && any_only_last (glob_tokens p).

Lemma convert_docker_line dir line :
  starts_with [92] (fst (docker_line_pattern line)) = false ->
  convert_dockerignore_pattern dir line =
  (s "^" ++ regex_escape dir ++ s "/" ++ docker_glob_loop (fst (docker_line_pattern line)) ++ s "(/.*)?$",
   snd (docker_line_pattern line)).
Proof.
  unfold convert_dockerignore_pattern, docker_line_pattern. rewrite (trim_strip line).
  destruct (starts_with [33] (strip line)); cbn [fst snd]; intros NB;
    unfold convert_dockerignore_glob; rewrite tem_drop_end, tsm_drop_while; unfold trim_start;
    rewrite ?tsm_drop_while; rewrite lead_trim by exact NB; reflexivity.
Qed.

(* docker_line_correct: the regex of a line accepts dir/rel exactly when the reference pattern
   matches rel or one of its parent directories; and the negation flag is the reference's *)
Theorem docker_line_correct dir line rel :
  docker_wf line = true -> nonl rel = true ->
  is_match (fst (convert_dockerignore_pattern dir line)) (dir ++ [47] ++ rel) = Some (docker_line_ref line rel)
  /\ snd (convert_dockerignore_pattern dir line) = snd (docker_line_pattern line).
Proof.
  unfold docker_wf. intros WF NL. apply andb_true_iff in WF. destruct WF as [NB WF].
  apply negb_true_iff in NB. rewrite convert_docker_line by exact NB. cbn [fst snd]. split; [|reflexivity].
  unfold docker_line_ref. apply docker_glob_correct; try assumption.
  unfold docker_line_pattern. cbn [fst]. apply drop_end_slash_no_trailing.
Qed.

(* the subject is left alone by file_name.replace("\\", "/").replace("//", "/") *)
Definition path_clean (w : str) : bool := no_backslash w && negb (find_sub [47; 47] w).

Lemma replace_backslash_id w : no_backslash w = true -> replace_backslash w = w.
Proof.
  unfold no_backslash, replace_backslash. induction w as [|c w IH]; cbn [contains_char map]; intros H; [reflexivity|].
  rewrite negb_orb in H. apply andb_true_iff in H. destruct H as [H1 H2].
  rewrite IH by exact H2. rewrite N.eqb_sym. apply negb_true_iff in H1. now rewrite H1.
Qed.

Lemma replace_double_slash_id w : find_sub [47; 47] w = false -> replace_double_slash w = w.
Proof.
  induction w as [|c w IH]; intros H; [reflexivity|].
  cbn [find_sub] in H. apply orb_false_iff in H. destruct H as [H1 H2]. specialize (IH H2).
  cbn [replace_double_slash]. destruct (c =? 47) eqn:E; [|now rewrite IH].
  destruct w as [|d w]; [reflexivity|]. destruct (d =? 47) eqn:E2; [|now rewrite IH].
  apply N.eqb_eq in E, E2. subst. discriminate H1.
Qed.

Lemma normalize_clean w : path_clean w = true -> normalize_file_name w = w.
Proof.
  unfold path_clean, normalize_file_name. intros H. apply andb_true_iff in H. destruct H as [H1 H2].
  rewrite replace_backslash_id by exact H1. apply replace_double_slash_id. now apply negb_true_iff.
Qed.

(* docker_file_correct: a whole .dockerignore file, last matching line wins *)
Theorem docker_file_correct dir lines rel :
  (forall line, In line lines -> line_skipped line = false -> docker_wf line = true) ->
  nonl rel = true -> path_clean (dir ++ [47] ++ rel) = true ->
  matches_dockerignore_filter (parse_dockerignore dir lines) (dir ++ [47] ++ rel)
  = Some (docker_ignored_ref lines rel).
Proof.
  intros WF NL PC. unfold matches_dockerignore_filter, parse_dockerignore, docker_ignored_ref.
  rewrite (normalize_clean _ PC). generalize false as m. revert WF.
  induction lines as [|line lines IH]; intros WF m; [reflexivity|].
  cbn [filter fold_left]. rewrite line_kept_skipped.
  destruct (line_skipped line) eqn:SK; cbn [negb].
  - apply IH. intros l I. apply WF. now right.
  - cbn [map fold_left].
    destruct (docker_line_correct dir line rel (WF line (or_introl eq_refl) SK) NL) as [E1 E2].
    rewrite E1, E2. destruct (docker_line_ref line rel); apply IH; intros l I; apply WF; now right.
Qed.

(* ---- the hypotheses are satisfiable, and the theorems compute ---- *)
Example docker_wf_ex :
  forallb docker_wf [s "*.log"; s "  !/src/**/*.b?n/ "; s "build/**"; s "**/name"; s "a+b#&-~(1)[2]{3}|^$"; s "! y.txt"] = true.
Proof. vm_compute. reflexivity. Qed.
Example docker_wf_neg1 : docker_wf (s "**.log") = false.      (* `**` glued to a name *)
Proof. vm_compute. reflexivity. Qed.
Example docker_wf_neg2 : docker_wf (s "/\build") = false.    (* docker.rs strips the `\` as well *)
Proof. vm_compute. reflexivity. Qed.
Example path_clean_ex : path_clean (s "/ctx+1" ++ [47] ++ s "src/sub/a.log") = true.
Proof. vm_compute. reflexivity. Qed.
Example docker_file_instance :
  matches_dockerignore_filter
    (parse_dockerignore (s "/ctx+1") [s "**/*.log"; s "# c"; s ""; s " ! src/keep.log "; s "build/"])
    (s "/ctx+1" ++ [47] ++ s "src/keep.log") = Some false.
Proof.
  rewrite docker_file_correct.
  - vm_compute. reflexivity.
  - intros l H _. cbn [In] in H. repeat (destruct H as [<-|H]; [vm_compute; reflexivity|]). destruct H.
  - vm_compute. reflexivity.
  - vm_compute. reflexivity.
Qed.

(* ================================================================== 7. Mercurial: one glob *)
Definition hg_suffix : re := Alt (Seq (Seq (Chr 47) Eps) (Star AnyNL)) Eps.    (* the final group: slash, or end of text *)

Lemma go_hg_suffix sq q :
  go false false [] [] sq q None hg_glob_suffix = Some (close_seq (hg_suffix :: sq), true, false).
Proof. reflexivity. Qed.

Lemma lang_hg_suffix t : lang hg_suffix t <-> t = [] \/ exists v, t = 47 :: v.
Proof.
  unfold hg_suffix. rewrite lang_alt_iff, lang_eps_iff. split.
  - intros [H|H]; [|now left]. right.
    apply lang_seq in H. destruct H as (x & y & -> & Hx & _).
    apply lang_seq in Hx. destruct Hx as (x1 & x2 & -> & H1 & H2). apply lang_eps in H2. subst.
    apply lang_sym in H1. destruct H1 as (d & -> & T). cbn [cset_test] in T. apply N.eqb_eq in T. subst.
    cbn [app]. eauto.
  - intros [->|(v & ->)]; [now right|]. left. change (47 :: v) with ([47] ++ v).
    constructor; [|apply star_anynl]. change [47] with ([47] ++ []). constructor; [|constructor].
    constructor. apply N.eqb_refl.
Qed.

Definition hg_body (dir : str) (toks : list tok) : re :=
  fold_right Seq Eps (chars dir ++ Chr 47 :: (dirs_re :: toks_re true toks) ++ [hg_suffix]).

Lemma parse_hg_glob dir toks : forallb tok_lit_ok toks = true ->
  parse_regex (s "^" ++ regex_escape dir ++ hg_glob_prefix ++ flat_map hg_tok_text toks ++ hg_glob_suffix)
  = Some (mkrx true true (hg_body dir toks)).
Proof.
  intros OK. change hg_glob_prefix with (47 :: hg_tok_text TDirs). cbn [app]. rewrite parse_dir_prefix.
  destruct (hg_tok_step TDirs [] [] (Chr 47 :: rev (chars dir)) false
              (flat_map hg_tok_text toks ++ hg_glob_suffix) eq_refl) as [q1 E1]. rewrite E1.
  destruct (hg_toks_go toks OK [] [] (tok_re true TDirs :: Chr 47 :: rev (chars dir)) q1 hg_glob_suffix) as [q2 E2].
  rewrite E2, go_hg_suffix. cbn [tok_re].
  change (rev (toks_re true toks) ++ dirs_re :: Chr 47 :: rev (chars dir))
    with (rev (toks_re true toks) ++ [dirs_re] ++ Chr 47 :: rev (chars dir)).
  rewrite app_assoc. change (rev (toks_re true toks) ++ [dirs_re]) with (rev (dirs_re :: toks_re true toks)).
  rewrite rev_pattern, close_seq_rev. reflexivity.
Qed.

Lemma after_slashes_ok x w : In x (after_slashes w) <-> exists u, w = u ++ 47 :: x.
Proof.
  induction w as [|c w IH]; cbn [after_slashes].
  - split; [intros []|]. intros (u & E). destruct u; discriminate.
  - rewrite in_app_iff, IH. split.
    + intros [H|(u & ->)].
      * destruct (N.eqb_spec c 47) as [->|_]; [|destruct H]. destruct H as [<-|[]]. now exists [].
      * now exists (c :: u).
    + intros (u & E). destruct u as [|d u].
      * cbn [app] in E. inversion E; subst. left. cbn. now left.
      * cbn [app] in E. inversion E; subst. right. now exists u.
Qed.

Lemma seg_starts_ok x w :
  In x (seg_starts w) <-> exists u, w = u ++ x /\ (u = [] \/ exists u', u = u' ++ [47]).
Proof.
  unfold seg_starts. cbn [In]. rewrite after_slashes_ok. split.
  - intros [<-|(u & ->)].
    + exists []. split; [reflexivity|now left].
    + exists (u ++ [47]). rewrite <- app_assoc. split; [reflexivity|right; now exists u].
  - intros (u & -> & [->|(u' & ->)]); [now left|]. right. exists u'. now rewrite <- app_assoc.
Qed.

Lemma hg_glob_match_ok toks rel :
  hg_glob_match toks rel = true <->
  exists u m t, rel = u ++ m ++ t /\ (u = [] \/ exists u', u = u' ++ [47]) /\
                glob_full true toks m = true /\ (t = [] \/ exists v, t = 47 :: v).
Proof.
  unfold hg_glob_match. rewrite existsb_exists. split.
  - intros (x & I & H). apply existsb_exists in H. destruct H as (m & I2 & G).
    apply seg_starts_ok in I. destruct I as (u & -> & Hu).
    apply seg_prefixes_ok in I2. destruct I2 as (t & -> & Ht). now exists u, m, t.
  - intros (u & m & t & -> & Hu & G & Ht). exists (m ++ t). split.
    + apply seg_starts_ok. now exists u.
    + apply existsb_exists. exists m. split; [|exact G]. apply seg_prefixes_ok. now exists t.
Qed.

(* the regex hg.rs builds for a glob text g (trailing `/` already removed), against dir/rel *)
Theorem hg_glob_correct dir g rel :
  no_backslash g = true -> nonl rel = true ->
  is_match (s "^" ++ regex_escape dir ++ hg_glob_prefix ++ replace_tokens hg_glob_table O g ++ hg_glob_suffix)
           (dir ++ [47] ++ rel)
  = Some (hg_glob_match (glob_tokens g) rel).
Proof.
  intros NB NL. rewrite hg_replace_tokens. unfold is_match.
  rewrite parse_hg_glob by (now apply glob_tokens_lit_ok). f_equal.
  unfold rx_re. cbn [anchored_start anchored_end body].
  apply eq_true_iff_eq. rewrite matches_ok. unfold hg_body. rewrite lang_dir_pattern, hg_glob_match_ok. split.
  - intros (x & t & E & Hx & Ht). apply app_inv_head in E. cbn [app] in E. inversion E; subst rel.
    apply lang_seq_list_cons in Hx. destruct Hx as (u & m & -> & Hu & Hm).
    rewrite <- app_assoc in NL. apply nonl_app in NL. destruct NL as [N1 N2]. apply nonl_app in N2. destruct N2 as [N2 N3].
    exists u, m, t. rewrite <- app_assoc. repeat split.
    + apply lang_dirs in Hu. destruct Hu as [->|(u' & -> & _)]; [now left|right; now exists u'].
    + now apply lang_toks.
    + now apply lang_hg_suffix.
  - intros (u & m & t & -> & Hu & G & Ht).
    apply nonl_app in NL. destruct NL as [N1 N2]. apply nonl_app in N2. destruct N2 as [N2 N3].
    exists (u ++ m), t. rewrite <- app_assoc. repeat split.
    + apply lang_seq_list_cons. exists u, m. repeat split; [|now apply lang_toks].
      apply lang_dirs. destruct Hu as [->|(u' & ->)]; [now left|]. right. exists u'. split; [reflexivity|].
      apply nonl_app in N1. apply N1.
    + now apply lang_hg_suffix.
Qed.

(* hg_glob_line_correct: a line under `syntax: glob` (well-formed = contains no `\`) *)
Theorem hg_glob_line_correct dir line rel :
  no_backslash line = true -> nonl rel = true ->
  is_match (convert_hgignore_glob dir line) (dir ++ [47] ++ rel) = Some (hg_glob_line_ref line rel).
Proof.
  intros NB NL. unfold convert_hgignore_glob, hg_glob_line_ref. rewrite tem_drop_end.
  apply hg_glob_correct; [|exact NL]. unfold no_backslash in *. apply negb_true_iff.
  apply contains_drop_end_le. now apply negb_true_iff.
Qed.

(* ================================================================== 8. Mercurial: files of glob sections *)
Lemma remove_all_absent pat x :
  contains_char (hd 0 pat) x = false -> pat <> [] -> remove_all pat O x = x.
Proof.
  intros H NE. induction x as [|c x IH]; [reflexivity|].
  cbn [contains_char] in H. apply orb_false_iff in H. destruct H as [H1 H2].
  cbn [remove_all]. destruct pat as [|a pat]; [congruence|]. cbn [hd] in H1. cbn [starts_with].
  rewrite H1. cbn [andb]. now rewrite IH.
Qed.

Lemma syntax_directive line y :
  starts_with (s "syntax:") line = true -> strip (skipn 7 line) = y -> contains_char 115 y = false ->
  trim (remove_all (s "syntax:") O line) = y.
Proof.
  intros SW E NC. apply starts_with_spec in SW. destruct SW as [r ->].
  change (skipn 7 (s "syntax:" ++ r)) with r in E.
  assert (R : remove_all (s "syntax:") O (s "syntax:" ++ r) = remove_all (s "syntax:") O r) by reflexivity.
  rewrite R, remove_all_absent, trim_strip; [exact E| |discriminate].
  change (hd 0 (s "syntax:")) with 115. rewrite <- E in NC. unfold strip in NC.
  rewrite contains_drop_end, contains_drop_while in NC by reflexivity. exact NC.
Qed.

Definition hg_step (file : str) (matched : option bool) (f : str) : option bool :=
  match matched, is_match f file with
  | Some m, Some true => Some true
  | Some m, Some false => Some m
  | _, _ => None
  end.

Lemma hg_file_from dir rel : nonl rel = true -> forall lines glob v,
  (forall l, In l lines -> line_skipped l = false -> no_backslash l = true) ->
  hg_ignored_ref_from glob lines rel = Some v ->
  exists fs, parse_hgignore_from dir (if glob then SynGlob else SynRegexp) lines = HgFilters fs /\
             forall m, fold_left (hg_step (dir ++ [47] ++ rel)) fs (Some m) = Some (m || v).
Proof.
  intros NL. induction lines as [|line lines IH]; intros glob v NB H.
  - cbn in H. inversion H; subst. exists []. split; [reflexivity|]. intros m. cbn. now rewrite orb_false_r.
  - assert (NB' : forall l, In l lines -> line_skipped l = false -> no_backslash l = true)
      by (intros l I; apply NB; now right).
    cbn [hg_ignored_ref_from] in H. cbn [parse_hgignore_from]. rewrite line_kept_skipped.
    destruct (line_skipped line) eqn:SK; cbn [negb]; [now apply IH|].
    unfold classify_hg_line.
    destruct (starts_with (s "syntax:") line) eqn:SY.
    + destruct (str_eqb (strip (skipn 7 line)) (s "glob")) eqn:EG.
      * apply str_eqb_eq in EG. rewrite (syntax_directive line (s "glob") SY EG eq_refl).
        change (syntax_from (s "glob")) with (Some SynGlob). now apply (IH true).
      * destruct (str_eqb (strip (skipn 7 line)) (s "regexp")) eqn:ER; [|discriminate H].
        apply str_eqb_eq in ER. rewrite (syntax_directive line (s "regexp") SY ER eq_refl).
        change (syntax_from (s "regexp")) with (Some SynRegexp). now apply (IH false).
    + destruct (starts_with (s "subinclude:") line); [discriminate H|].
      destruct glob; [|discriminate H].
      destruct (hg_ignored_ref_from true lines rel) as [v'|] eqn:E; [|discriminate H]. inversion H; subst v.
      destruct (IH true v' NB' E) as (fs & P & F). cbn [negb] in P. rewrite P.
      exists (convert_hgignore_pattern dir SynGlob line :: fs). split; [reflexivity|]. intros m.
      cbn [fold_left convert_hgignore_pattern]. unfold hg_step at 2.
      rewrite (hg_glob_line_correct dir line rel (NB line (or_introl eq_refl) SK) NL).
      destruct (hg_glob_line_ref line rel); rewrite F; cbn [orb]; [now rewrite orb_true_r|reflexivity].
Qed.

(* hg_file_correct: an .hgignore file whose pattern lines all stand in `syntax: glob` sections
   (that is what "hg_ignored_ref = Some v" says) and contain no `\` *)
Theorem hg_file_correct dir lines rel v :
  (forall l, In l lines -> line_skipped l = false -> no_backslash l = true) -> nonl rel = true ->
  hg_ignored_ref lines rel = Some v ->
  exists fs, parse_hgignore dir lines = HgFilters fs /\
             matches_hgignore_filter fs (dir ++ [47] ++ rel) = Some v.
Proof.
  intros NB NL H. destruct (hg_file_from dir rel NL lines false v NB H) as (fs & P & F).
  exists fs. split; [exact P|]. exact (F false).
Qed.

Example hg_file_instance :
  exists fs, parse_hgignore (s "/r+1") [s "# c"; s "syntax:  glob "; s "*.log"; s ""; s "build/"; s "a(1)?"] = HgFilters fs /\
             matches_hgignore_filter fs (s "/r+1" ++ [47] ++ s "x/build/y") = Some true.
Proof.
  apply hg_file_correct.
  - intros l H _. cbn [In] in H. repeat (destruct H as [<-|H]; [vm_compute; reflexivity|]). destruct H.
  - vm_compute. reflexivity.
  - vm_compute. reflexivity.
Qed.

(* ================================================================== 9. Mercurial: regexp lines *)
(* 9.1  Embedding lemma for the parser: if a text parses on its own (from any parser state, with
   local group stack stk1) without end anchor, then inside a bigger pattern -- more frames `low`
   below the local stack and any text sfx behind -- the parser goes through it in the same way
   and reaches sfx in the state the stand-alone run ended in. *)
Lemma go_class_end ci ds stk alts sq q st : go ci ds stk alts sq q (Some st) [] = None.
Proof. reflexivity. Qed.

Lemma class_decide_ext first c rest sfx :
  class_decide first c (rest ++ sfx) = class_decide first c rest
  \/ (rest = [] /\ class_decide first c rest <> CDClose)
  \/ (rest = [45] /\ class_decide first c rest = CDLit c).
Proof.
  destruct rest as [|d [|h rest]].
  - cbn [app]. unfold class_decide. destruct ((c =? 93) && negb first); [now left|].
    right; left. split; [reflexivity|].
    destruct (c =? 91); [discriminate|]. destruct (c =? 92); [discriminate|]. cbn [hd].
    destruct (c =? 45); [destruct (first || (0 =? 93)); discriminate|].
    destruct (((c =? 38) || (c =? 126)) && (0 =? c)); discriminate.
  - cbn [app]. unfold class_decide. destruct ((c =? 93) && negb first); [now left|].
    destruct (c =? 91); [now left|]. destruct (c =? 92); [now left|]. cbn [hd].
    destruct (c =? 45); [now left|].
    destruct (((c =? 38) || (c =? 126)) && (d =? c)); [now left|].
    destruct (N.eqb_spec d 45) as [->|Nd].
    + right; right. split; reflexivity.
    + left. destruct sfx as [|x sfx]; reflexivity.
  - left. reflexivity.
Qed.

Ltac useIH IH := eapply IH; [|eassumption]; cbn [List.length] in *; lia.

Section Embed.
Variables (ci ds : bool) (low : list frame) (sfx : str).
Variable K : list re -> list re -> option (re * bool * bool).
Hypothesis HK : forall alts sq q, go ci ds low alts sq q None sfx = K alts sq.

Lemma go_embed : forall inp stk1 alts sq q cls b ta,
  go ci ds stk1 alts sq q cls inp = Some (b, false, ta) ->
  exists alts' sq', b = close alts' sq' /\ ta = negb (is_nil alts') /\
    go ci ds (stk1 ++ low) alts sq q cls (inp ++ sfx) = K alts' sq'.
Proof.
  intros inp. pose (n := List.length inp). assert (L : (List.length inp <= n)%nat) by (unfold n; lia).
  clearbody n. revert inp L.
  induction n as [|n IH]; intros inp L stk1 alts sq q cls b ta H.
  { destruct inp; [|cbn in L; lia]. cbn [go] in H. destruct cls; [discriminate H|].
    destruct stk1; [|discriminate H]. inversion H; subst. exists alts, sq. repeat split. apply HK. }
  destruct inp as [|c rest].
  - cbn [go] in H. destruct cls; [discriminate H|]. destruct stk1; [|discriminate H].
    inversion H; subst. exists alts, sq. repeat split. apply HK.
  - change ((c :: rest) ++ sfx) with (c :: (rest ++ sfx)).
    destruct cls as [[[neg first] rs]|].
    + (* inside a bracket class *)
      cbn [go] in H |- *.
      destruct (class_decide_ext first c rest sfx) as [E|[[-> NC]|[-> E]]].
      * rewrite E. destruct (class_decide first c rest) as [| |d|lo hi|rs'].
        -- useIH IH.
        -- discriminate H.
        -- useIH IH.
        -- destruct rest as [|x1 [|x2 rest']]; try discriminate H. cbn [app]. useIH IH.
        -- destruct rest as [|x1 rest']; try discriminate H. cbn [app]. useIH IH.
      * exfalso. destruct (class_decide first c []) as [| |d|lo hi|rs']; cbn [go] in H; try discriminate H.
        now apply NC.
      * exfalso. rewrite E in H. cbn [go class_decide N.eqb Pos.eqb andb negb hd orb] in H. discriminate H.
    + cbn [go] in H |- *. destruct (classify c) eqn:KC.
      * (* backslash *)
        destruct rest as [|e rest']; [discriminate H|]. cbn [app].
        destruct (escape_atom ci e); [useIH IH|discriminate H].
      * useIH IH.
      * destruct sq as [|a sq']; [discriminate H|]. useIH IH.
      * destruct sq as [|a sq']; [discriminate H|]. useIH IH.
      * destruct q; [useIH IH|]. destruct sq as [|a sq']; [discriminate H|]. useIH IH.
      * useIH IH.
      * (* ( *)
        destruct rest as [|c1 rest1]; [discriminate H|]. cbn [app].
        destruct (c1 =? 63).
        -- destruct rest1 as [|c2 rest2]; [discriminate H|]. cbn [app].
           destruct (c2 =? 58); [|discriminate H].
           change ((alts, sq) :: stk1 ++ low) with (((alts, sq) :: stk1) ++ low). useIH IH.
        -- change ((alts, sq) :: stk1 ++ low) with (((alts, sq) :: stk1) ++ low).
           change (c1 :: rest1 ++ sfx) with ((c1 :: rest1) ++ sfx). useIH IH.
      * (* ) *)
        destruct stk1 as [|[alts0 sq0] stk1']; [discriminate H|]. cbn [app]. useIH IH.
      * (* [ *)
        destruct rest as [|c1 rest1]; [discriminate H|]. cbn [app].
        destruct (c1 =? 94); [useIH IH|].
        change (c1 :: rest1 ++ sfx) with ((c1 :: rest1) ++ sfx). useIH IH.
      * discriminate H.
      * discriminate H.
      * (* $ : the stand-alone run would end anchored *)
        exfalso. destruct rest as [|c1 [|c2 rest']]; destruct stk1 as [|[alts0 sq0] [|f2 stk1']];
          try discriminate H.
        destruct ((c1 =? 41) && is_nil alts0); discriminate H.
      * useIH IH.
Qed.
End Embed.

(* 9.2  A parse without top-level alternation: an extra atom x at the very bottom of the
   outermost sequence (here the `.*` hg.rs puts in front of an unrooted regexp) ends up in front
   of the body. *)
Fixpoint stk_add (x : re) (stk : list frame) : list frame :=
  match stk with
  | [] => []
  | (a0, s0) :: stk' => match stk' with [] => [(a0, s0 ++ [x])] | _ :: _ => (a0, s0) :: stk_add x stk' end
  end.
Definition sq_add (x : re) (stk : list frame) (sq : list re) : list re :=
  match stk with [] => sq ++ [x] | _ :: _ => sq end.
Fixpoint bottom_alts (stk : list frame) (alts : list re) : list re :=
  match stk with [] => alts | (a0, _) :: stk' => bottom_alts stk' a0 end.

Lemma sq_add_cons x stk a sq : sq_add x stk (a :: sq) = a :: sq_add x stk sq.
Proof. destruct stk; reflexivity. Qed.
Lemma stk_add_push x alts sq stk : stk_add x ((alts, sq) :: stk) = (alts, sq_add x stk sq) :: stk_add x stk.
Proof. destruct stk; reflexivity. Qed.
Lemma close_seq_snoc sq x : close_seq (sq ++ [x]) = Seq x (close_seq sq).
Proof. unfold close_seq. now rewrite fold_left_app. Qed.

Section Bottom.
Variables (ci ds : bool).

Lemma go_topalt : forall inp stk alts sq q cls b ae,
  go ci ds stk alts sq q cls inp = Some (b, ae, false) -> bottom_alts stk alts = [].
Proof.
  intros inp. pose (n := List.length inp). assert (L : (List.length inp <= n)%nat) by (unfold n; lia).
  clearbody n. revert inp L.
  assert (FIN : forall stk alts sq q cls b ae,
            go ci ds stk alts sq q cls [] = Some (b, ae, false) -> bottom_alts stk alts = []).
  { intros stk alts sq q cls b ae H. cbn [go] in H. destruct cls; [discriminate H|].
    destruct stk; [|discriminate H]. inversion H. destruct alts; [reflexivity|discriminate]. }
  induction n as [|n IH]; intros inp L stk alts sq q cls b ae H.
  { destruct inp; [|cbn in L; lia]. eapply FIN; eassumption. }
  destruct inp as [|c rest]; [eapply FIN; eassumption|].
  destruct cls as [[[neg first] rs]|].
  - cbn [go] in H. destruct (class_decide first c rest) as [| |d|lo hi|rs'].
    + useIH IH.
    + discriminate H.
    + useIH IH.
    + destruct rest as [|x1 [|x2 rest']]; try discriminate H. useIH IH.
    + destruct rest as [|x1 rest']; try discriminate H. useIH IH.
  - cbn [go] in H. destruct (classify c) eqn:KC.
    + destruct rest as [|e rest']; [discriminate H|].
      destruct (escape_atom ci e); [useIH IH|discriminate H].
    + useIH IH.
    + destruct sq as [|a sq']; [discriminate H|]. useIH IH.
    + destruct sq as [|a sq']; [discriminate H|]. useIH IH.
    + destruct q; [useIH IH|]. destruct sq as [|a sq']; [discriminate H|]. useIH IH.
    + (* | *)
      assert (B : bottom_alts stk (close_seq sq :: alts) = []) by useIH IH.
      destruct stk as [|[a0 s0] stk']; [discriminate B|exact B].
    + (* ( *)
      destruct rest as [|c1 rest1]; [discriminate H|].
      destruct (c1 =? 63).
      * destruct rest1 as [|c2 rest2]; [discriminate H|]. destruct (c2 =? 58); [|discriminate H].
        change (bottom_alts stk alts) with (bottom_alts ((alts, sq) :: stk) []). useIH IH.
      * change (bottom_alts stk alts) with (bottom_alts ((alts, sq) :: stk) []). useIH IH.
    + destruct stk as [|[alts0 sq0] stk']; [discriminate H|]. cbn [bottom_alts]. useIH IH.
    + destruct rest as [|c1 rest1]; [discriminate H|]. destruct (c1 =? 94); useIH IH.
    + discriminate H.
    + discriminate H.
    + (* $ *)
      destruct rest as [|c1 [|c2 rest']]; destruct stk as [|[alts0 sq0] [|f2 stk']]; try discriminate H.
      * inversion H. destruct alts; [reflexivity|discriminate].
      * destruct (c1 =? 41); [|discriminate H]. destruct alts0; [reflexivity|discriminate H].
    + useIH IH.
Qed.

Variable x : re.

Lemma go_bottom : forall inp stk alts sq q cls b ae,
  go ci ds stk alts sq q cls inp = Some (b, ae, false) ->
  go ci ds (stk_add x stk) alts (sq_add x stk sq) q cls inp = Some (Seq x b, ae, false).
Proof.
  intros inp. pose (n := List.length inp). assert (L : (List.length inp <= n)%nat) by (unfold n; lia).
  clearbody n. revert inp L.
  assert (FIN : forall stk alts sq q cls b ae,
            go ci ds stk alts sq q cls [] = Some (b, ae, false) ->
            go ci ds (stk_add x stk) alts (sq_add x stk sq) q cls [] = Some (Seq x b, ae, false)).
  { intros stk alts sq q cls b ae H. cbn [go] in H |- *. destruct cls; [discriminate H|].
    destruct stk; [|discriminate H]. inversion H. destruct alts; [|discriminate].
    cbn [stk_add sq_add close fold_left is_nil negb]. now rewrite close_seq_snoc. }
  induction n as [|n IH]; intros inp L stk alts sq q cls b ae H.
  { destruct inp; [|cbn in L; lia]. now apply FIN. }
  destruct inp as [|c rest]; [now apply FIN|].
  destruct cls as [[[neg first] rs]|].
  - cbn [go] in H |- *. destruct (class_decide first c rest) as [| |d|lo hi|rs'].
    + rewrite <- sq_add_cons. useIH IH.
    + discriminate H.
    + useIH IH.
    + destruct rest as [|x1 [|x2 rest']]; try discriminate H. useIH IH.
    + destruct rest as [|x1 rest']; try discriminate H. useIH IH.
  - cbn [go] in H |- *. destruct (classify c) eqn:KC.
    + destruct rest as [|e rest']; [discriminate H|].
      destruct (escape_atom ci e); [|discriminate H]. rewrite <- sq_add_cons. useIH IH.
    + rewrite <- sq_add_cons. useIH IH.
    + destruct sq as [|a sq']; [discriminate H|]. rewrite sq_add_cons, <- sq_add_cons. useIH IH.
    + destruct sq as [|a sq']; [discriminate H|]. rewrite sq_add_cons, <- sq_add_cons. useIH IH.
    + destruct q; [useIH IH|]. destruct sq as [|a sq']; [discriminate H|].
      rewrite sq_add_cons, <- sq_add_cons. useIH IH.
    + (* | : only inside a group *)
      pose proof (go_topalt _ _ _ _ _ _ _ _ H) as B.
      destruct stk as [|f stk']; [discriminate B|].
      change (sq_add x (f :: stk') sq) with sq. change [] with (sq_add x (f :: stk') []) at 1. useIH IH.
    + (* ( *)
      destruct rest as [|c1 rest1]; [discriminate H|].
      destruct (c1 =? 63).
      * destruct rest1 as [|c2 rest2]; [discriminate H|]. destruct (c2 =? 58); [|discriminate H].
        rewrite <- stk_add_push. change [] with (sq_add x ((alts, sq) :: stk) []) at 2. useIH IH.
      * rewrite <- stk_add_push. change [] with (sq_add x ((alts, sq) :: stk) []) at 2. useIH IH.
    + (* ) *)
      destruct stk as [|[alts0 sq0] stk']; [discriminate H|].
      rewrite stk_add_push. change (sq_add x ((alts0, sq0) :: stk') sq) with sq.
      rewrite <- sq_add_cons. useIH IH.
    + destruct rest as [|c1 rest1]; [discriminate H|]. destruct (c1 =? 94); useIH IH.
    + discriminate H.
    + discriminate H.
    + (* $ *)
      destruct rest as [|c1 [|c2 rest']]; destruct stk as [|[alts0 sq0] [|f2 stk']]; try discriminate H.
      * inversion H. destruct alts; [|discriminate].
        cbn [stk_add sq_add close fold_left is_nil negb]. now rewrite close_seq_snoc.
      * destruct (c1 =? 41); [|discriminate H]. destruct alts0; [|discriminate H].
        cbn [andb is_nil] in H |- *. inversion H.
        cbn [stk_add sq_add andb is_nil]. f_equal. f_equal. f_equal.
        change (close (map (fun a : re => Seq a (Star AnyNL)) alts) sq :: sq0 ++ [x])
          with ((close (map (fun a : re => Seq a (Star AnyNL)) alts) sq :: sq0) ++ [x]).
        apply close_seq_snoc.
    + rewrite <- sq_add_cons. useIH IH.
Qed.
End Bottom.

(* the "just saw a quantifier" flag only matters in front of a `?` *)
Lemma classify_quest c : classify c = KQuest -> c = 63.
Proof.
  unfold classify. destruct (c =? 92); [discriminate|]. destruct (c =? 46); [discriminate|].
  destruct (c =? 42); [discriminate|]. destruct (c =? 43); [discriminate|].
  destruct (N.eqb_spec c 63); [auto|]. destruct (c =? 124); [discriminate|].
  destruct (c =? 40); [discriminate|]. destruct (c =? 41); [discriminate|]. destruct (c =? 91); [discriminate|].
  destruct (c =? 123); [discriminate|]. destruct (c =? 94); [discriminate|]. destruct (c =? 36); discriminate.
Qed.

Lemma go_q ci ds stk alts sq q q' inp : hd 0 inp <> 63 ->
  go ci ds stk alts sq q None inp = go ci ds stk alts sq q' None inp.
Proof.
  destruct inp as [|c rest]; [reflexivity|]. cbn [hd]. intros NQ. cbn [go].
  destruct (classify c) eqn:KC; try reflexivity. apply classify_quest in KC. congruence.
Qed.

(* 9.3  The regexp converter.  plain_parse r = the parse of the user's text r on its own: no
   flags, no `^`; result (body, ends with `$`, has a top-level alternation). *)
Definition plain_parse (r : str) : option (re * bool * bool) := go false false [] [] [] false None r.

Lemma rev_dir_body dir (b : re) : b :: Chr 47 :: rev (chars dir) = rev (chars dir ++ [Chr 47; b]).
Proof. rewrite rev_app_distr. reflexivity. Qed.

(* core = the text between `(?:` and `)`; it has no end anchor *)
Lemma parse_hg_regexp_core dir core b ta :
  plain_parse core = Some (b, false, ta) ->
  parse_regex (s "^" ++ regex_escape dir ++ s "/(?:" ++ core ++ s ")")
  = Some (mkrx true false (fold_right Seq Eps (chars dir ++ [Chr 47; b]))).
Proof.
  intros P. change (s "/(?:") with (47 :: [40; 63; 58]). cbn [app]. rewrite parse_dir_prefix.
  set (SQ := Chr 47 :: rev (chars dir)).
  change (go false false [] [] SQ false None (40 :: 63 :: 58 :: core ++ s ")"))
    with (go false false ([] ++ [([], SQ)]) [] [] false None (core ++ [41])).
  destruct (go_embed false false [([], SQ)] [41]
              (fun alts sq => Some (close_seq (close alts sq :: SQ), false, false))
              (fun _ _ _ => eq_refl) core [] [] [] false None b ta P) as (alts' & sq' & -> & _ & E).
  match goal with |- context [go ?a1 ?a2 ?a3 ?a4 ?a5 ?a6 ?a7 ?a8] =>
    replace (go a1 a2 a3 a4 a5 a6 a7 a8) with (Some (close_seq (close alts' sq' :: SQ), false, false))
      by (symmetry; exact E) end.
  unfold SQ. now rewrite rev_dir_body, close_seq_rev.
Qed.

(* core0 `$`: the end anchor right before the closing parenthesis *)
Lemma parse_hg_regexp_core_dollar dir core0 b :
  plain_parse core0 = Some (b, false, false) ->
  parse_regex (s "^" ++ regex_escape dir ++ s "/(?:" ++ (core0 ++ s "$") ++ s ")")
  = Some (mkrx true true (fold_right Seq Eps (chars dir ++ [Chr 47; b]))).
Proof.
  intros P. change (s "/(?:") with (47 :: [40; 63; 58]). cbn [app]. rewrite parse_dir_prefix.
  set (SQ := Chr 47 :: rev (chars dir)). rewrite <- app_assoc.
  change (go false false [] [] SQ false None (40 :: 63 :: 58 :: core0 ++ s "$" ++ s ")"))
    with (go false false ([] ++ [([], SQ)]) [] [] false None (core0 ++ [36; 41])).
  destruct (go_embed false false [([], SQ)] [36; 41]
              (fun alts sq => Some (close_seq (close (map (fun a => Seq a (Star AnyNL)) alts) sq :: SQ), true, false))
              (fun _ _ _ => eq_refl) core0 [] [] [] false None b false P) as (alts' & sq' & -> & TA & E).
  match goal with |- context [go ?a1 ?a2 ?a3 ?a4 ?a5 ?a6 ?a7 ?a8] =>
    replace (go a1 a2 a3 a4 a5 a6 a7 a8)
      with (Some (close_seq (close (map (fun a => Seq a (Star AnyNL)) alts') sq' :: SQ), true, false))
      by (symmetry; exact E) end.
  destruct alts'; [|discriminate TA]. cbn [map]. unfold SQ. now rewrite rev_dir_body, close_seq_rev.
Qed.

Lemma lang_dir_body dir b w :
  lang (fold_right Seq Eps (chars dir ++ [Chr 47; b])) w <-> exists x, w = dir ++ 47 :: x /\ lang b x.
Proof.
  change (chars dir ++ [Chr 47; b]) with (chars dir ++ Chr 47 :: [] ++ [b]). rewrite lang_dir_pattern. split.
  - intros (x & y & -> & Hx & Hy). apply lang_eps in Hx. subst. now exists y.
  - intros (x & -> & Hx). exists [], x. repeat split; [constructor|exact Hx].
Qed.

Lemma hg_regexp_core_correct dir core b ta rel :
  plain_parse core = Some (b, false, ta) ->
  exists v, is_match (s "^" ++ regex_escape dir ++ s "/(?:" ++ core ++ s ")") (dir ++ [47] ++ rel) = Some v /\
            (v = true <-> exists m t, rel = m ++ t /\ lang b m).
Proof.
  intros P. destruct (is_match_ok _ (dir ++ [47] ++ rel) _ (parse_hg_regexp_core dir core b ta P)) as (v & E & I).
  exists v. split; [exact E|]. rewrite I. cbn [anchored_start anchored_end body]. split.
  - intros (a & m & t & E' & Hm & Ha & _). rewrite (Ha eq_refl) in E'. cbn [app] in E'.
    apply lang_dir_body in Hm. destruct Hm as (x & -> & Hx). rewrite <- app_assoc in E'.
    apply app_inv_head in E'. inversion E'. now exists x, t.
  - intros (m & t & -> & Hm). exists [], (dir ++ 47 :: m), t. repeat split.
    + cbn [app]. now rewrite <- app_assoc.
    + apply lang_dir_body. now exists m.
    + discriminate.
Qed.

Lemma hg_regexp_core_dollar_correct dir core0 b rel :
  plain_parse core0 = Some (b, false, false) ->
  exists v, is_match (s "^" ++ regex_escape dir ++ s "/(?:" ++ (core0 ++ s "$") ++ s ")") (dir ++ [47] ++ rel) = Some v /\
            (v = true <-> lang b rel).
Proof.
  intros P. destruct (is_match_ok _ (dir ++ [47] ++ rel) _ (parse_hg_regexp_core_dollar dir core0 b P)) as (v & E & I).
  exists v. split; [exact E|]. rewrite I. cbn [anchored_start anchored_end body]. split.
  - intros (a & m & t & E' & Hm & Ha & Ht). rewrite (Ha eq_refl), (Ht eq_refl), app_nil_r in E'. cbn [app] in E'.
    apply lang_dir_body in Hm. destruct Hm as (x & -> & Hx). apply app_inv_head in E'. inversion E'. now subst.
  - intros H. exists [], (dir ++ 47 :: rel), []. repeat split; try reflexivity.
    + cbn [app]. now rewrite app_nil_r.
    + apply lang_dir_body. now exists rel.
Qed.

(* the stand-alone parse of  .*r  is  .* followed by the parse of r (no top-level alternation) *)
Lemma plain_parse_dotstar r b :
  plain_parse r = Some (b, false, false) -> plain_parse (s ".*" ++ r) = Some (Seq (Star Any) b, false, false).
Proof.
  intros P. unfold plain_parse. change (s ".*" ++ r) with (46 :: 42 :: r). rewrite go_dot_star. cbn [dot].
  rewrite (go_q _ _ _ _ _ true false).
  - apply (go_bottom false false (Star Any) r [] [] [] false None b false P).
  - intros E. destruct r as [|c r]; [discriminate E|]. cbn [hd] in E. subst c. discriminate P.
Qed.

(* the stand-alone parse of  r$  *)
Lemma plain_parse_dollar r b ta :
  plain_parse r = Some (b, false, ta) -> plain_parse (r ++ s "$") = Some (b, true, ta).
Proof.
  intros P.
  destruct (go_embed false false [] [36] (fun alts sq => Some (close alts sq, true, negb (is_nil alts)))
              (fun _ _ _ => eq_refl) r [] [] [] false None b ta P) as (alts' & sq' & -> & -> & E).
  exact E.
Qed.

Lemma trim_carets_none r : starts_with [94] r = false -> trim_start_matches is_caret r = r.
Proof.
  destruct r as [|c r]; [reflexivity|]. cbn [starts_with trim_start_matches]. unfold is_caret.
  rewrite andb_true_r, N.eqb_sym. now intros ->.
Qed.

Lemma lang_dotstar_prefix b m :
  lang (Seq (Star Any) b) m <-> exists u m', m = u ++ m' /\ nonl u = true /\ lang b m'.
Proof.
  rewrite lang_seq_iff. split; intros (u & m' & -> & Hu & Hm); exists u, m'; repeat split; try assumption;
    now apply lang_star_any.
Qed.

(* hg_regexp_unrooted: a regexp line r that does not start with `^`, parsed on its own to body b
   (no `$`, no top-level alternation): the filter accepts dir/rel iff some substring of rel is in
   lang b, i.e. rel has a prefix in lang (.* b).  [`.` does not match U+000A: nonl u] *)
Theorem hg_regexp_unrooted dir r b rel :
  starts_with [94] r = false -> plain_parse r = Some (b, false, false) ->
  exists v, is_match (convert_hgignore_regexp dir r) (dir ++ [47] ++ rel) = Some v /\
            (v = true <-> exists u m t, rel = u ++ m ++ t /\ nonl u = true /\ lang b m).
Proof.
  intros NC P. unfold convert_hgignore_regexp. rewrite NC, trim_carets_none by exact NC.
  rewrite (app_assoc (s ".*") r).
  destruct (hg_regexp_core_correct dir (s ".*" ++ r) _ _ rel (plain_parse_dotstar r b P)) as (v & E & I).
  exists v. split; [exact E|]. rewrite I. split.
  - intros (m & t & -> & Hm). apply lang_dotstar_prefix in Hm. destruct Hm as (u & m' & -> & Hu & Hm').
    exists u, m', t. now rewrite <- app_assoc.
  - intros (u & m & t & -> & Hu & Hm). exists (u ++ m), t. rewrite <- app_assoc. split; [reflexivity|].
    apply lang_dotstar_prefix. now exists u, m.
Qed.

(* ... and r = r0 `$`: some SUFFIX of rel is in lang b *)
Theorem hg_regexp_unrooted_dollar dir r0 b rel :
  starts_with [94] (r0 ++ s "$") = false -> plain_parse r0 = Some (b, false, false) ->
  exists v, is_match (convert_hgignore_regexp dir (r0 ++ s "$")) (dir ++ [47] ++ rel) = Some v /\
            (v = true <-> exists u m, rel = u ++ m /\ nonl u = true /\ lang b m).
Proof.
  intros NC P. unfold convert_hgignore_regexp. rewrite NC, trim_carets_none by exact NC.
  rewrite (app_assoc (s ".*") (r0 ++ s "$")), (app_assoc (s ".*") r0).
  destruct (hg_regexp_core_dollar_correct dir (s ".*" ++ r0) _ rel (plain_parse_dotstar r0 b P)) as (v & E & I).
  exists v. split; [exact E|]. rewrite I. apply lang_dotstar_prefix.
Qed.

(* hg_regexp_rooted: a regexp line that starts with `^` (hg.rs drops ALL leading carets); the rest
   r parses on its own to body b (no `$`; a top-level alternation is fine here): the filter
   accepts dir/rel iff a PREFIX of rel is in lang b *)
Theorem hg_regexp_rooted dir line b ta rel :
  starts_with [94] line = true -> plain_parse (trim_start_matches is_caret line) = Some (b, false, ta) ->
  exists v, is_match (convert_hgignore_regexp dir line) (dir ++ [47] ++ rel) = Some v /\
            (v = true <-> exists m t, rel = m ++ t /\ lang b m).
Proof.
  intros C P. unfold convert_hgignore_regexp. rewrite C. cbn [app].
  exact (hg_regexp_core_correct dir _ b ta rel P).
Qed.

(* ... and `^` r0 `$`: rel itself is in lang b *)
Theorem hg_regexp_rooted_dollar dir line r0 b rel :
  starts_with [94] line = true -> trim_start_matches is_caret line = r0 ++ s "$" ->
  plain_parse r0 = Some (b, false, false) ->
  exists v, is_match (convert_hgignore_regexp dir line) (dir ++ [47] ++ rel) = Some v /\
            (v = true <-> lang b rel).
Proof.
  intros C E P. unfold convert_hgignore_regexp. rewrite C, E. cbn [app].
  exact (hg_regexp_core_dollar_correct dir r0 b rel P).
Qed.

(* plain_parse is what parse_regex does on a text without leading flag group *)
Lemma parse_regex_plain r :
  strip_flag r = ((false, false), r) -> starts_with [94] r = false ->
  parse_regex r = match plain_parse r with
                  | Some (b, ae, ta) => if ae && ta then None else Some (mkrx false ae b)
                  | None => None
                  end.
Proof.
  intros F C. unfold parse_regex. rewrite F.
  assert (SC : strip_caret r = (false, r)).
  { destruct r as [|c r]; [reflexivity|]. cbn [starts_with] in C. rewrite andb_true_r in C.
    unfold strip_caret. now rewrite N.eqb_sym, C. }
  rewrite SC. cbn [fst snd orb]. rewrite F. reflexivity.
Qed.
Lemma parse_regex_caret_plain r :
  strip_flag r = ((false, false), r) ->
  parse_regex (94 :: r) = match plain_parse r with
                          | Some (b, ae, ta) => if ta then None else Some (mkrx true ae b)
                          | None => None
                          end.
Proof.
  intros F. unfold parse_regex. rewrite (strip_flag_not_paren (94 :: r)) by (cbn; discriminate).
  cbn [strip_caret N.eqb Pos.eqb fst snd orb]. rewrite F. reflexivity.
Qed.

(* instances: the regexps of the differential generator *)
Example hg_regexp_ex1 : plain_parse (s "\.log") = Some (Seq (Chr 46) (Seq (Chr 108) (Seq (Chr 111) (Seq (Chr 103) Eps))), false, false).
Proof. vm_compute. reflexivity. Qed.
Example hg_regexp_ex2 : plain_parse (s "tmp\d") =
  Some (Seq (Chr 116) (Seq (Chr 109) (Seq (Chr 112) (Seq (Class false [(48, 57)]) Eps))), false, false).
Proof. vm_compute. reflexivity. Qed.
Example hg_regexp_ex3 :
  is_match (convert_hgignore_regexp (s "/r") (s "tmp\d$")) (s "/r/x/tmp7") = Some true /\
  is_match (convert_hgignore_regexp (s "/r") (s "tmp\d$")) (s "/r/x/tmp77") = Some false /\
  is_match (convert_hgignore_regexp (s "/r") (s "^build")) (s "/r/buildx/y") = Some true /\
  is_match (convert_hgignore_regexp (s "/r") (s "^build")) (s "/r/x/build") = Some false.
Proof. vm_compute. repeat split; reflexivity. Qed.
(* top-level alternation without `^`: `.*` binds to the first branch only (Mercurial's relre does
   the same), which is why hg_regexp_unrooted asks for a parse without top-level alternation *)
Example hg_regexp_alt :
  is_match (convert_hgignore_regexp (s "/r") (s "a|b")) (s "/r/x/b") = Some false /\
  is_match (convert_hgignore_regexp (s "/r") (s "a|b")) (s "/r/x/a") = Some true /\
  is_match (convert_hgignore_regexp (s "/r") (s "a|b")) (s "/r/b/x") = Some true.
Proof. vm_compute. repeat split; reflexivity. Qed.

(* ================================================================== 10. each hypothesis is needed *)
(* (real code checked through the harness: py/ignorediff.py, section "probes") *)
(* nonl rel: `.` does not match U+000A, so a newline in a file name hides it from `dir` patterns *)
Example need_nonl_docker :
  is_match (fst (convert_dockerignore_pattern (s "/c") (s "build"))) (s "/c/build/a" ++ [10] ++ s "b") = Some false /\
  docker_line_ref (s "build") (s "build/a" ++ [10] ++ s "b") = true.
Proof. vm_compute. split; reflexivity. Qed.
Example need_nonl_hg :
  is_match (convert_hgignore_glob (s "/r") (s "b?d")) (s "/r/b" ++ [10] ++ s "d") = Some false /\
  hg_glob_line_ref (s "b?d") (s "b" ++ [10] ++ s "d") = true.
Proof. vm_compute. split; reflexivity. Qed.
(* docker_wf, `**` glued to a name: docker.rs writes (.*/)? for it, moby (and the reference) .* *)
Example need_wf_docker_any :
  is_match (fst (convert_dockerignore_pattern (s "/c") (s "**.log"))) (s "/c/a.log") = Some false /\
  docker_line_ref (s "**.log") (s "a.log") = true.
Proof. vm_compute. split; reflexivity. Qed.
(* docker_wf, leading backslash *)
Example need_wf_docker_backslash :
  is_match (fst (convert_dockerignore_pattern (s "/c") (s "\build"))) (s "/c/build") = Some true /\
  docker_line_ref (s "\build") (s "build") = false.
Proof. vm_compute. split; reflexivity. Qed.
(* no_backslash (hg): the glob table does not escape `\`, so `\d` reaches the regex as a class *)
Example need_no_backslash_hg :
  is_match (convert_hgignore_glob (s "/r") (s "a\d")) (s "/r/a7") = Some true /\
  hg_glob_line_ref (s "a\d") (s "a7") = false.
Proof. vm_compute. split; reflexivity. Qed.
(* path_clean: matches_dockerignore_filter rewrites the subject first *)
Example need_path_clean :
  matches_dockerignore_filter (parse_dockerignore (s "/c") [s "a/b"]) (s "/c/a//b") = Some true /\
  docker_ignored_ref [s "a/b"] (s "a//b") = false.
Proof. vm_compute. split; reflexivity. Qed.

(* ================================================================== summary
   escape_literal              regex::escape(x) parses to a body whose language is {x}, for EVERY x
   docker_glob_correct         the regex of a trimmed glob text = docker_match of its tokens
   docker_line_correct         one .dockerignore line (trim, `!`, trim_start, leading/trailing `/`)
   docker_file_correct         matches_dockerignore_filter (parse_dockerignore dir lines) (dir/rel)
                               = Some (docker_ignored_ref lines rel)
   hg_glob_correct / hg_glob_line_correct / hg_file_correct      the same for `syntax: glob`
   hg_regexp_unrooted(_dollar) / hg_regexp_rooted(_dollar)       characterisation of regexp lines
   hypotheses: nonl rel (no U+000A in the path), docker_wf / no_backslash for the pattern text,
   path_clean (dir/rel) for the Docker file level; section 10 shows each one is needed. *)
Print Assumptions escape_literal.
Print Assumptions docker_line_correct.
Print Assumptions docker_file_correct.
Print Assumptions hg_glob_line_correct.
Print Assumptions hg_file_correct.
Print Assumptions hg_regexp_unrooted.
Print Assumptions hg_regexp_unrooted_dollar.
Print Assumptions hg_regexp_rooted.
Print Assumptions hg_regexp_rooted_dollar.
Print Assumptions plain_parse_dollar.
Print Assumptions parse_regex_plain.
