(* Equation lemmas for the mutual fixpoint of model/Parser.v (bodies copied verbatim from the
   model, proved by reflexivity), and the elementary steps of the state monad. *)
From Coq Require Import List NArith Bool Arith Lia String.
From FS Require Import lib.Str lib.Res lib.Dec gen.OpsGen gen.FieldGen gen.FuncGen
  model.Show model.Lexer model.Expr model.Parser.
Import ListNotations.

Section Eqs.
Variable T : list lexem.

Local Notation next_lexem := (FS.model.Parser.next_lexem T).
Local Notation parse_expr := (FS.model.Parser.parse_expr T).
Local Notation expr_loop := (FS.model.Parser.expr_loop T).
Local Notation parse_and := (FS.model.Parser.parse_and T).
Local Notation and_loop := (FS.model.Parser.and_loop T).
Local Notation parse_cond := (FS.model.Parser.parse_cond T).
Local Notation cond_nots := (FS.model.Parser.cond_nots T).
Local Notation cond_body := (FS.model.Parser.cond_body T).
Local Notation parse_add_sub := (FS.model.Parser.parse_add_sub T).
Local Notation add_sub_loop := (FS.model.Parser.add_sub_loop T).
Local Notation parse_mul_div := (FS.model.Parser.parse_mul_div T).
Local Notation mul_div_loop := (FS.model.Parser.mul_div_loop T).
Local Notation parse_paren := (FS.model.Parser.parse_paren T).
Local Notation parse_func_scalar := (FS.model.Parser.parse_func_scalar T).
Local Notation parse_function := (FS.model.Parser.parse_function T).
Local Notation function_args_loop := (FS.model.Parser.function_args_loop T).

Lemma parse_expr_S (k : nat) : parse_expr (S k)  =
    tryr lft <- parse_and k ;; expr_loop k lft None.
Proof. reflexivity. Qed.

Lemma expr_loop_S (k : nat) (lft rgt : option expr) : expr_loop (S k) lft rgt =
    dom lx <- next_lexem ;;
    match lx with
    | Some Or =>
        tryr e <- parse_and k ;;
        match rgt with
        | Some r =>
            match e with
            | Some e' => expr_loop k lft (Some (Expr_logical_op r LOr e'))
            | None => panic "parse_expr: expr.clone().unwrap()"
            end
        | None => expr_loop k lft e
        end
    | _ =>
        dom _ <- drop_lexem ;;
        match rgt with
        | Some r =>
            match lft with
            | Some l => ret (ROk (Some (Expr_logical_op l LOr r)))
            | None => panic "parse_expr: left.unwrap()"
            end
        | None => ret (ROk lft)
        end
    end.
Proof. reflexivity. Qed.

Lemma parse_and_S (k : nat) : parse_and (S k)  =
    tryr lft <- parse_cond k ;; and_loop k lft None.
Proof. reflexivity. Qed.

Lemma and_loop_S (k : nat) (lft rgt : option expr) : and_loop (S k) lft rgt =
    dom lx <- next_lexem ;;
    match lx with
    | Some And =>
        tryr e <- parse_cond k ;;
        match rgt with
        | Some r =>
            match e with
            | Some e' => and_loop k lft (Some (Expr_logical_op r LAnd e'))
            | None => panic "parse_and: expr.unwrap()"
            end
        | None => and_loop k lft e
        end
    | _ =>
        dom _ <- drop_lexem ;;
        match rgt with
        | Some r =>
            match lft with
            | Some l => ret (ROk (Some (Expr_logical_op l LAnd r)))
            | None => panic "parse_and: left.unwrap()"
            end
        | None => ret (ROk lft)
        end
    end.
Proof. reflexivity. Qed.

Lemma parse_cond_S (k : nat) : parse_cond (S k)  =
    cond_nots k false.
Proof. reflexivity. Qed.

Lemma cond_nots_S (k : nat) (negate : bool) : cond_nots (S k) negate =
    dom lx <- next_lexem ;;
    match lx with
    | Some Not => cond_nots k (negb negate)
    | _ => dom _ <- drop_lexem ;; cond_body k negate
    end.
Proof. reflexivity. Qed.

Lemma cond_body_S (k : nat) (negate : bool) : cond_body (S k) negate =
    dom left_r <- parse_add_sub k ;;
    match left_r with
    | RErr e => ret (RErr e)                       (* `?`: returns before the negate handling *)
    | ROk lft =>
        dom lx0 <- next_lexem ;;
        dom not <- match lx0 with
                   | Some Not => ret true
                   | _ => dom _ <- drop_lexem ;; ret false
                   end ;;
        dom lx <- next_lexem ;;
        match lx with
        | Some (Operator x) =>
            if str_eqb (ascii_lower x) (s "between") then
              dom lb_r <- parse_add_sub k ;;
              match lb_r with RErr e => ret (RErr e) | ROk left_between =>
                dom and_lexem <- next_lexem ;;
                match and_lexem with
                | Some And =>
                    dom rb_r <- parse_add_sub k ;;
                    match rb_r with RErr e => ret (RErr e) | ROk right_between =>
                      match lft with
                      | None => panic "parse_cond: left.clone().unwrap()"
                      | Some l =>
                          match left_between with
                          | None => panic "parse_cond: left_between.unwrap()"
                          | Some lb =>
                              match right_between with
                              | None => panic "parse_cond: right_between.unwrap()"
                              | Some rb =>
                                  let left_expr := Expr_op l (if not then OpLt else OpGte) lb in
                                  let right_expr := Expr_op l (if not then OpGt else OpLte) rb in
                                  dom st <- get_state ;;
                                  ret (cond_post st negate
                                         (ROk (Some (Expr_logical_op left_expr (if not then LOr else LAnd) right_expr))))
                              end
                          end
                      end
                    end
                | _ => err "Error parsing BETWEEN operator"
                end
              end
            else
              dom r_r <- parse_add_sub k ;;
              match r_r with RErr e => ret (RErr e) | ROk rgt =>
                match Op_from_with_not x not with
                | None => ret (RErr (s "Unknown operator: " ++ x))
                | Some op =>
                    match lft with
                    | None => panic "parse_cond: left.unwrap()"
                    | Some l =>
                        match rgt with
                        | None => panic "parse_cond: right.unwrap()"
                        | Some r => dom st <- get_state ;; ret (cond_post st negate (ROk (Some (Expr_op l op r))))
                        end
                    end
                end
              end
        | _ =>
            dom _ <- drop_lexem ;;
            dom st <- get_state ;;
            ret (cond_post st negate (ROk lft))
        end
    end.
Proof. reflexivity. Qed.

Lemma parse_add_sub_S (k : nat) : parse_add_sub (S k)  =
    tryr lft <- parse_mul_div k ;; add_sub_loop k lft.
Proof. reflexivity. Qed.

Lemma add_sub_loop_S (k : nat) (lft : option expr) : add_sub_loop (S k) lft =
    dom lx <- next_lexem ;;
    match lx with
    | Some (ArithmeticOperator x) =>
        match Arith_from x with
        | Some AAdd | Some ASubtract =>
            tryr e <- parse_mul_div k ;;
            match lft with
            | Some l =>
                match Arith_from x, e with
                | Some new_op, Some e' => add_sub_loop k (Some (Expr_arithmetic_op l new_op e'))
                | _, _ => panic "parse_add_sub: expr.unwrap()"
                end
            | None => add_sub_loop k e
            end
        | _ => dom _ <- drop_lexem ;; ret (ROk lft)
        end
    | _ => dom _ <- drop_lexem ;; ret (ROk lft)
    end.
Proof. reflexivity. Qed.

Lemma parse_mul_div_S (k : nat) : parse_mul_div (S k)  =
    tryr lft <- parse_paren k ;; mul_div_loop k lft.
Proof. reflexivity. Qed.

Lemma mul_div_loop_S (k : nat) (lft : option expr) : mul_div_loop (S k) lft =
    dom lx <- next_lexem ;;
    match lx with
    | Some (ArithmeticOperator x) =>
        match Arith_from x with
        | Some AMultiply | Some ADivide | Some AModulo =>
            tryr e <- parse_paren k ;;
            match lft with
            | Some l =>
                match Arith_from x, e with
                | Some new_op, Some e' => mul_div_loop k (Some (Expr_arithmetic_op l new_op e'))
                | _, _ => panic "parse_mul_div: expr.unwrap()"
                end
            | None => mul_div_loop k e
            end
        | _ => dom _ <- drop_lexem ;; ret (ROk lft)
        end
    | _ => dom _ <- drop_lexem ;; ret (ROk lft)
    end.
Proof. reflexivity. Qed.

Lemma parse_paren_S (k : nat) : parse_paren (S k)  =
    dom lx <- next_lexem ;;
    match lx with
    | Some Open =>
        dom result <- parse_expr k ;;
        dom lx2 <- next_lexem ;;
        match lx2 with Some Close => ret result | _ => err "Unmatched parenthesis" end
    | Some CurlyOpen =>
        dom result <- parse_expr k ;;
        dom lx2 <- next_lexem ;;
        match lx2 with Some CurlyClose => ret result | _ => err "Unmatched parenthesis" end
    | _ => dom _ <- drop_lexem ;; parse_func_scalar k
    end.
Proof. reflexivity. Qed.

Lemma parse_func_scalar_S (k : nat) : parse_func_scalar (S k)  =
    dom lx <- next_lexem ;;
    dom ml <- match lx with
              | Some (ArithmeticOperator x) =>
                  if str_eqb x (s "-") then dom lx' <- next_lexem ;; ret (true, lx')
                  else if str_eqb x (s "+") then ret (false, lx)
                  else dom _ <- drop_lexem ;; ret (false, lx)
              | _ => ret (false, lx)
              end ;;
    let '(minus, lexem) := ml in
    match lexem with
    | Some (QString x) => ret (ROk (Some (set_minus (Expr_value x) minus)))   (* a quoted string is always a value *)
    | Some (RawString x) =>
        match Field_from_str x with
        | Some field => ret (ROk (Some (set_minus (Expr_field field) minus)))
        | None =>
            match Function_from_str x with
            | Some function =>
                tryr e <- parse_function k function ;; ret (ROk (Some (set_minus e minus)))
            | None => ret (ROk (Some (set_minus (Expr_value x) minus)))
            end
        end
    | _ => err "Error parsing expression, expecting string"
    end.
Proof. reflexivity. Qed.

Lemma parse_function_S (k : nat) (function : Function) : parse_function (S k) function =
    let function_expr := Expr_function function in
    let body (curly_mode : bool) : M (rr expr) :=
      dom r <- parse_expr k ;;
      match r with
      | ROk (Some function_arg) => function_args_loop k (set_left function_expr (Some function_arg)) curly_mode []
      | _ => ret (ROk function_expr)               (* Err and Ok(None) are swallowed *)
      end in
    dom lx <- next_lexem ;;
    match lx with
    | Some Open => body false
    | Some CurlyOpen => body true
    | Some _ => dom _ <- drop_lexem ;; ret (ROk function_expr)          (* no bracket: an argument-less call; the token is put back *)
    | None => body false
    end.
Proof. reflexivity. Qed.

Lemma function_args_loop_S (k : nat) (function_expr : expr) (curly_mode : bool) (args : list expr) : function_args_loop (S k) function_expr curly_mode args =
    dom lx <- next_lexem ;;
    match lx with
    | Some Comma =>
        dom r <- parse_expr k ;;
        match r with
        | ROk (Some e) => function_args_loop k function_expr curly_mode (args ++ [e])
        | _ => err "Error in function expression"
        end
    | Some Close =>
        if negb curly_mode then ret (ROk (set_args function_expr (Some args))) else err "Error in function expression"
    | Some CurlyClose =>
        if curly_mode then ret (ROk (set_args function_expr (Some args))) else err "Error in function expression"
    | _ => err "Error in function expression"
    end.
Proof. reflexivity. Qed.

End Eqs.
(* the loops of the statement level *)
Section Eqs2.
Variable T : list lexem.

Local Notation next_lexem := (FS.model.Parser.next_lexem T).
Local Notation pfuel := (FS.model.Parser.pfuel T).
Local Notation parse_expr_top := (FS.model.Parser.parse_expr_top T).
Local Notation parse_root_options := (FS.model.Parser.parse_root_options T).
Local Notation fields_loop := (FS.model.Parser.fields_loop T).
Local Notation root_options_loop := (FS.model.Parser.root_options_loop T).
Local Notation roots_loop := (FS.model.Parser.roots_loop T).
Local Notation group_by_loop := (FS.model.Parser.group_by_loop T).
Local Notation order_by_loop := (FS.model.Parser.order_by_loop T).

Lemma fields_loop_S (k : nat) (fields : list expr) : fields_loop (S k) fields =
    let push_expr : M (rr (list expr)) :=
      tryr f <- parse_expr_top ;;
      match f with Some field => fields_loop k (fields ++ [field]) | None => fields_loop k fields end in
    dom lx <- next_lexem ;;
    match lx with
    | Some Comma => fields_loop k fields
    | Some (QString x) | Some (RawString x) | Some (ArithmeticOperator x) =>
        if lo_is x "select" then fields_loop k fields
        else if str_eqb x (s "*") then fields_loop k (fields ++ star_fields)
        else
          dom brk <- (if kw_is (uni_lower x) "group" then
                        dom lx2 <- next_lexem ;;
                        match lx2 with
                        | Some By => dom _ <- drop_lexem ;; dom _ <- drop_lexem ;; ret true
                        | _ => dom _ <- drop_lexem ;; ret false
                        end
                      else ret false) ;;
          if brk then ret (ROk fields)
          else
            dom _ <- drop_lexem ;;
            if is_root_option_keyword x then ret (ROk fields) else push_expr
    | Some Open | Some CurlyOpen => dom _ <- drop_lexem ;; push_expr
    | _ => dom _ <- drop_lexem ;; ret (ROk fields)
    end.
Proof. reflexivity. Qed.

Lemma root_options_loop_S (k : nat) (mode : ro_mode) (o : root_options) : root_options_loop (S k) mode o =
    dom lx <- next_lexem ;;
    match lx with
    | Some (QString x) | Some (RawString x) =>
        match mode with
        | ROUnknown | ROOptions =>
            if lo_is x "mindepth" then root_options_loop k ROMinDepth o
            else if lo_is x "maxdepth" || lo_is x "depth" then root_options_loop k RODepth o
            else if lo_starts x "arc" then root_options_loop k ROOptions (ro_set_arc o)
            else if lo_starts x "sym" then root_options_loop k ROOptions (ro_set_sym o)
            else if lo_starts x "git" then root_options_loop k ROOptions (ro_set_git o true)   (* feature git *)
            else if lo_starts x "hg" then root_options_loop k ROOptions (ro_set_hg o true)
            else if lo_starts x "dock" then root_options_loop k ROOptions (ro_set_dock o true)
            else if lo_starts x "nogit" then root_options_loop k ROOptions (ro_set_git o false)
            else if lo_starts x "nohg" then root_options_loop k ROOptions (ro_set_hg o false)
            else if lo_starts x "nodock" then root_options_loop k ROOptions (ro_set_dock o false)
            else if lo_is x "bfs" then root_options_loop k ROOptions (ro_set_trav o Bfs)
            else if lo_is x "dfs" then root_options_loop k ROOptions (ro_set_trav o Dfs)
            else if lo_starts x "regex" then root_options_loop k ROOptions (ro_set_regexp o)
            else dom _ <- drop_lexem ;; ret (mode, o)
        | ROMinDepth =>
            match parse_u32 x with
            | Some d => root_options_loop k ROOptions (ro_set_min o d)
            | None => dom _ <- drop_lexem ;; ret (mode, o)
            end
        | RODepth =>
            match parse_u32 x with
            | Some d => root_options_loop k ROOptions (ro_set_max o d)
            | None => dom _ <- drop_lexem ;; ret (mode, o)
            end
        end
    | Some (Operator x) =>
        if str_eqb (ascii_lower x) (s "rx") then root_options_loop k ROOptions (ro_set_regexp o)
        else dom _ <- drop_lexem ;; ret (mode, o)
    | Some _ => dom _ <- drop_lexem ;; ret (mode, o)
    | None => ret (mode, o)
    end.
Proof. reflexivity. Qed.

Lemma roots_loop_S (k : nat) (mode : roots_mode) (path : str) (root_options : root_options) (roots : list root) : roots_loop (S k) mode path root_options roots =
    let push_if_path := if is_empty path then roots else roots ++ [mkRoot path root_options] in
    dom lx <- next_lexem ;;
    match lx with
    | Some (QString x) | Some (RawString x) =>
        match mode with
        | RMFrom | RMComma =>
            if starts_with [126] x then unmodelled_home
            else roots_loop k RMRoot x root_options roots
        | RMRoot =>
            dom brk <- (if kw_is (uni_lower x) "group" then
                          dom lx2 <- next_lexem ;;
                          match lx2 with
                          | Some By => dom _ <- drop_lexem ;; dom _ <- drop_lexem ;; ret true
                          | _ => ret false                      (* no drop_lexem here *)
                          end
                        else ret false) ;;
            if brk then ret push_if_path
            else
              dom _ <- drop_lexem ;;
              dom o <- parse_root_options ;;
              match o with
              | Some options => roots_loop k RMRoot path options roots
              | None => ret (roots ++ [mkRoot path RootOptions_new])
              end
        end
    | Some Comma =>
        if negb (is_empty path) then roots_loop k RMComma [] RootOptions_new (roots ++ [mkRoot path root_options])
        else dom _ <- drop_lexem ;; ret roots
    | Some _ => dom _ <- drop_lexem ;; ret push_if_path
    | None => ret push_if_path
    end.
Proof. reflexivity. Qed.

Lemma group_by_loop_S (k : nat) (acc : list expr) : group_by_loop (S k) acc =
    dom lx <- next_lexem ;;
    match lx with
    | Some Comma => group_by_loop k acc
    | Some (RawString _) =>
        dom _ <- drop_lexem ;;
        tryr e <- parse_expr_top ;;
        match e with
        | Some group_field => group_by_loop k (acc ++ [group_field])
        | None => err "Error parsing group by"
        end
    | _ => dom _ <- drop_lexem ;; ret (ROk acc)
    end.
Proof. reflexivity. Qed.

Lemma order_by_loop_S (k : nat) (fields : list expr) (obf : list expr) (obd : list bool) : order_by_loop (S k) fields obf obd =
    dom lx <- next_lexem ;;
    match lx with
    | Some Comma => order_by_loop k fields obf obd
    | Some (RawString ordering_field) =>
        (* a number is a position unless an arithmetic operator follows it (fix 7b109d9) *)
        dom position <- match parse_usize ordering_field with
                        | Some i => dom nx <- next_lexem ;; dom _ <- drop_lexem ;;
                                    ret (match nx with Some (ArithmeticOperator _) => None | _ => Some i end)
                        | None => ret None
                        end ;;
        match position with
        | Some i =>
            if (1 <=? i) && (i <=? N.of_nat (List.length fields)) then
              match nth_error fields (N.to_nat (i - 1)) with
              | Some f => order_by_loop k fields (obf ++ [f]) (obd ++ [true])
              | None => panic "parse_order_by: fields[idx - 1]"
              end
            else err "Order by position is out of range"
        | None =>
            dom _ <- drop_lexem ;;
            tryr e <- parse_expr_top ;;
            match e with
            | Some f => order_by_loop k fields (obf ++ [f]) (obd ++ [true])
            | None => err "Error parsing order by"
            end
        end
    | Some DescendingOrder =>
        if is_empty obd then err "Error parsing order by, no field before desc"
        else order_by_loop k fields obf (set_last_false obd)
    | _ => dom _ <- drop_lexem ;; ret (ROk (obf, obd))
    end.
Proof. reflexivity. Qed.

End Eqs2.
