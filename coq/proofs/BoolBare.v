(* C'. The Boolean level of the WHERE grammar WITH BARE BOOLEAN ATOMS, through the model of the
   real parser (model/Parser.v).

   BoolRoundtrip.v covers formulas whose atoms are comparisons `column OP digits`.  In fselect a
   boolean column (is_dir, is_file, is_hidden, ...) may also stand alone in WHERE: the tail of
   parse_cond (cond_post in the model) rewrites a result that is just a boolean field to
   `field = true` -- Expr_op (Expr_field f) OpEq (Expr_value "true") -- and only THEN applies the
   pending prefix negation (negate_expr_op: Eq becomes Ne).  The expansion is guarded by the
   parser state: it happens iff  roots_parsed && !where_parsed,  i.e. between the end of FROM and
   the end of WHERE (parse_main sets roots_parsed before parse_where and where_parsed after it).

   Formulas `formb`: comparison atoms, bare boolean columns, AND, OR, prefix NOT, brackets.
   `wf_bb inw F`: the atoms are as in BoolRoundtrip.wf_b; a bare atom needs
   Field_is_boolean_field f = true (the model's own predicate) and inw = true, where inw is
   instantiated with  in_where rp wp = rp && negb wp  of the parser state.
   `render_bb`: the minimal bracketing of BoolRoundtrip.render_b; a bare atom is the single token
   RawString (field_key f).
   `denote_b`: a bare atom means  asem f OpEq "true".

   Main theorems:
     bool_bare_roundtrip_flags  any flags rp wp, wf_bb (in_where rp wp) F         (pfuel)
     bool_bare_roundtrip_pfuel  the WHERE state rp = true, wp = false, wf_bb true F (pfuel)
   both with the conclusion of C03_parser_boolean_algebra: parse_expr_top consumes exactly the
   rendered tokens and esem asem e = denote_b asem F, for every oracle under which negating the
   operator complements the atom.  In particular `not is_dir` is the complement of `is_dir`. *)
From Coq Require Import String List NArith Bool Arith Lia.
From FS Require Import lib.Str lib.Res lib.Dec gen.OpsGen gen.FieldGen gen.FuncGen
  model.Show model.Lexer model.Expr model.Parser proofs.DisplayProofs proofs.ParserEqs
  proofs.ArithRoundtrip proofs.BoolRoundtrip proofs.ParserTotal proofs.FuelMono proofs.RoundtripPfuel.
Import ListNotations.
Open Scope nat_scope.

Inductive formb :=
| BAtom (f : Field) (o : Op) (lit : str)
| BBare (f : Field)
| BAnd (a b : formb)
| BOr (a b : formb)
| BNot (a : formb)
| BParen (a : formb).

(* the guard of the expansion in cond_post, as a function of the two flags of the parser state *)
Definition in_where (rp wp : bool) : bool := rp && negb wp.

Fixpoint wf_bb (inw : bool) (F : formb) : Prop :=
  match F with
  | BAtom _ o lit => op_ok o = true /\ lit <> [] /\ forallb is_digit lit = true
  | BBare f => Field_is_boolean_field f = true /\ inw = true
  | BAnd a b | BOr a b => wf_bb inw a /\ wf_bb inw b
  | BNot a | BParen a => wf_bb inw a
  end.

Fixpoint render_bb (lvl : nat) (F : formb) : list lexem :=
  match F with
  | BAtom f o lit => atom_toks f o lit
  | BBare f => [RawString (field_key f)]
  | BNot a => [Not] ++ render_bb 2 a
  | BParen a => [Open] ++ render_bb 0 a ++ [Close]
  | BAnd a b =>
      let body := render_bb 1 a ++ [And] ++ render_bb 2 b in
      if lvl <=? 1 then body else [Open] ++ body ++ [Close]
  | BOr a b =>
      let body := render_bb 0 a ++ [Or] ++ render_bb 1 b in
      if lvl <=? 0 then body else [Open] ++ body ++ [Close]
  end.

(* what parse_cond makes of a bare boolean column *)
Definition bare_expr (f : Field) : expr := Expr_op (Expr_field f) OpEq (Expr_value (s "true")).

(* ---------- cond_post on a bare column: inside and outside WHERE ---------- *)
Lemma cond_post_bare j rp wp neg f : Field_is_boolean_field f = true -> in_where rp wp = true ->
  cond_post (mkPS j rp wp) neg (ROk (Some (Expr_field f)))
  = ROk (Some (if neg then negate_expr_op (bare_expr f) else bare_expr f)).
Proof.
  intros Hb Hw. unfold in_where in Hw. apply andb_true_iff in Hw. destruct Hw as [Hr Hw]. subst rp.
  destruct wp; [discriminate Hw|].
  unfold cond_post. cbn [Expr_field e_field e_left e_right is_none roots_parsed where_parsed andb negb].
  rewrite Hb. destruct neg; reflexivity.
Qed.

(* outside WHERE (or for a non-boolean column) nothing is expanded, and the negation has no
   operator to act on: the side condition in_where rp wp = true is necessary *)
Lemma cond_post_bare_outside j rp wp neg f : Field_is_boolean_field f && in_where rp wp = false ->
  cond_post (mkPS j rp wp) neg (ROk (Some (Expr_field f))) = ROk (Some (Expr_field f)).
Proof.
  intros H. unfold in_where in H. unfold cond_post.
  cbn [Expr_field e_field e_left e_right is_none roots_parsed where_parsed andb].
  rewrite <- andb_assoc, H. destruct neg; reflexivity.
Qed.

Section Sem.
Variable asem : Field -> Op -> str -> bool.            (* truth of `column OP literal` for the entry at hand *)
Hypothesis asem_negate : forall f o lit, asem f (Op_negate o) lit = negb (asem f o lit).

Local Notation esem := (BoolRoundtrip.esem asem).
Local Notation optsem := (BoolRoundtrip.optsem asem).

Fixpoint denote_b (F : formb) : bool :=
  match F with
  | BAtom f o lit => asem f o lit
  | BBare f => asem f OpEq (s "true")
  | BAnd a b => denote_b a && denote_b b
  | BOr a b => denote_b a || denote_b b
  | BNot a => negb (denote_b a)
  | BParen a => denote_b a
  end.

Lemma bexp_bare f : bexp (bare_expr f).
Proof. constructor. Qed.

(* the flags of the parser state are fixed throughout one run of the expression grammar *)
Variables rp wp : bool.

(* ---------- what each level promises for a formula, in every context ---------- *)
Definition CondOKb (F : formb) := forall T pre post i j neg,
  T = pre ++ render_bb 2 F ++ post -> i = length pre -> j = length pre + length (render_bb 2 F) ->
  cond_stop (hd_error post) ->
  exists N e, bexp e /\ esem e = xorb neg (denote_b F) /\ forall n, N <= n ->
  cond_nots T n neg (mkPS i rp wp) = Ok (ROk (Some e), mkPS j rp wp).

Definition AndChainb (F : formb) := forall T pre post i j,
  T = pre ++ render_bb 1 F ++ post -> i = length pre -> j = length pre + length (render_bb 1 F) ->
  cond_stop (hd_error post) ->
  exists N c l rgt, bexp l /\ optbexp rgt /\ esem l && optsem true rgt = denote_b F /\ forall n, N <= n ->
  tryM (parse_cond T n) (fun lft => and_loop T n lft None) (mkPS i rp wp)
  = and_loop T (n - c) (Some l) rgt (mkPS j rp wp).

Definition AndOKb (F : formb) := forall T pre post i j,
  T = pre ++ render_bb 1 F ++ post -> i = length pre -> j = length pre + length (render_bb 1 F) ->
  and_stop (hd_error post) ->
  exists N e, bexp e /\ esem e = denote_b F /\ forall n, N <= n ->
  parse_and T n (mkPS i rp wp) = Ok (ROk (Some e), mkPS j rp wp).

Definition OrChainb (F : formb) := forall T pre post i j,
  T = pre ++ render_bb 0 F ++ post -> i = length pre -> j = length pre + length (render_bb 0 F) ->
  and_stop (hd_error post) ->
  exists N c l rgt, bexp l /\ optbexp rgt /\ esem l || optsem false rgt = denote_b F /\ forall n, N <= n ->
  tryM (parse_and T n) (fun lft => expr_loop T n lft None) (mkPS i rp wp)
  = expr_loop T (n - c) (Some l) rgt (mkPS j rp wp).

Definition OrOKb (F : formb) := forall T pre post i j,
  T = pre ++ render_bb 0 F ++ post -> i = length pre -> j = length pre + length (render_bb 0 F) ->
  or_stop (hd_error post) ->
  exists N e, bexp e /\ esem e = denote_b F /\ forall n, N <= n ->
  parse_expr T n (mkPS i rp wp) = Ok (ROk (Some e), mkPS j rp wp).

Lemma andchain_andok_b F : AndChainb F -> AndOKb F.
Proof.
  intros H T pre post i j HT Hi Hj Hp.
  destruct (H T pre post i j HT Hi Hj (and_cond_stop _ Hp)) as (N & c & l & rgt & Bl & Br & Hs & HN).
  exists (S (N + c + 1)), (logic_of LAnd l rgt). split; [now apply logic_bexp|]. split.
  - rewrite <- Hs. destruct rgt; cbn [logic_of BoolRoundtrip.optsem]; [apply esem_and|now rewrite andb_true_r].
  - intros n Hn. destruct n as [|n]; [lia|].
    rewrite parse_and_S, (HN n ltac:(lia)). replace (n - c) with (S (n - c - 1)) by lia.
    apply and_loop_stop. subst T j. rewrite nth_post. intros E. rewrite E in Hp. exact Hp.
Qed.

Lemma orchain_orok_b F : OrChainb F -> OrOKb F.
Proof.
  intros H T pre post i j HT Hi Hj Hp.
  destruct (H T pre post i j HT Hi Hj (or_and_stop _ Hp)) as (N & c & l & rgt & Bl & Br & Hs & HN).
  exists (S (N + c + 1)), (logic_of LOr l rgt). split; [now apply logic_bexp|]. split.
  - rewrite <- Hs. destruct rgt; cbn [logic_of BoolRoundtrip.optsem]; [apply esem_or|now rewrite orb_false_r].
  - intros n Hn. destruct n as [|n]; [lia|].
    rewrite parse_expr_S, (HN n ltac:(lia)). replace (n - c) with (S (n - c - 1)) by lia.
    apply expr_loop_stop. subst T j. rewrite nth_post. intros E. rewrite E in Hp. exact Hp.
Qed.

(* a formula that is a single cond is a one-element AND chain; a single AND chain is a one-element OR chain *)
Lemma cond_andchain_b F : render_bb 1 F = render_bb 2 F -> CondOKb F -> AndChainb F.
Proof.
  intros E A T pre post i j HT Hi Hj Hp. rewrite E in HT, Hj.
  destruct (A T pre post i j false HT Hi Hj Hp) as (N & e & Be & Hs & HN).
  exists (S N), 0, e, None. split; [exact Be|]. split; [exact I|].
  split; [cbn [BoolRoundtrip.optsem]; rewrite Hs, xorb_false_l; now rewrite andb_true_r|].
  intros n Hn. destruct n as [|n]; [lia|].
  assert (Hc : parse_cond T (S n) (mkPS i rp wp) = Ok (ROk (Some e), mkPS j rp wp)) by (rewrite parse_cond_S; apply HN; lia).
  rewrite (try_ok _ _ _ _ _ Hc), Nat.sub_0_r. reflexivity.
Qed.

Lemma and_orchain_b F : render_bb 0 F = render_bb 1 F -> AndOKb F -> OrChainb F.
Proof.
  intros E A T pre post i j HT Hi Hj Hp. rewrite E in HT, Hj.
  destruct (A T pre post i j HT Hi Hj Hp) as (N & e & Be & Hs & HN).
  exists N, 0, e, None. split; [exact Be|]. split; [exact I|].
  split; [cbn [BoolRoundtrip.optsem]; rewrite Hs; now rewrite orb_false_r|].
  intros n Hn. rewrite (try_ok _ _ _ _ _ (HN n Hn)), Nat.sub_0_r. reflexivity.
Qed.

(* a bracketed formula is a cond: the tree of the inner formula is built from operators only
   (bexp), so the cond_post of the OUTER cond leaves it alone and just applies the negation *)
Lemma paren_cond_b F G : render_bb 2 F = [Open] ++ render_bb 0 G ++ [Close] -> denote_b F = denote_b G -> OrOKb G -> CondOKb F.
Proof.
  intros Hr Hd HO T pre post i j neg HT Hi Hj Hp. rewrite Hr in HT, Hj.
  assert (HT' : T = (pre ++ [Open]) ++ render_bb 0 G ++ Close :: post) by side.
  assert (Hj' : j = S (length (pre ++ [Open]) + length (render_bb 0 G))) by side.
  destruct (HO T (pre ++ [Open]) (Close :: post) (S i) (length (pre ++ [Open]) + length (render_bb 0 G)) HT' ltac:(side) eq_refl I)
    as (N & e & Be & Hs & HN).
  exists (S (S (S (S (S N))))), (if neg then negate_expr_op e else e).
  split; [destruct neg; [now apply bexp_negate|exact Be]|].
  split; [rewrite (xorb_neg_sem asem asem_negate neg e Be), Hs, Hd; reflexivity|].
  intros n Hn. do 5 (destruct n as [|n]; [lia|]).
  assert (F1 : nth_error T i = Some Open) by (apply (nth_split T pre Open (render_bb 0 G ++ Close :: post)); side).
  assert (F3 : nth_error T (length (pre ++ [Open]) + length (render_bb 0 G)) = Some Close)
    by (rewrite (nth_split_post T _ _ _ _ HT' eq_refl); reflexivity).
  assert (F4 : nth_error T j = hd_error post).
  { apply (nth_split_post T (pre ++ [Open] ++ render_bb 0 G ++ [Close]) [] post); side. }
  assert (HA : parse_add_sub T (S (S (S n))) (mkPS i rp wp) = Ok (ROk (Some e), mkPS j rp wp)).
  { rewrite Hj'. apply add_sub_of_paren; [exact F1|apply HN; lia|exact F3|]. rewrite <- Hj', F4. now apply cond_stop_noop. }
  rewrite (cond_nots_plain T _ neg i rp wp) by (rewrite F1; discriminate).
  rewrite (cond_body_plain T _ neg i j rp wp e HA) by (rewrite F4; now apply cond_stop_plain).
  rewrite (cond_post_bexp _ neg e Be). reflexivity.
Qed.

Theorem roundtrip_bb : forall F, wf_bb (in_where rp wp) F -> CondOKb F /\ AndChainb F /\ OrChainb F.
Proof.
  assert (cond_all : forall F, render_bb 1 F = render_bb 2 F -> render_bb 0 F = render_bb 1 F -> CondOKb F -> CondOKb F /\ AndChainb F /\ OrChainb F).
  { intros F E1 E0 C. pose proof (cond_andchain_b F E1 C) as AC. split; [exact C|split; [exact AC|]].
    apply and_orchain_b; [exact E0|apply andchain_andok_b; exact AC]. }
  induction F as [f o lit|f|a IHa b IHb|a IHa b IHb|a IHa|a IHa]; intros Hwf.
  - (* comparison atom *)
    apply cond_all; [reflexivity|reflexivity|]. destruct Hwf as (Hop & Hne & Hd).
    destruct (op_text_ok o Hop) as [Hfrom Hbtw].
    intros T pre post i j neg HT Hi Hj Hp. cbn [render_bb] in HT, Hj. unfold atom_toks in HT, Hj.
    destruct (arith_roundtrip (ACol false f) pre (Operator (op_text o) :: RawString lit :: post) rp wp I I) as (N1 & H1).
    destruct (arith_roundtrip (ANum false lit) (pre ++ [RawString (field_key f); Operator (op_text o)]) post rp wp (conj Hne Hd)) as (N2 & H2).
    { destruct post as [|[] ?]; cbn in *; tauto. }
    pose (e := Expr_op (Expr_field f) o (Expr_value lit)).
    exists (S (S (N1 + N2))), (if neg then negate_expr_op e else e).
    split; [destruct neg; [apply bexp_negate|]; constructor|].
    split; [rewrite (xorb_neg_sem asem asem_negate neg e (bexp_atom f o lit)); reflexivity|].
    intros n Hn. do 2 (destruct n as [|n]; [lia|]).
    specialize (H1 n ltac:(lia)). specialize (H2 n ltac:(lia)).
    cbn [render minus_tok app length] in H1, H2.
    replace (pre ++ RawString (field_key f) :: Operator (op_text o) :: RawString lit :: post) with T in H1 by side.
    replace ((pre ++ [RawString (field_key f); Operator (op_text o)]) ++ RawString lit :: post) with T in H2 by side.
    replace (length pre) with i in H1 by side.
    replace (length (pre ++ [RawString (field_key f); Operator (op_text o)])) with (S (S i)) in H2 by side.
    replace (S (S i) + 1) with j in H2 by side.
    assert (F0 : nth_error T i = Some (RawString (field_key f))) by (apply (nth_split T pre _ (Operator (op_text o) :: RawString lit :: post)); side).
    assert (F1 : nth_error T (i + 1) = Some (Operator (op_text o))) by (apply (nth_split T (pre ++ [RawString (field_key f)]) _ (RawString lit :: post)); side).
    rewrite (cond_nots_plain T _ neg i rp wp) by (rewrite F0; discriminate).
    replace (S (S i)) with (S (i + 1)) in H2 by lia.
    rewrite (cond_body_cmp T n neg i (i + 1) j rp wp (op_text o) _ _ o H1 F1 Hbtw H2 Hfrom).
    change (embed (ACol false f)) with (Expr_field f). change (embed (ANum false lit)) with (Expr_value lit).
    rewrite (cond_post_bexp _ neg _ (bexp_atom f o lit)). reflexivity.
  - (* bare boolean column: one token; cond_post expands it to `f = true` BEFORE the negation *)
    apply cond_all; [reflexivity|reflexivity|]. destruct Hwf as (Hbool & Hin).
    intros T pre post i j neg HT Hi Hj Hp. cbn [render_bb] in HT, Hj.
    destruct (arith_roundtrip (ACol false f) pre post rp wp I) as (N1 & H1).
    { destruct post as [|[] ?]; cbn in *; tauto. }
    exists (S (S N1)), (if neg then negate_expr_op (bare_expr f) else bare_expr f).
    split; [destruct neg; [apply bexp_negate|]; apply bexp_bare|].
    split; [rewrite (xorb_neg_sem asem asem_negate neg _ (bexp_bare f)); reflexivity|].
    intros n Hn. do 2 (destruct n as [|n]; [lia|]).
    specialize (H1 n ltac:(lia)). cbn [render minus_tok app length] in H1.
    replace (pre ++ RawString (field_key f) :: post) with T in H1 by side.
    replace (length pre) with i in H1 by side. replace (i + 1) with j in H1 by side.
    assert (F0 : nth_error T i = Some (RawString (field_key f))) by (apply (nth_split T pre _ post); side).
    assert (F1 : nth_error T j = hd_error post) by (apply (nth_split_post T pre [RawString (field_key f)] post); side).
    rewrite (cond_nots_plain T _ neg i rp wp) by (rewrite F0; discriminate).
    change (embed (ACol false f)) with (Expr_field f) in H1.
    rewrite (cond_body_plain T n neg i j rp wp _ H1) by (rewrite F1; now apply cond_stop_plain).
    rewrite (cond_post_bare j rp wp neg f Hbool Hin). reflexivity.
  - (* AND *)
    destruct Hwf as [Hwa Hwb].
    destruct (IHa Hwa) as (IHa_c & IHa_and & IHa_or). destruct (IHb Hwb) as (IHb_c & IHb_and & IHb_or).
    assert (AC : AndChainb (BAnd a b)).
    { intros T pre post i j HT Hi Hj Hp. cbn [render_bb Nat.leb] in HT, Hj.
      destruct (IHa_and T pre ([And] ++ render_bb 2 b ++ post) i (length pre + length (render_bb 1 a)) ltac:(side) Hi eq_refl I)
        as (N1 & c1 & l & rgt & Bl & Br & Hs & H1).
      destruct (IHb_c T (pre ++ render_bb 1 a ++ [And]) post (S (length pre + length (render_bb 1 a))) j false
                  ltac:(side) ltac:(side) ltac:(side) Hp) as (N2 & e & Be & Hse & H2).
      exists (N1 + c1 + N2 + 2), (c1 + 1), l, (acc LAnd rgt e).
      split; [exact Bl|]. split; [destruct rgt; cbn in *; [now constructor|exact Be]|]. split.
      { cbn [denote_b]. rewrite <- Hs. rewrite xorb_false_l in Hse. destruct rgt; cbn [acc BoolRoundtrip.optsem]; rewrite ?esem_and, Hse.
        - now rewrite andb_assoc.
        - now rewrite andb_true_r. }
      intros n Hn. rewrite (H1 n ltac:(lia)). replace (n - c1) with (S (n - (c1 + 1))) by lia.
      apply (and_loop_step T _ _ _ _ rp wp).
      - rewrite (nth_split_post T pre (render_bb 1 a) ([And] ++ render_bb 2 b ++ post) _ ltac:(side) eq_refl). reflexivity.
      - replace (n - (c1 + 1)) with (S (n - (c1 + 2))) by lia. rewrite parse_cond_S. apply H2. lia. }
    assert (AO := andchain_andok_b _ AC).
    assert (OC : OrChainb (BAnd a b)) by (apply and_orchain_b; [reflexivity|exact AO]).
    split; [|split; [exact AC|exact OC]].
    apply (paren_cond_b (BAnd a b) (BAnd a b)); [reflexivity|reflexivity|apply orchain_orok_b; exact OC].
  - (* OR *)
    destruct Hwf as [Hwa Hwb].
    destruct (IHa Hwa) as (IHa_c & IHa_and & IHa_or). destruct (IHb Hwb) as (IHb_c & IHb_and & IHb_or).
    assert (OC : OrChainb (BOr a b)).
    { intros T pre post i j HT Hi Hj Hp. cbn [render_bb Nat.leb] in HT, Hj.
      destruct (IHa_or T pre ([Or] ++ render_bb 1 b ++ post) i (length pre + length (render_bb 0 a)) ltac:(side) Hi eq_refl I)
        as (N1 & c1 & l & rgt & Bl & Br & Hs & H1).
      destruct (andchain_andok_b _ IHb_and T (pre ++ render_bb 0 a ++ [Or]) post (S (length pre + length (render_bb 0 a))) j
                  ltac:(side) ltac:(side) ltac:(side) Hp) as (N2 & e & Be & Hse & H2).
      exists (N1 + c1 + N2 + 2), (c1 + 1), l, (acc LOr rgt e).
      split; [exact Bl|]. split; [destruct rgt; cbn in *; [now constructor|exact Be]|]. split.
      { cbn [denote_b]. rewrite <- Hs. destruct rgt; cbn [acc BoolRoundtrip.optsem]; rewrite ?esem_or, Hse.
        - now rewrite orb_assoc.
        - now rewrite orb_false_r. }
      intros n Hn. rewrite (H1 n ltac:(lia)). replace (n - c1) with (S (n - (c1 + 1))) by lia.
      apply (expr_loop_step T _ _ _ _ rp wp).
      - rewrite (nth_split_post T pre (render_bb 0 a) ([Or] ++ render_bb 1 b ++ post) _ ltac:(side) eq_refl). reflexivity.
      - apply H2. lia. }
    assert (OO := orchain_orok_b _ OC).
    assert (C : CondOKb (BOr a b)) by (apply (paren_cond_b (BOr a b) (BOr a b)); [reflexivity|reflexivity|exact OO]).
    split; [exact C|split; [|exact OC]]. apply cond_andchain_b; [reflexivity|exact C].
  - (* NOT: the pending negation flips; it is applied by the cond that ends the chain of NOTs *)
    destruct (IHa Hwf) as (IHa_c & _ & _).
    apply cond_all; [reflexivity|reflexivity|].
    intros T pre post i j neg HT Hi Hj Hp. cbn [render_bb] in HT, Hj.
    destruct (IHa_c T (pre ++ [Not]) post (S i) j (negb neg) ltac:(side) ltac:(side) ltac:(side) Hp) as (N & e & Be & Hs & HN).
    exists (S N), e. split; [exact Be|]. split; [rewrite Hs; cbn [denote_b]; destruct neg, (denote_b a); reflexivity|].
    intros n Hn. destruct n as [|n]; [lia|].
    assert (F0 : nth_error T i = Some Not) by (apply (nth_split T pre _ (render_bb 2 a ++ post)); side).
    rewrite (cond_nots_not T n neg i rp wp F0). apply HN. lia.
  - (* explicit brackets *)
    destruct (IHa Hwf) as (_ & _ & IHa_or).
    apply cond_all; [reflexivity|reflexivity|].
    apply (paren_cond_b (BParen a) a); [reflexivity|reflexivity|apply orchain_orok_b; exact IHa_or].
Qed.

Theorem bool_bare_roundtrip_sem : forall F pre post, wf_bb (in_where rp wp) F -> post_ok_b post ->
  exists N e, (forall n, N <= n ->
      parse_expr (pre ++ render_bb 0 F ++ post) n (mkPS (length pre) rp wp)
      = Ok (ROk (Some e), mkPS (length pre + length (render_bb 0 F)) rp wp))
    /\ esem e = denote_b F.
Proof.
  intros F pre post Hwf Hp. destruct (roundtrip_bb F Hwf) as (_ & _ & OC).
  destruct (orchain_orok_b _ OC _ pre post _ _ eq_refl eq_refl eq_refl Hp) as (N & e & _ & Hs & HN).
  exists N, e. split; [exact HN|exact Hs].
Qed.
End Sem.

(* ---------- the statements outside the section ---------- *)

(* every sufficiently large fuel, any flags *)
Theorem bool_bare_roundtrip : forall (asem : Field -> Op -> str -> bool),
  (forall f o lit, asem f (Op_negate o) lit = negb (asem f o lit)) ->
  forall F pre post rp wp, wf_bb (in_where rp wp) F -> post_ok_b post ->
  exists N e, (forall n, N <= n ->
      parse_expr (pre ++ render_bb 0 F ++ post) n (mkPS (length pre) rp wp)
      = Ok (ROk (Some e), mkPS (length pre + length (render_bb 0 F)) rp wp))
    /\ esem asem e = denote_b asem F.
Proof. intros asem Hneg F pre post rp wp. exact (bool_bare_roundtrip_sem asem Hneg rp wp F pre post). Qed.

(* the parser's own fuel, any flags: bare atoms are allowed exactly when roots_parsed && !where_parsed *)
Theorem bool_bare_roundtrip_flags : forall (asem : Field -> Op -> str -> bool),
  (forall f o lit, asem f (Op_negate o) lit = negb (asem f o lit)) ->
  forall F pre post rp wp, wf_bb (in_where rp wp) F -> post_ok_b post ->
  let T := pre ++ render_bb 0 F ++ post in
  exists e, parse_expr_top T (mkPS (length pre) rp wp) = Ok (ROk (Some e), mkPS (length pre + length (render_bb 0 F)) rp wp)
            /\ esem asem e = denote_b asem F.
Proof.
  intros asem Hneg F pre post rp wp Hwf Hp T.
  destruct (bool_bare_roundtrip asem Hneg F pre post rp wp Hwf Hp) as (N & e & HN & Hs).
  exists e. split; [|exact Hs]. unfold parse_expr_top.
  apply (settle (parse_expr T)); [apply parse_expr_mono| |exists N; exact HN].
  pose proof (a_expr T _ (all_k T (pfuel T)) (mkPS (length pre) rp wp)) as H.
  unfold ParserTotal.wp in H. intros E. rewrite E in H. apply H. unfold need, rem, pfuel. cbn [idx]. lia.
Qed.

(* THE statement, in the shape of C03_parser_boolean_algebra: the parser state of the WHERE clause
   (roots_parsed = true, where_parsed = false, as parse_main sets them around parse_where) *)
Definition wf_bare (F : formb) : Prop := wf_bb true F.

Theorem bool_bare_roundtrip_pfuel : forall (asem : Field -> Op -> str -> bool),
  (forall f o lit, asem f (Op_negate o) lit = negb (asem f o lit)) ->
  forall F pre post, wf_bare F -> post_ok_b post ->
  let T := pre ++ render_bb 0 F ++ post in
  exists e, parse_expr_top T (mkPS (length pre) true false)
            = Ok (ROk (Some e), mkPS (length pre + length (render_bb 0 F)) true false)
            /\ esem asem e = denote_b asem F.
Proof. intros asem Hneg F pre post Hwf Hp. exact (bool_bare_roundtrip_flags asem Hneg F pre post true false Hwf Hp). Qed.

(* the point of the exercise, as a corollary: `not B` for a bare boolean column B is the complement of
   `B`, through the parser *)
Corollary not_bare_is_complement : forall (asem : Field -> Op -> str -> bool),
  (forall f o lit, asem f (Op_negate o) lit = negb (asem f o lit)) ->
  forall f pre post, Field_is_boolean_field f = true -> post_ok_b post ->
  let T := pre ++ [Not; RawString (field_key f)] ++ post in
  exists e, parse_expr_top T (mkPS (length pre) true false) = Ok (ROk (Some e), mkPS (length pre + 2) true false)
            /\ esem asem e = negb (asem f OpEq (s "true")).
Proof.
  intros asem Hneg f pre post Hb Hp.
  exact (bool_bare_roundtrip_pfuel asem Hneg (BNot (BBare f)) pre post (conj Hb eq_refl) Hp).
Qed.

(* ---------- non-vacuity and the concrete trees ---------- *)

(* the old formulas embed: nothing is lost with respect to BoolRoundtrip *)
Fixpoint embed_form (F : form) : formb :=
  match F with
  | FAtom f o lit => BAtom f o lit
  | FAnd a b => BAnd (embed_form a) (embed_form b)
  | FOr a b => BOr (embed_form a) (embed_form b)
  | FNot a => BNot (embed_form a)
  | FParen a => BParen (embed_form a)
  end.
Lemma embed_form_render F : forall lvl, render_bb lvl (embed_form F) = render_b lvl F.
Proof. induction F as [f o lit|a IHa b IHb|a IHa b IHb|a IHa|a IHa]; intros lvl; cbn [embed_form render_bb render_b]; now rewrite ?IHa, ?IHb. Qed.
Lemma embed_form_wf F inw : wf_b F -> wf_bb inw (embed_form F).
Proof. induction F as [f o lit|a IHa b IHb|a IHa b IHb|a IHa|a IHa]; cbn [embed_form wf_bb wf_b]; tauto. Qed.
Lemma embed_form_denote asem F : denote_b asem (embed_form F) = denote asem F.
Proof. induction F as [f o lit|a IHa b IHb|a IHa b IHb|a IHa|a IHa]; cbn [embed_form denote_b denote]; now rewrite ?IHa, ?IHb. Qed.

(* the hypotheses are satisfiable by a formula with every connective, with `not` directly before a
   bare atom (twice, once inside a bracket under another `not`) *)
Definition ex_formula : formb :=
  BOr (BNot (BBare FIsDir))
      (BAnd (BBare FIsHidden)
            (BNot (BParen (BOr (BAtom FSize OpGt (s "1"%string)) (BNot (BBare FIsSymlink)))))).

Example bool_bare_example : wf_bare ex_formula /\ post_ok_b [].
Proof. cbn. repeat split; discriminate. Qed.

(* an oracle that satisfies the hypothesis on asem: the operator is read as Eq-like or Ne-like
   (the parity of negations), the column decides *)
Definition ex_asem (dir : bool) (f : Field) (o : Op) (_ : str) : bool :=
  let base := match f with FIsDir => dir | _ => false end in
  match o with
  | OpEq | OpEeq | OpGt | OpGte | OpRx | OpLike | OpBetween => base
  | _ => negb base
  end.
Example ex_asem_ok dir : forall f o lit, ex_asem dir f (Op_negate o) lit = negb (ex_asem dir f o lit).
Proof. intros f o lit. destruct o; cbn; now rewrite ?negb_involutive. Qed.

(* the tokens of `not is_dir` *)
Example not_is_dir_tokens : render_bb 0 (BNot (BBare FIsDir)) = [Not; RawString (s "is_dir"%string)].
Proof. vm_compute. reflexivity. Qed.

(* THE NEGATION IS NOT LOST: inside WHERE the model parser turns `not is_dir` into is_dir != true ... *)
Example not_is_dir_in_where :
  parse_expr_top [Not; RawString (s "is_dir"%string)] (mkPS 0 true false)
  = Ok (ROk (Some (Expr_op (Expr_field FIsDir) OpNe (Expr_value (s "true"%string)))), mkPS 2 true false).
Proof. vm_compute. reflexivity. Qed.
(* ... `is_dir` into is_dir = true ... *)
Example is_dir_in_where :
  parse_expr_top [RawString (s "is_dir"%string)] (mkPS 0 true false)
  = Ok (ROk (Some (Expr_op (Expr_field FIsDir) OpEq (Expr_value (s "true"%string)))), mkPS 1 true false).
Proof. vm_compute. reflexivity. Qed.
(* ... and `not not is_dir` back into is_dir = true *)
Example not_not_is_dir_in_where :
  parse_expr_top [Not; Not; RawString (s "is_dir"%string)] (mkPS 0 true false)
  = Ok (ROk (Some (Expr_op (Expr_field FIsDir) OpEq (Expr_value (s "true"%string)))), mkPS 3 true false).
Proof. vm_compute. reflexivity. Qed.

(* the whole pipeline: parse_main reaches WHERE in exactly that state *)
Example not_is_dir_query :
  match parse_tokens [RawString (s "name"%string); From; RawString (s "."%string); Where; Not; RawString (s "is_dir"%string)] with
  | Ok q => q_expr q
  | _ => None
  end = Some (Expr_op (Expr_field FIsDir) OpNe (Expr_value (s "true"%string))).
Proof. vm_compute. reflexivity. Qed.

(* the side condition is necessary: outside WHERE (here: roots not parsed yet, as in the column list)
   the column stays a bare field, and `not` has nothing to negate *)
Example not_is_dir_outside_where :
  parse_expr_top [Not; RawString (s "is_dir"%string)] (mkPS 0 false false)
  = Ok (ROk (Some (Expr_field FIsDir)), mkPS 2 false false).
Proof. vm_compute. reflexivity. Qed.

Print Assumptions roundtrip_bb.
Print Assumptions bool_bare_roundtrip.
Print Assumptions bool_bare_roundtrip_flags.
Print Assumptions bool_bare_roundtrip_pfuel.
Print Assumptions not_bare_is_complement.
Print Assumptions bool_bare_example.
Print Assumptions not_is_dir_in_where.
Print Assumptions not_is_dir_query.
