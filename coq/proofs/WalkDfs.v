(* T1 / T4 (depth-first): Walk.visit in DFS mode, from any state, appends exactly the rows of the
   pre-order listing the limit still has room for. *)
From Coq Require Import List NArith Bool Lia ZifyBool Arith.
From FS Require Import lib.Str gen.GatesGen model.Walk spec.WalkSpec proofs.WalkBase.
Import ListNotations.
Open Scope N_scope.
Arguments N.add : simpl never.
Arguments N.sub : simpl never.
Arguments N.eqb : simpl never.
Arguments N.ltb : simpl never.
Arguments N.leb : simpl never.

Ltac fin_eq := cbn [spec_rows filter flat_map failing app e_node e_path e_depth fst snd]; rewrite ?app_nil_r; reflexivity.

Section D.
Variable accept : row -> bool.
Variable buffered : bool.
Variable limit : N.
Variable o : opts.
Hypothesis Hdfs : o_dfs o = true.

Notation visit := (visit accept buffered limit o).
Notation post := (post buffered limit).
Notation sat := (sat buffered limit).
Notation step_k := (step_k accept buffered limit o).
Notation rows := (spec_rows accept (o_arc o) (o_min o) (o_max o)).
Notation pre := (pre_node (o_ign o)).
Notation ptrans := (post_trans _ _ _ _ _ _ _ _ _ _ _ _ _).

(* the statement about a whole directory at fuel f, used as induction hypothesis for its entries *)
Definition visit_ok (f : nat) : Prop :=
  forall F kids dir canon rd d s,
  (hts kids < f)%nat -> (hts kids < F)%nat ->
  names_ok kids -> depth_inv canon rd d -> (o_max o = 0 \/ d <= o_max o) ->
  NoDup (inodes_of kids) -> fresh (vis s) (inodes_of kids) ->
  exists s', visit f dir canon true kids rd s = Some s' /\
    post s s' (rows (flat_map (pre F (o_max o) d dir) kids))
              (failing (o_max o) (flat_map (pre F (o_max o) d dir) kids))
              (inodes_of kids) [].

Lemma step_dfs f F dir canon rd d k s :
  visit_ok f ->
  (height k < S f)%nat -> (height k < S F)%nat ->
  names_ok [k] -> depth_inv canon rd d -> (o_max o = 0 \/ d <= o_max o) ->
  NoDup (inodes_node k) -> fresh (vis s) (inodes_node k) -> sat s = false ->
  exists s', step_k f dir canon rd k s = Some s' /\
    post s s' (rows (pre (S F) (o_max o) d dir k)) (failing (o_max o) (pre (S F) (o_max o) d dir k))
         (inodes_node k) [].
Proof.
  intros IHf Hf HF Hn Hd Hw Hnd Hfr Hs.
  apply names_ok_cons in Hn. destruct Hn as [Hnm [_ Hnk]].
  unfold WalkBase.step_k. destruct Hd as [D1 [D2 [D3 D4]]]. rewrite D4.
  rewrite pre_node_S. unfold hidden.
  destruct (o_ign o && nign k); [eexists; split; [reflexivity|apply post_refl]|].
  set (p := join_path dir (nname k)).
  set (s1 := if gate_report (o_min o) d then report accept buffered limit o p k s else s).
  assert (P1 : post s s1 (if gate_report (o_min o) d then filter accept (rows_of (o_arc o) (d, p, k)) else []) [] [] []).
  { unfold s1. destruct (gate_report (o_min o) d); [now apply report_post|apply post_refl]. }
  assert (V1 : vis s1 = vis s) by exact (post_vis_nil _ _ _ _ _ _ _ P1).
  rewrite spec_rows_cons, failing_cons, (in_window_gate _ _ _ _ _ Hw). cbn [e_node e_depth e_path fst snd].
  rewrite gate_descend_eq. destruct ((o_max o =? 0) || (d <? o_max o)) eqn:G.
  2:{ exists s1. split; [reflexivity|]. eapply post_eq; [| |eapply post_weaken; [|exact P1]].
      - fin_eq.
      - destruct k as [? ? ? ?|? ? ?|? ? ? [|] ?]; reflexivity.
      - intros ? []. }
  destruct k as [a i g z|a i g|a i g l kk]; cbn [kids_of flat_map].
  - (* file *)
    exists s1. split; [reflexivity|]. eapply post_eq; [| |exact P1]; [fin_eq|fin_eq].
  - (* link: its inode is recorded *)
    rewrite ok_to_visit_fresh by (rewrite V1; intro Hi; apply (Hfr i Hi); now left). cbn [snd nino].
    eexists. split; [reflexivity|].
    pose proof (ptrans P1 (post_visited buffered limit s1 i)) as P.
    eapply post_eq; [| |exact P]; [fin_eq|fin_eq].
  - (* directory *)
    cbn [inodes_node] in Hnd, Hfr. fold (inodes_of kk) in Hnd, Hfr.
    apply NoDup_cons_iff in Hnd. destruct Hnd as [Hi Hnd'].
    rewrite ok_to_visit_fresh by (rewrite V1; intro Hv; apply (Hfr i Hv); now left).
    cbn [fst snd nino]. rewrite Hdfs.
    set (s2 := {| found := found s1; vis := i :: vis s1; queue := queue s1; errs := errs s1; out := out s1 |}).
    pose proof (ptrans P1 (post_visited buffered limit s1 i)) as P2. fold s2 in P2.
    rewrite height_dir in Hf, HF. cbn [nname] in *.
    destruct l.
    + (* listable: the recursive call *)
      destruct (IHf F kk p (join_path canon a) (base_depth_of rd (calc_depth canon)) (d + 1) s2) as [s3 [E3 P3]];
        try lia; try assumption.
      * apply depth_inv_step; [repeat split; assumption|exact Hnm].
      * intros x Hx Hk. cbn [s2 vis] in Hx. destruct Hx as [<-|Hx]; [contradiction|].
        rewrite V1 in Hx. apply (Hfr x Hx). now right.
      * exists s3. split; [exact E3|].
        pose proof (ptrans P2 P3) as P.
        eapply post_eq; [| |exact P]; [fin_eq|fin_eq].
    + (* not listable: one error *)
      destruct f as [|f]; [lia|]. rewrite visit_unl. eexists. split; [reflexivity|].
      pose proof (ptrans P2 (post_add_err buffered limit s2 p)) as P.
      eapply post_eq; [| |eapply post_weaken; [|exact P]].
      * fin_eq.
      * fin_eq.
      * intros x Hx. cbn in Hx. destruct Hx as [<-|[]]. now left.
Qed.

Lemma visit_dfs : forall f, visit_ok f.
Proof.
  induction f as [|f IHf]; intros F kids dir canon rd d s Hf HF Hn Hd Hw Hnd Hfr; [lia|].
  destruct F as [|F]; [lia|].
  revert s Hfr. induction kids as [|k ks IHks]; intros s Hfr.
  - exists s. split; [apply visit_nil|apply post_refl].
  - rewrite visit_cons. destruct (sat s) eqn:Hs.
    { exists s. split; [reflexivity|]. now apply post_sat. }
    rewrite hts_cons in Hf, HF.
    pose proof (names_ok_cons _ _ Hn) as [Hnm [Hnks Hnk]].
    unfold inodes_of in Hnd, Hfr. cbn [flat_map] in Hnd, Hfr. fold (inodes_of ks) in Hnd, Hfr.
    apply NoDup_app_iff in Hnd. destruct Hnd as [Nk [Nks Ndis]].
    destruct (step_dfs f F dir canon rd d k s IHf) as [s1 [E1 P1]]; try lia; try assumption.
    { unfold names_ok in *. cbn [forallb] in *. apply andb_true_iff in Hn. destruct Hn as [Hn _]. now rewrite Hn. }
    { intros x Hx Hk. apply (Hfr x Hx). apply in_or_app. now left. }
    rewrite E1.
    destruct (IHks ltac:(lia) ltac:(lia) Hnks Nks s1) as [s2 [E2 P2]].
    { eapply post_fresh; [exact P1| |].
      - intros x Hx Hk. apply (Hfr x Hx). apply in_or_app. now right.
      - intros x Hx Hk. exact (Ndis x Hx Hk). }
    exists s2. split; [exact E2|].
    pose proof (ptrans P1 P2) as P.
    eapply post_eq; [| |exact P].
    + cbn [flat_map]. now rewrite spec_rows_app.
    + cbn [flat_map]. now rewrite failing_app.
Qed.

(* ---------- one root ---------- *)
Notation walk_root := (walk_root accept buffered limit o).
Notation root_post := (root_post buffered limit).

Theorem dfs_root : forall fuel F nm i g kk p c s0,
  (height (NDir nm i g true kk) <= fuel)%nat -> (height (NDir nm i g true kk) <= F)%nat ->
  canon_ok c -> names_ok kk -> NoDup (i :: inodes_of kk) -> fresh (vis s0) (inodes_of kk) ->
  exists s1, walk_root fuel p c (NDir nm i g true kk) s0 = Some s1 /\
    root_post s0 s1 i (rows (preorder (o_ign o) F (o_max o) p kk))
                      (failing (o_max o) (preorder (o_ign o) F (o_max o) p kk))
                      (inodes_of kk).
Proof.
  intros fuel F nm i g kk p c s0 Hf HF Hc Hn Hnd Hfr. rewrite height_dir in Hf, HF.
  apply NoDup_cons_iff in Hnd. destruct Hnd as [Hi Hnd'].
  unfold Walk.walk_root.
  set (s0' := {| found := found s0; vis := i :: vis s0; queue := []; errs := errs s0; out := out s0 |}).
  destruct (visit_dfs fuel F kk p c 0 1 s0') as [s1 [E1 P1]]; try lia; try assumption.
  - now apply depth_inv_root.
  - intros x Hx Hk. cbn [s0' vis] in Hx. destruct Hx as [<-|Hx]; [contradiction|exact (Hfr x Hx Hk)].
  - rewrite E1, Hdfs. exists s1. split; [reflexivity|].
    pose proof (post_queue_nil _ _ _ _ _ _ _ P1) as Q1.
    destruct P1 as [Ao Af Av _ Ae]. repeat split; assumption.
Qed.

End D.

(* ---------- T1: no limit (or a buffered query): the exact listing ---------- *)
Theorem T1_dfs accept buffered o fuel F nm i g kk p c s0 :
  o_dfs o = true ->
  (height (NDir nm i g true kk) <= fuel)%nat -> (height (NDir nm i g true kk) <= F)%nat ->
  canon_ok c -> names_ok kk -> NoDup (i :: inodes_of kk) ->
  (forall x, In x (vis s0) -> ~ In x (i :: inodes_of kk)) ->
  let es := preorder (o_ign o) F (o_max o) p kk in
  let new := spec_rows accept (o_arc o) (o_min o) (o_max o) es in
  exists s1, walk_root accept buffered 0 o fuel p c (NDir nm i g true kk) s0 = Some s1 /\
    out s1 = out s0 ++ new /\
    errs s1 = errs s0 ++ failing (o_max o) es /\
    found s1 = found s0 + N.of_nat (length new) /\
    queue s1 = [] /\
    exists a, vis s1 = a ++ i :: vis s0 /\ incl a (inodes_of kk).
Proof.
  intros Hdfs Hf HF Hc Hn Hnd Hfr es new.
  destruct (dfs_root accept buffered 0 o Hdfs fuel F nm i g kk p c s0) as [s1 [E [Ho [Hfd [Hq [Hv He]]]]]]; try assumption.
  { intros x Hx Hk. apply (Hfr x Hx). now right. }
  assert (L : lim_on buffered 0 = false) by (unfold lim_on; now rewrite andb_false_r).
  unfold take in *. rewrite L in *. exists s1. repeat split; auto.
Qed.

Print Assumptions T1_dfs.
Print Assumptions dfs_root.
