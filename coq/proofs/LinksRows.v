(* C18, output rows: with mn = 0 and no LIMIT (any graph, any depth limit, both orders) the output is,
   up to order, one row per entry of every entered directory: the directory's spelled path joined with
   the entry's name.  l_vdirs / l_ent are pushed together, so (l_vdirs, l_ent) zipped is the list of
   (spelled path, inode) of the read_dir calls. *)
From Coq Require Import List NArith Bool Lia Permutation.
From FS Require Import lib.Str gen.GatesGen model.Walk model.WalkLinks proofs.LinksBase proofs.LinksComplete.
Import ListNotations.
Open Scope N_scope.

Definition entries (g : fsgraph) (i : N) : list dent :=
  match ents_of g i with Some es => es | None => [] end.

Definition names_under (dir : str) (es : list dent) : list str := map (fun e => join_path dir (d_name e)) es.

(* the rows due to one read_dir call *)
Definition rows_of (g : fsgraph) (di : str * N) : list str := names_under (fst di) (entries g (snd di)).

Section Rows.
Variable g : fsgraph.

(* from s to s': the read_dir calls tr (newest first) were made, and the rows x ++ rows of tr were added *)
Definition rdelta (s s' : lst) (x : list str) (tr : list (str * N)) : Prop :=
  l_vdirs s' = map fst tr ++ l_vdirs s /\ l_ent s' = map snd tr ++ l_ent s /\
  Permutation (l_out s') (l_out s ++ x ++ flat_map (rows_of g) tr).

Lemma rdelta_refl (s : lst) : rdelta s s [] [].
Proof. unfold rdelta. cbn [map app flat_map]. rewrite app_nil_r. repeat split. apply Permutation_refl. Qed.

Lemma rdelta_core (s t : lst) : l_vdirs t = l_vdirs s -> l_ent t = l_ent s -> l_out t = l_out s -> rdelta s t [] [].
Proof. unfold rdelta. intros -> -> ->. cbn [map app flat_map]. rewrite app_nil_r. repeat split. apply Permutation_refl. Qed.

Lemma rdelta_trans (s sm s' : lst) (x1 x2 x : list str) (tr1 tr2 tr : list (str * N)) :
  rdelta s sm x1 tr1 -> rdelta sm s' x2 tr2 -> x = x1 ++ x2 -> tr = tr2 ++ tr1 -> rdelta s s' x tr.
Proof.
  intros [A1 [A2 A3]] [B1 [B2 B3]] -> ->. unfold rdelta.
  rewrite B1, A1, B2, A2, !map_app, <- !app_assoc. split; [reflexivity|]. split; [reflexivity|].
  rewrite flat_map_app.
  eapply Permutation_trans; [exact B3|].
  eapply Permutation_trans; [apply Permutation_app_tail; exact A3|].
  rewrite <- !app_assoc. apply Permutation_app_head. apply Permutation_app_head.
  set (F1 := flat_map (rows_of g) tr1). set (F2 := flat_map (rows_of g) tr2).
  rewrite (app_assoc x2 F2 F1). apply Permutation_app_comm.
Qed.

Lemma rdelta_rep (dir : str) (depth : N) (e : dent) (s : lst) :
  rdelta s (rep 0 dir depth e s) [join_path dir (d_name e)] [].
Proof.
  unfold rep. rewrite gate_report0. unfold rdelta. cbn [set_out l_vdirs l_ent l_out map app flat_map].
  repeat split. apply Permutation_refl.
Qed.

Definition rspec (visit : str -> str -> N -> N -> lst -> option lst) : Prop :=
  forall p c j b s s', visit p c j b s = Some s' -> exists tr, rdelta s s' [] tr.

Lemma lloop_rows (mx : N) (dfs : bool) (visit : str -> str -> N -> N -> lst -> option lst) (dir canon : str) (depth base : N)
  (Hvisit : rspec visit) :
  forall (es : list dent) (s s' : lst),
    lloop 0 mx dfs 0 visit dir canon depth base es s = Some s' ->
    exists tr, rdelta s s' (names_under dir es) tr.
Proof.
  apply (lloop_rule 0 mx dfs 0 visit dir canon depth base (fun es s s' => exists tr, rdelta s s' (names_under dir es) tr)).
  - intro s. exists []. apply rdelta_refl.
  - intros e es s El. rewrite gate_limit0 in El. discriminate.
  - intros e es s s' _ _ _ [tr IH]. exists tr.
    apply (rdelta_trans s (rep 0 dir depth e s) s' [join_path dir (d_name e)] (names_under dir es) _ [] tr tr
             (rdelta_rep dir depth e s) IH); [reflexivity|now rewrite app_nil_r].
  - intros e es s s' key it _ _ _ _ _ [tr IH]. exists tr.
    apply (rdelta_trans s (rep 0 dir depth e s) s' [join_path dir (d_name e)] (names_under dir es) _ [] tr tr
             (rdelta_rep dir depth e s) IH); [reflexivity|now rewrite app_nil_r].
  - intros e es s s3 s' key it _ _ _ _ _ Hv _ [tr2 IH].
    destruct (Hvisit _ _ _ _ _ _ Hv) as [tr1 H1].
    exists (tr2 ++ tr1).
    assert (H01 : rdelta s (add_vis (rep 0 dir depth e s) key) [join_path dir (d_name e)] []).
    { apply (rdelta_trans s (rep 0 dir depth e s) _ [join_path dir (d_name e)] [] _ [] [] []
               (rdelta_rep dir depth e s)); [|reflexivity|reflexivity]. now apply rdelta_core. }
    assert (H03 : rdelta s s3 [join_path dir (d_name e)] tr1).
    { apply (rdelta_trans s _ s3 _ [] _ [] tr1 tr1 H01 H1); [reflexivity|now rewrite app_nil_r]. }
    apply (rdelta_trans s s3 s' _ _ _ tr1 tr2 _ H03 IH); reflexivity.
  - intros e es s s' key it _ _ _ _ _ _ [tr IH]. exists tr.
    assert (H01 : rdelta s (push_q (add_vis (rep 0 dir depth e s) key) it) [join_path dir (d_name e)] []).
    { apply (rdelta_trans s (rep 0 dir depth e s) _ [join_path dir (d_name e)] [] _ [] [] []
               (rdelta_rep dir depth e s)); [|reflexivity|reflexivity]. now apply rdelta_core. }
    apply (rdelta_trans s _ s' _ _ _ [] tr tr H01 IH); [reflexivity|now rewrite app_nil_r].
Qed.

Lemma lvisit_rows (mx : N) (dfs : bool) : forall f : nat, rspec (lvisit g 0 mx dfs 0 f).
Proof.
  induction f as [|f IH]; intros dir canon i rd s s' Hv; [discriminate|].
  rewrite lvisit_S in Hv.
  destruct (existsb (str_eqb dir) (l_vdirs s)).
  { injection Hv as <-. exists []. apply rdelta_refl. }
  destruct (ents_of g i) as [ents|] eqn:Ee.
  - destruct (lloop_rows mx dfs _ dir canon _ _ IH ents _ _ Hv) as [tr [A1 [A2 A3]]].
    cbn [add_ent add_vdir l_vdirs l_ent l_out] in A1, A2, A3.
    exists (tr ++ [(dir, i)]). unfold rdelta.
    rewrite A1, A2, !map_app, <- !app_assoc. cbn [map fst snd app].
    split; [reflexivity|]. split; [reflexivity|].
    rewrite flat_map_app. cbn [flat_map]. rewrite app_nil_r.
    unfold rows_of at 2. cbn [fst snd]. unfold entries. rewrite Ee.
    eapply Permutation_trans; [exact A3|]. apply Permutation_app_head. apply Permutation_app_comm.
  - injection Hv as <-. exists [(dir, i)]. unfold rdelta.
    cbn [add_lerr add_ent add_vdir l_vdirs l_ent l_out map fst snd app flat_map].
    split; [reflexivity|]. split; [reflexivity|].
    unfold rows_of, entries. cbn [fst snd]. rewrite Ee. cbn [names_under map app]. rewrite app_nil_r. apply Permutation_refl.
Qed.

Lemma ldrain_rows (mx : N) (dfs : bool) : forall (f : nat) (base : N) (s s' : lst),
  ldrain g 0 mx dfs 0 f base s = Some s' -> exists tr, rdelta s s' [] tr.
Proof.
  induction f as [|f IH]; intros base s s' Hd; [discriminate|].
  rewrite ldrain_S in Hd. destruct (l_queue s) as [|it rest] eqn:Eq.
  { injection Hd as <-. exists []. apply rdelta_refl. }
  destruct (lvisit g 0 mx dfs 0 f (it_path it) (it_canon it) (it_ino it) base (set_q s rest)) as [s2|] eqn:Ev; [|discriminate].
  destruct (lvisit_rows mx dfs f _ _ _ _ _ _ Ev) as [tr1 H1].
  destruct (IH base s2 s' Hd) as [tr2 H2].
  exists (tr2 ++ tr1).
  assert (H0 : rdelta s (set_q s rest) [] []) by now apply rdelta_core.
  assert (H02 : rdelta s s2 [] tr1).
  { apply (rdelta_trans s _ s2 [] [] _ [] tr1 tr1 H0 H1); [reflexivity|now rewrite app_nil_r]. }
  apply (rdelta_trans s s2 s' [] [] _ tr1 tr2 _ H02 H2); reflexivity.
Qed.
End Rows.

Lemma combine_fst_snd {A B : Type} (l : list (A * B)) : combine (map fst l) (map snd l) = l.
Proof. induction l as [|[a b] l IH]; cbn [map combine fst snd]; [reflexivity|now rewrite IH]. Qed.

(* every entry of every entered directory gives exactly one row (mn = 0, no LIMIT) *)
Theorem lwalk_rows (g : fsgraph) (mx : N) (dfs : bool) (fuel : nat) (rootpath canon : str) (root_ino : N) (s : lst) :
  lwalk g 0 mx dfs 0 fuel rootpath canon root_ino = Some s ->
  length (l_vdirs s) = length (l_ent s) /\
  Permutation (l_out s) (flat_map (rows_of g) (combine (l_vdirs s) (l_ent s))).
Proof.
  unfold lwalk. intro H.
  destruct (lvisit g 0 mx dfs 0 fuel rootpath canon root_ino 0 (add_vis lst0 root_ino)) as [s1|] eqn:Ev; [|discriminate].
  destruct (lvisit_rows g mx dfs fuel _ _ _ _ _ _ Ev) as [tr1 H1].
  assert (Hfin : forall t tr, rdelta g (add_vis lst0 root_ino) t [] tr ->
                 length (l_vdirs t) = length (l_ent t) /\
                 Permutation (l_out t) (flat_map (rows_of g) (combine (l_vdirs t) (l_ent t)))).
  { intros t tr [A1 [A2 A3]]. cbn [add_vis lst0 l_vdirs l_ent l_out app] in A1, A2, A3.
    rewrite app_nil_r in A1, A2. rewrite A1, A2, !map_length, combine_fst_snd. split; [reflexivity|exact A3]. }
  destruct dfs.
  - injection H as <-. now apply (Hfin s1 tr1).
  - destruct (ldrain_rows g mx false fuel _ _ _ H) as [tr2 H2].
    apply (Hfin s (tr2 ++ tr1)).
    apply (rdelta_trans g _ s1 s [] [] _ tr1 tr2 _ H1 H2); reflexivity.
Qed.

Print Assumptions lwalk_rows.
