(* The DateTime arm of Searcher::conforms, as regenerated from the source (gen/CmpGen.v),
   is the closed-interval semantics of spec cmp_dt_spec for all eight operators. *)
From Coq Require Import ZArith Bool Lia ZifyBool.
From FS Require Import lib.Str model.Datetime.
From FS Require gen.OpsGen gen.CmpGen.
Open Scope Z_scope.

Definition op_of (o : dtop) : FS.gen.OpsGen.Op :=
  match o with
  | OpEq => FS.gen.OpsGen.OpEq | OpNe => FS.gen.OpsGen.OpNe | OpGt => FS.gen.OpsGen.OpGt | OpGte => FS.gen.OpsGen.OpGte
  | OpLt => FS.gen.OpsGen.OpLt | OpLte => FS.gen.OpsGen.OpLte | OpEeq => FS.gen.OpsGen.OpEeq | OpEne => FS.gen.OpsGen.OpEne
  end.

Lemma table_is_interval_semantics : forall o t a b,
  FS.gen.CmpGen.cmp_dt (op_of o) t a b = cmp_dt_spec o t a b.
Proof. intros o t a b. destruct o; cbn; lia. Qed.

(* operators outside the date table never hold *)
Lemma other_ops_false : forall t a b,
  FS.gen.CmpGen.cmp_dt FS.gen.OpsGen.OpRx t a b = false /\ FS.gen.CmpGen.cmp_dt FS.gen.OpsGen.OpLike t a b = false /\
  FS.gen.CmpGen.cmp_dt FS.gen.OpsGen.OpNotRx t a b = false /\ FS.gen.CmpGen.cmp_dt FS.gen.OpsGen.OpNotLike t a b = false.
Proof. intros; repeat split; reflexivity. Qed.
