(* The C17 / C19 / C20 corollaries of WalkCor.v for the breadth-first walk (the default mode of the
   binary): T2_bfs gives the level-order listing, T5a_perm relates it to the pre-order listing the
   fault / archive / ignore characterisations are stated over. *)
From Coq Require Import List NArith Bool Lia ZifyBool Arith Permutation Sorted.
From FS Require Import lib.Str gen.GatesGen model.Walk spec.WalkSpec proofs.WalkBase proofs.WalkDfs proofs.WalkBfs proofs.WalkRoots proofs.WalkCor.
Import ListNotations.
Open Scope N_scope.
Arguments N.add : simpl never.
Arguments N.sub : simpl never.
Arguments N.eqb : simpl never.
Arguments N.ltb : simpl never.
Arguments N.leb : simpl never.

Lemma Permutation_filter {A} (f : A -> bool) a b : Permutation a b -> Permutation (filter f a) (filter f b).
Proof.
  intros H. induction H; cbn [filter].
  - constructor.
  - destruct (f x); [now constructor|assumption].
  - destruct (f x), (f y); [apply perm_swap|apply Permutation_refl|apply Permutation_refl|apply Permutation_refl].
  - eapply Permutation_trans; eassumption.
Qed.

(* C17, breadth-first: the faulty run prints, in level order, a permutation of the fault-free rows that are
   not strictly below a failed directory; it names each failed reachable directory once; no row of a
   smaller depth follows a row of a larger one *)
Theorem C17_bfs accept buffered o bad fuel F nm i g kk p c s0 :
  o_dfs o = false ->
  (nodes (NDir nm i g true kk) <= fuel)%nat -> (height (NDir nm i g true kk) <= F)%nat ->
  canon_ok c -> names_ok kk -> NoDup (i :: inodes_of kk) ->
  (forall x, In x (vis s0) -> ~ In x (i :: inodes_of kk)) ->
  let surviving := map snd (filter (reachable bad) (flat_map (preA (o_max o) (o_ign o) F 1 p []) kk)) in
  exists s1 new newerrs,
    walk_root accept buffered 0 o fuel p c (NDir nm i g true (map (blind bad) kk)) s0 = Some s1 /\
    out s1 = out s0 ++ new /\ errs s1 = errs s0 ++ newerrs /\
    Permutation new (spec_rows accept (o_arc o) (o_min o) (o_max o) surviving) /\
    Permutation newerrs
      (flat_map (fun e => match e_node e with
                          | NDir _ j _ l _ => if (negb l || bad j) && ((o_max o =? 0) || (e_depth e <? o_max o)) then [e_path e] else []
                          | _ => [] end) surviving).
Proof.
  intros Hd Hf HF Hc Hn Hnd Hfr surviving.
  assert (HN : nodes (NDir nm i g true (map (blind bad) kk)) = nodes (NDir nm i g true kk)).
  { cbn [nodes]. f_equal. clear. induction kk as [|k ks IH]; [reflexivity|]. cbn [map fold_right].
    now rewrite blind_nodes, IH. }
  assert (HH : height (NDir nm i g true (map (blind bad) kk)) = height (NDir nm i g true kk)) by (rewrite !height_dir; now rewrite blind_hts).
  destruct (T2_bfs accept buffered o fuel F nm i g (map (blind bad) kk) p c s0 Hd) as [s1 [E [Ho [He _]]]].
  - now rewrite HN.
  - now rewrite HH.
  - exact Hc.
  - now apply blind_names_ok.
  - now rewrite blind_inodes.
  - now rewrite blind_inodes.
  - eexists s1, _, _. split; [exact E|]. split; [exact Ho|]. split; [exact He|]. split.
    + eapply Permutation_trans; [apply T5a_rows_perm|].
      rewrite (proj1 (T5d_fault_rows (o_max o) bad accept (o_arc o) (o_min o) (o_ign o) F p kk)). apply Permutation_refl.
    + eapply Permutation_trans; [apply T5a_failing_perm|]. rewrite T5d_fault_errs. apply Permutation_refl.
Qed.

Section W.
Variables (accept : row -> bool) (buffered : bool) (o : opts) (fuel : nat).
Variables (nm : str) (i : N) (g : bool) (kk : list node) (p c : str).
Hypothesis Hfuel : (nodes (NDir nm i g true kk) <= fuel)%nat.
Hypothesis Hc : canon_ok c.
Hypothesis Hn : names_ok kk.
Hypothesis Hnd : NoDup (i :: inodes_of kk).
Let root := NDir nm i g true kk.
Let F := height root.

Lemma st0_fresh' : forall x, In x (vis st0) -> ~ In x (i :: inodes_of kk).
Proof. intros x []. Qed.

(* C19, breadth-first: switching archive search on only adds member rows, in place *)
Theorem C19_walk_bfs : o_dfs o = false ->
  exists s1 s2, walk_root accept buffered 0 (set_arc true o) fuel p c root st0 = Some s1 /\
                walk_root accept buffered 0 (set_arc false o) fuel p c root st0 = Some s2 /\
                filter plain_row (out s1) = out s2 /\ errs s1 = errs s2.
Proof.
  intros Hd.
  destruct (T2_bfs accept buffered (set_arc true o) fuel F nm i g kk p c st0 Hd Hfuel (le_n _) Hc Hn Hnd st0_fresh')
    as [s1 [E1 [O1 [Er1 _]]]].
  destruct (T2_bfs accept buffered (set_arc false o) fuel F nm i g kk p c st0 Hd Hfuel (le_n _) Hc Hn Hnd st0_fresh')
    as [s2 [E2 [O2 [Er2 _]]]].
  exists s1, s2. split; [exact E1|]. split; [exact E2|]. rewrite O1, O2, Er1, Er2.
  cbn [st0 out errs app set_arc o_min o_max o_arc o_ign]. split; [apply T5e_archives|reflexivity].
Qed.

(* C20, breadth-first: with an ignore option exactly the entries without an ignored ancestor-or-self are listed *)
Theorem C20_walk_bfs : o_dfs o = false -> o_ign o = true ->
  exists s1, walk_root accept buffered 0 o fuel p c root st0 = Some s1 /\
    Permutation (out s1) (spec_rows accept (o_arc o) (o_min o) (o_max o)
               (map snd (filter unignored (flat_map (preA (o_max o) false F 1 p []) kk)))).
Proof.
  intros Hd Hi.
  destruct (T2_bfs accept buffered o fuel F nm i g kk p c st0 Hd Hfuel (le_n _) Hc Hn Hnd st0_fresh')
    as [s1 [E1 [O1 _]]].
  exists s1. split; [exact E1|]. rewrite O1, Hi. cbn [st0 out app].
  eapply Permutation_trans; [apply T5a_rows_perm|]. rewrite (proj1 (T5e_ignore (o_max o) F p kk)). apply Permutation_refl.
Qed.
End W.

Print Assumptions C17_bfs.
Print Assumptions C19_walk_bfs.
Print Assumptions C20_walk_bfs.
