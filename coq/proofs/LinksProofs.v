(* C18 - following symlinks: the main theorems over model/WalkLinks.v, gathered.
   "With the symlinks option the search follows links to directories wherever they point, traverses every
   directory reachable from the root through directories and links exactly once (one traversal per real
   directory, however many links or paths lead to it), and always terminates - even when links form cycles."

   Pieces (each proved for the ORIGINAL lwalk, all graphs - cyclic or not):
     LinksBase      lwalk_fuel_irrelevant                      fuel irrelevance
     LinksTerm      lwalk_terminates, lwalk_any_fuel           termination with fuel_bound g = 1 + |universe g|
     LinksOnce      lwalk_marks_once, lwalk_enters_once        no inode marked twice / entered twice
     LinksComplete  lwalk_complete, lwalk_sound,
                    lwalk_exactly_reachable_once               entered inodes = reachable inodes (mx = 0, limit = 0)
     LinksRows      lwalk_rows                                 one row per entry of every entered directory (mn = 0, limit = 0)
   Hypotheses used, and only where needed:
     wf_graph g = true            a directory entry's lstat inode is the inode of the directory it names
     path_functional g rootpath r a spelled path names at most one directory
   Examples (proofs/LinksExamples.v) show both hold on a cyclic graph and that neither can be dropped. *)
From Coq Require Import List NArith Bool Lia Permutation.
From FS Require Import lib.Str gen.GatesGen model.Walk model.WalkLinks.
From FS Require Export proofs.LinksBase proofs.LinksTerm proofs.LinksOnce proofs.LinksComplete proofs.LinksRows.
Import ListNotations.
Open Scope N_scope.

Theorem C18_links (g : fsgraph) (mn mx : N) (dfs : bool) (limit : N) (rootpath canon : str) (root_ino : N) (fuel : nat) :
  (fuel_bound g <= fuel)%nat ->
  exists s : lst,
    (* terminates, and the result is the same for every sufficient fuel *)
    lwalk g mn mx dfs limit fuel rootpath canon root_ino = Some s /\
    lwalk g mn mx dfs limit (fuel_bound g) rootpath canon root_ino = Some s /\
    (* nothing is marked twice *)
    NoDup (l_vis s) /\ NoDup (l_vdirs s) /\
    (* one traversal per real directory; only reachable directories *)
    (wf_graph g = true ->
       NoDup (l_ent s) /\ incl (l_ent s) (l_vis s) /\ forall k, In k (l_vis s) -> reach g root_ino k) /\
    (* every reachable directory, wherever the links point *)
    (wf_graph g = true -> path_functional g rootpath root_ino -> mx = 0 -> limit = 0 ->
       forall j, reach g root_ino j <-> In j (l_ent s)) /\
    (* every entry of every traversed directory is reported exactly once *)
    (mn = 0 -> limit = 0 ->
       Permutation (l_out s) (flat_map (rows_of g) (combine (l_vdirs s) (l_ent s)))).
Proof.
  intro Hf.
  destruct (lwalk_terminates_ex g mn mx dfs limit fuel rootpath canon root_ino Hf) as [s Hs].
  exists s. split; [assumption|].
  split; [now rewrite <- (lwalk_any_fuel g mn mx dfs limit fuel rootpath canon root_ino Hf)|].
  destruct (lwalk_marks_once g mn mx dfs limit fuel rootpath canon root_ino s Hs) as [Hv Hd].
  split; [assumption|]. split; [assumption|].
  split; [|split].
  - intro Hwf.
    destruct (lwalk_enters_once g mn mx dfs limit fuel rootpath canon root_ino s Hwf Hs) as [_ [_ [He Hi]]].
    split; [assumption|]. split; [assumption|].
    exact (lwalk_sound g mn mx dfs limit fuel rootpath canon root_ino s Hwf Hs).
  - intros Hwf Hfun Emx El j. rewrite Emx, El in Hs.
    destruct (lwalk_exactly_reachable_once g mn dfs fuel rootpath canon root_ino s Hwf Hfun Hs) as [_ Hiff].
    split; apply Hiff.
  - intros Emn El. rewrite Emn, El in Hs.
    exact (proj2 (lwalk_rows g mx dfs fuel rootpath canon root_ino s Hs)).
Qed.

Print Assumptions C18_links.
