(* C04: the mode column and the mode-derived booleans of src/mode.rs (as generated into
   gen/ModeGen.v on this run) agree with `ls -l` notation for all 65 536 values of the low
   16 mode bits.  Finite domain: decided by vm_compute over the complete enumeration and
   lifted to a universally quantified statement with forall16. *)
From Coq Require Import List NArith Bool Lia.
From FS Require Import lib.Fin spec.ModeSpec gen.ModeGen.
Import ListNotations.
Open Scope N_scope.

Definition list_N_eqb (a b : list N) : bool := if list_eq_dec N.eq_dec a b then true else false.
Lemma list_N_eqb_eq a b : list_N_eqb a b = true -> a = b.
Proof. unfold list_N_eqb. destruct (list_eq_dec N.eq_dec a b); [auto|discriminate]. Qed.

Definition check_string (m : N) : bool :=
  match ls_mode m with Some l => list_N_eqb (get_mode_unix m) l | None => true end.

Lemma mode_string_all : forallb check_string all16 = true.
Proof. vm_compute. reflexivity. Qed.

Lemma mode_string : forall m, m < 65536 -> forall l, ls_mode m = Some l -> get_mode_unix m = l.
Proof.
  intros m Hm l Hl. pose proof (forall16 _ mode_string_all m Hm) as H.
  unfold check_string in H. rewrite Hl in H. now apply list_N_eqb_eq.
Qed.

(* the 14 permission booleans agree with the characters of the ls string *)
Definition check_perms (m : N) : bool :=
  match ls_mode m with
  | None => true
  | Some l =>
      Bool.eqb (mode_user_read m) (says_r (ch l 1)) && Bool.eqb (mode_user_write m) (says_w (ch l 2)) &&
      Bool.eqb (mode_user_exec m) (says_x (ch l 3)) &&
      Bool.eqb (mode_group_read m) (says_r (ch l 4)) && Bool.eqb (mode_group_write m) (says_w (ch l 5)) &&
      Bool.eqb (mode_group_exec m) (says_x (ch l 6)) &&
      Bool.eqb (mode_other_read m) (says_r (ch l 7)) && Bool.eqb (mode_other_write m) (says_w (ch l 8)) &&
      Bool.eqb (mode_other_exec m) (says_x (ch l 9)) &&
      Bool.eqb (mode_user_all m) (says_r (ch l 1) && says_w (ch l 2) && says_x (ch l 3)) &&
      Bool.eqb (mode_group_all m) (says_r (ch l 4) && says_w (ch l 5) && says_x (ch l 6)) &&
      Bool.eqb (mode_other_all m) (says_r (ch l 7) && says_w (ch l 8) && says_x (ch l 9)) &&
      Bool.eqb (mode_suid m) (says_special (ch l 3)) && Bool.eqb (mode_sgid m) (says_special (ch l 6))
  end.

Lemma perms_all : forallb check_perms all16 = true.
Proof. vm_compute. reflexivity. Qed.

Lemma perms : forall m, m < 65536 -> check_perms m = true.
Proof. exact (forall16 _ perms_all). Qed.

(* exactly one type boolean.  is_file / is_dir / is_symlink come from std::fs::Metadata
   (modelled: S_IFMT-masked comparison, as in the Rust standard library); the other four
   are the generated predicates of mode.rs. *)
Definition std_is_file (m : N) := ftype m =? 32768.
Definition std_is_dir (m : N) := ftype m =? 16384.
Definition std_is_symlink (m : N) := ftype m =? 40960.

Definition type_flags (m : N) : list bool :=
  [ std_is_file m; std_is_dir m; std_is_symlink m; mode_is_pipe m; mode_is_char_device m;
    mode_is_block_device m; mode_is_socket m ].

Definition expected_flags (t : ftyp) : list bool :=
  match t with
  | TReg  => [true; false; false; false; false; false; false]
  | TDir  => [false; true; false; false; false; false; false]
  | TLnk  => [false; false; true; false; false; false; false]
  | TFifo => [false; false; false; true; false; false; false]
  | TChr  => [false; false; false; false; true; false; false]
  | TBlk  => [false; false; false; false; false; true; false]
  | TSock => [false; false; false; false; false; false; true]
  end.

Definition list_bool_eqb (a b : list bool) : bool := if list_eq_dec bool_dec a b then true else false.

Definition check_one_type (m : N) : bool :=
  match ftyp_of m with Some t => list_bool_eqb (type_flags m) (expected_flags t) | None => true end.

Lemma one_type_all : forallb check_one_type all16 = true.
Proof. vm_compute. reflexivity. Qed.

Lemma one_type : forall m, m < 65536 -> forall t, ftyp_of m = Some t -> type_flags m = expected_flags t.
Proof.
  intros m Hm t Ht. pose proof (forall16 _ one_type_all m Hm) as H.
  unfold check_one_type in H. rewrite Ht in H. unfold list_bool_eqb in H.
  destruct (list_eq_dec bool_dec (type_flags m) (expected_flags t)); [auto|discriminate].
Qed.

Lemma expected_flags_one t : length (filter (fun b => b) (expected_flags t)) = 1%nat.
Proof. destruct t; reflexivity. Qed.

(* first character of the mode string names the one true flag *)
Lemma first_char_matches : forall m, m < 65536 -> forall t, ftyp_of m = Some t ->
  hd 0 (get_mode_unix m) = type_char t.
Proof.
  intros m Hm t Ht. rewrite (mode_string m Hm (type_char t :: rwx m 8 7 6 11 115 83 ++ rwx m 5 4 3 10 115 83 ++ rwx m 2 1 0 9 116 84)).
  - reflexivity.
  - unfold ls_mode. now rewrite Ht.
Qed.

(* non-vacuity: every type occurs below 2^16 *)
Example types_exist : ftyp_of 33188 = Some TReg /\ ftyp_of 41471 = Some TLnk /\ ftyp_of 8592 = Some TChr /\ 41471 < 65536.
Proof. repeat split. Qed.
