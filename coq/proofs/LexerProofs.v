(* The fuel of the lexer model suffices: `lex` never observes the out-of-fuel answer.

   Measure: the number of `Ch` events (real characters and the synthetic blanks between
   arguments) left in the stream.  Every next_lexem() that returns a lexem -- and every
   skipped "asc" -- consumes at least one of them; one more iteration sees the end.  So
   the number of iterations is at most
        total characters + (number of parts - 1) + 1  <=  lex_fuel parts
   with lex_fuel parts = total characters + number of parts + 1. *)
From Coq Require Import List NArith Bool Arith Lia.
From FS Require Import lib.Str model.Lexer.
Import ListNotations.
Open Scope nat_scope.

Fixpoint chs (st : list ev) : nat :=
  match st with
  | [] => 0
  | Ch _ :: r => S (chs r)
  | Reset :: r => chs r
  end.

Lemma chs_app a b : chs (a ++ b) = chs a + chs b.
Proof. induction a as [|[c|] a IH]; cbn [chs app]; lia. Qed.

Lemma chs_map_Ch p : chs (map Ch p) = length p.
Proof. induction p as [|c p IH]; cbn [chs map length]; lia. Qed.

(* the scanning loop never goes backwards, and leaving the Undefined mode costs a char *)
Lemma scan_chs multi : forall st m acc f m' acc' f' st',
  scan multi m acc f st = (m', acc', f', st') ->
  chs st' <= chs st /\ (m = MUndef -> m' <> MUndef -> chs st' < chs st).
Proof.
  induction st as [|e st IH]; intros m acc f m' acc' f' st' H.
  - cbn [scan] in H. inversion H; subst. split; [lia|]. intros -> Hn. congruence.
  - destruct e as [c|].
    + destruct m; cbn [scan] in H.
      * (* MUndef *)
        set (X := if N.eqb c 32 then (MUndef, acc) else _) in H. clearbody X. destruct X as [m1 acc1].
        apply IH in H. destruct H as [H _]. cbn [chs]. split; [lia|]. intros _ _. lia.
      * (* MRaw *)
        match type of H with
        | (if ?X then _ else _) = _ => destruct X
        end.
        -- inversion H; subst. split; [lia|]. intros E; discriminate.
        -- apply IH in H. destruct H as [H _]. cbn [chs]. split; [lia|]. intros E; discriminate.
      * inversion H; subst. split; [lia|]. intros E; discriminate.
      * (* MOp *)
        destruct (is_op_char f c).
        -- apply IH in H. destruct H as [H _]. cbn [chs]. split; [lia|]. intros E; discriminate.
        -- inversion H; subst. split; [lia|]. intros E; discriminate.
      * inversion H; subst. split; [lia|]. intros E; discriminate.
      * destruct (N.eqb c 39).
        -- inversion H; subst. cbn [chs]. split; [lia|]. intros E; discriminate.
        -- apply IH in H. destruct H as [H _]. cbn [chs]. split; [lia|]. intros E; discriminate.
      * destruct (N.eqb c 34).
        -- inversion H; subst. cbn [chs]. split; [lia|]. intros E; discriminate.
        -- apply IH in H. destruct H as [H _]. cbn [chs]. split; [lia|]. intros E; discriminate.
      * destruct (N.eqb c 96).
        -- inversion H; subst. cbn [chs]. split; [lia|]. intros E; discriminate.
        -- apply IH in H. destruct H as [H _]. cbn [chs]. split; [lia|]. intros E; discriminate.
      * inversion H; subst. split; [lia|]. intros E; discriminate.
      * inversion H; subst. split; [lia|]. intros E; discriminate.
    + cbn [scan] in H. apply IH in H. cbn [chs]. exact H.
Qed.

(* one next_lexem(): unless it reports the end, it consumes at least one Ch event *)
Lemma step_chs multi f st :
  match step multi f st with
  | SEnd => True
  | SSkip _ st' => chs st' < chs st
  | SLex _ _ st' => chs st' < chs st
  end.
Proof.
  unfold step.
  destruct (scan multi MUndef [] f st) as [[[m acc] f1] st1] eqn:E.
  apply scan_chs in E. destruct E as [_ E].
  destruct m; try exact I; try (apply E; [reflexivity|discriminate]).
  destruct (kw f1 (rev acc)); apply E; (reflexivity || discriminate).
Qed.

(* sufficiency *)
Lemma lex_loop_sufficient : forall n multi f st, chs st < n -> exists l, lex_loop n multi f st = Some l.
Proof.
  induction n as [|k IH]; intros multi f st H; [lia|].
  cbn [lex_loop]. pose proof (step_chs multi f st) as S.
  destruct (step multi f st) as [|f' st'|l f' st'].
  - now exists [].
  - apply IH. lia.
  - destruct (IH multi f' st' ltac:(lia)) as [r ->]. now exists (l :: r).
Qed.

(* monotonicity *)
Lemma lex_loop_mono : forall n multi f st l, lex_loop n multi f st = Some l ->
  forall m, n <= m -> lex_loop m multi f st = Some l.
Proof.
  induction n as [|k IH]; intros multi f st l H m Hm; [discriminate|].
  destruct m as [|m]; [lia|].
  cbn [lex_loop] in *.
  destruct (step multi f st) as [|f' st'|x f' st'].
  - exact H.
  - apply (IH _ _ _ _ H). lia.
  - destruct (lex_loop k multi f' st') as [r|] eqn:E; [|discriminate].
    rewrite (IH _ _ _ _ E m ltac:(lia)). exact H.
Qed.

Lemma chs_stream_of parts : chs (stream_of parts) <= total_chars parts + length parts.
Proof.
  induction parts as [|p rest IH]; [cbn; lia|].
  destruct rest as [|q rest].
  - cbn [stream_of total_chars length]. rewrite chs_app, chs_map_Ch. cbn [chs]. lia.
  - change (stream_of (p :: q :: rest)) with (map Ch p ++ [Reset; Ch 32%N] ++ stream_of (q :: rest)).
    rewrite chs_app, chs_map_Ch, chs_app. cbn [chs].
    change (total_chars (p :: q :: rest)) with (length p + total_chars (q :: rest)).
    change (length (p :: q :: rest)) with (S (length (q :: rest))). lia.
Qed.

(* The number of next_lexem() iterations is bounded by lex_fuel parts =
   total characters + number of parts + 1: with that much fuel the loop answers. *)
Theorem lex_fuel_terminates parts : exists l, lex_with (lex_fuel parts) parts = Some l.
Proof.
  unfold lex_with. apply lex_loop_sufficient.
  pose proof (chs_stream_of parts). unfold lex_fuel. lia.
Qed.

(* Main statement: any fuel >= the bound gives exactly the token list `lex parts`, hence the
   same list as any larger fuel; `lex` is independent of its fuel and never out of fuel. *)
Theorem lex_fuel_sufficient parts n : lex_fuel parts <= n -> lex_with n parts = Some (lex parts).
Proof.
  intros H. destruct (lex_fuel_terminates parts) as [l E].
  unfold lex. rewrite E. unfold lex_with in *. now apply (lex_loop_mono _ _ _ _ _ E).
Qed.

Corollary lex_fuel_irrelevant parts n m :
  lex_fuel parts <= n -> lex_fuel parts <= m -> lex_with n parts = lex_with m parts.
Proof. intros Hn Hm. now rewrite !lex_fuel_sufficient. Qed.

(* the token list has at most one lexem per character *)
Lemma lex_loop_length : forall n multi f st l, lex_loop n multi f st = Some l -> length l <= chs st.
Proof.
  induction n as [|k IH]; intros multi f st l H; [discriminate|].
  cbn [lex_loop] in H. pose proof (step_chs multi f st) as S.
  destruct (step multi f st) as [|f' st'|x f' st'].
  - inversion H; subst. cbn. lia.
  - apply IH in H. lia.
  - destruct (lex_loop k multi f' st') as [r|] eqn:E; [|discriminate].
    inversion H; subst. apply IH in E. cbn [length]. lia.
Qed.

Theorem lex_length parts : length (lex parts) <= total_chars parts + length parts.
Proof.
  destruct (lex_fuel_terminates parts) as [l E]. unfold lex. rewrite E.
  unfold lex_with in E. apply lex_loop_length in E. pose proof (chs_stream_of parts). lia.
Qed.

Print Assumptions lex_fuel_sufficient.
Print Assumptions lex_length.
