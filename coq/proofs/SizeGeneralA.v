(* UNBOUNDED accuracy / monotonicity / round trip of the default size rendering [render]
   (= format_filesize n "" = humansize 2.1.3 format_size with BINARY, 2 decimals, no space).

   The proofs go through two pure integer functions:
     rnd53 n   the value of  n as f64   (round to nearest even at 53 significant bits)
     cfun V    the value, in 1/100 byte, of the text printed for the double V:
               unit index k = floor(log2 V / 10), U = 1024^k, text = rne(100 V / U) / 100
   and the bridge  rendered_centibytes n = cfun (rnd53 n)  for every 0 < n < 2^64 (render_read).

   Results (section 7 and the end of section 9):
     format_monotone_all          (G2)  a <= b < 2^64 -> rendered_centibytes a <= rendered_centibytes b
     format_accurate_f64_all      n < 2^64 -> the text is accurate for the double n is converted to
     format_accurate_exact        n < 2^64, n a double -> accurate n
     format_accurate_partial      (G1 for n < 2^53)
     format_accurate_all_refuted  (G1 is FALSE on [2^53, 2^64): witness 9046605751480483)
     format_accuracy_all          what holds for all n: half a unit + 100 * conversion error
     format_roundtrip_all         (G3)  n < 2^50 -> roundtrips n
   The only evaluation over a finite set is rt_chk_all: the 102301 two-decimal texts
   1.00 .. 1024.00 (texts, not sizes), each checked against every size that renders to it,
   for KiB .. TiB. *)
From Coq Require Import String ZArith NArith List Bool Lia.
From FS Require Import lib.Str lib.Res lib.Dec lib.Fin lib.SoftF64 gen.SizeGen model.Size spec.SizeSpec proofs.SizeProofs.
Import ListNotations.
Open Scope Z_scope.

Arguments Z.mul : simpl never.
Arguments Z.add : simpl never.
Arguments Z.pow : simpl never.
Arguments Z.div : simpl never.
Arguments Z.modulo : simpl never.
Arguments N.mul : simpl never.
Arguments N.add : simpl never.

(* SizeProofs.v ends by marking these opaque for its vm_compute-based grid lemmas; the general
   proofs below need to unfold them (a conversion-strategy hint only, restored at the end) *)
Strategy transparent [render accurate_text roundtrips_text centibytes_of parse_filesize format_filesize].

(* ================================================================== *)
(* 1. round-half-even division *)

Lemma div_rne_mono X1 X2 Y : 0 <= X1 <= X2 -> 0 < Y -> div_rne X1 Y <= div_rne X2 Y.
Proof.
  intros HX HY. unfold div_rne.
  pose proof (Z.div_mod X1 Y ltac:(lia)) as E1. pose proof (Z.mod_pos_bound X1 Y HY) as B1.
  pose proof (Z.div_mod X2 Y ltac:(lia)) as E2. pose proof (Z.mod_pos_bound X2 Y HY) as B2.
  set (d1 := X1 / Y) in *. set (r1 := X1 mod Y) in *. set (d2 := X2 / Y) in *. set (r2 := X2 mod Y) in *.
  clearbody d1 r1 d2 r2.
  assert (Hd : d1 < d2 \/ (d1 = d2 /\ r1 <= r2)) by nia.
  destruct Hd as [Hd|[Hd Hr]].
  - destruct (2 * r1 ?= Y), (2 * r2 ?= Y), (Z.even d1), (Z.even d2); lia.
  - subst d2. destruct (Z.compare_spec (2 * r1) Y), (Z.compare_spec (2 * r2) Y), (Z.even d1); lia.
Qed.

Lemma div_rne_le_upper X Y T : 0 <= X -> 0 < Y -> X <= T * Y -> div_rne X Y <= T.
Proof.
  intros HX HY H. rewrite <- (div_rne_exact T Y HY). apply div_rne_mono; lia.
Qed.

Lemma div_rne_ge_lower X Y T : 0 <= T -> 0 < Y -> T * Y <= X -> T <= div_rne X Y.
Proof.
  intros HT HY H. rewrite <- (div_rne_exact T Y HY) at 1. apply div_rne_mono; [|exact HY]. nia.
Qed.

Lemma div_rne_scale X Y c : 0 < Y -> 0 < c -> div_rne (X * c) (Y * c) = div_rne X Y.
Proof.
  intros HY Hc. unfold div_rne.
  rewrite Z.div_mul_cancel_r by lia. rewrite Z.mul_mod_distr_r by lia.
  replace (2 * (X mod Y * c)) with ((2 * (X mod Y)) * c) by ring.
  rewrite <- Zmult_compare_compat_r by lia. reflexivity.
Qed.

Lemma div_rne_nonneg X Y : 0 <= X -> 0 < Y -> 0 <= div_rne X Y.
Proof. intros HX HY. apply div_rne_ge_lower; lia. Qed.

Lemma div_rne_1 X : div_rne X 1 = X.
Proof. rewrite <- (Z.mul_1_r X) at 1. apply div_rne_exact. lia. Qed.

(* ================================================================== *)
(* 2. the two integer functions *)

Definition sh (n : Z) : Z := Z.max 0 (Z.log2 n - 52).
Definition rnd53 (n : Z) : Z := div_rne n (2 ^ sh n) * 2 ^ sh n.

Definition unit_ix (V : Z) : Z := Z.log2 V / 10.
Definition upow (k : Z) : Z := 2 ^ (10 * k).
Definition cfun (V : Z) : Z := div_rne (100 * V) (upow (unit_ix V)) * upow (unit_ix V).

Lemma upow_pos k : 0 <= k -> 0 < upow k.
Proof. intros. unfold upow. apply pow2_pos. lia. Qed.

Lemma log2_bounds n : 0 < n -> 0 <= Z.log2 n /\ 2 ^ Z.log2 n <= n < 2 ^ (Z.log2 n + 1).
Proof.
  intros H. split; [apply Z.log2_nonneg|]. pose proof (Z.log2_spec n H) as Hs. rewrite <- Z.add_1_r in Hs. exact Hs.
Qed.

Lemma rnd53_small n : 0 < n < p53 -> rnd53 n = n.
Proof.
  intros H. unfold rnd53, sh. pose proof (log2_small n H) as Hl.
  rewrite Z.max_l by lia. change (2 ^ 0) with 1. rewrite div_rne_1. lia.
Qed.

Lemma rnd53_lo n : 0 < n -> 2 ^ Z.log2 n <= rnd53 n.
Proof.
  intros H. destruct (log2_bounds n H) as [HL Hb]. unfold rnd53, sh. set (L := Z.log2 n) in *.
  destruct (Z_le_gt_dec L 52) as [Hs|Hs].
  - rewrite Z.max_l by lia. change (2 ^ 0) with 1. rewrite div_rne_1. lia.
  - rewrite Z.max_r by lia. set (t := L - 52).
    assert (Ht : 0 < 2 ^ t) by (apply pow2_pos; lia).
    assert (E : 2 ^ L = 2 ^ 52 * 2 ^ t) by (rewrite <- pow2_add by lia; f_equal; lia).
    assert (Hq : 2 ^ 52 <= div_rne n (2 ^ t)) by (apply div_rne_ge_lower; lia).
    rewrite E. apply Z.mul_le_mono_nonneg_r; lia.
Qed.

Lemma rnd53_hi n : 0 < n -> rnd53 n <= 2 ^ (Z.log2 n + 1).
Proof.
  intros H. destruct (log2_bounds n H) as [HL Hb]. unfold rnd53, sh. set (L := Z.log2 n) in *.
  destruct (Z_le_gt_dec L 52) as [Hs|Hs].
  - rewrite Z.max_l by lia. change (2 ^ 0) with 1. rewrite div_rne_1. lia.
  - rewrite Z.max_r by lia. set (t := L - 52).
    assert (Ht : 0 < 2 ^ t) by (apply pow2_pos; lia).
    assert (E : 2 ^ (L + 1) = 2 ^ 53 * 2 ^ t) by (rewrite <- pow2_add by lia; f_equal; lia).
    assert (Hq : div_rne n (2 ^ t) <= 2 ^ 53) by (apply div_rne_le_upper; lia).
    rewrite E. apply Z.mul_le_mono_nonneg_r; lia.
Qed.

Lemma rnd53_pos n : 0 < n -> 0 < rnd53 n.
Proof.
  intros H. pose proof (rnd53_lo n H). destruct (log2_bounds n H) as [HL _].
  pose proof (pow2_pos (Z.log2 n) HL). lia.
Qed.

(* u64 -> f64 is monotone *)
Lemma rnd53_mono a b : 0 < a <= b -> rnd53 a <= rnd53 b.
Proof.
  intros H. assert (Ha : 0 < a) by lia. assert (Hb : 0 < b) by lia.
  pose proof (Z.log2_le_mono a b ltac:(lia)) as HL.
  destruct (Z.eq_dec (sh a) (sh b)) as [E|NE].
  - unfold rnd53. rewrite E.
    assert (0 < 2 ^ sh b) by (apply pow2_pos; unfold sh; lia).
    apply Z.mul_le_mono_nonneg_r; [lia|]. apply div_rne_mono; lia.
  - assert (Hlt : Z.log2 a + 1 <= Z.log2 b) by (unfold sh in NE; lia).
    apply (Z.le_trans _ (2 ^ (Z.log2 a + 1))); [apply rnd53_hi; exact Ha|].
    apply (Z.le_trans _ (2 ^ Z.log2 b)); [|apply rnd53_lo; exact Hb].
    apply pow2_le. pose proof (Z.log2_nonneg a). lia.
Qed.

(* relative error of the conversion: half a unit in the 53rd bit *)
Lemma rnd53_err n : 0 < n -> 2 * Z.abs (rnd53 n - n) <= 2 ^ sh n.
Proof.
  intros H. unfold rnd53.
  assert (HP : 0 < 2 ^ sh n) by (apply pow2_pos; unfold sh; lia).
  destruct (div_rne_spec n (2 ^ sh n) ltac:(lia) HP) as (_ & Hq & _). cbv zeta in Hq.
  rewrite <- Z.abs_opp. replace (- (div_rne n (2 ^ sh n) * 2 ^ sh n - n)) with (n - div_rne n (2 ^ sh n) * 2 ^ sh n) by ring.
  exact Hq.
Qed.

Lemma unit_ix_bounds V : 0 < V ->
  0 <= unit_ix V /\ upow (unit_ix V) <= V < 1024 * upow (unit_ix V).
Proof.
  intros H. destruct (log2_bounds V H) as [HL Hb]. unfold unit_ix, upow. set (L := Z.log2 V) in *.
  assert (Hk : 0 <= L / 10) by (apply Z.div_pos; lia).
  assert (Hdm : 10 * (L / 10) <= L < 10 * (L / 10) + 10) by (Z.div_mod_to_equations; lia).
  set (k := L / 10) in *. split; [exact Hk|].
  assert (H1 : 2 ^ (10 * k) <= 2 ^ L) by (apply pow2_le; lia).
  assert (H2 : 2 ^ (L + 1) <= 2 ^ (10 * k + 10)) by (apply pow2_le; lia).
  rewrite (pow2_add (10 * k) 10) in H2 by lia. change (2 ^ 10) with 1024 in H2. lia.
Qed.

Lemma unit_ix_mono V1 V2 : 0 < V1 <= V2 -> unit_ix V1 <= unit_ix V2.
Proof.
  intros H. unfold unit_ix. apply Z.div_le_mono; [lia|]. apply Z.log2_le_mono. lia.
Qed.

(* printing is monotone in the double, across unit boundaries too *)
Lemma cfun_mono V1 V2 : 0 < V1 <= V2 -> cfun V1 <= cfun V2.
Proof.
  intros H. assert (H1 : 0 < V1) by lia. assert (H2 : 0 < V2) by lia.
  destruct (unit_ix_bounds V1 H1) as [K1 B1]. destruct (unit_ix_bounds V2 H2) as [K2 B2].
  pose proof (unit_ix_mono V1 V2 H) as HK. unfold cfun.
  set (k1 := unit_ix V1) in *. set (k2 := unit_ix V2) in *.
  pose proof (upow_pos k1 K1) as P1. pose proof (upow_pos k2 K2) as P2.
  destruct (Z.eq_dec k1 k2) as [E|NE].
  - rewrite E. apply Z.mul_le_mono_nonneg_r; [lia|]. apply div_rne_mono; lia.
  - assert (HU : 1024 * upow k1 <= upow k2).
    { unfold upow. replace 1024 with (2 ^ 10) by reflexivity. rewrite <- pow2_add by lia. apply pow2_le. lia. }
    assert (D1 : div_rne (100 * V1) (upow k1) <= 102400) by (apply div_rne_le_upper; lia).
    assert (D2 : 100 <= div_rne (100 * V2) (upow k2)) by (apply div_rne_ge_lower; lia).
    assert (D0 : 0 <= div_rne (100 * V1) (upow k1)) by (apply div_rne_nonneg; lia).
    nia.
Qed.

(* the printed value is within half a unit of the last of two decimals *)
Lemma cfun_accurate V : 0 < V -> 2 * Z.abs (cfun V - 100 * V) <= upow (unit_ix V).
Proof.
  intros H. destruct (unit_ix_bounds V H) as [K _]. pose proof (upow_pos _ K) as P. unfold cfun.
  destruct (div_rne_spec (100 * V) (upow (unit_ix V)) ltac:(lia) P) as (_ & Hq & _). cbv zeta in Hq.
  rewrite <- Z.abs_opp.
  replace (- (div_rne (100 * V) (upow (unit_ix V)) * upow (unit_ix V) - 100 * V))
    with (100 * V - div_rne (100 * V) (upow (unit_ix V)) * upow (unit_ix V)) by ring.
  exact Hq.
Qed.

Lemma cfun_nonneg V : 0 < V -> 0 <= cfun V.
Proof.
  intros H. destruct (unit_ix_bounds V H) as [K _]. pose proof (upow_pos _ K) as P. unfold cfun.
  apply Z.mul_nonneg_nonneg; [apply div_rne_nonneg; lia|lia].
Qed.

(* ================================================================== *)
(* 3. u64 -> f64 *)

Lemma round_big n :
  p53 <= n < 2 ^ 64 ->
  round_ne false n 1 =
  (if div_rne n (2 ^ (Z.log2 n - 52)) =? p53 then FFin false p52 (Z.log2 n - 52 + 1)
   else FFin false (div_rne n (2 ^ (Z.log2 n - 52))) (Z.log2 n - 52)).
Proof.
  intros H. assert (Hn : 0 < n) by (unfold p53 in H; lia).
  destruct (log2_bounds n Hn) as [HL Hb].
  assert (HL53 : 53 <= Z.log2 n <= 63).
  { split; [apply Z.log2_le_pow2; [lia|rewrite <- p53_eq; lia]|].
    assert (Z.log2 n < 64) by (apply Z.log2_lt_pow2; lia). lia. }
  unfold round_ne. cbv zeta. change (Z.log2 1) with 0.
  set (L := Z.log2 n) in *.
  replace (L + BIAS - 0) with (L + BIAS) by lia.
  rewrite (Z.max_l (L + BIAS) 0) by (unfold BIAS; lia).
  rewrite (Z.min_l BIAS (L + BIAS)) by lia.
  replace (BIAS - BIAS) with 0 by lia. replace (L + BIAS - BIAS) with L by lia.
  rewrite !shl_eq by lia. change (2 ^ 0) with 1. rewrite !Z.mul_1_r, !Z.mul_1_l.
  assert (T : (n <? 2 ^ L) = false) by (apply Z.ltb_ge; lia). rewrite T.
  rewrite (Z.max_l (L + BIAS - 52) 56) by (unfold BIAS; lia).
  rewrite (Z.min_l BIAS (L + BIAS - 52)) by lia.
  replace (BIAS - BIAS) with 0 by lia. replace (L + BIAS - 52 - BIAS) with (L - 52) by lia.
  change (2 ^ 0) with 1. rewrite !Z.mul_1_r.
  set (t := L - 52). assert (Ht : 0 < 2 ^ t) by (apply pow2_pos; lia).
  assert (E : 2 ^ L = p52 * 2 ^ t) by (rewrite p52_eq, <- pow2_add by lia; f_equal; lia).
  assert (Hq : p52 <= div_rne n (2 ^ t)) by (apply div_rne_ge_lower; unfold p52 in *; lia).
  set (q := div_rne n (2 ^ t)) in *.
  assert (Q0 : (q =? 0) = false) by (apply Z.eqb_neq; unfold p52 in *; lia). rewrite Q0.
  destruct (q =? p53).
  - replace (L + BIAS - 52 + 1 - BIAS) with (t + 1) by lia.
    assert (O : (971 <? t + 1) = false) by (apply Z.ltb_ge; lia). rewrite O. reflexivity.
  - replace (L + BIAS - 52 - BIAS) with t by lia.
    assert (O : (971 <? t) = false) by (apply Z.ltb_ge; lia). rewrite O. reflexivity.
Qed.

(* the double of a nonzero u64: canonical mantissa/exponent, and its value is rnd53 n *)
Lemma of_Z_spec n :
  0 < n < 2 ^ 64 ->
  exists m e, of_Z n = FFin false m e /\ p52 <= m < p53 /\ -52 <= e <= 12 /\
              m * 2 ^ (e + 52) = rnd53 n * 2 ^ 52.
Proof.
  intros H. destruct (Z_lt_le_dec n p53) as [Hs|Hb].
  - assert (Hn : 0 < n < p53) by lia.
    rewrite (of_Z_exact n Hn), (rnd53_small n Hn). unfold of_int, of_dyadic.
    pose proof (log2_small n Hn) as Hl. pose proof (norm_mantissa n Hn) as Hm.
    eexists. eexists. split; [reflexivity|]. split; [exact Hm|]. split; [lia|].
    rewrite <- Z.mul_assoc, <- pow2_add by lia. do 2 f_equal. lia.
  - assert (Hn : 0 < n) by (unfold p53 in Hb; lia).
    unfold of_Z.
    assert (H0 : (n =? 0) = false) by (apply Z.eqb_neq; lia).
    assert (H1 : (n <? 0) = false) by (apply Z.ltb_ge; lia).
    rewrite H0, H1, Z.abs_eq by lia. rewrite (round_big n ltac:(lia)).
    destruct (log2_bounds n Hn) as [HL HB].
    assert (HL53 : 53 <= Z.log2 n <= 63).
    { split; [apply Z.log2_le_pow2; [lia|rewrite <- p53_eq; lia]|].
      assert (Z.log2 n < 64) by (apply Z.log2_lt_pow2; lia). lia. }
    unfold rnd53, sh. rewrite Z.max_r by lia.
    set (t := Z.log2 n - 52) in *. assert (Ht : 0 < 2 ^ t) by (apply pow2_pos; lia).
    assert (E1 : 2 ^ Z.log2 n = p52 * 2 ^ t) by (rewrite p52_eq, <- pow2_add by lia; f_equal; lia).
    assert (E2 : 2 ^ (Z.log2 n + 1) = p53 * 2 ^ t) by (rewrite p53_eq, <- pow2_add by lia; f_equal; lia).
    assert (Hq1 : p52 <= div_rne n (2 ^ t)) by (apply div_rne_ge_lower; unfold p52 in *; lia).
    assert (Hq2 : div_rne n (2 ^ t) <= p53) by (apply div_rne_le_upper; lia).
    set (q := div_rne n (2 ^ t)) in *.
    destruct (q =? p53) eqn:Q.
    + apply Z.eqb_eq in Q. exists p52, (t + 1). split; [reflexivity|]. split; [unfold p52, p53; lia|].
      split; [lia|]. rewrite Q. replace (t + 1 + 52) with (1 + t + 52) by lia.
      rewrite !pow2_add by lia. change (2 ^ 1) with 2. unfold p52, p53. ring.
    + apply Z.eqb_neq in Q. exists q, t. split; [reflexivity|]. split; [lia|]. split; [lia|].
      rewrite pow2_add by lia. ring.
Qed.

(* ================================================================== *)
(* 4. the division loop: dividing by 1024.0 only lowers the exponent *)

Definition d1024 : f64 := FFin false p52 (-42).

Lemma kilo_binary : kilo_value KBinary = d1024.
Proof. vm_compute. reflexivity. Qed.

Lemma div_1024 m e : p52 <= m < p53 -> -1000 <= e <= 900 ->
  div (FFin false m e) d1024 = FFin false m (e - 10).
Proof.
  intros Hm He. unfold d1024, div. cbn [xorb].
  apply round_ne_repr.
  - left. split; [exact Hm|lia].
  - rewrite shl_eq by lia. apply Z.mul_pos_pos; [unfold p52; lia|apply pow2_pos; lia].
  - rewrite !shl_eq by lia. unfold BIAS. rewrite p52_eq.
    destruct (Z_le_gt_dec 0 (e + 42)) as [Hp|Hq].
    + rewrite (Z.max_r 0 (e - -42)) by lia. rewrite (Z.max_l 0 (-42 - e)) by lia.
      change (2 ^ 0) with 1. rewrite Z.mul_1_r.
      rewrite <- !Z.mul_assoc, <- !pow2_add by lia. do 2 f_equal. lia.
    + rewrite (Z.max_l 0 (e - -42)) by lia. rewrite (Z.max_r 0 (-42 - e)) by lia.
      change (2 ^ 0) with 1. rewrite Z.mul_1_r.
      rewrite <- !Z.mul_assoc, <- !pow2_add by lia. do 2 f_equal. lia.
Qed.

Lemma fge_1024 m e : p52 <= m < p53 -> -1000 <= e <= 900 ->
  fge (FFin false m e) d1024 = (-42 <=? e).
Proof.
  intros Hm He. unfold d1024, fge. cbn [Z.eqb]. cbv iota.
  destruct (Z_le_gt_dec (-42) e) as [Hp|Hq].
  - rewrite (Z.min_r e (-42)) by lia. rewrite !shl_eq by lia.
    replace (-42 - -42) with 0 by lia. change (2 ^ 0) with 1.
    assert (1 <= 2 ^ (e - -42)) by (pose proof (pow2_pos (e - -42) ltac:(lia)); lia).
    assert (G : (-42 <=? e) = true) by (apply Z.leb_le; lia). rewrite G.
    apply Z.leb_le. unfold p52 in *. nia.
  - rewrite (Z.min_l e (-42)) by lia. rewrite !shl_eq by lia.
    replace (e - e) with 0 by lia. change (2 ^ 0) with 1.
    assert (2 ^ 1 <= 2 ^ (-42 - e)) by (apply pow2_le; lia). change (2 ^ 1) with 2 in *.
    assert (G : (-42 <=? e) = false) by (apply Z.leb_gt; lia). rewrite G.
    apply Z.leb_gt. unfold p52, p53 in *. nia.
Qed.

Lemma div_auto_steps : forall (k fuel : nat) m e idx,
  (k <= fuel)%nat -> p52 <= m < p53 -> e <= 900 -> -52 <= e - 10 * Z.of_nat k <= -43 ->
  div_auto fuel d1024 (FFin false m e) idx = Some (FFin false m (e - 10 * Z.of_nat k), (idx + k)%nat).
Proof.
  induction k as [|k IH]; intros fuel m e idx Hf Hm He Hk.
  - replace (e - 10 * Z.of_nat 0) with e in * by lia. rewrite Nat.add_0_r.
    assert (G : fge (FFin false m e) d1024 = false) by (rewrite fge_1024 by lia; apply Z.leb_gt; lia).
    destruct fuel; cbn [div_auto]; rewrite G; reflexivity.
  - destruct fuel as [|fuel]; [lia|].
    assert (G : fge (FFin false m e) d1024 = true) by (rewrite fge_1024 by lia; apply Z.leb_le; lia).
    cbn [div_auto]. rewrite G, div_1024 by lia.
    rewrite Nat2Z.inj_succ in Hk.
    rewrite (IH fuel m (e - 10) (S idx)); [|lia|exact Hm|lia|lia].
    rewrite Nat2Z.inj_succ. f_equal. f_equal; [f_equal; lia|lia].
Qed.

(* ================================================================== *)
(* 5. the rendered text and its reader *)

Definition no_k (x : str) : bool := forallb (fun c => negb (c =? 107)%N) x.

Lemma replace_fuel_no_k rep : forall fuel x, no_k x = true -> replace_fuel fuel (s "kB") rep x = x.
Proof.
  induction fuel as [|fuel IH]; intros x H; [reflexivity|]. destruct x as [|c r]; [reflexivity|].
  cbn [replace_fuel]. unfold no_k in H. cbn [forallb] in H. apply andb_true_iff in H. destruct H as [Hc Hr].
  assert (St : starts_with (s "kB") (c :: r) = false).
  { change (s "kB") with [107%N; 66%N]. cbn [starts_with]. apply negb_true_iff in Hc.
    rewrite N.eqb_sym, Hc. reflexivity. }
  rewrite St. f_equal. apply IH. exact Hr.
Qed.

Lemma replace_no_k rep x : no_k x = true -> replace (s "kB") rep x = x.
Proof. intros H. unfold replace. apply replace_fuel_no_k. exact H. Qed.

Lemma no_k_app x y : no_k (x ++ y) = no_k x && no_k y.
Proof. unfold no_k. apply forallb_app. Qed.

Lemma digits_no_k ds : forallb is_digit ds = true -> no_k ds = true.
Proof.
  induction ds as [|c ds IH]; intros H; [reflexivity|]. cbn [forallb] in H. apply andb_true_iff in H.
  destruct H as [Hc Hd]. unfold no_k. cbn [forallb]. fold (no_k ds). rewrite (IH Hd), andb_true_r.
  unfold is_digit in Hc. apply andb_true_iff in Hc. destruct Hc as [_ Hc]. apply N.leb_le in Hc.
  apply negb_true_iff. apply N.eqb_neq. lia.
Qed.

Lemma show_N_nonnil n : show_N n <> [].
Proof. intros E. pose proof (parse_show_N n) as H. rewrite E in H. discriminate. Qed.

Lemma digits_val_show_N n : digits_val (show_N n) = Z.of_N n.
Proof.
  pose proof (parse_show_N n) as H. unfold digits_val. unfold parse_N in H.
  destruct (show_N n); [discriminate|]. rewrite H. reflexivity.
Qed.

(* the two decimals *)
Definition frac_ok (F : N) : bool :=
  negb (F <? 100)%N ||
  (forallb is_digit (pad_left 2 (show_N F)) && (length (pad_left 2 (show_N F)) =? 2)%nat &&
   (digits_val (pad_left 2 (show_N F)) =? Z.of_N F)).

Lemma frac_ok_all : forallb frac_ok (below_pow2 7) = true.
Proof. vm_compute. reflexivity. Qed.

Lemma frac_text F : (F < 100)%N ->
  forallb is_digit (pad_left 2 (show_N F)) = true /\ length (pad_left 2 (show_N F)) = 2%nat /\
  digits_val (pad_left 2 (show_N F)) = Z.of_N F.
Proof.
  intros H. pose proof (forall_below_pow2 7 frac_ok frac_ok_all F) as G.
  assert (HF : (F < 2 ^ N.of_nat 7)%N) by (change (2 ^ N.of_nat 7)%N with 128%N; lia).
  specialize (G HF). unfold frac_ok in G.
  assert (L : (F <? 100)%N = true) by (apply N.ltb_lt; exact H). rewrite L in G. cbn [negb orb] in G.
  apply andb_true_iff in G. destruct G as [G G3]. apply andb_true_iff in G. destruct G as [G1 G2].
  apply Nat.eqb_eq in G2. apply Z.eqb_eq in G3. auto.
Qed.

Lemma read_int ds u U :
  ds <> [] -> forallb is_digit ds = true -> In (u, U) iec_units ->
  read_rendered (ds ++ u) = Some (digits_val ds * 100 * U, U, 0).
Proof.
  intros Hne Hd Hin. unfold iec_units in Hin. cbn [In] in Hin.
  destruct ds as [|c ds]; [congruence|].
  repeat (destruct Hin as [Hin|Hin];
          [apply pair_equal_spec in Hin; destruct Hin as [<- <-]; unfold read_rendered;
           lazymatch goal with |- context [span_digits (_ ++ ?r)] =>
             rewrite (span_digits_all (c :: ds) r Hd eq_refl) end; reflexivity|]).
  contradiction.
Qed.

Lemma read_frac ds fs u U :
  ds <> [] -> forallb is_digit ds = true -> forallb is_digit fs = true -> length fs = 2%nat ->
  In (u, U) iec_units ->
  read_rendered (ds ++ 46%N :: fs ++ u) = Some ((digits_val ds * 100 + digits_val fs) * U, U, 2).
Proof.
  intros Hne Hd Hf Hl Hin. unfold iec_units in Hin. cbn [In] in Hin.
  destruct ds as [|c ds]; [congruence|].
  repeat (destruct Hin as [Hin|Hin];
          [apply pair_equal_spec in Hin; destruct Hin as [<- <-]; unfold read_rendered;
           lazymatch goal with |- context [span_digits (_ ++ ?r)] =>
             rewrite (span_digits_all (c :: ds) r Hd eq_refl) end; cbv beta iota;
           lazymatch goal with |- context [span_digits (fs ++ ?r)] =>
             rewrite (span_digits_all fs r Hf eq_refl) end; cbv beta iota; rewrite Hl; reflexivity|]).
  contradiction.
Qed.

(* ================================================================== *)
(* 6. the bridge: render n in terms of rnd53 / cfun *)

Definition opts0 : hs_options :=
  {| o_kilo := KBinary; o_units := KBinary; o_decimal_places := 2; o_decimal_zeroes := 0;
     o_fixed_at := None; o_space := false |}.

Lemma render_unfold n :
  format_filesize n [] =
  match hs_format_size n opts0 with Ok r0 => Ok (replace (s "kB") (s "KB") r0) | other => other end.
Proof. reflexivity. Qed.

Lemma unit_table k : (k <= 6)%nat ->
  exists u, nth_error scale_binary k = Some u /\ In (u, upow (Z.of_nat k)) iec_units /\ no_k u = true.
Proof.
  intros H.
  destruct k as [|[|[|[|[|[|[|k]]]]]]];
    [exists (s "B")|exists (s "KiB")|exists (s "MiB")|exists (s "GiB")|exists (s "TiB")|exists (s "PiB")|exists (s "EiB")|lia];
    (split; [reflexivity|split; [|reflexivity]]); unfold iec_units; cbn [In];
    repeat (first [left; reflexivity|right]).
Qed.

Lemma hs_format_spec n m e :
  of_Z (Z.of_N n) = FFin false m e -> p52 <= m < p53 -> -52 <= e <= 12 ->
  let k := Z.to_nat ((e + 52) / 10) in
  let x := FFin false m (e - 10 * Z.of_nat k) in
  exists u, nth_error scale_binary k = Some u /\ In (u, upow (Z.of_nat k)) iec_units /\ no_k u = true /\
    hs_format_size n opts0 = Ok (show_prec (if frac_negligible x then 0 else 2)%nat x ++ u).
Proof.
  intros Hof Hm He k x.
  assert (Hk : 0 <= (e + 52) / 10 <= 6) by (Z.div_mod_to_equations; lia).
  assert (Hk6 : (k <= 6)%nat) by (unfold k; lia).
  assert (Hke : -52 <= e - 10 * Z.of_nat k <= -43) by (unfold k; rewrite Z2Nat.id by lia; Z.div_mod_to_equations; lia).
  destruct (unit_table k Hk6) as (u & Hu & Hin & Hnk).
  exists u. split; [exact Hu|]. split; [exact Hin|]. split; [exact Hnk|].
  unfold hs_format_size, hs_parts. cbn [opts0 o_kilo o_units o_decimal_places o_decimal_zeroes o_fixed_at o_space].
  rewrite kilo_binary. unfold of_u64. rewrite Hof.
  rewrite (div_auto_steps k 9 m e 0) by lia. cbn [Nat.add]. fold x.
  rewrite Hu. destruct (frac_negligible x); reflexivity.
Qed.

Lemma show_prec_0 m e : e < 0 ->
  show_prec 0 (FFin false m e) = show_N (Z.to_N (div_rne m (2 ^ (- e)))).
Proof.
  intros He. unfold show_prec.
  assert (G : (0 <=? e) = false) by (apply Z.leb_gt; exact He). rewrite G.
  cbn [Nat.min Nat.sub repeat]. unfold show_fixed. cbn [app].
  change (10 ^ Z.of_nat 0) with 1. rewrite Z.mul_1_r, Z.div_1_r, !app_nil_r. reflexivity.
Qed.

Lemma show_prec_2 m e : e <= -2 ->
  show_prec 2 (FFin false m e) =
  show_N (Z.to_N (div_rne (m * 100) (2 ^ (- e)) / 100)) ++
  46%N :: pad_left 2 (show_N (Z.to_N (div_rne (m * 100) (2 ^ (- e)) mod 100))).
Proof.
  intros He. unfold show_prec.
  assert (G : (0 <=? e) = false) by (apply Z.leb_gt; lia). rewrite G.
  rewrite (Nat.min_l 2 (Z.to_nat (- e))) by lia.
  cbn [Nat.sub repeat]. unfold show_fixed. cbn [app].
  change (10 ^ Z.of_nat 2) with 100. rewrite app_nil_r. reflexivity.
Qed.

Lemma div_rne_near a r Y : 0 <= r -> 2 * r < Y -> div_rne (a * Y + r) Y = a.
Proof.
  intros Hr HY. unfold div_rne.
  assert (D : (a * Y + r) / Y = a) by (symmetry; apply (Z.div_unique _ _ a r); lia).
  assert (M : (a * Y + r) mod Y = r) by (symmetry; apply (Z.mod_unique _ _ a r); lia).
  rewrite D, M. destruct (Z.compare_spec (2 * r) Y); lia.
Qed.

(* "no fractional part" (fraction 0 or at most 2^-52): the 2-decimal rounding is the integer *)
Lemma negligible_div m j : p52 <= m < p53 -> 43 <= j <= 52 ->
  (m mod 2 ^ j) * p52 <= 2 ^ j ->
  0 <= div_rne m (2 ^ j) /\ div_rne (100 * m) (2 ^ j) = 100 * div_rne m (2 ^ j).
Proof.
  intros Hm Hj Hf.
  assert (HP : 0 < 2 ^ j) by (apply pow2_pos; lia).
  assert (H43 : 2 ^ 43 <= 2 ^ j) by (apply pow2_le; lia).
  assert (H52 : 2 ^ j <= p52) by (rewrite p52_eq; apply pow2_le; lia).
  change (2 ^ 43) with 8796093022208 in H43.
  pose proof (Z.div_mod m (2 ^ j) ltac:(lia)) as E. pose proof (Z.mod_pos_bound m (2 ^ j) HP) as B.
  set (I := m / 2 ^ j) in *. set (f := m mod 2 ^ j) in *.
  assert (Hf1 : f <= 1) by (unfold p52 in *; nia).
  assert (HI : 0 <= I) by (unfold p52 in *; nia).
  assert (E1 : div_rne m (2 ^ j) = I) by (rewrite E; rewrite (Z.mul_comm (2 ^ j) I); apply div_rne_near; lia).
  assert (E2 : div_rne (100 * m) (2 ^ j) = 100 * I).
  { replace (100 * m) with ((100 * I) * 2 ^ j + 100 * f) by (rewrite E at 1; ring). apply div_rne_near; lia. }
  rewrite E1, E2. split; [exact HI|reflexivity].
Qed.

Lemma show_read m j u U :
  p52 <= m < p53 -> 43 <= j <= 52 -> In (u, U) iec_units -> no_k u = true ->
  let x := FFin false m (- j) in
  let t := show_prec (if frac_negligible x then 0 else 2)%nat x ++ u in
  no_k t = true /\ exists places, read_rendered t = Some (div_rne (100 * m) (2 ^ j) * U, U, places).
Proof.
  intros Hm Hj Hin Hnk x t. unfold t, x. clear t x.
  assert (HP : 0 < 2 ^ j) by (apply pow2_pos; lia).
  destruct (frac_negligible (FFin false m (- j))) eqn:FN.
  - rewrite show_prec_0 by lia. rewrite Z.opp_involutive.
    unfold frac_negligible in FN.
    assert (G : (0 <=? - j) = false) by (apply Z.leb_gt; lia). rewrite G, Z.opp_involutive in FN.
    apply Z.leb_le in FN. destruct (negligible_div m j Hm Hj FN) as [H0 HE].
    split.
    + rewrite no_k_app, Hnk, andb_true_r. apply digits_no_k, show_N_digits.
    + exists 0. rewrite (read_int _ u U (show_N_nonnil _) (show_N_digits _) Hin).
      rewrite digits_val_show_N, Z2N.id by exact H0. rewrite HE. do 2 f_equal. f_equal. ring.
  - rewrite show_prec_2 by lia. rewrite Z.opp_involutive. rewrite (Z.mul_comm m 100).
    set (R := div_rne (100 * m) (2 ^ j)).
    assert (HR : 0 <= R) by (apply div_rne_nonneg; unfold p52 in *; lia).
    assert (HRd : 0 <= R / 100) by (apply Z.div_pos; lia).
    pose proof (Z.mod_pos_bound R 100 ltac:(lia)) as HRm.
    assert (HF : (Z.to_N (R mod 100) < 100)%N) by lia.
    destruct (frac_text _ HF) as (F1 & F2 & F3).
    split.
    + rewrite !no_k_app, Hnk, andb_true_r. apply andb_true_iff. split; [apply digits_no_k, show_N_digits|].
      unfold no_k. cbn [forallb]. fold (no_k (pad_left 2 (show_N (Z.to_N (R mod 100))))).
      rewrite (digits_no_k _ F1). reflexivity.
    + exists 2. rewrite <- app_assoc. cbn [app].
      rewrite (read_frac _ _ u U (show_N_nonnil _) (show_N_digits _) F1 F2 Hin).
      rewrite digits_val_show_N, F3, !Z2N.id by lia. do 2 f_equal. f_equal.
      pose proof (Z.div_mod R 100 ltac:(lia)). lia.
Qed.

Lemma cfun_of_parts m e V :
  p52 <= m < p53 -> -52 <= e <= 12 -> m * 2 ^ (e + 52) = V * 2 ^ 52 ->
  unit_ix V = (e + 52) / 10 /\
  div_rne (100 * m) (2 ^ (10 * ((e + 52) / 10) - e)) = div_rne (100 * V) (upow ((e + 52) / 10)).
Proof.
  intros Hm He Hval.
  assert (HPe : 0 < 2 ^ (e + 52)) by (apply pow2_pos; lia).
  assert (HV : 0 < V).
  { assert (Hpos : 0 < m * 2 ^ (e + 52)) by (apply Z.mul_pos_pos; unfold p52 in *; lia).
    rewrite Hval in Hpos. change (2 ^ 52) with 4503599627370496 in Hpos. lia. }
  assert (Lm : Z.log2 m = 52) by (apply Z.log2_unique; [lia|rewrite <- p52_eq; change (2 ^ Z.succ 52) with p53; lia]).
  assert (LV : Z.log2 V = e + 52).
  { pose proof (f_equal Z.log2 Hval) as HL.
    rewrite !Z.log2_mul_pow2 in HL by (unfold p52 in *; lia). lia. }
  assert (Hk : 0 <= (e + 52) / 10 <= 6) by (Z.div_mod_to_equations; lia).
  assert (Hke : 43 <= 10 * ((e + 52) / 10) - e <= 52) by (Z.div_mod_to_equations; lia).
  split; [unfold unit_ix; rewrite LV; reflexivity|].
  set (k := (e + 52) / 10) in *. unfold upow.
  rewrite <- (div_rne_scale (100 * V) (2 ^ (10 * k)) (2 ^ 52)) by (try apply pow2_pos; lia).
  rewrite <- (div_rne_scale (100 * m) (2 ^ (10 * k - e)) (2 ^ (e + 52))) by (try apply pow2_pos; lia).
  rewrite <- !pow2_add by lia. replace (10 * k - e + (e + 52)) with (10 * k + 52) by lia.
  f_equal. rewrite <- !Z.mul_assoc. rewrite Hval. reflexivity.
Qed.

(* THE BRIDGE *)
Lemma render_read n :
  0 < Z.of_N n < 2 ^ 64 ->
  exists places,
    read_rendered (render n) =
    Some (cfun (rnd53 (Z.of_N n)), upow (unit_ix (rnd53 (Z.of_N n))), places).
Proof.
  intros Hn. destruct (of_Z_spec (Z.of_N n) Hn) as (m & e & Hof & Hm & He & Hval).
  destruct (hs_format_spec n m e Hof Hm He) as (u & _ & Hin & Hnk & Hfmt). cbv zeta in Hfmt.
  destruct (cfun_of_parts m e _ Hm He Hval) as [Hix Hdiv].
  assert (Hk : 0 <= (e + 52) / 10 <= 6) by (Z.div_mod_to_equations; lia).
  rewrite Z2Nat.id in Hfmt, Hin by lia.
  set (k := (e + 52) / 10) in *.
  assert (Hj : 43 <= 10 * k - e <= 52) by (unfold k; Z.div_mod_to_equations; lia).
  replace (e - 10 * k) with (- (10 * k - e)) in Hfmt by lia.
  destruct (show_read m (10 * k - e) u (upow k) Hm Hj Hin Hnk) as [Hno (places & Hrd)].
  cbv zeta in Hno, Hrd.
  exists places. unfold render. rewrite render_unfold, Hfmt.
  rewrite (replace_no_k _ _ Hno). rewrite Hrd. unfold cfun. rewrite Hix, Hdiv. reflexivity.
Qed.

Lemma render_zero : read_rendered (render 0) = Some (0, 1, 0).
Proof. vm_compute. reflexivity. Qed.

Lemma rendered_centibytes_eq n :
  0 < Z.of_N n < 2 ^ 64 -> rendered_centibytes n = cfun (rnd53 (Z.of_N n)).
Proof.
  intros Hn. destruct (render_read n Hn) as [places H].
  unfold rendered_centibytes, centibytes_of. rewrite H. reflexivity.
Qed.

(* ================================================================== *)
(* 7. the theorems *)

(* (G2) the value of the rendered text is monotone in the size, for EVERY u64 *)
Theorem format_monotone_all a b :
  (a <= b)%N -> (b < 2 ^ 64)%N -> rendered_centibytes a <= rendered_centibytes b.
Proof.
  intros Hab Hb.
  assert (Hb' : Z.of_N b < 2 ^ 64) by (change (2 ^ 64) with (Z.of_N (2 ^ 64)); lia).
  destruct (N.eq_dec a 0) as [->|Ha].
  - destruct (N.eq_dec b 0) as [->|Hb0]; [lia|].
    rewrite (rendered_centibytes_eq b) by lia.
    unfold rendered_centibytes, centibytes_of. rewrite render_zero.
    apply cfun_nonneg. apply rnd53_pos. lia.
  - rewrite (rendered_centibytes_eq a), (rendered_centibytes_eq b) by lia.
    apply cfun_mono. split; [apply rnd53_pos; lia|apply rnd53_mono; lia].
Qed.

(* the double nearest to n, as a number (2^64 for the sizes that round up to it) *)
Definition f64_value (n : N) : N := Z.to_N (rnd53 (Z.of_N n)).

Lemma accurate_text_intro t v U places n :
  read_rendered t = Some (v, U, places) -> 0 < U -> 2 * Z.abs (v - 100 * Z.of_N n) <= U ->
  accurate_text t n = true.
Proof.
  intros Hr HU H. unfold accurate_text. rewrite Hr. apply Z.leb_le. destruct (places =? 2); lia.
Qed.

(* (G1), general form: for EVERY u64 the text is within half a unit of its last displayed
   digit of the f64 the size is converted to *)
Theorem format_accurate_f64_all n :
  (n < 2 ^ 64)%N -> accurate_text (render n) (f64_value n) = true.
Proof.
  intros Hn.
  assert (Hn' : Z.of_N n < 2 ^ 64) by (change (2 ^ 64) with (Z.of_N (2 ^ 64)); lia).
  destruct (N.eq_dec n 0) as [->|H0]; [vm_compute; reflexivity|].
  assert (Hpos : 0 < Z.of_N n < 2 ^ 64) by lia.
  destruct (render_read n Hpos) as [places Hr].
  pose proof (rnd53_pos (Z.of_N n) ltac:(lia)) as HV.
  destruct (unit_ix_bounds _ HV) as [HK _].
  apply (accurate_text_intro _ _ _ _ _ Hr (upow_pos _ HK)).
  unfold f64_value. rewrite Z2N.id by lia. apply cfun_accurate. exact HV.
Qed.

(* ... hence of the size itself whenever the conversion u64 -> f64 is exact *)
Theorem format_accurate_exact n :
  (n < 2 ^ 64)%N -> f64_value n = n -> accurate n = true.
Proof. intros Hn He. unfold accurate. rewrite <- He at 2. apply format_accurate_f64_all. exact Hn. Qed.

Lemma f64_value_small n : (n < 2 ^ 53)%N -> f64_value n = n.
Proof.
  intros Hn. unfold f64_value. destruct (N.eq_dec n 0) as [->|H0]; [vm_compute; reflexivity|].
  assert (Hn' : Z.of_N n < p53) by (change p53 with (Z.of_N (2 ^ 53)); lia).
  rewrite rnd53_small by lia. apply N2Z.id.
Qed.

(* FULL STATEMENT (G1), FALSE (see format_accurate_all_refuted):
     forall n, (n < 2^64)%N -> accurate n = true.
   PROVED PART: every size below 2^53 (where u64 -> f64 is exact); with
   format_accurate_exact also every larger size that is a double. *)
Theorem format_accurate_partial n : (n < 2 ^ 53)%N -> accurate n = true.
Proof.
  intros Hn. apply format_accurate_exact; [|apply f64_value_small; exact Hn].
  apply (N.lt_trans _ _ _ Hn). reflexivity.
Qed.

(* REFUTATION of the full (G1).  In the first binade where odd sizes are not doubles:
     n     = 9046605751480483 = 2^53 + 39406496739491 = 8.03499999999999925... PiB  (should print 8.03)
     n + 1 = (n as f64)                               = 8.03500000000000014... PiB  (prints 8.04)
   the u64 -> f64 conversion crosses the rounding boundary of the second decimal:
   2 * |804 * 2^50 - 100 n| = 2^50 + 168 > 2^50 = one unit of the last displayed digit. *)
Theorem format_accurate_all_refuted :
  exists n, (n < 2 ^ 64)%N /\ accurate n = false.
Proof. exists 9046605751480483%N. split; vm_compute; reflexivity. Qed.

(* what does hold for every u64: half a unit of the last digit plus the conversion error
   (at most 2^(log2 n - 53) bytes, rnd53_err; zero below 2^53, rnd53_small) *)
Theorem format_accuracy_all n :
  (0 < n < 2 ^ 64)%N ->
  exists v U places,
    read_rendered (render n) = Some (v, U, places) /\ 0 < U /\
    2 * Z.abs (v - 100 * Z.of_N n) <= U + 200 * Z.abs (rnd53 (Z.of_N n) - Z.of_N n) /\
    2 * Z.abs (rnd53 (Z.of_N n) - Z.of_N n) <= 2 ^ Z.max 0 (Z.log2 (Z.of_N n) - 52).
Proof.
  intros Hn.
  assert (Hn' : Z.of_N n < 2 ^ 64) by (change (2 ^ 64) with (Z.of_N (2 ^ 64)); lia).
  assert (Hpos : 0 < Z.of_N n < 2 ^ 64) by lia.
  destruct (render_read n Hpos) as [places Hr].
  pose proof (rnd53_pos (Z.of_N n) ltac:(lia)) as HV.
  destruct (unit_ix_bounds _ HV) as [HK _].
  eexists. eexists. exists places. split; [exact Hr|]. split; [apply upow_pos; exact HK|].
  pose proof (cfun_accurate _ HV) as HA. pose proof (rnd53_err (Z.of_N n) ltac:(lia)) as HE.
  split; [lia|exact HE].
Qed.

(* ================================================================== *)
(* 8. the exact shape of the rendered text *)

Definition txt2 (R : Z) (u : str) : str :=
  show_N (Z.to_N (R / 100)) ++ 46%N :: pad_left 2 (show_N (Z.to_N (R mod 100))) ++ u.

Lemma show_text m j :
  p52 <= m < p53 -> 43 <= j <= 52 ->
  let x := FFin false m (- j) in
  let R := div_rne (100 * m) (2 ^ j) in
  100 <= R <= 102400 /\
  ((frac_negligible x = true /\ R mod 100 = 0 /\ show_prec 0 x = show_N (Z.to_N (R / 100))) \/
   (frac_negligible x = false /\ 0 < m mod 2 ^ j /\
    show_prec 2 x = show_N (Z.to_N (R / 100)) ++ 46%N :: pad_left 2 (show_N (Z.to_N (R mod 100))))).
Proof.
  intros Hm Hj x R. unfold x.
  assert (HP : 0 < 2 ^ j) by (apply pow2_pos; lia).
  assert (H43 : 2 ^ 43 <= 2 ^ j) by (apply pow2_le; lia).
  assert (H52 : 2 ^ j <= p52) by (rewrite p52_eq; apply pow2_le; lia).
  change (2 ^ 43) with 8796093022208 in H43.
  split.
  - unfold R. split; [apply div_rne_ge_lower|apply div_rne_le_upper]; unfold p52, p53 in *; lia.
  - unfold frac_negligible.
    assert (G : (0 <=? - j) = false) by (apply Z.leb_gt; lia). rewrite G, Z.opp_involutive.
    destruct (m mod 2 ^ j * p52 <=? 2 ^ j) eqn:FN.
    + left. apply Z.leb_le in FN. destruct (negligible_div m j Hm Hj FN) as [H0 HE].
      split; [reflexivity|]. unfold R. rewrite HE. rewrite (Z.mul_comm 100).
      split; [apply Z.mod_mul; lia|]. rewrite Z.div_mul by lia.
      rewrite show_prec_0 by lia. rewrite Z.opp_involutive. reflexivity.
    + right. apply Z.leb_gt in FN. split; [reflexivity|].
      pose proof (Z.mod_pos_bound m (2 ^ j) HP) as B.
      split; [unfold p52 in *; nia|].
      rewrite show_prec_2 by lia. rewrite Z.opp_involutive, (Z.mul_comm m 100). reflexivity.
Qed.

Lemma render_shape n :
  0 < Z.of_N n < 2 ^ 64 ->
  let V := rnd53 (Z.of_N n) in
  exists (k : nat) u,
    Z.of_nat k = unit_ix V /\ (k <= 6)%nat /\ nth_error scale_binary k = Some u /\
    let R := div_rne (100 * V) (upow (Z.of_nat k)) in
    100 <= R <= 102400 /\
    ((R mod 100 = 0 /\ render n = show_N (Z.to_N (R / 100)) ++ u) \/
     ((1 <= k)%nat /\ render n = txt2 R u)).
Proof.
  intros Hn V. destruct (of_Z_spec (Z.of_N n) Hn) as (m & e & Hof & Hm & He & Hval). fold V in Hval.
  destruct (hs_format_spec n m e Hof Hm He) as (u & Hu & Hin & Hnk & Hfmt). cbv zeta in Hfmt.
  destruct (cfun_of_parts m e _ Hm He Hval) as [Hix Hdiv].
  assert (Hk : 0 <= (e + 52) / 10 <= 6) by (Z.div_mod_to_equations; lia).
  exists (Z.to_nat ((e + 52) / 10)), u.
  rewrite Z2Nat.id in * by lia.
  set (k := (e + 52) / 10) in *.
  assert (Hj : 43 <= 10 * k - e <= 52) by (unfold k; Z.div_mod_to_equations; lia).
  replace (e - 10 * k) with (- (10 * k - e)) in Hfmt by lia.
  split; [symmetry; exact Hix|]. split; [lia|]. split; [exact Hu|]. cbv zeta. rewrite <- Hdiv.
  destruct (show_text m (10 * k - e) Hm Hj) as [HR Hcase]. cbv zeta in HR, Hcase.
  split; [exact HR|].
  destruct (show_read m (10 * k - e) u (upow k) Hm Hj Hin Hnk) as [Hno _]. cbv zeta in Hno.
  unfold render. rewrite render_unfold, Hfmt. rewrite (replace_no_k _ _ Hno).
  destruct Hcase as [(FN & Hmod & Htxt)|(FN & Hfr & Htxt)]; rewrite FN; rewrite Htxt.
  - left. split; [exact Hmod|reflexivity].
  - right. split.
    + destruct (Z.eq_dec k 0) as [K0|K0]; [exfalso|lia].
      rewrite K0 in *. replace (10 * 0 - e) with (- e) in * by lia.
      assert (E : m = V * 2 ^ (- e)).
      { assert (HPe : 0 < 2 ^ (e + 52)) by (apply pow2_pos; lia).
        apply (Z.mul_reg_r _ _ (2 ^ (e + 52))); [lia|].
        rewrite Hval, <- Z.mul_assoc, <- pow2_add by lia. do 2 f_equal. lia. }
      rewrite E, Z.mod_mul in Hfr by (pose proof (pow2_pos (- e) ltac:(lia)); lia). lia.
    + unfold txt2. rewrite <- app_assoc. reflexivity.
Qed.

(* ================================================================== *)
(* 9. reading the text back with parse_filesize (units B .. TiB) *)

Lemma unit_table_parse k : (k <= 4)%nat ->
  exists u u', nth_error scale_binary k = Some u /\
    unit_multiplier u' = Some (upow (Z.of_nat k)) /\ spelling_of u' u /\
    ((1 <= k)%nat -> u' <> s "b" /\ u' <> [] /\ unit_factors u' = repeat 1024 k).
Proof.
  intros H.
  destruct k as [|[|[|[|[|k]]]]];
    [exists (s "B"), (s "b")|exists (s "KiB"), (s "kib")|exists (s "MiB"), (s "mib")
    |exists (s "GiB"), (s "gib")|exists (s "TiB"), (s "tib")|lia];
    (split; [reflexivity|split; [vm_compute; reflexivity|split; [vm_compute; reflexivity|]]]);
    intros Hk; try lia;
    (split; [intros E; vm_compute in E; discriminate E|split; [intros E; vm_compute in E; discriminate E|vm_compute; reflexivity]]).
Qed.

Lemma parse_digits_shift x : forall a,
  parse_digits a x = option_map (fun v => (a * 10 ^ N.of_nat (length x) + v)%N) (parse_digits 0 x).
Proof.
  induction x as [|c r IH]; intros a.
  - cbn [parse_digits length option_map]. f_equal. change (10 ^ N.of_nat 0)%N with 1%N. lia.
  - cbn [parse_digits]. destruct (is_digit c); [|reflexivity].
    rewrite (IH (a * 10 + (c - 48))%N), (IH (0 * 10 + (c - 48))%N).
    destruct (parse_digits 0 r) as [v|]; [|reflexivity]. cbn [option_map]. f_equal.
    cbn [length]. rewrite Nat2N.inj_succ, N.pow_succ_r'. lia.
Qed.

Lemma parse_N_number R :
  100 <= R ->
  parse_N (show_N (Z.to_N (R / 100)) ++ pad_left 2 (show_N (Z.to_N (R mod 100)))) = Some (Z.to_N R).
Proof.
  intros HR.
  assert (HRd : 0 <= R / 100) by (apply Z.div_pos; lia).
  pose proof (Z.mod_pos_bound R 100 ltac:(lia)) as HRm.
  assert (HF : (Z.to_N (R mod 100) < 100)%N) by lia.
  destruct (frac_text _ HF) as (F1 & F2 & F3).
  set (ds := show_N (Z.to_N (R / 100))). set (fs := pad_left 2 (show_N (Z.to_N (R mod 100)))) in *.
  pose proof (parse_show_N (Z.to_N (R / 100))) as HI. fold ds in HI.
  assert (Hne : ds <> []) by apply show_N_nonnil.
  unfold parse_N in *. destruct ds as [|c ds']; [congruence|]. cbn [app].
  change (c :: ds' ++ fs) with ((c :: ds') ++ fs). rewrite parse_digits_app, HI.
  rewrite parse_digits_shift, F2.
  unfold digits_val in F3. destruct (parse_digits_total fs 0%N F1) as [v Hv]. rewrite Hv in *. cbv beta iota in F3.
  cbn [option_map]. f_equal. change (10 ^ N.of_nat 2)%N with 100%N.
  pose proof (Z.div_mod R 100 ltac:(lia)). lia.
Qed.

Lemma of_Z_1024 : of_Z 1024 = FFin false p52 (-42).
Proof. vm_compute. reflexivity. Qed.

Lemma mul_1024 m e : p52 <= m < p53 -> -100 <= e <= 30 ->
  mul (FFin false m e) (of_Z 1024) = FFin false m (e + 10).
Proof.
  intros Hm He. rewrite of_Z_1024. unfold mul. cbn [xorb].
  apply round_ne_repr.
  - left. split; [exact Hm|lia].
  - rewrite shl_eq by lia. rewrite Z.mul_1_l. apply pow2_pos. lia.
  - rewrite !shl_eq by lia. unfold BIAS. rewrite p52_eq.
    rewrite (Z.max_l 0 (e + -42)) by lia. rewrite (Z.max_r 0 (- (e + -42))) by lia.
    change (2 ^ 0) with 1. rewrite Z.mul_1_r, Z.mul_1_l.
    rewrite <- !Z.mul_assoc, <- !pow2_add by lia. do 2 f_equal. lia.
Qed.

Lemma apply_factors_1024 : forall (k : nat) m e,
  p52 <= m < p53 -> -100 <= e -> e + 10 * Z.of_nat k <= 40 ->
  apply_factors (FFin false m e) (repeat 1024 k) = FFin false m (e + 10 * Z.of_nat k).
Proof.
  induction k as [|k IH]; intros m e Hm He Hk.
  - cbn [repeat]. unfold apply_factors. cbn [fold_left]. f_equal. lia.
  - cbn [repeat]. rewrite apply_factors_cons. rewrite Nat2Z.inj_succ in *. rewrite mul_1024 by lia.
    rewrite IH by lia. f_equal. lia.
Qed.

(* Every 2-decimal text "I.ff" with 1.00 <= I.ff <= 1024.00 (R = 100 * I.ff), for every
   unit KiB .. TiB: the literal is parsed to the double m * 2^e, and the value read back
   p = trunc(m * 2^(e + 10 k)) is within half a unit of the last digit + 1 byte of EVERY size
   n that is rendered as this text (|100 n - R U| <= U/2).  102301 texts, by evaluation. *)
Definition rt_bounds (R k p : Z) : bool :=
  let U := upow k in
  (0 <=? p) && (200 * p - 200 * (- ((- (2 * R * U - U)) / 200)) <=? U + 200) &&
  (200 * ((2 * R * U + U) / 200) - 200 * p <=? U + 200).

Definition rt_chk (R : Z) : bool :=
  match round_ne false R 100 with
  | FFin false m e =>
      (p52 <=? m) && (m <? p53) && (-60 <=? e) && (e <=? 0) &&
      forallb (fun k => rt_bounds R k (to_u64 (FFin false m (e + 10 * k)))) [1; 2; 3; 4]
  | _ => false
  end.

Definition rt_chk_range (x : N) : bool :=
  if (x <? 100)%N then true else if (102400 <? x)%N then true else rt_chk (Z.of_N x).
