(* C. The Boolean level of the WHERE grammar through the model of the real parser:
   parse_expr / expr_loop (OR), parse_and / and_loop (AND), parse_cond / cond_nots / cond_body
   (prefix NOT, comparison atoms, brackets via parse_paren).

   Formulas: comparison atoms `column OP digits`, AND, OR, prefix NOT, explicit brackets.
   `render_b lvl F` prints with minimal brackets (0 = OR, 1 = AND, 2 = one cond), AND binding
   tighter than OR, NOT applying to one cond (an atom, another NOT, or a bracketed formula).

   Main theorem `bool_roundtrip`: parse_expr on pre ++ render_b 0 F ++ post from |pre| returns
   an expression e at |pre| + |render_b 0 F| whose meaning under `esem` (Searcher::conforms:
   And/Or with the short-circuit, comparison atoms by an oracle) is the textbook denotation
   of F -- provided the oracle satisfies  asem f (Op_negate o) lit = negb (asem f o lit),
   because the parser pushes NOT to the atoms (negate_expr_op, And/Or swapped).
   The tree shape is not the textbook one (`a or b or c` becomes a or (b or c), and
   `a or b or c or d` becomes a or ((b or c) or d)); only the meaning is claimed. *)
From Coq Require Import String List NArith Bool Arith Lia.
From FS Require Import lib.Str lib.Res lib.Dec gen.OpsGen gen.FieldGen gen.FuncGen
  model.Show model.Lexer model.Expr model.Parser proofs.DisplayProofs proofs.ParserEqs proofs.ArithRoundtrip.
Import ListNotations.
Open Scope nat_scope.

Inductive form :=
| FAtom (f : Field) (o : Op) (lit : str)
| FAnd (a b : form)
| FOr (a b : form)
| FNot (a : form)
| FParen (a : form).

Definition op_ok (o : Op) : bool := match o with OpBetween | OpNotBetween => false | _ => true end.

Definition op_text (o : Op) : str :=
  match o with
  | OpEq => s "=" | OpNe => s "!=" | OpEeq => s "===" | OpEne => s "!==" | OpGt => s ">" | OpGte => s ">="
  | OpLt => s "<" | OpLte => s "<=" | OpRx => s "=~" | OpNotRx => s "!=~" | OpLike => s "like" | OpNotLike => s "notlike"
  | OpBetween | OpNotBetween => s "between"
  end.

Lemma op_text_ok o : op_ok o = true ->
  Op_from_with_not (op_text o) false = Some o /\ str_eqb (ascii_lower (op_text o)) (s "between") = false.
Proof. destruct o; intros H; try discriminate H; split; vm_compute; reflexivity. Qed.

Fixpoint wf_b (F : form) : Prop :=
  match F with
  | FAtom _ o lit => op_ok o = true /\ lit <> [] /\ forallb is_digit lit = true
  | FAnd a b | FOr a b => wf_b a /\ wf_b b
  | FNot a | FParen a => wf_b a
  end.

Definition atom_toks (f : Field) (o : Op) (lit : str) : list lexem :=
  [RawString (field_key f); Operator (op_text o); RawString lit].

Fixpoint render_b (lvl : nat) (F : form) : list lexem :=
  match F with
  | FAtom f o lit => atom_toks f o lit
  | FNot a => [Not] ++ render_b 2 a
  | FParen a => [Open] ++ render_b 0 a ++ [Close]
  | FAnd a b =>
      let body := render_b 1 a ++ [And] ++ render_b 2 b in
      if lvl <=? 1 then body else [Open] ++ body ++ [Close]
  | FOr a b =>
      let body := render_b 0 a ++ [Or] ++ render_b 1 b in
      if lvl <=? 0 then body else [Open] ++ body ++ [Close]
  end.

(* the expressions the Boolean level builds *)
Inductive bexp : expr -> Prop :=
| bexp_atom f o lit : bexp (Expr_op (Expr_field f) o (Expr_value lit))
| bexp_log l lo r : bexp l -> bexp r -> bexp (Expr_logical_op l lo r).

Lemma cond_post_bexp st neg e : bexp e ->
  cond_post st neg (ROk (Some e)) = ROk (Some (if neg then negate_expr_op e else e)).
Proof. intros H. destruct H; destruct neg; reflexivity. Qed.

Lemma bexp_negate e : bexp e -> bexp (negate_expr_op e).
Proof.
  induction 1 as [f o lit|l lo r Hl IHl Hr IHr].
  - change (negate_expr_op (Expr_op (Expr_field f) o (Expr_value lit))) with (Expr_op (Expr_field f) (Op_negate o) (Expr_value lit)). constructor.
  - change (negate_expr_op (Expr_logical_op l lo r)) with (Expr_logical_op (negate_expr_op l) (negate_logical lo) (negate_expr_op r)).
    now constructor.
Qed.

Section Sem.
Variable asem : Field -> Op -> str -> bool.            (* truth of `column OP literal` for the entry at hand *)
Hypothesis asem_negate : forall f o lit, asem f (Op_negate o) lit = negb (asem f o lit).

Fixpoint denote (F : form) : bool :=
  match F with
  | FAtom f o lit => asem f o lit
  | FAnd a b => denote a && denote b
  | FOr a b => denote a || denote b
  | FNot a => negb (denote a)
  | FParen a => denote a
  end.

(* Searcher::conforms on the logical skeleton *)
Fixpoint esem (e : expr) : bool :=
  match e with
  | mkExpr l _ lo o r _ _ _ _ _ =>
      match lo with
      | Some LAnd =>
          let lr := match l with Some x => esem x | None => false end in
          if negb lr then false else lr && match r with Some y => esem y | None => false end
      | Some LOr =>
          let lr := match l with Some x => esem x | None => false end in
          if lr then true else lr || match r with Some y => esem y | None => false end
      | None =>
          match o with
          | Some op =>
              match l, r with
              | Some le, Some re =>
                  match e_field le, e_val re with Some f, Some v => asem f op v | _, _ => false end
              | _, _ => false
              end
          | None => false
          end
      end
  end.

Lemma esem_and l r : esem (Expr_logical_op l LAnd r) = esem l && esem r.
Proof. cbn [esem Expr_logical_op]. destruct (esem l); reflexivity. Qed.
Lemma esem_or l r : esem (Expr_logical_op l LOr r) = esem l || esem r.
Proof. cbn [esem Expr_logical_op]. destruct (esem l); reflexivity. Qed.
Lemma esem_atom f o lit : esem (Expr_op (Expr_field f) o (Expr_value lit)) = asem f o lit.
Proof. reflexivity. Qed.

(* De Morgan, on expressions *)
Lemma esem_negate e : bexp e -> esem (negate_expr_op e) = negb (esem e).
Proof.
  induction 1 as [f o lit|l lo r Hl IHl Hr IHr].
  - change (negate_expr_op (Expr_op (Expr_field f) o (Expr_value lit))) with (Expr_op (Expr_field f) (Op_negate o) (Expr_value lit)).
    rewrite !esem_atom. apply asem_negate.
  - change (negate_expr_op (Expr_logical_op l lo r)) with (Expr_logical_op (negate_expr_op l) (negate_logical lo) (negate_expr_op r)).
    destruct lo; cbn [negate_logical]; rewrite ?esem_and, ?esem_or, IHl, IHr.
    + now rewrite negb_andb.
    + now rewrite negb_orb.
Qed.

(* ---------- single steps ---------- *)
Definition acc (o : LogicalOp) (rgt : option expr) (e' : expr) : option expr :=
  Some (match rgt with Some r => Expr_logical_op r o e' | None => e' end).

Lemma and_loop_step T m lft rgt i rp wp e' st' : nth_error T i = Some And ->
  parse_cond T m (mkPS (S i) rp wp) = Ok (ROk (Some e'), st') ->
  and_loop T (S m) lft rgt (mkPS i rp wp) = and_loop T m lft (acc LAnd rgt e') st'.
Proof.
  intros H Hp. rewrite and_loop_S, bind_next, H. cbv iota. rewrite (try_ok _ _ _ _ _ Hp). destruct rgt; reflexivity.
Qed.
Lemma expr_loop_step T m lft rgt i rp wp e' st' : nth_error T i = Some Or ->
  parse_and T m (mkPS (S i) rp wp) = Ok (ROk (Some e'), st') ->
  expr_loop T (S m) lft rgt (mkPS i rp wp) = expr_loop T m lft (acc LOr rgt e') st'.
Proof.
  intros H Hp. rewrite expr_loop_S, bind_next, H. cbv iota. rewrite (try_ok _ _ _ _ _ Hp). destruct rgt; reflexivity.
Qed.

Lemma cond_nots_not T k neg i rp wp : nth_error T i = Some Not ->
  cond_nots T (S k) neg (mkPS i rp wp) = cond_nots T k (negb neg) (mkPS (S i) rp wp).
Proof. intros H. rewrite cond_nots_S, bind_next, H. reflexivity. Qed.

(* a comparison: left operand, operator token, right operand *)
Lemma cond_body_cmp T k neg i i1 j rp wp x l r o :
  parse_add_sub T k (mkPS i rp wp) = Ok (ROk (Some l), mkPS i1 rp wp) ->
  nth_error T i1 = Some (Operator x) -> str_eqb (ascii_lower x) (s "between") = false ->
  parse_add_sub T k (mkPS (S i1) rp wp) = Ok (ROk (Some r), mkPS j rp wp) ->
  Op_from_with_not x false = Some o ->
  cond_body T (S k) neg (mkPS i rp wp) = Ok (cond_post (mkPS j rp wp) neg (ROk (Some (Expr_op l o r))), mkPS j rp wp).
Proof.
  intros H H1 Hb H2 Ho. rewrite cond_body_S, (bind_ok _ _ _ _ _ H). cbv iota beta. rewrite bind_next, H1.
  mstep. rewrite H1. cbv iota. rewrite Hb. rewrite H2. cbv iota. rewrite Ho. reflexivity.
Qed.

(* a bracket seen from parse_add_sub *)
Lemma add_sub_of_paren T k i j rp wp r : nth_error T i = Some Open ->
  parse_expr T k (mkPS (S i) rp wp) = Ok (ROk r, mkPS j rp wp) -> nth_error T j = Some Close ->
  noop_tok (nth_error T (S j)) ->
  parse_add_sub T (S (S (S k))) (mkPS i rp wp) = Ok (ROk r, mkPS (S j) rp wp).
Proof.
  intros H He Hc Hn.
  assert (Hm : parse_mul_div T (S (S k)) (mkPS i rp wp) = Ok (ROk r, mkPS (S j) rp wp)).
  { rewrite parse_mul_div_S, (try_ok _ _ _ _ _ (paren_open T k i j rp wp _ H He Hc)).
    apply mul_loop_stop. now apply noop_nomul. }
  rewrite parse_add_sub_S, (try_ok _ _ _ _ _ Hm). apply add_loop_stop. now apply noop_noadd.
Qed.

(* ---------- stop tokens ---------- *)
Definition cond_stop (t : option lexem) : Prop :=
  match t with Some Not | Some (Operator _) | Some (ArithmeticOperator _) => False | _ => True end.
Definition and_stop (t : option lexem) : Prop :=
  match t with Some Not | Some (Operator _) | Some (ArithmeticOperator _) | Some And => False | _ => True end.
Definition or_stop (t : option lexem) : Prop :=
  match t with Some Not | Some (Operator _) | Some (ArithmeticOperator _) | Some And | Some Or => False | _ => True end.
Lemma or_and_stop t : or_stop t -> and_stop t. Proof. destruct t as [[]|]; cbn; tauto. Qed.
Lemma and_cond_stop t : and_stop t -> cond_stop t. Proof. destruct t as [[]|]; cbn; tauto. Qed.
Lemma cond_stop_noop t : cond_stop t -> noop_tok t. Proof. destruct t as [[]|]; cbn; tauto. Qed.
Lemma cond_stop_plain t : cond_stop t -> plain_tok t. Proof. destruct t as [[]|]; cbn; tauto. Qed.

Definition optsem (unit : bool) (rgt : option expr) : bool := match rgt with Some r => esem r | None => unit end.
Definition optbexp (rgt : option expr) : Prop := match rgt with Some r => bexp r | None => True end.

(* ---------- what each level promises for a formula, in every context ---------- *)
Definition CondOK (F : form) := forall T pre post i j rp wp neg,
  T = pre ++ render_b 2 F ++ post -> i = length pre -> j = length pre + length (render_b 2 F) ->
  cond_stop (hd_error post) ->
  exists N e, bexp e /\ esem e = xorb neg (denote F) /\ forall n, N <= n ->
  cond_nots T n neg (mkPS i rp wp) = Ok (ROk (Some e), mkPS j rp wp).

Definition AndChain (F : form) := forall T pre post i j rp wp,
  T = pre ++ render_b 1 F ++ post -> i = length pre -> j = length pre + length (render_b 1 F) ->
  cond_stop (hd_error post) ->
  exists N c l rgt, bexp l /\ optbexp rgt /\ esem l && optsem true rgt = denote F /\ forall n, N <= n ->
  tryM (parse_cond T n) (fun lft => and_loop T n lft None) (mkPS i rp wp)
  = and_loop T (n - c) (Some l) rgt (mkPS j rp wp).

Definition AndOK (F : form) := forall T pre post i j rp wp,
  T = pre ++ render_b 1 F ++ post -> i = length pre -> j = length pre + length (render_b 1 F) ->
  and_stop (hd_error post) ->
  exists N e, bexp e /\ esem e = denote F /\ forall n, N <= n ->
  parse_and T n (mkPS i rp wp) = Ok (ROk (Some e), mkPS j rp wp).

Definition OrChain (F : form) := forall T pre post i j rp wp,
  T = pre ++ render_b 0 F ++ post -> i = length pre -> j = length pre + length (render_b 0 F) ->
  and_stop (hd_error post) ->
  exists N c l rgt, bexp l /\ optbexp rgt /\ esem l || optsem false rgt = denote F /\ forall n, N <= n ->
  tryM (parse_and T n) (fun lft => expr_loop T n lft None) (mkPS i rp wp)
  = expr_loop T (n - c) (Some l) rgt (mkPS j rp wp).

Definition OrOK (F : form) := forall T pre post i j rp wp,
  T = pre ++ render_b 0 F ++ post -> i = length pre -> j = length pre + length (render_b 0 F) ->
  or_stop (hd_error post) ->
  exists N e, bexp e /\ esem e = denote F /\ forall n, N <= n ->
  parse_expr T n (mkPS i rp wp) = Ok (ROk (Some e), mkPS j rp wp).

Lemma logic_bexp o l rgt : bexp l -> optbexp rgt -> bexp (logic_of o l rgt).
Proof. intros Hl Hr. destruct rgt; cbn in *; [now constructor|exact Hl]. Qed.

Lemma andchain_andok F : AndChain F -> AndOK F.
Proof.
  intros H T pre post i j rp wp HT Hi Hj Hp.
  destruct (H T pre post i j rp wp HT Hi Hj (and_cond_stop _ Hp)) as (N & c & l & rgt & Bl & Br & Hs & HN).
  exists (S (N + c + 1)), (logic_of LAnd l rgt). split; [now apply logic_bexp|]. split.
  - rewrite <- Hs. destruct rgt; cbn [logic_of optsem]; [apply esem_and|now rewrite andb_true_r].
  - intros n Hn. destruct n as [|n]; [lia|].
    rewrite parse_and_S, (HN n ltac:(lia)). replace (n - c) with (S (n - c - 1)) by lia.
    apply and_loop_stop. subst T j. rewrite nth_post. intros E. rewrite E in Hp. exact Hp.
Qed.

Lemma orchain_orok F : OrChain F -> OrOK F.
Proof.
  intros H T pre post i j rp wp HT Hi Hj Hp.
  destruct (H T pre post i j rp wp HT Hi Hj (or_and_stop _ Hp)) as (N & c & l & rgt & Bl & Br & Hs & HN).
  exists (S (N + c + 1)), (logic_of LOr l rgt). split; [now apply logic_bexp|]. split.
  - rewrite <- Hs. destruct rgt; cbn [logic_of optsem]; [apply esem_or|now rewrite orb_false_r].
  - intros n Hn. destruct n as [|n]; [lia|].
    rewrite parse_expr_S, (HN n ltac:(lia)). replace (n - c) with (S (n - c - 1)) by lia.
    apply expr_loop_stop. subst T j. rewrite nth_post. intros E. rewrite E in Hp. exact Hp.
Qed.

(* a formula that is a single cond is a one-element AND chain; a single AND chain is a one-element OR chain *)
Lemma cond_andchain F : render_b 1 F = render_b 2 F -> CondOK F -> AndChain F.
Proof.
  intros E A T pre post i j rp wp HT Hi Hj Hp. rewrite E in HT, Hj.
  destruct (A T pre post i j rp wp false HT Hi Hj Hp) as (N & e & Be & Hs & HN).
  exists (S N), 0, e, None. split; [exact Be|]. split; [exact I|]. split; [cbn [optsem]; rewrite Hs, xorb_false_l; now rewrite andb_true_r|].
  intros n Hn. destruct n as [|n]; [lia|].
  assert (Hc : parse_cond T (S n) (mkPS i rp wp) = Ok (ROk (Some e), mkPS j rp wp)) by (rewrite parse_cond_S; apply HN; lia).
  rewrite (try_ok _ _ _ _ _ Hc), Nat.sub_0_r. reflexivity.
Qed.

Lemma and_orchain F : render_b 0 F = render_b 1 F -> AndOK F -> OrChain F.
Proof.
  intros E A T pre post i j rp wp HT Hi Hj Hp. rewrite E in HT, Hj.
  destruct (A T pre post i j rp wp HT Hi Hj Hp) as (N & e & Be & Hs & HN).
  exists N, 0, e, None. split; [exact Be|]. split; [exact I|]. split; [cbn [optsem]; rewrite Hs; now rewrite orb_false_r|].
  intros n Hn. rewrite (try_ok _ _ _ _ _ (HN n Hn)), Nat.sub_0_r. reflexivity.
Qed.

Lemma xorb_neg_sem (neg : bool) e : bexp e -> esem (if neg then negate_expr_op e else e) = xorb neg (esem e).
Proof. intros H. destruct neg; [rewrite (esem_negate e H)|]; destruct (esem e); reflexivity. Qed.

(* a bracketed formula is a cond *)
Lemma paren_cond F G : render_b 2 F = [Open] ++ render_b 0 G ++ [Close] -> denote F = denote G -> OrOK G -> CondOK F.
Proof.
  intros Hr Hd HO T pre post i j rp wp neg HT Hi Hj Hp. rewrite Hr in HT, Hj.
  assert (HT' : T = (pre ++ [Open]) ++ render_b 0 G ++ Close :: post) by side.
  assert (Hj' : j = S (length (pre ++ [Open]) + length (render_b 0 G))) by side.
  destruct (HO T (pre ++ [Open]) (Close :: post) (S i) (length (pre ++ [Open]) + length (render_b 0 G)) rp wp HT' ltac:(side) eq_refl I)
    as (N & e & Be & Hs & HN).
  exists (S (S (S (S (S N))))), (if neg then negate_expr_op e else e).
  split; [destruct neg; [now apply bexp_negate|exact Be]|]. split; [rewrite (xorb_neg_sem neg e Be), Hs, Hd; reflexivity|].
  intros n Hn. do 5 (destruct n as [|n]; [lia|]).
  assert (F1 : nth_error T i = Some Open) by (apply (nth_split T pre Open (render_b 0 G ++ Close :: post)); side).
  assert (F3 : nth_error T (length (pre ++ [Open]) + length (render_b 0 G)) = Some Close)
    by (rewrite (nth_split_post T _ _ _ _ HT' eq_refl); reflexivity).
  assert (F4 : nth_error T j = hd_error post).
  { apply (nth_split_post T (pre ++ [Open] ++ render_b 0 G ++ [Close]) [] post); side. }
  assert (HA : parse_add_sub T (S (S (S n))) (mkPS i rp wp) = Ok (ROk (Some e), mkPS j rp wp)).
  { rewrite Hj'. apply add_sub_of_paren; [exact F1|apply HN; lia|exact F3|]. rewrite <- Hj', F4. now apply cond_stop_noop. }
  rewrite (cond_nots_plain T _ neg i rp wp) by (rewrite F1; discriminate).
  rewrite (cond_body_plain T _ neg i j rp wp e HA) by (rewrite F4; now apply cond_stop_plain).
  rewrite (cond_post_bexp _ neg e Be). reflexivity.
Qed.

Theorem roundtrip_b : forall F, wf_b F -> CondOK F /\ AndChain F /\ OrChain F.
Proof.
  assert (cond_all : forall F, render_b 1 F = render_b 2 F -> render_b 0 F = render_b 1 F -> CondOK F -> CondOK F /\ AndChain F /\ OrChain F).
  { intros F E1 E0 C. pose proof (cond_andchain F E1 C) as AC. split; [exact C|split; [exact AC|]].
    apply and_orchain; [exact E0|apply andchain_andok; exact AC]. }
  induction F as [f o lit|a IHa b IHb|a IHa b IHb|a IHa|a IHa]; intros Hwf.
  - (* atom *)
    apply cond_all; [reflexivity|reflexivity|]. destruct Hwf as (Hop & Hne & Hd).
    destruct (op_text_ok o Hop) as [Hfrom Hbtw].
    intros T pre post i j rp wp neg HT Hi Hj Hp. cbn [render_b] in HT, Hj. unfold atom_toks in HT, Hj.
    destruct (arith_roundtrip (ACol false f) pre (Operator (op_text o) :: RawString lit :: post) rp wp I I) as (N1 & H1).
    destruct (arith_roundtrip (ANum false lit) (pre ++ [RawString (field_key f); Operator (op_text o)]) post rp wp (conj Hne Hd)) as (N2 & H2).
    { destruct post as [|[] ?]; cbn in *; tauto. }
    pose (e := Expr_op (Expr_field f) o (Expr_value lit)).
    exists (S (S (N1 + N2))), (if neg then negate_expr_op e else e).
    split; [destruct neg; [apply bexp_negate|]; constructor|]. split; [rewrite (xorb_neg_sem neg e (bexp_atom f o lit)); reflexivity|].
    intros n Hn. do 2 (destruct n as [|n]; [lia|]).
    specialize (H1 n ltac:(lia)). specialize (H2 n ltac:(lia)).
    cbn [render minus_tok app length] in H1, H2.
    replace (pre ++ RawString (field_key f) :: Operator (op_text o) :: RawString lit :: post) with T in H1 by side.
    replace ((pre ++ [RawString (field_key f); Operator (op_text o)]) ++ RawString lit :: post) with T in H2 by side.
    replace (length pre) with i in H1 by side.
    replace (length (pre ++ [RawString (field_key f); Operator (op_text o)])) with (S (S i)) in H2 by side.
    replace (S (S i) + 1) with j in H2 by side.
    assert (F0 : nth_error T i = Some (RawString (field_key f))) by (apply (nth_split T pre _ (Operator (op_text o) :: RawString lit :: post)); side).
    assert (F1 : nth_error T (i + 1) = Some (Operator (op_text o))) by (apply (nth_split T (pre ++ [RawString (field_key f)]) _ (RawString lit :: post)); side).
    rewrite (cond_nots_plain T _ neg i rp wp) by (rewrite F0; discriminate).
    replace (S (S i)) with (S (i + 1)) in H2 by lia.
    rewrite (cond_body_cmp T n neg i (i + 1) j rp wp (op_text o) _ _ o H1 F1 Hbtw H2 Hfrom).
    change (embed (ACol false f)) with (Expr_field f). change (embed (ANum false lit)) with (Expr_value lit).
    rewrite (cond_post_bexp _ neg _ (bexp_atom f o lit)). reflexivity.
  - (* AND *)
    destruct Hwf as [Hwa Hwb].
    destruct (IHa Hwa) as (IHa_c & IHa_and & IHa_or). destruct (IHb Hwb) as (IHb_c & IHb_and & IHb_or).
    assert (AC : AndChain (FAnd a b)).
    { intros T pre post i j rp wp HT Hi Hj Hp. cbn [render_b Nat.leb] in HT, Hj.
      destruct (IHa_and T pre ([And] ++ render_b 2 b ++ post) i (length pre + length (render_b 1 a)) rp wp ltac:(side) Hi eq_refl I)
        as (N1 & c1 & l & rgt & Bl & Br & Hs & H1).
      destruct (IHb_c T (pre ++ render_b 1 a ++ [And]) post (S (length pre + length (render_b 1 a))) j rp wp false
                  ltac:(side) ltac:(side) ltac:(side) Hp) as (N2 & e & Be & Hse & H2).
      exists (N1 + c1 + N2 + 2), (c1 + 1), l, (acc LAnd rgt e).
      split; [exact Bl|]. split; [destruct rgt; cbn in *; [now constructor|exact Be]|]. split.
      { cbn [denote]. rewrite <- Hs. rewrite xorb_false_l in Hse. destruct rgt; cbn [acc optsem]; rewrite ?esem_and, Hse.
        - now rewrite andb_assoc.
        - now rewrite andb_true_r. }
      intros n Hn. rewrite (H1 n ltac:(lia)). replace (n - c1) with (S (n - (c1 + 1))) by lia.
      apply (and_loop_step T _ _ _ _ rp wp).
      - rewrite (nth_split_post T pre (render_b 1 a) ([And] ++ render_b 2 b ++ post) _ ltac:(side) eq_refl). reflexivity.
      - replace (n - (c1 + 1)) with (S (n - (c1 + 2))) by lia. rewrite parse_cond_S. apply H2. lia. }
    assert (AO := andchain_andok _ AC).
    assert (OC : OrChain (FAnd a b)) by (apply and_orchain; [reflexivity|exact AO]).
    split; [|split; [exact AC|exact OC]].
    apply (paren_cond (FAnd a b) (FAnd a b)); [reflexivity|reflexivity|apply orchain_orok; exact OC].
  - (* OR *)
    destruct Hwf as [Hwa Hwb].
    destruct (IHa Hwa) as (IHa_c & IHa_and & IHa_or). destruct (IHb Hwb) as (IHb_c & IHb_and & IHb_or).
    assert (OC : OrChain (FOr a b)).
    { intros T pre post i j rp wp HT Hi Hj Hp. cbn [render_b Nat.leb] in HT, Hj.
      destruct (IHa_or T pre ([Or] ++ render_b 1 b ++ post) i (length pre + length (render_b 0 a)) rp wp ltac:(side) Hi eq_refl I)
        as (N1 & c1 & l & rgt & Bl & Br & Hs & H1).
      destruct (andchain_andok _ IHb_and T (pre ++ render_b 0 a ++ [Or]) post (S (length pre + length (render_b 0 a))) j rp wp
                  ltac:(side) ltac:(side) ltac:(side) Hp) as (N2 & e & Be & Hse & H2).
      exists (N1 + c1 + N2 + 2), (c1 + 1), l, (acc LOr rgt e).
      split; [exact Bl|]. split; [destruct rgt; cbn in *; [now constructor|exact Be]|]. split.
      { cbn [denote]. rewrite <- Hs. destruct rgt; cbn [acc optsem]; rewrite ?esem_or, Hse.
        - now rewrite orb_assoc.
        - now rewrite orb_false_r. }
      intros n Hn. rewrite (H1 n ltac:(lia)). replace (n - c1) with (S (n - (c1 + 1))) by lia.
      apply (expr_loop_step T _ _ _ _ rp wp).
      - rewrite (nth_split_post T pre (render_b 0 a) ([Or] ++ render_b 1 b ++ post) _ ltac:(side) eq_refl). reflexivity.
      - apply H2. lia. }
    assert (OO := orchain_orok _ OC).
    assert (C : CondOK (FOr a b)) by (apply (paren_cond (FOr a b) (FOr a b)); [reflexivity|reflexivity|exact OO]).
    split; [exact C|split; [|exact OC]]. apply cond_andchain; [reflexivity|exact C].
  - (* NOT *)
    destruct (IHa Hwf) as (IHa_c & _ & _).
    apply cond_all; [reflexivity|reflexivity|].
    intros T pre post i j rp wp neg HT Hi Hj Hp. cbn [render_b] in HT, Hj.
    destruct (IHa_c T (pre ++ [Not]) post (S i) j rp wp (negb neg) ltac:(side) ltac:(side) ltac:(side) Hp) as (N & e & Be & Hs & HN).
    exists (S N), e. split; [exact Be|]. split; [rewrite Hs; cbn [denote]; destruct neg, (denote a); reflexivity|].
    intros n Hn. destruct n as [|n]; [lia|].
    assert (F0 : nth_error T i = Some Not) by (apply (nth_split T pre _ (render_b 2 a ++ post)); side).
    rewrite (cond_nots_not T n neg i rp wp F0). apply HN. lia.
  - (* explicit brackets *)
    destruct (IHa Hwf) as (_ & _ & IHa_or).
    apply cond_all; [reflexivity|reflexivity|].
    apply (paren_cond (FParen a) a); [reflexivity|reflexivity|apply orchain_orok; exact IHa_or].
Qed.

Definition post_ok_b (post : list lexem) : Prop := or_stop (hd_error post).

Theorem bool_roundtrip_sem : forall F pre post rp wp, wf_b F -> post_ok_b post ->
  exists N e, (forall n, N <= n ->
      parse_expr (pre ++ render_b 0 F ++ post) n (mkPS (length pre) rp wp)
      = Ok (ROk (Some e), mkPS (length pre + length (render_b 0 F)) rp wp))
    /\ esem e = denote F.
Proof.
  intros F pre post rp wp Hwf Hp. destruct (roundtrip_b F Hwf) as (_ & _ & OC).
  destruct (orchain_orok _ OC _ pre post _ _ rp wp eq_refl eq_refl eq_refl Hp) as (N & e & _ & Hs & HN).
  exists N, e. split; [exact HN|exact Hs].
Qed.
End Sem.

(* the statement outside the section: for every oracle under which negating the operator of an
   atom complements it *)
Theorem bool_roundtrip : forall (asem : Field -> Op -> str -> bool),
  (forall f o lit, asem f (Op_negate o) lit = negb (asem f o lit)) ->
  forall F pre post rp wp, wf_b F -> post_ok_b post ->
  exists N e, (forall n, N <= n ->
      parse_expr (pre ++ render_b 0 F ++ post) n (mkPS (length pre) rp wp)
      = Ok (ROk (Some e), mkPS (length pre + length (render_b 0 F)) rp wp))
    /\ esem asem e = denote asem F.
Proof. exact bool_roundtrip_sem. Qed.

Print Assumptions bool_roundtrip.
