(* The round-trip theorems B and C with the fuel the model itself computes (pfuel), obtained
   from "large fuel works" (ArithRoundtrip / BoolRoundtrip), "pfuel never runs out"
   (ParserTotal) and fuel monotonicity (FuelMono). *)
From Coq Require Import String List NArith Bool Arith Lia.
From FS Require Import lib.Str lib.Res lib.Dec gen.OpsGen gen.FieldGen gen.FuncGen
  model.Show model.Lexer model.Expr model.Parser proofs.DisplayProofs proofs.ParserEqs
  proofs.ArithRoundtrip proofs.BoolRoundtrip proofs.ParserTotal proofs.FuelMono.
Import ListNotations.
Open Scope nat_scope.

Lemma settle {A} (f : nat -> M A) (k : nat) st (r : A * pstate) :
  (forall k k', k <= k' -> le (f k) (f k')) -> f k st <> OutOfFuel ->
  (exists N, forall n, N <= n -> f n st = Ok r) -> f k st = Ok r.
Proof.
  intros Hmono Hk [N HN]. rewrite <- (Hmono k (Nat.max k N) (Nat.le_max_l _ _) st Hk). apply HN. lia.
Qed.

Theorem arith_roundtrip_pfuel : forall a pre post rp wp, wf a -> post_ok post ->
  let T := pre ++ render 0 a ++ post in
  parse_add_sub T (pfuel T) (mkPS (length pre) rp wp)
  = Ok (ROk (Some (embed a)), mkPS (length pre + length (render 0 a)) rp wp).
Proof.
  intros a pre post rp wp Hwf Hp T.
  apply (settle (parse_add_sub T)); [apply parse_add_sub_mono| |apply arith_roundtrip; assumption].
  pose proof (a_add T _ (all_k T (pfuel T)) (mkPS (length pre) rp wp)) as H.
  unfold ParserTotal.wp in H. intros E. rewrite E in H. apply H. unfold need, rem, pfuel. cbn [idx]. lia.
Qed.

Theorem bool_roundtrip_pfuel : forall (asem : Field -> Op -> str -> bool),
  (forall f o lit, asem f (Op_negate o) lit = negb (asem f o lit)) ->
  forall F pre post rp wp, wf_b F -> post_ok_b post ->
  let T := pre ++ render_b 0 F ++ post in
  exists e, parse_expr_top T (mkPS (length pre) rp wp) = Ok (ROk (Some e), mkPS (length pre + length (render_b 0 F)) rp wp)
            /\ esem asem e = denote asem F.
Proof.
  intros asem Hneg F pre post rp wp Hwf Hp T.
  destruct (bool_roundtrip asem Hneg F pre post rp wp Hwf Hp) as (N & e & HN & Hs).
  exists e. split; [|exact Hs]. unfold parse_expr_top.
  apply (settle (parse_expr T)); [apply parse_expr_mono| |exists N; exact HN].
  pose proof (a_expr T _ (all_k T (pfuel T)) (mkPS (length pre) rp wp)) as H.
  unfold ParserTotal.wp in H. intros E. rewrite E in H. apply H. unfold need, rem, pfuel. cbn [idx]. lia.
Qed.

Print Assumptions arith_roundtrip_pfuel.
Print Assumptions bool_roundtrip_pfuel.
