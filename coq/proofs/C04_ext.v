(* C04 — the extension-class columns: has_extension as regenerated from util/mod.rs. *)
From Coq Require Import List NArith Bool.
From FS Require Import lib.Str gen.ExtGen.
Import ListNotations.

Lemma ext_class_spec (name : str) (exts : list str) :
  has_extension name exts = true <-> exists e r, In e exts /\ ascii_lower name = r ++ e.
Proof.
  unfold has_extension. rewrite existsb_exists. split.
  - intros [e [Hin H]]. apply ends_with_spec in H. destruct H as [r Hr]. exists e, r. split; assumption.
  - intros [e [r [Hin Hr]]]. exists e. split; [assumption|]. apply ends_with_spec. exists r. exact Hr.
Qed.

Lemma ext_class_case (name : str) (exts : list str) : has_extension (ascii_lower name) exts = has_extension name exts.
Proof. unfold has_extension. now rewrite ascii_lower_idem. Qed.

Definition lists_lowercase : bool := forallb (fun l => forallb (fun e => str_eqb (ascii_lower e) e) (snd l)) default_lists.
Lemma default_lists_lowercase : lists_lowercase = true.
Proof. vm_compute. reflexivity. Qed.
