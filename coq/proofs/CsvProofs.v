(* CSV: the RFC 4180 decoder inverts the csv-crate writer for every table whose rows have at
   least one column, whatever the values contain (quotes, commas, CR, LF, anything). *)
From Coq Require Import String List NArith Bool Lia.
From FS Require Import lib.Str model.Format model.Decode proofs.Common proofs.Demo.
Import ListNotations.
Open Scope N_scope.

Definition cstart (st : cst) : Prop := st = CRec \/ st = CFld.

(* what the decoder does with a completed field [v] on the terminator [t] (comma or LF) *)
Definition fend (t : N) (v : str) (rec : list str) (recs : list (list str)) (r : str) :=
  if t =? 44 then cgo CFld [] (v :: rec) recs r
  else cgo CRec [] [] (rev (v :: rec) :: recs) r.

Definition fterm (t : N) : Prop := t = 44 \/ t = 10.

Lemma csv_special_false c :
  csv_special c = false ->
  (c =? 34) = false /\ (c =? 44) = false /\ (c =? 10) = false /\ (c =? 13) = false.
Proof.
  unfold csv_special. intros H.
  apply orb_false_elim in H. destruct H as [H H13].
  apply orb_false_elim in H. destruct H as [H H10].
  apply orb_false_elim in H. destruct H as [H34 H44]. auto.
Qed.

(* ---- single steps ---- *)

Lemma c_unq_plain cur rec recs c r : csv_special c = false ->
  cgo CUnq cur rec recs (c :: r) = cgo CUnq (c :: cur) rec recs r.
Proof.
  intros H. apply csv_special_false in H. destruct H as (H34 & H44 & H10 & H13).
  cbn [cgo]. rewrite H34, H44, H10, H13. reflexivity.
Qed.

Lemma c_start_plain st rec recs c r : cstart st -> csv_special c = false ->
  cgo st [] rec recs (c :: r) = cgo CUnq [c] rec recs r.
Proof.
  intros Hst H. apply csv_special_false in H. destruct H as (H34 & H44 & H10 & H13).
  destruct Hst as [Hst|Hst]; subst st; cbn [cgo]; rewrite H34, H44, H10, H13; reflexivity.
Qed.

Lemma c_start_quote st rec recs r : cstart st ->
  cgo st [] rec recs (34 :: r) = cgo CQuo [] rec recs r.
Proof. intros [Hst|Hst]; subst st; reflexivity. Qed.

Lemma c_start_term st rec recs t r : cstart st -> fterm t ->
  cgo st [] rec recs (t :: r) = fend t [] rec recs r.
Proof. intros [Hst|Hst] [Ht|Ht]; subst st t; reflexivity. Qed.

Lemma c_unq_term cur rec recs t r : fterm t ->
  cgo CUnq cur rec recs (t :: r) = fend t (rev cur) rec recs r.
Proof. intros [Ht|Ht]; subst t; reflexivity. Qed.

Lemma c_qq_term cur rec recs t r : fterm t ->
  cgo CQQ cur rec recs (t :: r) = fend t (rev cur) rec recs r.
Proof. intros [Ht|Ht]; subst t; reflexivity. Qed.

Lemma c_quo_close cur rec recs r : cgo CQuo cur rec recs (34 :: r) = cgo CQQ cur rec recs r.
Proof. reflexivity. Qed.

Lemma c_quo_qq cur rec recs r :
  cgo CQuo cur rec recs (34 :: 34 :: r) = cgo CQuo (34 :: cur) rec recs r.
Proof. reflexivity. Qed.

Lemma c_quo_plain cur rec recs c r : (c =? 34) = false ->
  cgo CQuo cur rec recs (c :: r) = cgo CQuo (c :: cur) rec recs r.
Proof. intros H. cbn [cgo]. rewrite H. reflexivity. Qed.

(* ---- field bodies ---- *)

Lemma cgo_unq_body x : forall cur rec recs rest, csv_needs_quotes x = false ->
  cgo CUnq cur rec recs (x ++ rest) = cgo CUnq (rev x ++ cur) rec recs rest.
Proof.
  induction x as [|c x IH]; intros cur rec recs rest H; [reflexivity|].
  unfold csv_needs_quotes in H. cbn [existsb] in H. apply orb_false_elim in H.
  destruct H as [Hc Hx]. cbn [app rev]. rewrite (c_unq_plain cur rec recs c _ Hc).
  rewrite (IH (c :: cur) rec recs rest Hx), <- app_assoc. reflexivity.
Qed.

Lemma cgo_quo_body x : forall cur rec recs rest,
  cgo CQuo cur rec recs (flat_map csv_quote1 x ++ 34 :: rest) = cgo CQQ (rev x ++ cur) rec recs rest.
Proof.
  induction x as [|c x IH]; intros cur rec recs rest; [apply c_quo_close|].
  cbn [flat_map rev]. rewrite <- !app_assoc. unfold csv_quote1 at 1.
  destruct (c =? 34) eqn:E.
  - apply N.eqb_eq in E. subst c. cbn [app]. rewrite c_quo_qq, IH. reflexivity.
  - cbn [app]. rewrite (c_quo_plain cur rec recs c _ E), IH. reflexivity.
Qed.

(* a written field followed by a comma or a line feed is read back as that field *)
Lemma cgo_field st v rec recs t rest : cstart st -> fterm t ->
  cgo st [] rec recs (csv_field v ++ t :: rest) = fend t v rec recs rest.
Proof.
  intros Hst Ht. unfold csv_field. destruct (csv_needs_quotes v) eqn:Q.
  - cbn [app]. rewrite <- app_assoc. cbn [app].
    rewrite (c_start_quote st rec recs _ Hst), cgo_quo_body, (c_qq_term _ rec recs t rest Ht).
    rewrite app_nil_r, rev_involutive. reflexivity.
  - destruct v as [|c v].
    + cbn [app]. apply c_start_term; assumption.
    + assert (Q' := Q). unfold csv_needs_quotes in Q'. cbn [existsb] in Q'.
      apply orb_false_elim in Q'. destruct Q' as [Hc Hv].
      cbn [app]. rewrite (c_start_plain st rec recs c _ Hst Hc).
      rewrite (cgo_unq_body v [c] rec recs (t :: rest) Hv), (c_unq_term _ rec recs t rest Ht).
      rewrite rev_app_distr, rev_involutive. reflexivity.
Qed.

(* ---- records ---- *)

Lemma cgo_fields vs : forall st v rec recs rest, cstart st ->
  cgo st [] rec recs (join [44] (map csv_field (v :: vs)) ++ 10 :: rest)
  = cgo CRec [] [] ((rev rec ++ v :: vs) :: recs) rest.
Proof.
  induction vs as [|v' vs IH]; intros st v rec recs rest Hst.
  - rewrite map_cons. cbn [map]. rewrite join_one.
    rewrite (cgo_field st v rec recs 10 rest Hst) by (right; reflexivity). reflexivity.
  - rewrite map_cons, map_cons, join_cons2, <- map_cons. rewrite <- !app_assoc. cbn [app].
    rewrite (cgo_field st v rec recs 44 _ Hst) by (left; reflexivity).
    change (fend 44 v rec recs (join [44] (map csv_field (v' :: vs)) ++ 10 :: rest))
      with (cgo CFld [] (v :: rec) recs (join [44] (map csv_field (v' :: vs)) ++ 10 :: rest)).
    rewrite (IH CFld v' (v :: rec) recs rest) by (right; reflexivity).
    cbn [rev]. rewrite <- app_assoc. reflexivity.
Qed.

Lemma csv_field_nil v : csv_field v = [] -> v = [].
Proof. unfold csv_field. destruct (csv_needs_quotes v); [discriminate | auto]. Qed.

Lemma csv_body_nil v vs : join [44] (map csv_field (v :: vs)) = [] -> v = [] /\ vs = [].
Proof.
  destruct vs as [|v' vs]; intros H.
  - rewrite map_cons in H. cbn [map] in H. rewrite join_one in H. split; [apply csv_field_nil, H | reflexivity].
  - rewrite map_cons, map_cons, join_cons2 in H. apply app_eq_nil in H. destruct H as [_ H].
    discriminate.
Qed.

Lemma cgo_record v vs recs rest :
  cgo CRec [] [] recs (csv_record (v :: vs) ++ rest) = cgo CRec [] [] ((v :: vs) :: recs) rest.
Proof.
  unfold csv_record. cbv zeta.
  destruct (join [44] (map csv_field (v :: vs))) as [|c b] eqn:B.
  - (* the record wrote no byte: it is the single empty field, written as two quotes *)
    apply csv_body_nil in B. destruct B as [Hv Hvs]. subst v vs. reflexivity.
  - rewrite <- B, <- app_assoc. cbn [app].
    rewrite (cgo_fields vs CRec v [] recs rest) by (left; reflexivity). reflexivity.
Qed.

Lemma emit_doc_csv t : emit_doc Csv t = concat (map csv_record (values t)).
Proof.
  unfold emit_doc, emit_doc_with, values. cbn [header_with footer_with row_sep_with app].
  rewrite app_nil_r, join_nil_sep, map_map. reflexivity.
Qed.

Lemma cgo_records vt : forall recs, Forall (fun vs : list str => vs <> []) vt ->
  cgo CRec [] [] recs (concat (map csv_record vt)) = Some (rev recs ++ vt).
Proof.
  induction vt as [|vs vt IH]; intros recs H.
  - cbn [map concat cgo]. rewrite app_nil_r. reflexivity.
  - inversion H as [|x l Hvs Hvt]; subst. destruct vs as [|v vs]; [congruence|].
    cbn [map concat]. rewrite cgo_record, (IH _ Hvt). cbn [rev]. rewrite <- app_assoc. reflexivity.
Qed.

(* ================================================================================== *)

Definition nonempty_rows (t : table) : Prop := Forall (fun r : row => r <> []) t.

Lemma rows_nonempty_ok t : rows_nonempty t = true -> nonempty_rows t.
Proof.
  unfold rows_nonempty, nonempty_rows. rewrite forallb_forall, Forall_forall.
  intros H r Hr Hnil. specialize (H r Hr). subst r. discriminate.
Qed.

(* Any RFC 4180 reader gets back exactly the values of every row. *)
Theorem csv_roundtrip : forall t : table,
  nonempty_rows t -> decode_csv (emit_doc Csv t) = Some (map (map snd) t).
Proof.
  intros t H. rewrite emit_doc_csv. unfold decode_csv.
  rewrite cgo_records; [reflexivity|].
  unfold values. apply Forall_map. unfold nonempty_rows in H.
  eapply Forall_impl; [|exact H]. intros r Hr Hm. apply Hr. destruct r; [reflexivity | discriminate].
Qed.

Example csv_hyp_satisfiable :
  nonempty_rows demo_table /\ nonempty_rows demo_single_table /\ nonempty_rows demo_dup_table.
Proof. repeat split; apply rows_nonempty_ok; vm_compute; reflexivity. Qed.

Example csv_demo :
  emit_doc Csv demo_single_table = s """""" ++ [10] ++ s "x" ++ [10]
  /\ decode_csv (emit_doc Csv demo_single_table) = Some [[[]]; [s "x"]]
  /\ decode_csv (emit_doc Csv demo_table) = Some (values demo_table).
Proof. repeat split; vm_compute; reflexivity. Qed.

(* The hypothesis is necessary: a row without columns is written like a row with one empty
   column (the writer emits two quotes whenever a record wrote no byte). *)
Example csv_empty_row_collision :
  emit_doc Csv [[]] = emit_doc Csv [[(s "name", [])]]
  /\ decode_csv (emit_doc Csv [[]]) = Some [[[]]].
Proof. split; vm_compute; reflexivity. Qed.

Print Assumptions csv_roundtrip.
