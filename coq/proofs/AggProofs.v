(* Theorems about model/Agg.v against spec/AggSpec.v.  Every statement is for all buffers. *)
From Coq Require Import String.
From Coq Require Import List NArith ZArith QArith Bool Lia Permutation Floats.
From FS Require Import lib.Str lib.Res lib.Dec lib.F64 gen.FuncGen model.Agg spec.AggSpec.
Import ListNotations.

(* ================================================================== *)
(* 1. canonical decimal text parses back                               *)
(* ================================================================== *)

Open Scope N_scope.

Lemma digit_cases c : is_digit c = true ->
  c = 48 \/ c = 49 \/ c = 50 \/ c = 51 \/ c = 52 \/ c = 53 \/ c = 54 \/ c = 55 \/ c = 56 \/ c = 57.
Proof.
  unfold is_digit. intros H. apply andb_true_iff in H. destruct H as [H1 H2].
  apply N.leb_le in H1, H2. lia.
Qed.

Lemma show_N_head n : exists c r, show_N n = c :: r /\ is_digit c = true.
Proof.
  pose proof (parse_show_N n) as P. pose proof (show_N_digits n) as D.
  destruct (show_N n) as [|c r]; [discriminate P|].
  exists c, r. split; [reflexivity|]. cbn [forallb] in D. apply andb_true_iff in D. tauto.
Qed.

Lemma parse_unsigned_digit bound c r : is_digit c = true ->
  parse_unsigned bound (c :: r) =
  match parse_N (c :: r) with Some n => if n <? bound then Some n else None | None => None end.
Proof.
  intros H. destruct (digit_cases c H) as [->|[->|[->|[->|[->|[->|[->|[->|[->| ->]]]]]]]]]; reflexivity.
Qed.

Lemma parse_signed_digit bound c r : is_digit c = true ->
  parse_signed bound (c :: r) =
  match parse_N (c :: r) with
  | Some n => if (Z.of_N n <? bound)%Z then Some (Z.of_N n) else None
  | None => None
  end.
Proof.
  intros H. destruct (digit_cases c H) as [->|[->|[->|[->|[->|[->|[->|[->|[->| ->]]]]]]]]]; reflexivity.
Qed.

Lemma parse_signed_minus bound r :
  parse_signed bound (45 :: r) =
  match parse_N r with
  | Some n => if (Z.of_N n <=? bound)%Z then Some (- Z.of_N n)%Z else None
  | None => None
  end.
Proof. reflexivity. Qed.

Lemma parse_usize_show n : n < two64 -> parse_usize (show_N n) = Some n.
Proof.
  intros Hn. destruct (show_N_head n) as (c & r & E & Hd).
  unfold parse_usize, parse_u64. rewrite E, (parse_unsigned_digit _ c r Hd), <- E, parse_show_N.
  apply N.ltb_lt in Hn. unfold two64 in Hn. now rewrite Hn.
Qed.

Lemma show_Z_of_N n : show_Z (Z.of_N n) = show_N n.
Proof. destruct n; reflexivity. Qed.

Definition in_i64 (x : Z) : Prop := (- 9223372036854775808 <= x < 9223372036854775808)%Z.

Lemma parse_i64_show x : in_i64 x -> parse_i64 (show_Z x) = Some x.
Proof.
  unfold in_i64. intros Hx. destruct x as [|p|p].
  - reflexivity.
  - change (show_Z (Z.pos p)) with (show_N (N.pos p)).
    destruct (show_N_head (N.pos p)) as (c & r & E & Hd).
    unfold parse_i64. rewrite E, (parse_signed_digit _ c r Hd), <- E, parse_show_N.
    change (Z.of_N (N.pos p)) with (Z.pos p).
    assert (H : (Z.pos p <? 9223372036854775808)%Z = true) by (apply Z.ltb_lt; lia).
    now rewrite H.
  - change (show_Z (Z.neg p)) with (45 :: show_N (N.pos p)).
    unfold parse_i64. rewrite parse_signed_minus, parse_show_N.
    change (Z.of_N (N.pos p)) with (Z.pos p).
    assert (H : (Z.pos p <=? 9223372036854775808)%Z = true) by (apply Z.leb_le; lia).
    now rewrite H.
Qed.

(* ================================================================== *)
(* 2. columns of canonical decimals                                    *)
(* ================================================================== *)

(* every row of the buffer has the column `key`, holding the canonical decimal text of x_i *)
Definition col_is (buf : buffer) (key : str) (xs : list Z) : Prop :=
  Forall2 (fun r x => get r key = Some (show_Z x)) buf xs.

Lemma col_is_length buf key xs : col_is buf key xs -> length buf = length xs.
Proof. intros H. induction H; cbn [length]; congruence. Qed.

Lemma column_col_is buf key xs : col_is buf key xs -> column buf key = map show_Z xs.
Proof.
  intros H. induction H as [|r x buf xs Hr _ IH]; [reflexivity|].
  unfold column in *. cbn [filter_map map]. rewrite Hr. now rewrite IH.
Qed.

Lemma ints_canonical xs : Forall in_i64 xs -> filter_map parse_i64 (map show_Z xs) = xs.
Proof.
  intros H. induction H as [|x xs Hx _ IH]; [reflexivity|].
  cbn [map filter_map]. rewrite (parse_i64_show x Hx). now rewrite IH.
Qed.

Definition in_usize (x : Z) : Prop := (0 <= x < 18446744073709551616)%Z.

Lemma usizes_canonical xs : Forall in_usize xs -> filter_map parse_usize (map show_Z xs) = map Z.to_N xs.
Proof.
  intros H. induction H as [|x xs Hx _ IH]; [reflexivity|].
  cbn [map filter_map]. unfold in_usize in Hx.
  assert (E : show_Z x = show_N (Z.to_N x)) by (rewrite <- show_Z_of_N; f_equal; lia).
  rewrite E, parse_usize_show by (unfold two64; lia). now rewrite IH.
Qed.

(* ================================================================== *)
(* 3. COUNT, SUM, MIN, MAX                                             *)
(* ================================================================== *)

(* Core statements are about the float-free functions agg_count / agg_sum / agg_min / agg_max
   (closed under the global context); section 3b restates them for get_aggregate_value. *)
Theorem count_is_length_core buf : agg_count buf = show_Z (Z.of_nat (length buf)).
Proof. unfold agg_count. rewrite <- show_Z_of_N. now rewrite nat_N_Z. Qed.

Corollary count_exact_core buf key xs : col_is buf key xs -> agg_count buf = show_Z (count xs).
Proof. intros H. rewrite count_is_length_core. unfold count. now rewrite (col_is_length _ _ _ H). Qed.

Definition total (l : list N) : N := fold_right N.add 0 l.

Definition usize_max : N := two64 - 1.

(* the loop of get_buffer_sum: the exact total, capped at usize::MAX -- in every build *)
Lemma sum_loop_sat b l : forall acc, acc <= usize_max ->
  sum_loop b acc l = Ok (N.min (acc + total l) usize_max).
Proof.
  unfold usize_max.
  induction l as [|v l IH]; intros acc Ha; cbn [sum_loop total fold_right].
  - f_equal. lia.
  - fold (total l). unfold sat_add. rewrite IH by lia. f_equal. lia.
Qed.

Lemma sum_loop_ok b l : forall acc, acc + total l < two64 -> sum_loop b acc l = Ok (acc + total l).
Proof.
  intros acc H. rewrite sum_loop_sat by (unfold usize_max, two64 in *; lia).
  f_equal. unfold usize_max, two64 in *. lia.
Qed.

Lemma sum_loop_saturated b l : forall acc, acc < two64 -> two64 <= acc + total l ->
  sum_loop b acc l = Ok usize_max.
Proof.
  intros acc Ha H. rewrite sum_loop_sat by (unfold usize_max, two64 in *; lia).
  f_equal. unfold usize_max, two64 in *. lia.
Qed.

(* saturating_add does not depend on overflow-checks: the build is irrelevant *)
Lemma sum_loop_build b b' l : forall acc, sum_loop b acc l = sum_loop b' acc l.
Proof. induction l as [|v l IH]; intros acc; cbn [sum_loop]; [reflexivity | apply IH]. Qed.

(* for every build and every buffer: the total of the values that parse as usize, capped *)
Theorem buffer_sum_saturates b buf key :
  get_buffer_sum b buf key = Ok (N.min (total (usizes buf key)) (two64 - 1)).
Proof.
  unfold get_buffer_sum. rewrite sum_loop_sat by (unfold usize_max, two64; lia). now rewrite N.add_0_l.
Qed.

Theorem sum_saturates b buf key :
  agg_sum b buf key = Ok (show_N (N.min (total (usizes buf key)) (two64 - 1))).
Proof. unfold agg_sum. now rewrite buffer_sum_saturates. Qed.

Lemma total_to_N xs : Forall (fun x => 0 <= x)%Z xs -> total (map Z.to_N xs) = Z.to_N (sum xs).
Proof.
  intros H. induction H as [|x xs Hx Hxs IH]; [reflexivity|].
  cbn [map total fold_right sum]. fold (total (map Z.to_N xs)). fold (sum xs). rewrite IH.
  assert (0 <= sum xs)%Z.
  { clear -Hxs. induction Hxs as [|y ys Hy _ IH]; cbn [sum fold_right]; [lia|]. fold (sum ys). lia. }
  lia.
Qed.

Lemma sum_nonneg xs : Forall (fun x => 0 <= x)%Z xs -> (0 <= sum xs)%Z.
Proof. intros H. induction H as [|y ys Hy _ IH]; cbn [sum fold_right]; [lia|]. fold (sum ys). lia. Qed.

Lemma nonneg_bounded_in_usize xs : Forall (fun x => 0 <= x)%Z xs -> (sum xs < 18446744073709551616)%Z ->
  Forall in_usize xs.
Proof.
  intros H. induction H as [|x xs Hx Hxs IH]; intros Hs; [constructor|].
  cbn [sum fold_right] in Hs. fold (sum xs) in Hs. pose proof (sum_nonneg xs Hxs).
  constructor; [unfold in_usize; lia | apply IH; lia].
Qed.

(* SUM of a column of canonical non-negative decimals whose exact sum fits a usize *)
Theorem sum_exact_core buf key xs :
  col_is buf key xs -> Forall (fun x => 0 <= x)%Z xs -> (sum xs < 2 ^ 64)%Z ->
  agg_sum Debug buf key = Ok (show_Z (sum xs)).
Proof.
  intros Hc Hpos Hb. change (2 ^ 64)%Z with 18446744073709551616%Z in Hb.
  unfold agg_sum, get_buffer_sum, usizes.
  rewrite (column_col_is _ _ _ Hc), (usizes_canonical xs (nonneg_bounded_in_usize xs Hpos Hb)).
  pose proof (sum_nonneg xs Hpos) as Hs.
  rewrite sum_loop_ok; rewrite (total_to_N xs Hpos); [|unfold two64; lia].
  cbn [bind]. f_equal. rewrite N.add_0_l, <- show_Z_of_N. f_equal. lia.
Qed.

(* ... and beyond the bound it is usize::MAX, in every build (it used to be a panic in a debug build
   and the sum modulo 2^64 in a release build) *)
Theorem sum_canonical_core b buf key xs :
  col_is buf key xs -> Forall in_usize xs ->
  agg_sum b buf key = Ok (show_Z (Z.min (sum xs) (2 ^ 64 - 1))).
Proof.
  intros Hc Hu. change (2 ^ 64 - 1)%Z with 18446744073709551615%Z.
  assert (Hpos : Forall (fun x => 0 <= x)%Z xs) by (eapply Forall_impl; [|exact Hu]; unfold in_usize; cbn; intros; lia).
  rewrite sum_saturates. unfold usizes.
  rewrite (column_col_is _ _ _ Hc), (usizes_canonical xs Hu), (total_to_N xs Hpos).
  pose proof (sum_nonneg xs Hpos) as Hs.
  f_equal. rewrite <- show_Z_of_N. f_equal. unfold two64. lia.
Qed.

Theorem sum_saturated_core b buf key xs :
  col_is buf key xs -> Forall in_usize xs -> (2 ^ 64 <= sum xs)%Z ->
  agg_sum b buf key = Ok (show_Z (2 ^ 64 - 1)).
Proof.
  intros Hc Hu Hb. rewrite (sum_canonical_core b buf key xs Hc Hu). f_equal. f_equal.
  change (2 ^ 64)%Z with 18446744073709551616%Z in *. lia.
Qed.

(* MIN / MAX: reduce from the left = textbook minimum / maximum *)
Lemma fold_right_min_push a b r : fold_right Z.min (Z.min a b) r = Z.min b (fold_right Z.min a r).
Proof. induction r as [|c r IH]; cbn [fold_right]; [lia | rewrite IH; lia]. Qed.

Lemma fold_left_min_right r : forall x, fold_left Z.min r x = fold_right Z.min x r.
Proof.
  induction r as [|y r IH]; intros x; cbn [fold_left fold_right]; [reflexivity|].
  rewrite IH. apply fold_right_min_push.
Qed.

Lemma fold_right_max_push a b r : fold_right Z.max (Z.max a b) r = Z.max b (fold_right Z.max a r).
Proof. induction r as [|c r IH]; cbn [fold_right]; [lia | rewrite IH; lia]. Qed.

Lemma fold_left_max_right r : forall x, fold_left Z.max r x = fold_right Z.max x r.
Proof.
  induction r as [|y r IH]; intros x; cbn [fold_left fold_right]; [reflexivity|].
  rewrite IH. apply fold_right_max_push.
Qed.

Lemma min_list_min_of l : min_list l = min_of l.
Proof. destruct l as [|x r]; [reflexivity|]. cbn [min_list min_of]. now rewrite fold_left_min_right. Qed.

Lemma max_list_max_of l : max_list l = max_of l.
Proof. destruct l as [|x r]; [reflexivity|]. cbn [max_list max_of]. now rewrite fold_left_max_right. Qed.

(* for every buffer, whatever it contains: MIN prints the minimum of the values that parse as i64 *)
Theorem min_general_core buf key :
  agg_min buf key = show_Z (match min_of (ints buf key) with Some m => m | None => 0%Z end).
Proof. unfold agg_min. now rewrite min_list_min_of. Qed.

Theorem max_general_core buf key :
  agg_max buf key = show_Z (match max_of (ints buf key) with Some m => m | None => 0%Z end).
Proof. unfold agg_max. now rewrite max_list_max_of. Qed.

Theorem min_exact_core buf key xs : col_is buf key xs -> Forall in_i64 xs ->
  agg_min buf key = show_Z (match min_of xs with Some m => m | None => 0%Z end).
Proof.
  intros Hc Hr. rewrite min_general_core. unfold ints.
  now rewrite (column_col_is _ _ _ Hc), (ints_canonical xs Hr).
Qed.

Theorem max_exact_core buf key xs : col_is buf key xs -> Forall in_i64 xs ->
  agg_max buf key = show_Z (match max_of xs with Some m => m | None => 0%Z end).
Proof.
  intros Hc Hr. rewrite max_general_core. unfold ints.
  now rewrite (column_col_is _ _ _ Hc), (ints_canonical xs Hr).
Qed.

(* the explicit corner cases *)
Corollary min_empty d key : get_aggregate_value (Some FnMin) [] key d = Ok (s "0"%string).
Proof. reflexivity. Qed.
Corollary max_empty d key : get_aggregate_value (Some FnMax) [] key d = Ok (s "0"%string).
Proof. reflexivity. Qed.

Corollary min_exact_nonempty_core buf key x xs m : col_is buf key (x :: xs) -> Forall in_i64 (x :: xs) ->
  is_min m (x :: xs) -> agg_min buf key = show_Z m.
Proof.
  intros Hc Hr Hm. rewrite (min_exact_core buf key (x :: xs) Hc Hr).
  destruct (min_of (x :: xs)) as [m'|] eqn:E; [|discriminate E].
  now rewrite (is_min_unique _ _ _ (min_of_spec _ _ E) Hm).
Qed.

Corollary max_exact_nonempty_core buf key x xs m : col_is buf key (x :: xs) -> Forall in_i64 (x :: xs) ->
  is_max m (x :: xs) -> agg_max buf key = show_Z m.
Proof.
  intros Hc Hr Hm. rewrite (max_exact_core buf key (x :: xs) Hc Hr).
  destruct (max_of (x :: xs)) as [m'|] eqn:E; [|discriminate E].
  now rewrite (is_max_unique _ _ _ (max_of_spec _ _ E) Hm).
Qed.

(* a general form of SUM, for every buffer: the sum of the values that parse as usize *)
Theorem sum_general_core buf key : total (usizes buf key) < two64 ->
  agg_sum Debug buf key = Ok (show_N (total (usizes buf key))).
Proof.
  intros H. rewrite sum_saturates. f_equal. f_equal. unfold two64 in *. lia.
Qed.

(* ------------------------------------------------------------------ *)
(* 3b. the same statements about get_aggregate_value                    *)
(* ------------------------------------------------------------------ *)

Theorem count_is_length d buf key :
  get_aggregate_value (Some FnCount) buf key d = Ok (show_Z (Z.of_nat (length buf))).
Proof. unfold get_aggregate_value. cbn [get_aggregate_value_b]. now rewrite count_is_length_core. Qed.

Corollary count_exact d buf key xs : col_is buf key xs ->
  get_aggregate_value (Some FnCount) buf key d = Ok (show_Z (count xs)).
Proof. intros H. unfold get_aggregate_value. cbn [get_aggregate_value_b]. now rewrite (count_exact_core buf key xs H). Qed.

Theorem sum_exact d buf key xs :
  col_is buf key xs -> Forall (fun x => 0 <= x)%Z xs -> (sum xs < 2 ^ 64)%Z ->
  get_aggregate_value (Some FnSum) buf key d = Ok (show_Z (sum xs)).
Proof. exact (sum_exact_core buf key xs). Qed.

(* SUM never fails and never wraps: for every build, every buffer, whatever it contains *)
Theorem sum_saturates_value b d buf key :
  get_aggregate_value_b b (Some FnSum) buf key d = Ok (show_N (N.min (total (usizes buf key)) (two64 - 1))).
Proof. exact (sum_saturates b buf key). Qed.

Theorem sum_canonical b d buf key xs :
  col_is buf key xs -> Forall in_usize xs ->
  get_aggregate_value_b b (Some FnSum) buf key d = Ok (show_Z (Z.min (sum xs) (2 ^ 64 - 1))).
Proof. exact (sum_canonical_core b buf key xs). Qed.

Theorem sum_saturated b d buf key xs :
  col_is buf key xs -> Forall in_usize xs -> (2 ^ 64 <= sum xs)%Z ->
  get_aggregate_value_b b (Some FnSum) buf key d = Ok (show_Z (2 ^ 64 - 1)).
Proof. exact (sum_saturated_core b buf key xs). Qed.

(* the build no longer matters for any aggregate *)
Theorem aggregate_build_irrelevant b b' f buf key d :
  get_aggregate_value_b b f buf key d = get_aggregate_value_b b' f buf key d.
Proof.
  assert (E : get_buffer_sum b buf key = get_buffer_sum b' buf key) by apply sum_loop_build.
  unfold get_aggregate_value_b, agg_sum, get_variance. now rewrite E.
Qed.

(* ... and no aggregate can fail any more: the result is always Ok *)
Theorem aggregate_total b f buf key d : exists out, get_aggregate_value_b b f buf key d = Ok out.
Proof.
  unfold get_aggregate_value_b, agg_sum, get_variance. rewrite buffer_sum_saturates. cbn [bind].
  destruct f as [f|]; [|eexists; reflexivity].
  destruct f; try (eexists; reflexivity); destruct (is_empty buf); eexists; reflexivity.
Qed.

Theorem sum_general d buf key : total (usizes buf key) < two64 ->
  get_aggregate_value (Some FnSum) buf key d = Ok (show_N (total (usizes buf key))).
Proof. exact (sum_general_core buf key). Qed.

(* for every buffer, whatever it contains: MIN prints the minimum of the values that parse as i64 *)
Theorem min_general d buf key :
  get_aggregate_value (Some FnMin) buf key d =
  Ok (show_Z (match min_of (ints buf key) with Some m => m | None => 0%Z end)).
Proof. unfold get_aggregate_value. cbn [get_aggregate_value_b]. now rewrite min_general_core. Qed.

Theorem max_general d buf key :
  get_aggregate_value (Some FnMax) buf key d =
  Ok (show_Z (match max_of (ints buf key) with Some m => m | None => 0%Z end)).
Proof. unfold get_aggregate_value. cbn [get_aggregate_value_b]. now rewrite max_general_core. Qed.

Theorem min_exact d buf key xs : col_is buf key xs -> Forall in_i64 xs ->
  get_aggregate_value (Some FnMin) buf key d =
  Ok (show_Z (match min_of xs with Some m => m | None => 0%Z end)).
Proof. intros Hc Hr. unfold get_aggregate_value. cbn [get_aggregate_value_b]. now rewrite (min_exact_core buf key xs Hc Hr). Qed.

Theorem max_exact d buf key xs : col_is buf key xs -> Forall in_i64 xs ->
  get_aggregate_value (Some FnMax) buf key d =
  Ok (show_Z (match max_of xs with Some m => m | None => 0%Z end)).
Proof. intros Hc Hr. unfold get_aggregate_value. cbn [get_aggregate_value_b]. now rewrite (max_exact_core buf key xs Hc Hr). Qed.

Corollary min_exact_nonempty d buf key x xs m : col_is buf key (x :: xs) -> Forall in_i64 (x :: xs) ->
  is_min m (x :: xs) -> get_aggregate_value (Some FnMin) buf key d = Ok (show_Z m).
Proof. intros Hc Hr Hm. unfold get_aggregate_value. cbn [get_aggregate_value_b]. now rewrite (min_exact_nonempty_core buf key x xs m Hc Hr Hm). Qed.

Corollary max_exact_nonempty d buf key x xs m : col_is buf key (x :: xs) -> Forall in_i64 (x :: xs) ->
  is_max m (x :: xs) -> get_aggregate_value (Some FnMax) buf key d = Ok (show_Z m).
Proof. intros Hc Hr Hm. unfold get_aggregate_value. cbn [get_aggregate_value_b]. now rewrite (max_exact_nonempty_core buf key x xs m Hc Hr Hm). Qed.

(* ================================================================== *)
(* 4. the variance loop, run over Q, is the textbook variance          *)
(* ================================================================== *)

Open Scope Q_scope.

Lemma fold_left_Qcompat (f : Q -> Q -> Q) (Hf : forall a a' x, a == a' -> f a x == f a' x) xs :
  forall a a', a == a' -> fold_left f xs a == fold_left f xs a'.
Proof. induction xs as [|x xs IH]; intros a a' H; cbn [fold_left]; [exact H | apply IH, Hf, H]. Qed.

(* the accumulation loop of get_variance in exact arithmetic: for every mu and n *)
Lemma var_loop_acc (mu n : Q) xs : forall a,
  fold_left (fun acc x => acc + (mu - x) * (mu - x) / n) xs a == a + sq_dev mu xs / n.
Proof.
  induction xs as [|x xs IH]; intros a; cbn [fold_left].
  - unfold sq_dev, qsum. cbn [map fold_right]. unfold Qdiv. ring.
  - rewrite IH. unfold sq_dev, qsum. cbn [map fold_right]. unfold Qdiv. ring.
Qed.

Theorem var_loop_textbook (mu n : Q) xs :
  fold_left (fun acc x => acc + (mu - x) * (mu - x) / n) xs 0 == sq_dev mu xs / n.
Proof. rewrite var_loop_acc. ring. Qed.

(* ---- the exact model: the code of get_mean / get_variance instantiated with Q ---- *)

Definition q_of_N (n : N) : Q := inject_Z (Z.of_N n).

(* decimal integers of any size (the exact counterpart of parse::<f64> on integer texts) *)
Definition parse_Zdec (x : str) : option Z :=
  match x with
  | 45%N :: r => option_map (fun n => (- Z.of_N n)%Z) (parse_N r)
  | _ => option_map Z.of_N (parse_N x)
  end.
Definition parse_Q (x : str) : option Q := option_map inject_Z (parse_Zdec x).

Definition mean_Q : N -> nat -> Q := mean_g Q Qdiv q_of_N.
Definition variance_Q : N -> nat -> nat -> list str -> Q :=
  variance_g Q Qplus Qminus Qmult Qdiv 0 q_of_N parse_Q.

(* get_variance with exact arithmetic and an unsaturated sum (total < 2^64): sum = the usize sum of the column *)
Definition exact_variance (buf : buffer) (key : str) (n : nat) : Q :=
  variance_Q (total (usizes buf key)) (length buf) n (column buf key).

Lemma parse_Zdec_digit c r : is_digit c = true -> parse_Zdec (c :: r) = option_map Z.of_N (parse_N (c :: r)).
Proof.
  intros H. destruct (digit_cases c H) as [->|[->|[->|[->|[->|[->|[->|[->|[->| ->]]]]]]]]]; reflexivity.
Qed.

Lemma parse_Zdec_show x : parse_Zdec (show_Z x) = Some x.
Proof.
  destruct x as [|p|p].
  - reflexivity.
  - change (show_Z (Z.pos p)) with (show_N (N.pos p)).
    destruct (show_N_head (N.pos p)) as (c & r & E & Hd).
    now rewrite E, (parse_Zdec_digit c r Hd), <- E, parse_show_N.
  - change (show_Z (Z.neg p)) with (45%N :: show_N (N.pos p)).
    cbn [parse_Zdec]. now rewrite parse_show_N.
Qed.

Lemma variance_Q_unfold sm size n xs :
  variance_Q sm size n (map show_Z xs) =
  fold_left (fun acc x => acc + (mean_Q sm size - x) * (mean_Q sm size - x) / q_of_N (N.of_nat n))
            (map inject_Z xs) 0.
Proof.
  unfold variance_Q, variance_g. generalize 0 as a.
  induction xs as [|x xs IH]; intros a; cbn [map fold_left]; [reflexivity|].
  rewrite <- IH. f_equal. unfold var_step, parse_Q. now rewrite parse_Zdec_show.
Qed.

Lemma qsum_inject xs : qsum (map inject_Z xs) == inject_Z (sum xs).
Proof.
  induction xs as [|x xs IH]; [reflexivity|].
  cbn [map qsum fold_right sum]. fold (qsum (map inject_Z xs)). fold (sum xs).
  now rewrite IH, inject_Z_plus.
Qed.

Lemma sq_dev_compat mu mu' xs : mu == mu' -> sq_dev mu xs == sq_dev mu' xs.
Proof.
  intros H. unfold sq_dev. induction xs as [|x xs IH]; [reflexivity|].
  cbn [map qsum fold_right]. fold (qsum (map (fun x => (x - mu) * (x - mu)) xs)).
  fold (qsum (map (fun x => (x - mu') * (x - mu')) xs)). now rewrite IH, H.
Qed.

Lemma q_of_N_nat n : q_of_N (N.of_nat n) = inject_Z (Z.of_nat n).
Proof. unfold q_of_N. now rewrite nat_N_Z. Qed.

Lemma mean_Q_textbook buf key xs : col_is buf key xs -> Forall in_usize xs ->
  mean_Q (total (usizes buf key)) (length buf) == mean (map inject_Z xs).
Proof.
  intros Hc Hu.
  assert (Hpos : Forall (fun x => 0 <= x)%Z xs) by (eapply Forall_impl; [|exact Hu]; unfold in_usize; cbn; intros; lia).
  unfold usizes. rewrite (column_col_is _ _ _ Hc), (usizes_canonical xs Hu), (total_to_N xs Hpos).
  unfold mean_Q, mean_g, mean, qlen. rewrite q_of_N_nat, map_length, (col_is_length _ _ _ Hc), qsum_inject.
  unfold q_of_N. rewrite Z2N.id by (apply sum_nonneg; exact Hpos). reflexivity.
Qed.

(* the algorithm of get_variance over Q, with any divisor n, on a column of canonical decimals *)
Lemma exact_variance_textbook buf key xs n : col_is buf key xs -> Forall in_usize xs ->
  exact_variance buf key n == sq_dev (mean (map inject_Z xs)) (map inject_Z xs) / inject_Z (Z.of_nat n).
Proof.
  intros Hc Hu. unfold exact_variance. rewrite (column_col_is _ _ _ Hc), variance_Q_unfold.
  rewrite var_loop_textbook, q_of_N_nat.
  now rewrite (sq_dev_compat _ _ _ (mean_Q_textbook buf key xs Hc Hu)).
Qed.

(* VAR_POP: n = len *)
Theorem var_pop_textbook buf key xs : col_is buf key xs -> Forall in_usize xs ->
  exact_variance buf key (length buf) == var_pop (map inject_Z xs).
Proof.
  intros Hc Hu. rewrite (exact_variance_textbook buf key xs _ Hc Hu).
  unfold var_pop, qlen. now rewrite map_length, (col_is_length _ _ _ Hc).
Qed.

(* VAR_SAMP: n = len - 1, for len >= 2 *)
Theorem var_samp_textbook buf key xs : col_is buf key xs -> Forall in_usize xs -> (2 <= length buf)%nat ->
  exact_variance buf key (samp_n (length buf)) == var_samp (map inject_Z xs).
Proof.
  intros Hc Hu Hl. rewrite (exact_variance_textbook buf key xs _ Hc Hu).
  unfold var_samp, qlen. rewrite map_length, <- (col_is_length _ _ _ Hc).
  assert (E : samp_n (length buf) = (length buf - 1)%nat).
  { unfold samp_n. destruct (Nat.eqb_spec (length buf) 1); [lia | reflexivity]. }
  rewrite E. replace (Z.of_nat (length buf - 1)) with (Z.of_nat (length buf) - 1)%Z by lia.
  unfold Zminus. rewrite inject_Z_plus. reflexivity.
Qed.

(* with a single row the sample variants divide by 1, not by 0: a deviation from the textbook *)
Lemma samp_n_one : samp_n 1 = 1%nat.
Proof. reflexivity. Qed.

(* STDDEV: any exact standard deviation of the exact variance squares to the textbook variance,
   and there is at most one. (Q has no square roots in general: existence is not claimed.) *)
Theorem stddev_pop_sq buf key xs sd : col_is buf key xs -> Forall in_usize xs ->
  is_stddev sd (exact_variance buf key (length buf)) -> sd * sd == var_pop (map inject_Z xs).
Proof. intros Hc Hu [_ H]. now rewrite H, (var_pop_textbook buf key xs Hc Hu). Qed.

Theorem stddev_samp_sq buf key xs sd : col_is buf key xs -> Forall in_usize xs -> (2 <= length buf)%nat ->
  is_stddev sd (exact_variance buf key (samp_n (length buf))) -> sd * sd == var_samp (map inject_Z xs).
Proof. intros Hc Hu Hl [_ H]. now rewrite H, (var_samp_textbook buf key xs Hc Hu Hl). Qed.

From Coq Require Import Lqa.

Theorem is_stddev_unique a b v : is_stddev a v -> is_stddev b v -> a == b.
Proof.
  intros [Ha Ea] [Hb Eb].
  assert (E : (a - b) * (a + b) == 0).
  { setoid_replace ((a - b) * (a + b)) with (a * a - b * b) by ring. rewrite Ea, Eb. ring. }
  destruct (Qmult_integral _ _ E) as [H | H]; lra.
Qed.

Close Scope Q_scope.

(* ================================================================== *)
(* 5. GROUP BY: laws of partition_output_buffer                        *)
(* ================================================================== *)

Open Scope N_scope.

Lemma lstr_eqb_eq a : forall b, lstr_eqb a b = true <-> a = b.
Proof.
  induction a as [|x a IH]; intros [|y b]; cbn [lstr_eqb]; split; intro H; try discriminate; try reflexivity.
  - apply andb_true_iff in H. destruct H as [H1 H2]. apply str_eqb_eq in H1. apply IH in H2. now subst.
  - inversion H; subst. rewrite str_eqb_refl. cbn. now apply IH.
Qed.

Lemma lstr_eqb_refl a : lstr_eqb a a = true.
Proof. now apply lstr_eqb_eq. Qed.

Lemma lstr_eqb_neq a b : a <> b -> lstr_eqb a b = false.
Proof. intros H. destruct (lstr_eqb a b) eqn:E; [|reflexivity]. apply lstr_eqb_eq in E. contradiction. Qed.

(* the rows of buf whose key vector is k, in buffer order *)
Definition restrict (ks : list str) (k : list str) (buf : buffer) : buffer :=
  filter (fun r => lstr_eqb (key_vector ks r) k) buf.

Definition groups := list (list str * buffer).

Lemma insert_keys_in kv r (g : groups) : In kv (map fst g) ->
  map fst (insert_group kv r g) = map fst g.
Proof.
  induction g as [|[k b] g IH]; intros H; [destruct H|].
  cbn [insert_group]. destruct (lstr_eqb k kv) eqn:E; [reflexivity|].
  cbn [map fst]. f_equal. apply IH. destruct H as [H | H]; [|exact H].
  cbn [fst] in H. subst. now rewrite lstr_eqb_refl in E.
Qed.

Lemma insert_keys_notin kv r (g : groups) : ~ In kv (map fst g) ->
  map fst (insert_group kv r g) = map fst g ++ [kv].
Proof.
  induction g as [|[k b] g IH]; intros H; [reflexivity|].
  cbn [insert_group]. destruct (lstr_eqb k kv) eqn:E.
  - apply lstr_eqb_eq in E. subst. exfalso. apply H. now left.
  - cbn [map fst app]. f_equal. apply IH. intros Hin. apply H. now right.
Qed.

Lemma insert_group_in kv r (g : groups) k b : NoDup (map fst g) -> In (k, b) (insert_group kv r g) ->
  (k <> kv /\ In (k, b) g) \/
  (k = kv /\ exists b0, In (k, b0) g /\ b = b0 ++ [r]) \/
  (k = kv /\ ~ In kv (map fst g) /\ b = [r]).
Proof.
  induction g as [|[k0 b0] g IH]; intros Hnd Hin.
  - cbn [insert_group] in Hin. destruct Hin as [[= <- <-] | []]. right. right. repeat split. intros [].
  - cbn [map fst] in Hnd. inversion Hnd as [|? ? Hk0 Hnd']; subst.
    cbn [insert_group] in Hin. destruct (lstr_eqb k0 kv) eqn:E.
    + apply lstr_eqb_eq in E. subst k0. destruct Hin as [[= <- <-] | Hin].
      * right. left. split; [reflexivity|]. exists b0. split; [now left | reflexivity].
      * left. split; [|now right]. intros ->. apply Hk0. apply (in_map fst) in Hin. exact Hin.
    + assert (Hne : k0 <> kv) by (intros ->; now rewrite lstr_eqb_refl in E).
      destruct Hin as [[= <- <-] | Hin].
      * left. split; [exact Hne | now left].
      * destruct (IH Hnd' Hin) as [[H1 H2] | [[H1 (b1 & H2 & H3)] | [H1 [H2 H3]]]].
        -- left. split; [exact H1 | now right].
        -- right. left. split; [exact H1|]. exists b1. split; [now right | exact H3].
        -- right. right. split; [exact H1|]. split; [|exact H3].
           cbn [map fst]. intros [H | H]; [now apply Hne | now apply H2].
Qed.

Lemma NoDup_snoc {A} (l : list A) a : NoDup l -> ~ In a l -> NoDup (l ++ [a]).
Proof.
  induction l as [|x l IH]; intros Hnd Hn; cbn [app].
  - constructor; [intros [] | constructor].
  - inversion Hnd as [|? ? Hx Hl]; subst. constructor.
    + rewrite in_app_iff. intros [H | [H | []]]; [now apply Hx | subst; apply Hn; now left].
    + apply IH; [exact Hl | intros H; apply Hn; now right].
Qed.

Lemma filter_none {A} (f : A -> bool) l : (forall x, In x l -> f x = false) -> filter f l = [].
Proof.
  induction l as [|x l IH]; intros H; [reflexivity|].
  cbn [filter]. rewrite (H x) by now left. apply IH. intros y Hy. apply H. now right.
Qed.

(* invariant of the loop of partition_output_buffer after processing `pre` *)
Definition PInv (ks : list str) (pre : buffer) (g : groups) : Prop :=
  NoDup (map fst g) /\
  (forall k b, In (k, b) g -> b <> [] /\ b = restrict ks k pre) /\
  (forall r, In r pre -> In (key_vector ks r) (map fst g)).

Lemma PInv_step ks pre g r : PInv ks pre g -> PInv ks (pre ++ [r]) (partition_step ks g r).
Proof.
  intros (Hnd & Hg & Hc). unfold partition_step. set (kv := key_vector ks r).
  destruct (in_dec (list_eq_dec (list_eq_dec N.eq_dec)) kv (map fst g)) as [Hin | Hnin].
  - (* existing group *)
    split; [|split].
    + now rewrite (insert_keys_in kv r g Hin).
    + intros k b Hb. destruct (insert_group_in kv r g k b Hnd Hb) as [[H1 H2] | [[H1 (b1 & H2 & H3)] | [H1 [H2 H3]]]].
      * destruct (Hg k b H2) as [Hne Hb']. split; [exact Hne|].
        unfold restrict in *. rewrite filter_app. cbn [filter]. fold kv.
        rewrite (lstr_eqb_neq kv k) by congruence. now rewrite app_nil_r.
      * subst k. destruct (Hg kv b1 H2) as [Hne Hb']. split; [subst b; now destruct b1|].
        unfold restrict in *. rewrite filter_app. cbn [filter]. fold kv.
        rewrite lstr_eqb_refl. now rewrite <- Hb', H3.
      * contradiction.
    + intros r' Hr'. rewrite (insert_keys_in kv r g Hin). apply in_app_iff in Hr'.
      destruct Hr' as [Hr' | [<- | []]]; [now apply Hc | exact Hin].
  - (* new group *)
    split; [|split].
    + rewrite (insert_keys_notin kv r g Hnin). now apply NoDup_snoc.
    + intros k b Hb. destruct (insert_group_in kv r g k b Hnd Hb) as [[H1 H2] | [[H1 (b1 & H2 & H3)] | [H1 [H2 H3]]]].
      * destruct (Hg k b H2) as [Hne Hb']. split; [exact Hne|].
        unfold restrict in *. rewrite filter_app. cbn [filter]. fold kv.
        rewrite (lstr_eqb_neq kv k) by congruence. now rewrite app_nil_r.
      * subst k. exfalso. apply Hnin. apply (in_map fst) in H2. exact H2.
      * subst k b. split; [discriminate|].
        unfold restrict. rewrite filter_app. cbn [filter]. fold kv. rewrite lstr_eqb_refl.
        rewrite filter_none; [reflexivity|].
        intros r' Hr'. apply lstr_eqb_neq. intros E. apply Hnin. rewrite <- E. now apply Hc.
    + intros r' Hr'. rewrite (insert_keys_notin kv r g Hnin). apply in_app_iff. apply in_app_iff in Hr'.
      destruct Hr' as [Hr' | [<- | []]]; [left; now apply Hc | right; now left].
Qed.

Lemma partition_snoc ks buf r : Agg.partition ks (buf ++ [r]) = partition_step ks (Agg.partition ks buf) r.
Proof. unfold Agg.partition. now rewrite fold_left_app. Qed.

Lemma partition_inv ks buf : PInv ks buf (Agg.partition ks buf).
Proof.
  induction buf as [|r buf IH] using rev_ind.
  - split; [constructor | split; [intros k b [] | intros r []]].
  - rewrite partition_snoc. now apply PInv_step.
Qed.

(* group keys pairwise distinct *)
Theorem partition_keys_nodup ks buf : NoDup (map fst (Agg.partition ks buf)).
Proof. apply partition_inv. Qed.

(* every group is non-empty *)
Theorem partition_nonempty ks buf k b : In (k, b) (Agg.partition ks buf) -> b <> [].
Proof. intros H. now apply (proj1 (proj2 (partition_inv ks buf)) k b H). Qed.

(* the buffer of group k is the restriction of the whole buffer to the rows with key vector k,
   in buffer order *)
Theorem group_is_restriction ks buf k b : In (k, b) (Agg.partition ks buf) ->
  b = filter (fun r => lstr_eqb (key_vector ks r) k) buf.
Proof. intros H. now apply (proj1 (proj2 (partition_inv ks buf)) k b H). Qed.

(* hence any aggregate of group k is that aggregate over the restriction *)
Corollary group_aggregate_is_restriction ks buf k b f key d : In (k, b) (Agg.partition ks buf) ->
  get_aggregate_value f b key d =
  get_aggregate_value f (filter (fun r => lstr_eqb (key_vector ks r) k) buf) key d.
Proof. intros H. now rewrite <- (group_is_restriction ks buf k b H). Qed.

(* every row of group k has key vector k *)
Theorem partition_member ks buf k b r : In (k, b) (Agg.partition ks buf) -> In r b -> key_vector ks r = k.
Proof.
  intros H Hr. rewrite (group_is_restriction ks buf k b H) in Hr.
  apply filter_In in Hr. destruct Hr as [_ Hr]. now apply lstr_eqb_eq.
Qed.

(* every row of the buffer is in the group of its key vector *)
Theorem partition_complete ks buf r : In r buf ->
  exists b, In (key_vector ks r, b) (Agg.partition ks buf) /\ In r b.
Proof.
  intros Hr. pose proof (proj2 (proj2 (partition_inv ks buf)) r Hr) as Hk.
  apply in_map_iff in Hk. destruct Hk as ([k b] & E & Hin). cbn [fst] in E. subst k.
  exists b. split; [exact Hin|]. rewrite (group_is_restriction ks buf _ b Hin).
  apply filter_In. split; [exact Hr | apply lstr_eqb_refl].
Qed.

(* the groups are a partition of the buffer (as multisets of rows) *)
Lemma concat_insert kv r (g : groups) :
  Permutation (concat (map snd (insert_group kv r g))) (r :: concat (map snd g)).
Proof.
  induction g as [|[k b] g IH]; [cbn; apply Permutation_refl|].
  cbn [insert_group]. destruct (lstr_eqb k kv).
  - cbn [map snd concat]. rewrite <- app_assoc. cbn [app].
    apply Permutation_sym, Permutation_middle.
  - cbn [map snd concat]. eapply Permutation_trans.
    + apply Permutation_app_head. exact IH.
    + apply Permutation_sym, Permutation_middle.
Qed.

Theorem partition_perm ks buf : Permutation (concat (map snd (Agg.partition ks buf))) buf.
Proof.
  induction buf as [|r buf IH] using rev_ind; [apply Permutation_refl|].
  rewrite partition_snoc. unfold partition_step. eapply Permutation_trans; [apply concat_insert|].
  eapply Permutation_trans; [apply perm_skip, IH|]. apply Permutation_cons_append.
Qed.

(* conservation: the COUNTs of the groups add up to the COUNT of the buffer ... *)
Definition count_val (b : buffer) : nat := length b.

Lemma length_concat_groups (g : groups) :
  length (concat (map snd g)) = fold_right Nat.add 0%nat (map (fun p => count_val (snd p)) g).
Proof.
  induction g as [|[k b] g IH]; [reflexivity|].
  cbn [map snd concat fold_right]. rewrite app_length, IH. reflexivity.
Qed.

Theorem partition_conservation_count ks buf :
  fold_right Nat.add 0%nat (map (fun p => count_val (snd p)) (Agg.partition ks buf)) = count_val buf.
Proof. rewrite <- length_concat_groups. apply Permutation_length, partition_perm. Qed.

(* ... and so do the SUMs.  sum_val is the number SUM prints (sum_general), for any content. *)
Definition sum_val (key : str) (b : buffer) : N := total (usizes b key).

Definition row_val (key : str) (r : row) : N :=
  match get r key with
  | Some v => match parse_usize v with Some n => n | None => 0 end
  | None => 0
  end.

Lemma sum_val_rows key b : sum_val key b = fold_right (fun r acc => row_val key r + acc) 0 b.
Proof.
  unfold sum_val, usizes, column. induction b as [|r b IH]; [reflexivity|].
  cbn [filter_map fold_right]. unfold row_val at 1. destruct (get r key) as [v|]; [|now rewrite IH].
  cbn [filter_map]. destruct (parse_usize v) as [n|]; [|now rewrite IH].
  cbn [total fold_right]. fold (total (filter_map parse_usize (filter_map (fun r => get r key) b))).
  now rewrite IH.
Qed.

Lemma sum_val_perm key a b : Permutation a b -> sum_val key a = sum_val key b.
Proof.
  intros H. rewrite !sum_val_rows. induction H as [| x l l' _ IH | x y l | l l' l'' _ IH1 _ IH2]; cbn [fold_right].
  - reflexivity.
  - now rewrite IH.
  - lia.
  - congruence.
Qed.

Lemma sum_val_app key a b : sum_val key (a ++ b) = sum_val key a + sum_val key b.
Proof.
  rewrite !sum_val_rows. induction a as [|r a IH]; cbn [app fold_right]; [reflexivity|]. rewrite IH. lia.
Qed.

Lemma sum_val_concat key (g : groups) :
  sum_val key (concat (map snd g)) = fold_right N.add 0 (map (fun p => sum_val key (snd p)) g).
Proof.
  induction g as [|[k b] g IH]; [reflexivity|].
  cbn [map snd concat fold_right]. now rewrite sum_val_app, IH.
Qed.

Theorem partition_conservation_sum ks buf key :
  fold_right N.add 0 (map (fun p => sum_val key (snd p)) (Agg.partition ks buf)) = sum_val key buf.
Proof. rewrite <- sum_val_concat. apply sum_val_perm, partition_perm. Qed.

Lemma in_le_total (l : list N) x : In x l -> x <= fold_right N.add 0 l.
Proof.
  induction l as [|y l IH]; intros H; [destruct H|]. cbn [fold_right].
  destruct H as [-> | H]; [lia | specialize (IH H); lia].
Qed.

(* the same at the level of the printed strings: if the SUM of the whole buffer does not saturate,
   neither does any group, every SUM is the decimal text of its sum_val, and the values add up *)
Theorem partition_conservation_core ks buf key : sum_val key buf < two64 ->
  agg_sum Debug buf key = Ok (show_N (sum_val key buf)) /\
  agg_count buf = show_N (N.of_nat (count_val buf)) /\
  (forall k b, In (k, b) (Agg.partition ks buf) ->
     agg_sum Debug b key = Ok (show_N (sum_val key b)) /\
     agg_count b = show_N (N.of_nat (count_val b))) /\
  fold_right N.add 0 (map (fun p => sum_val key (snd p)) (Agg.partition ks buf)) = sum_val key buf /\
  fold_right Nat.add 0%nat (map (fun p => count_val (snd p)) (Agg.partition ks buf)) = count_val buf.
Proof.
  intros H. split; [now apply sum_general_core|]. split; [reflexivity|]. split.
  - intros k b Hin. split; [|reflexivity]. apply sum_general_core.
    pose proof (partition_conservation_sum ks buf key) as E.
    assert (Hle : sum_val key b <= sum_val key buf).
    { rewrite <- E. apply in_le_total. apply in_map_iff. exists (k, b). split; [reflexivity | exact Hin]. }
    unfold sum_val in *. lia.
  - split; [apply partition_conservation_sum | apply partition_conservation_count].
Qed.

Theorem partition_conservation ks buf key d : sum_val key buf < two64 ->
  get_aggregate_value (Some FnSum) buf key d = Ok (show_N (sum_val key buf)) /\
  get_aggregate_value (Some FnCount) buf key d = Ok (show_N (N.of_nat (count_val buf))) /\
  (forall k b, In (k, b) (Agg.partition ks buf) ->
     get_aggregate_value (Some FnSum) b key d = Ok (show_N (sum_val key b)) /\
     get_aggregate_value (Some FnCount) b key d = Ok (show_N (N.of_nat (count_val b)))) /\
  fold_right N.add 0 (map (fun p => sum_val key (snd p)) (Agg.partition ks buf)) = sum_val key buf /\
  fold_right Nat.add 0%nat (map (fun p => count_val (snd p)) (Agg.partition ks buf)) = count_val buf.
Proof.
  intros H. destruct (partition_conservation_core ks buf key H) as (H1 & H2 & H3 & H4 & H5).
  unfold get_aggregate_value. cbn [get_aggregate_value_b].
  split; [exact H1|]. split; [now rewrite H2|]. split; [|split; assumption].
  intros k b Hin. destruct (H3 k b Hin) as [A B]. split; [exact A | now rewrite B].
Qed.

(* under the canonical-decimal hypothesis sum_val is the textbook sum *)
Lemma sum_val_canonical key buf xs : col_is buf key xs -> Forall in_usize xs ->
  Z.of_N (sum_val key buf) = sum xs.
Proof.
  intros Hc Hu.
  assert (Hpos : Forall (fun x => 0 <= x)%Z xs) by (eapply Forall_impl; [|exact Hu]; unfold in_usize; cbn; intros; lia).
  unfold sum_val, usizes. rewrite (column_col_is _ _ _ Hc), (usizes_canonical xs Hu), (total_to_N xs Hpos).
  pose proof (sum_nonneg xs Hpos). lia.
Qed.

(* ================================================================== *)
(* 6. AVG over f64                                                     *)
(* ================================================================== *)

(* for every non-empty buffer: AVG prints the f64 quotient (usize sum as f64) / (len as f64) *)
Theorem avg_general d buf key : buf <> [] -> sum_val key buf < two64 ->
  get_aggregate_value (Some FnAvg) buf key d = Ok (show_f64 (mean_f (sum_val key buf) (length buf))).
Proof.
  intros Hne H. unfold get_aggregate_value. cbn [get_aggregate_value_b].
  destruct buf as [|r buf]; [contradiction|]. cbn [is_empty]. unfold sum_val, get_buffer_sum.
  rewrite sum_loop_ok by (rewrite N.add_0_l; exact H). now rewrite N.add_0_l.
Qed.

(* without the bound: the mean is taken from the saturated sum (every build, every non-empty buffer) *)
Theorem avg_saturates b d buf key : buf <> [] ->
  get_aggregate_value_b b (Some FnAvg) buf key d =
  Ok (show_f64 (mean_f (N.min (sum_val key buf) (two64 - 1)) (length buf))).
Proof.
  intros Hne. cbn [get_aggregate_value_b].
  destruct buf as [|r buf]; [contradiction|]. cbn [is_empty]. now rewrite buffer_sum_saturates.
Qed.

(* VAR / STDDEV: get_variance takes its mean from the same saturated sum *)
Theorem variance_saturates b buf key n :
  get_variance b buf key n =
  Ok (variance_f (N.min (sum_val key buf) (two64 - 1)) (length buf) n (column buf key)).
Proof. unfold get_variance. now rewrite buffer_sum_saturates. Qed.

Corollary avg_empty d key : get_aggregate_value (Some FnAvg) [] key d = Ok (s "0"%string).
Proof. reflexivity. Qed.

(* AVG is exact when the quotient is an integer, checked exhaustively by the kernel for all
   quotients and lengths below 256 (this is NOT the general `avg_exact_when_representable`
   with bounds 2^53, which would need FloatAxioms and a proof about show_f64; not attempted). *)
From FS Require Import lib.Fin.

Definition avg_chk (p : N * N) : bool :=
  let '(q, l) := p in
  if l =? 0 then true else str_eqb (show_f64 (mean_f (q * l) (N.to_nat l))) (show_N q).

Definition pairs (bits : nat) : list (N * N) :=
  flat_map (fun q => map (fun l => (q, l)) (below_pow2 bits)) (below_pow2 bits).

Lemma avg_chk_all : forallb avg_chk (pairs 8) = true.
Proof. vm_compute. reflexivity. Qed.

Theorem avg_exact_small q len : q < 256 -> (0 < len < 256)%nat ->
  show_f64 (mean_f (q * N.of_nat len) len) = show_N q.
Proof.
  intros Hq Hl. pose proof avg_chk_all as H. rewrite forallb_forall in H.
  specialize (H (q, N.of_nat len)). unfold avg_chk in H.
  assert (E : (N.of_nat len =? 0) = false) by (apply N.eqb_neq; lia).
  rewrite E, Nat2N.id in H. apply str_eqb_eq, H.
  unfold pairs. apply in_flat_map. exists q. split.
  - apply (below_pow2_complete 8). exact Hq.
  - apply in_map. apply (below_pow2_complete 8). change (2 ^ N.of_nat 8) with 256. lia.
Qed.

Corollary avg_exact_small_buffer d buf key xs q : col_is buf key xs -> Forall in_usize xs ->
  (0 < length buf < 256)%nat -> (0 <= q < 256)%Z -> sum xs = (q * Z.of_nat (length buf))%Z ->
  get_aggregate_value (Some FnAvg) buf key d = Ok (show_Z q).
Proof.
  intros Hc Hu Hl Hq Hs. pose proof (sum_val_canonical key buf xs Hc Hu) as Hv.
  assert (E : sum_val key buf = Z.to_N q * N.of_nat (length buf)) by nia.
  rewrite avg_general.
  - rewrite E, avg_exact_small by lia. f_equal. rewrite <- show_Z_of_N. f_equal. lia.
  - destruct buf; [cbn in Hl; lia | discriminate].
  - unfold two64. nia.
Qed.

(* ================================================================== *)
(* 7. Examples (vm_compute on concrete buffers)                        *)
(* ================================================================== *)

Definition mk (key : string) (vals : list string) : buffer := map (fun v => [(s key, s v)]) vals.

(* sizes 6, 2, 2: the strings below are exactly what the real implementation prints *)
Definition ex622 : buffer := mk "size" ["6"; "2"; "2"]%string.
Definition ksize : str := s "size"%string.

Example ex_count : get_aggregate_value (Some FnCount) ex622 ksize None = Ok (s "3"%string).
Proof. vm_compute. reflexivity. Qed.
Example ex_sum : get_aggregate_value (Some FnSum) ex622 ksize None = Ok (s "10"%string).
Proof. vm_compute. reflexivity. Qed.
Example ex_min : get_aggregate_value (Some FnMin) ex622 ksize None = Ok (s "2"%string).
Proof. vm_compute. reflexivity. Qed.
Example ex_max : get_aggregate_value (Some FnMax) ex622 ksize None = Ok (s "6"%string).
Proof. vm_compute. reflexivity. Qed.
Example ex_avg : get_aggregate_value (Some FnAvg) ex622 ksize None = Ok (s "3.3333333333333335"%string).
Proof. vm_compute. reflexivity. Qed.
Example ex_var_pop : get_aggregate_value (Some FnVarPop) ex622 ksize None = Ok (s "3.5555555555555554"%string).
Proof. vm_compute. reflexivity. Qed.
Example ex_var_samp : get_aggregate_value (Some FnVarSamp) ex622 ksize None = Ok (s "5.333333333333334"%string).
Proof. vm_compute. reflexivity. Qed.
Example ex_stddev_pop : get_aggregate_value (Some FnStdDevPop) ex622 ksize None = Ok (s "1.8856180831641267"%string).
Proof. vm_compute. reflexivity. Qed.
Example ex_stddev_samp : get_aggregate_value (Some FnStdDevSamp) ex622 ksize None = Ok (s "2.3094010767585034"%string).
Proof. vm_compute. reflexivity. Qed.

(* the exact model on the same buffer: 32/9 and 16/3, which the f64 strings above approximate *)
Example ex_exact_var_pop : Qeq (exact_variance ex622 ksize 3) (32 # 9).
Proof. vm_compute. reflexivity. Qed.
Example ex_exact_var_samp : Qeq (exact_variance ex622 ksize (samp_n 3)) (16 # 3).
Proof. vm_compute. reflexivity. Qed.
Example ex_textbook_var_pop : Qeq (var_pop [6; 2; 2]%Q) (32 # 9).
Proof. vm_compute. reflexivity. Qed.

(* a perfect square: 2,4,4,4,5,5,7,9 has population variance 4 and standard deviation 2 *)
Definition ex8 : buffer := mk "size" ["2"; "4"; "4"; "4"; "5"; "5"; "7"; "9"]%string.
Example ex8_var : get_aggregate_value (Some FnVarPop) ex8 ksize None = Ok (s "4"%string).
Proof. vm_compute. reflexivity. Qed.
Example ex8_stddev : get_aggregate_value (Some FnStdDevPop) ex8 ksize None = Ok (s "2"%string).
Proof. vm_compute. reflexivity. Qed.
Example ex8_exact : is_stddev 2 (exact_variance ex8 ksize 8).
Proof. split; vm_compute; [discriminate | reflexivity]. Qed.

(* corner cases of the source *)
Example ex_empty_all :
  map (fun f => get_aggregate_value (Some f) [] ksize (Some (s "d"%string)))
      [FnMin; FnMax; FnAvg; FnSum; FnCount; FnStdDevPop; FnStdDevSamp; FnVarPop; FnVarSamp; FnAbs]
  = map (fun x => Ok (s x)) ["0"; "0"; "0"; "0"; "0"; ""; ""; ""; ""; "d"]%string.
Proof. vm_compute. reflexivity. Qed.
Example ex_no_function : get_aggregate_value None ex622 ksize None = Ok [].
Proof. reflexivity. Qed.
(* one row: the sample variants divide by 1 *)
Example ex_single : get_aggregate_value (Some FnVarSamp) (mk "size" ["7"]%string) ksize None = Ok (s "0"%string).
Proof. vm_compute. reflexivity. Qed.
(* MIN/MAX skip what is not an i64, SUM/AVG skip what is not a usize but AVG/VAR still count the row;
   the variance parses as f64, so "2.5" and "-3" enter the squares but not the mean *)
Definition exmixed : buffer := mk "size" ["6"; "abc"; "-3"; "2.5"; ""; "+4"]%string.
Example ex_mixed :
  map (fun f => get_aggregate_value (Some f) exmixed ksize None) [FnMin; FnMax; FnSum; FnCount; FnAvg; FnVarPop]
  = map (fun x => Ok (s x)) ["-3"; "6"; "10"; "6"; "1.6666666666666667"; "7.782407407407407"]%string.
Proof. vm_compute. reflexivity. Qed.
(* a total beyond usize::MAX: SUM stays at 2^64 - 1 in both builds, AVG/VAR/STDDEV use that sum
   (the strings are what the fixed implementation prints) *)
Definition exbig : buffer := mk "size" ["18446744073709551615"; "2"]%string.
Example ex_saturates_debug : get_aggregate_value (Some FnSum) exbig ksize None = Ok (s "18446744073709551615"%string).
Proof. vm_compute. reflexivity. Qed.
Example ex_saturates_release : get_aggregate_value_b Release (Some FnSum) exbig ksize None = Ok (s "18446744073709551615"%string).
Proof. vm_compute. reflexivity. Qed.
Example ex_saturates_avg : get_aggregate_value (Some FnAvg) exbig ksize None = Ok (s "9223372036854776000"%string).
Proof. vm_compute. reflexivity. Qed.
Definition exhalf : buffer := mk "size" ["9223372036854775808"; "9223372036854775808"; "5"]%string.
Example ex_saturates_half : get_aggregate_value (Some FnSum) exhalf ksize None = Ok (s "18446744073709551615"%string).
Proof. vm_compute. reflexivity. Qed.

(* GROUP BY on two keys, groups in order of first occurrence, missing key = empty string *)
Definition exrows : buffer :=
  [ [(s "ext", s "rs"); (s "size", s "6")]; [(s "ext", s "md"); (s "size", s "2")];
    [(s "size", s "9")]; [(s "ext", s "rs"); (s "size", s "2")]; [(s "ext", s ""); (s "size", s "1")] ]%string.
Example ex_partition :
  map (fun g => (fst g, get_aggregate_value (Some FnSum) (snd g) ksize None, length (snd g)))
      (Agg.partition [s "ext"%string] exrows)
  = [ ([s "rs"], Ok (s "8"), 2%nat); ([s "md"], Ok (s "2"), 1%nat); ([[]], Ok (s "10"), 2%nat) ]%string.
Proof. vm_compute. reflexivity. Qed.
Example ex_partition_restriction :
  forallb (fun g => lstr_eqb (map (fun r => match get r ksize with Some v => v | None => [] end) (snd g))
                             (map (fun r => match get r ksize with Some v => v | None => [] end)
                                  (filter (fun r => lstr_eqb (key_vector [s "ext"%string] r) (fst g)) exrows)))
          (Agg.partition [s "ext"%string] exrows) = true.
Proof. vm_compute. reflexivity. Qed.

(* ================================================================== *)
(* 8. Assumptions                                                      *)
(* ================================================================== *)
Print Assumptions count_is_length_core.
Print Assumptions sum_exact_core.
Print Assumptions buffer_sum_saturates.
Print Assumptions sum_saturates.
Print Assumptions sum_general_core.
Print Assumptions sum_canonical_core.
Print Assumptions sum_saturated_core.
Print Assumptions min_exact_core.
Print Assumptions max_exact_core.
Print Assumptions min_exact_nonempty_core.
Print Assumptions partition_conservation_core.
Print Assumptions count_is_length.
Print Assumptions sum_exact.
Print Assumptions sum_saturates_value.
Print Assumptions sum_canonical.
Print Assumptions sum_saturated.
Print Assumptions sum_general.
Print Assumptions aggregate_build_irrelevant.
Print Assumptions aggregate_total.
Print Assumptions min_exact.
Print Assumptions max_exact.
Print Assumptions min_exact_nonempty.
Print Assumptions var_loop_textbook.
Print Assumptions var_pop_textbook.
Print Assumptions var_samp_textbook.
Print Assumptions stddev_pop_sq.
Print Assumptions is_stddev_unique.
Print Assumptions partition_keys_nodup.
Print Assumptions partition_nonempty.
Print Assumptions partition_member.
Print Assumptions partition_complete.
Print Assumptions partition_perm.
Print Assumptions partition_conservation.
Print Assumptions group_is_restriction.
Print Assumptions group_aggregate_is_restriction.
Print Assumptions avg_general.
Print Assumptions avg_saturates.
Print Assumptions variance_saturates.
Print Assumptions avg_exact_small.
Print Assumptions ex_stddev_samp.
