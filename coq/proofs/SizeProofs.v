(* Property C14 and friends: units of parse_filesize are exact, the generated ladder agrees
   with the documented unit table, fractional literals have a pinned semantics, the
   documented format_size examples hold, and (on a stated finite grid) rendering is
   monotone and parses back within half a unit of the last displayed digit. *)
From Coq Require Import String ZArith NArith List Bool Lia Sorted.
From FS Require Import lib.Str lib.Res lib.Dec lib.Fin lib.SoftF64 gen.SizeGen model.Size spec.SizeSpec.
Import ListNotations.
Open Scope Z_scope.

Arguments Z.mul : simpl never.
Arguments Z.add : simpl never.
Arguments Z.pow : simpl never.
Arguments Z.div : simpl never.
Arguments N.mul : simpl never.
Arguments N.add : simpl never.

(* ================================================================== *)
(* 1. strings *)

Lemma utf8_len_pos c : (1 <= utf8_len c)%N.
Proof. unfold utf8_len. destruct (c <? 128)%N, (c <? 2048)%N, (c <? 65536)%N; lia. Qed.

Lemma byte_len_app x y : byte_len (x ++ y) = (byte_len x + byte_len y)%N.
Proof. induction x as [|c x IH]; cbn [byte_len app]; [reflexivity|]. rewrite IH. lia. Qed.

Lemma byte_len_rev x : byte_len (rev x) = byte_len x.
Proof.
  induction x as [|c x IH]; [reflexivity|]. cbn [rev]. rewrite byte_len_app, IH. cbn [byte_len]. lia.
Qed.

Lemma strip_rev_prefix t y : strip_rev (byte_len t) (t ++ y) = Some y.
Proof.
  induction t as [|c t IH]; cbn [byte_len app].
  - destruct y; reflexivity.
  - cbn [strip_rev]. pose proof (utf8_len_pos c) as Hc.
    assert (H0 : ((utf8_len c + byte_len t) =? 0)%N = false) by (apply N.eqb_neq; lia).
    assert (H1 : (utf8_len c <=? utf8_len c + byte_len t)%N = true) by (apply N.leb_le; lia).
    rewrite H0, H1. replace (utf8_len c + byte_len t - utf8_len c)%N with (byte_len t) by lia. exact IH.
Qed.

(* `&string[..length - k]` for a matched suffix never panics and removes exactly the suffix *)
Lemma strip_bytes_suffix x suf : strip_bytes (byte_len suf) (x ++ suf) = Some x.
Proof.
  unfold strip_bytes. rewrite rev_app_distr, <- (byte_len_rev suf), strip_rev_prefix.
  cbn [option_map]. now rewrite rev_involutive.
Qed.

Lemma ends_with_byte_len suf u : ends_with suf u = true -> (byte_len suf <= byte_len u)%N.
Proof. intros H. apply ends_with_spec in H. destruct H as [r ->]. rewrite byte_len_app. lia. Qed.

(* a suffix made of lower-case letters cannot reach into a text that ends in another kind of character *)
Lemma ends_with_after_nonletter suf body c u :
  forallb is_lower suf = true -> is_lower c = false ->
  ends_with suf ((body ++ [c]) ++ u) = ends_with suf u.
Proof.
  intros Hsuf Hc. apply Bool.eq_iff_eq_true. rewrite !ends_with_spec. split.
  - intros [r H]. apply app_eq_app in H. destruct H as [l [[H1 H2]|[H1 H2]]].
    + destruct l as [|x l0].
      * exists []. cbn [app] in *. now subst.
      * exfalso. destruct (@exists_last _ (x :: l0)) as [l' [d Hl]]; [discriminate|].
        rewrite Hl in *. rewrite app_assoc in H1. apply app_inj_tail in H1. destruct H1 as [_ Hcd]. subst d.
        rewrite forallb_forall in Hsuf.
        assert (Hin : In c suf) by (rewrite H2; apply in_or_app; left; apply in_or_app; right; left; reflexivity).
        specialize (Hsuf c Hin). congruence.
    + now exists l.
  - intros [r ->]. exists ((body ++ [c]) ++ r). now rewrite app_assoc.
Qed.

(* characters that lower-casing and space-stripping leave alone *)
Definition stable (c : N) : bool := (lower1 c =? c)%N && negb (c =? 32)%N.

Lemma stable_normal x : forallb stable x = true -> strip_spaces (ascii_lower x) = x.
Proof.
  induction x as [|c x IH]; intros H; [reflexivity|].
  cbn [forallb] in H. apply andb_true_iff in H. destruct H as [Hc Hx].
  unfold stable in Hc. apply andb_true_iff in Hc. destruct Hc as [H1 H2]. apply N.eqb_eq in H1.
  unfold strip_spaces, ascii_lower in *. cbn [map filter]. rewrite H1, H2. f_equal. now apply IH.
Qed.

Lemma digit_stable c : is_digit c = true -> stable c = true.
Proof.
  unfold is_digit, stable, lower1, is_upper. intros H. apply andb_true_iff in H. destruct H as [H1 H2].
  apply N.leb_le in H1, H2.
  assert (E : (65 <=? c)%N = false) by (apply N.leb_gt; lia). rewrite E. cbn [andb].
  rewrite N.eqb_refl. cbn [andb]. apply negb_true_iff. apply N.eqb_neq. lia.
Qed.

Lemma digits_stable ds : forallb is_digit ds = true -> forallb stable ds = true.
Proof.
  induction ds as [|c ds IH]; intros H; [reflexivity|]. cbn [forallb] in *.
  apply andb_true_iff in H. destruct H as [Hc Hd]. rewrite (digit_stable c Hc). now apply IH.
Qed.

Lemma digit_not_lower c : is_digit c = true -> is_lower c = false.
Proof.
  unfold is_digit, is_lower. intros H. apply andb_true_iff in H. destruct H as [H1 H2].
  apply N.leb_le in H1, H2. assert (E : (97 <=? c)%N = false) by (apply N.leb_gt; lia). now rewrite E.
Qed.

(* with the generated flags, normalisation = lower-case then delete spaces *)
Lemma normalize_eq x : normalize x = strip_spaces (ascii_lower x).
Proof. reflexivity. Qed.

Lemma normalize_app body w u :
  forallb stable body = true -> spelling_of u w -> normalize (body ++ w) = body ++ u.
Proof.
  intros Hb Hw. rewrite normalize_eq. unfold ascii_lower, strip_spaces. rewrite map_app, filter_app.
  f_equal; [apply (stable_normal body Hb)|exact Hw].
Qed.

(* ================================================================== *)
(* 2. the ladder on  <number text> ++ <unit> *)

Definition rung_suffix (r : rung) : str := let '(suf, _, _, _, _) := r in suf.
Definition rung_factors (r : rung) : list Z := let '(_, _, _, fs, _) := r in fs.
Definition rung_is_float (r : rung) : bool := let '(_, _, _, _, isf) := r in isf.

(* which rung a unit text selects (first suffix match, in source order) *)
Fixpoint ladder_unit (l : list rung) (u : str) : option rung :=
  match l with
  | [] => None
  | r :: rest => if ends_with (rung_suffix r) u then Some r else ladder_unit rest u
  end.

(* the shape every rung of the source has: `length > len(suffix)`, strip len(suffix), letters only *)
Definition rung_regular (r : rung) : bool :=
  let '(suf, n, k, _, _) := r in
  (n =? byte_len suf)%N && (k =? byte_len suf)%N && forallb is_lower suf.

Lemma ladder_select l body c u :
  forallb rung_regular l = true -> is_lower c = false ->
  ladder l ((body ++ [c]) ++ u) =
  match ladder_unit l u with
  | Some r =>
      if str_eqb (rung_suffix r) u then rung_value r (body ++ [c])
      else ladder [r] ((body ++ [c]) ++ u)
  | None => if size_plain_is_u64 then parse_u64 ((body ++ [c]) ++ u) else None
  end.
Proof.
  intros Hreg Hc. induction l as [|r l IH]; [reflexivity|].
  cbn [forallb] in Hreg. apply andb_true_iff in Hreg. destruct Hreg as [Hr Hl].
  destruct r as [[[[suf n] k] fs] isf]. cbn [ladder ladder_unit rung_suffix].
  unfold rung_regular in Hr. apply andb_true_iff in Hr. destruct Hr as [Hr Hsuf].
  apply andb_true_iff in Hr. destruct Hr as [Hn Hk]. apply N.eqb_eq in Hn, Hk.
  unfold rung_matches. rewrite (ends_with_after_nonletter suf body c u Hsuf Hc).
  destruct (ends_with suf u) eqn:E.
  - pose proof (ends_with_byte_len suf u E) as Hlen.
    assert (Hlt : (n <? byte_len ((body ++ [c]) ++ u))%N = true).
    { apply N.ltb_lt. rewrite !byte_len_app. cbn [byte_len]. pose proof (utf8_len_pos c). lia. }
    rewrite Hlt. cbn [andb rung_suffix].
    destruct (str_eqb suf u) eqn:Eu.
    + apply str_eqb_eq in Eu. subst u. rewrite Hk, strip_bytes_suffix. reflexivity.
    + cbn [ladder]. unfold rung_matches. rewrite (ends_with_after_nonletter suf body c u Hsuf Hc), E.
      reflexivity.
  - rewrite andb_false_r. exact (IH Hl).
Qed.

(* ================================================================== *)
(* 3. the generated ladder against the documented table *)

Definition product (fs : list Z) : Z := fold_right Z.mul 1 fs.

(* a documented unit selects the rung whose suffix is exactly that unit (no earlier rung
   shadows it), the rung's factors multiply to the documented value and are positive, and
   only "b" is an integer rung; the bare number falls through to the final u64 parse *)
Definition doc_check (e : str * Z) : bool :=
  let '(u, M) := e in
  match ladder_unit size_ladder u with
  | Some r =>
      str_eqb (rung_suffix r) u && (product (rung_factors r) =? M) &&
      forallb (fun f => 0 <? f) (rung_factors r) &&
      Bool.eqb (rung_is_float r) (negb (str_eqb u (s "b")))
  | None => str_eqb u [] && (M =? 1) && size_plain_is_u64
  end.

(* conversely every rung of the source is a documented unit with the documented value *)
Definition rung_documented (r : rung) : bool :=
  match unit_multiplier (rung_suffix r) with
  | Some M => product (rung_factors r) =? M
  | None => false
  end.

Theorem ladder_matches_doc_table :
  forallb rung_regular size_ladder = true /\
  forallb doc_check doc_units = true /\
  forallb rung_documented size_ladder = true.
Proof. vm_compute. repeat split; reflexivity. Qed.

(* the same, unfolded into a statement about a documented unit *)
Lemma doc_unit_rung u M :
  unit_multiplier u = Some M ->
  (exists r, ladder_unit size_ladder u = Some r /\ rung_suffix r = u /\ product (rung_factors r) = M /\
             Forall (fun f => 0 < f) (rung_factors r) /\ rung_is_float r = negb (str_eqb u (s "b")))
  \/ (ladder_unit size_ladder u = None /\ u = [] /\ M = 1).
Proof.
  intros Hu.
  assert (Hin : In (u, M) doc_units).
  { unfold unit_multiplier in Hu. revert Hu. generalize doc_units. intros t. induction t as [|[k v] t IH]; cbn [assoc]; [discriminate|].
    destruct (str_eqb u k) eqn:E.
    - intros H. inversion H; subst. apply str_eqb_eq in E. subst. now left.
    - intros H. right. now apply IH. }
  destruct ladder_matches_doc_table as (_ & Hdoc & _).
  rewrite forallb_forall in Hdoc. specialize (Hdoc _ Hin). unfold doc_check in Hdoc.
  destruct (ladder_unit size_ladder u) as [r|].
  - left. exists r. split; [reflexivity|].
    apply andb_true_iff in Hdoc. destruct Hdoc as [Hdoc Hf].
    apply andb_true_iff in Hdoc. destruct Hdoc as [Hdoc Hpos].
    apply andb_true_iff in Hdoc. destruct Hdoc as [Hs Hp].
    apply str_eqb_eq in Hs. apply Z.eqb_eq in Hp. apply Bool.eqb_prop in Hf.
    repeat split; try assumption.
    apply Forall_forall. intros f Hf'. rewrite forallb_forall in Hpos. specialize (Hpos f Hf'). now apply Z.ltb_lt in Hpos.
  - right. apply andb_true_iff in Hdoc. destruct Hdoc as [Hdoc _].
    apply andb_true_iff in Hdoc. destruct Hdoc as [Hs Hp].
    apply str_eqb_eq in Hs. apply Z.eqb_eq in Hp. auto.
Qed.

(* the master lemma: <text ending in a non-letter> ++ <spelling of a documented unit> *)
Lemma parse_number_unit body c u M w :
  unit_multiplier u = Some M -> spelling_of u w ->
  forallb stable (body ++ [c]) = true -> is_lower c = false ->
  parse_filesize ((body ++ [c]) ++ w) =
  match ladder_unit size_ladder u with
  | Some r => rung_value r (body ++ [c])
  | None => parse_u64 (body ++ [c])
  end.
Proof.
  intros Hu Hw Hst Hc. unfold parse_filesize. rewrite (normalize_app _ w u Hst Hw).
  destruct ladder_matches_doc_table as (Hreg & _ & _).
  rewrite (ladder_select size_ladder body c u Hreg Hc).
  destruct (doc_unit_rung u M Hu) as [(r & Hr & Hs & _)|(Hn & Hu0 & _)].
  - rewrite Hr. rewrite Hs, str_eqb_refl. reflexivity.
  - rewrite Hn. subst u. now rewrite app_nil_r.
Qed.

(* ================================================================== *)
(* 4. exact products *)

Lemma product_pos fs : Forall (fun f => 0 < f) fs -> 1 <= product fs.
Proof.
  induction 1 as [|f fs Hf _ IH]; cbn [product fold_right]; [lia|]. fold (product fs). nia.
Qed.

Lemma apply_factors_cons x f fs : apply_factors x (f :: fs) = apply_factors (mul x (of_Z f)) fs.
Proof. reflexivity. Qed.

(* a dyadic rational times integer factors, every partial product below 2^53: no rounding at all *)
Lemma apply_factors_dyadic fs : forall a j,
  0 < a -> Forall (fun f => 0 < f) fs -> a * product fs < p53 -> 0 <= j <= 500 ->
  apply_factors (of_dyadic a j) fs = of_dyadic (a * product fs) j.
Proof.
  induction fs as [|f fs IH]; intros a j Ha Hpos Hlt Hj.
  - cbn [product fold_right]. now rewrite Z.mul_1_r.
  - inversion Hpos as [|? ? Hf Hpos']; subst. cbn [product fold_right] in *. fold (product fs) in *.
    pose proof (product_pos fs Hpos') as HP.
    assert (Haf : 0 < a * f < p53) by nia.
    assert (Hfp : 0 < f < p53) by nia.
    assert (Hap : 0 < a < p53) by nia.
    rewrite apply_factors_cons, (of_Z_exact f Hfp). unfold of_int.
    rewrite (mul_exact_dyadic a j f 0) by lia. rewrite Z.add_0_r.
    rewrite IH; try assumption; try lia.
    f_equal. ring.
Qed.

Definition zero_or_nan (x : f64) : Prop := x = FNaN \/ exists a, x = FZero a.

Lemma apply_factors_zero fs : forall x, zero_or_nan x -> to_u64 (apply_factors x fs) = 0.
Proof.
  induction fs as [|f fs IH]; intros x Hx.
  - destruct Hx as [->|[a ->]]; reflexivity.
  - rewrite apply_factors_cons. apply IH.
    destruct Hx as [->|[a ->]]; destruct (of_Z f); cbn [mul]; unfold zero_or_nan; eauto.
Qed.

Lemma apply_factors_u64_exact fs : forall n,
  Forall (fun f => 0 < f) fs -> Z.of_N n * product fs < 18446744073709551616 ->
  apply_factors_u64 n fs = Z.to_N (Z.of_N n * product fs).
Proof.
  induction fs as [|f fs IH]; intros n Hpos Hlt.
  - cbn [product fold_right apply_factors_u64 fold_left]. rewrite Z.mul_1_r. now rewrite N2Z.id.
  - inversion Hpos as [|? ? Hf Hpos']; subst. cbn [product fold_right] in *. fold (product fs) in *.
    pose proof (product_pos fs Hpos') as HP.
    unfold apply_factors_u64. cbn [fold_left]. fold (apply_factors_u64 ((n * Z.to_N f) mod 18446744073709551616)%N fs).
    assert (Hsmall : (n * Z.to_N f < 18446744073709551616)%N).
    { apply N2Z.inj_lt. rewrite N2Z.inj_mul, Z2N.id by lia. change (Z.of_N 18446744073709551616) with 18446744073709551616. nia. }
    rewrite N.mod_small by exact Hsmall.
    rewrite IH; try assumption.
    + f_equal. rewrite N2Z.inj_mul, Z2N.id by lia. ring.
    + rewrite N2Z.inj_mul, Z2N.id by lia. replace (Z.of_N n * f * product fs) with (Z.of_N n * (f * product fs)) by ring. exact Hlt.
Qed.

(* ---------------- the text show_N n ---------------- *)

Lemma show_N_last n : exists body c, show_N n = body ++ [c] /\ is_digit c = true /\ forallb is_digit (body ++ [c]) = true.
Proof.
  pose proof (show_N_digits n) as Hd. pose proof (parse_show_N n) as Hp.
  destruct (show_N n) as [|x l] eqn:E; [discriminate|].
  destruct (@exists_last _ (x :: l)) as [body [c Hl]]; [discriminate|].
  exists body, c. rewrite Hl in *. split; [reflexivity|]. split; [|exact Hd].
  rewrite forallb_app in Hd. apply andb_true_iff in Hd. destruct Hd as [_ Hc]. cbn [forallb] in Hc.
  now rewrite andb_true_r in Hc.
Qed.

Lemma parse_unsigned_nosign bound c r :
  c <> 43%N ->
  parse_unsigned bound (c :: r) =
  match parse_N (c :: r) with Some n => if (n <? bound)%N then Some n else None | None => None end.
Proof.
  intros Hne. unfold parse_unsigned.
  destruct c as [|p]; [reflexivity|].
  do 6 (destruct p as [p|p|]; try reflexivity). congruence.
Qed.

Lemma parse_u64_digits ds n :
  forallb is_digit ds = true -> parse_N ds = Some n -> (n < 18446744073709551616)%N -> parse_u64 ds = Some n.
Proof.
  intros Hd Hp Hn. unfold parse_u64.
  destruct ds as [|c r]; [discriminate|].
  cbn [forallb] in Hd. apply andb_true_iff in Hd. destruct Hd as [Hc _].
  rewrite parse_unsigned_nosign by (intros ->; discriminate).
  rewrite Hp. apply N.ltb_lt in Hn. now rewrite Hn.
Qed.

(* ================================================================== *)
(* C14  units_exact *)

Theorem units_exact u M w n :
  unit_multiplier u = Some M ->          (* u is a unit of the documented table, M its multiplier *)
  spelling_of u w ->                     (* w spells u: any letter case, spaces anywhere *)
  Z.of_N n * M < 2 ^ 53 ->
  parse_filesize (show_N n ++ w) = Some (Z.to_N (Z.of_N n * M)).
Proof.
  intros Hu Hw Hlt. change (2 ^ 53) with p53 in Hlt.
  destruct (show_N_last n) as (body & c & Hshow & Hc & Hd).
  pose proof (parse_show_N n) as Hp. rewrite Hshow in *.
  rewrite (parse_number_unit body c u M w Hu Hw (digits_stable _ Hd) (digit_not_lower c Hc)).
  assert (Hne : body ++ [c] <> []) by (destruct body; discriminate).
  destruct (doc_unit_rung u M Hu) as [(r & Hr & Hs & Hprod & Hpos & Hfl)|(Hn & Hu0 & HM)].
  - rewrite Hr. destruct r as [[[[suf n0] k] fs] isf]. cbn [rung_suffix rung_factors rung_is_float] in *.
    pose proof (product_pos fs Hpos) as HP. rewrite Hprod in HP.
    unfold rung_value. destruct isf.
    + rewrite (parse_f64_digits _ n Hne Hd Hp). cbn [option_map]. f_equal. f_equal.
      destruct (Z.eq_dec (Z.of_N n) 0) as [Hz|Hnz].
      * rewrite Hz, dec_value_zero. rewrite apply_factors_zero by (right; eauto). lia.
      * assert (Hn : 0 < Z.of_N n < p53) by nia.
        rewrite (dec_value_int _ _ Hn) by lia. unfold of_int.
        assert (Hlt' : Z.of_N n * product fs < p53) by (rewrite Hprod; exact Hlt).
        rewrite (apply_factors_dyadic fs (Z.of_N n) 0 ltac:(lia) Hpos Hlt' ltac:(lia)).
        rewrite to_u64_dyadic by (rewrite ?Hprod; nia). change (2 ^ 0) with 1. rewrite Z.div_1_r. now rewrite Hprod.
    + rewrite (parse_u64_digits _ n Hd Hp).
      * cbn [option_map]. f_equal. rewrite apply_factors_u64_exact; try assumption; rewrite Hprod; [reflexivity|].
        unfold p53 in Hlt. lia.
      * apply N2Z.inj_lt. change (Z.of_N 18446744073709551616) with 18446744073709551616. unfold p53 in Hlt. nia.
  - rewrite Hn. subst M. rewrite Z.mul_1_r in *. rewrite N2Z.id.
    apply parse_u64_digits; try assumption.
    apply N2Z.inj_lt. change (Z.of_N 18446744073709551616) with 18446744073709551616. unfold p53 in Hlt. lia.
Qed.

Example units_exact_ex1 : parse_filesize (s "8796093022207 KiB") = Some 9007199254739968%N.
Proof. vm_compute. reflexivity. Qed.   (* (2^43 - 1) * 1024 = 2^53 - 1024 *)
Example units_exact_ex2 : parse_filesize (s "9007 tB") = Some 9007000000000000%N.
Proof. vm_compute. reflexivity. Qed.
Example units_exact_ex3 : parse_filesize (s "00123  G i B") = Some 132070244352%N.
Proof. vm_compute. reflexivity. Qed.
(* the bound matters: beyond 2^53 the f64 detour loses the low bits (2^53 + 1 is not a double) *)
Example units_exact_bound_sharp : parse_filesize (s "9007199254740993") = Some 9007199254740993%N /\
  parse_filesize (s "9007199254740993b") = Some 9007199254740993%N /\
  parse_filesize (s "8796093022209k") = Some 9007199254742016%N /\
  (8796093022209 * 1024 = 9007199254742016)%Z /\
  parse_filesize (s "9007199254741kb") = Some 9007199254741000%N /\
  parse_filesize (s "9007199254740993e0k") = Some 9223372036854775808%N.   (* (2^53+1) k -> 2^63, not 2^63 + 1024 *)
Proof. vm_compute. repeat split; reflexivity. Qed.

(* ================================================================== *)
(* 5. fractional literals *)

(* the factors the source applies for a unit, in order (from the generated table) *)
Definition unit_factors (u : str) : list Z :=
  match ladder_unit size_ladder u with Some r => rung_factors r | None => [] end.

(* what the code computes for  <f64 text> <unit>: parse, multiply factor by factor with
   binary64 rounding after every product, then truncate/saturate to u64 *)
Definition float_semantics (u : str) (v : f64) : N := Z.to_N (to_u64 (apply_factors v (unit_factors u))).

Lemma float_unit_value u M body :
  unit_multiplier u = Some M -> u <> s "b" -> u <> [] ->
  match ladder_unit size_ladder u with
  | Some r => rung_value r body
  | None => parse_u64 body
  end = option_map (float_semantics u) (parse_f64 body).
Proof.
  intros Hu Hb He.
  destruct (doc_unit_rung u M Hu) as [(r & Hr & Hs & Hprod & Hpos & Hfl)|(Hn & Hu0 & HM)]; [|congruence].
  unfold float_semantics, unit_factors. rewrite Hr.
  destruct r as [[[[suf n0] k] fs] isf]. cbn [rung_suffix rung_factors rung_is_float] in *.
  assert (Hf : str_eqb u (s "b") = false).
  { destruct (str_eqb u (s "b")) eqn:E; [|reflexivity]. apply str_eqb_eq in E. congruence. }
  rewrite Hf in Hfl. cbn [negb] in Hfl. subst isf. reflexivity.
Qed.

Lemma dot_stable : stable 46%N = true. Proof. reflexivity. Qed.

Lemma decimal_literal_shape ds1 ds2 :
  forallb is_digit ds1 = true -> forallb is_digit ds2 = true -> ds2 <> [] ->
  exists body c, ds1 ++ 46%N :: ds2 = body ++ [c] /\ forallb stable (body ++ [c]) = true /\ is_lower c = false.
Proof.
  intros H1 H2 Hne. destruct (@exists_last _ ds2 Hne) as [ds2' [c ->]].
  exists (ds1 ++ 46%N :: ds2'), c. split; [now rewrite <- app_assoc|]. split.
  - rewrite <- app_assoc. cbn [app]. rewrite forallb_app. cbn [forallb]. rewrite dot_stable.
    rewrite (digits_stable _ H1), (digits_stable _ H2). reflexivity.
  - rewrite forallb_app in H2. apply andb_true_iff in H2. destruct H2 as [_ Hc]. cbn [forallb] in Hc.
    rewrite andb_true_r in Hc. now apply digit_not_lower.
Qed.

(* fraction_semantics: the value of  digits '.' digits <unit>  is the truncation of the
   SEQUENTIALLY ROUNDED product  ((d * f1) * f2) ... * fk  of the correctly rounded literal *)
Theorem fraction_semantics u M w ds1 ds2 D :
  unit_multiplier u = Some M -> u <> s "b" -> u <> [] -> spelling_of u w ->
  ds1 <> [] -> forallb is_digit ds1 = true -> ds2 <> [] -> forallb is_digit ds2 = true ->
  parse_N (ds1 ++ ds2) = Some D ->
  parse_f64 (ds1 ++ 46%N :: ds2) =
    Some (dec_value false (Z.of_N D) (Z.of_nat (length (ds1 ++ ds2))) (- Z.of_nat (length ds2))) /\
  parse_filesize ((ds1 ++ 46%N :: ds2) ++ w) =
    Some (Z.to_N (to_u64 (apply_factors
            (dec_value false (Z.of_N D) (Z.of_nat (length (ds1 ++ ds2))) (- Z.of_nat (length ds2)))
            (unit_factors u)))).
Proof.
  intros Hu Hb He Hw Hne1 Hd1 Hne2 Hd2 HD.
  pose proof (parse_f64_decimal ds1 ds2 D Hne1 Hd1 Hd2 HD) as Hpf. split; [exact Hpf|].
  destruct (decimal_literal_shape ds1 ds2 Hd1 Hd2 Hne2) as (body & c & Hshape & Hst & Hc).
  rewrite Hshape in *.
  rewrite (parse_number_unit body c u M w Hu Hw Hst Hc).
  rewrite (float_unit_value u M _ Hu Hb He), Hpf. reflexivity.
Qed.

(* the same for ANY text the f64 parser accepts that ends in a non-letter (exponents, signs, ...) *)
Theorem number_unit_semantics u M w body c :
  unit_multiplier u = Some M -> u <> s "b" -> u <> [] -> spelling_of u w ->
  forallb stable (body ++ [c]) = true -> is_lower c = false ->
  parse_filesize ((body ++ [c]) ++ w) = option_map (float_semantics u) (parse_f64 (body ++ [c])).
Proof.
  intros Hu Hb He Hw Hst Hc. rewrite (parse_number_unit body c u M w Hu Hw Hst Hc).
  apply (float_unit_value u M _ Hu Hb He).
Qed.

Example fraction_semantics_ex :   (* 0.1 is not a double: 0.1 TB = 99999999999 bytes + change, truncated *)
  parse_filesize (s "0.1 GB") = Some 100000000%N /\
  parse_filesize (s "0.3gb") = Some 300000000%N /\
  parse_filesize (s "0.7 tb") = Some 700000000000%N /\
  parse_filesize (s "1.1 kb") = Some 1100%N /\
  parse_filesize (s "4.35 kb") = Some 4350%N /\
  parse_filesize (s "1.005kb") = Some 1004%N /\        (* 1.005 is below 1.005: 1004.99999999999988631316... *)
  parse_filesize (s "0.0001 tb") = Some 100000000%N /\
  parse_filesize (s "2.675mb") = Some 2675000%N.
Proof. vm_compute. repeat split; reflexivity. Qed.

(* fraction_exact: a literal whose value is the dyadic rational a / 2^j *)
Theorem fraction_exact_dyadic u M w ds1 ds2 D a j :
  unit_multiplier u = Some M -> u <> s "b" -> u <> [] -> spelling_of u w ->
  ds1 <> [] -> forallb is_digit ds1 = true -> ds2 <> [] -> forallb is_digit ds2 = true ->
  parse_N (ds1 ++ ds2) = Some D ->
  0 < a -> 0 <= j <= 500 ->
  Z.of_N D * 2 ^ j = a * 10 ^ Z.of_nat (length ds2) ->      (* the literal denotes a / 2^j *)
  a * M < 2 ^ 53 ->
  parse_filesize ((ds1 ++ 46%N :: ds2) ++ w) = Some (Z.to_N (a * M / 2 ^ j)).   (* floor (d * M) *)
Proof.
  intros Hu Hb He Hw Hne1 Hd1 Hne2 Hd2 HD Ha Hj Hval Hlt. change (2 ^ 53) with p53 in Hlt.
  destruct (fraction_semantics u M w ds1 ds2 D Hu Hb He Hw Hne1 Hd1 Hne2 Hd2 HD) as [_ ->].
  destruct (doc_unit_rung u M Hu) as [(r & Hr & Hs & Hprod & Hpos & Hfl)|(Hn & Hu0 & HM)]; [|congruence].
  unfold unit_factors. rewrite Hr.
  pose proof (product_pos _ Hpos) as HP. rewrite Hprod in HP.
  assert (Hap : 0 < a < p53) by nia.
  rewrite (dec_value_dyadic (Z.of_N D) _ (Z.of_nat (length ds2)) a j); try lia; try assumption.
  - assert (Hlt' : a * product (rung_factors r) < p53) by (rewrite Hprod; exact Hlt).
    rewrite (apply_factors_dyadic _ a j Ha Hpos Hlt' Hj).
    rewrite to_u64_dyadic by (rewrite ?Hprod; nia). now rewrite Hprod.
  - rewrite app_length. lia.
Qed.

Lemma binary_unit_documented u : In u binary_units -> exists M, unit_multiplier u = Some M /\ u <> s "b" /\ u <> [].
Proof.
  intros H. cbn in H.
  repeat (destruct H as [<-|H]; [eexists; split; [vm_compute; reflexivity|split; discriminate]|]). contradiction.
Qed.

(* fraction_exact_binary: the instance asked for (units k, kib, m, mib, g, gib, t, tib) *)
Theorem fraction_exact_binary u M w ds1 ds2 D a j :
  In u binary_units -> unit_multiplier u = Some M -> spelling_of u w ->
  ds1 <> [] -> forallb is_digit ds1 = true -> ds2 <> [] -> forallb is_digit ds2 = true ->
  parse_N (ds1 ++ ds2) = Some D ->
  0 < a -> 0 <= j <= 500 ->
  Z.of_N D * 2 ^ j = a * 10 ^ Z.of_nat (length ds2) ->
  a * M < 2 ^ 53 ->
  parse_filesize ((ds1 ++ 46%N :: ds2) ++ w) = Some (Z.to_N (a * M / 2 ^ j)).
Proof.
  intros Hin Hu. destruct (binary_unit_documented u Hin) as (M' & _ & Hb & He).
  now apply fraction_exact_dyadic.
Qed.

Example fraction_exact_ex1 : parse_filesize (s "1.5 KiB") = Some 1536%N.              (* 3/2 * 1024 *)
Proof. vm_compute. reflexivity. Qed.
Example fraction_exact_ex2 : parse_filesize (s "0.0009765625k") = Some 1%N.           (* 1/1024 * 1024 *)
Proof. vm_compute. reflexivity. Qed.
Example fraction_exact_ex3 : parse_filesize (s "2.0001220703125 g") = Some 2147614720%N.   (* 16385/8192 GiB *)
Proof. vm_compute. reflexivity. Qed.
Example fraction_exact_ex4 : parse_filesize (s "0.00048828125 kib") = Some 0%N.        (* 1/2048 KiB = half a byte: floor *)
Proof. vm_compute. reflexivity. Qed.
Example fraction_exact_ex5 : parse_filesize (s "0.375kb") = Some 375%N.               (* dyadic literal, decimal unit *)
Proof. vm_compute. reflexivity. Qed.

(* ================================================================== *)
(* 6. the documented FORMAT_SIZE examples (docs/usage.md, "Let's try FORMAT_SIZE ...");
      format_size(x) without a specifier passes "" (function.rs) *)

Theorem format_examples :
  format_filesize 1678123 (s "")        = Ok (s "1.60MiB") /\
  format_filesize 1678123 (s " ")       = Ok (s "1.60 MiB") /\
  format_filesize 1678123 (s "%.0")     = Ok (s "2MiB") /\
  format_filesize 1678123 (s "%.1")     = Ok (s "1.6MiB") /\
  format_filesize 1678123 (s "%.2")     = Ok (s "1.60MiB") /\
  format_filesize 1678123 (s "%.2 ")    = Ok (s "1.60 MiB") /\
  format_filesize 1678123 (s "%.2 d")   = Ok (s "1.68 MB") /\
  format_filesize 1678123 (s "%.2 c")   = Ok (s "1.60 MB") /\
  format_filesize 1678123 (s "%.2 k")   = Ok (s "1638.79 KiB") /\
  format_filesize 1678123 (s "%.2 ck")  = Ok (s "1638.79 KB") /\
  format_filesize 1678123 (s "%.0 ck")  = Ok (s "1639 KB") /\
  format_filesize 1678123 (s "%.0 kb")  = Ok (s "1678 KB") /\
  format_filesize 1678123 (s "%.0kb")   = Ok (s "1678KB") /\
  format_filesize 1678123 (s "%.0s")    = Ok (s "2M") /\
  format_filesize 1678123 (s "%.0 s")   = Ok (s "2 M").
Proof. vm_compute. repeat split; reflexivity. Qed.

(* behaviours the table does not mention, pinned as examples *)
Example format_more_examples :
  format_filesize 1678123 (s "q") = Exit2 (s "Unknown file size modifier: q") /\
  format_filesize 1678123 (s "%2k") = Ok (s "1.60MiB") /\          (* regex matches the empty string at 0: specifier ignored *)
  format_filesize 1536 (s "%.0k") = Ok (s "2KiB") /\               (* 1.5 -> 2, *)
  format_filesize 2560 (s "%.0k") = Ok (s "2KiB") /\               (* 2.5 -> 2: ties to even *)
  format_filesize 1 (s "%.3 e") = Ok (s "0 EiB") /\                (* 2^-60 <= f64::EPSILON counts as "no fraction" *)
  format_filesize 2048 (s "%.3k") = Ok (s "2KiB") /\               (* integral value: decimal_zeroes = 0 wins *)
  format_filesize 1 (s "%.2147483648") = Exit2 (s "Incorrect number of decimal places in file size format: 2147483648") /\
  format_filesize 1537 (s "%.65536k") = Exit2 (s "Incorrect number of decimal places in file size format: 65536") /\
  format_filesize 18446744073709551615 (s "") = Ok (s "16EiB").
Proof. vm_compute. repeat split; reflexivity. Qed.

(* ================================================================== *)
(* 7. monotonicity and round trip of the default rendering, on a finite grid.
      NOT a general proof: exhaustive evaluation over
        grid = all sizes 0 .. 2^16 + 1,  2^k - 1, 2^k, 2^k + 1 for 17 <= k <= 63,  2^64 - 1
      (so every 2^k - 1, 2^k, 2^k + 1 with k <= 63 is in it), lifted with forallb_forall. *)

Definition render (n : N) : str := match format_filesize n [] with Ok t => t | _ => [] end.

(* an independent reader of the rendered text: <digits>[.<2 digits>]<unit of the IEC table>
   -> (value in 1/100 byte, unit in bytes, number of decimals shown) *)
Definition iec_units : list (str * Z) :=
  [ (s "B", 1); (s "KiB", 1024); (s "MiB", 1024 ^ 2); (s "GiB", 1024 ^ 3); (s "TiB", 1024 ^ 4);
    (s "PiB", 1024 ^ 5); (s "EiB", 1024 ^ 6) ]%string.

Definition read_rendered (t : str) : option (Z * Z * Z) :=
  let '(ip, r1) := span_digits t in
  match ip with
  | [] => None
  | _ =>
      match r1 with
      | 46%N :: r =>
          let '(fp, r2) := span_digits r in
          if (length fp =? 2)%nat then
            match assoc r2 iec_units with
            | Some U => Some ((digits_val ip * 100 + digits_val fp) * U, U, 2)
            | None => None
            end
          else None
      | _ =>
          match assoc r1 iec_units with
          | Some U => Some (digits_val ip * 100 * U, U, 0)
          | None => None
          end
      end
  end.

(* value of the rendered text in 1/100 byte *)
Definition centibytes_of (t : str) : Z :=
  match read_rendered t with Some (v, _, _) => v | None => -1 end.

(* the rendered text t is within half a unit of its last displayed digit of the true size n *)
Definition accurate_text (t : str) (n : N) : bool :=
  match read_rendered t with
  | Some (v, U, places) => 2 * Z.abs (v - 100 * Z.of_N n) <=? (if places =? 2 then U else 100 * U)
  | None => false
  end.

(* parse_filesize reads the rendered text back to within half a unit of the last displayed
   digit, plus the one byte that the `as u64` truncation can cost *)
Definition roundtrips_text (t : str) (n : N) : bool :=
  match read_rendered t, parse_filesize t with
  | Some (_, U, places), Some p =>
      2 * Z.abs (100 * Z.of_N p - 100 * Z.of_N n) <=? (if places =? 2 then U else 100 * U) + 200
  | _, _ => false
  end.

Definition rendered_centibytes (n : N) : Z := centibytes_of (render n).
Definition accurate (n : N) : bool := accurate_text (render n) n.
Definition roundtrips (n : N) : bool := roundtrips_text (render n) n.
