(* Flat formats (tabs, lines, list): with a known number of columns the output is read back
   exactly when no value contains the separator or the row terminator. *)
From Coq Require Import String List Arith NArith Bool Lia.
From FS Require Import lib.Str model.Format model.Decode proofs.Common proofs.Demo.
Import ListNotations.
Open Scope N_scope.

Lemma flat_one sep v : flat_elements sep [v] = v.
Proof. reflexivity. Qed.
Lemma flat_cons2 sep v v' vs :
  flat_elements sep (v :: v' :: vs) = (v ++ [sep]) ++ flat_elements sep (v' :: vs).
Proof. reflexivity. Qed.

Section Flat.
  Variables sep rowend : N.
  Variable n1 : nat.                     (* number of columns minus one *)

  Definition clean_char (c : N) : bool := negb ((c =? sep) || (c =? rowend)).
  Definition clean (v : str) : bool := forallb clean_char v.

  Lemma clean_char_false c : clean_char c = true -> (c =? sep) = false /\ (c =? rowend) = false.
  Proof.
    unfold clean_char. intros H. apply negb_true_iff in H. apply orb_false_elim in H. exact H.
  Qed.

  Lemma f_plain j cur row rows c r : clean_char c = true ->
    fgo sep rowend n1 j cur row rows (c :: r) = fgo sep rowend n1 j (c :: cur) row rows r.
  Proof.
    intros H. apply clean_char_false in H. destruct H as [Hs He].
    destruct j as [|j]; cbn [fgo]; rewrite Hs, He; reflexivity.
  Qed.

  Lemma f_sep j cur row rows r :
    fgo sep rowend n1 (S j) cur row rows (sep :: r) = fgo sep rowend n1 j [] (rev cur :: row) rows r.
  Proof. cbn [fgo]. rewrite N.eqb_refl. reflexivity. Qed.

  Lemma f_rowend cur row rows r :
    fgo sep rowend n1 O cur row rows (rowend :: r)
    = fgo sep rowend n1 n1 [] [] (rev (rev cur :: row) :: rows) r.
  Proof. cbn [fgo]. rewrite N.eqb_refl. reflexivity. Qed.

  Lemma f_end rows : fgo sep rowend n1 n1 [] [] rows [] = Some (rev rows).
  Proof. cbn [fgo]. rewrite Nat.eqb_refl. reflexivity. Qed.

  Lemma fgo_body v : forall j cur row rows rest, clean v = true ->
    fgo sep rowend n1 j cur row rows (v ++ rest) = fgo sep rowend n1 j (rev v ++ cur) row rows rest.
  Proof.
    induction v as [|c v IH]; intros j cur row rows rest H; [reflexivity|].
    cbn [clean forallb] in H. apply andb_true_iff in H. destruct H as [Hc Hv].
    cbn [app rev]. rewrite (f_plain j cur row rows c _ Hc).
    rewrite IH by exact Hv. rewrite <- app_assoc. reflexivity.
  Qed.

  (* one row of j+1 values *)
  Lemma fgo_row vs : forall j v row rows rest,
    length vs = j -> Forall (fun x => clean x = true) (v :: vs) ->
    fgo sep rowend n1 j [] row rows (flat_elements sep (v :: vs) ++ rowend :: rest)
    = fgo sep rowend n1 n1 [] [] ((rev row ++ v :: vs) :: rows) rest.
  Proof.
    induction vs as [|v' vs IH]; intros j v row rows rest Hlen H;
      inversion H as [|x l Hv Hvs]; subst.
    - cbn [length]. rewrite flat_one, fgo_body by exact Hv.
      rewrite f_rowend, app_nil_r, rev_involutive. reflexivity.
    - cbn [length]. rewrite flat_cons2, <- !app_assoc. rewrite fgo_body by exact Hv.
      cbn [app]. rewrite f_sep, app_nil_r, rev_involutive.
      rewrite IH by (try reflexivity; exact Hvs). cbn [rev]. rewrite <- app_assoc. reflexivity.
  Qed.

  Definition flat_line (vs : list str) : str := flat_elements sep vs ++ [rowend].

  Lemma fgo_rows vt : forall rows,
    Forall (fun vs => length vs = S n1 /\ Forall (fun x => clean x = true) vs) vt ->
    fgo sep rowend n1 n1 [] [] rows (concat (map flat_line vt)) = Some (rev rows ++ vt).
  Proof.
    induction vt as [|vs vt IH]; intros rows H.
    - cbn [map concat]. rewrite f_end, app_nil_r. reflexivity.
    - inversion H as [|x l [Hlen Hvs] Hvt]; subst.
      destruct vs as [|v vs]; [discriminate|]. cbn [length] in Hlen. injection Hlen as Hlen.
      cbn [map concat]. unfold flat_line at 1. rewrite <- app_assoc. cbn [app].
      rewrite (fgo_row vs n1 v [] rows _ Hlen Hvs). cbn [rev app].
      rewrite IH by exact Hvt. cbn [rev]. rewrite <- app_assoc. reflexivity.
  Qed.
End Flat.

(* the three writers *)
Lemma emit_doc_tabs t : emit_doc Tabs t = concat (map (flat_line 9 10) (values t)).
Proof.
  unfold emit_doc, emit_doc_with, values. cbn [header_with footer_with row_sep_with app].
  rewrite app_nil_r, join_nil_sep, map_map. reflexivity.
Qed.
Lemma emit_doc_lines t : emit_doc Lines t = concat (map (flat_line 10 10) (values t)).
Proof.
  unfold emit_doc, emit_doc_with, values. cbn [header_with footer_with row_sep_with app].
  rewrite app_nil_r, join_nil_sep, map_map. reflexivity.
Qed.
Lemma emit_doc_list t : emit_doc List t = concat (map (flat_line 0 0) (values t)).
Proof.
  unfold emit_doc, emit_doc_with, values. cbn [header_with footer_with row_sep_with app].
  rewrite app_nil_r, join_nil_sep, map_map. reflexivity.
Qed.

(* side conditions in boolean form -> the Forall used above *)
Lemma flat_hyps sep rowend n1 bad t :
  (forall c, bad c = false -> clean_char sep rowend c = true) ->
  ncols_is (S n1) t = true -> values_avoid bad t = true ->
  Forall (fun vs => length vs = S n1 /\ Forall (fun x => clean sep rowend x = true) vs) (values t).
Proof.
  intros Hbad Hn Hv. unfold ncols_is in Hn. unfold values_avoid in Hv.
  rewrite forallb_forall in Hn, Hv. unfold values. apply Forall_forall. intros vs Hvs.
  apply in_map_iff in Hvs. destruct Hvs as [r [Hr HIn]]. subst vs. split.
  - rewrite map_length. apply Nat.eqb_eq. apply Hn, HIn.
  - specialize (Hv r HIn). rewrite forallb_forall in Hv.
    apply Forall_forall. intros x Hx. apply in_map_iff in Hx. destruct Hx as [kv [Hkv HInkv]]. subst x.
    specialize (Hv kv HInkv). unfold clean. rewrite forallb_forall in Hv |- *.
    intros c Hc. apply Hbad. apply negb_true_iff. apply Hv, Hc.
Qed.

(* ================================================================================== *)

Definition is_nul (c : N) : bool := c =? 0.
Definition is_lf (c : N) : bool := c =? 10.
Definition is_tab_or_lf (c : N) : bool := (c =? 9) || (c =? 10).

(* --output-format list (NUL separated, NUL terminated) *)
Theorem flat_roundtrip : forall (n : nat) (t : table),
  (0 < n)%nat -> ncols_is n t = true -> values_avoid is_nul t = true ->
  decode_flat 0 0 n (emit_doc List t) = Some (map (map snd) t).
Proof.
  intros n t Hn Hc Hv. destruct n as [|n1]; [lia|].
  rewrite emit_doc_list. cbn [decode_flat]. rewrite fgo_rows; [reflexivity|].
  apply (flat_hyps 0 0 n1 is_nul t); [|exact Hc|exact Hv].
  intros c H. unfold clean_char, is_nul in *. rewrite H. reflexivity.
Qed.

(* --output-format tabs *)
Theorem flat_roundtrip_tabs : forall (n : nat) (t : table),
  (0 < n)%nat -> ncols_is n t = true -> values_avoid is_tab_or_lf t = true ->
  decode_flat 9 10 n (emit_doc Tabs t) = Some (map (map snd) t).
Proof.
  intros n t Hn Hc Hv. destruct n as [|n1]; [lia|].
  rewrite emit_doc_tabs. cbn [decode_flat]. rewrite fgo_rows; [reflexivity|].
  apply (flat_hyps 9 10 n1 is_tab_or_lf t); [|exact Hc|exact Hv].
  intros c H. unfold clean_char, is_tab_or_lf in *. rewrite H. reflexivity.
Qed.

(* --output-format lines *)
Theorem flat_roundtrip_lines : forall (n : nat) (t : table),
  (0 < n)%nat -> ncols_is n t = true -> values_avoid is_lf t = true ->
  decode_flat 10 10 n (emit_doc Lines t) = Some (map (map snd) t).
Proof.
  intros n t Hn Hc Hv. destruct n as [|n1]; [lia|].
  rewrite emit_doc_lines. cbn [decode_flat]. rewrite fgo_rows; [reflexivity|].
  apply (flat_hyps 10 10 n1 is_lf t); [|exact Hc|exact Hv].
  intros c H. unfold clean_char, is_lf in *. rewrite H. reflexivity.
Qed.

Example flat_list_hyp_satisfiable :
  ncols_is 3 demo_table = true /\ values_avoid is_nul demo_table = true.
Proof. split; vm_compute; reflexivity. Qed.
Example flat_tabs_lines_hyp_satisfiable :
  ncols_is 2 demo_flat_table = true /\ values_avoid is_tab_or_lf demo_flat_table = true
  /\ values_avoid is_lf demo_flat_table = true.
Proof. repeat split; vm_compute; reflexivity. Qed.

Example flat_demo :
  decode_flat 0 0 3 (emit_doc List demo_table) = Some (values demo_table)
  /\ decode_flat 9 10 2 (emit_doc Tabs demo_flat_table) = Some (values demo_flat_table)
  /\ decode_flat 10 10 2 (emit_doc Lines demo_flat_table) = Some (values demo_flat_table).
Proof. repeat split; vm_compute; reflexivity. Qed.

(* The side conditions are necessary: a file name containing LF or TAB (legal on Unix) makes
   two different result tables print identically in the lines and tabs formats.  (A path
   cannot contain NUL, which is why the list format is the robust one.) *)
Example lines_collision :
  emit_doc Lines [ [(s "name", s "a" ++ [10] ++ s "b")]; [(s "name", s "c")] ]
  = emit_doc Lines [ [(s "name", s "a")]; [(s "name", s "b" ++ [10] ++ s "c")] ].
Proof. vm_compute. reflexivity. Qed.
Example tabs_collision :
  emit_doc Tabs [ [(s "name", s "a" ++ [9] ++ s "b"); (s "size", s "1")] ]
  = emit_doc Tabs [ [(s "name", s "a"); (s "size", s "b" ++ [9] ++ s "1")] ].
Proof. vm_compute. reflexivity. Qed.

Print Assumptions flat_roundtrip.
Print Assumptions flat_roundtrip_tabs.
Print Assumptions flat_roundtrip_lines.
