(* C18, termination: lwalk never runs out of fuel once fuel >= fuel_bound g = 1 + |universe g|,
   for every graph (cyclic or not), both orders, all gates, all limits, all roots.
   Measure: m s = number of markable inodes of g not yet in l_vis s.  Every recursive visit and every
   queue push is preceded by ok_visit putting a NEW markable inode into l_vis, so m strictly decreases. *)
From Coq Require Import List NArith Bool Lia.
From FS Require Import lib.Str gen.GatesGen model.Walk model.WalkLinks proofs.LinksBase.
Import ListNotations.
Open Scope N_scope.

Section Term.
Variables (g : fsgraph) (mn mx : N) (limit : N).

Definition msr (s : lst) : nat := unv (universe g) (l_vis s).
Definition wsr (s : lst) : nat := (length (l_queue s) + msr s)%nat.

Definition keys_in (es : list dent) : Prop := forall e k, In e es -> ekey e = Some k -> In k (universe g).

Lemma msr_rep (dir : str) (depth : N) (e : dent) (s : lst) :
  msr (rep mn dir depth e s) = msr s /\ l_queue (rep mn dir depth e s) = l_queue s.
Proof. unfold rep. destruct (gate_report mn depth); split; reflexivity. Qed.

Section LoopTerm.
Variable visit : str -> str -> N -> N -> lst -> option lst.
Variable n : nat.
Hypothesis Hvisit : forall p c j b s, (msr s < n)%nat ->
  exists s', visit p c j b s = Some s' /\ (msr s' <= msr s)%nat /\ (wsr s' <= wsr s)%nat.
Variables (dir canon : str) (depth base : N).

Lemma lloop_term (dfs : bool) : forall (es : list dent) (s : lst),
  keys_in es -> (msr s <= n)%nat ->
  exists s', lloop mn mx dfs limit visit dir canon depth base es s = Some s' /\
             (msr s' <= msr s)%nat /\ (wsr s' <= wsr s)%nat.
Proof.
  induction es as [|e es IH]; intros s Hk Hm.
  - exists s. cbn [lloop]. repeat split; lia.
  - assert (Hk' : keys_in es) by (intros e' k' Hin; apply Hk; now right).
    cbn [lloop].
    destruct (gate_limit_dir false limit (l_found s)).
    { exists s. repeat split; lia. }
    destruct (msr_rep dir depth e s) as [Hm1 Hq1].
    assert (Hw1 : wsr (rep mn dir depth e s) = wsr s) by (unfold wsr; now rewrite Hm1, Hq1).
    assert (Hskip : exists s', lloop mn mx dfs limit visit dir canon depth base es (rep mn dir depth e s) = Some s' /\
                               (msr s' <= msr s)%nat /\ (wsr s' <= wsr s)%nat).
    { destruct (IH (rep mn dir depth e s) Hk') as [s' [H1 [H2 H3]]]; [lia|]. exists s'. repeat split; [assumption|lia|lia]. }
    destruct (gate_descend mx depth); [|exact Hskip].
    destruct (etarget dir canon e) as [[key it]|] eqn:Et; [|exact Hskip].
    destruct (existsb (N.eqb key) (l_vis (rep mn dir depth e s))) eqn:Em; [exact Hskip|].
    apply memN_false in Em.
    assert (Hku : In key (universe g)).
    { apply (Hk e key); [now left|]. now apply (etarget_ekey dir canon e key it). }
    assert (Hlt : (msr (add_vis (rep mn dir depth e s) key) < msr (rep mn dir depth e s))%nat).
    { unfold msr. cbn [add_vis l_vis]. now apply unv_add_lt. }
    destruct dfs.
    + destruct (Hvisit (it_path it) (it_canon it) (it_ino it) base (add_vis (rep mn dir depth e s) key)) as [s3 [Hv [Hm3 Hw3]]]; [lia|].
      rewrite Hv.
      destruct (IH s3 Hk') as [s' [H1 [H2 H3]]]; [lia|].
      exists s'. split; [assumption|].
      assert (wsr (add_vis (rep mn dir depth e s) key) <= wsr (rep mn dir depth e s))%nat.
      { unfold wsr in *. cbn [add_vis l_queue] in *. lia. }
      split; lia.
    + assert (Hwp : (wsr (push_q (add_vis (rep mn dir depth e s) key) it) <= wsr (rep mn dir depth e s))%nat).
      { unfold wsr, msr in *. cbn [push_q add_vis l_queue l_vis] in *. rewrite app_length. cbn [length]. lia. }
      assert (Hmp : msr (push_q (add_vis (rep mn dir depth e s) key) it) = msr (add_vis (rep mn dir depth e s) key)) by reflexivity.
      destruct (IH (push_q (add_vis (rep mn dir depth e s) key) it) Hk') as [s' [H1 [H2 H3]]]; [lia|].
      exists s'. split; [assumption|]. split; lia.
Qed.
End LoopTerm.

Lemma lvisit_term (dfs : bool) : forall (f : nat) (dir canon : str) (i rd : N) (s : lst),
  (msr s < f)%nat ->
  exists s', lvisit g mn mx dfs limit f dir canon i rd s = Some s' /\ (msr s' <= msr s)%nat /\ (wsr s' <= wsr s)%nat.
Proof.
  induction f as [|f IH]; intros dir canon i rd s Hm; [lia|].
  rewrite lvisit_S.
  destruct (existsb (str_eqb dir) (l_vdirs s)).
  { exists s. repeat split; lia. }
  destruct (ents_of g i) as [ents|] eqn:Ee.
  - destruct (lloop_term (lvisit g mn mx dfs limit f) f (fun p c j b s0 H0 => IH p c j b s0 H0)
                dir canon (vdepth rd canon) (vbase rd canon) dfs ents (add_ent (add_vdir s dir) i)) as [s' [H1 [H2 H3]]].
    + intros e k Hin Hk. now apply (ents_of_universe g i ents e k).
    + change (msr (add_ent (add_vdir s dir) i)) with (msr s). lia.
    + exists s'. split; [assumption|].
      change (msr (add_ent (add_vdir s dir) i)) with (msr s) in H2.
      change (wsr (add_ent (add_vdir s dir) i)) with (wsr s) in H3. split; assumption.
  - exists (add_lerr (add_ent (add_vdir s dir) i) dir). split; [reflexivity|].
    change (msr (add_lerr (add_ent (add_vdir s dir) i) dir)) with (msr s).
    change (wsr (add_lerr (add_ent (add_vdir s dir) i) dir)) with (wsr s). lia.
Qed.

Lemma ldrain_term (dfs : bool) : forall (f : nat) (base : N) (s : lst),
  (wsr s < f)%nat -> exists s', ldrain g mn mx dfs limit f base s = Some s'.
Proof.
  induction f as [|f IH]; intros base s Hw; [lia|].
  rewrite ldrain_S. destruct (l_queue s) as [|it rest] eqn:Eq.
  { now exists s. }
  assert (Hm1 : msr (set_q s rest) = msr s) by reflexivity.
  assert (Hw1 : (wsr (set_q s rest) < wsr s)%nat).
  { unfold wsr. rewrite Hm1, Eq. cbn [set_q l_queue length]. lia. }
  destruct (lvisit_term dfs f (it_path it) (it_canon it) (it_ino it) base (set_q s rest)) as [s2 [Hv [Hm2 Hw2]]].
  { unfold wsr in *. rewrite Eq in Hw. cbn [length] in Hw. lia. }
  rewrite Hv. apply IH. lia.
Qed.
End Term.

(* (a) TERMINATION: fuel_bound g = 1 + |universe g| always suffices. *)
Theorem lwalk_terminates_ex (g : fsgraph) (mn mx : N) (dfs : bool) (limit : N) (fuel : nat) (rootpath canon : str) (root_ino : N) :
  (fuel_bound g <= fuel)%nat ->
  exists s, lwalk g mn mx dfs limit fuel rootpath canon root_ino = Some s.
Proof.
  intro Hf. unfold lwalk.
  assert (Hm0 : (msr g (add_vis lst0 root_ino) <= length (universe g))%nat) by apply unv_le_length.
  destruct (lvisit_term g mn mx limit dfs fuel rootpath canon root_ino 0 (add_vis lst0 root_ino)) as [s1 [Hv [Hm1 Hw1]]].
  { unfold fuel_bound in Hf. lia. }
  rewrite Hv. destruct dfs.
  - now exists s1.
  - apply ldrain_term. unfold wsr in Hw1. cbn [add_vis lst0 l_queue length] in Hw1.
    unfold wsr, fuel_bound in *. lia.
Qed.

Theorem lwalk_terminates (g : fsgraph) (mn mx : N) (dfs : bool) (limit : N) (fuel : nat) (rootpath canon : str) (root_ino : N) :
  (fuel_bound g <= fuel)%nat ->
  lwalk g mn mx dfs limit fuel rootpath canon root_ino <> None.
Proof.
  intro Hf. destruct (lwalk_terminates_ex g mn mx dfs limit fuel rootpath canon root_ino Hf) as [s Hs].
  rewrite Hs. discriminate.
Qed.

(* the result does not depend on the fuel, as soon as there is enough of it *)
Corollary lwalk_any_fuel (g : fsgraph) (mn mx : N) (dfs : bool) (limit : N) (fuel : nat) (rootpath canon : str) (root_ino : N) :
  (fuel_bound g <= fuel)%nat ->
  lwalk g mn mx dfs limit fuel rootpath canon root_ino = lwalk g mn mx dfs limit (fuel_bound g) rootpath canon root_ino.
Proof.
  intro Hf.
  destruct (lwalk_terminates_ex g mn mx dfs limit (fuel_bound g) rootpath canon root_ino (le_n _)) as [s Hs].
  rewrite Hs. now apply (lwalk_fuel_irrelevant g mn mx dfs limit (fuel_bound g) fuel).
Qed.

Print Assumptions lwalk_terminates.
Print Assumptions lwalk_fuel_irrelevant.
Print Assumptions lwalk_any_fuel.
