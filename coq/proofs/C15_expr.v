(* C15: precedence / associativity / bracket witnesses evaluated through the model parser, and the
   value pipeline (parse then eval) on them. *)
From Coq Require Import List NArith ZArith Bool String Floats.
From FS Require Import lib.Str lib.Res lib.F64 gen.OpsGen gen.FieldGen gen.FuncGen model.Expr model.Parser model.Eval.
Import ListNotations.

Definition attr0 (f : Field) : value := match f with FSize => VInt 7 | FHardlinks => VInt 2 | FName => VStr (s "bb.txt") | _ => VStr [] end.

(* value of every select-list column of a query, for an entry with size 7, 2 hard links, name bb.txt *)
Definition cols (q : string) : list str :=
  match parse [s q] with Ok qq => eval_row attr0 64 (q_fields qq) [] | _ => [s "PARSE-ERROR"] end.

Definition parse_witnesses_ok : bool :=
  forallb (fun p => if list_eq_dec (list_eq_dec N.eq_dec) (cols (fst p)) (map s (snd p)) then true else false)
  [ ("size + 2 * 3 from t", ["13"]);                 (* * binds tighter than + *)
    ("(size + 2) * 3 from t", ["27"]);               (* brackets override *)
    ("{size + 2} * 3 from t", ["27"]);               (* curly brackets too *)
    ("size - 2 - 3 from t", ["2"]);                  (* left associative: (7-2)-3 *)
    ("size - (2 - 3) from t", ["8"]);
    ("size / 2 / 7 from t", ["0.5"]);                (* (7/2)/7 *)
    ("size / (2 / 7) from t", ["24.5"]);
    ("100 / size * 7 from t", ["100"]);              (* (100/7)*7 in binary64 *)
    ("2 * 3 + size * 2 from t", ["20"]);
    ("size plus 1 mul 2 from t", ["9"]);             (* word aliases, same precedence *)
    ("-size from t", ["-7"]);                        (* unary minus on a column *)
    ("-3 + size from t", ["4"]);                     (* ... on a literal *)
    ("-length(name) + 1 from t", ["-5"]);            (* ... on a call *)
    ("size + 1, size - 1, size * 1 from t", ["8"; "6"; "7"]);          (* columns that differ only in the operator *)
    ("(size + 1) * 2, size + 1 * 2, size + (1 * 2) from t", ["16"; "9"; "9"]);   (* ... only in the brackets *)
    ("size, size + hardlinks, hardlinks from t", ["7"; "9"; "2"]) ]%string.

Lemma parse_witnesses : parse_witnesses_ok = true.
Proof. vm_compute. reflexivity. Qed.
