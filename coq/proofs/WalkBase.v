(* Common ground for the walk theorems (C01, C06, C17, C19, C20): well-formedness predicates,
   the depth arithmetic, the `post` relation (delta of one piece of the walk) and the
   equation lemmas of Walk.visit. *)
From Coq Require Import List NArith Bool Lia ZifyBool Arith.
From FS Require Import lib.Str gen.GatesGen model.Walk spec.WalkSpec.
Import ListNotations.
Open Scope N_scope.
Arguments N.add : simpl never.
Arguments N.sub : simpl never.
Arguments N.eqb : simpl never.
Arguments N.ltb : simpl never.
Arguments N.leb : simpl never.

(* ---------- lists ---------- *)
Lemma filter_cons_app {A} (f : A -> bool) a l : filter f (a :: l) = filter f [a] ++ filter f l.
Proof. cbn [filter]. destruct (f a); reflexivity. Qed.

Lemma NoDup_app_iff {A} (a b : list A) :
  NoDup (a ++ b) <-> NoDup a /\ NoDup b /\ (forall x, In x a -> In x b -> False).
Proof.
  induction a as [|x a IH]; cbn [app].
  - split; [intros H; repeat split; [constructor|exact H|intros ? []] | intros [_ [H _]]; exact H].
  - split.
    + intros H. inversion H as [|? ? Hx Hn]; subst. apply IH in Hn. destruct Hn as [Ha [Hb Hd]].
      repeat split; [constructor; [intro; apply Hx, in_or_app; now left|exact Ha] | exact Hb |].
      intros y [->|Hy] Hyb; [apply Hx, in_or_app; now right | eapply Hd; eassumption].
    + intros [Ha [Hb Hd]]. inversion Ha as [|? ? Hx Hn]; subst. constructor.
      * intro Hi. apply in_app_or in Hi. destruct Hi as [Hi|Hi]; [now apply Hx | apply (Hd x); [now left|exact Hi]].
      * apply IH. repeat split; [exact Hn|exact Hb|]. intros y Hy. apply Hd. now right.
Qed.

Lemma flat_map_flat_map {A B C} (f : A -> list B) (g : B -> list C) l :
  flat_map g (flat_map f l) = flat_map (fun a => flat_map g (f a)) l.
Proof. induction l as [|a l IH]; [reflexivity|]. cbn [flat_map]. now rewrite flat_map_app, IH. Qed.

Lemma flat_map_map {A B C} (f : A -> B) (g : B -> list C) l :
  flat_map g (map f l) = flat_map (fun a => g (f a)) l.
Proof. induction l as [|a l IH]; [reflexivity|]. cbn [flat_map map]. now rewrite IH. Qed.

Lemma map_flat_map {A B C} (f : A -> list B) (g : B -> C) l :
  map g (flat_map f l) = flat_map (fun a => map g (f a)) l.
Proof. induction l as [|a l IH]; [reflexivity|]. cbn [flat_map map]. now rewrite map_app, IH. Qed.

Lemma filter_flat_map {A B} (f : A -> list B) (p : B -> bool) l :
  filter p (flat_map f l) = flat_map (fun a => filter p (f a)) l.
Proof. induction l as [|a l IH]; [reflexivity|]. cbn [flat_map]. now rewrite filter_app, IH. Qed.

Lemma flat_map_nil {A B} (l : list A) : flat_map (fun _ => @nil B) l = [].
Proof. induction l; [reflexivity|assumption]. Qed.

(* ---------- nested induction on nodes ---------- *)
Section NodeInd.
  Variable P : node -> Prop.
  Hypothesis HF : forall a i g z, P (NFile a i g z).
  Hypothesis HL : forall a i g, P (NLink a i g).
  Hypothesis HD : forall a i g l ks, Forall P ks -> P (NDir a i g l ks).
  Fixpoint node_ind2 (n : node) : P n :=
    match n with
    | NFile a i g z => HF a i g z
    | NLink a i g => HL a i g
    | NDir a i g l ks =>
      HD a i g l ks ((fix go (l : list node) : Forall P l :=
                        match l with [] => Forall_nil _ | x :: xs => Forall_cons _ (node_ind2 x) (go xs) end) ks)
    end.
End NodeInd.

(* ---------- well-formedness ---------- *)
Definition name_okb (nm : str) : bool :=
  negb (match nm with [] => true | _ => false end) && negb (contains_char 47 nm).

Fixpoint node_names_ok (n : node) : bool :=
  name_okb (nname n) && match n with NDir _ _ _ _ kk => forallb node_names_ok kk | _ => true end.

Definition names_ok (kk : list node) : Prop := forallb node_names_ok kk = true.

Fixpoint inodes_node (n : node) : list N :=
  match n with
  | NFile _ _ _ _ => []
  | NLink _ i _ => [i]
  | NDir _ i _ _ kk => i :: flat_map inodes_node kk
  end.
Definition inodes_of (kk : list node) : list N := flat_map inodes_node kk.

(* a canonical path: the root directory "/" itself, or a path with at least one separator and no
   trailing one (every absolute path other than "/") *)
Definition canon_ok (c : str) : Prop :=
  c = [47] \/ (ends_with [47] c = false /\ 1 <= count_char 47 c).

Definition hts (kk : list node) : nat := fold_right (fun k a => Nat.max (height k) a) 0%nat kk.
Lemma height_dir a i g l kk : height (NDir a i g l kk) = S (hts kk).
Proof. reflexivity. Qed.
Lemma hts_cons k kk : hts (k :: kk) = Nat.max (height k) (hts kk).
Proof. reflexivity. Qed.

Definition fresh (v : list N) (L : list N) : Prop := forall x, In x v -> In x L -> False.

Lemma names_ok_cons k kk : names_ok (k :: kk) -> name_okb (nname k) = true /\ names_ok kk /\
  match k with NDir _ _ _ _ kk' => names_ok kk' | _ => True end.
Proof.
  unfold names_ok. cbn [forallb]. intros H. apply andb_true_iff in H. destruct H as [H1 H2].
  destruct k; cbn [node_names_ok nname] in *; apply andb_true_iff in H1; destruct H1 as [H1 H3]; auto.
Qed.

(* ---------- the depth arithmetic ---------- *)
Lemma count_char_app c a b : count_char c (a ++ b) = count_char c a + count_char c b.
Proof. induction a as [|x a IH]; cbn [count_char app]; [lia|]. rewrite IH. lia. Qed.

Lemma contains_count c x : contains_char c x = false -> count_char c x = 0.
Proof.
  induction x as [|d x IH]; cbn [contains_char count_char]; [reflexivity|].
  intros H. apply orb_false_iff in H. destruct H as [H1 H2]. rewrite H1, IH by assumption. reflexivity.
Qed.

Lemma contains_char_app c a b : contains_char c (a ++ b) = contains_char c a || contains_char c b.
Proof. induction a as [|x a IH]; cbn [contains_char app]; [reflexivity|]. now rewrite IH, orb_assoc. Qed.

Lemma ends_with_last c x a : ends_with [c] (x ++ [a]) = (c =? a).
Proof. unfold ends_with. rewrite rev_app_distr. cbn. now rewrite andb_true_r. Qed.

Lemma name_ok_ends nm b : name_okb nm = true -> ends_with [47] (b ++ nm) = false.
Proof.
  unfold name_okb. intros H. apply andb_true_iff in H. destruct H as [H1 H2].
  destruct nm as [|x nm]; [discriminate|].
  destruct (exists_last (l := x :: nm)) as [nm' [a E]]; [discriminate|]. rewrite E in *.
  rewrite app_assoc, ends_with_last. rewrite contains_char_app in H2. cbn [contains_char] in H2.
  apply negb_true_iff in H2. apply orb_false_iff in H2. destruct H2 as [_ H2]. now rewrite orb_false_r in H2.
Qed.

Lemma name_ok_count nm : name_okb nm = true -> count_char 47 nm = 0.
Proof. unfold name_okb. intros H. apply andb_true_iff in H. destruct H as [_ H]. apply negb_true_iff in H. now apply contains_count. Qed.

Lemma ends_join c nm : name_okb nm = true -> ends_with [47] (join_path c nm) = false.
Proof.
  intros Hn. unfold join_path. destruct c as [|x c]; [apply (name_ok_ends nm [] Hn)|].
  destruct (ends_with [47] (x :: c)); [now apply name_ok_ends|]. rewrite app_assoc. now apply name_ok_ends.
Qed.

Lemma canon_ok_nonempty c : canon_ok c -> c <> [].
Proof. intros [->|[_ Hk]]; [discriminate|]. intros ->. cbn [count_char] in Hk. lia. Qed.

Lemma calc_depth_root : calc_depth [47] = 1.
Proof. reflexivity. Qed.

Lemma calc_depth_pos p : 1 <= calc_depth p.
Proof. unfold calc_depth. destruct (str_eqb p [47]); lia. Qed.

Lemma calc_depth_nonroot p : p <> [47] -> calc_depth p = count_char 47 p + 1.
Proof.
  intros Hp. unfold calc_depth. destruct (str_eqb p [47]) eqn:E; [|reflexivity].
  apply str_eqb_eq in E. contradiction.
Qed.

Lemma ends_with_root : ends_with [47] [47] = true.
Proof. reflexivity. Qed.

Lemma join_path_root nm : join_path [47] nm = 47 :: nm.
Proof. reflexivity. Qed.

(* below a canonical directory, the separator count of an entry is the directory's depth *)
Lemma count_join c nm : canon_ok c -> name_okb nm = true ->
  count_char 47 (join_path c nm) = calc_depth c.
Proof.
  intros [->|[He Hk]] Hn.
  - rewrite join_path_root, calc_depth_root. cbn [count_char]. rewrite N.eqb_refl, (name_ok_count nm Hn). lia.
  - assert (Hr : c <> [47]). { intros ->. rewrite ends_with_root in He. discriminate. }
    rewrite (calc_depth_nonroot c Hr). unfold join_path. destruct c as [|x c]; [cbn [count_char] in Hk; lia|].
    rewrite He, !count_char_app, (name_ok_count nm Hn). cbn [count_char]. rewrite N.eqb_refl. lia.
Qed.

Lemma canon_ok_join c nm : canon_ok c -> name_okb nm = true -> canon_ok (join_path c nm).
Proof.
  intros Hc Hn. right. split; [now apply ends_join|].
  rewrite (count_join c nm Hc Hn). apply calc_depth_pos.
Qed.

Lemma calc_depth_join c nm : canon_ok c -> name_okb nm = true ->
  calc_depth (join_path c nm) = calc_depth c + 1.
Proof.
  intros Hc Hn.
  assert (Hr : join_path c nm <> [47]).
  { intros E. pose proof (ends_join c nm Hn) as He. rewrite E, ends_with_root in He. discriminate. }
  rewrite (calc_depth_nonroot _ Hr), (count_join c nm Hc Hn). reflexivity.
Qed.

(* what the generated depth computations and the report gate mean (proved by arithmetic, see gate_dir_sat below) *)
Lemma base_depth_of_spec rd c : base_depth_of rd c = if rd =? 0 then c else rd.
Proof. unfold base_depth_of. destruct (rd =? 0) eqn:E; cbn; try reflexivity; lia. Qed.
Lemma depth_of_spec c b : depth_of c b = c - b + 1.
Proof. unfold depth_of. lia. Qed.
Lemma gate_report_spec mn d : gate_report mn d = (mn =? 0) || (mn <=? d).
Proof. unfold gate_report. lia. Qed.

Definition depth_inv (canon : str) (rd d : N) : Prop :=
  canon_ok canon /\
  base_depth_of rd (calc_depth canon) <> 0 /\
  base_depth_of rd (calc_depth canon) <= calc_depth canon /\
  depth_of (calc_depth canon) (base_depth_of rd (calc_depth canon)) = d.

Lemma depth_inv_root c : canon_ok c -> depth_inv c 0 1.
Proof.
  intros Hc. pose proof (calc_depth_pos c) as Hp.
  unfold depth_inv. rewrite ?base_depth_of_spec, ?depth_of_spec, ?N.eqb_refl. split; [exact Hc|]. repeat split; lia.
Qed.

Lemma base_depth_nz b x : b <> 0 -> base_depth_of b x = b.
Proof. intros H. rewrite base_depth_of_spec. destruct (N.eqb_spec b 0); [contradiction|reflexivity]. Qed.

Lemma depth_inv_step c rd d nm : depth_inv c rd d -> name_okb nm = true ->
  depth_inv (join_path c nm) (base_depth_of rd (calc_depth c)) (d + 1).
Proof.
  intros [H1 [H2 [H3 H4]]] Hn.
  unfold depth_inv. rewrite (calc_depth_join c nm H1 Hn), (base_depth_nz _ _ H2).
  split; [now apply canon_ok_join|]. repeat split; [exact H2|lia|]. rewrite depth_of_spec in H4. rewrite depth_of_spec. lia.
Qed.

Lemma depth_inv_base c rd d : depth_inv c rd d ->
  depth_inv c (base_depth_of rd (calc_depth c)) d.
Proof. intros [H1 [H2 [H3 H4]]]. unfold depth_inv. rewrite (base_depth_nz _ _ H2). auto. Qed.

(* the statement asked for: a directory at nesting level d below a canon_ok root *)
Lemma depth_of_level c names :
  canon_ok c -> Forall (fun nm => name_okb nm = true) names ->
  let canon := fold_left join_path names c in
  calc_depth canon = calc_depth c + N.of_nat (length names) /\
  depth_of (calc_depth canon) (base_depth_of 0 (calc_depth c)) = N.of_nat (length names) + 1.
Proof.
  intros Hc Hn.
  assert (G : forall c0, canon_ok c0 ->
              calc_depth (fold_left join_path names c0) = calc_depth c0 + N.of_nat (length names)).
  { induction Hn as [|nm names Hnm _ IH]; intros c0 H0; cbn [fold_left length]; [lia|].
    rewrite (IH (join_path c0 nm) (canon_ok_join c0 nm H0 Hnm)).
    rewrite (calc_depth_join c0 nm H0 Hnm). lia. }
  cbn zeta. rewrite (G c Hc). split; [reflexivity|].
  rewrite depth_of_spec, base_depth_of_spec, N.eqb_refl. lia.
Qed.

(* ---------- the delta relation ---------- *)
Section P.
Variable accept : row -> bool.
Variable buffered : bool.
Variable limit : N.
Variable o : opts.

Definition lim_on : bool := negb buffered && (0 <? limit).
Definition sat (s : wst) : bool := lim_on && (limit <=? found s).
Definition take (s : wst) (R : list row) : list row :=
  if lim_on then firstn (N.to_nat (limit - found s)) R else R.

(* The generated gate expressions are compared with the model's reading of them by arithmetic, not by conversion: a
   re-spelling of the source condition that means the same (a negated test with `continue`, a helper method) still passes. *)
Lemma gate_dir_sat s : gate_limit_dir buffered limit (found s) = sat s.
Proof. unfold gate_limit_dir, sat, lim_on. destruct buffered; lia. Qed.
Lemma gate_arc_sat s : gate_limit_arc buffered limit (found s) = sat s.
Proof. unfold gate_limit_arc, sat, lim_on. destruct buffered; lia. Qed.

Lemma take_nil s : take s [] = [].
Proof. unfold take. destruct lim_on; [apply firstn_nil|reflexivity]. Qed.

Lemma take_sat s R : sat s = true -> take s R = [].
Proof.
  unfold sat, take. intros H. apply andb_true_iff in H. destruct H as [H1 H2]. rewrite H1.
  replace (N.to_nat (limit - found s)) with 0%nat by lia. reflexivity.
Qed.

Lemma take_one s r : sat s = false -> take s [r] = [r].
Proof.
  unfold sat, take. destruct lim_on eqn:L; [|reflexivity]. cbn [andb]. intros H.
  assert (L' : (0 <? limit) = true) by (unfold lim_on in L; apply andb_true_iff in L; tauto).
  apply firstn_all2. cbn [length]. lia.
Qed.

Lemma take_app s s1 R1 R2 : found s1 = found s + N.of_nat (length (take s R1)) ->
  take s (R1 ++ R2) = take s R1 ++ take s1 R2.
Proof.
  unfold take. destruct lim_on; [|reflexivity]. intros H. rewrite firstn_app. f_equal. f_equal.
  rewrite H, firstn_length. lia.
Qed.

Lemma sat_mono s s' n : found s' = found s + n -> sat s = true -> sat s' = true.
Proof. unfold sat. intros H. destruct lim_on; [cbn [andb]; lia|discriminate]. Qed.

Lemma lim_off_sat s : lim_on = false -> sat s = false.
Proof. unfold sat. now intros ->. Qed.

Record post (s s' : wst) (R : list row) (E : list str) (I : list N) (Q : list (str * str * node)) : Prop := mkpost {
  p_out : out s' = out s ++ take s R;
  p_found : found s' = found s + N.of_nat (length (take s R));
  p_vis : exists a, vis s' = a ++ vis s /\ incl a I;
  p_queue : exists q, queue s' = queue s ++ q /\ (length q <= length Q)%nat /\ incl q Q /\ (sat s' = false -> q = Q);
  p_errs : lim_on = false -> errs s' = errs s ++ E }.

Ltac post_fin :=
  try reflexivity; try lia;
  try (exists []; split; [reflexivity|intros ? []]);
  try (exists []; rewrite app_nil_r; split; [reflexivity|split; [cbn; lia|split; [intros ? []|reflexivity]]]);
  try (intros _; rewrite ?app_nil_r; reflexivity).

Lemma post_refl s I : post s s [] [] I [].
Proof.
  constructor; rewrite ?take_nil, ?app_nil_r; cbn [length]; post_fin.
Qed.

(* from a saturated state nothing changes any more *)
Lemma post_sat s s' R E I Q :
  sat s = true -> out s' = out s -> found s' = found s -> vis s' = vis s -> queue s' = queue s ->
  post s s' R E I Q.
Proof.
  intros Hs Ho Hf Hv Hq. constructor; rewrite ?(take_sat s R Hs), ?app_nil_r; cbn [length]; try assumption; try lia.
  - exists []. split; [exact Hv|intros ? []].
  - exists []. rewrite app_nil_r. split; [exact Hq|]. split; [cbn; lia|]. split; [intros ? []|].
    unfold sat in *. rewrite Hf. rewrite Hs. discriminate.
  - intros L. rewrite (lim_off_sat s L) in Hs. discriminate.
Qed.

Lemma post_trans s s1 s2 R1 R2 E1 E2 I1 I2 Q1 Q2 :
  post s s1 R1 E1 I1 Q1 -> post s1 s2 R2 E2 I2 Q2 -> post s s2 (R1 ++ R2) (E1 ++ E2) (I1 ++ I2) (Q1 ++ Q2).
Proof.
  intros [Ao Af [a1 [Av Ai]] [q1 [Aq [Al [Ac As]]]] Ae] [Bo Bf [a2 [Bv Bi]] [q2 [Bq [Bl [Bc Bs]]]] Be].
  pose proof (take_app s s1 R1 R2 Af) as T.
  constructor.
  - rewrite Bo, Ao, T. now rewrite app_assoc.
  - rewrite Bf, Af, T, app_length. lia.
  - exists (a2 ++ a1). rewrite Bv, Av, app_assoc. split; [reflexivity|].
    intros x Hx. apply in_app_or in Hx. apply in_or_app. destruct Hx; [right|left]; auto.
  - exists (q1 ++ q2). rewrite Bq, Aq, app_assoc. split; [reflexivity|]. split; [rewrite !app_length; lia|].
    split; [intros x Hx; apply in_app_or in Hx; apply in_or_app; destruct Hx; [left|right]; auto|].
    intros H2. assert (H1 : sat s1 = false).
    { destruct (sat s1) eqn:S1; [|reflexivity]. rewrite (sat_mono s1 s2 _ Bf S1) in H2. discriminate. }
    now rewrite As, Bs.
  - intros L. rewrite Be, Ae by assumption. now rewrite app_assoc.
Qed.

Lemma post_weaken s s' R E I I' Q : incl I I' -> post s s' R E I Q -> post s s' R E I' Q.
Proof.
  intros HI [Ao Af [a [Av Ai]] Aq Ae]. constructor; try assumption.
  exists a. split; [exact Av|]. intros x Hx. auto.
Qed.

Lemma post_eq s s' R R' E E' I Q : R = R' -> E = E' -> post s s' R E I Q -> post s s' R' E' I Q.
Proof. now intros -> ->. Qed.

(* ---------- check_file, members, report ---------- *)
Notation check_file := (check_file accept).
Notation members := (members accept buffered limit).
Notation report := (report accept buffered limit o).

Lemma check_file_post r s : sat s = false -> post s (check_file r s) (filter accept [r]) [] [] [].
Proof.
  intros Hs. unfold Walk.check_file. cbn [filter]. destruct (accept r); [|apply post_refl].
  constructor; cbn [out found vis queue errs]; rewrite ?(take_one s r Hs); cbn [length]; post_fin.
Qed.

Lemma members_post path ms : forall s,
  post s (members path ms s) (filter accept (map (fun m => (path, Some m)) ms)) [] [] [].
Proof.
  induction ms as [|m ms IH]; intros s; cbn [Walk.members map]; [apply post_refl|].
  rewrite gate_arc_sat. destruct (sat s) eqn:Hs; [now apply post_sat|].
  rewrite filter_cons_app.
  exact (post_trans _ _ _ _ _ _ _ _ _ _ _ (check_file_post (path, Some m) s Hs) (IH _)).
Qed.

Lemma report_post d path k s : sat s = false ->
  post s (report path k s) (filter accept (rows_of (o_arc o) (d, path, k))) [] [] [].
Proof.
  intros Hs. unfold Walk.report, rows_of. cbn [e_path e_node fst snd]. rewrite filter_cons_app.
  refine (post_trans _ _ _ _ _ _ _ _ _ _ _ (check_file_post (path, None) s Hs) _).
  destruct k as [a i g [ms|]|a i g|a i g l kk]; try apply post_refl.
  destruct (o_arc o); [apply members_post|apply post_refl].
Qed.

(* ---------- Walk.visit: equations ---------- *)
Notation visit := (visit accept buffered limit o).

Definition step_k (f : nat) (dir canon : str) (rd : N) (k : node) (s : wst) : option wst :=
  let cd := calc_depth canon in
  let base := base_depth_of rd cd in
  let depth := depth_of cd base in
  let path := join_path dir (nname k) in
  if o_ign o && nign k then Some s
  else
    let s1 := if gate_report (o_min o) depth then report path k s else s in
    if gate_descend (o_max o) depth then
      match k with
      | NFile _ _ _ _ => Some s1
      | NLink _ _ _ => Some (snd (ok_to_visit k s1))
      | NDir _ _ _ l kk =>
        if fst (ok_to_visit k s1) then
          if o_dfs o then visit f path (join_path canon (nname k)) l kk base (snd (ok_to_visit k s1))
          else Some (push_queue (path, join_path canon (nname k), k) (snd (ok_to_visit k s1)))
        else Some (snd (ok_to_visit k s1))
      end
    else Some s1.

Lemma visit_unl f dir canon kids rd s : visit (S f) dir canon false kids rd s = Some (add_err dir s).
Proof. reflexivity. Qed.

Lemma visit_nil f dir canon rd s : visit (S f) dir canon true [] rd s = Some s.
Proof. reflexivity. Qed.

Lemma visit_cons f dir canon rd k ks s :
  visit (S f) dir canon true (k :: ks) rd s =
  if sat s then Some s
  else match step_k f dir canon rd k s with
       | Some s' => visit (S f) dir canon true ks rd s'
       | None => None
       end.
Proof.
  rewrite <- gate_dir_sat. unfold step_k. cbn [Walk.visit negb].
  destruct (gate_limit_dir buffered limit (found s)); [reflexivity|].
  destruct (o_ign o && nign k); [reflexivity|].
  destruct (gate_descend (o_max o) _); [|reflexivity].
  destruct k as [a i g z|a i g|a i g l kk]; [reflexivity| |].
  - destruct (ok_to_visit _ _); reflexivity.
  - destruct (ok_to_visit _ _) as [[|] s2]; cbn [fst snd]; [|reflexivity].
    destruct (o_dfs o); [|reflexivity].
    destruct (Walk.visit _ _ _ _ _ _ _ _ _ _ _); reflexivity.
Qed.

Lemma visit_sat f dir canon kids rd s : sat s = true -> visit (S f) dir canon true kids rd s = Some s.
Proof. intros H. destruct kids; [reflexivity|]. now rewrite visit_cons, H. Qed.

Lemma ok_to_visit_fresh k s : ~ In (nino k) (vis s) ->
  ok_to_visit k s = (match k with NLink _ _ _ => false | _ => true end,
                     {| found := found s; vis := nino k :: vis s; queue := queue s; errs := errs s; out := out s |}).
Proof.
  intros H. unfold ok_to_visit.
  destruct (existsb (N.eqb (nino k)) (vis s)) eqn:E; [|reflexivity].
  apply existsb_exists in E. destruct E as [x [Hx E]]. apply N.eqb_eq in E. subst x. contradiction.
Qed.

Lemma post_visited s i : post s {| found := found s; vis := i :: vis s; queue := queue s; errs := errs s; out := out s |} [] [] [i] [].
Proof.
  constructor; cbn [out found vis queue errs]; rewrite ?take_nil, ?app_nil_r; cbn [length]; post_fin.
  exists [i]. split; [reflexivity|]. intros x Hx. exact Hx.
Qed.

Lemma post_add_err s p : post s (add_err p s) [] [p] [] [].
Proof.
  constructor; cbn [add_err out found vis queue errs]; rewrite ?take_nil, ?app_nil_r; cbn [length]; post_fin.
Qed.

Lemma post_push s it : post s (push_queue it s) [] [] [] [it].
Proof.
  constructor; cbn [push_queue out found vis queue errs]; rewrite ?take_nil, ?app_nil_r; cbn [length]; post_fin.
  exists [it]. unfold queue_push_back. split; [reflexivity|]. split; [cbn; lia|]. split; [intros ? H; exact H|reflexivity].
Qed.

Lemma post_vis_nil s s' R E Q : post s s' R E [] Q -> vis s' = vis s.
Proof.
  intros [_ _ [a [Hv Hi]] _ _]. destruct a as [|x a]; [exact Hv|]. exfalso. apply (Hi x). now left.
Qed.

Lemma post_queue_nil s s' R E I : post s s' R E I [] -> queue s' = queue s.
Proof.
  intros [_ _ _ [q [Hq [Hl _]]] _]. destruct q; [now rewrite app_nil_r in Hq|cbn in Hl; lia].
Qed.

Lemma post_fresh s s' R E I Q L : post s s' R E I Q -> fresh (vis s) L -> fresh I L -> fresh (vis s') L.
Proof.
  intros [_ _ [a [Hv Hi]] _ _] H1 H2 x Hx HL. rewrite Hv in Hx. apply in_app_or in Hx.
  destruct Hx as [Hx|Hx]; [apply (H2 x); auto|apply (H1 x); auto].
Qed.

(* what one root contributes, relative to the state before it *)
Definition root_post (s0 s1 : wst) (i : N) (R : list row) (E : list str) (I : list N) : Prop :=
  out s1 = out s0 ++ take s0 R /\
  found s1 = found s0 + N.of_nat (length (take s0 R)) /\
  queue s1 = [] /\
  (exists a, vis s1 = a ++ i :: vis s0 /\ incl a I) /\
  (lim_on = false -> errs s1 = errs s0 ++ E).

End P.

(* ---------- the spec side: splitting lemmas ---------- *)
Lemma spec_rows_app accept arc mn mx a b :
  spec_rows accept arc mn mx (a ++ b) = spec_rows accept arc mn mx a ++ spec_rows accept arc mn mx b.
Proof. unfold spec_rows. now rewrite filter_app, flat_map_app, filter_app. Qed.

Lemma failing_app mx a b : failing mx (a ++ b) = failing mx a ++ failing mx b.
Proof. unfold failing. apply flat_map_app. Qed.

Lemma spec_rows_cons accept arc mn mx e l :
  spec_rows accept arc mn mx (e :: l) =
  (if in_window mn mx e then filter accept (rows_of arc e) else []) ++ spec_rows accept arc mn mx l.
Proof.
  unfold spec_rows. cbn [filter]. destruct (in_window mn mx e); [|reflexivity].
  cbn [flat_map]. now rewrite filter_app.
Qed.

Lemma in_window_gate mn mx d p k : mx = 0 \/ d <= mx -> in_window mn mx (d, p, k) = gate_report mn d.
Proof.
  intros H. rewrite gate_report_spec. unfold in_window, e_depth. cbn [fst].
  replace ((mx =? 0) || (d <=? mx)) with true by (destruct H; lia). apply andb_true_r.
Qed.

Lemma gate_descend_eq mx d : gate_descend mx d = (mx =? 0) || (d <? mx).
Proof. unfold gate_descend. lia. Qed.

Lemma pre_node_S ign F mx d dir k :
  pre_node ign (S F) mx d dir k =
  if hidden ign k then []
  else (d, join_path dir (nname k), k) ::
       (if (mx =? 0) || (d <? mx) then flat_map (pre_node ign F mx (d + 1) (join_path dir (nname k))) (kids_of k) else []).
Proof. reflexivity. Qed.

Lemma failing_cons mx e l :
  failing mx (e :: l) =
  (match e_node e with
   | NDir _ _ _ false _ => if (mx =? 0) || (e_depth e <? mx) then [e_path e] else []
   | _ => [] end) ++ failing mx l.
Proof. reflexivity. Qed.
