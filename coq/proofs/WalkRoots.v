(* T3 (several roots) and T4 (LIMIT without ORDER BY = prefix of the unlimited listing). *)
From Coq Require Import List NArith Bool Lia ZifyBool Arith.
From FS Require Import lib.Str gen.GatesGen model.Walk spec.WalkSpec proofs.WalkBase proofs.WalkDfs proofs.WalkBfs.
Import ListNotations.
Open Scope N_scope.
Arguments N.add : simpl never.
Arguments N.sub : simpl never.
Arguments N.eqb : simpl never.
Arguments N.ltb : simpl never.
Arguments N.leb : simpl never.

Lemma hts_le_kw kk : Forall (fun k => (height k <= nodes k)%nat) kk -> (hts kk <= kw kk)%nat.
Proof. induction 1 as [|k ks Hk _ IH]; [cbn; lia|]. rewrite hts_cons. cbn [kw fold_right]. fold (kw ks). lia. Qed.

Lemma height_le_nodes n : (height n <= nodes n)%nat.
Proof.
  induction n as [| |a i g l ks IH] using node_ind2; [cbn; lia|cbn; lia|].
  rewrite height_dir. cbn [nodes]. fold (kw ks). pose proof (hts_le_kw ks IH). lia.
Qed.

(* the listing of one root, in the order its options ask for *)
Definition root_es (o : opts) (F : nat) (p : str) (r : node) : list entry :=
  if o_dfs o then preorder (o_ign o) F (o_max o) p (kids_of r) else levelorder (o_ign o) F (o_max o) p (kids_of r).
Definition root_rows (accept : row -> bool) (F : nat) (x : opts * str * str * node) : list row :=
  let '(o, p, c, r) := x in spec_rows accept (o_arc o) (o_min o) (o_max o) (root_es o F p r).
Definition root_errs (F : nat) (x : opts * str * str * node) : list str :=
  let '(o, p, c, r) := x in
  match r with NDir _ _ _ true _ => failing (o_max o) (root_es o F p r) | _ => [p] end.
Definition root_inodes (x : opts * str * str * node) : list N := inodes_node (snd x).
Definition root_wf (x : opts * str * str * node) : Prop :=
  let '(o, p, c, r) := x in
  match r with NDir _ _ _ true kk => canon_ok c /\ names_ok kk | _ => True end.
Definition root_size (x : opts * str * str * node) : nat := nodes (snd x).

Lemma preorder_nil ign F mx p : preorder ign F mx p [] = [].
Proof. reflexivity. Qed.
Lemma levelorder_nil ign F mx p : levelorder ign F mx p [] = [].
Proof. unfold levelorder. cbn [filter map]. destruct F; reflexivity. Qed.

Section G.
Variable accept : row -> bool.
Variable buffered : bool.
Variable limit : N.
Notation take := (take buffered limit).
Notation lim_on := (lim_on buffered limit).

(* what the walk of one root (any node) does to the state *)
Definition gen_post (s0 s1 : wst) (R : list row) (E : list str) (I : list N) : Prop :=
  out s1 = out s0 ++ take s0 R /\
  found s1 = found s0 + N.of_nat (length (take s0 R)) /\
  (exists a, vis s1 = a ++ vis s0 /\ incl a I) /\
  (lim_on = false -> errs s1 = errs s0 ++ E).

Lemma any_root fuel F o p c r s0 :
  (nodes r <= fuel)%nat -> (height r <= F)%nat -> root_wf (o, p, c, r) ->
  NoDup (inodes_node r) -> fresh (vis s0) (match r with NDir _ _ _ _ kk => inodes_of kk | _ => [] end) ->
  exists s1, walk_root accept buffered limit o fuel p c r s0 = Some s1 /\
    gen_post s0 s1 (root_rows accept F (o, p, c, r)) (root_errs F (o, p, c, r)) (inodes_node r).
Proof.
  intros Hf HF Hwf Hnd Hfr.
  assert (NOROWS : forall s1 i, out s1 = out s0 -> found s1 = found s0 ->
            vis s1 = i ++ vis s0 -> incl i (inodes_node r) -> errs s1 = errs s0 ++ [p] ->
            kids_of r = [] -> (match r with NDir _ _ _ true _ => False | _ => True end) ->
            gen_post s0 s1 (root_rows accept F (o, p, c, r)) (root_errs F (o, p, c, r)) (inodes_node r)).
  { intros s1 i Ho Hfo Hv Hi He Hk Hr. unfold root_rows, root_errs, root_es. rewrite Hk, preorder_nil, levelorder_nil.
    assert (ER : spec_rows accept (o_arc o) (o_min o) (o_max o) (if o_dfs o then [] else []) = []) by (destruct (o_dfs o); reflexivity).
    rewrite ER. unfold gen_post. rewrite take_nil, app_nil_r. cbn [length]. repeat split; try assumption; try lia.
    - exists i. split; assumption.
    - intros _. destruct r as [? ? ? ?|? ? ?|? ? ? [|] ?]; try exact He. contradiction. }
  destruct r as [a i g z|a i g|a i g l kk].
  - exists (add_err p s0). split; [reflexivity|]. apply (NOROWS _ []); try reflexivity; try (intros ? []); try exact I.
  - exists (add_err p s0). split; [reflexivity|]. apply (NOROWS _ []); try reflexivity; try (intros ? []); try exact I.
  - destruct l.
    + cbn [root_wf] in Hwf. destruct Hwf as [Hc Hn]. cbn [inodes_node] in Hnd. fold (inodes_of kk) in Hnd.
      unfold root_rows, root_errs, root_es. cbn [kids_of].
      assert (G : exists s1, walk_root accept buffered limit o fuel p c (NDir a i g true kk) s0 = Some s1 /\
                root_post buffered limit s0 s1 i
                  (spec_rows accept (o_arc o) (o_min o) (o_max o)
                     (if o_dfs o then preorder (o_ign o) F (o_max o) p kk else levelorder (o_ign o) F (o_max o) p kk))
                  (failing (o_max o)
                     (if o_dfs o then preorder (o_ign o) F (o_max o) p kk else levelorder (o_ign o) F (o_max o) p kk))
                  (inodes_of kk)).
      { destruct (o_dfs o) eqn:Hd.
        - apply dfs_root; try assumption. pose proof (height_le_nodes (NDir a i g true kk)). lia.
        - apply bfs_root; assumption. }
      destruct G as [s1 [E [Ho [Hfo [Hq [[a0 [Hv Hi]] He]]]]]].
      exists s1. split; [exact E|]. unfold gen_post. repeat split; try assumption.
      exists (a0 ++ [i]). rewrite <- app_assoc. split; [exact Hv|].
      intros x Hx. apply in_app_or in Hx. cbn [inodes_node]. fold (inodes_of kk).
      destruct Hx as [Hx|[<-|[]]]; [right; now apply Hi|now left].
    + (* an unlistable root *)
      cbn [nodes] in Hf. destruct fuel as [|f]; [lia|].
      unfold walk_root. rewrite visit_unl.
      set (s1 := add_err p _).
      assert (D : (if o_dfs o then Some s1 else drain accept buffered limit o (S f) (base_depth_of 0 (calc_depth c)) s1) = Some s1).
      { destruct (o_dfs o); [reflexivity|]. reflexivity. }
      rewrite D. exists s1. split; [reflexivity|].
      apply (NOROWS _ [i]); try reflexivity; try exact I. intros x [<-|[]]. now left.
Qed.

Notation walk_roots := (walk_roots accept buffered limit).

Lemma gen_post_trans s0 s1 s2 R1 R2 E1 E2 I1 I2 :
  gen_post s0 s1 R1 E1 I1 -> gen_post s1 s2 R2 E2 I2 -> gen_post s0 s2 (R1 ++ R2) (E1 ++ E2) (I1 ++ I2).
Proof.
  intros [Ao [Af [[a1 [Av Ai]] Ae]]] [Bo [Bf [[a2 [Bv Bi]] Be]]].
  pose proof (take_app buffered limit s0 s1 R1 R2 Af) as T. unfold gen_post. repeat split.
  - rewrite Bo, Ao, T. now rewrite app_assoc.
  - rewrite Bf, Af, T, app_length. lia.
  - exists (a2 ++ a1). rewrite Bv, Av, app_assoc. split; [reflexivity|].
    intros x Hx. apply in_app_or in Hx. apply in_or_app. destruct Hx; [right|left]; auto.
  - intros L. rewrite Be, Ae by assumption. now rewrite app_assoc.
Qed.

(* T3 (and the several-roots half of T4): the roots' listings are concatenated *)
Theorem roots_post fuel F : forall roots s0,
  Forall (fun x => (root_size x <= fuel)%nat /\ (height (snd x) <= F)%nat /\ root_wf x) roots ->
  NoDup (flat_map root_inodes roots) -> fresh (vis s0) (flat_map root_inodes roots) ->
  exists s1, walk_roots fuel roots s0 = Some s1 /\
    gen_post s0 s1 (flat_map (root_rows accept F) roots) (flat_map (root_errs F) roots) (flat_map root_inodes roots).
Proof.
  induction roots as [|[[[o p] c] r] roots IH]; intros s0 Hw Hnd Hfr.
  - exists s0. split; [reflexivity|]. unfold gen_post. cbn [flat_map]. rewrite take_nil, !app_nil_r. cbn [length].
    repeat split; try lia. exists []. split; [reflexivity|intros ? []].
  - inversion Hw as [|? ? [H1 [H2 H3]] Hw']; subst. cbn [flat_map] in *.
    unfold root_inodes at 1 in Hnd. unfold root_inodes at 1 in Hfr. cbn [snd] in *.
    apply NoDup_app_iff in Hnd. destruct Hnd as [N1 [N2 D]].
    destruct (any_root fuel F o p c r s0 H1 H2 H3 N1) as [s1 [E1 P1]].
    { intros x Hx Hk. apply (Hfr x Hx). apply in_or_app. left. destruct r; try destruct Hk. cbn [inodes_node]. now right. }
    cbn [Walk.walk_roots]. rewrite E1.
    destruct (IH s1 Hw' N2) as [s2 [E2 P2]].
    { destruct P1 as [_ [_ [[a [Hv Hi]] _]]]. intros x Hx Hk. rewrite Hv in Hx. apply in_app_or in Hx.
      destruct Hx as [Hx|Hx]; [apply (D x); auto|apply (Hfr x Hx); apply in_or_app; now right]. }
    exists s2. split; [exact E2|]. unfold root_inodes at 1. cbn [snd]. exact (gen_post_trans _ _ _ _ _ _ _ _ _ P1 P2).
Qed.

End G.

Definition roots_ok (fuel F : nat) (roots : list (opts * str * str * node)) : Prop :=
  Forall (fun x => (root_size x <= fuel)%nat /\ (height (snd x) <= F)%nat /\ root_wf x) roots /\
  NoDup (flat_map root_inodes roots).

Lemma take_off buffered s R : take buffered 0 s R = R.
Proof. unfold take, lim_on. now rewrite andb_false_r. Qed.
Lemma take_buffered limit s R : take true limit s R = R.
Proof. reflexivity. Qed.
Lemma take_on n s R : 0 < n -> take false n s R = firstn (N.to_nat (n - found s)) R.
Proof. intros H. unfold take, lim_on. cbn [negb andb]. now replace (0 <? n) with true by lia. Qed.

(* T3: several roots, no limit: rows and errors are the concatenation of the per-root listings *)
Theorem T3_roots accept buffered fuel F roots s0 :
  roots_ok fuel F roots -> fresh (vis s0) (flat_map root_inodes roots) ->
  exists s1, walk_roots accept buffered 0 fuel roots s0 = Some s1 /\
    out s1 = out s0 ++ flat_map (root_rows accept F) roots /\
    errs s1 = errs s0 ++ flat_map (root_errs F) roots /\
    found s1 = found s0 + N.of_nat (length (flat_map (root_rows accept F) roots)) /\
    exists a, vis s1 = a ++ vis s0 /\ incl a (flat_map root_inodes roots).
Proof.
  intros [Hw Hnd] Hfr.
  destruct (roots_post accept buffered 0 fuel F roots s0 Hw Hnd Hfr) as [s1 [E [Ho [Hf [Hv He]]]]].
  rewrite take_off in *. exists s1.
  assert (L : lim_on buffered 0 = false) by (unfold lim_on; now rewrite andb_false_r).
  repeat split; auto.
Qed.

Corollary T3_roots_st0 accept buffered fuel F roots :
  roots_ok fuel F roots ->
  exists s1, walk_roots accept buffered 0 fuel roots st0 = Some s1 /\
    out s1 = flat_map (root_rows accept F) roots /\
    errs s1 = flat_map (root_errs F) roots /\
    found s1 = N.of_nat (length (out s1)).
Proof.
  intros H. destruct (T3_roots accept buffered fuel F roots st0 H) as [s1 [E [Ho [He [Hf _]]]]]; [intros ? []|].
  exists s1. cbn [st0 out errs found app] in *. rewrite Ho. repeat split; auto; try (rewrite Hf; lia).
Qed.

(* T4: LIMIT n without ORDER BY: the first n rows of the unlimited listing; with ORDER BY (buffered)
   the walk ignores the limit *)
Theorem T4_limit_roots accept n fuel F roots s0 :
  0 < n -> roots_ok fuel F roots -> fresh (vis s0) (flat_map root_inodes roots) ->
  exists s1 s1', walk_roots accept false n fuel roots s0 = Some s1 /\
                 walk_roots accept false 0 fuel roots s0 = Some s1' /\
    out s1' = out s0 ++ flat_map (root_rows accept F) roots /\
    out s1 = out s0 ++ firstn (N.to_nat (n - found s0)) (flat_map (root_rows accept F) roots) /\
    found s1 = found s0 + N.of_nat (length (firstn (N.to_nat (n - found s0)) (flat_map (root_rows accept F) roots))) /\
    (found s0 = 0 -> out s0 = [] -> out s1 = firstn (N.to_nat n) (out s1')).
Proof.
  intros Hn [Hw Hnd] Hfr.
  destruct (roots_post accept false n fuel F roots s0 Hw Hnd Hfr) as [s1 [E [Ho [Hf _]]]].
  destruct (roots_post accept false 0 fuel F roots s0 Hw Hnd Hfr) as [s1' [E' [Ho' _]]].
  rewrite take_off in *. rewrite (take_on n s0 _ Hn) in *.
  exists s1, s1'. repeat split; auto.
  intros H0 H1. rewrite Ho, Ho', H0, H1, N.sub_0_r. reflexivity.
Qed.

Theorem T4_buffered_roots accept n fuel F roots s0 :
  roots_ok fuel F roots -> fresh (vis s0) (flat_map root_inodes roots) ->
  exists s1 s1', walk_roots accept true n fuel roots s0 = Some s1 /\
                 walk_roots accept false 0 fuel roots s0 = Some s1' /\
    out s1 = out s1' /\ errs s1 = errs s1' /\ found s1 = found s1'.
Proof.
  intros [Hw Hnd] Hfr.
  destruct (roots_post accept true n fuel F roots s0 Hw Hnd Hfr) as [s1 [E [Ho [Hf [_ He]]]]].
  destruct (roots_post accept false 0 fuel F roots s0 Hw Hnd Hfr) as [s1' [E' [Ho' [Hf' [_ He']]]]].
  rewrite take_off in *. rewrite take_buffered in *.
  exists s1, s1'. repeat split; auto; try congruence.
  rewrite He, He'; [reflexivity| |]; unfold lim_on; [now rewrite andb_false_r|reflexivity].
Qed.

(* single root, either traversal order *)
Theorem T4_limit_root accept n fuel F o p c nm i g kk s0 :
  0 < n ->
  (nodes (NDir nm i g true kk) <= fuel)%nat -> (height (NDir nm i g true kk) <= F)%nat ->
  canon_ok c -> names_ok kk -> NoDup (i :: inodes_of kk) -> fresh (vis s0) (inodes_of kk) ->
  let new := root_rows accept F (o, p, c, NDir nm i g true kk) in
  exists s1 s1', walk_root accept false n o fuel p c (NDir nm i g true kk) s0 = Some s1 /\
                 walk_root accept false 0 o fuel p c (NDir nm i g true kk) s0 = Some s1' /\
    out s1' = out s0 ++ new /\
    out s1 = out s0 ++ firstn (N.to_nat (n - found s0)) new /\
    (found s0 = 0 -> out s0 = [] -> out s1 = firstn (N.to_nat n) (out s1')).
Proof.
  intros Hn Hf HF Hc Hnm Hnd Hfr new.
  assert (Hwf : root_wf (o, p, c, NDir nm i g true kk)) by (split; assumption).
  destruct (any_root accept false n fuel F o p c (NDir nm i g true kk) s0 Hf HF Hwf Hnd Hfr) as [s1 [E [Ho _]]].
  destruct (any_root accept false 0 fuel F o p c (NDir nm i g true kk) s0 Hf HF Hwf Hnd Hfr) as [s1' [E' [Ho' _]]].
  rewrite take_off in *. rewrite (take_on n s0 _ Hn) in *.
  exists s1, s1'. repeat split; auto.
  intros H0 H1. rewrite Ho, Ho', H0, H1, N.sub_0_r. reflexivity.
Qed.

Theorem T4_buffered_root accept n fuel F o p c nm i g kk s0 :
  (nodes (NDir nm i g true kk) <= fuel)%nat -> (height (NDir nm i g true kk) <= F)%nat ->
  canon_ok c -> names_ok kk -> NoDup (i :: inodes_of kk) -> fresh (vis s0) (inodes_of kk) ->
  exists s1 s1', walk_root accept true n o fuel p c (NDir nm i g true kk) s0 = Some s1 /\
                 walk_root accept false 0 o fuel p c (NDir nm i g true kk) s0 = Some s1' /\
    out s1 = out s1' /\ out s1 = out s0 ++ root_rows accept F (o, p, c, NDir nm i g true kk).
Proof.
  intros Hf HF Hc Hnm Hnd Hfr.
  assert (Hwf : root_wf (o, p, c, NDir nm i g true kk)) by (split; assumption).
  destruct (any_root accept true n fuel F o p c (NDir nm i g true kk) s0 Hf HF Hwf Hnd Hfr) as [s1 [E [Ho _]]].
  destruct (any_root accept false 0 fuel F o p c (NDir nm i g true kk) s0 Hf HF Hwf Hnd Hfr) as [s1' [E' [Ho' _]]].
  rewrite take_off in *. rewrite take_buffered in *.
  exists s1, s1'. repeat split; auto; congruence.
Qed.

Print Assumptions T3_roots.
Print Assumptions T3_roots_st0.
Print Assumptions T4_limit_roots.
Print Assumptions T4_buffered_roots.
Print Assumptions T4_limit_root.
Print Assumptions T4_buffered_root.
