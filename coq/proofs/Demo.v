(* Witness tables used by the Examples that show the hypotheses of the format theorems are
   satisfiable by non-trivial data. *)
From Coq Require Import String List NArith Bool.
From FS Require Import lib.Str model.Format.
Import ListNotations.
Open Scope N_scope.

(* ---- witnesses ---------------------------------------------------------------------- *)

(* quotes, commas, CR, LF, TAB, backslash, control characters, DEL, non-ASCII (BMP and astral),
   HTML metacharacters, an empty value, a lone empty column. *)
Definition demo_table : table :=
  [ [ (s "name", s "a ""quoted"", value" ++ [13; 10] ++ s "second line");
      (s "path", s "C:\dir\file" ++ [9; 1; 31; 127] ++ [233; 8364; 128512]);
      (s "html", s "<td>&amp; 'x' </td>") ];
    [ (s "name", []); (s "path", s ","); (s "html", s """") ];
    [ (s "name", s "plain"); (s "path", [10]); (s "html", [13]) ] ].

(* the same with a column selected twice (select name, name): JSON keeps the last one *)
Definition demo_dup_table : table :=
  [ [ (s "name", s "first"); (s "size", s "1"); (s "name", s "last ""one""") ] ].

(* a single empty value per row: the CSV special case *)
Definition demo_single_table : table := [ [ (s "name", []) ]; [ (s "name", s "x") ] ].

(* for tabs / lines: no TAB, no LF (but quotes, commas, CR, non-ASCII, NUL) *)
Definition demo_flat_table : table :=
  [ [ (s "name", s "a ""q"", b" ++ [13; 0; 233; 128512]); (s "size", s "<1>") ];
    [ (s "name", []); (s "size", s "&") ] ].
