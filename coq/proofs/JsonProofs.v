(* JSON: the BTreeMap model [canon_row] meets its specification, and the decoder inverts the
   emitter for ALL tables (any code points in keys and values).
   The string level follows DESIGN.md appendix H.10 (escape table, finite split on the 32
   control characters), transported to N and to the one-pass decoder. *)
From Coq Require Import String List NArith Bool Lia Sorted Permutation Relations RelationClasses.
From FS Require Import lib.Str lib.Fin model.Format model.Decode proofs.Common proofs.Demo.
Import ListNotations.
Open Scope N_scope.

(* ================================================================================== *)
(* 1. key order and the BTreeMap model                                                  *)

Lemma str_cmp_eq a : forall b, str_cmp a b = Eq -> a = b.
Proof.
  induction a as [|x a IH]; intros [|y b] H; cbn [str_cmp] in H; try discriminate; [reflexivity|].
  destruct (x ?= y) eqn:E; try discriminate.
  apply N.compare_eq in E. subst y. f_equal. apply IH, H.
Qed.

Lemma str_cmp_refl a : str_cmp a a = Eq.
Proof. induction a as [|x a IH]; cbn [str_cmp]; [reflexivity|]. now rewrite N.compare_refl. Qed.

Lemma str_cmp_antisym a : forall b, str_cmp b a = CompOpp (str_cmp a b).
Proof.
  induction a as [|x a IH]; intros [|y b]; cbn [str_cmp]; try reflexivity.
  rewrite (N.compare_antisym x y). destruct (x ?= y); cbn [CompOpp]; [apply IH | reflexivity | reflexivity].
Qed.

Lemma str_cmp_lt_trans a : forall b c, str_cmp a b = Lt -> str_cmp b c = Lt -> str_cmp a c = Lt.
Proof.
  induction a as [|x a IH]; intros [|y b] [|z c] H1 H2; cbn [str_cmp] in *; try discriminate; try reflexivity.
  destruct (x ?= y) eqn:E1; try discriminate; destruct (y ?= z) eqn:E2; try discriminate.
  - apply N.compare_eq in E1, E2. subst y z. rewrite N.compare_refl. eapply IH; eassumption.
  - apply N.compare_eq in E1. subst y. now rewrite E2.
  - apply N.compare_eq in E2. subst z. now rewrite E1.
  - apply N.compare_lt_iff in E1. apply N.compare_lt_iff in E2.
    assert (E3 : x < z) by (apply (N.lt_trans x y z); assumption).
    apply N.compare_lt_iff in E3. now rewrite E3.
Qed.

Lemma str_eqb_cmp k k' : str_eqb k k' = match str_cmp k k' with Eq => true | _ => false end.
Proof.
  destruct (str_cmp k k') eqn:E.
  - apply str_cmp_eq in E. subst. apply str_eqb_refl.
  - destruct (str_eqb k k') eqn:B; [|reflexivity].
    apply str_eqb_eq in B. subst. rewrite str_cmp_refl in E. discriminate.
  - destruct (str_eqb k k') eqn:B; [|reflexivity].
    apply str_eqb_eq in B. subst. rewrite str_cmp_refl in E. discriminate.
Qed.

Definition key_lt (p q : str * str) : Prop := str_cmp (fst p) (fst q) = Lt.

Lemma key_lt_trans : Transitive key_lt.
Proof. intros p q r. unfold key_lt. apply str_cmp_lt_trans. Qed.

Definition ins (m : list (str * str)) (kv : str * str) := bt_insert (fst kv) (snd kv) m.
Lemma canon_row_fold r : canon_row r = fold_left ins r [].
Proof. reflexivity. Qed.

(* -- the map is strictly sorted by key -- *)

Lemma bt_insert_hd p k v m :
  HdRel key_lt p m -> key_lt p (k, v) -> HdRel key_lt p (bt_insert k v m).
Proof.
  intros H Hk. destruct m as [|[k' v'] r]; cbn [bt_insert]; [constructor; exact Hk|].
  inversion H as [|q l Hp]; subst.
  destruct (str_cmp k k'); constructor; [exact Hp | exact Hk | exact Hp].
Qed.

Lemma bt_insert_sorted k v m : Sorted key_lt m -> Sorted key_lt (bt_insert k v m).
Proof.
  induction m as [|[k' v'] r IH]; intros HS; cbn [bt_insert]; [repeat constructor|].
  inversion HS as [|q l HSr HH]; subst.
  destruct (str_cmp k k') eqn:E.
  - constructor; [exact HSr|]. destruct HH as [|q l Hq]; constructor. exact Hq.
  - constructor; [exact HS|]. constructor. exact E.
  - constructor; [apply IH; exact HSr|]. apply bt_insert_hd; [exact HH|].
    unfold key_lt. cbn [fst]. rewrite (str_cmp_antisym k k'), E. reflexivity.
Qed.

Lemma fold_ins_sorted r : forall m, Sorted key_lt m -> Sorted key_lt (fold_left ins r m).
Proof.
  induction r as [|kv r IH]; intros m H; cbn [fold_left]; [exact H|].
  apply IH. apply bt_insert_sorted, H.
Qed.

Theorem canon_row_sorted r : StronglySorted key_lt (canon_row r).
Proof.
  apply Sorted_StronglySorted; [exact key_lt_trans|].
  rewrite canon_row_fold. apply fold_ins_sorted. constructor.
Qed.

Theorem canon_row_keys_nodup r : NoDup (map fst (canon_row r)).
Proof.
  generalize (canon_row_sorted r). generalize (canon_row r) as m.
  induction m as [|p m IH]; intros HS; cbn [map]; [constructor|].
  inversion HS as [|q l HSm HF]; subst. constructor; [|apply IH, HSm].
  intros HIn. apply in_map_iff in HIn. destruct HIn as [q [Hq HIn]].
  rewrite Forall_forall in HF. specialize (HF q HIn). unfold key_lt in HF.
  rewrite Hq, str_cmp_refl in HF. discriminate.
Qed.

(* -- reading the map: the last value written for a key wins -- *)

Lemma assoc_app {A} q (a b : list (str * A)) :
  assoc q (a ++ b) = match assoc q a with Some v => Some v | None => assoc q b end.
Proof.
  induction a as [|[k v] a IH]; cbn [app assoc]; [reflexivity|].
  destruct (str_eqb q k); [reflexivity | exact IH].
Qed.

Lemma assoc_bt_insert q k v m :
  assoc q (bt_insert k v m) = if str_eqb q k then Some v else assoc q m.
Proof.
  induction m as [|[k' v'] r IH]; cbn [bt_insert]; [reflexivity|].
  destruct (str_cmp k k') eqn:E.
  - apply str_cmp_eq in E. subst k'. cbn [assoc]. destruct (str_eqb q k); reflexivity.
  - reflexivity.
  - cbn [assoc]. rewrite IH.
    destruct (str_eqb q k') eqn:B1; destruct (str_eqb q k) eqn:B2; try reflexivity.
    apply str_eqb_eq in B1, B2. subst k k'. rewrite str_cmp_refl in E. discriminate.
Qed.

Lemma assoc_fold_ins q r : forall m,
  assoc q (fold_left ins r m) = match assoc q (rev r) with Some v => Some v | None => assoc q m end.
Proof.
  induction r as [|[k v] r IH]; intros m; cbn [fold_left rev]; [reflexivity|].
  rewrite IH, assoc_app. change (ins m (k, v)) with (bt_insert k v m). rewrite assoc_bt_insert. cbn [assoc].
  destruct (assoc q (rev r)); [reflexivity|]. destruct (str_eqb q k); reflexivity.
Qed.

Theorem canon_row_lookup q r : assoc q (canon_row r) = assoc q (rev r).
Proof. rewrite canon_row_fold, assoc_fold_ins. destruct (assoc q (rev r)); reflexivity. Qed.

(* -- with distinct keys nothing is lost: the map is a permutation of the row -- *)

Lemma bt_insert_perm k v m :
  ~ In k (map fst m) -> Permutation ((k, v) :: m) (bt_insert k v m).
Proof.
  induction m as [|[k' v'] r IH]; intros Hn; cbn [bt_insert]; [apply Permutation_refl|].
  destruct (str_cmp k k') eqn:E.
  - apply str_cmp_eq in E. subst k'. exfalso. apply Hn. left. reflexivity.
  - apply Permutation_refl.
  - eapply perm_trans; [apply perm_swap|]. apply perm_skip. apply IH.
    intros HIn. apply Hn. right. exact HIn.
Qed.

Lemma fold_ins_perm r : forall m,
  NoDup (map fst (r ++ m)) -> Permutation (r ++ m) (fold_left ins r m).
Proof.
  induction r as [|[k v] r IH]; intros m HN; cbn [fold_left app]; [apply Permutation_refl|].
  cbn [app map fst] in HN. inversion HN as [|x l Hnotin HN']; subst.
  assert (Hk : ~ In k (map fst m)).
  { intros HIn. apply Hnotin. rewrite map_app. apply in_or_app. right. exact HIn. }
  assert (HP : Permutation ((k, v) :: r ++ m) (r ++ bt_insert k v m)).
  { eapply perm_trans; [apply Permutation_middle|]. apply Permutation_app_head.
    apply bt_insert_perm, Hk. }
  eapply perm_trans; [exact HP|]. change (ins m (k, v)) with (bt_insert k v m). apply IH.
  eapply Permutation_NoDup; [|exact HN].
  change (k :: map fst (r ++ m)) with (map fst ((k, v) :: r ++ m)).
  apply Permutation_map. exact HP.
Qed.

Theorem canon_row_perm r : NoDup (map fst r) -> Permutation r (canon_row r).
Proof.
  intros H. rewrite canon_row_fold. rewrite <- (app_nil_r r) at 1.
  apply fold_ins_perm. rewrite app_nil_r. exact H.
Qed.

Lemma assoc_In_nodup {A} k (v : A) l : NoDup (map fst l) -> In (k, v) l -> assoc k l = Some v.
Proof.
  induction l as [|[k' v'] l IH]; intros HN HIn; [destruct HIn|].
  cbn [map fst] in HN. inversion HN as [|x l' Hnotin HN']; subst. cbn [assoc].
  destruct HIn as [HIn|HIn].
  - inversion HIn; subst. now rewrite str_eqb_refl.
  - destruct (str_eqb k k') eqn:B; [|apply IH; assumption].
    apply str_eqb_eq in B. subst k'. exfalso. apply Hnotin.
    apply in_map_iff. exists (k, v). split; [reflexivity | exact HIn].
Qed.

(* every column of a row with distinct names can be read back from the map *)
Theorem canon_row_lookup_all r :
  NoDup (map fst r) -> lookup_all (map fst r) (canon_row r) = Some (map snd r).
Proof.
  intros HN.
  assert (H : forall l, incl l r -> lookup_all (map fst l) (canon_row r) = Some (map snd l)).
  { induction l as [|[k v] l IH]; intros Hincl; cbn [map lookup_all fst snd]; [reflexivity|].
    rewrite IH by (intros x Hx; apply Hincl; right; exact Hx).
    rewrite canon_row_lookup.
    rewrite (assoc_In_nodup k v (rev r)); [reflexivity | |].
    - eapply Permutation_NoDup; [|exact HN]. apply Permutation_map, Permutation_rev.
    - apply in_rev. rewrite rev_involutive. apply Hincl. left. reflexivity. }
  apply H. apply incl_refl.
Qed.

(* ================================================================================== *)
(* 2. string level (H.10)                                                              *)

Lemma jgo_skip p : forall st cur key obj objs w,
  jgo (length p) st cur key obj objs (p ++ w) = jgo 0 st cur key obj objs w.
Proof.
  induction p as [|c p IH]; intros st cur key obj objs w; [reflexivity|].
  cbn [length app]. change (jgo (S (length p)) st cur key obj objs (c :: p ++ w))
    with (jgo (length p) st cur key obj objs (p ++ w)). apply IH.
Qed.

(* one emitted character: its first code point is not the quote and the tokenizer reads it back *)
Lemma jtok_jesc c rest :
  exists e es, jesc c = e :: es /\ (e =? 34) = false /\ jtok e (es ++ rest) = Some (c, length es).
Proof.
  unfold jesc.
  destruct (c =? 34) eqn:E1; [apply N.eqb_eq in E1; subst; exists 92, [34]; repeat split|].
  destruct (c =? 92) eqn:E2; [apply N.eqb_eq in E2; subst; exists 92, [92]; repeat split|].
  destruct (c =? 8) eqn:E3; [apply N.eqb_eq in E3; subst; exists 92, [98]; repeat split|].
  destruct (c =? 9) eqn:E4; [apply N.eqb_eq in E4; subst; exists 92, [116]; repeat split|].
  destruct (c =? 10) eqn:E5; [apply N.eqb_eq in E5; subst; exists 92, [110]; repeat split|].
  destruct (c =? 12) eqn:E6; [apply N.eqb_eq in E6; subst; exists 92, [102]; repeat split|].
  destruct (c =? 13) eqn:E7; [apply N.eqb_eq in E7; subst; exists 92, [114]; repeat split|].
  destruct (c <? 32) eqn:E8.
  - (* finite: the 32 control characters *)
    apply N.ltb_lt in E8.
    assert (HIn : In c (below_pow2 5)) by (apply below_pow2_complete; exact E8).
    exists 92, [117; 48; 48; hexd (c / 16); hexd (c mod 16)]. split; [reflexivity|]. split; [reflexivity|].
    vm_compute in HIn.
    repeat (destruct HIn as [HIn|HIn]; [subst c; reflexivity|]). destruct HIn.
  - exists c, []. split; [reflexivity|]. split; [exact E1|].
    unfold jtok. rewrite E2, E8. reflexivity.
Qed.

Lemma jgo_str_step b cur key obj objs e r : (e =? 34) = false ->
  jgo 0 (JStr b) cur key obj objs (e :: r)
  = match jtok e r with
    | Some (x, k) => jgo k (JStr b) (x :: cur) key obj objs r
    | None => None
    end.
Proof. intros H. cbn [jgo]. rewrite H. reflexivity. Qed.

Lemma jgo_body b x : forall cur key obj objs rest,
  jgo 0 (JStr b) cur key obj objs (flat_map jesc x ++ rest)
  = jgo 0 (JStr b) (rev x ++ cur) key obj objs rest.
Proof.
  induction x as [|c x IH]; intros cur key obj objs rest; [reflexivity|].
  cbn [flat_map rev]. rewrite <- !app_assoc.
  destruct (jtok_jesc c (flat_map jesc x ++ rest)) as (e & es & He & Hq & Ht).
  rewrite He. cbn [app]. rewrite (jgo_str_step b cur key obj objs e _ Hq), Ht.
  rewrite jgo_skip, IH. reflexivity.
Qed.

(* ================================================================================== *)
(* 3. members, objects, array                                                          *)

Lemma j_arr0_obj objs r : jgo 0 JArr0 [] [] [] objs (123 :: r) = jgo 0 JMem0 [] [] [] objs r.
Proof. reflexivity. Qed.
Lemma j_arr0_end objs r : jgo 0 JArr0 [] [] [] objs (93 :: r) = jgo 0 JEnd [] [] [] objs r.
Proof. reflexivity. Qed.
Lemma j_obj objs r : jgo 0 JObj [] [] [] objs (123 :: r) = jgo 0 JMem0 [] [] [] objs r.
Proof. reflexivity. Qed.
Lemma j_mem0_q obj objs r : jgo 0 JMem0 [] [] obj objs (34 :: r) = jgo 0 (JStr false) [] [] obj objs r.
Proof. reflexivity. Qed.
Lemma j_mem0_end obj objs r :
  jgo 0 JMem0 [] [] obj objs (125 :: r) = jgo 0 JObjEnd [] [] [] (rev obj :: objs) r.
Proof. reflexivity. Qed.
Lemma j_keyq obj objs r : jgo 0 JKeyQ [] [] obj objs (34 :: r) = jgo 0 (JStr false) [] [] obj objs r.
Proof. reflexivity. Qed.
Lemma j_key_close cur key obj objs r :
  jgo 0 (JStr false) cur key obj objs (34 :: r) = jgo 0 JColon [] (rev cur) obj objs r.
Proof. reflexivity. Qed.
Lemma j_val_close cur key obj objs r :
  jgo 0 (JStr true) cur key obj objs (34 :: r) = jgo 0 JMemEnd [] [] ((key, rev cur) :: obj) objs r.
Proof. reflexivity. Qed.
Lemma j_colon key obj objs r : jgo 0 JColon [] key obj objs (58 :: r) = jgo 0 JValQ [] key obj objs r.
Proof. reflexivity. Qed.
Lemma j_valq key obj objs r : jgo 0 JValQ [] key obj objs (34 :: r) = jgo 0 (JStr true) [] key obj objs r.
Proof. reflexivity. Qed.
Lemma j_memend_comma obj objs r : jgo 0 JMemEnd [] [] obj objs (44 :: r) = jgo 0 JKeyQ [] [] obj objs r.
Proof. reflexivity. Qed.
Lemma j_memend_close obj objs r :
  jgo 0 JMemEnd [] [] obj objs (125 :: r) = jgo 0 JObjEnd [] [] [] (rev obj :: objs) r.
Proof. reflexivity. Qed.
Lemma j_objend_comma objs r : jgo 0 JObjEnd [] [] [] objs (44 :: r) = jgo 0 JObj [] [] [] objs r.
Proof. reflexivity. Qed.
Lemma j_objend_close objs r : jgo 0 JObjEnd [] [] [] objs (93 :: r) = jgo 0 JEnd [] [] [] objs r.
Proof. reflexivity. Qed.
Lemma j_end objs : jgo 0 JEnd [] [] [] objs [] = Some (rev objs).
Proof. reflexivity. Qed.

Definition keystart (st : jst) : Prop := st = JMem0 \/ st = JKeyQ.
Definition objstart (st : jst) : Prop := st = JArr0 \/ st = JObj.

Lemma jgo_key st obj objs k rest : keystart st ->
  jgo 0 st [] [] obj objs (json_string k ++ rest) = jgo 0 JColon [] k obj objs rest.
Proof.
  intros Hst. unfold json_string. cbn [app]. rewrite <- app_assoc.
  assert (H1 : jgo 0 st [] [] obj objs (34 :: flat_map jesc k ++ [34] ++ rest)
               = jgo 0 (JStr false) [] [] obj objs (flat_map jesc k ++ [34] ++ rest)).
  { destruct Hst as [Hst|Hst]; subst st; [apply j_mem0_q | apply j_keyq]. }
  rewrite H1, jgo_body. cbn [app]. rewrite j_key_close, app_nil_r, rev_involutive. reflexivity.
Qed.

Lemma jgo_val key obj objs v rest :
  jgo 0 JValQ [] key obj objs (json_string v ++ rest) = jgo 0 JMemEnd [] [] ((key, v) :: obj) objs rest.
Proof.
  unfold json_string. cbn [app]. rewrite <- app_assoc.
  rewrite j_valq, jgo_body. cbn [app]. rewrite j_val_close, app_nil_r, rev_involutive. reflexivity.
Qed.

Lemma jgo_member st obj objs kv rest : keystart st ->
  jgo 0 st [] [] obj objs (json_member kv ++ rest) = jgo 0 JMemEnd [] [] (kv :: obj) objs rest.
Proof.
  intros Hst. destruct kv as [k v]. unfold json_member. cbn [fst snd].
  rewrite <- !app_assoc. rewrite (jgo_key st obj objs k _ Hst). cbn [app].
  rewrite j_colon, jgo_val. reflexivity.
Qed.

Lemma jgo_members m : forall st kv obj objs rest, keystart st ->
  jgo 0 st [] [] obj objs (join [44] (map json_member (kv :: m)) ++ 125 :: rest)
  = jgo 0 JObjEnd [] [] [] ((rev obj ++ kv :: m) :: objs) rest.
Proof.
  induction m as [|kv' m IH]; intros st kv obj objs rest Hst.
  - rewrite map_cons. cbn [map]. rewrite join_one, (jgo_member st obj objs kv _ Hst), j_memend_close.
    reflexivity.
  - rewrite map_cons, map_cons, join_cons2, <- map_cons. rewrite <- !app_assoc.
    rewrite (jgo_member st obj objs kv _ Hst). cbn [app]. rewrite j_memend_comma.
    rewrite (IH JKeyQ kv' (kv :: obj) objs rest) by (right; reflexivity).
    cbn [rev]. rewrite <- app_assoc. reflexivity.
Qed.

Lemma jgo_object st m objs rest : objstart st ->
  jgo 0 st [] [] [] objs (json_object m ++ rest) = jgo 0 JObjEnd [] [] [] (m :: objs) rest.
Proof.
  intros Hst. unfold json_object. rewrite <- !app_assoc. cbn [app].
  assert (H1 : forall r, jgo 0 st [] [] [] objs (123 :: r) = jgo 0 JMem0 [] [] [] objs r).
  { intros r. destruct Hst as [Hst|Hst]; subst st; [apply j_arr0_obj | apply j_obj]. }
  rewrite H1. destruct m as [|kv m].
  - cbn [map join app]. rewrite j_mem0_end. reflexivity.
  - rewrite (jgo_members m JMem0 kv [] objs rest) by (left; reflexivity). reflexivity.
Qed.

Lemma jgo_objects os : forall st o objs, objstart st ->
  jgo 0 st [] [] [] objs (join [44] (map json_object (o :: os)) ++ [93]) = Some (rev objs ++ o :: os).
Proof.
  induction os as [|o' os IH]; intros st o objs Hst.
  - rewrite map_cons. cbn [map]. rewrite join_one, (jgo_object st o objs _ Hst), j_objend_close, j_end.
    reflexivity.
  - rewrite map_cons, map_cons, join_cons2, <- map_cons. rewrite <- !app_assoc.
    rewrite (jgo_object st o objs _ Hst). cbn [app]. rewrite j_objend_comma.
    rewrite (IH JObj o' (o :: objs)) by (right; reflexivity).
    cbn [rev]. rewrite <- app_assoc. reflexivity.
Qed.

Lemma emit_doc_json t :
  emit_doc Json t = 91 :: join [44] (map json_object (map canon_row t)) ++ [93].
Proof.
  unfold emit_doc, emit_doc_with. rewrite map_map. reflexivity.
Qed.

(* ================================================================================== *)
(* 4. theorems                                                                         *)

(* Any consumer that parses the streamed JSON output gets, for every row, exactly the
   BTreeMap of that row: members sorted by key, the last value of a repeated key. *)
Theorem json_roundtrip : forall t : table,
  decode_json (emit_doc Json t) = Some (map canon_row t).
Proof.
  intros t. rewrite emit_doc_json.
  change (jgo 0 JArr0 [] [] [] [] (join [44] (map json_object (map canon_row t)) ++ [93])
          = Some (map canon_row t)).
  destruct t as [|r t]; [reflexivity|].
  rewrite map_cons. rewrite (jgo_objects (map canon_row t) JArr0 (canon_row r) []) by (left; reflexivity).
  reflexivity.
Qed.

(* The output is well-formed JSON (an RFC 8259 array of objects with string members). *)
Theorem json_wellformed : forall t : table, json_ok (emit_doc Json t) = true.
Proof. intros t. unfold json_ok. now rewrite json_roundtrip. Qed.

(* With pairwise distinct column names in each row, the decoded object holds the same
   multiset of (name, value) pairs as the row, and each column is read back by name. *)
Corollary json_roundtrip_distinct : forall t : table,
  distinct_keys t ->
  exists t', decode_json (emit_doc Json t) = Some t'
             /\ Forall2 (@Permutation (str * str)) t t'
             /\ Forall2 (fun r o => lookup_all (map fst r) o = Some (map snd r)) t t'.
Proof.
  intros t H. exists (map canon_row t). split; [apply json_roundtrip|].
  unfold distinct_keys in H. split.
  - induction H as [|r t Hr _ IH]; cbn [map]; constructor; [apply canon_row_perm, Hr | exact IH].
  - induction H as [|r t Hr _ IH]; cbn [map]; constructor; [apply canon_row_lookup_all, Hr | exact IH].
Qed.

Example json_distinct_satisfiable : distinct_keys demo_table.
Proof. apply distinct_keysb_ok. vm_compute. reflexivity. Qed.

Example json_demo :
  decode_json (emit_doc Json demo_table) = Some (map canon_row demo_table)
  /\ decode_json (emit_doc Json demo_dup_table)
     = Some [[(s "name", s "last ""one"""); (s "size", s "1")]].
Proof. split; vm_compute; reflexivity. Qed.

(* F17: the grouped path never writes the row separator; with two rows the output is not JSON. *)
Definition f17_table : table := [ [(s "name", s "a")]; [(s "name", s "b")] ].
Theorem json_nosep_refuted :
  emit_doc_nosep Json f17_table = s "[{""name"":""a""}{""name"":""b""}]"
  /\ decode_json (emit_doc_nosep Json f17_table) = None
  /\ json_ok (emit_doc_nosep Json f17_table) = false.
Proof. repeat split; vm_compute; reflexivity. Qed.

Print Assumptions json_roundtrip.
Print Assumptions json_wellformed.
Print Assumptions json_roundtrip_distinct.
Print Assumptions canon_row_sorted.
Print Assumptions canon_row_lookup.
Print Assumptions json_nosep_refuted.
