(* C11: documented aliases resolve to the same constructor, and the lookups ignore letter case.
   Tables: regenerated from field.rs / function.rs / operators.rs; alias groups: regenerated from
   docs/usage.md (gen/DocGen.v). *)
From Coq Require Import List NArith ZArith Bool String.
From FS Require Import lib.Str lib.Res gen.OpsGen gen.FieldGen gen.FuncGen gen.DocGen gen.SizeGen model.Lexer model.Expr model.Parser.
Import ListNotations.

Section Same.
Context {A : Type} (eqb : A -> A -> bool).
Definition all_same_some (l : list (option A)) : bool :=
  match l with
  | Some a :: r => forallb (fun x => match x with Some b => eqb a b | None => false end) r
  | _ => false
  end.
End Same.

Definition cols_ok : bool := forallb (fun g => all_same_some Field_eqb (map Field_from_str g)) doc_column_groups.
Definition ops_ok : bool := forallb (fun g => all_same_some Op_eqb (map Op_from g)) doc_operator_groups.
Definition ariths_ok : bool := forallb (fun g => all_same_some ArithmeticOp_eqb (map Arith_from g)) doc_arith_groups.

(* the documented groups really are groups of the source's lookup tables *)
Lemma doc_columns_resolve : cols_ok = true.   Proof. vm_compute. reflexivity. Qed.
Lemma doc_operators_resolve : ops_ok = true.   Proof. vm_compute. reflexivity. Qed.
Lemma doc_arith_resolve : ariths_ok = true.    Proof. vm_compute. reflexivity. Qed.

(* every documented operator spelling also gets through the LEXER as an operator (words need the
   lexer's operator-word list; symbols its operator characters), in a WHERE clause *)
Definition lexes_as_operator (w : str) : bool :=
  match lex [s "name from t where size " ++ w ++ s " 1"%string] with
  | [RawString _; From; RawString _; Where; RawString _; Operator o; RawString _] => str_eqb o w
  | _ => false
  end.
Lemma doc_operators_lex : forallb (fun g => forallb lexes_as_operator g) doc_operator_groups = true.
Proof. vm_compute. reflexivity. Qed.

(* every documented arithmetic spelling lexes as an arithmetic operator after WHERE *)
Definition lexes_as_arith (w : str) : bool :=
  match lex [s "name from t where size " ++ w ++ s " 1 > 2"%string] with
  | RawString _ :: From :: RawString _ :: Where :: RawString _ :: ArithmeticOperator o :: _ => str_eqb o w
  | _ => false
  end.
Lemma doc_arith_lex : forallb (fun g => forallb lexes_as_arith g) doc_arith_groups = true.
Proof. vm_compute. reflexivity. Qed.

(* case-insensitivity: the lookups lower-case their argument, so any re-casing f (one that does not change
   the ASCII lower-casing of a character) leaves the result unchanged, for ALL strings *)
Section Case.
Variable f : N -> N.
Hypothesis f_ok : forall c, lower1 (f c) = lower1 c.
Lemma lower_recased x : ascii_lower (map f x) = ascii_lower x.
Proof. unfold ascii_lower. rewrite map_map. apply map_ext. exact f_ok. Qed.
Lemma Field_from_str_case x : Field_from_str (map f x) = Field_from_str x.
Proof. unfold Field_from_str. cbn [Field_from_str_lowercases]. now rewrite lower_recased. Qed.
Lemma Function_from_str_case x : Function_from_str (map f x) = Function_from_str x.
Proof. unfold Function_from_str. cbn [Function_from_str_lowercases]. now rewrite lower_recased. Qed.
Lemma Op_from_case x : Op_from (map f x) = Op_from x.
Proof. unfold Op_from. cbn [Op_from_lowercases]. now rewrite lower_recased. Qed.
Lemma Arith_from_case x : Arith_from (map f x) = Arith_from x.
Proof. unfold Arith_from. cbn [Arith_from_lowercases]. now rewrite lower_recased. Qed.
Lemma str_to_bool_case x : str_to_bool (map f x) = str_to_bool x.
Proof. unfold str_to_bool. cbn [str_to_bool_lowercases]. now rewrite lower_recased. Qed.
End Case.

Lemma upper1_ok c : lower1 (upper1 c) = lower1 c.   Proof. apply lower1_upper1. Qed.
Lemma lower1_ok c : lower1 (lower1 c) = lower1 c.   Proof. apply lower1_idem. Qed.

(* optional tokens: a leading `select`, commas, `asc`, brackets of either style - on concrete witnesses *)
Definition same_query (a b : list str) : bool := str_eqb (show_query (parse a)) (show_query (parse b)).
Lemma optional_tokens_examples :
  same_query [s "select name, size from t where size > 1 order by name asc"%string] [s "name size from t where size > 1 order by name"%string] = true /\
  same_query [s "name from t where (size > 1 or name = 'a') and size < 9"%string] [s "name from t where {size > 1 or name = 'a'} and size < 9"%string] = true /\
  same_query [s "lower(name) from t"%string] [s "LOWER{NAME} FROM t"%string] = true /\
  same_query [s "curdate() from t"%string] [s "curdate from t"%string] = true /\
  same_query [s "name"%string; s "from"%string; s "t"%string; s "where"%string; s "size"%string; s "gt"%string; s "1"] [s "name from t where size gt 1"%string] = true.
Proof. vm_compute. repeat split; reflexivity. Qed.
