(* C15, second half: "the value shown in a column depends only on that column's expression and
   the entry - it is the same whatever other columns are selected next to it, in whatever order."

   model/Eval.v evaluates a select list left to right with ONE per-row cache keyed by the Display
   text of every column / arithmetic node; a hit returns the PRINTED text of the earlier value; a
   literal is its own value and is neither cached nor looked up (fix c3c8dee).  So a column's value
   does depend, operationally, on what was evaluated before it.  This file shows the dependence is
   not observable for the source language

     cexp := CNum neg digits | CStr text | CCol neg f | CBin op l r

   where a quoted string literal `CStr text` is ANY text as a column, and as an OPERAND of an
   arithmetic node any text subject to `lit_ok` (below; without it two different nodes can have the
   same Display text - see the collision Examples at the end).

     den a                  the value of `a` for the entry, WITHOUT any cache
     sound c                every cached text is the printed `den` of a column / arithmetic node whose
                            Display text is the key
     key_den                equal keys of cached-class expressions give equal `den` (decoder `dec`)
     eval_sound             eval keeps `sound`, and returns `den a` (miss) or its printed text (hit)
     columns_independent    eval_row on the empty cache = map (v_show . den)

   Two facts about lib/F64.v are ASSUMED (Section hypotheses, explicit premises of every theorem
   below): re-reading the printed text of a float that f_calc produced / of a column value of the
   entry gives the same float back.  lib/F64.v proves nothing about parse_f64 / show_f64 (they are
   validated by differential testing against Rust only). *)
From Coq Require Import List NArith ZArith Bool Arith Lia Floats Permutation String.
From FS Require Import lib.Str lib.Res lib.Dec lib.F64 gen.OpsGen gen.FieldGen gen.FuncGen model.Expr model.Parser
  model.Eval proofs.C15_expr proofs.DisplayProofs.
Import ListNotations.
Open Scope N_scope.

(* ================= the source language ================= *)
Inductive cexp :=
| CNum (neg : bool) (digits : str)
| CStr (text : str)
| CCol (neg : bool) (f : Field)
| CBin (o : ArithmeticOp) (l r : cexp).

(* as the parser builds them: Expr_value / Expr_field + set_minus, Expr_arithmetic_op *)
Fixpoint cembed (a : cexp) : expr :=
  match a with
  | CNum neg ds => set_minus (Expr_value ds) neg
  | CStr t => Expr_value t
  | CCol neg f => set_minus (Expr_field f) neg
  | CBin o l r => Expr_arithmetic_op (cembed l) o (cembed r)
  end.

Definition key (a : cexp) : str := display (cembed a).

Fixpoint cheight (a : cexp) : nat :=
  match a with CBin _ l r => S (Nat.max (cheight l) (cheight r)) | _ => O end.

Definition is_bin (a : cexp) : bool := match a with CBin _ _ _ => true | _ => false end.
(* what get_column_expr_value caches (and looks up): columns and arithmetic nodes, not literals *)
Definition cacheable (a : cexp) : bool := match a with CCol _ _ | CBin _ _ _ => true | _ => false end.

Lemma key_num neg ds : key (CNum neg ds) = sign neg ++ ds.
Proof. exact (display_num neg ds). Qed.
Lemma key_str t : key (CStr t) = t.
Proof. exact (display_num false t). Qed.
Lemma key_col neg f : key (CCol neg f) = sign neg ++ Field_name f.
Proof. exact (display_col neg f). Qed.
Lemma key_bin o l r : key (CBin o l r) = [40] ++ key l ++ [32; op_char o; 32] ++ key r ++ [41].
Proof. unfold key. cbn [cembed]. rewrite <- arith_symbol_eq. reflexivity. Qed.

(* ---------- texts ---------- *)
Definition is_op (c : N) : bool := match op_of_char c with Some _ => true | None => false end.
(* " + ", " - ", " * ", " / ", " % " at the head of x *)
Definition starts_pat (x : str) : bool :=
  match x with a :: b :: c :: _ => (a =? 32) && is_op b && (c =? 32) | _ => false end.
Fixpoint has_pat (x : str) : bool :=
  match x with [] => false | a :: t => starts_pat (a :: t) || has_pat t end.
Definition is_open (x : str) : bool := match x with c :: _ => c =? 40 | [] => false end.

(* a string literal as LEFT operand: does not start with '(' and, followed by a blank, contains no
   blank-operator-blank;  as RIGHT operand: does not start with '(' and contains no ')' *)
Definition left_ok (t : str) : bool := negb (is_open t) && negb (has_pat (t ++ [32])).
Definition right_ok (t : str) : bool := negb (is_open t) && negb (existsb (fun c => c =? 41) t).

(* the text [-]FieldName of a column *)
Definition col_of (t : str) : option (bool * Field) :=
  let '(neg, body) := strip_sign t in
  match field_of_name body with Some f => Some (neg, f) | None => None end.

(* ... and in both positions it is not the Display text of a column *)
Definition lit_ok (left : bool) (t : str) : bool :=
  (if left then left_ok t else right_ok t) && match col_of t with None => true | Some _ => false end.

Fixpoint wf_op (left : bool) (a : cexp) : Prop :=
  match a with
  | CNum _ ds => ds <> [] /\ forallb is_digit ds = true
  | CStr t => lit_ok left t = true
  | CCol _ _ => True
  | CBin _ l r => wf_op true l /\ wf_op false r
  end.

(* a column of the select list: any string literal, or a number / column / arithmetic node *)
Definition cwf (a : cexp) : Prop := match a with CStr _ => True | _ => wf_op true a end.

Lemma wf_op_cwf left a : wf_op left a -> cwf a.
Proof. destruct a; cbn; auto. Qed.

(* a sufficient condition that does not depend on the position: no brackets, no blank *)
Definition plain (c : N) : bool := negb (c =? 32) && negb (c =? 40) && negb (c =? 41).

Lemma plain_ok x (left : bool) : forallb plain x = true -> (if left then left_ok x else right_ok x) = true.
Proof.
  intros H.
  assert (Ho : is_open x = false).
  { destruct x as [|c x]; [reflexivity|]. cbn [forallb] in H. apply andb_true_iff in H. destruct H as [H _].
    unfold plain in H. rewrite !andb_true_iff, !negb_true_iff in H. cbn [is_open]. tauto. }
  destruct left; unfold left_ok, right_ok; rewrite Ho; cbn [negb andb]; apply negb_true_iff.
  - clear Ho. induction x as [|c x IH]; [reflexivity|].
    cbn [forallb] in H. apply andb_true_iff in H. destruct H as [Hc H].
    cbn [app has_pat]. rewrite (IH H), orb_false_r.
    unfold plain in Hc. rewrite !andb_true_iff, !negb_true_iff in Hc. destruct Hc as [[Hc _] _].
    unfold starts_pat. destruct (x ++ [32]) as [|b [|d y]]; try reflexivity. now rewrite Hc.
  - clear Ho. induction x as [|c x IH]; [reflexivity|].
    cbn [forallb] in H. apply andb_true_iff in H. destruct H as [Hc H].
    cbn [existsb]. rewrite (IH H), orb_false_r.
    unfold plain in Hc. rewrite !andb_true_iff, !negb_true_iff in Hc. tauto.
Qed.

Lemma alnum_plain c : is_alnum c = true -> plain c = true.
Proof.
  unfold is_alnum, is_alpha, is_digit, is_upper, is_lower, plain.
  rewrite !orb_true_iff, !andb_true_iff, !N.leb_le, !negb_true_iff, !N.eqb_neq. lia.
Qed.
Lemma alnums_plain x : forallb is_alnum x = true -> forallb plain x = true.
Proof.
  induction x as [|c x IH]; [reflexivity|]. cbn [forallb]. rewrite !andb_true_iff. intros [H1 H2].
  split; [now apply alnum_plain|now apply IH].
Qed.
Lemma sign_plain neg x : forallb plain x = true -> forallb plain (sign neg ++ x) = true.
Proof. destruct neg; cbn [sign app forallb]; auto. Qed.

Lemma Field_name_alnum f : forallb is_alnum (Field_name f) = true.
Proof.
  pose proof (Field_name_ok f) as H. destruct (Field_name f) as [|c nm]; [discriminate H|].
  cbn [name_ok] in H. rewrite !andb_true_iff in H. tauto.
Qed.

Lemma col_of_col neg f : col_of (sign neg ++ Field_name f) = Some (neg, f).
Proof.
  unfold col_of.
  assert (E : strip_sign (sign neg ++ Field_name f) = (neg, Field_name f)).
  { pose proof (Field_name_ok f) as H. destruct (Field_name f) as [|c nm]; [discriminate H|].
    cbn [name_ok] in H. rewrite !andb_true_iff, !negb_true_iff in H. destruct H as [_ H45].
    destruct neg; cbn [sign app strip_sign]; [reflexivity|]. now rewrite H45. }
  rewrite E, field_of_name_Field_name. reflexivity.
Qed.

Lemma col_of_num neg ds : ds <> [] -> forallb is_digit ds = true -> col_of (sign neg ++ ds) = None.
Proof.
  intros Hne Hd. destruct ds as [|c ds']; [congruence|].
  assert (Hc : is_digit c = true) by (cbn [forallb] in Hd; now apply andb_true_iff in Hd).
  destruct (digit_not_special c Hc) as [_ H45].
  unfold col_of.
  assert (E : strip_sign (sign neg ++ c :: ds') = (neg, c :: ds')).
  { destruct neg; cbn [sign app strip_sign]; [reflexivity|]. now rewrite H45. }
  rewrite E. destruct (field_of_name (c :: ds')) as [f|] eqn:F; [|reflexivity].
  unfold field_of_name in F. apply find_some in F. destruct F as [_ F]. apply str_eqb_eq in F.
  pose proof (Field_name_ok f) as H. rewrite F in H. cbn [name_ok] in H.
  rewrite !andb_true_iff, !negb_true_iff in H. destruct H as [[[_ H] _] _]. congruence.
Qed.

(* ================= the decoder of the Display text of an arithmetic node ================= *)
(* the text before the first blank-operator-blank, and the text from there on *)
Fixpoint split_pat (x : str) : option (str * str) :=
  match x with
  | [] => None
  | a :: t => if starts_pat (a :: t) then Some ([], a :: t)
              else match split_pat t with Some (p, r) => Some (a :: p, r) | None => None end
  end.
(* the text before the first ')', and the text from there on *)
Fixpoint split_close (x : str) : option (str * str) :=
  match x with
  | [] => None
  | a :: t => if a =? 41 then Some ([], a :: t)
              else match split_close t with Some (p, r) => Some (a :: p, r) | None => None end
  end.

Definition atom (t : str) : cexp := match col_of t with Some (neg, f) => CCol neg f | None => CStr t end.

(* an operand: a node if it starts with '(', else the atom up to the delimiter *)
Definition operand (rec : str -> option (cexp * str)) (split : str -> option (str * str)) (x : str) : option (cexp * str) :=
  if is_open x then rec x else match split x with Some (t, r) => Some (atom t, r) | None => None end.

Fixpoint dec (fuel : nat) (x : str) : option (cexp * str) :=
  match fuel with
  | O => None
  | S k =>
      match x with
      | [] => None
      | c0 :: x1 =>
          if negb (c0 =? 40) then None else
          match operand (dec k) split_pat x1 with
          | Some (l, 32 :: c :: 32 :: x2) =>
              match op_of_char c with
              | Some o =>
                  match operand (dec k) split_close x2 with
                  | Some (r, 41 :: x3) => Some (CBin o l r, x3)
                  | _ => None
                  end
              | None => None
              end
          | _ => None
          end
      end
  end.

(* what the decoder returns: numbers are literals (CNum neg ds and CStr (sign neg ++ ds) have the same
   Display text and the same value) *)
Fixpoint norm (a : cexp) : cexp :=
  match a with
  | CNum neg ds => CStr (sign neg ++ ds)
  | CBin o l r => CBin o (norm l) (norm r)
  | _ => a
  end.

Lemma starts_pat_ext t o more : t <> [] -> starts_pat (t ++ [32]) = false ->
  starts_pat (t ++ 32 :: op_char o :: 32 :: more) = false.
Proof.
  destruct t as [|a [|b [|c t]]]; intros Hne H; [congruence| |exact H|exact H].
  cbn [app starts_pat]. replace (is_op 32) with false by reflexivity. now rewrite andb_false_r.
Qed.

Lemma split_pat_app t o more : has_pat (t ++ [32]) = false ->
  split_pat (t ++ 32 :: op_char o :: 32 :: more) = Some (t, 32 :: op_char o :: 32 :: more).
Proof.
  induction t as [|a t IH]; intros H.
  - cbn [app split_pat].
    assert (E : starts_pat (32 :: op_char o :: 32 :: more) = true).
    { cbn [starts_pat]. unfold is_op. rewrite op_of_char_op_char. reflexivity. }
    rewrite E. reflexivity.
  - cbn [app has_pat] in H. apply orb_false_iff in H. destruct H as [H1 H2].
    cbn [app split_pat].
    change (a :: t ++ 32 :: op_char o :: 32 :: more) with ((a :: t) ++ 32 :: op_char o :: 32 :: more) at 1.
    rewrite (starts_pat_ext (a :: t) o more ltac:(discriminate) H1). rewrite (IH H2). reflexivity.
Qed.

Lemma split_close_app t rest : existsb (fun c => c =? 41) t = false -> split_close (t ++ 41 :: rest) = Some (t, 41 :: rest).
Proof.
  induction t as [|a t IH]; intros H; [reflexivity|].
  cbn [existsb] in H. apply orb_false_iff in H. destruct H as [H1 H2].
  cbn [app split_close]. rewrite H1, (IH H2). reflexivity.
Qed.

Lemma is_open_app t c more : is_open t = false -> (c =? 40) = false -> is_open (t ++ c :: more) = false.
Proof. destruct t; cbn [app is_open]; auto. Qed.

Lemma bin_open a rest : is_bin a = true -> is_open (key a ++ rest) = true.
Proof. destruct a; try discriminate. intros _. rewrite key_bin. reflexivity. Qed.

(* atoms: their text is delimited as the decoder expects, and classifies back *)
Lemma atom_facts a (left : bool) : is_bin a = false -> wf_op left a ->
  (if left then left_ok (key a) else right_ok (key a)) = true /\ atom (key a) = norm a.
Proof.
  destruct a as [neg ds|t|neg f|o l r]; intros Hb Hw; [| | |discriminate Hb].
  - destruct Hw as [Hne Hd]. rewrite key_num. split.
    + apply plain_ok, sign_plain, alnums_plain, digits_alnum, Hd.
    + unfold atom. rewrite (col_of_num neg ds Hne Hd). reflexivity.
  - cbn [wf_op] in Hw. unfold lit_ok in Hw. apply andb_true_iff in Hw. destruct Hw as [H1 H2].
    rewrite key_str. split; [exact H1|]. unfold atom. destruct (col_of t); [discriminate H2|reflexivity].
  - rewrite key_col. split.
    + apply plain_ok, sign_plain, alnums_plain, Field_name_alnum.
    + unfold atom. rewrite col_of_col. reflexivity.
Qed.

Section DecKey.
Variable k : nat.
Variable a : cexp.
Hypothesis IH : forall rest, is_bin a = true -> dec k (key a ++ rest) = Some (norm a, rest).

Lemma operand_left o more : wf_op true a ->
  operand (dec k) split_pat (key a ++ 32 :: op_char o :: 32 :: more) = Some (norm a, 32 :: op_char o :: 32 :: more).
Proof.
  intros Hw. unfold operand. destruct (is_bin a) eqn:B.
  - rewrite (bin_open a _ B). apply IH. reflexivity.
  - destruct (atom_facts a true B Hw) as [H1 H2]. unfold left_ok in H1.
    rewrite andb_true_iff, !negb_true_iff in H1. destruct H1 as [Ho Hp].
    rewrite (is_open_app _ 32 _ Ho eq_refl), (split_pat_app _ o more Hp), H2. reflexivity.
Qed.

Lemma operand_right rest : wf_op false a ->
  operand (dec k) split_close (key a ++ 41 :: rest) = Some (norm a, 41 :: rest).
Proof.
  intros Hw. unfold operand. destruct (is_bin a) eqn:B.
  - rewrite (bin_open a _ B). apply IH. reflexivity.
  - destruct (atom_facts a false B Hw) as [H1 H2]. unfold right_ok in H1.
    rewrite andb_true_iff, !negb_true_iff in H1. destruct H1 as [Ho Hp].
    rewrite (is_open_app _ 41 _ Ho eq_refl), (split_close_app _ rest Hp), H2. reflexivity.
Qed.
End DecKey.

(* the Display text of an arithmetic node is self-delimiting and decodes to the node *)
Theorem dec_key : forall a rest fuel, is_bin a = true -> cwf a -> (cheight a < fuel)%nat ->
  dec fuel (key a ++ rest) = Some (norm a, rest).
Proof.
  induction a as [neg ds|t|neg f|o l IHl r IHr]; intros rest fuel Hb Hw Hf; try discriminate Hb.
  destruct Hw as [Hwl Hwr]. cbn [cheight] in Hf. destruct fuel as [|k]; [lia|].
  rewrite key_bin.
  replace (([40] ++ key l ++ [32; op_char o; 32] ++ key r ++ [41]) ++ rest)
    with (40 :: key l ++ (32 :: op_char o :: 32 :: key r ++ (41 :: rest)))
    by (cbn [app]; rewrite <- app_assoc; cbn [app]; rewrite <- app_assoc; reflexivity).
  cbn [dec]. change (negb (40 =? 40)) with false. cbv iota.
  rewrite (operand_left k l (fun rest' B => IHl rest' k B (wf_op_cwf _ _ Hwl) ltac:(lia)) o _ Hwl).
  rewrite op_of_char_op_char.
  rewrite (operand_right k r (fun rest' B => IHr rest' k B (wf_op_cwf _ _ Hwr) ltac:(lia)) rest Hwr).
  reflexivity.
Qed.

(* on what is cached, the Display text determines the expression (up to norm) *)
Theorem key_norm : forall a b, cacheable a = true -> cacheable b = true -> cwf a -> cwf b ->
  key a = key b -> norm a = norm b.
Proof.
  assert (Hcol : forall neg f, is_open (key (CCol neg f)) = false).
  { intros neg f. destruct (atom_facts (CCol neg f) true eq_refl I) as [H _].
    unfold left_ok in H. rewrite andb_true_iff, !negb_true_iff in H. tauto. }
  intros a b Ca Cb Ha Hb E.
  destruct a as [neg ds|t|neg f|o l r]; try discriminate Ca;
  destruct b as [neg' ds'|t'|neg' f'|o' l' r']; try discriminate Cb.
  - rewrite !key_col in E. pose proof (col_of_col neg f) as H1. rewrite E, col_of_col in H1.
    inversion H1; reflexivity.
  - pose proof (Hcol neg f) as H1. rewrite E, <- (app_nil_r (key _)), (bin_open (CBin o' l' r') [] eq_refl) in H1. discriminate H1.
  - pose proof (Hcol neg' f') as H1. rewrite <- E, <- (app_nil_r (key _)), (bin_open (CBin o l r) [] eq_refl) in H1. discriminate H1.
  - pose (fuel := S (Nat.max (cheight (CBin o l r)) (cheight (CBin o' l' r')))).
    pose proof (dec_key (CBin o l r) [] fuel eq_refl Ha ltac:(unfold fuel; lia)) as H1.
    pose proof (dec_key (CBin o' l' r') [] fuel eq_refl Hb ltac:(unfold fuel; lia)) as H2.
    rewrite E, H2 in H1. congruence.
Qed.

(* value: an expression read back from its own printed text is the same number - what a cache hit
   (Variant::from_string(&file_map[key])) followed by to_float relies on *)
Definition reparse (v : value) : Prop := v_to_float (VStr (v_show v)) = v_to_float v.

Lemma reparse_str x : reparse (VStr x).
Proof. reflexivity. Qed.

(* every column of the list is within the fuel; needed for ALL columns (see fuel_poison below) *)
Definition enough (fuel : nat) (cols : list cexp) : Prop := Forall (fun a => (cheight a < fuel)%nat) cols.

Section Indep.
Variable attr : Field -> value.

(* ---------- 1. reference semantics: no cache, no fuel ---------- *)
Definition col_value (neg : bool) (f : Field) : value := if neg then v_negate (attr f) else attr f.

Fixpoint den (a : cexp) : value :=
  match a with
  | CNum neg ds => VStr (sign neg ++ ds)
  | CStr t => VStr t
  | CCol neg f => col_value neg f
  | CBin o l r => VFloat (f_calc (Arith_calc o) (v_to_float (den l)) (v_to_float (den r)))
  end.

Definition text (a : cexp) : str := v_show (den a).

Lemma den_norm a : den (norm a) = den a.
Proof. induction a as [neg ds|t|neg f|o l IHl r IHr]; cbn [norm den]; try reflexivity. now rewrite IHl, IHr. Qed.

(* equal cache keys, equal values *)
Theorem key_den : forall a b, cacheable a = true -> cacheable b = true -> cwf a -> cwf b ->
  key a = key b -> den a = den b.
Proof. intros a b Ca Cb Ha Hb E. rewrite <- (den_norm a), <- (den_norm b), (key_norm a b Ca Cb Ha Hb E). reflexivity. Qed.

(* ---------- eval on the four shapes of cembed ---------- *)
Lemma eval_num k neg ds c : eval attr (S k) (cembed (CNum neg ds)) c = (VStr (sign neg ++ ds), c).
Proof. destruct neg; reflexivity. Qed.

Lemma eval_str k t c : eval attr (S k) (cembed (CStr t)) c = (VStr t, c).
Proof. reflexivity. Qed.

Lemma eval_col k neg f c :
  eval attr (S k) (cembed (CCol neg f)) c =
  match assoc (key (CCol neg f)) c with
  | Some x => (VStr x, c)
  | None => (col_value neg f, (key (CCol neg f), v_show (col_value neg f)) :: c)
  end.
Proof. destruct neg; reflexivity. Qed.

Lemma eval_bin k o l r c :
  eval attr (S k) (cembed (CBin o l r)) c =
  match assoc (key (CBin o l r)) c with
  | Some x => (VStr x, c)
  | None =>
      let '(lv, c1) := eval attr k (cembed l) c in
      let '(rv, c2) := eval attr k (cembed r) c1 in
      let res := VFloat (f_calc (Arith_calc o) (v_to_float lv) (v_to_float rv)) in
      (res, (key (CBin o l r), v_show res) :: c2)
  end.
Proof. reflexivity. Qed.

(* ---------- 2. the cache invariant ---------- *)
Definition sound (c : cache) : Prop :=
  forall k x, assoc k c = Some x -> exists a, cacheable a = true /\ cwf a /\ k = key a /\ x = v_show (den a).

Lemma sound_nil : sound [].
Proof. intros k x H. discriminate H. Qed.

Lemma sound_cons c a : sound c -> cacheable a = true -> cwf a -> sound ((key a, v_show (den a)) :: c).
Proof.
  intros Hc Ca Ha k x H. cbn [assoc] in H. destruct (str_eqb k (key a)) eqn:E.
  - apply str_eqb_eq in E. inversion H; subst. exists a. auto.
  - exact (Hc k x H).
Qed.

(* a hit under a sound cache: the text of this very value *)
Lemma sound_hit c a x : sound c -> cacheable a = true -> cwf a -> assoc (key a) c = Some x -> x = v_show (den a).
Proof.
  intros Hc Ca Ha H. destruct (Hc _ _ H) as (b & Cb & Hb & Hk & Hx).
  rewrite (key_den a b Ca Cb Ha Hb Hk). exact Hx.
Qed.

(* what the lookup of the column's own key says (literals are not looked up) *)
Definition hit (a : cexp) (c : cache) : option str := if cacheable a then assoc (key a) c else None.
(* the value `eval` returns, given that *)
Definition outcome (h : option str) (a : cexp) (v : value) : Prop :=
  match h with None => v = den a | Some _ => v = VStr (v_show (den a)) end.

(* ---------- the two assumed round trips ---------- *)
Hypothesis print_parse_calc : forall o x y, reparse (VFloat (f_calc o x y)).
Hypothesis print_parse_attr : forall neg f, reparse (col_value neg f).

Lemma reparse_den a : reparse (den a).
Proof. destruct a as [neg ds|t|neg f|o l r]; cbn [den]; [apply reparse_str|apply reparse_str|apply print_parse_attr|apply print_parse_calc]. Qed.

(* v is "the same value" as den a: same text, same number *)
Definition same (v : value) (a : cexp) : Prop := v_show v = v_show (den a) /\ v_to_float v = v_to_float (den a).

Lemma outcome_same h a v : outcome h a v -> same v a.
Proof.
  destruct h as [x|]; cbn [outcome]; intros ->; split; try reflexivity. apply reparse_den.
Qed.

(* ---------- main lemma ---------- *)
Lemma eval_outcome : forall a fuel c, sound c -> cwf a -> (cheight a < fuel)%nat ->
  exists v c', eval attr fuel (cembed a) c = (v, c') /\ sound c' /\ outcome (hit a c) a v.
Proof.
  induction a as [neg ds|t|neg f|o l IHl r IHr]; intros fuel c Hc Hw Hf; (destruct fuel as [|k]; [lia|]).
  - rewrite eval_num. exists (VStr (sign neg ++ ds)), c. repeat split; auto.
  - rewrite eval_str. exists (VStr t), c. repeat split; auto.
  - rewrite eval_col. unfold hit. cbn [cacheable]. destruct (assoc (key (CCol neg f)) c) as [x|] eqn:E.
    + exists (VStr x), c. rewrite (sound_hit c (CCol neg f) x Hc eq_refl Hw E). repeat split; auto.
    + eexists _, _. split; [reflexivity|]. split; [|reflexivity].
      exact (sound_cons c (CCol neg f) Hc eq_refl Hw).
  - rewrite eval_bin. unfold hit. cbn [cacheable]. destruct (assoc (key (CBin o l r)) c) as [x|] eqn:E.
    + exists (VStr x), c. rewrite (sound_hit c (CBin o l r) x Hc eq_refl Hw E). repeat split; auto.
    + destruct Hw as [Hwl Hwr]. cbn [cheight] in Hf.
      destruct (IHl k c Hc (wf_op_cwf _ _ Hwl) ltac:(lia)) as (lv & c1 & El & Hc1 & Hl). rewrite El.
      destruct (IHr k c1 Hc1 (wf_op_cwf _ _ Hwr) ltac:(lia)) as (rv & c2 & Er & Hc2 & Hr). rewrite Er.
      apply outcome_same in Hl, Hr. destruct Hl as [_ Hl], Hr as [_ Hr]. cbv zeta. rewrite Hl, Hr.
      eexists _, _. split; [reflexivity|]. split; [|reflexivity].
      exact (sound_cons c2 (CBin o l r) Hc2 eq_refl (conj Hwl Hwr)).
Qed.

Theorem eval_sound : forall a fuel c, sound c -> cwf a -> (cheight a < fuel)%nat ->
  exists v c', eval attr fuel (cembed a) c = (v, c') /\ sound c' /\
               v_show v = v_show (den a) /\ v_to_float v = v_to_float (den a).
Proof.
  intros a fuel c Hc Hw Hf. destruct (eval_outcome a fuel c Hc Hw Hf) as (v & c' & E & Hc' & Ho).
  exists v, c'. split; [exact E|]. split; [exact Hc'|]. exact (outcome_same _ _ _ Ho).
Qed.

(* on the empty cache the value itself (not only its text) is den a *)
Theorem eval_empty : forall a fuel, cwf a -> (cheight a < fuel)%nat -> fst (eval attr fuel (cembed a) []) = den a.
Proof.
  intros a fuel Hw Hf. destruct (eval_outcome a fuel [] sound_nil Hw Hf) as (v & c' & E & _ & Ho).
  rewrite E. unfold hit in Ho. destruct (cacheable a); exact Ho.
Qed.

(* ---------- 3. rows ---------- *)
Lemma eval_row_sound : forall cols fuel c, sound c -> Forall cwf cols -> enough fuel cols ->
  eval_row attr fuel (map cembed cols) c = map text cols.
Proof.
  induction cols as [|a cols IH]; intros fuel c Hc Hw Hf; [reflexivity|].
  inversion Hw as [|? ? Hwa Hwr]; subst. inversion Hf as [|? ? Hfa Hfr]; subst.
  cbn [map eval_row].
  destruct (eval_sound a fuel c Hc Hwa Hfa) as (v & c' & E & Hc' & Hs & _). rewrite E, Hs.
  f_equal. exact (IH fuel c' Hc' Hwr Hfr).
Qed.

Theorem columns_independent : forall cols fuel, Forall cwf cols -> enough fuel cols ->
  eval_row attr fuel (map cembed cols) [] = map (fun a => v_show (den a)) cols.
Proof. intros cols fuel Hw Hf. exact (eval_row_sound cols fuel [] sound_nil Hw Hf). Qed.

(* the text of a column does not depend on the columns before or after it *)
Corollary column_alone : forall pre post a fuel, Forall cwf (pre ++ a :: post) -> enough fuel (pre ++ a :: post) ->
  nth (List.length pre) (eval_row attr fuel (map cembed (pre ++ a :: post)) []) [] = v_show (den a).
Proof.
  intros pre post a fuel Hw Hf. rewrite (columns_independent _ fuel Hw Hf).
  rewrite map_app. rewrite app_nth2; rewrite map_length; [|lia]. rewrite Nat.sub_diag. reflexivity.
Qed.

(* ... in particular it is what the column gives when selected alone *)
Corollary column_alone_single : forall pre post a fuel, Forall cwf (pre ++ a :: post) -> enough fuel (pre ++ a :: post) ->
  [nth (List.length pre) (eval_row attr fuel (map cembed (pre ++ a :: post)) []) []] = eval_row attr fuel [cembed a] [].
Proof.
  intros pre post a fuel Hw Hf. rewrite (column_alone pre post a fuel Hw Hf).
  apply Forall_app in Hw. destruct Hw as [_ Hw]. inversion Hw; subst.
  apply Forall_app in Hf. destruct Hf as [_ Hf]. inversion Hf; subst.
  symmetry. apply (columns_independent [a] fuel); constructor; auto.
Qed.

(* permuting the select list permutes the row *)
Corollary columns_permute : forall cols cols' fuel, Permutation cols cols' -> Forall cwf cols -> enough fuel cols ->
  Permutation (eval_row attr fuel (map cembed cols) []) (eval_row attr fuel (map cembed cols') []).
Proof.
  intros cols cols' fuel HP Hw Hf.
  rewrite (columns_independent cols fuel Hw Hf).
  rewrite (columns_independent cols' fuel (Permutation_Forall HP Hw) (Permutation_Forall HP Hf)).
  apply Permutation_map. exact HP.
Qed.

(* ---------- the aexp of proofs/DisplayProofs.v is the fragment without string literals ---------- *)
Fixpoint inj (a : aexp) : cexp :=
  match a with ANum neg ds => CNum neg ds | ACol neg f => CCol neg f | ABin o l r => CBin o (inj l) (inj r) end.

Lemma cembed_inj a : cembed (inj a) = embed a.
Proof. induction a as [neg ds|neg f|o l IHl r IHr]; cbn [inj cembed embed]; try reflexivity. now rewrite IHl, IHr. Qed.
Lemma wf_inj a left : wf a -> wf_op left (inj a).
Proof. revert left. induction a as [neg ds|neg f|o l IHl r IHr]; intros left H; cbn in *; auto. destruct H; auto. Qed.
Lemma cheight_inj a : cheight (inj a) = height a.
Proof. induction a as [neg ds|neg f|o l IHl r IHr]; cbn [inj cheight height]; try reflexivity. now rewrite IHl, IHr. Qed.

Theorem columns_independent_aexp : forall cols fuel, Forall wf cols -> Forall (fun a => (height a < fuel)%nat) cols ->
  eval_row attr fuel (map embed cols) [] = map (fun a => v_show (den (inj a))) cols.
Proof.
  intros cols fuel Hw Hf.
  replace (map embed cols) with (map cembed (map inj cols)) by (rewrite map_map; apply map_ext; exact cembed_inj).
  rewrite columns_independent, map_map; [reflexivity| |].
  - apply Forall_map. revert Hw. apply Forall_impl. intros a H. exact (wf_op_cwf true _ (wf_inj a true H)).
  - apply Forall_map. revert Hf. apply Forall_impl. intros a H. now rewrite cheight_inj.
Qed.

End Indep.

(* ---------- the same theorem from the two global round trips of lib/F64.v ---------- *)
Section Global.
Hypothesis print_parse_f64 : forall f : float, parse_f64 (show_f64 f) = Some f.
Hypothesis print_parse_Z : forall z : Z, parse_f64 (show_Z z) = Some (v_to_float (VInt z)).

Lemma reparse_all v : reparse v.
Proof.
  destruct v as [z|f|x]; unfold reparse; cbn [v_show]; [|cbn [v_to_float]|reflexivity].
  - change (v_to_float (VStr (show_Z z))) with (match parse_f64 (show_Z z) with Some f => f | None => zero end).
    rewrite print_parse_Z. reflexivity.
  - rewrite print_parse_f64. reflexivity.
Qed.

Theorem columns_independent_global : forall attr cols fuel, Forall cwf cols -> enough fuel cols ->
  eval_row attr fuel (map cembed cols) [] = map (fun a => v_show (den attr a)) cols.
Proof.
  intros attr. apply columns_independent; intros; apply reparse_all.
Qed.
End Global.

Print Assumptions dec_key.
Print Assumptions key_den.
Print Assumptions eval_sound.
Print Assumptions eval_empty.
Print Assumptions columns_independent.
Print Assumptions column_alone.
Print Assumptions column_alone_single.
Print Assumptions columns_permute.
Print Assumptions columns_independent_aexp.
Print Assumptions columns_independent_global.

(* ================= 4. examples ================= *)
Module Ex.
Definition attr10 (f : Field) : value := match f with FSize => VInt 10 | _ => VStr [] end.
Definition n (x : string) : cexp := CNum false (s x).
Definition q (x : string) : cexp := CStr (s x).
Definition size := CCol false FSize.
Definition wfb (a : cexp) : Prop := cwf a /\ (cheight a < 8)%nat.

(* size - (4 - 1), size - 4 - 1, (4 - 1) * -size, -size * 2: `size`, `-size` and `(4 - 1)` recur;
   then the literals 'Size', 'Name', '(Size - (4 - 1))' as columns and 'x y' + size, size + 'a (b' *)
Definition cols_ex : list cexp :=
  [ CBin ASubtract size (CBin ASubtract (n "4") (n "1"));
    CBin ASubtract (CBin ASubtract size (n "4")) (n "1");
    CBin AMultiply (CBin ASubtract (n "4") (n "1")) (CCol true FSize);
    CBin AMultiply (CCol true FSize) (n "2");
    q "Size"; q "Name"; q "(Size - (4 - 1))";
    CBin AAdd (q "x y") size; CBin AAdd size (q "a (b + c") ].

Example row_ex : eval_row attr10 8 (map cembed cols_ex) [] =
  map s ["7"; "5"; "-30"; "-20"; "Size"; "Name"; "(Size - (4 - 1))"; "10"; "10"]%string.
Proof. vm_compute. reflexivity. Qed.
Example row_ex_den : map (fun a => v_show (den attr10 a)) cols_ex =
  map s ["7"; "5"; "-30"; "-20"; "Size"; "Name"; "(Size - (4 - 1))"; "10"; "10"]%string.
Proof. vm_compute. reflexivity. Qed.
Example row_ex_rev : eval_row attr10 8 (map cembed (rev cols_ex)) [] =
  map s ["10"; "10"; "(Size - (4 - 1))"; "Name"; "Size"; "-20"; "-30"; "5"; "7"]%string.
Proof. vm_compute. reflexivity. Qed.
Example row_ex_keys : map key (firstn 4 cols_ex) =
  map s ["(Size - (4 - 1))"; "((Size - 4) - 1)"; "((4 - 1) * -Size)"; "(-Size * 2)"]%string.
Proof. vm_compute. reflexivity. Qed.
Example row_ex_wf : Forall cwf cols_ex /\ enough 8 cols_ex.
Proof. split; repeat constructor; cbn; try discriminate; try reflexivity; lia. Qed.

(* through the model parser (C15_expr.cols: entry with size 7): the first finding is gone *)
Example literal_columns_parsed :
  cols "size, 'Size', 'Name' from t" = map s ["7"; "Size"; "Name"]%string /\
  cols "'Size', size from t" = map s ["Size"; "7"]%string /\
  cols "size, 'Size' + 1 from t" = map s ["7"; "1"]%string.
Proof. vm_compute. repeat split; reflexivity. Qed.

(* `enough` has to hold for every column: a column that runs out of fuel caches a wrong text under
   the key of its sub-expression, and a later column that IS within the fuel then reads it.  (The fuel
   is an artefact of the model - the Rust recursion has none - so this is not a behaviour of the tool.) *)
Example fuel_poison :
  let b := CBin AAdd size size in
  eval_row attr10 2 (map cembed [b]) [] = [s "20"%string] /\
  eval_row attr10 2 (map cembed [CBin AAdd (n "1") b; b]) [] = [s "1"%string; s "0"%string].
Proof. vm_compute. split; reflexivity. Qed.

(* ---------- OUTSIDE lit_ok: Display prints a literal OPERAND raw, so two different arithmetic nodes
   can have the same Display text, share a cache slot, and the value of a column then DOES depend on
   its neighbours.  One collision per clause of lit_ok. ---------- *)
(* (a) the literal is the Display text of a column:  size + 1  vs  'Size' + 1 *)
Example collide_column_name :
  key (CBin AAdd size (n "1")) = key (CBin AAdd (q "Size") (n "1")) /\
  eval_row attr10 8 (map cembed [CBin AAdd (q "Size") (n "1")]) [] = [s "1"%string] /\
  eval_row attr10 8 (map cembed [CBin AAdd size (n "1"); CBin AAdd (q "Size") (n "1")]) [] = map s ["11"; "11"]%string.
Proof. vm_compute. repeat split; reflexivity. Qed.
Example collide_column_name_parsed :
  cols "'Size' + 1 from t" = map s ["1"]%string /\
  cols "size + 1, 'Size' + 1 from t" = map s ["8"; "8"]%string /\
  cols "'Size' + 1, size + 1 from t" = map s ["1"; "1"]%string.
Proof. vm_compute. repeat split; reflexivity. Qed.
(* (b) a left literal containing blank-operator-blank:  '2 - 1' + 1  vs  2 - '1 + 1'
   (and the straddling variant  '2 -' + 1  vs  2 - '+ 1') *)
Example collide_operator :
  key (CBin AAdd (q "2 - 1") (n "1")) = key (CBin ASubtract (n "2") (q "1 + 1")) /\
  key (CBin AAdd (q "2 -") (n "1")) = key (CBin ASubtract (n "2") (q "+ 1")) /\
  eval_row attr10 8 (map cembed [CBin ASubtract (n "2") (q "1 + 1")]) [] = [s "2"%string] /\
  eval_row attr10 8 (map cembed [CBin AAdd (q "2 - 1") (n "1"); CBin ASubtract (n "2") (q "1 + 1")]) [] = map s ["1"; "1"]%string.
Proof. vm_compute. repeat split; reflexivity. Qed.
Example collide_operator_parsed :
  cols "2 - '1 + 1' from t" = map s ["2"]%string /\
  cols "'2 - 1' + 1, 2 - '1 + 1' from t" = map s ["1"; "1"]%string.
Proof. vm_compute. repeat split; reflexivity. Qed.
(* (c) brackets: a literal that is the Display text of a node:  (size - 1) * 2  vs  '(Size - 1)' * 2 ;
   a left literal starting with '(' against a right literal containing ')':  ('(2' + '1) * 3')  vs  (2 + 1) * 3 *)
Example collide_brackets :
  key (CBin AMultiply (CBin ASubtract size (n "1")) (n "2")) = key (CBin AMultiply (q "(Size - 1)") (n "2")) /\
  key (CBin AAdd (q "(2") (q "1) * 3")) = key (CBin AMultiply (CBin AAdd (n "2") (n "1")) (n "3")) /\
  eval_row attr10 8 (map cembed [CBin AMultiply (q "(Size - 1)") (n "2")]) [] = [s "0"%string] /\
  eval_row attr10 8 (map cembed [CBin AMultiply (CBin ASubtract size (n "1")) (n "2"); CBin AMultiply (q "(Size - 1)") (n "2")]) []
    = map s ["18"; "18"]%string.
Proof. vm_compute. repeat split; reflexivity. Qed.
Example collide_brackets_parsed :
  cols "'(Size - 1)' * 2 from t" = map s ["0"]%string /\
  cols "(size - 1) * 2, '(Size - 1)' * 2 from t" = map s ["12"; "12"]%string.
Proof. vm_compute. repeat split; reflexivity. Qed.
End Ex.
