(* C12/C20: the glob and LIKE converters of util/glob.rs against textbook wildcard semantics.

   Chain of the main theorems (no dedicated tokenizer: everything goes through the GENERAL
   parser parse_regex of lib/RegexParse.v), for EVERY pattern p and EVERY subject w:
     convert tbl p  --parse_regex-->  {anchored both sides; body = re_of_wild p}   (parse_convert)
     lang (re_of_wild p) w <-> wild p w                                           (lang_wild)
     wild_spec p w = true <-> wild p w                                            (wild_spec_ok)
   hence  is_match (convert tbl p) w = Some (wild_spec p w), with no side condition.

   Everything is done once for an arbitrary pair of wildcard characters (st = any run,
   on = exactly one) and instantiated with (42 `*`, 63 `?`) for glob, (37 `%`, 95 `_`) for LIKE.
   The replacement tables are the GENERATED ones (gen/GlobGen.v through model/Glob.v); the
   only table-specific proofs are glob_step / like_step (one line per table row).

   History: with the tables and the `^(?i)` prefix of the previous source these theorems
   needed the side conditions glob_safe / like_safe (no `+ { } | \`, for LIKE no `?`) and
   no_newline, and each condition was shown necessary (F24, F25, F26).  The repaired source
   escapes those characters and uses `^(?is)`; the refutations are replaced by the
   regression lemmas at the end of this file.

   Inherited modelling limit (see lib/Regex.v): (?i) is modelled as ASCII case folding, and
   the specification below is ASCII-case-insensitive as well; Rust's (?i) additionally
   identifies non-ASCII simple case variants.  Checked on the real crate (oracle/conv.rs):
   glob "\u{e9}*" matches "\u{c9}", "k*" matches U+212A, "s?" matches U+017F followed by "1",
   whereas is_match / glob_spec say false.  So the theorems below speak about the real
   binary only for pattern/subject pairs without such characters (e.g. ASCII ones). *)
From Coq Require Import List NArith Bool Lia String.
From FS Require Import lib.Str lib.Regex lib.RegexParse model.Glob.
Import ListNotations.
Open Scope N_scope.

(* f holds of some suffix of t *)
Fixpoint any_suffix (f : str -> bool) (t : str) : bool :=
  f t || match t with [] => false | _ :: t' => any_suffix f t' end.

Lemma any_suffix_ok f t : any_suffix f t = true <-> exists u v, t = u ++ v /\ f v = true.
Proof.
  induction t as [|c t IH]; cbn [any_suffix].
  - rewrite orb_false_r. split.
    + intros H. exists [], []. auto.
    + intros (u & v & E & H). symmetry in E. apply app_eq_nil in E. destruct E as [_ ->]. exact H.
  - rewrite orb_true_iff, IH. split.
    + intros [H|(u & v & E & H)]; [exists [], (c :: t); auto|exists (c :: u), v; subst; auto].
    + intros (u & v & E & H). destruct u as [|d u].
      * cbn [app] in E. subst. now left.
      * cbn [app] in E. inversion E; subst. right. now exists u, v.
Qed.

Section Wild.
Variables st on : N.     (* the "any run" and the "exactly one" wildcard characters *)

(* textbook semantics, relational *)
Inductive wild : str -> str -> Prop :=
| WNil : wild [] []
| WStar p u v : wild p v -> wild (st :: p) (u ++ v)
| WOne p d w : on <> st -> wild p w -> wild (on :: p) (d :: w)
| WLit c p d w : c <> st -> c <> on -> lower1 c = lower1 d -> wild p w -> wild (c :: p) (d :: w).

(* textbook semantics, decision procedure: structural in the pattern, no fuel *)
Fixpoint wild_spec (p subj : str) : bool :=
  match p with
  | [] => is_nil subj
  | c :: p' =>
      if c =? st then any_suffix (wild_spec p') subj
      else match subj with
           | [] => false
           | d :: t => (if c =? on then true else lower1 c =? lower1 d) && wild_spec p' t
           end
  end.

Lemma wild_nil_inv w : wild [] w -> w = [].
Proof. intros H; inversion H; reflexivity. Qed.

Lemma wild_cons_inv c p w : wild (c :: p) w ->
  (c = st /\ exists u v, w = u ++ v /\ wild p v) \/
  (c <> st /\ exists d t, w = d :: t /\ (c = on \/ lower1 c = lower1 d) /\ wild p t).
Proof.
  intros H; inversion H; subst.
  - left. eauto.
  - right. split; [congruence|]. eauto 7.
  - right. split; [assumption|]. eauto 7.
Qed.

Theorem wild_spec_ok p : forall w, wild_spec p w = true <-> wild p w.
Proof.
  induction p as [|c p IH]; intros w.
  - cbn [wild_spec]. destruct w as [|d t]; cbn [is_nil]; split; intros H.
    + constructor.
    + reflexivity.
    + discriminate.
    + apply wild_nil_inv in H. discriminate.
  - cbn [wild_spec]. destruct (N.eqb_spec c st) as [->|Ns].
    + rewrite any_suffix_ok. split.
      * intros (u & v & -> & H). constructor. now apply IH.
      * intros H. apply wild_cons_inv in H.
        destruct H as [[_ (u & v & -> & H)]|[Ne _]]; [|congruence].
        exists u, v. split; [reflexivity|now apply IH].
    + destruct w as [|d t].
      * split; [discriminate|]. intros H. apply wild_cons_inv in H.
        destruct H as [[E _]|[_ (d & t & E & _)]]; [congruence|discriminate].
      * rewrite andb_true_iff, IH. split.
        -- intros [H1 H2]. destruct (N.eqb_spec c on) as [->|No].
           ++ apply WOne; assumption.
           ++ apply WLit; try assumption. now apply N.eqb_eq.
        -- intros H. apply wild_cons_inv in H.
           destruct H as [[E _]|[_ (d' & t' & E & Hc & H)]]; [congruence|].
           inversion E; subst. split; [|exact H].
           destruct (N.eqb_spec c on) as [_|No]; [reflexivity|].
           destruct Hc as [Hc|Hc]; [congruence|now apply N.eqb_eq].
Qed.

(* the regex the converter is meant to produce (flag s: `.` is AnyNL) *)
Definition item (c : N) : re :=
  if c =? st then Star AnyNL else if c =? on then AnyNL else ChrI c.
Definition re_of_wild (p : str) : re := fold_right Seq Eps (map item p).

Theorem lang_wild p : forall w, lang (re_of_wild p) w <-> wild p w.
Proof.
  induction p as [|c p IH]; intros w.
  - change (re_of_wild []) with Eps. rewrite lang_eps_iff. split.
    + intros ->. constructor.
    + apply wild_nil_inv.
  - change (re_of_wild (c :: p)) with (Seq (item c) (re_of_wild p)). rewrite lang_seq_iff.
    unfold item. destruct (N.eqb_spec c st) as [->|Ns]; [|destruct (N.eqb_spec c on) as [->|No]].
    + split.
      * intros (u & v & -> & _ & Hv). constructor. now apply IH.
      * intros H. apply wild_cons_inv in H.
        destruct H as [[_ (u & v & -> & H)]|[Ne _]]; [|congruence].
        exists u, v. split; [reflexivity|]. split; [apply star_anynl|now apply IH].
    + split.
      * intros (u & v & -> & Hu & Hv). apply lang_sym in Hu. destruct Hu as (d & -> & _).
        cbn [app]. apply WOne; [assumption|now apply IH].
      * intros H. apply wild_cons_inv in H.
        destruct H as [[E _]|[_ (d & t & -> & _ & H)]]; [congruence|].
        exists [d], t. split; [reflexivity|]. split; [now constructor|now apply IH].
    + split.
      * intros (u & v & -> & Hu & Hv). apply lang_sym in Hu. destruct Hu as (d & -> & T).
        cbn [cset_test] in T. apply N.eqb_eq in T. cbn [app].
        apply WLit; [assumption|assumption|now symmetry|now apply IH].
      * intros H. apply wild_cons_inv in H.
        destruct H as [[E _]|[_ (d & t & -> & Hc & H)]]; [congruence|].
        destruct Hc as [Hc|Hc]; [congruence|].
        exists [d], t. split; [reflexivity|]. split; [|now apply IH].
        constructor. cbn [cset_test]. apply N.eqb_eq. now symmetry.
Qed.

Theorem matches_wild p w : matches (re_of_wild p) w = wild_spec p w.
Proof. apply eq_true_iff_eq. rewrite matches_ok, wild_spec_ok. apply lang_wild. Qed.

(* ---- the general parser on the converter's output ----
   Step tbl: the replacement text of ANY character, in front of anything, makes the parser
   (flags i and s on) push exactly `item c` (q' is the "just saw a quantifier" flag). *)
Definition Step (tbl : repl_table) : Prop :=
  forall c sq q rest, exists q',
    go true true [] [] sq q None (subst1 tbl c ++ rest) = go true true [] [] (item c :: sq) q' None rest.

Lemma go_body tbl : Step tbl ->
  forall p sq q rest, exists q',
    go true true [] [] sq q None (flat_map (subst1 tbl) p ++ rest)
    = go true true [] [] (rev (map item p) ++ sq) q' None rest.
Proof.
  intros HS. induction p as [|c p IH]; intros sq q rest.
  - exists q. reflexivity.
  - cbn [flat_map map rev]. rewrite <- !app_assoc.
    destruct (HS c sq q (flat_map (subst1 tbl) p ++ rest)) as [q1 E1]. rewrite E1.
    destruct (IH (item c :: sq) q1 rest) as [q2 E2]. rewrite E2.
    exists q2. reflexivity.
Qed.

Theorem parse_convert tbl : Step tbl ->
  forall p, parse_regex (convert tbl p) = Some (mkrx true true (re_of_wild p)).
Proof.
  intros HS p. unfold convert.
  change (s "^(?is)") with [94; 40; 63; 105; 115; 41]. change (s "$") with [36]. cbn [app].
  rewrite parse_regex_anchored_cis.
  destruct (go_body tbl HS p [] false [36]) as [q' E]. rewrite E.
  rewrite go_dollar_end, app_nil_r, close_seq_rev. reflexivity.
Qed.

Theorem is_match_convert tbl : Step tbl ->
  forall p w, is_match (convert tbl p) w = Some (wild_spec p w).
Proof.
  intros HS p w. unfold is_match. rewrite (parse_convert tbl HS p).
  unfold rx_re. cbn [anchored_start anchored_end body]. now rewrite matches_wild.
Qed.

End Wild.

(* ================= glob: `*` = 42, `?` = 63 ================= *)
Definition glob_rel : str -> str -> Prop := wild 42 63.
Definition glob_spec : str -> str -> bool := wild_spec 42 63.
Definition re_of_glob : str -> re := re_of_wild 42 63.

(* ================= LIKE: `%` = 37, `_` = 95 ================= *)
Definition like_rel : str -> str -> Prop := wild 37 95.
Definition like_spec : str -> str -> bool := wild_spec 37 95.
Definition re_of_like : str -> re := re_of_wild 37 95.

(* c is key k of the table: the replacement is closed, both sides compute *)
Ltac key_case c k :=
  destruct (N.eqb_spec c k) as [->|?]; [eexists; reflexivity|].

(* a character that is no table key is no regex meta character either: it stands for itself *)
Lemma glob_step : Step 42 63 glob_table.
Proof.
  intros c sq q rest.
  key_case c 63. key_case c 46. key_case c 42. key_case c 91. key_case c 93. key_case c 40.
  key_case c 41. key_case c 94. key_case c 36. key_case c 43. key_case c 123. key_case c 125.
  key_case c 124. key_case c 92.
  assert (L : subst1 glob_table c = [c]).
  { unfold subst1, glob_table, FS.gen.GlobGen.glob_table. cbn [lookup].
    rewrite !(proj2 (N.eqb_neq c _)) by assumption. reflexivity. }
  rewrite L. cbn [app]. rewrite go_lit by (apply classify_lit; assumption).
  exists false. unfold item. rewrite !(proj2 (N.eqb_neq c _)) by assumption. reflexivity.
Qed.

Lemma like_step : Step 37 95 like_table.
Proof.
  intros c sq q rest.
  key_case c 37. key_case c 95. key_case c 63. key_case c 46. key_case c 42. key_case c 91.
  key_case c 93. key_case c 40. key_case c 41. key_case c 94. key_case c 36. key_case c 43.
  key_case c 123. key_case c 125. key_case c 124. key_case c 92.
  assert (L : subst1 like_table c = [c]).
  { unfold subst1, like_table, FS.gen.GlobGen.like_table. cbn [lookup].
    rewrite !(proj2 (N.eqb_neq c _)) by assumption. reflexivity. }
  rewrite L. cbn [app]. rewrite go_lit by (apply classify_lit; assumption).
  exists false. unfold item. rewrite !(proj2 (N.eqb_neq c _)) by assumption. reflexivity.
Qed.

(* ---- glob: main results ---- *)
Theorem glob_spec_ok p w : glob_spec p w = true <-> glob_rel p w.
Proof. apply wild_spec_ok. Qed.

(* in particular Regex::new never fails on a converted glob (within the model) *)
Theorem glob_parse p :
  parse_regex (convert_glob_to_pattern p) = Some (mkrx true true (re_of_glob p)).
Proof. apply (parse_convert 42 63 glob_table glob_step). Qed.

Theorem glob_regex_correct p subj :
  is_match (convert_glob_to_pattern p) subj = Some (glob_spec p subj).
Proof. apply (is_match_convert 42 63 glob_table glob_step). Qed.

(* ---- LIKE: main results ---- *)
Theorem like_spec_ok p w : like_spec p w = true <-> like_rel p w.
Proof. apply wild_spec_ok. Qed.

Theorem like_parse p :
  parse_regex (convert_like_to_pattern p) = Some (mkrx true true (re_of_like p)).
Proof. apply (parse_convert 37 95 like_table like_step). Qed.

Theorem like_regex_correct p subj :
  is_match (convert_like_to_pattern p) subj = Some (like_spec p subj).
Proof. apply (is_match_convert 37 95 like_table like_step). Qed.

(* ---- the operators of searcher.rs ---- *)
Lemma negatives_complement val subj :
  ne_verdict val subj = option_map negb (eq_verdict val subj) /\
  notlike_verdict val subj = option_map negb (like_verdict val subj).
Proof. unfold ne_verdict, eq_verdict, notlike_verdict, like_verdict. destruct (is_glob val); split; reflexivity. Qed.

(* `=` / `!=`: glob semantics when the value contains * or ?, exact comparison otherwise *)
Corollary eq_ne_verdict_correct p subj :
  eq_verdict p subj = Some (if is_glob p then glob_spec p subj else str_eqb p subj) /\
  ne_verdict p subj = Some (negb (if is_glob p then glob_spec p subj else str_eqb p subj)).
Proof.
  unfold ne_verdict, eq_verdict. rewrite (glob_regex_correct p subj).
  destruct (is_glob p); split; reflexivity.
Qed.

Corollary like_notlike_verdict_correct p subj :
  like_verdict p subj = Some (like_spec p subj) /\
  notlike_verdict p subj = Some (negb (like_spec p subj)).
Proof.
  unfold notlike_verdict, like_verdict. rewrite (like_regex_correct p subj). split; reflexivity.
Qed.

(* ---- instances of the theorems on non-trivial patterns ---- *)
Example glob_instance :
  is_match (convert_glob_to_pattern (s "*.[Tt]x?^$(1)+{|}\")) (s "Read Me.[tT]XT^$(1)+{|}\") = Some true.
Proof. rewrite glob_regex_correct. vm_compute. reflexivity. Qed.

Example like_instance :
  is_match (convert_like_to_pattern (s "%.t_t*[1]?+")) (s "a b.TxT*[1]?+") = Some true.
Proof. rewrite like_regex_correct. vm_compute. reflexivity. Qed.

(* ---- regression lemmas for the repaired defects (each was a refutation before) ---- *)
(* F24: `+` is a literal now: `f+*` no longer matches "ff1", it matches "f+1" *)
Lemma F24_fixed :
  is_match (convert_glob_to_pattern (s "f+*")) (s "ff1") = Some false /\
  is_match (convert_glob_to_pattern (s "f+*")) (s "F+1") = Some true.
Proof. vm_compute. split; reflexivity. Qed.

(* F24: `{` used to make Regex::new fail (then `=` silently fell back to exact comparison) *)
Lemma F24_brace_fixed :
  is_match (convert_glob_to_pattern (s "x{*")) (s "x{1}") = Some true /\
  is_match (convert_glob_to_pattern (s "x{*")) (s "x1}") = Some false.
Proof. vm_compute. split; reflexivity. Qed.

(* F24: a trailing backslash used to escape the final `$` *)
Lemma F24_backslash_fixed :
  is_match (convert_glob_to_pattern (s "*\")) (s "x$") = Some false /\
  is_match (convert_glob_to_pattern (s "*\")) (s "x\") = Some true.
Proof. vm_compute. split; reflexivity. Qed.

(* F24: `|` used to split the pattern into two half-anchored branches *)
Lemma F24_bar_fixed :
  is_match (convert_like_to_pattern (s "a|b")) (s "a") = Some false /\
  is_match (convert_like_to_pattern (s "a|b")) (s "A|B") = Some true.
Proof. vm_compute. split; reflexivity. Qed.

(* F25: wildcards span newlines *)
Lemma F25_fixed :
  is_match (convert_glob_to_pattern (s "a*")) [97; 10; 98] = Some true /\
  is_match (convert_glob_to_pattern (s "a?b")) [97; 10; 98] = Some true /\
  is_match (convert_like_to_pattern (s "a%_")) [97; 10; 10] = Some true.
Proof. vm_compute. repeat split; reflexivity. Qed.

(* F26: `?` in a LIKE pattern is an ordinary character *)
Lemma F26_fixed :
  is_match (convert_like_to_pattern (s "a?")) (s "a?") = Some true /\
  is_match (convert_like_to_pattern (s "a?")) (s "a") = Some false /\
  is_match (convert_like_to_pattern (s "a?")) (s "ab") = Some false.
Proof. vm_compute. repeat split; reflexivity. Qed.

Print Assumptions glob_regex_correct.
Print Assumptions like_regex_correct.
Print Assumptions glob_parse.
Print Assumptions like_parse.
Print Assumptions glob_spec_ok.
Print Assumptions like_spec_ok.
Print Assumptions eq_ne_verdict_correct.
Print Assumptions like_notlike_verdict_correct.
Print Assumptions negatives_complement.
Print Assumptions F24_fixed.
