(* C12/C20: the glob and LIKE converters of util/glob.rs against textbook wildcard semantics.

   Chain of the main theorems (no dedicated tokenizer: everything goes through the GENERAL
   parser parse_regex of lib/RegexParse.v):
     convert tbl p  --parse_regex-->  {anchored both sides; body = re_of_wild p}   (parse_convert)
     lang (re_of_wild p) w <-> wild p w            for newline-free w              (lang_wild)
     wild_spec p w = true <-> wild p w                                            (wild_spec_ok)
   hence  is_match (convert tbl p) w = Some (wild_spec p w)  for safe p, newline-free w.

   Everything is done once for an arbitrary pair of wildcard characters (st = any run,
   on = exactly one) and instantiated with (42 `*`, 63 `?`) for glob, (37 `%`, 95 `_`) for LIKE.

   Inherited modelling limit (see lib/Regex.v): (?i) is modelled as ASCII case folding, and
   the specification below is ASCII-case-insensitive as well; Rust's (?i) additionally
   identifies non-ASCII simple case variants.  Checked on the real crate (oracle/conv.rs):
   glob "\u{e9}*" matches "\u{c9}", "k*" matches U+212A, "s?" matches U+017F followed by "1",
   whereas is_match / glob_spec say false.  So the theorems below speak about the real
   binary only for pattern/subject pairs without such characters (e.g. ASCII ones); on that
   domain oracle/ confirms them on 6064 random cases. *)
From Coq Require Import List NArith Bool Lia String.
From FS Require Import lib.Str lib.Regex lib.RegexParse model.Glob.
Import ListNotations.
Open Scope N_scope.

Definition no_newline (w : str) : bool := forallb (fun c => negb (c =? 10)) w.

Lemma no_newline_cons d t :
  no_newline (d :: t) = true <-> negb (d =? 10) = true /\ no_newline t = true.
Proof. unfold no_newline. cbn [forallb]. apply andb_true_iff. Qed.
Lemma no_newline_app u v :
  no_newline (u ++ v) = true <-> no_newline u = true /\ no_newline v = true.
Proof. unfold no_newline. rewrite forallb_app. apply andb_true_iff. Qed.

(* f holds of some suffix of t *)
Fixpoint any_suffix (f : str -> bool) (t : str) : bool :=
  f t || match t with [] => false | _ :: t' => any_suffix f t' end.

Lemma any_suffix_ok f t : any_suffix f t = true <-> exists u v, t = u ++ v /\ f v = true.
Proof.
  induction t as [|c t IH]; cbn [any_suffix].
  - rewrite orb_false_r. split.
    + intros H. exists [], []. auto.
    + intros (u & v & E & H). symmetry in E. apply app_eq_nil in E. destruct E as [_ ->]. exact H.
  - rewrite orb_true_iff, IH. split.
    + intros [H|(u & v & E & H)]; [exists [], (c :: t); auto|exists (c :: u), v; subst; auto].
    + intros (u & v & E & H). destruct u as [|d u].
      * cbn [app] in E. subst. now left.
      * cbn [app] in E. inversion E; subst. right. now exists u, v.
Qed.

Section Wild.
Variables st on : N.     (* the "any run" and the "exactly one" wildcard characters *)

(* textbook semantics, relational *)
Inductive wild : str -> str -> Prop :=
| WNil : wild [] []
| WStar p u v : wild p v -> wild (st :: p) (u ++ v)
| WOne p d w : on <> st -> wild p w -> wild (on :: p) (d :: w)
| WLit c p d w : c <> st -> c <> on -> lower1 c = lower1 d -> wild p w -> wild (c :: p) (d :: w).

(* textbook semantics, decision procedure: structural in the pattern, no fuel *)
Fixpoint wild_spec (p subj : str) : bool :=
  match p with
  | [] => is_nil subj
  | c :: p' =>
      if c =? st then any_suffix (wild_spec p') subj
      else match subj with
           | [] => false
           | d :: t => (if c =? on then true else lower1 c =? lower1 d) && wild_spec p' t
           end
  end.

Lemma wild_nil_inv w : wild [] w -> w = [].
Proof. intros H; inversion H; reflexivity. Qed.

Lemma wild_cons_inv c p w : wild (c :: p) w ->
  (c = st /\ exists u v, w = u ++ v /\ wild p v) \/
  (c <> st /\ exists d t, w = d :: t /\ (c = on \/ lower1 c = lower1 d) /\ wild p t).
Proof.
  intros H; inversion H; subst.
  - left. eauto.
  - right. split; [congruence|]. eauto 7.
  - right. split; [assumption|]. eauto 7.
Qed.

Theorem wild_spec_ok p : forall w, wild_spec p w = true <-> wild p w.
Proof.
  induction p as [|c p IH]; intros w.
  - cbn [wild_spec]. destruct w as [|d t]; cbn [is_nil]; split; intros H.
    + constructor.
    + reflexivity.
    + discriminate.
    + apply wild_nil_inv in H. discriminate.
  - cbn [wild_spec]. destruct (N.eqb_spec c st) as [->|Ns].
    + rewrite any_suffix_ok. split.
      * intros (u & v & -> & H). constructor. now apply IH.
      * intros H. apply wild_cons_inv in H.
        destruct H as [[_ (u & v & -> & H)]|[Ne _]]; [|congruence].
        exists u, v. split; [reflexivity|now apply IH].
    + destruct w as [|d t].
      * split; [discriminate|]. intros H. apply wild_cons_inv in H.
        destruct H as [[E _]|[_ (d & t & E & _)]]; [congruence|discriminate].
      * rewrite andb_true_iff, IH. split.
        -- intros [H1 H2]. destruct (N.eqb_spec c on) as [->|No].
           ++ apply WOne; assumption.
           ++ apply WLit; try assumption. now apply N.eqb_eq.
        -- intros H. apply wild_cons_inv in H.
           destruct H as [[E _]|[_ (d' & t' & E & Hc & H)]]; [congruence|].
           inversion E; subst. split; [|exact H].
           destruct (N.eqb_spec c on) as [_|No]; [reflexivity|].
           destruct Hc as [Hc|Hc]; [congruence|now apply N.eqb_eq].
Qed.

(* the regex the converter is meant to produce *)
Definition item (c : N) : re :=
  if c =? st then Star Any else if c =? on then Any else ChrI c.
Definition re_of_wild (p : str) : re := fold_right Seq Eps (map item p).

Lemma star_any w : no_newline w = true -> lang (Star Any) w.
Proof.
  induction w as [|c w IH]; intros H; [constructor|].
  apply no_newline_cons in H. destruct H as [H1 H2]. change (c :: w) with ([c] ++ w).
  apply LStarS; [constructor; exact H1|now apply IH].
Qed.

Theorem lang_wild p : forall w, no_newline w = true -> (lang (re_of_wild p) w <-> wild p w).
Proof.
  induction p as [|c p IH]; intros w NL.
  - change (re_of_wild []) with Eps. rewrite lang_eps_iff. split.
    + intros ->. constructor.
    + apply wild_nil_inv.
  - change (re_of_wild (c :: p)) with (Seq (item c) (re_of_wild p)). rewrite lang_seq_iff.
    unfold item. destruct (N.eqb_spec c st) as [->|Ns]; [|destruct (N.eqb_spec c on) as [->|No]].
    + split.
      * intros (u & v & -> & _ & Hv). constructor. apply no_newline_app in NL. now apply IH.
      * intros H. apply wild_cons_inv in H.
        destruct H as [[_ (u & v & -> & H)]|[Ne _]]; [|congruence].
        apply no_newline_app in NL. destruct NL as [NLu NLv].
        exists u, v. split; [reflexivity|]. split; [now apply star_any|now apply IH].
    + split.
      * intros (u & v & -> & Hu & Hv). apply lang_sym in Hu. destruct Hu as (d & -> & _).
        cbn [app] in NL |- *. apply no_newline_cons in NL. apply WOne; [assumption|now apply IH].
      * intros H. apply wild_cons_inv in H.
        destruct H as [[E _]|[_ (d & t & -> & _ & H)]]; [congruence|].
        apply no_newline_cons in NL. destruct NL as [NLd NLt].
        exists [d], t. split; [reflexivity|]. split; [constructor; exact NLd|now apply IH].
    + split.
      * intros (u & v & -> & Hu & Hv). apply lang_sym in Hu. destruct Hu as (d & -> & T).
        cbn [cset_test] in T. apply N.eqb_eq in T.
        cbn [app] in NL |- *. apply no_newline_cons in NL.
        apply WLit; [assumption|assumption|now symmetry|now apply IH].
      * intros H. apply wild_cons_inv in H.
        destruct H as [[E _]|[_ (d & t & -> & Hc & H)]]; [congruence|].
        destruct Hc as [Hc|Hc]; [congruence|].
        apply no_newline_cons in NL. destruct NL as [NLd NLt].
        exists [d], t. split; [reflexivity|]. split; [|now apply IH].
        constructor. cbn [cset_test]. apply N.eqb_eq. now symmetry.
Qed.

Theorem matches_wild p w : no_newline w = true -> matches (re_of_wild p) w = wild_spec p w.
Proof.
  intros NL. apply eq_true_iff_eq. rewrite matches_ok, wild_spec_ok. now apply lang_wild.
Qed.

(* ---- the general parser on the converter's output ----
   Step tbl safe: the replacement text of one safe character, in front of anything, makes
   the parser push exactly `item c` (q' is the "just saw a quantifier" flag). *)
Definition Step (tbl : repl_table) (safe : N -> bool) : Prop :=
  forall c, safe c = true -> forall sq q rest, exists q',
    go true [] [] sq q None (subst1 tbl c ++ rest) = go true [] [] (item c :: sq) q' None rest.

Lemma go_body tbl safe : Step tbl safe ->
  forall p, forallb safe p = true -> forall sq q rest, exists q',
    go true [] [] sq q None (flat_map (subst1 tbl) p ++ rest)
    = go true [] [] (rev (map item p) ++ sq) q' None rest.
Proof.
  intros HS. induction p as [|c p IH]; intros S sq q rest.
  - exists q. reflexivity.
  - cbn [forallb] in S. apply andb_true_iff in S. destruct S as [Sc Sp].
    cbn [flat_map map rev]. rewrite <- !app_assoc.
    destruct (HS c Sc sq q (flat_map (subst1 tbl) p ++ rest)) as [q1 E1]. rewrite E1.
    destruct (IH Sp (item c :: sq) q1 rest) as [q2 E2]. rewrite E2.
    exists q2. reflexivity.
Qed.

Theorem parse_convert tbl safe : Step tbl safe ->
  forall p, forallb safe p = true ->
  parse_regex (convert tbl p) = Some (mkrx true true (re_of_wild p)).
Proof.
  intros HS p S. unfold convert.
  change (s "^(?i)") with [94; 40; 63; 105; 41]. change (s "$") with [36]. cbn [app].
  rewrite parse_regex_anchored_ci.
  destruct (go_body tbl safe HS p S [] false [36]) as [q' E]. rewrite E.
  rewrite go_dollar_end, app_nil_r, close_seq_rev. reflexivity.
Qed.

Theorem is_match_convert tbl safe : Step tbl safe ->
  forall p w, forallb safe p = true -> no_newline w = true ->
  is_match (convert tbl p) w = Some (wild_spec p w).
Proof.
  intros HS p w S NL. unfold is_match. rewrite (parse_convert tbl safe HS p S).
  unfold rx_re. cbn [anchored_start anchored_end body]. now rewrite matches_wild.
Qed.

End Wild.

(* ================= glob: `*` = 42, `?` = 63 ================= *)
Definition glob_rel : str -> str -> Prop := wild 42 63.
Definition glob_spec : str -> str -> bool := wild_spec 42 63.
Definition re_of_glob : str -> re := re_of_wild 42 63.

(* the regex meta characters the glob table leaves unescaped: + { } | \   (F24) *)
Definition glob_unsafe_chars : list N := [43; 123; 125; 124; 92].
Definition glob_safe_char (c : N) : bool := negb (existsb (N.eqb c) glob_unsafe_chars).
Definition glob_safe (p : str) : bool := forallb glob_safe_char p.

(* ================= LIKE: `%` = 37, `_` = 95 ================= *)
Definition like_rel : str -> str -> Prop := wild 37 95.
Definition like_spec : str -> str -> bool := wild_spec 37 95.
Definition re_of_like : str -> re := re_of_wild 37 95.

(* as above, plus `?` which the LIKE table turns into `.?`   (F26) *)
Definition like_unsafe_chars : list N := [43; 123; 125; 124; 92; 63].
Definition like_safe_char (c : N) : bool := negb (existsb (N.eqb c) like_unsafe_chars).
Definition like_safe (p : str) : bool := forallb like_safe_char p.

(* c is key k of the table: the replacement is closed, both sides compute *)
Ltac key_case c k :=
  destruct (N.eqb_spec c k) as [->|?]; [eexists; reflexivity|].
(* c is excluded by the safety hypothesis S *)
Ltac unsafe_case S c k :=
  destruct (N.eqb_spec c k) as [->|?]; [vm_compute in S; discriminate S|].

Lemma glob_step : Step 42 63 glob_table glob_safe_char.
Proof.
  intros c S sq q rest.
  key_case c 46. key_case c 42. key_case c 63. key_case c 91. key_case c 93.
  key_case c 40. key_case c 41. key_case c 94. key_case c 36.
  unsafe_case S c 43. unsafe_case S c 123. unsafe_case S c 125. unsafe_case S c 124.
  unsafe_case S c 92.
  assert (L : subst1 glob_table c = [c]).
  { unfold subst1, glob_table, FS.gen.GlobGen.glob_table. cbn [lookup]. rewrite !(proj2 (N.eqb_neq c _)) by assumption. reflexivity. }
  rewrite L. cbn [app]. rewrite go_lit by (apply classify_lit; assumption).
  exists false. unfold item. rewrite !(proj2 (N.eqb_neq c _)) by assumption. reflexivity.
Qed.

Lemma like_step : Step 37 95 like_table like_safe_char.
Proof.
  intros c S sq q rest.
  key_case c 37. key_case c 95. unsafe_case S c 63. key_case c 46. key_case c 42. key_case c 91.
  key_case c 93. key_case c 40. key_case c 41. key_case c 94. key_case c 36.
  unsafe_case S c 43. unsafe_case S c 123. unsafe_case S c 125. unsafe_case S c 124.
  unsafe_case S c 92.
  assert (L : subst1 like_table c = [c]).
  { unfold subst1, like_table, FS.gen.GlobGen.like_table. cbn [lookup]. rewrite !(proj2 (N.eqb_neq c _)) by assumption. reflexivity. }
  rewrite L. cbn [app]. rewrite go_lit by (apply classify_lit; assumption).
  exists false. unfold item. rewrite !(proj2 (N.eqb_neq c _)) by assumption. reflexivity.
Qed.

(* ---- glob: main results ---- *)
Theorem glob_spec_ok p w : glob_spec p w = true <-> glob_rel p w.
Proof. apply wild_spec_ok. Qed.

Theorem glob_parse p : glob_safe p = true ->
  parse_regex (convert_glob_to_pattern p) = Some (mkrx true true (re_of_glob p)).
Proof. apply (parse_convert 42 63 glob_table glob_safe_char glob_step). Qed.

Theorem glob_regex_correct p subj :
  glob_safe p = true -> no_newline subj = true ->
  is_match (convert_glob_to_pattern p) subj = Some (glob_spec p subj).
Proof. apply (is_match_convert 42 63 glob_table glob_safe_char glob_step). Qed.

(* ---- LIKE: main results ---- *)
Theorem like_spec_ok p w : like_spec p w = true <-> like_rel p w.
Proof. apply wild_spec_ok. Qed.

Theorem like_parse p : like_safe p = true ->
  parse_regex (convert_like_to_pattern p) = Some (mkrx true true (re_of_like p)).
Proof. apply (parse_convert 37 95 like_table like_safe_char like_step). Qed.

Theorem like_regex_correct p subj :
  like_safe p = true -> no_newline subj = true ->
  is_match (convert_like_to_pattern p) subj = Some (like_spec p subj).
Proof. apply (is_match_convert 37 95 like_table like_safe_char like_step). Qed.

(* ---- the operators of searcher.rs ---- *)
Lemma negatives_complement val subj :
  ne_verdict val subj = option_map negb (eq_verdict val subj) /\
  notlike_verdict val subj = option_map negb (like_verdict val subj).
Proof. unfold ne_verdict, eq_verdict, notlike_verdict, like_verdict. destruct (is_glob val); split; reflexivity. Qed.

Corollary eq_ne_verdict_correct p subj :
  is_glob p = true -> glob_safe p = true -> no_newline subj = true ->
  eq_verdict p subj = Some (glob_spec p subj) /\ ne_verdict p subj = Some (negb (glob_spec p subj)).
Proof.
  intros G S NL. unfold ne_verdict, eq_verdict. rewrite G, (glob_regex_correct p subj S NL). split; reflexivity.
Qed.

Corollary like_notlike_verdict_correct p subj :
  like_safe p = true -> no_newline subj = true ->
  like_verdict p subj = Some (like_spec p subj) /\ notlike_verdict p subj = Some (negb (like_spec p subj)).
Proof.
  intros S NL. unfold notlike_verdict, like_verdict. rewrite (like_regex_correct p subj S NL). split; reflexivity.
Qed.

(* ---- the premises are satisfiable on non-trivial patterns ---- *)
Example glob_premises_ok :
  glob_safe (s "*.[Tt]x?^$(1)") = true /\ no_newline (s "Read Me.[tT]XT^$(1)") = true /\
  is_match (convert_glob_to_pattern (s "*.[Tt]x?^$(1)")) (s "Read Me.[tT]XT^$(1)") = Some true.
Proof.
  assert (S : glob_safe (s "*.[Tt]x?^$(1)") = true) by (vm_compute; reflexivity).
  assert (NL : no_newline (s "Read Me.[tT]XT^$(1)") = true) by (vm_compute; reflexivity).
  split; [exact S|split; [exact NL|]]. rewrite (glob_regex_correct _ _ S NL). vm_compute. reflexivity.
Qed.

Example like_premises_ok :
  like_safe (s "%.t_t*[1]") = true /\ no_newline (s "a b.TxT*[1]") = true /\
  is_match (convert_like_to_pattern (s "%.t_t*[1]")) (s "a b.TxT*[1]") = Some true.
Proof.
  assert (S : like_safe (s "%.t_t*[1]") = true) by (vm_compute; reflexivity).
  assert (NL : no_newline (s "a b.TxT*[1]") = true) by (vm_compute; reflexivity).
  split; [exact S|split; [exact NL|]]. rewrite (like_regex_correct _ _ S NL). vm_compute. reflexivity.
Qed.

(* ---- each side condition is necessary: refutations by computation ---- *)
(* F24: an unescaped meta character changes the verdict (`f+*` vs "ff1") *)
Lemma F24_refuted : exists p subj,
  no_newline subj = true /\ glob_spec p subj <> true /\
  is_match (convert_glob_to_pattern p) subj = Some true.
Proof. exists (s "f+*"), (s "ff1"). vm_compute. repeat split; discriminate. Qed.

(* F24, backslash variant: the final `$` gets escaped, `*\` matches "x$" *)
Lemma F24_backslash_refuted : exists p subj,
  no_newline subj = true /\ glob_spec p subj = false /\
  is_match (convert_glob_to_pattern p) subj = Some true.
Proof. exists (s "*\"), (s "x$"). vm_compute. repeat split. Qed.

(* F24 for LIKE *)
Lemma F24_like_refuted : exists p subj,
  no_newline subj = true /\ like_spec p subj = false /\
  is_match (convert_like_to_pattern p) subj = Some true.
Proof. exists (s "a+"), (s "aa"). vm_compute. repeat split. Qed.

(* `|` is unsafe too, but `^(?i)a|b$` binds each anchor to one branch only, which is outside
   the two-boolean anchor model of lib/RegexParse.v: the model gives no verdict there. *)
Example F24_bar_outside_model : is_match (convert_like_to_pattern (s "a|b")) (s "a") = None.
Proof. vm_compute. reflexivity. Qed.

(* F25: the pattern is safe, the subject contains a newline *)
Lemma F25_refuted : exists p subj,
  glob_safe p = true /\ glob_spec p subj = true /\
  is_match (convert_glob_to_pattern p) subj = Some false.
Proof. exists (s "a*"), [97; 10; 98]. vm_compute. repeat split. Qed.

(* F26: `?` in a LIKE pattern behaves as an optional wildcard *)
Lemma F26_refuted : exists p subj,
  no_newline subj = true /\ like_spec p subj = false /\
  is_match (convert_like_to_pattern p) subj = Some true.
Proof. exists (s "a?"), (s "a"). vm_compute. repeat split. Qed.

Print Assumptions glob_regex_correct.
Print Assumptions like_regex_correct.
Print Assumptions glob_parse.
Print Assumptions like_parse.
Print Assumptions glob_spec_ok.
Print Assumptions eq_ne_verdict_correct.
Print Assumptions like_notlike_verdict_correct.
Print Assumptions negatives_complement.
Print Assumptions F24_refuted.
