(* C02: `numeric column OP literal` is the numeric comparison with the byte count the literal denotes. *)
From Coq Require Import List NArith ZArith Bool Lia String.
From FS Require Import lib.Str lib.Dec lib.SoftF64 gen.OpsGen gen.CmpGen gen.SizeGen model.Size spec.SizeSpec model.Conforms proofs.SizeProofs.
Import ListNotations.
Open Scope Z_scope.

Definition nondigit (c : N) : bool := negb (is_digit c).

Lemma parse_digits_nondigit w : existsb nondigit w = true -> forall a, parse_digits a w = None.
Proof.
  induction w as [|c w IH]; cbn [existsb parse_digits]; [discriminate|].
  intros H a. unfold nondigit in H at 1. destruct (is_digit c); cbn [negb orb] in H; [apply IH; exact H|reflexivity].
Qed.

Lemma show_N_head n : exists c r, show_N n = c :: r /\ is_digit c = true.
Proof.
  pose proof (show_N_digits n) as Hd. pose proof (parse_show_N n) as Hp.
  destruct (show_N n) as [|c r]; [discriminate|]. exists c, r. split; [reflexivity|].
  cbn [forallb] in Hd. now apply andb_true_iff in Hd.
Qed.

Lemma digit_not_sign c : is_digit c = true -> (c =? 45)%N = false /\ (c =? 43)%N = false.
Proof.
  unfold is_digit. intros H. apply andb_true_iff in H. destruct H as [H1 H2].
  apply N.leb_le in H1, H2. split; apply N.eqb_neq; lia.
Qed.

Lemma digit_cases c : is_digit c = true ->
  c = 48%N \/ c = 49%N \/ c = 50%N \/ c = 51%N \/ c = 52%N \/ c = 53%N \/ c = 54%N \/ c = 55%N \/ c = 56%N \/ c = 57%N.
Proof.
  unfold is_digit. intros H. apply andb_true_iff in H. destruct H as [H1 H2]. apply N.leb_le in H1, H2. lia.
Qed.

(* with a digit in front, parse_signed is parse_N plus the range test *)
Lemma parse_signed_digit_head b c r : is_digit c = true ->
  parse_signed b (c :: r) = match parse_N (c :: r) with Some n => if Z.of_N n <? b then Some (Z.of_N n) else None | None => None end.
Proof.
  intros H. destruct (digit_cases c H) as [->|[->|[->|[->|[->|[->|[->|[->|[->| ->]]]]]]]]]; reflexivity.
Qed.

(* a number followed by text that contains a non-digit is not an i64 *)
Lemma parse_i64_with_suffix n w : existsb nondigit w = true -> parse_i64 (show_N n ++ w) = None.
Proof.
  intros Hw. destruct (show_N_head n) as (c & r & E & Hc).
  unfold parse_i64. rewrite E. cbn [app]. rewrite (parse_signed_digit_head _ c (r ++ w) Hc).
  assert (Hp : parse_N (c :: r ++ w) = None).
  { unfold parse_N. change (c :: r ++ w) with ((c :: r) ++ w). rewrite parse_digits_app. rewrite <- E.
    destruct (parse_digits 0 (show_N n)) as [b|]; [apply parse_digits_nondigit; exact Hw|reflexivity]. }
  now rewrite Hp.
Qed.

(* plain decimal literal *)
Theorem int_literal_plain : forall o x n, (Z.of_N n < 9223372036854775808) ->
  conforms_int o x (show_N n) = cmp_int o x (Z.of_N n).
Proof.
  intros o x n Hn. unfold conforms_int, to_int, parse_i64.
  destruct (show_N_head n) as (c & r & E & Hc). pose proof (parse_show_N n) as Hp. rewrite E in *.
  rewrite (parse_signed_digit_head _ c r Hc), Hp.
  destruct (Z.ltb_spec (Z.of_N n) 9223372036854775808); [reflexivity|lia].
Qed.

(* a negative literal keeps its value *)
Theorem int_literal_negative : forall o x n, (Z.of_N n <= 9223372036854775808) ->
  conforms_int o x (45%N :: show_N n) = cmp_int o x (- Z.of_N n).
Proof.
  intros o x n Hn. unfold conforms_int, to_int, parse_i64, parse_signed.
  rewrite (parse_show_N n). destruct (Z.leb_spec (Z.of_N n) 9223372036854775808); [reflexivity|lia].
Qed.

(* the units have no digit in them, so a unit spelling always contains a non-digit *)
Lemma units_nondigit : forallb (fun p => forallb nondigit (fst p)) doc_units = true.
Proof. vm_compute. reflexivity. Qed.

Lemma lower_digit c : is_digit (lower1 c) = is_digit c.
Proof.
  unfold lower1, is_upper, is_digit. destruct ((65 <=? c) && (c <=? 90))%N eqn:E; [|reflexivity].
  apply andb_true_iff in E. destruct E as [E1 E2]. apply N.leb_le in E1, E2.
  assert (A : ((48 <=? c + 32) && (c + 32 <=? 57))%N = false).
  { apply andb_false_iff. right. apply N.leb_gt. lia. }
  assert (B : ((48 <=? c) && (c <=? 57))%N = false).
  { apply andb_false_iff. right. apply N.leb_gt. lia. }
  now rewrite A, B.
Qed.

Lemma spelling_nondigit u M w : unit_multiplier u = Some M -> u <> [] -> spelling_of u w -> existsb nondigit w = true.
Proof.
  intros Hu Hne Hs.
  assert (Hall : forallb nondigit u = true).
  { pose proof units_nondigit as H. rewrite forallb_forall in H. unfold unit_multiplier in Hu.
    assert (In (u, M) doc_units) as Hin.
    { clear -Hu. induction doc_units as [|[k v] l IH]; cbn [assoc] in Hu; [discriminate|].
      destruct (str_eqb u k) eqn:E; [|right; apply IH; exact Hu].
      left. apply str_eqb_eq in E. inversion Hu. now subst. }
    exact (H (u, M) Hin). }
  unfold spelling_of in Hs. destruct u as [|c u]; [congruence|].
  assert (In c (filter (fun c0 => negb (c0 =? 32)%N) (ascii_lower w))) as Hin by (rewrite Hs; now left).
  apply filter_In in Hin. destruct Hin as [Hin _]. unfold ascii_lower in Hin. apply in_map_iff in Hin.
  destruct Hin as (d & Hd & Hdin). cbn [forallb] in Hall. apply andb_true_iff in Hall. destruct Hall as [Hc _].
  apply existsb_exists. exists d. split; [exact Hdin|]. unfold nondigit in *. rewrite <- Hd in Hc. now rewrite lower_digit in Hc.
Qed.

(* THE statement: `column OP <integer><unit>` is the numeric comparison with integer x documented multiplier,
   for every documented unit in any spelling *)
Theorem int_literal_with_unit : forall o x u M w n,
  unit_multiplier u = Some M -> u <> [] -> spelling_of u w -> Z.of_N n * M < 2 ^ 53 ->
  conforms_int o x (show_N n ++ w) = cmp_int o x (Z.of_N n * M).
Proof.
  intros o x u M w n Hu Hne Hs Hlt. unfold conforms_int, to_int.
  rewrite (parse_i64_with_suffix n w (spelling_nondigit u M w Hu Hne Hs)).
  rewrite (units_exact u M w n Hu Hs Hlt).
  assert (0 <= Z.of_N n * M).
  { assert (0 < M).
    { pose proof (proj1 (proj2 ladder_matches_doc_table)) as D. clear -Hu.
      unfold unit_multiplier in Hu.
      assert (forallb (fun p => 0 <? snd p) doc_units = true) as P by (vm_compute; reflexivity).
      rewrite forallb_forall in P.
      assert (In (u, M) doc_units) as Hin.
      { induction doc_units as [|[k v] l IH]; cbn [assoc] in Hu; [discriminate|].
        destruct (str_eqb u k) eqn:E; [|right; apply IH; [exact Hu|intros y Hy; apply P; now right]].
        left. apply str_eqb_eq in E. inversion Hu. now subst. }
      specialize (P (u, M) Hin). cbn [snd] in P. now apply Z.ltb_lt in P. }
    nia. }
  unfold as_i64. rewrite Z2N.id by assumption.
  destruct (Z.ltb_spec (Z.of_N n * M) 9223372036854775808) as [_|Hge]; [reflexivity|].
  exfalso. assert (2 ^ 53 < 9223372036854775808) by reflexivity. lia.
Qed.

Example int_literal_with_unit_ex : conforms_int OpGt 2000 (s "1 KiB") = true /\ conforms_int OpGt 1000 (s "1 KiB") = false /\ conforms_int OpEq (-1) (s "-1") = true.
Proof. vm_compute. repeat split; reflexivity. Qed.
