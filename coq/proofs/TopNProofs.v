(* C05 / C06: the TopN buffer returns a sorted permutation, and with a limit exactly the
   first n elements of what the unlimited buffer returns - for every insertion sequence. *)
From Coq Require Import List Arith Lia Bool Permutation Sorted.
From FS Require Import model.TopN.
Import ListNotations.

Section T.
Variables K V : Type.
Variable le : K -> K -> bool.
Hypothesis le_total : forall a b, le a b = true \/ le b a = true.
(* transitivity is only needed on the keys that actually occur (e.g. key vectors of one length) *)
Variable P : K -> Prop.
Hypothesis le_trans : forall a b c, P a -> P b -> P c -> le a b = true -> le b c = true -> le a c = true.
Definition keysP (l : list (K * V)) := Forall (fun kv => P (fst kv)) l.

Notation ins := (ins le).
Notation insert_lim := (insert_lim le).
Notation run := (run le).

Lemma ins_length k (v : V) l : length (ins k v l) = S (length l).
Proof. induction l as [|[k' v'] t IH]; cbn; [reflexivity|]. destruct (le k' k); cbn; lia. Qed.

Lemma ins_perm k (v : V) l : Permutation (ins k v l) ((k, v) :: l).
Proof.
  induction l as [|[k' v'] t IH]; cbn; [reflexivity|]. destruct (le k' k); [|reflexivity].
  rewrite IH. apply perm_swap.
Qed.

Definition sortedK (l : list (K * V)) := StronglySorted (fun a b => le (fst a) (fst b) = true) l.

Lemma ins_sorted k v l : P k -> keysP l -> sortedK l -> sortedK (ins k v l).
Proof.
  intros Pk. induction l as [|[k' v'] t IH]; intros HP Hs; cbn.
  - repeat constructor.
  - inversion Hs as [|? ? Ht Hall]; subst. inversion HP as [|? ? Pk' HPt]; subst. cbn in Pk'.
    destruct (le k' k) eqn:E.
    + constructor; [apply IH; assumption|].
      eapply Permutation_Forall; [symmetry; apply ins_perm|]. constructor; [exact E|exact Hall].
    + assert (Hk : le k k' = true) by (destruct (le_total k k'); congruence).
      constructor; [exact Hs|]. constructor; [exact Hk|].
      unfold keysP in HPt. rewrite Forall_forall in Hall, HPt |- *. intros a Ha. cbn.
      eapply (le_trans k k' (fst a)); auto.
Qed.

Lemma ins_keysP k v l : P k -> keysP l -> keysP (ins k v l).
Proof.
  intros Pk HP. unfold keysP. eapply Permutation_Forall; [symmetry; apply ins_perm|]. constructor; assumption.
Qed.

(* stability: among equivalent keys, insertion order is kept (new element goes after every
   element whose key is <= its key) *)
Lemma ins_after k v l : exists a b, ins k v l = a ++ (k, v) :: b /\ l = a ++ b /\
  Forall (fun x : K * V => le (fst x) k = true) a /\ (match b with [] => True | x :: _ => le (fst x) k = false end).
Proof.
  induction l as [|[k' v'] t IH]; cbn.
  - exists [], []. repeat split; constructor.
  - destruct (le k' k) eqn:E.
    + destruct IH as (a & b & E1 & E2 & Fa & Hb). exists ((k', v') :: a), b. rewrite E1, E2. repeat split; auto.
    + exists [], ((k', v') :: t). repeat split; auto.
Qed.

Lemma firstn_ins n k (v : V) l : n <= length l ->
  firstn n (ins k v l) = firstn n (ins k v (firstn n l)).
Proof.
  revert n. induction l as [|[k' v'] t IH]; intros n Hn; cbn in *.
  - assert (n = 0) by lia. subst. reflexivity.
  - destruct n as [|n]; [reflexivity|]. cbn [firstn TopN.ins].
    destruct (le k' k); cbn [firstn]; [f_equal; apply IH; lia|].
    f_equal. destruct n as [|m]; [reflexivity|].
    change (firstn (S m) ((k', v') :: t)) with ((k', v') :: firstn m t).
    change (firstn (S m) ((k', v') :: firstn (S m) t)) with ((k', v') :: firstn m (firstn (S m) t)).
    f_equal. rewrite firstn_firstn. f_equal. lia.
Qed.

Lemma removelast_firstn_len {A} (l : list A) : removelast l = firstn (length l - 1) l.
Proof.
  induction l as [|a [|b t] IH]; [reflexivity|reflexivity|].
  change (removelast (a :: b :: t)) with (a :: removelast (b :: t)). rewrite IH. cbn. rewrite Nat.sub_0_r. reflexivity.
Qed.

Lemma trim_firstn n (l : list (K * V)) : length l <= S n -> trim n l = firstn n l.
Proof.
  intros H. unfold trim. destruct (n <? length l) eqn:E.
  - apply Nat.ltb_lt in E. rewrite removelast_firstn_len. f_equal. lia.
  - apply Nat.ltb_ge in E. symmetry. apply firstn_all2. exact E.
Qed.

Theorem topn_prefix : forall n (rows : list (K * V)), 0 < n -> run (Some n) rows = firstn n (run None rows).
Proof.
  intros n rows Hn. unfold TopN.run.
  assert (G : forall b u, b = firstn n u ->
     fold_left (insert_lim (Some n)) rows b = firstn n (fold_left (insert_lim None) rows u)).
  { induction rows as [|[k v] rows IH]; intros b u Hb; cbn [fold_left]; [exact Hb|].
    apply IH. unfold TopN.insert_lim; cbn [fst snd]. subst b.
    rewrite trim_firstn.
    - destruct (le_lt_dec n (length u)) as [H|H].
      + symmetry. apply firstn_ins. exact H.
      + rewrite (firstn_all2 u) by lia. reflexivity.
    - rewrite ins_length, firstn_length. lia. }
  apply G. destruct n; reflexivity.
Qed.

Theorem run_perm (rows : list (K * V)) : Permutation (run None rows) rows.
Proof.
  unfold TopN.run. assert (G : forall acc, Permutation (fold_left (insert_lim None) rows acc) (acc ++ rows)).
  { induction rows as [|[k v] rows IH]; intros acc; cbn [fold_left]; [now rewrite app_nil_r|].
    rewrite IH. unfold TopN.insert_lim; cbn [fst snd]. rewrite ins_perm.
    cbn [app]. apply Permutation_middle. }
  apply (G []).
Qed.

Theorem run_sorted (rows : list (K * V)) : keysP rows -> sortedK (run None rows).
Proof.
  unfold TopN.run. intros HR.
  assert (G : forall acc, keysP acc -> sortedK acc -> sortedK (fold_left (insert_lim None) rows acc)).
  { induction HR as [|[k v] rows Pk _ IH]; intros acc HP H; cbn [fold_left]; [exact H|].
    cbn in Pk. apply IH; unfold TopN.insert_lim; cbn [fst snd]; [apply ins_keysP|apply ins_sorted]; assumption. }
  apply G; constructor.
Qed.

Corollary values_perm (rows : list (K * V)) : Permutation (values (run None rows)) (map snd rows).
Proof. unfold values. apply Permutation_map. apply run_perm. Qed.

Corollary limited_length n (rows : list (K * V)) : 0 < n -> length (run (Some n) rows) = Nat.min n (length rows).
Proof.
  intros Hn. rewrite topn_prefix by exact Hn. rewrite firstn_length.
  rewrite (Permutation_length (run_perm rows)). reflexivity.
Qed.

Corollary limited_sorted n (rows : list (K * V)) : 0 < n -> keysP rows -> sortedK (run (Some n) rows).
Proof.
  intros Hn HR. rewrite topn_prefix by exact Hn.
  assert (G : forall m (l : list (K * V)), sortedK l -> sortedK (firstn m l)).
  { induction m as [|m IH]; intros l Hl; [constructor|]. destruct l as [|x l]; [constructor|].
    inversion Hl as [|? ? Ht Hall]; subst. cbn [firstn]. constructor; [apply IH; exact Ht|].
    rewrite Forall_forall in *. intros y Hy. apply Hall.
    rewrite <- (firstn_skipn m l). apply in_or_app. left. exact Hy. }
  apply G. apply run_sorted. exact HR.
Qed.
End T.
