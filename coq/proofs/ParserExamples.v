(* Executable witnesses that the model follows the CURRENT parser.rs / operators.rs (the
   defects fixed in the source), each checked by vm_compute.  All of them are also part of
   the differential suite (py/extra_cases.json). *)
From Coq Require Import List NArith Bool String.
From FS Require Import lib.Str lib.Res gen.OpsGen gen.FieldGen gen.FuncGen model.Lexer model.Expr model.Parser.
Import ListNotations.

Definition where_of (r : res query) : option expr := match r with Ok q => q_expr q | _ => None end.
Definition fld (f : Field) := Expr_field f.
Definition v (x : string) := Expr_value (s x).

(* parse_fields propagates the error of parse_expr *)
Example fields_error : parse [s "name, (size from /tmp"] = Exit2 (s "Unmatched parenthesis").
Proof. vm_compute. reflexivity. Qed.

(* parse_order_by: positions 0 and > len, leading desc *)
Example order_by_zero : parse [s "name order by 0"] = Exit2 (s "Order by position is out of range").
Proof. vm_compute. reflexivity. Qed.
Example order_by_too_big : parse [s "name order by 2"] = Exit2 (s "Order by position is out of range").
Proof. vm_compute. reflexivity. Qed.
Example order_by_desc_first : parse [s "name order by desc"] = Exit2 (s "Error parsing order by, no field before desc").
Proof. vm_compute. reflexivity. Qed.

(* unknown operator *)
Example unknown_operator : parse [s "name where size =!= 2"] = Exit2 (s "Unknown operator: =!=").
Proof. vm_compute. reflexivity. Qed.

(* parse_group_by propagates errors *)
Example group_by_error : parse [s "name where 1 = 1 group by size +"] = Exit2 (s "Error parsing expression, expecting string").
Proof. vm_compute. reflexivity. Qed.

(* Op::negate: Gt -> Lte *)
Example not_gt : where_of (parse [s "name where not size > 1"]) = Some (Expr_op (fld FSize) OpLte (v "1")).
Proof. vm_compute. reflexivity. Qed.
Example not_lte : where_of (parse [s "name where size not <= 1"]) = Some (Expr_op (fld FSize) OpGt (v "1")).
Proof. vm_compute. reflexivity. Qed.

(* negate_expr_op swaps And/Or (De Morgan) *)
Example not_and : where_of (parse [s "name where not (size = 1 and name = 2)"])
  = Some (Expr_logical_op (Expr_op (fld FSize) OpNe (v "1")) LOr (Expr_op (fld FName) OpNe (v "2"))).
Proof. vm_compute. reflexivity. Qed.

(* NOT BETWEEN: < low OR > high *)
Example not_between : where_of (parse [s "name where size not between 1 and 2"])
  = Some (Expr_logical_op (Expr_op (fld FSize) OpLt (v "1")) LOr (Expr_op (fld FSize) OpGt (v "2"))).
Proof. vm_compute. reflexivity. Qed.
Example between : where_of (parse [s "name where size between 1 and 2"])
  = Some (Expr_logical_op (Expr_op (fld FSize) OpGte (v "1")) LAnd (Expr_op (fld FSize) OpLte (v "2"))).
Proof. vm_compute. reflexivity. Qed.

(* the implicit limit = 1 for constant selects; default root "." *)
Example implicit_limit : match parse [s "1 + 2"] with Ok q => q_limit q = 1%N /\ q_roots q = [mkRoot (s ".") RootOptions_new] | _ => False end.
Proof. vm_compute. split; reflexivity. Qed.

(* F23-style: a comma glued to a root in a multi-argument query stays part of the path *)
Example glued_comma : lex [s "name"; s "from"; s "/a,"; s "/b"] = [RawString (s "name"); From; RawString (s "/a,"); RawString (s "/b")].
Proof. vm_compute. reflexivity. Qed.
