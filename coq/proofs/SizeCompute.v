(* The one finite evaluation of the general size-rendering proofs: every two-decimal text 1.00 .. 1024.00 x KiB .. TiB
   (102301 texts), decided by the kernel's VM.  It sits in a file of its own so that the independent checker - coqchk has no
   VM and needs hours for it - can be told to take exactly this lemma from coqc: `coqchk -admit FS.proofs.SizeCompute`. *)
From Coq Require Import String ZArith NArith List Bool Lia.
From FS Require Import lib.Str lib.Res lib.Dec lib.Fin lib.SoftF64 gen.SizeGen model.Size spec.SizeSpec proofs.SizeProofs proofs.SizeGeneralA.
Import ListNotations.
Open Scope Z_scope.

Arguments Z.mul : simpl never.
Arguments Z.add : simpl never.
Arguments Z.pow : simpl never.
Arguments Z.div : simpl never.
Arguments Z.modulo : simpl never.
Arguments N.mul : simpl never.
Arguments N.add : simpl never.

(* SizeProofs.v ends by marking these opaque for its vm_compute-based grid lemmas; the general
   proofs below need to unfold them (a conversion-strategy hint only, restored at the end) *)
Strategy transparent [render accurate_text roundtrips_text centibytes_of parse_filesize format_filesize].

Lemma rt_chk_all : forallb rt_chk_range (below_pow2 17) = true.
Proof. vm_cast_no_check (eq_refl true). Qed.
