(* B. The arithmetic sub-language round trip through the model of the real parser
   (model/Parser.v: parse_add_sub / parse_mul_div / parse_paren / parse_func_scalar and, for a
   bracket, the whole chain parse_expr -> parse_and -> parse_cond -> parse_add_sub).

   `render lvl a` prints an `aexp` (proofs/DisplayProofs.v: numbers, columns, both with an
   optional unary minus, five binary operators) as a token list with minimal brackets:
   level 0 = add/sub, 1 = mul/div/mod, 2 = atom; left-associative.

   Main theorem `arith_roundtrip`: on the token vector pre ++ render 0 a ++ post, started at
   index |pre| with arbitrary flags, parse_add_sub returns ROk (Some (embed a)) at index
   |pre| + |render 0 a| for every sufficiently large fuel, provided post does not start
   with an ArithmeticOperator token.  Precedence, left associativity and brackets in one
   statement.  proofs/RoundtripPfuel.v (`arith_roundtrip_pfuel`) instantiates the fuel with the
   model's own `pfuel`. *)
From Coq Require Import String List NArith Bool Arith Lia.
From FS Require Import lib.Str lib.Res lib.Dec gen.OpsGen gen.FieldGen gen.FuncGen
  model.Show model.Lexer model.Expr model.Parser proofs.DisplayProofs proofs.ParserEqs.
Import ListNotations.
Open Scope nat_scope.

(* ---------- the state monad, one step at a time ---------- *)
Lemma bind_next {A} T (f : option lexem -> M A) i rp wp :
  bindM (next_lexem T) f (mkPS i rp wp) = f (nth_error T i) (mkPS (S i) rp wp).
Proof. reflexivity. Qed.
Lemma bind_drop {A} (f : unit -> M A) i rp wp : bindM drop_lexem f (mkPS (S i) rp wp) = f tt (mkPS i rp wp).
Proof. reflexivity. Qed.
Lemma bind_ok {A B} (m : M A) (f : A -> M B) st a st' : m st = Ok (a, st') -> bindM m f st = f a st'.
Proof. unfold bindM. intros ->. reflexivity. Qed.
Lemma try_ok {A B} (m : M (rr A)) (f : A -> M (rr B)) st a st' : m st = Ok (ROk a, st') -> tryM m f st = f a st'.
Proof. unfold tryM, bindM. intros ->. reflexivity. Qed.

Ltac mstep := cbv beta iota delta [bindM tryM ret drop_lexem next_lexem get_state idx roots_parsed where_parsed err].

(* ---------- token vector bookkeeping ---------- *)
Lemma nth_at {A} (pre : list A) x rest : nth_error (pre ++ x :: rest) (length pre) = Some x.
Proof. rewrite nth_error_app2 by lia. now rewrite Nat.sub_diag. Qed.
Lemma nth_post {A} (pre mid post : list A) : nth_error (pre ++ mid ++ post) (length pre + length mid) = hd_error post.
Proof.
  rewrite app_assoc, nth_error_app2 by (rewrite app_length; lia).
  rewrite app_length, Nat.sub_diag. now destruct post.
Qed.

(* ---------- rendering ---------- *)
Definition is_addop (o : ArithmeticOp) : bool := match o with AAdd | ASubtract => true | _ => false end.
Definition prec (o : ArithmeticOp) : nat := if is_addop o then 0 else 1.
Definition op_tok (o : ArithmeticOp) : lexem := ArithmeticOperator [op_char o].     (* "+" "-" "*" "/" "%" *)
Definition minus_tok (neg : bool) : list lexem := if neg then [ArithmeticOperator [45%N]] else [].

(* the first key of Field::from_str's table that maps to the column *)
Definition field_key (f : Field) : str :=
  match find (fun p => Field_eqb (snd p) f) Field_from_str_table with Some p => fst p | None => [] end.

Fixpoint render (lvl : nat) (a : aexp) : list lexem :=
  match a with
  | ANum neg ds => minus_tok neg ++ [RawString ds]
  | ACol neg f => minus_tok neg ++ [RawString (field_key f)]
  | ABin o l r =>
      let p := prec o in
      let body := render p l ++ [op_tok o] ++ render (S p) r in
      if lvl <=? p then body else [Open] ++ body ++ [Close]
  end.

(* ---------- facts about the generated tables, by computation ---------- *)
Lemma Arith_from_op_char o : Arith_from [op_char o] = Some o.
Proof. destruct o; vm_compute; reflexivity. Qed.

Lemma field_key_ok f : Field_from_str (field_key f) = Some f.
Proof. destruct f; vm_compute; reflexivity. Qed.

Definition no_digit_head {A} (t : list (str * A)) : bool :=
  forallb (fun p => match fst p with k :: _ => negb (is_digit k) | [] => true end) t.

Lemma assoc_digit_head {A} (t : list (str * A)) c r :
  is_digit c = true -> no_digit_head t = true -> assoc (c :: r) t = None.
Proof.
  intros Hc. induction t as [|[k v] t IH]; [reflexivity|]. unfold no_digit_head. cbn [forallb fst].
  rewrite andb_true_iff. intros [Hk Ht]. cbn [assoc]. destruct k as [|k0 k']; cbn [str_eqb]; [now apply IH|].
  destruct (N.eqb_spec c k0) as [->|Hne]; [rewrite Hc in Hk; discriminate Hk|]. cbn [andb]. now apply IH.
Qed.

Lemma Field_table_no_digit : no_digit_head Field_from_str_table = true.
Proof. vm_compute. reflexivity. Qed.
Lemma Function_table_no_digit : no_digit_head Function_from_str_table = true.
Proof. vm_compute. reflexivity. Qed.

Lemma lower1_digit c : is_digit c = true -> lower1 c = c.
Proof.
  unfold is_digit, lower1, is_upper. rewrite andb_true_iff, !N.leb_le. intros [H1 H2].
  assert (E : (65 <=? c)%N = false) by (apply N.leb_gt; lia). now rewrite E.
Qed.

(* a string whose first character is a digit is neither a column nor a function name *)
Lemma digit_head_not_field c r : is_digit c = true -> Field_from_str (c :: r) = None.
Proof.
  intros H. unfold Field_from_str, Field_from_str_lowercases, ascii_lower. cbn [map]. rewrite (lower1_digit c H).
  apply assoc_digit_head; [exact H|exact Field_table_no_digit].
Qed.
Lemma digit_head_not_function c r : is_digit c = true -> Function_from_str (c :: r) = None.
Proof.
  intros H. unfold Function_from_str, Function_from_str_lowercases, ascii_lower. cbn [map]. rewrite (lower1_digit c H).
  apply assoc_digit_head; [exact H|exact Function_table_no_digit].
Qed.

(* what parse_func_scalar makes of a RawString that is not a function name *)
Definition scalar_of (minus : bool) (x : str) : option expr :=
  match Field_from_str x with
  | Some f => Some (set_minus (Expr_field f) minus)
  | None => match Function_from_str x with Some _ => None | None => Some (set_minus (Expr_value x) minus) end
  end.

Lemma scalar_of_digits m ds : ds <> [] -> forallb is_digit ds = true -> scalar_of m ds = Some (set_minus (Expr_value ds) m).
Proof.
  intros Hne Hd. destruct ds as [|c r]; [congruence|]. cbn [forallb] in Hd. apply andb_true_iff in Hd. destruct Hd as [Hc _].
  unfold scalar_of. now rewrite (digit_head_not_field c r Hc), (digit_head_not_function c r Hc).
Qed.
Lemma scalar_of_key m f : scalar_of m (field_key f) = Some (set_minus (Expr_field f) m).
Proof. unfold scalar_of. now rewrite field_key_ok. Qed.

(* ---------- single steps of the model's functions ---------- *)
Lemma fs_raw T k i rp wp x e : nth_error T i = Some (RawString x) -> scalar_of false x = Some e ->
  parse_func_scalar T (S k) (mkPS i rp wp) = Ok (ROk (Some e), mkPS (S i) rp wp).
Proof.
  intros H He. rewrite parse_func_scalar_S, bind_next, H. mstep.
  unfold scalar_of in He. destruct (Field_from_str x); [now inversion He|].
  destruct (Function_from_str x); [discriminate He|now inversion He].
Qed.

Lemma fs_minus_raw T k i rp wp x e : nth_error T i = Some (ArithmeticOperator [45%N]) ->
  nth_error T (S i) = Some (RawString x) -> scalar_of true x = Some e ->
  parse_func_scalar T (S k) (mkPS i rp wp) = Ok (ROk (Some e), mkPS (S (S i)) rp wp).
Proof.
  intros H H' He. rewrite parse_func_scalar_S, bind_next, H.
  change (str_eqb [45%N] (s "-"%string)) with true. mstep. rewrite H'.
  unfold scalar_of in He. destruct (Field_from_str x); [now inversion He|].
  destruct (Function_from_str x); [discriminate He|now inversion He].
Qed.

Lemma paren_other T k i rp wp t : nth_error T i = Some t -> t <> Open -> t <> CurlyOpen ->
  parse_paren T (S k) (mkPS i rp wp) = parse_func_scalar T k (mkPS i rp wp).
Proof. intros H H1 H2. rewrite parse_paren_S, bind_next, H. destruct t; try congruence; reflexivity. Qed.

Lemma paren_open T k i j rp wp r : nth_error T i = Some Open ->
  parse_expr T k (mkPS (S i) rp wp) = Ok (r, mkPS j rp wp) -> nth_error T j = Some Close ->
  parse_paren T (S k) (mkPS i rp wp) = Ok (r, mkPS (S j) rp wp).
Proof.
  intros H He Hc. rewrite parse_paren_S, bind_next, H. cbv iota.
  rewrite (bind_ok _ _ _ _ _ He), bind_next, Hc. reflexivity.
Qed.

Definition is_mulop (o : ArithmeticOp) : bool := negb (is_addop o).
Definition opt_is (p : ArithmeticOp -> bool) (o : option ArithmeticOp) : bool := match o with Some x => p x | None => false end.

(* the token on which mul_div_loop / add_sub_loop stop *)
Definition nomul_tok (t : option lexem) : Prop :=
  match t with Some (ArithmeticOperator x) => opt_is is_mulop (Arith_from x) = false | _ => True end.
Definition noadd_tok (t : option lexem) : Prop :=
  match t with Some (ArithmeticOperator x) => opt_is is_addop (Arith_from x) = false | _ => True end.
Definition noop_tok (t : option lexem) : Prop :=
  match t with Some (ArithmeticOperator _) => False | _ => True end.
Lemma noop_nomul t : noop_tok t -> nomul_tok t. Proof. destruct t as [[]|]; cbn; tauto. Qed.
Lemma noop_noadd t : noop_tok t -> noadd_tok t. Proof. destruct t as [[]|]; cbn; tauto. Qed.

Lemma mul_loop_stop T m lft i rp wp : nomul_tok (nth_error T i) ->
  mul_div_loop T (S m) lft (mkPS i rp wp) = Ok (ROk lft, mkPS i rp wp).
Proof.
  intros H. rewrite mul_div_loop_S, bind_next. destruct (nth_error T i) as [[]|]; try reflexivity.
  cbn [nomul_tok] in H. destruct (Arith_from x) as [[]|]; try discriminate H; reflexivity.
Qed.
Lemma add_loop_stop T m lft i rp wp : noadd_tok (nth_error T i) ->
  add_sub_loop T (S m) lft (mkPS i rp wp) = Ok (ROk lft, mkPS i rp wp).
Proof.
  intros H. rewrite add_sub_loop_S, bind_next. destruct (nth_error T i) as [[]|]; try reflexivity.
  cbn [noadd_tok] in H. destruct (Arith_from x) as [[]|]; try discriminate H; reflexivity.
Qed.

Lemma mul_loop_step T m l i rp wp x o e' st' : nth_error T i = Some (ArithmeticOperator x) ->
  Arith_from x = Some o -> is_mulop o = true ->
  parse_paren T m (mkPS (S i) rp wp) = Ok (ROk (Some e'), st') ->
  mul_div_loop T (S m) (Some l) (mkPS i rp wp) = mul_div_loop T m (Some (Expr_arithmetic_op l o e')) st'.
Proof.
  intros H Ho Hm Hp. rewrite mul_div_loop_S, bind_next, H. cbv iota. rewrite Ho.
  destruct o; try discriminate Hm; cbv iota; rewrite (try_ok _ _ _ _ _ Hp); reflexivity.
Qed.
Lemma add_loop_step T m l i rp wp x o e' st' : nth_error T i = Some (ArithmeticOperator x) ->
  Arith_from x = Some o -> is_addop o = true ->
  parse_mul_div T m (mkPS (S i) rp wp) = Ok (ROk (Some e'), st') ->
  add_sub_loop T (S m) (Some l) (mkPS i rp wp) = add_sub_loop T m (Some (Expr_arithmetic_op l o e')) st'.
Proof.
  intros H Ho Hm Hp. rewrite add_sub_loop_S, bind_next, H. cbv iota. rewrite Ho.
  destruct o; try discriminate Hm; cbv iota; rewrite (try_ok _ _ _ _ _ Hp); reflexivity.
Qed.

(* parse_cond on something that is just an arithmetic expression: no NOT before or after,
   no comparison operator after *)
Definition plain_tok (t : option lexem) : Prop :=
  match t with Some Not | Some (Operator _) => False | _ => True end.

Lemma cond_body_plain T k neg i j rp wp e :
  parse_add_sub T k (mkPS i rp wp) = Ok (ROk (Some e), mkPS j rp wp) -> plain_tok (nth_error T j) ->
  cond_body T (S k) neg (mkPS i rp wp) = Ok (cond_post (mkPS j rp wp) neg (ROk (Some e)), mkPS j rp wp).
Proof.
  intros H Hp. rewrite cond_body_S, (bind_ok _ _ _ _ _ H). cbv iota beta. rewrite bind_next.
  destruct (nth_error T j) as [t|] eqn:E.
  - destruct t; try (exfalso; exact Hp); mstep; rewrite E; reflexivity.
  - mstep. rewrite E. reflexivity.
Qed.

Lemma cond_nots_plain T k neg i rp wp : nth_error T i <> Some Not ->
  cond_nots T (S k) neg (mkPS i rp wp) = cond_body T k neg (mkPS i rp wp).
Proof.
  intros H. rewrite cond_nots_S, bind_next. destruct (nth_error T i) as [[]|]; try reflexivity. congruence.
Qed.

Definition logic_of (o : LogicalOp) (l : expr) (rgt : option expr) : expr :=
  match rgt with Some r => Expr_logical_op l o r | None => l end.

Lemma and_loop_stop T m l rgt i rp wp : nth_error T i <> Some And ->
  and_loop T (S m) (Some l) rgt (mkPS i rp wp) = Ok (ROk (Some (logic_of LAnd l rgt)), mkPS i rp wp).
Proof.
  intros H. rewrite and_loop_S, bind_next. destruct (nth_error T i) as [[]|]; try congruence; destruct rgt; reflexivity.
Qed.
Lemma expr_loop_stop T m l rgt i rp wp : nth_error T i <> Some Or ->
  expr_loop T (S m) (Some l) rgt (mkPS i rp wp) = Ok (ROk (Some (logic_of LOr l rgt)), mkPS i rp wp).
Proof.
  intros H. rewrite expr_loop_S, bind_next. destruct (nth_error T i) as [[]|]; try congruence; destruct rgt; reflexivity.
Qed.

(* the token after a bracketed arithmetic expression, seen from parse_expr *)
Definition closing_tok (t : option lexem) : Prop :=
  match t with Some Not | Some (Operator _) | Some And | Some Or => False | _ => True end.

Lemma expr_of_add_sub T n i j rp wp e :
  parse_add_sub T n (mkPS i rp wp) = Ok (ROk (Some e), mkPS j rp wp) ->
  nth_error T i <> Some Not -> closing_tok (nth_error T j) ->
  cond_post (mkPS j rp wp) false (ROk (Some e)) = ROk (Some e) ->
  parse_expr T (S (S (S (S (S n))))) (mkPS i rp wp) = Ok (ROk (Some e), mkPS j rp wp).
Proof.
  intros H Hn Hc Hpost.
  assert (Hcond : parse_cond T (S (S (S n))) (mkPS i rp wp) = Ok (ROk (Some e), mkPS j rp wp)).
  { rewrite parse_cond_S, (cond_nots_plain T _ false i rp wp Hn), (cond_body_plain T n false i j rp wp e H), Hpost; [reflexivity|].
    destruct (nth_error T j) as [[]|]; cbn in *; tauto. }
  assert (Hand : parse_and T (S (S (S (S n)))) (mkPS i rp wp) = Ok (ROk (Some e), mkPS j rp wp)).
  { rewrite parse_and_S, (try_ok _ _ _ _ _ Hcond), and_loop_stop; [reflexivity|].
    intros E. rewrite E in Hc. exact Hc. }
  rewrite parse_expr_S, (try_ok _ _ _ _ _ Hand), expr_loop_stop; [reflexivity|].
  intros E. rewrite E in Hc. exact Hc.
Qed.

(* ---------- what each level promises for an expression, in every context ---------- *)
Definition hd_tok (post : list lexem) : option lexem := hd_error post.

Definition AtomOK (a : aexp) := forall T pre post i j rp wp,
  T = pre ++ render 2 a ++ post -> i = length pre -> j = length pre + length (render 2 a) ->
  exists N, forall n, N <= n ->
  parse_paren T n (mkPS i rp wp) = Ok (ROk (Some (embed a)), mkPS j rp wp).

Definition MulChain (a : aexp) := forall T pre post i j rp wp,
  T = pre ++ render 1 a ++ post -> i = length pre -> j = length pre + length (render 1 a) ->
  exists N c, forall n, N <= n ->
  tryM (parse_paren T n) (fun lft => mul_div_loop T n lft) (mkPS i rp wp)
  = mul_div_loop T (n - c) (Some (embed a)) (mkPS j rp wp).

Definition MulOK (a : aexp) := forall T pre post i j rp wp,
  T = pre ++ render 1 a ++ post -> i = length pre -> j = length pre + length (render 1 a) ->
  nomul_tok (hd_tok post) ->
  exists N, forall n, N <= n ->
  parse_mul_div T n (mkPS i rp wp) = Ok (ROk (Some (embed a)), mkPS j rp wp).

Definition AddChain (a : aexp) := forall T pre post i j rp wp,
  T = pre ++ render 0 a ++ post -> i = length pre -> j = length pre + length (render 0 a) ->
  nomul_tok (hd_tok post) ->
  exists N c, forall n, N <= n ->
  tryM (parse_mul_div T n) (fun lft => add_sub_loop T n lft) (mkPS i rp wp)
  = add_sub_loop T (n - c) (Some (embed a)) (mkPS j rp wp).

Definition AddOK (a : aexp) := forall T pre post i j rp wp,
  T = pre ++ render 0 a ++ post -> i = length pre -> j = length pre + length (render 0 a) ->
  noop_tok (hd_tok post) ->
  exists N, forall n, N <= n ->
  parse_add_sub T n (mkPS i rp wp) = Ok (ROk (Some (embed a)), mkPS j rp wp).

Ltac side := subst; rewrite ?app_length; cbn [length app]; rewrite <- ?app_assoc; cbn [length app]; (reflexivity || lia).

Lemma mulchain_mulok a : MulChain a -> MulOK a.
Proof.
  intros H T pre post i j rp wp HT Hi Hj Hp. destruct (H T pre post i j rp wp HT Hi Hj) as (N & c & HN).
  exists (S (N + c + 1)). intros n Hn. destruct n as [|n]; [lia|].
  rewrite parse_mul_div_S, (HN n ltac:(lia)). replace (n - c) with (S (n - c - 1)) by lia.
  apply mul_loop_stop. subst T j. rewrite nth_post. exact Hp.
Qed.

Lemma addchain_addok a : AddChain a -> AddOK a.
Proof.
  intros H T pre post i j rp wp HT Hi Hj Hp.
  destruct (H T pre post i j rp wp HT Hi Hj (noop_nomul _ Hp)) as (N & c & HN).
  exists (S (N + c + 1)). intros n Hn. destruct n as [|n]; [lia|].
  rewrite parse_add_sub_S, (HN n ltac:(lia)). replace (n - c) with (S (n - c - 1)) by lia.
  apply add_loop_stop. subst T j. rewrite nth_post. apply noop_noadd. exact Hp.
Qed.

(* first token of a rendering *)
Lemma render_head a : forall lvl, exists t rest, render lvl a = t :: rest /\ t <> Not.
Proof.
  induction a as [[] ds|[] f|o l IHl r _]; intros lvl; cbn [render minus_tok app];
    try (eexists; eexists; split; [reflexivity|discriminate]).
  destruct (lvl <=? prec o); [|eexists; eexists; split; [reflexivity|discriminate]].
  destruct (IHl (prec o)) as (t & rest & E & Hn). rewrite E. cbn [app]. eexists; eexists; split; [reflexivity|exact Hn].
Qed.

Lemma nth_split {A} (T pre : list A) x rest i : T = pre ++ x :: rest -> i = length pre -> nth_error T i = Some x.
Proof. intros -> ->. apply nth_at. Qed.
Lemma nth_split_post {A} (T pre mid post : list A) j : T = pre ++ mid ++ post -> j = length pre + length mid ->
  nth_error T j = hd_error post.
Proof. intros -> ->. apply nth_post. Qed.

Ltac norm := repeat (rewrite <- ?app_assoc; cbn [length app]).
Ltac side ::= subst; rewrite ?app_length; norm; rewrite ?app_length; cbn [length]; (reflexivity || lia).

Lemma paren_atom a : render 2 a = [Open] ++ render 0 a ++ [Close] ->
  (forall st, cond_post st false (ROk (Some (embed a))) = ROk (Some (embed a))) -> AddOK a -> AtomOK a.
Proof.
  intros Hr Hpost HA T pre post i j rp wp HT Hi Hj. rewrite Hr in HT, Hj.
  assert (HT' : T = (pre ++ [Open]) ++ render 0 a ++ Close :: post) by side.
  assert (Hj' : j = S (length (pre ++ [Open]) + length (render 0 a))) by side.
  destruct (HA T (pre ++ [Open]) (Close :: post) (S i) (length (pre ++ [Open]) + length (render 0 a)) rp wp HT' ltac:(side) eq_refl I) as (N & HN).
  exists (S (S (S (S (S (S N)))))). intros n Hn. do 6 (destruct n as [|n]; [lia|]).
  assert (F1 : nth_error T i = Some Open) by (apply (nth_split T pre Open (render 0 a ++ Close :: post)); side).
  assert (F3 : nth_error T (length (pre ++ [Open]) + length (render 0 a)) = Some Close)
    by (rewrite (nth_split_post T _ _ _ _ HT' eq_refl); reflexivity).
  destruct (render_head a 0) as (t & rest & E & Hnot).
  assert (F2 : nth_error T (S i) = Some t).
  { apply (nth_split T (pre ++ [Open]) t (rest ++ Close :: post)); [rewrite HT', E; side|side]. }
  rewrite Hj'. apply paren_open; [exact F1| |exact F3].
  apply expr_of_add_sub; [apply HN; lia|rewrite F2; congruence|rewrite F3; exact I|apply Hpost].
Qed.

Lemma op_tok_from o : Arith_from [op_char o] = Some o. Proof. apply Arith_from_op_char. Qed.

Theorem roundtrip : forall a, wf a -> AtomOK a /\ MulChain a /\ AddChain a.
Proof.
  assert (atom_mul : forall a, render 1 a = render 2 a -> AtomOK a -> MulChain a).
  { intros a E A T pre post i j rp wp HT Hi Hj. rewrite E in HT, Hj.
    destruct (A T pre post i j rp wp HT Hi Hj) as (N & HN). exists N, 0. intros n Hn.
    rewrite (try_ok _ _ _ _ _ (HN n Hn)), Nat.sub_0_r. reflexivity. }
  assert (mul_add : forall a, render 0 a = render 1 a -> MulOK a -> AddChain a).
  { intros a E A T pre post i j rp wp HT Hi Hj Hp. rewrite E in HT, Hj.
    destruct (A T pre post i j rp wp HT Hi Hj Hp) as (N & HN). exists N, 0. intros n Hn.
    rewrite (try_ok _ _ _ _ _ (HN n Hn)), Nat.sub_0_r. reflexivity. }
  assert (atom_all : forall a, render 1 a = render 2 a -> render 0 a = render 1 a -> AtomOK a -> AtomOK a /\ MulChain a /\ AddChain a).
  { intros a E1 E0 A. pose proof (atom_mul a E1 A) as MC. split; [exact A|split; [exact MC|]].
    apply mul_add; [exact E0|apply mulchain_mulok; exact MC]. }
  induction a as [neg ds|neg f|o a IHa b IHb]; intros Hwf.
  - (* number *)
    apply atom_all; [reflexivity|reflexivity|]. destruct Hwf as [Hne Hd].
    intros T pre post i j rp wp HT Hi Hj. exists 2. intros n Hn. do 2 (destruct n as [|n]; [lia|]).
    destruct neg; cbn [render minus_tok app embed] in *.
    + assert (F1 : nth_error T i = Some (ArithmeticOperator [45%N])) by (apply (nth_split T pre _ (RawString ds :: post)); side).
      assert (F2 : nth_error T (S i) = Some (RawString ds)) by (apply (nth_split T (pre ++ [ArithmeticOperator [45%N]]) _ post); side).
      rewrite (paren_other T _ i rp wp _ F1) by discriminate.
      rewrite (fs_minus_raw T n i rp wp ds _ F1 F2 (scalar_of_digits true ds Hne Hd)). do 3 f_equal. side.
    + assert (F1 : nth_error T i = Some (RawString ds)) by (apply (nth_split T pre _ post); side).
      rewrite (paren_other T _ i rp wp _ F1) by discriminate.
      rewrite (fs_raw T n i rp wp ds _ F1 (scalar_of_digits false ds Hne Hd)). do 3 f_equal. side.
  - (* column *)
    apply atom_all; [reflexivity|reflexivity|].
    intros T pre post i j rp wp HT Hi Hj. exists 2. intros n Hn. do 2 (destruct n as [|n]; [lia|]).
    destruct neg; cbn [render minus_tok app embed] in *.
    + assert (F1 : nth_error T i = Some (ArithmeticOperator [45%N])) by (apply (nth_split T pre _ (RawString (field_key f) :: post)); side).
      assert (F2 : nth_error T (S i) = Some (RawString (field_key f))) by (apply (nth_split T (pre ++ [ArithmeticOperator [45%N]]) _ post); side).
      rewrite (paren_other T _ i rp wp _ F1) by discriminate.
      rewrite (fs_minus_raw T n i rp wp _ _ F1 F2 (scalar_of_key true f)). do 3 f_equal. side.
    + assert (F1 : nth_error T i = Some (RawString (field_key f))) by (apply (nth_split T pre _ post); side).
      rewrite (paren_other T _ i rp wp _ F1) by discriminate.
      rewrite (fs_raw T n i rp wp _ _ F1 (scalar_of_key false f)). do 3 f_equal. side.
  - destruct Hwf as [Hwa Hwb].
    destruct (IHa Hwa) as (IHa_atom & IHa_mul & IHa_add). destruct (IHb Hwb) as (IHb_atom & IHb_mul & IHb_add).
    destruct (is_addop o) eqn:Eo.
    + (* additive node *)
      assert (Hr0 : render 0 (ABin o a b) = render 0 a ++ [op_tok o] ++ render 1 b) by (cbn [render]; unfold prec; rewrite Eo; reflexivity).
      assert (Hr2 : render 2 (ABin o a b) = [Open] ++ render 0 (ABin o a b) ++ [Close]) by (cbn [render]; unfold prec; rewrite Eo; reflexivity).
      assert (Hr1 : render 1 (ABin o a b) = render 2 (ABin o a b)) by (cbn [render]; unfold prec; rewrite Eo; reflexivity).
      assert (AC : AddChain (ABin o a b)).
      { intros T pre post i j rp wp HT Hi Hj Hp. rewrite Hr0 in HT, Hj.
        destruct (IHa_add T pre ([op_tok o] ++ render 1 b ++ post) i (length pre + length (render 0 a)) rp wp ltac:(side) Hi eq_refl)
          as (N1 & c1 & H1); [cbn [app hd_tok hd_error op_tok nomul_tok]; rewrite op_tok_from; cbn [opt_is]; unfold is_mulop; now rewrite Eo|].
        destruct (mulchain_mulok _ IHb_mul T (pre ++ render 0 a ++ [op_tok o]) post (S (length pre + length (render 0 a))) j rp wp
                    ltac:(side) ltac:(side) ltac:(side) Hp) as (N2 & H2).
        exists (N1 + c1 + N2 + 1), (c1 + 1). intros n Hn.
        rewrite (H1 n ltac:(lia)). replace (n - c1) with (S (n - (c1 + 1))) by lia.
        apply (add_loop_step T _ _ _ rp wp [op_char o] o); [|apply op_tok_from|exact Eo|apply H2; lia].
        rewrite (nth_split_post T pre (render 0 a) ([op_tok o] ++ render 1 b ++ post) _ ltac:(side) eq_refl). reflexivity. }
      assert (AO := addchain_addok _ AC).
      assert (AT : AtomOK (ABin o a b)) by (apply paren_atom; [exact Hr2|reflexivity|exact AO]).
      split; [exact AT|split; [|exact AC]]. apply atom_mul; [exact Hr1|exact AT].
    + (* multiplicative node *)
      assert (Hr1 : render 1 (ABin o a b) = render 1 a ++ [op_tok o] ++ render 2 b) by (cbn [render]; unfold prec; rewrite Eo; reflexivity).
      assert (Hr0 : render 0 (ABin o a b) = render 1 (ABin o a b)) by (cbn [render]; unfold prec; rewrite Eo; reflexivity).
      assert (Hr2 : render 2 (ABin o a b) = [Open] ++ render 0 (ABin o a b) ++ [Close]) by (cbn [render]; unfold prec; rewrite Eo; reflexivity).
      assert (MC : MulChain (ABin o a b)).
      { intros T pre post i j rp wp HT Hi Hj. rewrite Hr1 in HT, Hj.
        destruct (IHa_mul T pre ([op_tok o] ++ render 2 b ++ post) i (length pre + length (render 1 a)) rp wp ltac:(side) Hi eq_refl)
          as (N1 & c1 & H1).
        destruct (IHb_atom T (pre ++ render 1 a ++ [op_tok o]) post (S (length pre + length (render 1 a))) j rp wp
                    ltac:(side) ltac:(side) ltac:(side)) as (N2 & H2).
        exists (N1 + c1 + N2 + 1), (c1 + 1). intros n Hn.
        rewrite (H1 n ltac:(lia)). replace (n - c1) with (S (n - (c1 + 1))) by lia.
        apply (mul_loop_step T _ _ _ rp wp [op_char o] o); [|apply op_tok_from|unfold is_mulop; now rewrite Eo|apply H2; lia].
        rewrite (nth_split_post T pre (render 1 a) ([op_tok o] ++ render 2 b ++ post) _ ltac:(side) eq_refl). reflexivity. }
      assert (MO := mulchain_mulok _ MC).
      assert (AC : AddChain (ABin o a b)) by (apply mul_add; [exact Hr0|exact MO]).
      assert (AO := addchain_addok _ AC).
      split; [|split; [exact MC|exact AC]]. apply paren_atom; [exact Hr2|reflexivity|exact AO].
Qed.

(* ---------- the main statements ---------- *)
Definition post_ok (post : list lexem) : Prop :=
  match post with ArithmeticOperator _ :: _ => False | _ => True end.

Theorem arith_roundtrip : forall a pre post rp wp, wf a -> post_ok post ->
  exists N, forall n, N <= n ->
  parse_add_sub (pre ++ render 0 a ++ post) n (mkPS (length pre) rp wp)
  = Ok (ROk (Some (embed a)), mkPS (length pre + length (render 0 a)) rp wp).
Proof.
  intros a pre post rp wp Hwf Hp. destruct (roundtrip a Hwf) as (_ & _ & AC).
  apply (addchain_addok _ AC _ pre post _ _ rp wp eq_refl eq_refl eq_refl).
  destruct post as [|[] ?]; cbn in *; tauto.
Qed.

Print Assumptions arith_roundtrip.
