(* Finite-domain cross-check of the size rendering (every size below 2^16 and all 2^k-1, 2^k, 2^k+1), by computation.
   Superseded by proofs/SizeGeneral*.v (all u64 sizes); kept as an independent sanity check outside every property's closure. *)
From Coq Require Import String ZArith NArith List Bool Lia Sorted.
From FS Require Import lib.Str lib.Res lib.Dec lib.Fin lib.SoftF64 gen.SizeGen model.Size spec.SizeSpec.
Import ListNotations.
Open Scope Z_scope.
From FS Require Import proofs.SizeProofs.
Fixpoint range_Z (k : nat) (from : Z) : list Z :=
  match k with O => [] | S k' => from :: range_Z k' (from + 1) end.

Definition grid : list N :=
  all16 ++ [65536; 65537]%N ++
  flat_map (fun k => [2 ^ k - 1; 2 ^ k; 2 ^ k + 1]%N) (map Z.to_N (range_Z 47 17)) ++
  [18446744073709551615%N].

Fixpoint sorted_by {A} (le : A -> A -> bool) (l : list A) : bool :=
  match l with
  | a :: (b :: _) as r => le a b && sorted_by le r
  | _ => true
  end.

(* one pass, the text rendered once per size:
   (n, accurate and (round trip or beyond parse_filesize's units), value) *)
Definition grid_info (n : N) : N * bool * Z :=
  let t := render n in
  (n, accurate_text t n && ((1125899906842624 <=? n)%N || roundtrips_text t n), centibytes_of t).

Definition info_le (a b : N * bool * Z) : bool := (fst (fst a) <? fst (fst b))%N && (snd a <=? snd b).

Definition grid_check : bool :=
  let infos := map grid_info grid in
  forallb (fun i => snd (fst i)) infos && sorted_by info_le infos.

Lemma grid_check_true : grid_check = true.
Proof. vm_cast_no_check (eq_refl true). Qed.

(* keep the kernel from unfolding the models when it re-checks the projections below *)
Strategy opaque [render accurate_text roundtrips_text centibytes_of parse_filesize format_filesize].

Lemma grid_info_ok n : In n grid -> accurate n = true /\ ((n < 1125899906842624)%N -> roundtrips n = true).
Proof.
  intros Hin. pose proof grid_check_true as H. unfold grid_check in H. cbv zeta in H.
  apply andb_true_iff in H. destruct H as [H _]. rewrite forallb_forall in H.
  specialize (H (grid_info n) (in_map grid_info grid n Hin)). cbn [grid_info fst snd] in H.
  unfold grid_info in H. cbv zeta in H. cbn [fst snd] in H.
  apply andb_true_iff in H. destruct H as [Ha Hr]. split; [exact Ha|].
  intros Hlt. apply orb_true_iff in Hr. destruct Hr as [Hr|Hr]; [|exact Hr].
  apply N.leb_le in Hr. lia.
Qed.

Theorem format_accurate_grid n : In n grid -> accurate n = true.
Proof. intros H. apply (grid_info_ok n H). Qed.

(* 2^50 = 1125899906842624: from 1 PiB on the rendering uses PiB / EiB, which parse_filesize
   does not know (see roundtrip_fails_from_1PiB) *)
Theorem format_roundtrip_grid n : In n grid -> (n < 2 ^ 50)%N -> roundtrips n = true.
Proof. intros H. apply (grid_info_ok n H). Qed.

Lemma sorted_by_Sorted {A} (le : A -> A -> bool) l :
  sorted_by le l = true -> Sorted (fun a b => le a b = true) l.
Proof.
  induction l as [|a l IH]; intros H; [constructor|].
  destruct l as [|b l]; [repeat constructor|].
  cbn [sorted_by] in H. apply andb_true_iff in H. destruct H as [H1 H2].
  constructor; [apply IH; exact H2|constructor; exact H1].
Qed.

Lemma StronglySorted_map_inv {A B} (f : A -> B) (R : B -> B -> Prop) l :
  StronglySorted R (map f l) -> StronglySorted (fun a b => R (f a) (f b)) l.
Proof.
  induction l as [|a l IH]; intros H; [constructor|].
  cbn [map] in H. inversion H as [|? ? Hs Hf]; subst. constructor; [apply IH; exact Hs|].
  rewrite Forall_map in Hf. exact Hf.
Qed.

Lemma strongly_sorted_pairs (P : N -> N -> Prop) l :
  StronglySorted (fun a b => (a < b)%N /\ P a b) l ->
  forall a b, In a l -> In b l -> (a < b)%N -> P a b.
Proof.
  induction 1 as [|x l Hs IH Hf]; intros a b Ha Hb Hlt; [contradiction|].
  rewrite Forall_forall in Hf.
  destruct Ha as [<-|Ha], Hb as [<-|Hb].
  - lia.
  - apply (Hf b Hb).
  - pose proof (Hf a Ha) as [Hxa _]. lia.
  - now apply IH.
Qed.

Lemma StronglySorted_impl {A} (R R' : A -> A -> Prop) l :
  (forall a b, R a b -> R' a b) -> StronglySorted R l -> StronglySorted R' l.
Proof.
  intros Himp. induction 1 as [|x l Hs IH Hf]; constructor; [exact IH|].
  eapply Forall_impl; [|exact Hf]. intros b. apply Himp.
Qed.

Lemma grid_strongly_sorted :
  StronglySorted (fun a b => (a < b)%N /\ rendered_centibytes a <= rendered_centibytes b) grid.
Proof.
  pose proof grid_check_true as H. unfold grid_check in H. cbv zeta in H.
  apply andb_true_iff in H. destruct H as [_ H].
  apply sorted_by_Sorted in H. apply Sorted_StronglySorted in H.
  - apply StronglySorted_map_inv in H. revert H. apply StronglySorted_impl.
    intros a b Hab. unfold info_le, grid_info in Hab. cbv zeta in Hab. cbn [fst snd] in Hab.
    apply andb_true_iff in Hab. destruct Hab as [A1 A2]. apply N.ltb_lt in A1. apply Z.leb_le in A2.
    split; assumption.
  - intros a b c Hab Hbc. unfold info_le in *.
    apply andb_true_iff in Hab. apply andb_true_iff in Hbc. destruct Hab as [A1 A2], Hbc as [B1 B2].
    apply N.ltb_lt in A1, B1. apply Z.leb_le in A2, B2.
    apply andb_true_iff. split; [apply N.ltb_lt|apply Z.leb_le]; lia.
Qed.

(* rendering is monotone in the size (value of the rendered text, in 1/100 byte) *)
Theorem format_monotone_grid a b :
  In a grid -> In b grid -> (a <= b)%N -> rendered_centibytes a <= rendered_centibytes b.
Proof.
  intros Ha Hb Hle. destruct (N.eq_dec a b) as [->|Hne]; [lia|].
  apply (strongly_sorted_pairs (fun a b => rendered_centibytes a <= rendered_centibytes b) grid
           grid_strongly_sorted a b Ha Hb). lia.
Qed.

Lemma small_in_grid n : (n < 65536)%N -> In n grid.
Proof. intros H. unfold grid. apply in_or_app. left. apply (below_pow2_complete 16). exact H. Qed.

(* the same three facts for EVERY size below 2^16 *)
Theorem format_roundtrip_below_2_16 n : (n < 65536)%N -> accurate n = true /\ roundtrips n = true.
Proof.
  intros H. pose proof (small_in_grid n H) as Hin. split; [now apply format_accurate_grid|].
  apply format_roundtrip_grid; [exact Hin|]. change (2 ^ 50)%N with 1125899906842624%N. lia.
Qed.

Theorem format_monotone_below_2_16 a b :
  (a <= b)%N -> (b < 65536)%N -> rendered_centibytes a <= rendered_centibytes b.
Proof. intros H1 H2. apply format_monotone_grid; try apply small_in_grid; lia. Qed.

Lemma in_grid_dec n : existsb (N.eqb n) grid = true -> In n grid.
Proof. intros H. apply existsb_exists in H. destruct H as [x [Hx E]]. apply N.eqb_eq in E. now subst. Qed.

Example grid_members :
  In 4294967295%N grid /\ In 4294967296%N grid /\ In 4294967297%N grid /\
  In 9223372036854775809%N grid /\ In 18446744073709551615%N grid.
Proof. repeat apply conj; apply in_grid_dec; vm_compute; reflexivity. Qed.

Example grid_size : N.of_nat (length grid) = 65680%N.
Proof. vm_compute. reflexivity. Qed.

(* FINDING (why the round trip stops at 2^50): format_size renders PiB and EiB, which
   parse_filesize cannot read back ("1pib" ends in "b": u64 rung, "1pi" is not a number) *)
Example roundtrip_fails_from_1PiB :
  render 1125899906842623 = s "1024.00TiB" /\ parse_filesize (s "1024.00TiB") = Some 1125899906842624%N /\
  render 1125899906842624 = s "1PiB" /\ parse_filesize (s "1PiB") = None /\
  render 18446744073709551615 = s "16EiB" /\ parse_filesize (s "16EiB") = None.
Proof. vm_compute. repeat split; reflexivity. Qed.

(* the +1 byte in [roundtrips] is needed: "1.04KiB" reads back as trunc(1064.96) = 1064 *)
Example roundtrip_truncation_byte :
  render 1070 = s "1.04KiB" /\ parse_filesize (s "1.04KiB") = Some 1064%N /\
  accurate 1070 = true /\ roundtrips 1070 = true.
Proof. vm_compute. repeat split; reflexivity. Qed.

Example monotone_ex : rendered_centibytes 1023 = 102300 /\ rendered_centibytes 1024 = 102400 /\
  rendered_centibytes 1029 = 102400 /\ rendered_centibytes 1030 = 103424 /\
  rendered_centibytes 1048575 = 104857600 /\ rendered_centibytes 1048576 = 104857600.
Proof. vm_compute. repeat split; reflexivity. Qed.
