(* C03: NOT is the complement.  Op_negate and the typed comparison tables are regenerated
   from operators.rs / searcher.rs on every run. *)
From Coq Require Import List ZArith Bool Lia ZifyBool.
From FS Require Import lib.Str gen.OpsGen gen.CmpGen.
Import ListNotations.
Open Scope Z_scope.

Lemma negate_involutive : forall o, Op_negate (Op_negate o) = o.
Proof. destruct o; reflexivity. Qed.

(* the operators that have an arm in the numeric / boolean / date tables *)
Definition ordered_op (o : Op) : bool :=
  match o with OpEq | OpNe | OpEeq | OpEne | OpGt | OpGte | OpLt | OpLte => true | _ => false end.

Lemma negate_keeps_ordered o : ordered_op (Op_negate o) = ordered_op o.
Proof. destruct o; reflexivity. Qed.

Lemma negate_complement_int : forall o x y, ordered_op o = true -> cmp_int (Op_negate o) x y = negb (cmp_int o x y).
Proof. intros o x y H. destruct o; try discriminate H; cbn [cmp_int cmp_float_as_Z cmp_boolZ Op_negate]; lia. Qed.

Lemma negate_complement_float_table : forall o x y, ordered_op o = true -> cmp_float_as_Z (Op_negate o) x y = negb (cmp_float_as_Z o x y).
Proof. intros o x y H. destruct o; try discriminate H; cbn [cmp_int cmp_float_as_Z cmp_boolZ Op_negate]; lia. Qed.

Lemma negate_complement_bool : forall o x y, ordered_op o = true -> cmp_boolZ (Op_negate o) x y = negb (cmp_boolZ o x y).
Proof. intros o x y H. destruct o; try discriminate H; cbn [cmp_int cmp_float_as_Z cmp_boolZ Op_negate]; lia. Qed.

Lemma negate_complement_dt : forall o x a b, ordered_op o = true -> cmp_dt (Op_negate o) x a b = negb (cmp_dt o x a b).
Proof. intros o x a b H. destruct o; try discriminate H; cbn [cmp_dt Op_negate]; lia. Qed.

(* operators outside a type's table are false in both polarities (so NOT is not a complement there:
   the property restricts itself to well-typed conditions) *)
Lemma untyped_ops_false : forall o x y, ordered_op o = false -> cmp_int o x y = false /\ cmp_int (Op_negate o) x y = false.
Proof. intros o x y H. destruct o; try discriminate H; split; reflexivity. Qed.

(* ---- conditions: atoms combined with AND / OR; negation as Parser::negate_expr_op does it:
        negate every comparison operator and swap AND with OR ---- *)
Section Cond.
Variable A : Type.                       (* what an atom compares (column, literal, ...) *)
Variable asem : Op -> A -> bool.         (* truth of `a` under operator o, for the entry at hand *)

Inductive cond := Atom (o : Op) (a : A) | CAnd (l r : cond) | COr (l r : cond).

Fixpoint negate (c : cond) : cond :=
  match c with
  | Atom o a => Atom (Op_negate o) a
  | CAnd l r => COr (negate l) (negate r)
  | COr l r => CAnd (negate l) (negate r)
  end.

Fixpoint sem (c : cond) : bool :=
  match c with
  | Atom o a => asem o a
  | CAnd l r => sem l && sem r       (* the short-circuit of conforms computes exactly && *)
  | COr l r => sem l || sem r
  end.

(* every atom is well-typed: its operator's negation is its complement *)
Fixpoint well_typed (c : cond) : Prop :=
  match c with
  | Atom o a => asem (Op_negate o) a = negb (asem o a)
  | CAnd l r | COr l r => well_typed l /\ well_typed r
  end.

Theorem not_is_complement : forall c, well_typed c -> sem (negate c) = negb (sem c).
Proof.
  induction c as [o a|l IHl r IHr|l IHl r IHr]; cbn; intros H.
  - exact H.
  - destruct H as [Hl Hr]. rewrite IHl, IHr by assumption. now rewrite negb_andb.
  - destruct H as [Hl Hr]. rewrite IHl, IHr by assumption. now rewrite negb_orb.
Qed.

Lemma negate_well_typed : forall c, well_typed c -> well_typed (negate c).
Proof.
  induction c as [o a|l IHl r IHr|l IHl r IHr]; cbn; intros H.
  - rewrite negate_involutive, H. now rewrite negb_involutive.
  - destruct H; split; auto.
  - destruct H; split; auto.
Qed.

Theorem double_negation : forall c, negate (negate c) = c.
Proof. induction c as [o a|l IHl r IHr|l IHl r IHr]; cbn; rewrite ?negate_involutive, ?IHl, ?IHr; reflexivity. Qed.

Theorem de_morgan_and : forall l r, well_typed l -> well_typed r ->
  sem (negate (CAnd l r)) = negb (sem l) || negb (sem r).
Proof. intros l r Hl Hr. cbn. now rewrite !not_is_complement. Qed.
Theorem de_morgan_or : forall l r, well_typed l -> well_typed r ->
  sem (negate (COr l r)) = negb (sem l) && negb (sem r).
Proof. intros l r Hl Hr. cbn. now rewrite !not_is_complement. Qed.
End Cond.

(* BETWEEN and NOT BETWEEN as the parser desugars them (integers) *)
Definition between (x a b : Z) : bool := cmp_int OpGte x a && cmp_int OpLte x b.
Definition not_between (x a b : Z) : bool := cmp_int OpLt x a || cmp_int OpGt x b.
Lemma between_inclusive x a b : between x a b = (a <=? x) && (x <=? b).
Proof. unfold between. cbn [cmp_int]. reflexivity. Qed.
Lemma not_between_complement x a b : not_between x a b = negb (between x a b).
Proof. unfold not_between, between. cbn [cmp_int]. lia. Qed.
