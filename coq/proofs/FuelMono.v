(* Fuel monotonicity of the expression grammar of model/Parser.v: once a call does not answer
   OutOfFuel, every larger fuel gives the same answer.  Together with proofs/ParserTotal.v
   (the model's own fuel never runs out) this turns the "for every sufficiently large fuel"
   of the round-trip theorems into statements about `pfuel`, the fuel the model computes. *)
From Coq Require Import String List NArith Bool Arith Lia.
From FS Require Import lib.Str lib.Res lib.Dec gen.OpsGen gen.FieldGen gen.FuncGen
  model.Show model.Lexer model.Expr model.Parser proofs.ParserEqs.
Import ListNotations.
Open Scope nat_scope.

Definition le {A} (m m' : M A) : Prop := forall st, m st <> OutOfFuel -> m' st = m st.

Lemma le_refl {A} (m : M A) : le m m.
Proof. intros st _. reflexivity. Qed.
Lemma le_trans {A} (m1 m2 m3 : M A) : le m1 m2 -> le m2 m3 -> le m1 m3.
Proof. intros H1 H2 st H. rewrite H2; rewrite (H1 st H); auto. Qed.
Lemma le_bind {A B} (m m' : M A) (f f' : A -> M B) :
  le m m' -> (forall a, le (f a) (f' a)) -> le (bindM m f) (bindM m' f').
Proof.
  intros Hm Hf st H. unfold bindM in *.
  assert (Hn : m st <> OutOfFuel) by (intros E; rewrite E in H; congruence).
  rewrite (Hm st Hn). destruct (m st) as [[a st1]| | | |]; try reflexivity. now apply Hf.
Qed.
Lemma le_try {A B} (m m' : M (rr A)) (f f' : A -> M (rr B)) :
  le m m' -> (forall a, le (f a) (f' a)) -> le (tryM m f) (tryM m' f').
Proof. intros Hm Hf. unfold tryM. apply le_bind; [exact Hm|]. intros [a|e]; [apply Hf|apply le_refl]. Qed.
Lemma le_oof {A} (m : M A) : le oof m.
Proof. intros st H. exfalso. apply H. reflexivity. Qed.

Section Mono.
Variable T : list lexem.

Record Mono (k : nat) : Prop := mkMono {
  m_expr  : le (parse_expr T k) (parse_expr T (S k));
  m_eloop : forall lft rgt, le (expr_loop T k lft rgt) (expr_loop T (S k) lft rgt);
  m_and   : le (parse_and T k) (parse_and T (S k));
  m_aloop : forall lft rgt, le (and_loop T k lft rgt) (and_loop T (S k) lft rgt);
  m_cond  : le (parse_cond T k) (parse_cond T (S k));
  m_nots  : forall neg, le (cond_nots T k neg) (cond_nots T (S k) neg);
  m_body  : forall neg, le (cond_body T k neg) (cond_body T (S k) neg);
  m_add   : le (parse_add_sub T k) (parse_add_sub T (S k));
  m_addl  : forall lft, le (add_sub_loop T k lft) (add_sub_loop T (S k) lft);
  m_mul   : le (parse_mul_div T k) (parse_mul_div T (S k));
  m_mull  : forall lft, le (mul_div_loop T k lft) (mul_div_loop T (S k) lft);
  m_paren : le (parse_paren T k) (parse_paren T (S k));
  m_fs    : le (parse_func_scalar T k) (parse_func_scalar T (S k));
  m_fn    : forall fn, le (parse_function T k fn) (parse_function T (S k) fn);
  m_args  : forall fe cm args, le (function_args_loop T k fe cm args) (function_args_loop T (S k) fe cm args) }.

Lemma mono_0 : Mono 0.
Proof. constructor; intros; apply le_oof. Qed.

Ltac auto_le H :=
  repeat first
    [ apply (m_expr _ H) | apply (m_eloop _ H) | apply (m_and _ H) | apply (m_aloop _ H) | apply (m_cond _ H)
    | apply (m_nots _ H) | apply (m_body _ H) | apply (m_add _ H) | apply (m_addl _ H) | apply (m_mul _ H)
    | apply (m_mull _ H) | apply (m_paren _ H) | apply (m_fs _ H) | apply (m_fn _ H) | apply (m_args _ H)
    | apply le_try | apply le_bind
    | match goal with |- forall _, _ => intro end
    | apply le_refl
    | match goal with |- le (if ?c then _ else _) _ => destruct c end
    | match goal with |- le (match ?x with _ => _ end) _ => destruct x end ].

Lemma mono_S k : Mono k -> Mono (S k).
Proof.
  intros H. constructor.
  - rewrite (parse_expr_S T k), (parse_expr_S T (S k)). auto_le H.
  - intros lft rgt. rewrite (expr_loop_S T k), (expr_loop_S T (S k)). auto_le H.
  - rewrite (parse_and_S T k), (parse_and_S T (S k)). auto_le H.
  - intros lft rgt. rewrite (and_loop_S T k), (and_loop_S T (S k)). auto_le H.
  - rewrite (parse_cond_S T k), (parse_cond_S T (S k)). auto_le H.
  - intros neg. rewrite (cond_nots_S T k), (cond_nots_S T (S k)). auto_le H.
  - intros neg. rewrite (cond_body_S T k), (cond_body_S T (S k)). auto_le H.
  - rewrite (parse_add_sub_S T k), (parse_add_sub_S T (S k)). auto_le H.
  - intros lft. rewrite (add_sub_loop_S T k), (add_sub_loop_S T (S k)). auto_le H.
  - rewrite (parse_mul_div_S T k), (parse_mul_div_S T (S k)). auto_le H.
  - intros lft. rewrite (mul_div_loop_S T k), (mul_div_loop_S T (S k)). auto_le H.
  - rewrite (parse_paren_S T k), (parse_paren_S T (S k)). auto_le H.
  - rewrite (parse_func_scalar_S T k), (parse_func_scalar_S T (S k)). auto_le H.
  - intros fn. rewrite (parse_function_S T k), (parse_function_S T (S k)). cbv zeta. auto_le H.
  - intros fe cm args. rewrite (function_args_loop_S T k), (function_args_loop_S T (S k)). auto_le H.
Qed.

Lemma mono_k k : Mono k.
Proof. induction k as [|k IH]; [exact mono_0|exact (mono_S k IH)]. Qed.

Lemma le_up {A} (f : nat -> M A) : (forall k, le (f k) (f (S k))) -> forall k k', k <= k' -> le (f k) (f k').
Proof.
  intros H k k' Hk. induction Hk as [|k' Hk IH]; [apply le_refl|]. eapply le_trans; [exact IH|apply H].
Qed.

Theorem parse_expr_mono : forall k k', k <= k' -> le (parse_expr T k) (parse_expr T k').
Proof. apply le_up. intros k. apply (m_expr k (mono_k k)). Qed.
Theorem parse_add_sub_mono : forall k k', k <= k' -> le (parse_add_sub T k) (parse_add_sub T k').
Proof. apply le_up. intros k. apply (m_add k (mono_k k)). Qed.

End Mono.

Print Assumptions parse_expr_mono.
Print Assumptions parse_add_sub_mono.
