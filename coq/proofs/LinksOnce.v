(* C18, "exactly once": no inode is marked twice, no spelled path is recorded twice and - on a
   well-formed graph - read_dir is attempted at most once per directory inode (ghost list l_ent),
   however many links or paths lead to it.  Holds for every graph (cycles included), all gates, limits, orders. *)
From Coq Require Import List NArith Bool Lia Permutation.
From FS Require Import lib.Str gen.GatesGen model.Walk model.WalkLinks proofs.LinksBase.
Import ListNotations.
Open Scope N_scope.

(* ---------- well-formedness: what readdir/lstat always guarantee ---------- *)
(* a directory entry's own inode (lstat) is the inode of the directory it names *)
Definition wf_dent (e : dent) : bool :=
  match d_kind e with KDir j => d_ino e =? j | _ => true end.
Definition wf_graph (g : fsgraph) : bool := forallb (fun x => forallb wf_dent (snd (snd x))) g.

Lemma wf_listing (g : fsgraph) (i : N) (b : bool) (es : list dent) :
  wf_graph g = true -> listing g i = Some (b, es) -> forallb wf_dent es = true.
Proof.
  induction g as [|[j l] r IH]; cbn [listing wf_graph forallb snd]; [discriminate|].
  intros Hw H. apply andb_true_iff in Hw. destruct Hw as [Hw1 Hw2].
  destruct (i =? j).
  - injection H as ->. exact Hw1.
  - now apply IH.
Qed.

Lemma wf_ents_of (g : fsgraph) (i : N) (es : list dent) (e : dent) :
  wf_graph g = true -> ents_of g i = Some es -> In e es -> wf_dent e = true.
Proof.
  unfold ents_of. intros Hw H Hin.
  destruct (listing g i) as [[[|] es']|] eqn:El; try discriminate. injection H as ->.
  pose proof (wf_listing g i true es Hw El) as Hf. rewrite forallb_forall in Hf. now apply Hf.
Qed.

Lemma etarget_wf (dir canon : str) (e : dent) (key : N) (it : item) :
  wf_dent e = true -> etarget dir canon e = Some (key, it) -> key = it_ino it.
Proof.
  unfold wf_dent, etarget. destruct (d_kind e) as [|j|t [[j tc]|]]; intros Hw H; try discriminate.
  - injection H as <- <-. cbn [it_ino snd]. now apply N.eqb_eq.
  - injection H as <- <-. reflexivity.
Qed.

(* ---------- the invariants ---------- *)
Definition vinv (s : lst) : Prop := NoDup (l_vis s) /\ NoDup (l_vdirs s).

Definition once_inv (s : lst) : Prop :=
  NoDup (l_vis s) /\ NoDup (l_vdirs s) /\
  NoDup (l_ent s ++ qinos s) /\ incl (l_ent s ++ qinos s) (l_vis s).

Lemma NoDup_snoc {A : Type} (l : list A) (x : A) : NoDup l -> ~ In x l -> NoDup (l ++ [x]).
Proof.
  intros Hn Hx. apply (Permutation_NoDup (l := x :: l)).
  - apply Permutation_cons_append.
  - now constructor.
Qed.

Lemma NoDup_app_left {A : Type} (a b : list A) : NoDup (a ++ b) -> NoDup a.
Proof.
  induction a as [|x a IH]; cbn [app]; intro H; [constructor|].
  inversion H as [|y l Hx Hn]; subst. constructor; [|now apply IH].
  intro Hin. apply Hx. apply in_or_app. now left.
Qed.

Section Once.
Variables (g : fsgraph) (mn mx : N) (limit : N).

Lemma rep_core (dir : str) (depth : N) (e : dent) (s : lst) :
  l_vis (rep mn dir depth e s) = l_vis s /\ l_vdirs (rep mn dir depth e s) = l_vdirs s /\
  l_ent (rep mn dir depth e s) = l_ent s /\ l_queue (rep mn dir depth e s) = l_queue s.
Proof. unfold rep. destruct (gate_report mn depth); repeat split; reflexivity. Qed.

Lemma once_inv_core (s t : lst) :
  l_vis t = l_vis s -> l_vdirs t = l_vdirs s -> l_ent t = l_ent s -> l_queue t = l_queue s ->
  once_inv s -> once_inv t.
Proof. unfold once_inv, qinos. intros -> -> -> ->. exact (fun H => H). Qed.

Lemma once_rep (dir : str) (depth : N) (e : dent) (s : lst) : once_inv s -> once_inv (rep mn dir depth e s).
Proof. destruct (rep_core dir depth e s) as [H1 [H2 [H3 H4]]]. now apply once_inv_core. Qed.

Lemma once_add_vis (s : lst) (k : N) :
  once_inv s -> ~ In k (l_vis s) ->
  once_inv (add_vis s k) /\ In k (l_vis (add_vis s k)) /\ ~ In k (l_ent (add_vis s k) ++ qinos (add_vis s k)).
Proof.
  intros [Hv [Hd [He Hi]]] Hk. unfold once_inv, qinos. cbn [add_vis l_vis l_vdirs l_ent l_queue].
  repeat split; try assumption.
  - now constructor.
  - intros x Hx. right. now apply Hi.
  - now left.
  - intro Hx. apply Hk. now apply Hi.
Qed.

Lemma once_push (s : lst) (it : item) :
  once_inv s -> In (it_ino it) (l_vis s) -> ~ In (it_ino it) (l_ent s ++ qinos s) -> once_inv (push_q s it).
Proof.
  intros [Hv [Hd [He Hi]]] Hin Hni. unfold once_inv, qinos in *. cbn [push_q l_vis l_vdirs l_ent l_queue].
  rewrite map_app, app_assoc. cbn [map]. repeat split; try assumption.
  - now apply NoDup_snoc.
  - intros x Hx. apply in_app_or in Hx. destruct Hx as [Hx|[<-|[]]]; [now apply Hi|assumption].
Qed.

Lemma once_enter (s : lst) (dir : str) (i : N) :
  once_inv s -> In i (l_vis s) -> ~ In i (l_ent s ++ qinos s) -> ~ In dir (l_vdirs s) ->
  once_inv (add_ent (add_vdir s dir) i).
Proof.
  intros [Hv [Hd [He Hi]]] Hin Hni Hnd. unfold once_inv, qinos in *.
  cbn [add_ent add_vdir l_vis l_vdirs l_ent l_queue]. repeat split; try assumption.
  - now constructor.
  - cbn [app]. now constructor.
  - intros x [<-|Hx]; [assumption|now apply Hi].
Qed.

Lemma once_pop (s : lst) (it : item) (rest : list item) :
  once_inv s -> l_queue s = it :: rest ->
  once_inv (set_q s rest) /\ In (it_ino it) (l_vis (set_q s rest)) /\
  ~ In (it_ino it) (l_ent (set_q s rest) ++ qinos (set_q s rest)).
Proof.
  intros [Hv [Hd [He Hi]]] Eq. unfold once_inv, qinos in *. rewrite Eq in He, Hi. cbn [map] in He, Hi.
  cbn [set_q l_vis l_vdirs l_ent l_queue].
  pose proof (NoDup_remove _ _ _ He) as [Hn1 Hn2].
  repeat split; try assumption.
  - intros x Hx. apply Hi. apply in_app_or in Hx. apply in_or_app. destruct Hx; [now left|right; now right].
  - apply Hi. apply in_or_app. right. now left.
Qed.

Definition once_spec (visit : str -> str -> N -> N -> lst -> option lst) : Prop :=
  forall p c j b s s', once_inv s -> In j (l_vis s) -> ~ In j (l_ent s ++ qinos s) ->
                       visit p c j b s = Some s' -> once_inv s'.

Lemma lloop_once (dfs : bool) (visit : str -> str -> N -> N -> lst -> option lst) (dir canon : str) (depth base : N)
  (Hvisit : once_spec visit) :
  forall (es : list dent) (s s' : lst),
    lloop mn mx dfs limit visit dir canon depth base es s = Some s' ->
    (forall e, In e es -> wf_dent e = true) -> once_inv s -> once_inv s'.
Proof.
  apply (lloop_rule mn mx dfs limit visit dir canon depth base
           (fun es s s' => (forall e, In e es -> wf_dent e = true) -> once_inv s -> once_inv s')).
  - intros s _ H. exact H.
  - intros e es s _ _ H. exact H.
  - intros e es s s' _ _ _ IH Hwf H. apply IH; [intros e' He'; apply Hwf; now right|now apply once_rep].
  - intros e es s s' key it _ _ _ _ _ IH Hwf H. apply IH; [intros e' He'; apply Hwf; now right|now apply once_rep].
  - intros e es s s3 s' key it _ _ Et Hni _ Hv _ IH Hwf H.
    assert (Hk : key = it_ino it) by (apply (etarget_wf dir canon e); [apply Hwf; now left|assumption]).
    subst key.
    destruct (once_add_vis (rep mn dir depth e s) (it_ino it) (once_rep dir depth e s H) Hni) as [H2 [Hin2 Hni2]].
    apply IH; [intros e' He'; apply Hwf; now right|].
    exact (Hvisit _ _ _ _ _ _ H2 Hin2 Hni2 Hv).
  - intros e es s s' key it _ _ Et Hni _ _ IH Hwf H.
    assert (Hk : key = it_ino it) by (apply (etarget_wf dir canon e); [apply Hwf; now left|assumption]).
    subst key.
    destruct (once_add_vis (rep mn dir depth e s) (it_ino it) (once_rep dir depth e s H) Hni) as [H2 [Hin2 Hni2]].
    apply IH; [intros e' He'; apply Hwf; now right|].
    now apply once_push.
Qed.

Hypothesis Hwf : wf_graph g = true.

Lemma lvisit_once (dfs : bool) : forall f : nat, once_spec (lvisit g mn mx dfs limit f).
Proof.
  induction f as [|f IH]; intros dir canon i rd s s' H Hin Hni Hv; [discriminate|].
  rewrite lvisit_S in Hv.
  destruct (existsb (str_eqb dir) (l_vdirs s)) eqn:Ed.
  { now injection Hv as <-. }
  apply memS_false in Ed.
  pose proof (once_enter s dir i H Hin Hni Ed) as H1.
  destruct (ents_of g i) as [ents|] eqn:Ee.
  - revert Hv. intro Hv. apply (lloop_once dfs _ _ _ _ _ IH ents _ _ Hv); [|exact H1].
    intros e He. now apply (wf_ents_of g i ents).
  - injection Hv as <-. revert H1. now apply once_inv_core.
Qed.

Lemma ldrain_once (dfs : bool) : forall (f : nat) (base : N) (s s' : lst),
  once_inv s -> ldrain g mn mx dfs limit f base s = Some s' -> once_inv s' /\ l_queue s' = [].
Proof.
  induction f as [|f IH]; intros base s s' H Hd; [discriminate|].
  rewrite ldrain_S in Hd. destruct (l_queue s) as [|it rest] eqn:Eq.
  { injection Hd as <-. now split. }
  destruct (lvisit g mn mx dfs limit f (it_path it) (it_canon it) (it_ino it) base (set_q s rest)) as [s2|] eqn:Ev; [|discriminate].
  destruct (once_pop s it rest H Eq) as [H1 [Hin1 Hni1]].
  apply (IH base s2 s'); [|assumption].
  exact (lvisit_once dfs f _ _ _ _ _ _ H1 Hin1 Hni1 Ev).
Qed.
End Once.

(* ---------- without any hypothesis on the graph: marks and spelled paths are never repeated ---------- *)
Section Vinv.
Variables (g : fsgraph) (mn mx : N) (limit : N).

Lemma vinv_core (s t : lst) : l_vis t = l_vis s -> l_vdirs t = l_vdirs s -> vinv s -> vinv t.
Proof. unfold vinv. intros -> ->. exact (fun H => H). Qed.

Lemma vinv_rep (dir : str) (depth : N) (e : dent) (s : lst) : vinv s -> vinv (rep mn dir depth e s).
Proof. destruct (rep_core mn dir depth e s) as [H1 [H2 _]]. now apply vinv_core. Qed.

Lemma lloop_vinv (dfs : bool) (visit : str -> str -> N -> N -> lst -> option lst) (dir canon : str) (depth base : N)
  (Hvisit : forall p c j b s s', vinv s -> visit p c j b s = Some s' -> vinv s') :
  forall (es : list dent) (s s' : lst),
    lloop mn mx dfs limit visit dir canon depth base es s = Some s' -> vinv s -> vinv s'.
Proof.
  apply (lloop_rule mn mx dfs limit visit dir canon depth base (fun es s s' => vinv s -> vinv s')).
  - intros s H. exact H.
  - intros e es s _ H. exact H.
  - intros e es s s' _ _ _ IH H. apply IH. now apply vinv_rep.
  - intros e es s s' key it _ _ _ _ _ IH H. apply IH. now apply vinv_rep.
  - intros e es s s3 s' key it _ _ _ Hni _ Hv _ IH H. apply IH. refine (Hvisit _ _ _ _ (add_vis (rep mn dir depth e s) key) _ _ Hv).
    destruct (vinv_rep dir depth e s H) as [Ha Hb]. split; cbn [add_vis l_vis l_vdirs]; [now constructor|assumption].
  - intros e es s s' key it _ _ _ Hni _ _ IH H. apply IH.
    destruct (vinv_rep dir depth e s H) as [Ha Hb]. split; cbn [push_q add_vis l_vis l_vdirs]; [now constructor|assumption].
Qed.

Lemma lvisit_vinv (dfs : bool) : forall (f : nat) (dir canon : str) (i rd : N) (s s' : lst),
  vinv s -> lvisit g mn mx dfs limit f dir canon i rd s = Some s' -> vinv s'.
Proof.
  induction f as [|f IH]; intros dir canon i rd s s' H Hv; [discriminate|].
  rewrite lvisit_S in Hv.
  destruct (existsb (str_eqb dir) (l_vdirs s)) eqn:Ed.
  { now injection Hv as <-. }
  apply memS_false in Ed.
  assert (H1 : vinv (add_ent (add_vdir s dir) i)).
  { destruct H as [Ha Hb]. split; cbn [add_ent add_vdir l_vis l_vdirs]; [assumption|now constructor]. }
  destruct (ents_of g i) as [ents|].
  - apply (lloop_vinv dfs _ _ _ _ _ (fun p c j b s0 s0' => IH p c j b s0 s0') ents _ _ Hv H1).
  - injection Hv as <-. revert H1. now apply vinv_core.
Qed.

Lemma ldrain_vinv (dfs : bool) : forall (f : nat) (base : N) (s s' : lst),
  vinv s -> ldrain g mn mx dfs limit f base s = Some s' -> vinv s'.
Proof.
  induction f as [|f IH]; intros base s s' H Hd; [discriminate|].
  rewrite ldrain_S in Hd. destruct (l_queue s) as [|it rest] eqn:Eq.
  { now injection Hd as <-. }
  destruct (lvisit g mn mx dfs limit f (it_path it) (it_canon it) (it_ino it) base (set_q s rest)) as [s2|] eqn:Ev; [|discriminate].
  apply (IH base s2 s'); [|assumption].
  refine (lvisit_vinv dfs f _ _ _ _ (set_q s rest) _ _ Ev). exact H.
Qed.
End Vinv.

(* ---------- (b) ONCE, for the original lwalk ---------- *)

(* every graph: no inode is marked twice, no spelled path is recorded twice *)
Theorem lwalk_marks_once (g : fsgraph) (mn mx : N) (dfs : bool) (limit : N) (fuel : nat) (rootpath canon : str) (root_ino : N) (s : lst) :
  lwalk g mn mx dfs limit fuel rootpath canon root_ino = Some s ->
  NoDup (l_vis s) /\ NoDup (l_vdirs s).
Proof.
  unfold lwalk. intro H.
  destruct (lvisit g mn mx dfs limit fuel rootpath canon root_ino 0 (add_vis lst0 root_ino)) as [s1|] eqn:Ev; [|discriminate].
  assert (H0 : vinv (add_vis lst0 root_ino)).
  { split; cbn [add_vis lst0 l_vis l_vdirs]; constructor; [intros []|constructor]. }
  pose proof (lvisit_vinv g mn mx limit dfs fuel _ _ _ _ _ _ H0 Ev) as H1.
  destruct dfs.
  - now injection H as <-.
  - exact (ldrain_vinv g mn mx limit false fuel _ _ _ H1 H).
Qed.

Lemma once_inv_start (root_ino : N) :
  once_inv (add_vis lst0 root_ino) /\ In root_ino (l_vis (add_vis lst0 root_ino)) /\
  ~ In root_ino (l_ent (add_vis lst0 root_ino) ++ qinos (add_vis lst0 root_ino)).
Proof.
  unfold once_inv, qinos. cbn [add_vis lst0 l_vis l_vdirs l_ent l_queue map app].
  split; [|split].
  - split; [|split; [|split]].
    + constructor; [intros []|constructor].
    + constructor.
    + constructor.
    + intros x [].
  - now left.
  - intros [].
Qed.

(* well-formed graphs: read_dir is attempted at most once per inode, only on marked inodes,
   and the BFS queue is empty at the end *)
Theorem lwalk_once_inv (g : fsgraph) (mn mx : N) (dfs : bool) (limit : N) (fuel : nat) (rootpath canon : str) (root_ino : N) (s : lst) :
  wf_graph g = true ->
  lwalk g mn mx dfs limit fuel rootpath canon root_ino = Some s ->
  once_inv s.
Proof.
  unfold lwalk. intros Hwf H.
  destruct (lvisit g mn mx dfs limit fuel rootpath canon root_ino 0 (add_vis lst0 root_ino)) as [s1|] eqn:Ev; [|discriminate].
  destruct (once_inv_start root_ino) as [H0 [Hin0 Hni0]].
  pose proof (lvisit_once g mn mx limit Hwf dfs fuel _ _ _ _ _ _ H0 Hin0 Hni0 Ev) as H1.
  destruct dfs.
  - now injection H as <-.
  - exact (proj1 (ldrain_once g mn mx limit Hwf false fuel _ _ _ H1 H)).
Qed.

Theorem lwalk_enters_once (g : fsgraph) (mn mx : N) (dfs : bool) (limit : N) (fuel : nat) (rootpath canon : str) (root_ino : N) (s : lst) :
  wf_graph g = true ->
  lwalk g mn mx dfs limit fuel rootpath canon root_ino = Some s ->
  NoDup (l_vis s) /\ NoDup (l_vdirs s) /\ NoDup (l_ent s) /\ incl (l_ent s) (l_vis s).
Proof.
  intros Hwf H. destruct (lwalk_once_inv g mn mx dfs limit fuel rootpath canon root_ino s Hwf H) as [Hv [Hd [He Hi]]].
  repeat split; try assumption.
  - exact (NoDup_app_left _ _ He).
  - intros x Hx. apply Hi. apply in_or_app. now left.
Qed.

Print Assumptions lwalk_marks_once.
Print Assumptions lwalk_enters_once.
