(* Index of the walk theorems (C01, C06, C17, C19, C20).  Build order:
   WalkBase, WalkDfs, WalkBfs, WalkRoots, WalkCor, WalkExamples, WalkProofs. *)
From FS Require Export proofs.WalkBase proofs.WalkDfs proofs.WalkBfs proofs.WalkRoots proofs.WalkCor proofs.WalkExamples.
Check calc_depth_join.
Check depth_of_level.
Check T1_dfs.
Check dfs_root.
Check T2_bfs.
Check bfs_root.
Check roots_post.
Check T3_roots.
Check T3_roots_st0.
Check T4_limit_root.
Check T4_buffered_root.
Check T4_limit_roots.
Check T4_buffered_roots.
Check T5a_perm.
Check T5a_rows_perm.
Check T5a_walk.
Check T5b_bfs_depth_sorted.
Check T5c_dfs_contiguous.
Check T5d_fault_rows.
Check T5d_fault_errs.
Check C17_dfs.
Check T5e_archives.
Check T5e_ignore.
Check C19_walk_dfs.
Check C20_walk_dfs.
Print Assumptions T1_dfs.
Print Assumptions T2_bfs.
Print Assumptions dfs_root.
Print Assumptions bfs_root.
Print Assumptions roots_post.
Print Assumptions T3_roots.
Print Assumptions T4_limit_root.
Print Assumptions T4_limit_roots.
Print Assumptions T4_buffered_roots.
Print Assumptions T5a_walk.
Print Assumptions T5b_bfs_depth_sorted.
Print Assumptions C17_dfs.
Print Assumptions C19_walk_dfs.
Print Assumptions C20_walk_dfs.
