(* Base64 on byte lists, as the crate rbase64 2.0.3 computes it (standard alphabet, '=' padding).

   [b64_encode] is the RFC 4648 section 4 definition (3 bytes -> 4 characters; 1 or 2 trailing
   bytes -> 2 or 3 characters plus padding).  rbase64::encode produces exactly this (it works
   on 15-byte chunks and a remainder, which is an implementation detail).

   [b64_decode] reproduces rbase64::decode INCLUDING its leniency:
   - the first 8 * ((len - 2) / 8) bytes (saturating subtraction) are decoded in 8-byte chunks;
     every byte there must be an alphabet character ('=' included in "must not occur");
   - in the remaining 0..9 bytes decoding stops at the first '=' and whatever follows it is
     ignored (not validated); bytes before it must be alphabet characters;
   - the 6-bit groups are concatenated and cut into whole bytes; up to 7 trailing bits are
     dropped silently (no check that they are zero, no check of the padding length, an input
     whose length is not a multiple of 4 is accepted);
   - any invalid byte gives Err (None here; get_value turns it into the empty string). *)
From Coq Require Import String List Arith NArith ZArith Bool Lia.
From FS Require Import lib.Str lib.Fin.
Import ListNotations.
Open Scope N_scope.

(* ENCODE_MAP: A-Z a-z 0-9 + / *)
Definition b64_char (v : N) : N :=
  if v <? 26 then 65 + v
  else if v <? 52 then 71 + v          (* 97 + (v - 26) *)
  else if v <? 62 then v - 4           (* 48 + (v - 52) *)
  else if v =? 62 then 43 else 47.

(* DECODE_MAP: None = INVALID_BYTE *)
Definition b64_val (c : N) : option N :=
  if (65 <=? c) && (c <=? 90) then Some (c - 65)
  else if (97 <=? c) && (c <=? 122) then Some (c - 71)
  else if (48 <=? c) && (c <=? 57) then Some (c + 4)
  else if c =? 43 then Some 62
  else if c =? 47 then Some 63
  else None.

Fixpoint b64_encode (bs : list N) : list N :=
  match bs with
  | a :: b :: c :: r =>
      b64_char (a / 4) :: b64_char ((a mod 4) * 16 + b / 16) :: b64_char ((b mod 16) * 4 + c / 64)
        :: b64_char (c mod 64) :: b64_encode r
  | [a; b] => [b64_char (a / 4); b64_char ((a mod 4) * 16 + b / 16); b64_char ((b mod 16) * 4); 61]
  | [a] => [b64_char (a / 4); b64_char ((a mod 4) * 16); 61; 61]
  | [] => []
  end.

(* whole bytes of the concatenated 6-bit groups *)
Fixpoint sext_bytes (l : list N) : list N :=
  match l with
  | a :: b :: c :: d :: r => (a * 4 + b / 16) :: ((b mod 16) * 16 + c / 4) :: ((c mod 4) * 64 + d) :: sext_bytes r
  | [a; b; c] => [a * 4 + b / 16; (b mod 16) * 16 + c / 4]
  | [a; b] => [a * 4 + b / 16]
  | _ => []
  end.

Fixpoint map_opt {A B} (f : A -> option B) (l : list A) : option (list B) :=
  match l with
  | [] => Some []
  | x :: r => match f x, map_opt f r with Some y, Some t => Some (y :: t) | _, _ => None end
  end.

Fixpoint until_pad (l : list N) : list N :=
  match l with [] => [] | c :: r => if c =? 61 then [] else c :: until_pad r end.

Definition b64_in_limit (len : nat) : nat := (8 * ((len - 2) / 8))%nat.

Definition b64_decode (x : list N) : option (list N) :=
  let k := b64_in_limit (length x) in
  match map_opt b64_val (firstn k x ++ until_pad (skipn k x)) with
  | Some sx => Some (sext_bytes sx)
  | None => None
  end.

(* ---------- decode (encode bs) = bs ---------- *)

Lemma b64_val_char_all : forallb (fun v => match b64_val (b64_char v) with Some w => (w =? v) && negb (b64_char v =? 61) | None => false end) (below_pow2 6) = true.
Proof. vm_compute. reflexivity. Qed.

Lemma b64_val_char v : v < 64 -> b64_val (b64_char v) = Some v /\ b64_char v <> 61.
Proof.
  intros H. pose proof (forall_below_pow2 6 _ b64_val_char_all v H) as E. cbv beta in E.
  destruct (b64_val (b64_char v)) as [w|]; [|discriminate].
  apply andb_true_iff in E. destruct E as [E1 E2]. apply N.eqb_eq in E1. subst w.
  split; [reflexivity|]. intros C. rewrite C in E2. discriminate.
Qed.

Ltac Zify.zify_post_hook ::= Z.to_euclidean_division_equations.

(* body of the encoding: the characters before the padding *)
Fixpoint b64_body (bs : list N) : list N :=
  match bs with
  | a :: b :: c :: r => (a / 4) :: ((a mod 4) * 16 + b / 16) :: ((b mod 16) * 4 + c / 64) :: (c mod 64) :: b64_body r
  | [a; b] => [a / 4; (a mod 4) * 16 + b / 16; (b mod 16) * 4]
  | [a] => [a / 4; (a mod 4) * 16]
  | [] => []
  end.
Definition b64_pad (n : nat) : list N :=
  match Nat.modulo n 3 with 1%nat => [61; 61] | 2%nat => [61] | _ => [] end.

(* induction three elements at a time *)
Lemma list_ind3 {A} (P : list A -> Prop) :
  P [] -> (forall a, P [a]) -> (forall a b, P [a; b]) ->
  (forall a b c r, P r -> P (a :: b :: c :: r)) -> forall l, P l.
Proof.
  intros H0 H1 H2 H3.
  assert (G : forall l, P l /\ (forall a, P (a :: l)) /\ (forall a b, P (a :: b :: l))).
  { induction l as [|x l [I0 [I1 I2]]]; [repeat split; auto|].
    split; [apply I1|]. split; [intros a; apply I2|]. intros a b. apply H3. exact I0. }
  intros l. apply G.
Qed.

Lemma mod3_S3 n : Nat.modulo (S (S (S n))) 3 = Nat.modulo n 3.
Proof.
  change (S (S (S n))) with (3 + n)%nat.
  rewrite <- Nat.add_mod_idemp_l by lia. reflexivity.
Qed.

Lemma b64_encode_split bs : b64_encode bs = map b64_char (b64_body bs) ++ b64_pad (length bs).
Proof.
  induction bs as [| a | a b | a b c r IH] using list_ind3; try reflexivity.
  cbn [b64_encode b64_body map length]. unfold b64_pad. rewrite mod3_S3.
  fold (b64_pad (length r)). rewrite IH. reflexivity.
Qed.

Definition bytes_ok (bs : list N) : bool := forallb (fun b => b <? 256) bs.

Lemma b64_body_lt bs : bytes_ok bs = true -> Forall (fun v => v < 64) (b64_body bs).
Proof.
  unfold bytes_ok.
  induction bs as [| a | a b | a b c r IH] using list_ind3; cbn [forallb b64_body]; intros H.
  - constructor.
  - rewrite andb_true_iff, N.ltb_lt in H. repeat (apply Forall_cons; [lia|]). apply Forall_nil.
  - rewrite !andb_true_iff, !N.ltb_lt in H. repeat (apply Forall_cons; [lia|]). apply Forall_nil.
  - rewrite !andb_true_iff, !N.ltb_lt in H. destruct H as (Ha & Hb & Hc & Hr).
    repeat (apply Forall_cons; [lia|]). apply IH. exact Hr.
Qed.

Lemma sext_bytes_body bs : bytes_ok bs = true -> sext_bytes (b64_body bs) = bs.
Proof.
  unfold bytes_ok.
  induction bs as [| a | a b | a b c r IH] using list_ind3; cbn [forallb b64_body sext_bytes]; intros H.
  - reflexivity.
  - rewrite andb_true_iff, N.ltb_lt in H. f_equal. lia.
  - rewrite !andb_true_iff, !N.ltb_lt in H. f_equal; [lia|]. f_equal. lia.
  - rewrite !andb_true_iff, !N.ltb_lt in H. destruct H as (Ha & Hb & Hc & Hr).
    rewrite (IH Hr). f_equal; [lia|]. f_equal; [lia|]. f_equal. lia.
Qed.

Lemma map_opt_val_char l : Forall (fun v => v < 64) l -> map_opt b64_val (map b64_char l) = Some l.
Proof.
  induction 1 as [|v l Hv _ IH]; [reflexivity|].
  cbn [map map_opt]. destruct (b64_val_char v Hv) as [E _]. now rewrite E, IH.
Qed.

Lemma until_pad_body l p : Forall (fun v => v < 64) l -> (p = [] \/ exists q, p = 61 :: q) ->
  until_pad (map b64_char l ++ p) = map b64_char l.
Proof.
  intros F Hp. induction F as [|v l Hv _ IH]; cbn [map app until_pad].
  - destruct Hp as [-> | [q ->]]; reflexivity.
  - destruct (b64_val_char v Hv) as [_ Hne]. apply N.eqb_neq in Hne. rewrite Hne. now rewrite IH.
Qed.

(* splitting at any point inside the pad-free prefix does not change what is decoded *)
Lemma firstn_until_pad k x : (k <= length (until_pad x))%nat ->
  firstn k x ++ until_pad (skipn k x) = until_pad x.
Proof.
  revert x; induction k as [|k IH]; intros x H; [reflexivity|].
  destruct x as [|c x]; [reflexivity|]. cbn [until_pad] in *.
  destruct (c =? 61); cbn [length] in H; [lia|].
  cbn [firstn skipn app]. f_equal. apply IH. lia.
Qed.

Lemma b64_pad_shape n : (b64_pad n = [] \/ exists q, b64_pad n = 61 :: q) /\ (length (b64_pad n) <= 2)%nat.
Proof. unfold b64_pad. destruct (Nat.modulo n 3) as [|[|[|?]]]; cbn; split; eauto; lia. Qed.

Theorem b64_decode_encode bs : bytes_ok bs = true -> b64_decode (b64_encode bs) = Some bs.
Proof.
  intros Hb. unfold b64_decode. rewrite b64_encode_split.
  pose proof (b64_body_lt bs Hb) as F.
  destruct (b64_pad_shape (length bs)) as [Hp Hl].
  set (body := map b64_char (b64_body bs)) in *. set (pad := b64_pad (length bs)) in *.
  assert (U : until_pad (body ++ pad) = body) by (apply until_pad_body; assumption).
  rewrite firstn_until_pad.
  - rewrite U. unfold body. rewrite map_opt_val_char by exact F. now rewrite sext_bytes_body.
  - rewrite U. rewrite app_length. unfold b64_in_limit.
    set (n := (length body + length pad)%nat).
    pose proof (Nat.div_mod (n - 2) 8 ltac:(lia)) as D.
    pose proof (Nat.mod_upper_bound (n - 2) 8 ltac:(lia)) as M.
    destruct (Nat.le_gt_cases n 1) as [Hn|Hn].
    + replace (n - 2)%nat with 0%nat by lia. cbn. lia.
    + lia.
Qed.

(* examples (the crate's own tests and the leniencies) *)
Example ex_enc1 : b64_encode (s "Hello!"%string) = s "SGVsbG8h". Proof. vm_compute. reflexivity. Qed.
Example ex_enc2 : b64_encode (s "0123456789"%string) = s "MDEyMzQ1Njc4OQ==". Proof. vm_compute. reflexivity. Qed.
Example ex_dec1 : b64_decode (s "MDEyMzQ1Njc4OQ=="%string) = Some (s "0123456789"%string). Proof. vm_compute. reflexivity. Qed.
Example ex_dec_bad : b64_decode (s "AAA^AAA=="%string) = None. Proof. vm_compute. reflexivity. Qed.
(* no padding needed, trailing bits dropped, garbage after '=' in the last bytes ignored *)
Example ex_dec_nopad : b64_decode (s "QQ"%string) = Some (s "A"%string). Proof. vm_compute. reflexivity. Qed.
Example ex_dec_bits : b64_decode (s "QR"%string) = Some (s "A"%string). Proof. vm_compute. reflexivity. Qed.
Example ex_dec_after_pad : b64_decode (s "QQ=!"%string) = Some (s "A"%string). Proof. vm_compute. reflexivity. Qed.
(* ... but '=' inside the 8-byte chunk area is an error *)
Example ex_dec_early_pad : b64_decode (s "QQ==QUFBQUFB"%string) = None. Proof. vm_compute. reflexivity. Qed.
