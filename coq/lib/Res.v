(* Outcome of a modelled computation: every unwrap / index / error_exit / loop of the Rust
   code is an explicit outcome, never a totalised default. *)
From Coq Require Import List.
From FS Require Import lib.Str.

Inductive res (A : Type) : Type :=
| Ok (a : A)
| Exit2 (msg : str)        (* error_exit / Err propagated to main: status 2 *)
| Panic (site : str)       (* unwrap on None/Err, index out of bounds, overflow in debug *)
| Hang (site : str)        (* a blocking system call reported by the oracle *)
| OutOfFuel.               (* a finding, never a value: excluded by "fuel suffices" lemmas *)
Arguments Ok {A}. Arguments Exit2 {A}. Arguments Panic {A}. Arguments Hang {A}. Arguments OutOfFuel {A}.

Definition bind {A B} (x : res A) (f : A -> res B) : res B :=
  match x with
  | Ok a => f a | Exit2 m => Exit2 m | Panic s0 => Panic s0 | Hang s0 => Hang s0 | OutOfFuel => OutOfFuel
  end.
Notation "'do' x <- e ;; k" := (bind e (fun x => k)) (at level 200, x pattern, e at level 100, k at level 200).

Lemma bind_ok {A B} (a : A) (f : A -> res B) : bind (Ok a) f = f a.
Proof. reflexivity. Qed.
Lemma bind_assoc {A B C} (x : res A) (f : A -> res B) (g : B -> res C) :
  bind (bind x f) g = bind x (fun a => bind (f a) g).
Proof. destruct x; reflexivity. Qed.

Definition is_ok {A} (x : res A) : bool := match x with Ok _ => true | _ => false end.
