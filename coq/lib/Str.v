(* Code-point strings shared by every model: str = list N (Unicode scalar values). *)
From Coq Require Import List NArith Bool Ascii String Lia.
Import ListNotations.
Open Scope N_scope.

Definition str := list N.

Fixpoint s (x : string) : str :=
  match x with EmptyString => [] | String a r => N_of_ascii a :: s r end.

Fixpoint str_eqb (a b : str) : bool :=
  match a, b with
  | [], [] => true
  | x :: a', y :: b' => (x =? y) && str_eqb a' b'
  | _, _ => false
  end.

Lemma str_eqb_eq a b : str_eqb a b = true <-> a = b.
Proof.
  revert b; induction a as [|x a IH]; intros [|y b]; cbn; split; intro H; try discriminate; try reflexivity.
  - apply andb_true_iff in H. destruct H as [H1 H2]. apply N.eqb_eq in H1. apply IH in H2. now subst.
  - inversion H; subst. rewrite N.eqb_refl. cbn. now apply IH.
Qed.

Lemma str_eqb_refl a : str_eqb a a = true.
Proof. now apply str_eqb_eq. Qed.

Definition is_upper (c : N) : bool := (65 <=? c) && (c <=? 90).
Definition is_lower (c : N) : bool := (97 <=? c) && (c <=? 122).
Definition is_digit (c : N) : bool := (48 <=? c) && (c <=? 57).
Definition is_alpha (c : N) : bool := is_upper c || is_lower c.
Definition is_alnum (c : N) : bool := is_digit c || is_alpha c.

Definition lower1 (c : N) : N := if is_upper c then c + 32 else c.
Definition upper1 (c : N) : N := if is_lower c then c - 32 else c.
Definition ascii_lower (x : str) : str := map lower1 x.
Definition ascii_upper (x : str) : str := map upper1 x.

Lemma lower1_idem c : lower1 (lower1 c) = lower1 c.
Proof.
  unfold lower1, is_upper.
  destruct ((65 <=? c) && (c <=? 90)) eqn:E; [|now rewrite E].
  apply andb_true_iff in E. destruct E as [E1 E2]. apply N.leb_le in E1, E2.
  assert (H : (c + 32 <=? 90) = false) by (apply N.leb_gt; lia).
  now rewrite H, andb_false_r.
Qed.

Lemma ascii_lower_idem x : ascii_lower (ascii_lower x) = ascii_lower x.
Proof. unfold ascii_lower. rewrite map_map. apply map_ext. apply lower1_idem. Qed.

Lemma lower1_upper1 c : lower1 (upper1 c) = lower1 c.
Proof.
  unfold lower1, upper1, is_upper, is_lower.
  destruct ((97 <=? c) && (c <=? 122)) eqn:E.
  - apply andb_true_iff in E. destruct E as [E1 E2]. apply N.leb_le in E1, E2.
    assert (H1 : (65 <=? c - 32) = true) by (apply N.leb_le; lia).
    assert (H2 : (c - 32 <=? 90) = true) by (apply N.leb_le; lia).
    assert (H3 : (c <=? 90) = false) by (apply N.leb_gt; lia).
    rewrite H1, H2, H3, andb_false_r. cbn. lia.
  - reflexivity.
Qed.

(* table lookup on strings *)
Fixpoint assoc {A} (k : str) (t : list (str * A)) : option A :=
  match t with
  | [] => None
  | (k', v) :: r => if str_eqb k k' then Some v else assoc k r
  end.

Fixpoint starts_with (p x : str) : bool :=
  match p, x with
  | [], _ => true
  | a :: p', b :: x' => (a =? b) && starts_with p' x'
  | _, [] => false
  end.

Definition ends_with (p x : str) : bool := starts_with (rev p) (rev x).

Lemma starts_with_spec p x : starts_with p x = true <-> exists r, x = p ++ r.
Proof.
  revert x; induction p as [|a p IH]; intros x; cbn.
  - split; [intros _; now exists x | reflexivity].
  - destruct x as [|b x]; [split; [discriminate | intros [r H]; discriminate]|].
    rewrite andb_true_iff, N.eqb_eq, IH. split.
    + intros [-> [r ->]]. now exists r.
    + intros [r H]. inversion H; subst. split; [reflexivity | now exists r].
Qed.

Lemma ends_with_spec p x : ends_with p x = true <-> exists r, x = r ++ p.
Proof.
  unfold ends_with. rewrite starts_with_spec. split.
  - intros [r H]. exists (rev r). apply (f_equal (@rev N)) in H. rewrite rev_involutive, rev_app_distr, rev_involutive in H. exact H.
  - intros [r ->]. exists (rev r). now rewrite rev_app_distr.
Qed.

Fixpoint contains_char (c : N) (x : str) : bool :=
  match x with [] => false | d :: r => (c =? d) || contains_char c r end.

Fixpoint count_char (c : N) (x : str) : N :=
  match x with [] => 0 | d :: r => (if c =? d then 1 else 0) + count_char c r end.

(* substring search *)
Fixpoint find_sub (p x : str) : bool :=
  starts_with p x || match x with [] => false | _ :: r => find_sub p r end.

Lemma find_sub_spec p x : find_sub p x = true <-> exists a b, x = a ++ p ++ b.
Proof.
  induction x as [|c x IH]; cbn [find_sub].
  - rewrite orb_false_r, starts_with_spec. split.
    + intros [r H]. exists [], r. exact H.
    + intros [a [b H]]. destruct a; [now exists b|discriminate].
  - rewrite orb_true_iff, starts_with_spec, IH. split.
    + intros [[r H] | [a [b H]]]; [exists [], r; exact H | exists (c :: a), b; now rewrite H].
    + intros [[|d a] [b H]]; [left; now exists b|]. right. inversion H; subst. now exists a, b.
Qed.

Definition concat_str (l : list str) : str := List.concat l.

Fixpoint join (sep : str) (l : list str) : str :=
  match l with [] => [] | [x] => x | x :: r => x ++ sep ++ join sep r end.
