(* IEEE-754 binary64 in Z arithmetic (no primitive floats).

   A double is NaN, +-inf, +-0 or  (-1)^neg * m * 2^e  with the canonical (m, e) of [wf]:
   normal numbers have 2^52 <= m < 2^53 and -1074 <= e <= 971, subnormals have
   0 < m < 2^52 and e = -1074.  Structural equality on canonical values is value equality.

   [round_ne neg num den] is round-to-nearest, ties-to-even of the positive rational
   num/den, including gradual underflow (subnormals, and 0 below 2^-1075) and overflow
   (>= 2^1024 - 2^970 after rounding becomes inf).  To stay inside Z without negative
   exponents everything is computed at the fixed scale 2^-BIAS (BIAS = 1130 >= 1074 + 56).

   Everything Rust does with f64 in parse_filesize / humansize::format_size is here:
   f64::from_str, *, /, u64 -> f64, `as u64`, >=, modf's fractional part, and
   format!("{:.*}", places, x). *)
From Coq Require Import String ZArith NArith List Bool Lia.
From FS Require Import lib.Str lib.Dec.
Import ListNotations.
Open Scope Z_scope.

Arguments Z.mul : simpl never.
Arguments Z.add : simpl never.
Arguments Z.pow : simpl never.
Arguments Z.div : simpl never.
Arguments Z.modulo : simpl never.
Arguments Z.log2 : simpl never.

Inductive f64 : Type :=
| FNaN
| FInf (neg : bool)
| FZero (neg : bool)
| FFin (neg : bool) (m e : Z).

Definition p52 : Z := 4503599627370496.
Definition p53 : Z := 9007199254740992.
Definition u64_max : Z := 18446744073709551615.
Lemma p52_eq : p52 = 2 ^ 52. Proof. reflexivity. Qed.
Lemma p53_eq : p53 = 2 ^ 53. Proof. reflexivity. Qed.

Definition wf (m e : Z) : Prop :=
  (p52 <= m < p53 /\ -1074 <= e <= 971) \/ (0 < m < p52 /\ e = -1074).

Definition wf_f64 (x : f64) : Prop :=
  match x with FFin _ m e => wf m e | _ => True end.

(* round-half-even division of nonnegative p by positive q *)
Definition div_rne (p q : Z) : Z :=
  let d := p / q in
  let r := p mod q in
  match 2 * r ?= q with
  | Lt => d
  | Gt => d + 1
  | Eq => if Z.even d then d else d + 1
  end.

Definition BIAS : Z := 1130.

(* x * 2^k by shifting (k >= 0): cheap under vm_compute *)
Definition shl (x k : Z) : Z := Z.shiftl x k.

Definition round_ne (neg : bool) (num den : Z) : f64 :=
  (* n' = num * 2^BIAS is never built: powers of two common to both sides are cancelled *)
  let l := Z.log2 num + BIAS - Z.log2 den in                (* floor(log2(n'/den)) or that + 1 *)
  let L := Z.max l 0 in
  let c0 := Z.min BIAS L in
  let fl := if shl num (BIAS - c0) <? shl den (L - c0) then l - 1 else l in   (* n' <? den * 2^L *)
  let e' := Z.max (fl - 52) 56 in                           (* 56 - BIAS = -1074: subnormal exponent *)
  let c := Z.min BIAS e' in
  let q := div_rne (shl num (BIAS - c)) (shl den (e' - c)) in   (* = rne (n' / (den * 2^e')) *)
  if q =? 0 then FZero neg
  else
    let m := if q =? p53 then p52 else q in
    let e := (if q =? p53 then e' + 1 else e') - BIAS in
    if 971 <? e then FInf neg else FFin neg m e.

(* ------------------------------------------------------------------ *)
(* operations *)

Definition fneg (x : f64) : f64 :=
  match x with
  | FNaN => FNaN
  | FInf a => FInf (negb a)
  | FZero a => FZero (negb a)
  | FFin a m e => FFin (negb a) m e
  end.

Definition mul (x y : f64) : f64 :=
  match x, y with
  | FNaN, _ | _, FNaN => FNaN
  | FInf _, FZero _ | FZero _, FInf _ => FNaN
  | FInf a, FInf b | FInf a, FFin b _ _ | FFin a _ _, FInf b => FInf (xorb a b)
  | FZero a, FZero b | FZero a, FFin b _ _ | FFin a _ _, FZero b => FZero (xorb a b)
  | FFin a m1 e1, FFin b m2 e2 =>
      round_ne (xorb a b) (shl (m1 * m2) (Z.max 0 (e1 + e2))) (shl 1 (Z.max 0 (- (e1 + e2))))
  end.

Definition div (x y : f64) : f64 :=
  match x, y with
  | FNaN, _ | _, FNaN => FNaN
  | FInf _, FInf _ | FZero _, FZero _ => FNaN
  | FInf a, FZero b | FInf a, FFin b _ _ => FInf (xorb a b)
  | FFin a _ _, FZero b => FInf (xorb a b)
  | FZero a, FInf b | FZero a, FFin b _ _ | FFin a _ _, FInf b => FZero (xorb a b)
  | FFin a m1 e1, FFin b m2 e2 =>
      round_ne (xorb a b) (shl m1 (Z.max 0 (e1 - e2))) (shl m2 (Z.max 0 (e2 - e1)))
  end.

(* Rust `x as u64`: truncate toward zero, saturate, NaN -> 0 *)
Definition to_u64 (x : f64) : Z :=
  match x with
  | FNaN => 0
  | FInf neg => if neg then 0 else u64_max
  | FZero _ => 0
  | FFin true _ _ => 0
  | FFin false m e => if 0 <=? e then Z.min (shl m e) u64_max else Z.min (m / 2 ^ (- e)) u64_max
  end.

(* integer -> f64, correctly rounded (u64 as f64, and float literals such as 1024.0) *)
Definition of_Z (z : Z) : f64 :=
  if z =? 0 then FZero false else round_ne (z <? 0) (Z.abs z) 1.
Definition of_u64 (n : N) : f64 := of_Z (Z.of_N n).

(* x >= y for the comparison humansize makes (NaN compares false) *)
Definition fge (x y : f64) : bool :=
  let key v := match v with
               | FNaN => None
               | FInf neg => Some (if neg then -1 else 1, 0, 0)
               | FZero _ => Some (0, 0, 0)
               | FFin neg m e => Some (0, (if neg then - m else m), e)
               end in
  match key x, key y with
  | Some (i1, m1, e1), Some (i2, m2, e2) =>
      if i1 =? i2 then let e0 := Z.min e1 e2 in shl m2 (e2 - e0) <=? shl m1 (e1 - e0) else i2 <? i1
  | _, _ => false
  end.

(* humansize: let (fpart, _) = modf(x); f64_eq(fpart, 0.0), i.e. fpart == 0 || |fpart| <= 2^-52 *)
Definition frac_negligible (x : f64) : bool :=
  match x with
  | FNaN => false                       (* modf(NaN) = NaN, both comparisons false *)
  | FInf _ => true                      (* modf(inf) = (0, inf) *)
  | FZero _ => true
  | FFin _ m e => if 0 <=? e then true else (m mod 2 ^ (- e)) * p52 <=? 2 ^ (- e)
  end.

(* ------------------------------------------------------------------ *)
(* f64::from_str *)

Fixpoint span_digits (x : str) : str * str :=
  match x with
  | c :: r => if is_digit c then let '(a, b) := span_digits r in (c :: a, b) else ([], x)
  | [] => ([], [])
  end.

Definition digits_val (ds : str) : Z :=
  match parse_digits 0%N ds with Some n => Z.of_N n | None => 0 end.

(* the value D * 10^E, correctly rounded; clamped so that 10^|E| stays small *)
Definition dec_value (neg : bool) (D : Z) (ndigits : Z) (E : Z) : f64 :=
  if D =? 0 then FZero neg
  else if 400 <? E then FInf neg                      (* D >= 1, 10^401 > 2^1024 *)
  else if E + ndigits <? -400 then FZero neg          (* D < 10^ndigits, 10^-400 < 2^-1075 *)
  else if 0 <=? E then round_ne neg (D * 10 ^ E) 1
  else round_ne neg D (10 ^ (- E)).

Definition parse_exponent (x : str) : option Z :=
  match x with
  | [] => Some 0
  | c :: r =>
      if (c =? 101)%N || (c =? 69)%N then
        let '(sg, r') := match r with
                         | 43%N :: t => (1, t)
                         | 45%N :: t => (-1, t)
                         | _ => (1, r)
                         end in
        match parse_N r' with Some n => Some (sg * Z.of_N n) | None => None end
      else None
  end.

Definition parse_number (neg : bool) (x : str) : option f64 :=
  let '(ip, r1) := span_digits x in
  let '(fp, r2) := match r1 with
                   | 46%N :: t => span_digits t
                   | _ => ([], r1)
                   end in
  match ip ++ fp with
  | [] => None
  | ds =>
      match parse_exponent r2 with
      | Some ex => Some (dec_value neg (digits_val ds) (Z.of_nat (length ds)) (ex - Z.of_nat (length fp)))
      | None => None
      end
  end.

Definition parse_f64 (x : str) : option f64 :=
  match x with
  | [] => None
  | c :: r =>
      let neg := (c =? 45)%N in
      let body := if (c =? 45)%N || (c =? 43)%N then r else x in
      match body with
      | [] => None
      | _ =>
          match parse_number neg body with
          | Some v => Some v
          | None =>
              let lb := ascii_lower body in
              if str_eqb lb (s "nan"%string) then Some FNaN
              else if str_eqb lb (s "inf"%string) || str_eqb lb (s "infinity"%string) then Some (FInf neg)
              else None
          end
      end
  end.

(* ------------------------------------------------------------------ *)
(* format!("{:.*}", places, x): exact decimal expansion, half-to-even at `places` digits *)

Fixpoint pad_zeros (k : nat) (x : str) : str :=
  match k with O => x | S k' => if (length x <? k)%nat then 48%N :: pad_zeros k' x else x end.

Definition pad_left (places : nat) (x : str) : str :=
  repeat 48%N (places - length x) ++ x.

Definition show_fixed (neg : bool) (places : nat) (R : Z) : str :=
  let P := 10 ^ Z.of_nat places in
  (if neg then [45%N] else []) ++ show_N (Z.to_N (R / P)) ++
  match places with
  | O => []
  | _ => 46%N :: pad_left places (show_N (Z.to_N (R mod P)))
  end.

(* |x| = m / 2^k (k > 0) has exactly k fractional decimal digits, so beyond k places the
   expansion is exact and continues with zeros: round at p = min places k digits (the
   rounding is the identity when p = k) and pad.  Same text as rounding at `places`, but
   10^places is never built (places can be 65535). *)
Definition show_prec (places : nat) (x : f64) : str :=
  match x with
  | FNaN => s "NaN"%string
  | FInf neg => (if neg then [45%N] else []) ++ s "inf"%string
  | FZero neg => show_fixed neg 0 0 ++ match places with O => [] | _ => 46%N :: repeat 48%N places end
  | FFin neg m e =>
      if 0 <=? e then
        show_fixed neg 0 (shl m e) ++ match places with O => [] | _ => 46%N :: repeat 48%N places end
      else
        let k := Z.to_nat (- e) in
        let p := Nat.min places k in
        show_fixed neg p (div_rne (m * 10 ^ Z.of_nat p) (2 ^ (- e))) ++ repeat 48%N (places - p)
  end.

(* ================================================================== *)
(* Proofs *)

Lemma div_rne_exact m q : 0 < q -> div_rne (m * q) q = m.
Proof.
  intros Hq. unfold div_rne. rewrite Z.div_mul, Z.mod_mul by lia.
  replace (2 * 0) with 0 by lia.
  destruct (0 ?= q) eqn:E; try reflexivity.
  - apply Z.compare_eq in E. lia.
  - apply Z.compare_gt_iff in E. lia.
Qed.

Lemma shl_eq x k : 0 <= k -> shl x k = x * 2 ^ k.
Proof. intros. unfold shl. apply Z.shiftl_mul_pow2. assumption. Qed.

Lemma pow2_pos k : 0 <= k -> 0 < 2 ^ k.
Proof. intros. apply Z.pow_pos_nonneg; lia. Qed.

Lemma pow2_add a b : 0 <= a -> 0 <= b -> 2 ^ (a + b) = 2 ^ a * 2 ^ b.
Proof. intros. apply Z.pow_add_r; assumption. Qed.

Lemma pow2_le a b : 0 <= a <= b -> 2 ^ a <= 2 ^ b.
Proof. intros. apply Z.pow_le_mono_r; lia. Qed.

Lemma ltb_cancel x y a b c :
  0 <= c <= a -> c <= b -> (x * 2 ^ (a - c) <? y * 2 ^ (b - c)) = (x * 2 ^ a <? y * 2 ^ b).
Proof.
  intros Ha Hb.
  replace (2 ^ a) with (2 ^ (a - c) * 2 ^ c) by (rewrite <- pow2_add by lia; f_equal; lia).
  replace (2 ^ b) with (2 ^ (b - c) * 2 ^ c) by (rewrite <- pow2_add by lia; f_equal; lia).
  assert (0 < 2 ^ c) by (apply pow2_pos; lia).
  rewrite !Z.mul_assoc. apply Bool.eq_iff_eq_true. rewrite !Z.ltb_lt.
  apply Z.mul_lt_mono_pos_r. assumption.
Qed.

(* KEY LEMMA: a representable rational is returned unchanged *)
Lemma round_ne_repr neg m e num den :
  wf m e -> 0 < den ->
  num * 2 ^ BIAS = m * 2 ^ (e + BIAS) * den ->
  round_ne neg num den = FFin neg m e.
Proof.
  intros Hwf Hden Heq. unfold round_ne.
  assert (Hnum : 0 < num).
  { assert (0 < m) by (destruct Hwf as [[H _]|[H _]]; unfold p52 in *; lia).
    assert (0 < 2 ^ (e + BIAS)) by (apply pow2_pos; unfold BIAS; destruct Hwf as [[_ H']|[_ H']]; lia).
    assert (0 < 2 ^ BIAS) by (apply pow2_pos; unfold BIAS; lia).
    assert (0 < m * 2 ^ (e + BIAS) * den) by (apply Z.mul_pos_pos; [apply Z.mul_pos_pos|]; lia).
    nia. }
  rewrite !shl_eq by lia.
  replace (Z.log2 num + BIAS) with (Z.log2 (num * 2 ^ BIAS))
    by (rewrite Z.log2_mul_pow2 by (unfold BIAS; lia); lia).
  rewrite (ltb_cancel num den BIAS) by (unfold BIAS; lia).
  rewrite Heq.
  set (E := e + BIAS).
  assert (HE : 56 <= E) by (unfold E, BIAS; destruct Hwf as [[_ H]|[_ H]]; lia).
  assert (Hm : 0 < m < p53) by (unfold p52, p53 in *; destruct Hwf as [[H _]|[H _]]; unfold p52, p53 in H; lia).
  assert (HPE : 0 < 2 ^ E) by (apply pow2_pos; lia).
  set (n' := m * 2 ^ E * den).
  assert (Hn' : 0 < n') by (unfold n'; apply Z.mul_pos_pos; [apply Z.mul_pos_pos|]; lia).
  set (a := Z.log2 n'). set (b := Z.log2 den).
  pose proof (Z.log2_nonneg den) as Hb0. fold b in Hb0.
  pose proof (Z.log2_spec den Hden) as Hb. fold b in Hb. rewrite <- Z.add_1_r in Hb.
  assert (HPB : 0 < 2 ^ b) by (apply pow2_pos; lia).
  assert (HPB1 : 2 ^ (b + 1) = 2 * 2 ^ b) by (rewrite pow2_add by lia; change (2 ^ 1) with 2; lia).
  (* the scaling exponent that the function picks is E *)
  assert (He' : Z.max ((if n' <? den * 2 ^ Z.max (a - b) 0 then a - b - 1 else a - b) - 52) 56 = E).
  { destruct Hwf as [[Hmn He]|[Hms He]].
    - (* normal: floor log2 (n'/den) = 52 + E *)
      assert (Hlo : 52 + E + b <= a).
      { unfold a. apply Z.log2_le_pow2; [exact Hn'|].
        rewrite !pow2_add by lia. unfold n'. rewrite <- p52_eq.
        assert (p52 * 2 ^ E <= m * 2 ^ E) by (apply Z.mul_le_mono_nonneg_r; lia).
        apply Z.mul_le_mono_nonneg; try lia; apply Z.mul_nonneg_nonneg; unfold p52; lia. }
      assert (Hhi : a < 54 + E + b).
      { unfold a. apply Z.log2_lt_pow2; [exact Hn'|].
        replace (54 + E + b) with (53 + E + (b + 1)) by lia.
        rewrite !pow2_add by lia. unfold n'. rewrite <- p53_eq.
        assert (m * 2 ^ E < p53 * 2 ^ E) by (apply Z.mul_lt_mono_pos_r; lia).
        apply Z.mul_lt_mono_nonneg; try lia; apply Z.mul_nonneg_nonneg; lia. }
      assert (Hcases : a - b = 52 + E \/ a - b = 53 + E) by lia.
      destruct Hcases as [Hl|Hl]; rewrite Hl.
      + rewrite (Z.max_l (52 + E) 0) by lia.
        assert (Hc : (n' <? den * 2 ^ (52 + E)) = false).
        { apply Z.ltb_ge. rewrite pow2_add by lia. rewrite <- p52_eq. unfold n'.
          assert (p52 * 2 ^ E <= m * 2 ^ E) by (apply Z.mul_le_mono_nonneg_r; lia).
          rewrite (Z.mul_comm den). apply Z.mul_le_mono_nonneg_r; lia. }
        rewrite Hc. lia.
      + rewrite (Z.max_l (53 + E) 0) by lia.
        assert (Hc : (n' <? den * 2 ^ (53 + E)) = true).
        { apply Z.ltb_lt. rewrite pow2_add by lia. rewrite <- p53_eq. unfold n'.
          assert (m * 2 ^ E < p53 * 2 ^ E) by (apply Z.mul_lt_mono_pos_r; lia).
          rewrite (Z.mul_comm den). apply Z.mul_lt_mono_pos_r; lia. }
        rewrite Hc. lia.
    - (* subnormal: the exponent is clamped *)
      assert (HE56 : E = 56) by (unfold E, BIAS; lia).
      assert (Hhi : a < 109 + b).
      { unfold a. apply Z.log2_lt_pow2; [exact Hn'|].
        replace (109 + b) with (52 + E + (b + 1)) by lia.
        rewrite !pow2_add by lia. unfold n'. rewrite <- p52_eq.
        assert (m * 2 ^ E < p52 * 2 ^ E) by (apply Z.mul_lt_mono_pos_r; lia).
        apply Z.mul_lt_mono_nonneg; try lia; apply Z.mul_nonneg_nonneg; lia. }
      destruct (n' <? den * 2 ^ Z.max (a - b) 0); lia. }
  rewrite He'.
  set (c := Z.min BIAS E).
  assert (Hc : 0 <= c <= BIAS /\ c <= E) by (unfold c, BIAS in *; lia).
  assert (HPc : 0 < 2 ^ c) by (apply pow2_pos; lia).
  assert (HPEc : 0 < 2 ^ (E - c)) by (apply pow2_pos; lia).
  assert (Hcancel : num * 2 ^ (BIAS - c) = m * (den * 2 ^ (E - c))).
  { apply (Z.mul_reg_r _ _ (2 ^ c)); [lia|].
    replace (num * 2 ^ (BIAS - c) * 2 ^ c) with (num * 2 ^ BIAS)
      by (rewrite <- Z.mul_assoc, <- pow2_add by lia; do 2 f_equal; lia).
    replace (m * (den * 2 ^ (E - c)) * 2 ^ c) with (m * 2 ^ E * den).
    - exact Heq.
    - replace (2 ^ E) with (2 ^ (E - c) * 2 ^ c) by (rewrite <- pow2_add by lia; f_equal; lia). ring. }
  rewrite Hcancel.
  rewrite div_rne_exact by (apply Z.mul_pos_pos; lia).
  assert (H0 : (m =? 0) = false) by (apply Z.eqb_neq; lia).
  assert (H53 : (m =? p53) = false) by (apply Z.eqb_neq; lia).
  rewrite H0, H53.
  replace (E - BIAS) with e by (unfold E; lia).
  assert (Hr : (971 <? e) = false) by (apply Z.ltb_ge; destruct Hwf as [[_ H]|[_ H]]; lia).
  now rewrite Hr.
Qed.

(* dyadic rationals a / 2^j with a < 2^53, in canonical form *)
Definition of_dyadic (a j : Z) : f64 :=
  FFin false (a * 2 ^ (52 - Z.log2 a)) (Z.log2 a - 52 - j).
Definition of_int (k : Z) : f64 := of_dyadic k 0.

Lemma log2_small a : 0 < a < p53 -> 0 <= Z.log2 a <= 52.
Proof.
  intros H. split; [apply Z.log2_nonneg|].
  assert (Z.log2 a < 53) by (apply Z.log2_lt_pow2; [lia|rewrite <- p53_eq; lia]). lia.
Qed.

Lemma norm_mantissa a : 0 < a < p53 -> p52 <= a * 2 ^ (52 - Z.log2 a) < p53.
Proof.
  intros H. pose proof (log2_small a H) as Hl.
  pose proof (Z.log2_spec a ltac:(lia)) as Hs. rewrite <- Z.add_1_r in Hs.
  set (l := Z.log2 a) in *.
  assert (HP : 0 < 2 ^ (52 - l)) by (apply pow2_pos; lia).
  assert (H1 : 2 ^ l * 2 ^ (52 - l) = p52) by (rewrite <- pow2_add by lia; rewrite p52_eq; f_equal; lia).
  assert (H2 : 2 ^ (l + 1) * 2 ^ (52 - l) = p53) by (rewrite <- pow2_add by lia; rewrite p53_eq; f_equal; lia).
  split.
  - rewrite <- H1. apply Z.mul_le_mono_nonneg_r; lia.
  - rewrite <- H2. apply Z.mul_lt_mono_pos_r; lia.
Qed.

Lemma of_dyadic_wf a j : 0 < a < p53 -> 0 <= j <= 1000 -> wf (a * 2 ^ (52 - Z.log2 a)) (Z.log2 a - 52 - j).
Proof.
  intros Ha Hj. left. split; [apply norm_mantissa; exact Ha|].
  pose proof (log2_small a Ha). lia.
Qed.

(* rounding a dyadic rational that fits in 53 bits is exact *)
Lemma round_ne_dyadic neg a j num den :
  0 < a < p53 -> 0 <= j <= 1000 -> 0 < den ->
  num * 2 ^ j = a * den ->
  round_ne neg num den = (if neg then fneg (of_dyadic a j) else of_dyadic a j).
Proof.
  intros Ha Hj Hden Heq.
  assert (G : round_ne neg num den = FFin neg (a * 2 ^ (52 - Z.log2 a)) (Z.log2 a - 52 - j)).
  { apply round_ne_repr; [apply of_dyadic_wf; assumption|exact Hden|].
    pose proof (log2_small a Ha) as Hl. set (l := Z.log2 a) in *.
    unfold BIAS.
    replace (2 ^ 1130) with (2 ^ j * 2 ^ (1130 - j)) by (rewrite <- pow2_add by lia; f_equal; lia).
    rewrite Z.mul_assoc, Heq.
    replace (l - 52 - j + 1130) with ((1130 - j) - (52 - l)) by lia.
    replace (2 ^ (1130 - j)) with (2 ^ (52 - l) * 2 ^ ((1130 - j) - (52 - l))) by (rewrite <- pow2_add by lia; f_equal; lia).
    ring. }
  rewrite G. destruct neg; reflexivity.
Qed.

(* KEY LEMMA round_exact: an integer below 2^53 is returned exactly *)
Theorem round_exact k : 0 < k < p53 -> round_ne false k 1 = of_int k.
Proof.
  intros Hk. unfold of_int. rewrite (round_ne_dyadic false k 0 k 1); try lia; try reflexivity.
Qed.

Lemma of_Z_exact k : 0 < k < p53 -> of_Z k = of_int k.
Proof.
  intros Hk. unfold of_Z.
  assert (H0 : (k =? 0) = false) by (apply Z.eqb_neq; lia).
  assert (H1 : (k <? 0) = false) by (apply Z.ltb_ge; lia).
  rewrite H0, H1, Z.abs_eq by lia. apply round_exact. exact Hk.
Qed.

(* products of dyadics that fit in 53 bits are exact *)
Theorem mul_exact_dyadic a i b j :
  0 < a < p53 -> 0 < b < p53 -> 0 < a * b < p53 -> 0 <= i <= 500 -> 0 <= j <= 500 ->
  mul (of_dyadic a i) (of_dyadic b j) = of_dyadic (a * b) (i + j).
Proof.
  intros Ha Hb Hab Hi Hj. unfold of_dyadic at 1 2. unfold mul. cbn [xorb].
  pose proof (log2_small a Ha) as Hla. pose proof (log2_small b Hb) as Hlb.
  set (la := Z.log2 a) in *. set (lb := Z.log2 b) in *.
  set (g := la - 52 - i + (lb - 52 - j)).
  assert (Hg : g <= 0) by (unfold g; lia).
  rewrite (Z.max_l 0 g) by lia. rewrite (Z.max_r 0 (- g)) by lia.
  rewrite !shl_eq by lia. change (2 ^ 0) with 1. rewrite Z.mul_1_r, Z.mul_1_l.
  rewrite (round_ne_dyadic false (a * b) (i + j)); [reflexivity|lia|lia|apply pow2_pos; lia|].
  replace (- g) with ((52 - la) + (52 - lb) + (i + j)) by (unfold g; lia).
  rewrite !pow2_add by lia. ring.
Qed.

(* KEY LEMMA mul_exact *)
Theorem mul_exact x y :
  0 < x < p53 -> 0 < y < p53 -> 0 < x * y < p53 ->
  mul (of_int x) (of_int y) = of_int (x * y).
Proof. intros. unfold of_int. rewrite mul_exact_dyadic; try lia. reflexivity. Qed.

Lemma to_u64_dyadic a j : 0 < a < p53 -> 0 <= j -> to_u64 (of_dyadic a j) = a / 2 ^ j.
Proof.
  intros Ha Hj. unfold of_dyadic, to_u64.
  pose proof (log2_small a Ha) as Hl. set (l := Z.log2 a) in *.
  assert (Hbound : a / 2 ^ j <= a).
  { apply Z.div_le_upper_bound; [apply pow2_pos; lia|].
    assert (1 <= 2 ^ j) by (pose proof (pow2_pos j Hj); lia). nia. }
  destruct (0 <=? l - 52 - j) eqn:E.
  - apply Z.leb_le in E. assert (j = 0) by lia. assert (l = 52) by lia. subst j.
    replace (l - 52 - 0) with 0 by lia. replace (52 - l) with 0 by lia.
    rewrite shl_eq by lia.
    change (2 ^ 0) with 1. rewrite Z.div_1_r, !Z.mul_1_r. apply Z.min_l. unfold p53, u64_max in *. lia.
  - replace (- (l - 52 - j)) with ((52 - l) + j) by lia.
    rewrite pow2_add by lia. rewrite (Z.mul_comm (2 ^ (52 - l))).
    rewrite Z.div_mul_cancel_r; try (pose proof (pow2_pos j); pose proof (pow2_pos (52 - l)); lia).
    apply Z.min_l. unfold p53, u64_max in *. lia.
Qed.

Lemma to_u64_of_int k : 0 < k < p53 -> to_u64 (of_int k) = k.
Proof. intros. unfold of_int. rewrite to_u64_dyadic by lia. change (2 ^ 0) with 1. apply Z.div_1_r. Qed.

(* ---------------- parsing a digit string ---------------- *)

Lemma span_digits_all ds rest :
  forallb is_digit ds = true ->
  match rest with [] => True | c :: _ => is_digit c = false end ->
  span_digits (ds ++ rest) = (ds, rest).
Proof.
  intros Hd Hr. induction ds as [|c ds IH]; cbn [app].
  - destruct rest as [|c r]; [reflexivity|]. cbn [span_digits]. now rewrite Hr.
  - cbn [forallb] in Hd. apply andb_true_iff in Hd. destruct Hd as [Hc Hd].
    cbn [span_digits]. rewrite Hc, (IH Hd). reflexivity.
Qed.

Lemma parse_digits_total ds a : forallb is_digit ds = true -> exists n, parse_digits a ds = Some n.
Proof.
  revert a. induction ds as [|c ds IH]; intros a H; cbn [parse_digits]; [now exists a|].
  cbn [forallb] in H. apply andb_true_iff in H. destruct H as [Hc Hd]. rewrite Hc. now apply IH.
Qed.

(* a bare digit string *)
Lemma parse_f64_digits ds n :
  ds <> [] -> forallb is_digit ds = true -> parse_N ds = Some n ->
  parse_f64 ds = Some (dec_value false (Z.of_N n) (Z.of_nat (length ds)) 0).
Proof.
  intros Hne Hd Hp. destruct ds as [|c ds]; [congruence|].
  assert (Hc : is_digit c = true) by (cbn [forallb] in Hd; now apply andb_true_iff in Hd).
  assert (H45 : (c =? 45)%N = false) by (apply N.eqb_neq; intros ->; discriminate).
  assert (H43 : (c =? 43)%N = false) by (apply N.eqb_neq; intros ->; discriminate).
  unfold parse_f64. rewrite H45, H43. cbn [orb].
  unfold parse_number.
  pose proof (span_digits_all (c :: ds) [] Hd I) as Hs. rewrite app_nil_r in Hs. rewrite Hs.
  rewrite app_nil_r. cbn [parse_exponent length].
  unfold digits_val. unfold parse_N in Hp. rewrite Hp.
  replace (0 - Z.of_nat 0) with 0 by reflexivity. reflexivity.
Qed.

(* digits '.' digits *)
Lemma parse_f64_decimal ds1 ds2 n :
  ds1 <> [] -> forallb is_digit ds1 = true -> forallb is_digit ds2 = true ->
  parse_N (ds1 ++ ds2) = Some n ->
  parse_f64 (ds1 ++ 46%N :: ds2) =
  Some (dec_value false (Z.of_N n) (Z.of_nat (length (ds1 ++ ds2))) (- Z.of_nat (length ds2))).
Proof.
  intros Hne Hd1 Hd2 Hp. destruct ds1 as [|c ds1]; [congruence|].
  assert (Hc : is_digit c = true) by (cbn [forallb] in Hd1; now apply andb_true_iff in Hd1).
  assert (H45 : (c =? 45)%N = false) by (apply N.eqb_neq; intros ->; discriminate).
  assert (H43 : (c =? 43)%N = false) by (apply N.eqb_neq; intros ->; discriminate).
  unfold parse_f64. cbn [app]. rewrite H45, H43. cbn [orb].
  unfold parse_number.
  change (c :: ds1 ++ 46%N :: ds2) with ((c :: ds1) ++ 46%N :: ds2).
  rewrite (span_digits_all (c :: ds1) (46%N :: ds2) Hd1 eq_refl).
  pose proof (span_digits_all ds2 [] Hd2 I) as Hs. rewrite app_nil_r in Hs. rewrite Hs.
  cbn [app]. cbn [parse_exponent].
  unfold digits_val. unfold parse_N in Hp. cbn [app] in Hp. rewrite Hp.
  replace (0 - Z.of_nat (length ds2)) with (- Z.of_nat (length ds2)) by lia. reflexivity.
Qed.

Lemma dec_value_int n len : 0 < n < p53 -> 0 <= len -> dec_value false n len 0 = of_int n.
Proof.
  intros H Hl. unfold dec_value.
  assert (H0 : (n =? 0) = false) by (apply Z.eqb_neq; lia). rewrite H0.
  assert (H1 : (400 <? 0) = false) by reflexivity. rewrite H1.
  assert (H2 : (0 + len <? -400) = false) by (apply Z.ltb_ge; lia). rewrite H2.
  assert (H3 : (0 <=? 0) = true) by reflexivity. rewrite H3.
  change (10 ^ 0) with 1. rewrite Z.mul_1_r. apply round_exact; exact H.
Qed.

Lemma dec_value_zero neg len E : dec_value neg 0 len E = FZero neg.
Proof. reflexivity. Qed.

(* a decimal literal whose value is the dyadic a / 2^j *)
Lemma dec_value_dyadic D len f a j :
  0 < a < p53 -> 0 <= j <= 1000 -> 0 <= f -> 0 <= len -> f <= len + 400 ->
  D * 2 ^ j = a * 10 ^ f ->
  dec_value false D len (- f) = of_dyadic a j.
Proof.
  intros Ha Hj Hf Hl Hfl Heq. unfold dec_value.
  assert (HP : 0 < 10 ^ f) by (apply Z.pow_pos_nonneg; lia).
  assert (HD : 0 < D).
  { assert (0 < 2 ^ j) by (apply pow2_pos; lia). assert (0 < a * 10 ^ f) by (apply Z.mul_pos_pos; lia). nia. }
  assert (H0 : (D =? 0) = false) by (apply Z.eqb_neq; lia). rewrite H0.
  assert (H1 : (400 <? - f) = false) by (apply Z.ltb_ge; lia). rewrite H1.
  assert (H2 : (- f + len <? -400) = false) by (apply Z.ltb_ge; lia). rewrite H2.
  destruct (0 <=? - f) eqn:E.
  - apply Z.leb_le in E. assert (f = 0) by lia. subst f. change (- 0) with 0. change (10 ^ 0) with 1 in *.
    rewrite Z.mul_1_r. apply (round_ne_dyadic false a j D 1); try lia.
  - rewrite Z.opp_involutive. apply (round_ne_dyadic false a j D (10 ^ f)); try lia.
Qed.

(* ================================================================== *)
(* General correctness of round_ne (every positive rational, not only representable ones):
   a finite result is a canonical double, within half a unit in its last place of num/den,
   and on a tie its mantissa is even. *)

Lemma div_rne_spec X Y : 0 <= X -> 0 < Y ->
  let q := div_rne X Y in
  X / Y <= q <= X / Y + 1 /\ 2 * Z.abs (X - q * Y) <= Y /\ (2 * Z.abs (X - q * Y) = Y -> Z.even q = true).
Proof.
  intros HX HY. unfold div_rne.
  pose proof (Z.div_mod X Y ltac:(lia)) as Hdm. pose proof (Z.mod_pos_bound X Y HY) as Hr.
  set (d := X / Y) in *. set (r := X mod Y) in *.
  destruct (2 * r ?= Y) eqn:E.
  - apply Z.compare_eq in E. destruct (Z.even d) eqn:Ev.
    + split; [lia|]. split; [|intros _; exact Ev].
      replace (X - d * Y) with r by lia. rewrite Z.abs_eq by lia. lia.
    + split; [lia|]. split.
      * replace (X - (d + 1) * Y) with (r - Y) by lia. rewrite Z.abs_neq by lia. lia.
      * intros _. rewrite Z.add_1_r, Z.even_succ, <- Z.negb_even, Ev. reflexivity.
  - assert (E' : 2 * r < Y) by (apply Z.compare_lt_iff; exact E). split; [lia|].
    replace (X - d * Y) with r by lia. rewrite Z.abs_eq by lia. split; [lia|intros; lia].
  - assert (E' : Y < 2 * r) by (apply Z.compare_gt_iff; exact E). split; [lia|].
    replace (X - (d + 1) * Y) with (r - Y) by lia. rewrite Z.abs_neq by lia. split; [lia|intros; lia].
Qed.

Theorem round_ne_correct neg num den m e :
  0 < num -> 0 < den ->
  round_ne neg num den = FFin neg m e ->
  wf m e /\
  2 * Z.abs (num * 2 ^ BIAS - m * 2 ^ (e + BIAS) * den) <= 2 ^ (e + BIAS) * den /\
  (2 * Z.abs (num * 2 ^ BIAS - m * 2 ^ (e + BIAS) * den) = 2 ^ (e + BIAS) * den -> Z.even m = true).
Proof.
  intros Hnum Hden. unfold round_ne.
  rewrite !shl_eq by lia.
  replace (Z.log2 num + BIAS) with (Z.log2 (num * 2 ^ BIAS))
    by (rewrite Z.log2_mul_pow2 by (unfold BIAS; lia); lia).
  rewrite (ltb_cancel num den BIAS) by (unfold BIAS; lia).
  assert (HB : 0 < 2 ^ BIAS) by (apply pow2_pos; unfold BIAS; lia).
  set (n' := num * 2 ^ BIAS). assert (Hn' : 0 < n') by (unfold n'; apply Z.mul_pos_pos; lia).
  set (a := Z.log2 n'). set (b := Z.log2 den).
  pose proof (Z.log2_spec n' Hn') as Ha. fold a in Ha. rewrite <- Z.add_1_r in Ha.
  pose proof (Z.log2_spec den Hden) as Hb. fold b in Hb. rewrite <- Z.add_1_r in Hb.
  pose proof (Z.log2_nonneg n') as Ha0. fold a in Ha0.
  pose proof (Z.log2_nonneg den) as Hb0. fold b in Hb0.
  set (l := a - b).
  set (fl := if n' <? den * 2 ^ Z.max l 0 then l - 1 else l).
  (* what is known about fl *)
  assert (Hup : n' < den * 2 ^ (Z.max fl 0 + 1)).
  { destruct (Z_lt_le_dec l 0) as [Hneg|Hpos].
    - (* n' < den already *)
      assert (n' < den).
      { assert (2 ^ (a + 1) <= 2 ^ b) by (apply pow2_le; lia). lia. }
      assert (1 <= 2 ^ (Z.max fl 0 + 1)) by (pose proof (pow2_pos (Z.max fl 0 + 1) ltac:(lia)); lia).
      apply (Z.lt_le_trans _ den); [assumption|].
      rewrite <- (Z.mul_1_r den) at 1. apply Z.mul_le_mono_nonneg_l; lia.
    - unfold fl. rewrite (Z.max_l l 0) by lia.
      destruct (n' <? den * 2 ^ l) eqn:T.
      + apply Z.ltb_lt in T.
        assert (2 ^ l <= 2 ^ (Z.max (l - 1) 0 + 1)) by (apply pow2_le; lia).
        apply (Z.lt_le_trans _ (den * 2 ^ l)); [exact T|]. apply Z.mul_le_mono_nonneg_l; lia.
      + rewrite (Z.max_l l 0) by lia.
        assert (E1 : 2 ^ (a + 1) = 2 ^ (l + 1) * 2 ^ b) by (rewrite <- pow2_add by lia; f_equal; unfold l; lia).
        assert (0 < 2 ^ (l + 1)) by (apply pow2_pos; lia).
        apply (Z.lt_le_trans _ (2 ^ (l + 1) * 2 ^ b)); [rewrite <- E1; apply Ha|].
        rewrite (Z.mul_comm den). apply Z.mul_le_mono_nonneg_l; lia. }
  assert (Hlow : 108 < fl -> den * 2 ^ fl <= n').
  { intros Hbig. unfold fl in *. assert (Hl : 0 <= l) by (destruct (n' <? den * 2 ^ Z.max l 0); lia).
    rewrite (Z.max_l l 0) in * by lia.
    destruct (n' <? den * 2 ^ l) eqn:T.
    - assert (E1 : 2 ^ a = 2 ^ (l - 1) * 2 ^ (b + 1)) by (rewrite <- pow2_add by lia; f_equal; unfold l; lia).
      assert (0 < 2 ^ (l - 1)) by (apply pow2_pos; lia).
      apply (Z.le_trans _ (2 ^ a)); [|apply Ha].
      rewrite E1, (Z.mul_comm den). apply Z.mul_le_mono_nonneg_l; lia.
    - apply Z.ltb_ge in T. exact T. }
  clearbody fl.
  set (e' := Z.max (fl - 52) 56).
  set (c := Z.min BIAS e').
  assert (Hc : 0 <= c <= BIAS /\ c <= e') by (unfold c, e', BIAS; lia).
  assert (HPc : 0 < 2 ^ c) by (apply pow2_pos; lia).
  set (X := num * 2 ^ (BIAS - c)). set (Y := den * 2 ^ (e' - c)).
  assert (HX : 0 < X) by (unfold X; apply Z.mul_pos_pos; [lia|apply pow2_pos; lia]).
  assert (HY : 0 < Y) by (unfold Y; apply Z.mul_pos_pos; [lia|apply pow2_pos; lia]).
  assert (EX : X * 2 ^ c = n').
  { unfold X, n'. rewrite <- Z.mul_assoc, <- pow2_add by lia. do 2 f_equal. lia. }
  assert (EY : Y * 2 ^ c = den * 2 ^ e').
  { unfold Y. rewrite <- Z.mul_assoc, <- pow2_add by lia. do 2 f_equal. lia. }
  destruct (div_rne_spec X Y ltac:(lia) HY) as (Hq1 & Hq2 & Hq3).
  set (q := div_rne X Y) in *.
  (* bounds on the quotient *)
  assert (Hqhi : q <= p53).
  { assert (X < Y * p53).
    { apply (Z.mul_lt_mono_pos_r (2 ^ c)); [lia|].
      replace (Y * p53 * 2 ^ c) with (den * 2 ^ e' * p53) by (rewrite <- EY; ring). rewrite EX.
      assert (2 ^ (Z.max fl 0 + 1) <= 2 ^ e' * p53).
      { rewrite p53_eq, <- pow2_add by (unfold e'; lia). apply pow2_le. unfold e'. lia. }
      apply (Z.lt_le_trans _ (den * 2 ^ (Z.max fl 0 + 1))); [exact Hup|].
      rewrite <- Z.mul_assoc. apply Z.mul_le_mono_nonneg_l; lia. }
    assert (X / Y < p53) by (apply Z.div_lt_upper_bound; lia). lia. }
  assert (Hqlo : 56 < e' -> p52 <= q).
  { intros Hbig. assert (Hfl : 108 < fl) by (unfold e' in Hbig; lia).
    assert (E' : e' = fl - 52) by (unfold e'; lia).
    assert (Y * p52 <= X).
    { apply (Z.mul_le_mono_pos_r _ _ (2 ^ c)); [lia|].
      replace (Y * p52 * 2 ^ c) with (Y * 2 ^ c * p52) by ring. rewrite EY, EX.
      rewrite <- Z.mul_assoc, p52_eq, <- pow2_add by lia. replace (e' + 52) with fl by lia. apply Hlow. exact Hfl. }
    assert (p52 <= X / Y) by (apply Z.div_le_lower_bound; lia). lia. }
  destruct (q =? 0) eqn:Eq0; [discriminate|]. apply Z.eqb_neq in Eq0.
  assert (Hq0 : 0 < q) by (assert (0 <= X / Y) by (apply Z.div_pos; lia); lia).
  (* the rounded value is q * 2^e' in both branches *)
  destruct (q =? p53) eqn:Eq53.
  - apply Z.eqb_eq in Eq53.
    destruct (971 <? e' + 1 - BIAS) eqn:Ov; [discriminate|]. apply Z.ltb_ge in Ov.
    intros H. inversion H; subst m e. clear H.
    assert (Hval : p52 * 2 ^ (e' + 1 - BIAS + BIAS) = q * 2 ^ e').
    { replace (e' + 1 - BIAS + BIAS) with (1 + e') by lia. rewrite pow2_add by lia. rewrite Eq53. change (2 ^ 1) with 2. unfold p52, p53. ring. }
    split; [|split].
    + left. unfold p52, p53, BIAS, e' in *. lia.
    + rewrite Hval. replace (num * 2 ^ BIAS) with n' by reflexivity.
      replace (n' - q * 2 ^ e' * den) with ((X - q * Y) * 2 ^ c) by (rewrite <- EX; replace (q * 2 ^ e' * den) with (q * (den * 2 ^ e')) by ring; rewrite <- EY; ring).
      rewrite Z.abs_mul, (Z.abs_eq (2 ^ c)) by lia.
      assert (Hle : 2 ^ e' * den <= 2 ^ (e' + 1 - BIAS + BIAS) * den).
      { apply Z.mul_le_mono_nonneg_r; [lia|]. apply pow2_le. lia. }
      replace (2 ^ e' * den) with (Y * 2 ^ c) in Hle by (rewrite EY; ring).
      apply (Z.le_trans _ (Y * 2 ^ c)); [|exact Hle].
      rewrite Z.mul_assoc. apply Z.mul_le_mono_nonneg_r; lia.
    + intros _. reflexivity.
  - apply Z.eqb_neq in Eq53.
    destruct (971 <? e' - BIAS) eqn:Ov; [discriminate|]. apply Z.ltb_ge in Ov.
    intros H. inversion H; subst m e. clear H.
    replace (e' - BIAS + BIAS) with e' by lia.
    assert (Hdiff : n' - q * 2 ^ e' * den = (X - q * Y) * 2 ^ c).
    { rewrite <- EX. replace (q * 2 ^ e' * den) with (q * (den * 2 ^ e')) by ring. rewrite <- EY. ring. }
    fold n'. rewrite Hdiff, Z.abs_mul, (Z.abs_eq (2 ^ c)) by lia.
    replace (2 ^ e' * den) with (Y * 2 ^ c) by (rewrite EY; ring).
    split; [|split].
    + destruct (Z_lt_le_dec 56 e') as [Hbig|Hsmall].
      * left. specialize (Hqlo Hbig). unfold BIAS, e' in *. lia.
      * assert (e' = 56) by (unfold e' in *; lia).
        destruct (Z_lt_le_dec q p52); [right|left]; unfold BIAS in *; lia.
    + rewrite Z.mul_assoc. apply Z.mul_le_mono_nonneg_r; lia.
    + intros Htie. apply Hq3. apply (Z.mul_reg_r _ _ (2 ^ c)); lia.
Qed.

(* ================================================================== *)
(* Examples (all checked against IEEE-754 / Rust) *)

Example round_exact_ex : round_ne false 9007199254740991 1 = of_int 9007199254740991 /\
                         of_int 9007199254740991 = FFin false 9007199254740991 0 /\
                         of_int 1000 = FFin false 8796093022208000 (-43).
Proof. vm_compute. repeat split; reflexivity. Qed.

Example round_ties_even_ex :       (* 2^53 + 1 -> 2^53,  2^53 + 3 -> 2^53 + 4 *)
  round_ne false 9007199254740993 1 = FFin false 4503599627370496 1 /\
  round_ne false 9007199254740995 1 = FFin false 4503599627370498 1.
Proof. vm_compute. split; reflexivity. Qed.

Example mul_exact_ex : mul (of_int 1048576) (of_int 8589934591) = of_int 9007199253692416.
Proof. vm_compute. reflexivity. Qed.

Example mul_rounds_ex :            (* 0.1 (= 0x1.999999999999ap-4) * 1000 rounds to exactly 100 *)
  parse_f64 (s "0.1"%string) = Some (FFin false 7205759403792794 (-56)) /\
  mul (FFin false 7205759403792794 (-56)) (of_int 1000) = of_int 100.
Proof. vm_compute. split; reflexivity. Qed.

Example parse_f64_ex :
  parse_f64 (s "1e23"%string) = Some (FFin false 5960464477539062 24) /\               (* rounds down *)
  parse_f64 (s "9007199254740993"%string) = Some (FFin false 4503599627370496 1) /\     (* tie to even *)
  parse_f64 (s "4.9e-324"%string) = Some (FFin false 1 (-1074)) /\                      (* smallest subnormal *)
  parse_f64 (s "2.4e-324"%string) = Some (FZero false) /\
  parse_f64 (s "-0.0"%string) = Some (FZero true) /\
  parse_f64 (s "1.7976931348623158e308"%string) = Some (FFin false 9007199254740991 971) /\   (* f64::MAX *)
  parse_f64 (s "1.797693134862315808e308"%string) = Some (FInf false) /\
  parse_f64 (s "-iNfInItY"%string) = Some (FInf true) /\
  parse_f64 (s "+nan"%string) = Some FNaN /\
  parse_f64 (s ".5"%string) = Some (FFin false 4503599627370496 (-53)) /\
  parse_f64 (s "5."%string) = Some (of_int 5) /\
  parse_f64 (s "."%string) = None /\ parse_f64 (s "1e"%string) = None /\ parse_f64 (s "1_0"%string) = None /\
  parse_f64 (s "+"%string) = None /\ parse_f64 (s "0x10"%string) = None.
Proof. vm_compute. repeat split; reflexivity. Qed.

Example div_show_ex :
  div (of_int 1) (of_int 3) = FFin false 6004799503160661 (-54) /\
  show_prec 20 (div (of_int 1) (of_int 3)) = s "0.33333333333333331483"%string /\
  show_prec 1 (div (of_int 1) (of_int 4)) = s "0.2"%string /\          (* 0.25: half to even *)
  show_prec 1 (div (of_int 3) (of_int 4)) = s "0.8"%string /\          (* 0.75: half to even *)
  show_prec 2 (div (of_int 1005) (of_int 1000)) = s "1.00"%string /\   (* 1.005 is 1.00499999999999989... *)
  show_prec 0 (div (of_int 5) (of_int 2)) = s "2"%string /\
  show_prec 3 (of_int 7) = s "7.000"%string.
Proof. vm_compute. repeat split; reflexivity. Qed.

Example to_u64_ex :
  of_u64 18446744073709551615 = FFin false 4503599627370496 12 /\      (* u64::MAX as f64 = 2^64 *)
  to_u64 (of_u64 18446744073709551615) = 18446744073709551615 /\       (* saturates *)
  to_u64 (FFin true 4503599627370496 0) = 0 /\ to_u64 FNaN = 0 /\ to_u64 (FInf false) = u64_max /\
  to_u64 (div (of_int 7) (of_int 2)) = 3.
Proof. vm_compute. repeat split; reflexivity. Qed.

Example round_ne_correct_ex :      (* 1/10: within half an ulp, canonical *)
  round_ne false 1 10 = FFin false 7205759403792794 (-56) /\
  2 * Z.abs (1 * 2 ^ 56 - 7205759403792794 * 10) <= 10.
Proof. vm_compute. split; [reflexivity|discriminate]. Qed.
