(* Parser for a subset of Rust-regex syntax (regex 1.11 / regex-syntax 0.8.5, the versions
   pinned in /repo/Cargo.lock) and the model of Regex::new(p).is_match(subject).

   The parser is a single structurally recursive pass over the pattern with an explicit
   group stack -- the same shape as regex-syntax's parse_with_comments (push_group /
   pop_group / push_alternate), so it is total without fuel.

   Subset (anything else => None, i.e. "outside the model", NOT "Rust rejects it"):
     literals; `]` and `}` outside a class are literals (as in regex-syntax);
     escapes of the meta characters \ . + * ? ( ) | [ ] { } ^ $ # & - ~ ; \d \w \s \D \W \S
     (ASCII approximations of the Unicode classes); \n \t \r;
     `.`; postfix * + ? with an optional lazy marker ? (laziness is irrelevant to is_match);
     alternation; groups ( ) and (?: ); bracket classes with ranges, negation, escapes;
     `^` only as the first token (optionally before/after a leading (?i)), `$` only as the
     last token, and neither combined with a top-level alternation (where they would bind
     to one branch only); also `$` immediately before the `)` that closes a depth-1 group
     ending the pattern, as in `x(?:/|$)` or `(?:.*\.o$)` (see KDollar); a leading flag group (?i) (?s) (?is) (?si): i = ASCII
     case-insensitive, s = `.` also matches U+000A, both for the whole pattern.
   Not modelled: counted repetition {m,n}, other flags, named groups, nested/posix classes,
   class set operations, \b, \p{..}, \x.., Unicode case folding. *)
From Coq Require Import List NArith Bool Lia String.
From FS Require Import lib.Str lib.Regex.
Import ListNotations.
Open Scope N_scope.

Record rx := mkrx { anchored_start : bool; anchored_end : bool; body : re }.

Inductive kind :=
| KBackslash | KDot | KStar | KPlus | KQuest | KBar | KLParen | KRParen | KLBrack | KLBrace
| KCaret | KDollar | KLit.

Definition classify (c : N) : kind :=
  if c =? 92 then KBackslash else if c =? 46 then KDot else if c =? 42 then KStar
  else if c =? 43 then KPlus else if c =? 63 then KQuest else if c =? 124 then KBar
  else if c =? 40 then KLParen else if c =? 41 then KRParen else if c =? 91 then KLBrack
  else if c =? 123 then KLBrace else if c =? 94 then KCaret else if c =? 36 then KDollar
  else KLit.

Definition lit (ci : bool) (c : N) : re := if ci then ChrI c else Chr c.
Definition dot (ds : bool) : re := if ds then AnyNL else Any.     (* ds = flag s *)

Definition digit_rs : list (N * N) := [(48, 57)].
Definition word_rs : list (N * N) := [(48, 57); (65, 90); (95, 95); (97, 122)].
Definition space_rs : list (N * N) := [(9, 13); (32, 32)].

(* regex_syntax::is_meta_character *)
Definition meta_chars : list N :=
  [92; 46; 43; 42; 63; 40; 41; 124; 91; 93; 123; 125; 94; 36; 35; 38; 45; 126].
Definition is_meta (c : N) : bool := existsb (N.eqb c) meta_chars.

(* ASCII case closure of a range: the range itself plus the images of its letter parts *)
Definition fold_range (r : N * N) : list (N * N) :=
  let (lo, hi) := r in
  r :: (if N.max lo 97 <=? N.min hi 122 then [(N.max lo 97 - 32, N.min hi 122 - 32)] else [])
    ++ (if N.max lo 65 <=? N.min hi 90 then [(N.max lo 65 + 32, N.min hi 90 + 32)] else []).
Definition mk_class (ci neg : bool) (rs : list (N * N)) : cset :=
  CClass neg (if ci then flat_map fold_range rs else rs).

Definition escape_atom (ci : bool) (e : N) : option re :=
  if is_meta e then Some (lit ci e)
  else if e =? 100 then Some (Class false digit_rs)
  else if e =? 68 then Some (Class true digit_rs)
  else if e =? 119 then Some (Class false word_rs)
  else if e =? 87 then Some (Class true word_rs)
  else if e =? 115 then Some (Class false space_rs)
  else if e =? 83 then Some (Class true space_rs)
  else if e =? 110 then Some (lit ci 10)
  else if e =? 116 then Some (lit ci 9)
  else if e =? 114 then Some (lit ci 13)
  else None.

Definition class_escape (e : N) : option (list (N * N)) :=
  if is_meta e then Some [(e, e)]
  else if e =? 100 then Some digit_rs
  else if e =? 119 then Some word_rs
  else if e =? 115 then Some space_rs
  else if e =? 110 then Some [(10, 10)]
  else if e =? 116 then Some [(9, 9)]
  else if e =? 114 then Some [(13, 13)]
  else None.

(* one step inside a bracket class, decided without recursion *)
Inductive cdec := CDClose | CDFail | CDLit (c : N) | CDRange (lo hi : N) | CDEsc (rs : list (N * N)).

Definition class_decide (first : bool) (c : N) (rest : str) : cdec :=
  if (c =? 93) && negb first then CDClose
  else if c =? 91 then CDFail                       (* nested / posix classes: unsupported *)
  else if c =? 92 then
    match rest with
    | [] => CDFail
    | e :: _ => match class_escape e with Some rs => CDEsc rs | None => CDFail end
    end
  else
    let nxt := hd 0 rest in
    if c =? 45 then (if first || (nxt =? 93) then CDLit c else CDFail)
    else if ((c =? 38) || (c =? 126)) && (nxt =? c) then CDFail   (* && ~~ set operations *)
    else match rest with
         | d :: h :: _ =>
             if (d =? 45) && negb (h =? 93) then
               if (h =? 92) || (h =? 91) || (h =? 45) then CDFail
               else if c <=? h then CDRange c h else CDFail
             else CDLit c
         | _ => CDLit c
         end.

Definition close_seq (sq : list re) : re := fold_left (fun acc i => Seq i acc) sq Eps.
Definition close (alts sq : list re) : re := fold_left (fun acc a => Alt a acc) alts (close_seq sq).
Definition is_nil {A} (l : list A) : bool := match l with [] => true | _ => false end.

Definition frame := (list re * list re)%type.
Definition cstate := (bool * bool * list (N * N))%type.   (* negated, at first position, ranges (reversed) *)

(* result: body, anchored_end, has a top-level alternation *)
Fixpoint go (ci ds : bool) (stk : list frame) (alts sq : list re) (q : bool) (cls : option cstate)
            (inp : str) {struct inp} : option (re * bool * bool) :=
  match inp with
  | [] =>
      match cls, stk with
      | None, [] => Some (close alts sq, false, negb (is_nil alts))
      | _, _ => None
      end
  | c :: rest =>
      match cls with
      | Some (neg, first, rs) =>
          match class_decide first c rest with
          | CDClose => go ci ds stk alts (Sym (mk_class ci neg (rev rs)) :: sq) false None rest
          | CDFail => None
          | CDLit d => go ci ds stk alts sq q (Some (neg, false, (d, d) :: rs)) rest
          | CDRange lo hi =>
              match rest with
              | _ :: _ :: rest' => go ci ds stk alts sq q (Some (neg, false, (lo, hi) :: rs)) rest'
              | _ => None
              end
          | CDEsc rs' =>
              match rest with
              | _ :: rest' => go ci ds stk alts sq q (Some (neg, false, rev rs' ++ rs)) rest'
              | [] => None
              end
          end
      | None =>
          match classify c with
          | KBackslash =>
              match rest with
              | [] => None
              | e :: rest' =>
                  match escape_atom ci e with
                  | Some a => go ci ds stk alts (a :: sq) false None rest'
                  | None => None
                  end
              end
          | KDot => go ci ds stk alts (dot ds :: sq) false None rest
          | KStar =>
              match sq with [] => None | a :: sq' => go ci ds stk alts (Star a :: sq') true None rest end
          | KPlus =>
              match sq with [] => None | a :: sq' => go ci ds stk alts (Plus a :: sq') true None rest end
          | KQuest =>
              if q then go ci ds stk alts sq false None rest      (* lazy marker *)
              else match sq with [] => None | a :: sq' => go ci ds stk alts (Opt a :: sq') true None rest end
          | KBar => go ci ds stk (close_seq sq :: alts) [] false None rest
          | KLParen =>
              match rest with
              | [] => None
              | c1 :: rest1 =>
                  if c1 =? 63 then
                    match rest1 with
                    | [] => None
                    | c2 :: rest2 =>
                        if c2 =? 58 then go ci ds ((alts, sq) :: stk) [] [] false None rest2 else None
                    end
                  else go ci ds ((alts, sq) :: stk) [] [] false None rest
              end
          | KRParen =>
              match stk with
              | [] => None
              | (alts0, sq0) :: stk' => go ci ds stk' alts0 (close alts sq :: sq0) false None rest
              end
          | KLBrack =>
              match rest with
              | [] => None
              | c1 :: rest1 =>
                  if c1 =? 94 then go ci ds stk alts sq false (Some (true, true, [])) rest1
                  else go ci ds stk alts sq false (Some (false, true, [])) rest
              end
          | KLBrace => None
          | KCaret => None
          | KDollar =>
              match rest, stk with
              | [], [] => Some (close alts sq, true, negb (is_nil alts))
              | [c1], [(alts0, sq0)] =>
                  (* `$` closing the LAST alternative of a FINAL group of a pattern without
                     top-level alternation:  P(A1|..|An|B$)  is  P(A1 X|..|An X|B)$  with X = any
                     string, because "not anchored at the end" means "followed by anything". *)
                  if (c1 =? 41) && is_nil alts0
                  then Some (close_seq (close (map (fun a => Seq a (Star AnyNL)) alts) sq :: sq0), true, false)
                  else None
              | _, _ => None
              end
          | KLit => go ci ds stk alts (lit ci c :: sq) false None rest
          end
      end
  end.

(* leading flag group: (?i) (?s) (?is) (?si); result ((i, s), rest).  Repeated flags are a
   Rust error and other flags are outside the subset: both fall through to `go`, which
   answers None on `(?` not followed by `:`. *)
Definition strip_flag (x : str) : (bool * bool) * str :=
  match x with
  | a :: b :: c :: d :: r =>
      if (a =? 40) && (b =? 63) then
        if (c =? 105) && (d =? 41) then ((true, false), r)
        else if (c =? 115) && (d =? 41) then ((false, true), r)
        else match r with
             | e :: r' =>
                 if (e =? 41) && (((c =? 105) && (d =? 115)) || ((c =? 115) && (d =? 105)))
                 then ((true, true), r') else ((false, false), x)
             | [] => ((false, false), x)
             end
      else ((false, false), x)
  | _ => ((false, false), x)
  end.
Definition strip_caret (x : str) : bool * str :=
  match x with a :: r => if a =? 94 then (true, r) else (false, x) | [] => (false, x) end.

Definition parse_regex (p : str) : option rx :=
  let '(f1, p1) := strip_flag p in
  let '(as_, p2) := strip_caret p1 in
  let '(f2, p3) := if fst f1 || snd f1 then ((false, false), p2) else strip_flag p2 in
  match go (fst f1 || fst f2) (snd f1 || snd f2) [] [] [] false None p3 with
  | Some (b, ae, topalt) => if (as_ || ae) && topalt then None else Some (mkrx as_ ae b)
  | None => None
  end.

Definition rx_re (x : rx) : re :=
  let a := if anchored_start x then body x else Seq (Star AnyNL) (body x) in
  if anchored_end x then a else Seq a (Star AnyNL).

Definition is_match (p subject : str) : option bool :=
  match parse_regex p with Some x => Some (matches (rx_re x) subject) | None => None end.

(* what is_match means, in terms of the denotational semantics of the parsed body *)
Theorem rx_re_ok x w :
  matches (rx_re x) w = true <->
  exists a m b, w = a ++ m ++ b /\ lang (body x) m /\
                (anchored_start x = true -> a = []) /\ (anchored_end x = true -> b = []).
Proof.
  rewrite matches_ok. unfold rx_re. destruct x as [as_ ae r]. cbn [anchored_start anchored_end body].
  destruct as_, ae; split.
  - intros H. exists [], w, []. rewrite app_nil_r. auto.
  - intros (a & m & b & E & Hm & Ha & Hb). rewrite (Ha eq_refl), (Hb eq_refl), app_nil_r in E. now subst.
  - intros H. apply lang_seq in H. destruct H as (m & b & E & Hm & _). exists [], m, b.
    repeat split; auto; discriminate.
  - intros (a & m & b & E & Hm & Ha & _). rewrite (Ha eq_refl) in E. cbn [app] in E. subst.
    constructor; [exact Hm|apply star_anynl].
  - intros H. apply lang_seq in H. destruct H as (a & m & E & _ & Hm). exists a, m, [].
    rewrite app_nil_r. repeat split; auto; discriminate.
  - intros (a & m & b & E & Hm & _ & Hb). rewrite (Hb eq_refl), app_nil_r in E. subst.
    constructor; [apply star_anynl|exact Hm].
  - intros H. apply lang_seq in H. destruct H as (x & b & E & H & _).
    apply lang_seq in H. destruct H as (a & m & E' & _ & Hm). subst. exists a, m, b.
    rewrite <- app_assoc. repeat split; auto; discriminate.
  - intros (a & m & b & E & Hm & _ & _). subst. rewrite app_assoc.
    constructor; [|apply star_anynl]. constructor; [apply star_anynl|exact Hm].
Qed.

Theorem is_match_ok p w x :
  parse_regex p = Some x ->
  exists v, is_match p w = Some v /\
    (v = true <-> exists a m b, w = a ++ m ++ b /\ lang (body x) m /\
                    (anchored_start x = true -> a = []) /\ (anchored_end x = true -> b = [])).
Proof.
  intros P. unfold is_match. rewrite P. eexists. split; [reflexivity|apply rx_re_ok].
Qed.

(* ---- step equations of the parser, used by proofs about generated patterns ---- *)
Lemma classify_lit c :
  c <> 92 -> c <> 46 -> c <> 42 -> c <> 43 -> c <> 63 -> c <> 124 -> c <> 40 -> c <> 41 ->
  c <> 91 -> c <> 123 -> c <> 94 -> c <> 36 -> classify c = KLit.
Proof.
  intros. unfold classify. rewrite !(proj2 (N.eqb_neq c _)) by assumption. reflexivity.
Qed.

Lemma go_lit ci ds stk alts sq q c rest :
  classify c = KLit ->
  go ci ds stk alts sq q None (c :: rest) = go ci ds stk alts (lit ci c :: sq) false None rest.
Proof. intros K. cbn [go]. rewrite K. reflexivity. Qed.

Lemma go_esc ci ds stk alts sq q e rest :
  is_meta e = true ->
  go ci ds stk alts sq q None (92 :: e :: rest) = go ci ds stk alts (lit ci e :: sq) false None rest.
Proof.
  intros M. change (go ci ds stk alts sq q None (92 :: e :: rest))
    with (match escape_atom ci e with
          | Some a => go ci ds stk alts (a :: sq) false None rest | None => None end).
  unfold escape_atom. rewrite M. reflexivity.
Qed.

Lemma go_dot ci ds stk alts sq q rest :
  go ci ds stk alts sq q None (46 :: rest) = go ci ds stk alts (dot ds :: sq) false None rest.
Proof. reflexivity. Qed.

Lemma go_dot_star ci ds stk alts sq q rest :
  go ci ds stk alts sq q None (46 :: 42 :: rest) = go ci ds stk alts (Star (dot ds) :: sq) true None rest.
Proof. reflexivity. Qed.

Lemma go_dollar_end ci ds sq q : go ci ds [] [] sq q None [36] = Some (close_seq sq, true, false).
Proof. reflexivity. Qed.

Lemma close_seq_rev l : close_seq (rev l) = fold_right Seq Eps l.
Proof. unfold close_seq. rewrite <- fold_left_rev_right, rev_involutive. reflexivity. Qed.

(* `^(?i)` X  is parsed as: anchored start, case-insensitive, body X *)
Lemma parse_regex_anchored_ci (x : str) :
  parse_regex (94 :: 40 :: 63 :: 105 :: 41 :: x) =
  match go true false [] [] [] false None x with
  | Some (b, ae, topalt) => if topalt then None else Some (mkrx true ae b)
  | None => None
  end.
Proof. reflexivity. Qed.

(* `^(?is)` X  is parsed as: anchored start, case-insensitive, dot matches newline, body X *)
Lemma parse_regex_anchored_cis (x : str) :
  parse_regex (94 :: 40 :: 63 :: 105 :: 115 :: 41 :: x) =
  match go true true [] [] [] false None x with
  | Some (b, ae, topalt) => if topalt then None else Some (mkrx true ae b)
  | None => None
  end.
Proof. reflexivity. Qed.

(* ---- sanity examples ---- *)
Example ex01 : is_match (s "^(?i)a.*\.txt$") (s "AbC.TXT") = Some true.
Proof. vm_compute. reflexivity. Qed.
Example ex02 : is_match (s "^(?i)a.*\.txt$") (s "AbCxTXT") = Some false.
Proof. vm_compute. reflexivity. Qed.
Example ex03 : is_match (s "^a.*\.txt$") (s "AbC.txt") = Some false.          (* case-sensitive *)
Proof. vm_compute. reflexivity. Qed.
Example ex04 : is_match (s "b+c") (s "aabbbcd") = Some true.                  (* unanchored *)
Proof. vm_compute. reflexivity. Qed.
Example ex05 : is_match (s "^b+c") (s "aabbbcd") = Some false.
Proof. vm_compute. reflexivity. Qed.
Example ex06 : is_match (s "b+c$") (s "aabbbcd") = Some false.
Proof. vm_compute. reflexivity. Qed.
Example ex07 : is_match (s "^[a-z0-9_]+$") (s "ab_09z") = Some true.
Proof. vm_compute. reflexivity. Qed.
Example ex08 : is_match (s "^[a-z0-9_]+$") (s "ab-09z") = Some false.
Proof. vm_compute. reflexivity. Qed.
Example ex09 : is_match (s "^[^a-z]+$") (s "AB-09") = Some true.
Proof. vm_compute. reflexivity. Qed.
Example ex10 : is_match (s "^(?i)[^a-z]+$") (s "AB-09") = Some false.        (* folded before negation *)
Proof. vm_compute. reflexivity. Qed.
Example ex11 : is_match (s "^(foo|ba(r|z))\d?$") (s "baz7") = Some true.
Proof. vm_compute. reflexivity. Qed.
Example ex12 : is_match (s "^(foo|ba(r|z))\d?$") (s "bax") = Some false.
Proof. vm_compute. reflexivity. Qed.
Example ex13 : is_match (s "^a\.\*\[\]\(\)\^\$\\\+\?\|\{\}$") (s "a.*[]()^$\+?|{}") = Some true.
Proof. vm_compute. reflexivity. Qed.
Example ex14 : is_match (s "^a.b$") [97; 10; 98] = Some false.                (* . is not newline *)
Proof. vm_compute. reflexivity. Qed.
Example ex15 : is_match (s "^a[^x]b$") [97; 10; 98] = Some true.              (* a negated class is *)
Proof. vm_compute. reflexivity. Qed.
Example ex16 : is_match (s "^\w+\s\w+$") (s "hello world") = Some true.
Proof. vm_compute. reflexivity. Qed.
Example ex17 : is_match (s "^a+?b*?c??$") (s "aab") = Some true.              (* lazy markers *)
Proof. vm_compute. reflexivity. Qed.
Example ex18 : is_match (s "^a+?$") (s "") = Some false.                      (* a+? is not (a+)? *)
Proof. vm_compute. reflexivity. Qed.
Example ex19 : is_match (s "a{2}") (s "aa") = None.                           (* outside the subset *)
Proof. vm_compute. reflexivity. Qed.
Example ex20 : is_match (s "*a") (s "a") = None.                              (* Rust: repetition operator missing expression *)
Proof. vm_compute. reflexivity. Qed.
Example ex21 : is_match (s "(a") (s "a") = None.
Proof. vm_compute. reflexivity. Qed.
Example ex22 : is_match (s "^a|b$") (s "a") = None.                           (* anchors bind to one branch: outside the subset *)
Proof. vm_compute. reflexivity. Qed.
Example ex23 : is_match (s "x(?:a|b)*y") (s "--xababy--") = Some true.
Proof. vm_compute. reflexivity. Qed.
Example ex24 : is_match (s "^[]a-]+$") (s "]a-") = Some true.                 (* ] first and - last are literals *)
Proof. vm_compute. reflexivity. Qed.
Example ex25 : is_match (s "") (s "anything") = Some true.
Proof. vm_compute. reflexivity. Qed.
Example ex26 : parse_regex (s "^(?i)a.*$") =
               Some (mkrx true true (Seq (ChrI 97) (Seq (Star Any) Eps))).
Proof. vm_compute. reflexivity. Qed.

Example ex27 : is_match (s "^(?is)a.b$") [97; 10; 66] = Some true.            (* s: . matches newline *)
Proof. vm_compute. reflexivity. Qed.
Example ex28 : is_match (s "^(?s)a.b$") [97; 10; 66] = Some false.            (* s alone is case-sensitive *)
Proof. vm_compute. reflexivity. Qed.
Example ex29 : is_match (s "^(?s)a.b$") [97; 10; 98] = Some true.
Proof. vm_compute. reflexivity. Qed.
Example ex30 : is_match (s "(?si)^a.*b$") [65; 10; 10; 98] = Some true.
Proof. vm_compute. reflexivity. Qed.
Example ex31 : is_match (s "^(?i)a.b$") [97; 10; 98] = Some false.            (* i alone: . is not newline *)
Proof. vm_compute. reflexivity. Qed.
Example ex32 : is_match (s "(?ii)a") (s "a") = None.                          (* Rust: duplicate flag *)
Proof. vm_compute. reflexivity. Qed.
Example ex33 : parse_regex (s "^(?is)a.*\+$") =
               Some (mkrx true true (Seq (ChrI 97) (Seq (Star AnyNL) (Seq (ChrI 43) Eps)))).
Proof. vm_compute. reflexivity. Qed.

(* `$` closing the last alternative of a final group *)
Example ex34 : is_match (s "^a(?:/|$)") (s "a") = Some true.
Proof. vm_compute. reflexivity. Qed.
Example ex35 : is_match (s "^a(?:/|$)") (s "a/b") = Some true.
Proof. vm_compute. reflexivity. Qed.
Example ex36 : is_match (s "^a(?:/|$)") (s "ab") = Some false.
Proof. vm_compute. reflexivity. Qed.
Example ex37 : is_match (s "^d/(?:.*\.o$)") (s "d/x/a.o") = Some true.
Proof. vm_compute. reflexivity. Qed.
Example ex38 : is_match (s "^d/(?:.*\.o$)") (s "d/x/a.ob") = Some false.
Proof. vm_compute. reflexivity. Qed.
Example ex39 : is_match (s "a|(b$)") (s "b") = None.                          (* top-level alternation: outside the subset *)
Proof. vm_compute. reflexivity. Qed.
Example ex40 : is_match (s "((b$))") (s "b") = None.                          (* depth 2: outside the subset *)
Proof. vm_compute. reflexivity. Qed.

Print Assumptions rx_re_ok.
Print Assumptions is_match_ok.
