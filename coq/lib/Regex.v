(* Regular expressions over code-point strings: denotational semantics, Brzozowski
   derivatives with simplifying smart constructors, whole-string matcher and unanchored
   search, each proved equivalent to the denotational semantics.

   Character sets are structural (no functions inside the AST) so that ASTs can be
   compared and printed.  Modelling limits, stated once:
     - CChrI / case folding is ASCII-only.  Rust's (?i) is Unicode simple case folding
       (e.g. (?i)k also matches U+212A KELVIN SIGN, (?i)s matches U+017F); the model is
       exact for subjects and patterns restricted to ASCII letters + arbitrary non-letters
       that have no case mapping.
     - CAny is Rust's `.` without the s flag: every scalar value except U+000A. *)
From Coq Require Import List NArith Bool Lia.
From FS Require Import lib.Str.
Import ListNotations.
Open Scope N_scope.

Inductive cset :=
| CChr (c : N)                                 (* exactly c *)
| CChrI (c : N)                                (* c in either ASCII case *)
| CAny                                         (* any char except newline (10) *)
| CAnyNL                                       (* any char *)
| CClass (neg : bool) (ranges : list (N * N)). (* [a-z0-9] / [^...] with inclusive ranges *)

Inductive re :=
| Emp | Eps | Sym (k : cset) | Alt (a b : re) | Seq (a b : re) | Star (a : re).

Notation Chr c := (Sym (CChr c)).
Notation ChrI c := (Sym (CChrI c)).
Notation Any := (Sym CAny).
Notation AnyNL := (Sym CAnyNL).
Notation Class neg rs := (Sym (CClass neg rs)).
Definition Plus (a : re) : re := Seq a (Star a).
Definition Opt (a : re) : re := Alt a Eps.

Definition in_range (c : N) (r : N * N) : bool := (fst r <=? c) && (c <=? snd r).

Definition cset_test (k : cset) (c : N) : bool :=
  match k with
  | CChr d => c =? d
  | CChrI d => lower1 c =? lower1 d
  | CAny => negb (c =? 10)
  | CAnyNL => true
  | CClass neg rs => xorb neg (existsb (in_range c) rs)
  end.

Inductive lang : re -> str -> Prop :=
| LEps : lang Eps []
| LSym k c : cset_test k c = true -> lang (Sym k) [c]
| LAltL a b w : lang a w -> lang (Alt a b) w
| LAltR a b w : lang b w -> lang (Alt a b) w
| LSeq a b u v : lang a u -> lang b v -> lang (Seq a b) (u ++ v)
| LStar0 a : lang (Star a) []
| LStarS a u v : lang a u -> lang (Star a) v -> lang (Star a) (u ++ v).

Fixpoint nullable (r : re) : bool :=
  match r with
  | Emp => false | Eps => true | Sym _ => false
  | Alt a b => nullable a || nullable b
  | Seq a b => nullable a && nullable b
  | Star _ => true
  end.

(* smart constructors: keep derivatives small *)
Definition mkAlt (a b : re) : re :=
  match a, b with Emp, _ => b | _, Emp => a | _, _ => Alt a b end.
Definition mkSeq (a b : re) : re :=
  match a, b with Emp, _ => Emp | _, Emp => Emp | Eps, _ => b | _, _ => Seq a b end.

Fixpoint deriv (c : N) (r : re) : re :=
  match r with
  | Emp | Eps => Emp
  | Sym k => if cset_test k c then Eps else Emp
  | Alt a b => mkAlt (deriv c a) (deriv c b)
  | Seq a b => if nullable a then mkAlt (mkSeq (deriv c a) b) (deriv c b) else mkSeq (deriv c a) b
  | Star a => mkSeq (deriv c a) (Star a)
  end.

Fixpoint matches (r : re) (w : str) : bool :=
  match w with [] => nullable r | c :: w' => matches (deriv c r) w' end.

(* ---- inversion lemmas: no proof below depends on generated hypothesis names ---- *)
Lemma lang_emp w : lang Emp w -> False.
Proof. intros H; inversion H. Qed.
Lemma lang_eps w : lang Eps w -> w = [].
Proof. intros H; inversion H; reflexivity. Qed.
Lemma lang_sym k w : lang (Sym k) w -> exists c, w = [c] /\ cset_test k c = true.
Proof. intros H; inversion H; subst; eauto. Qed.
Lemma lang_alt a b w : lang (Alt a b) w -> lang a w \/ lang b w.
Proof. intros H; inversion H; subst; auto. Qed.
Lemma lang_seq a b w : lang (Seq a b) w -> exists u v, w = u ++ v /\ lang a u /\ lang b v.
Proof. intros H; inversion H; subst; eauto. Qed.

Lemma lang_sym_iff k w : lang (Sym k) w <-> exists c, w = [c] /\ cset_test k c = true.
Proof. split; [apply lang_sym|]. intros (c & -> & T). now constructor. Qed.
Lemma lang_alt_iff a b w : lang (Alt a b) w <-> lang a w \/ lang b w.
Proof. split; [apply lang_alt|]. intros [H|H]; [now apply LAltL|now apply LAltR]. Qed.
Lemma lang_seq_iff a b w : lang (Seq a b) w <-> exists u v, w = u ++ v /\ lang a u /\ lang b v.
Proof. split; [apply lang_seq|]. intros (u & v & -> & Ha & Hb). now constructor. Qed.
Lemma lang_eps_iff w : lang Eps w <-> w = [].
Proof. split; [apply lang_eps|]. intros ->. constructor. Qed.

Lemma lang_mkAlt a b w : lang (mkAlt a b) w <-> lang (Alt a b) w.
Proof.
  rewrite lang_alt_iff.
  assert (EL : forall x, lang Emp w \/ lang x w <-> lang x w).
  { intros x. split; [intros [H|H]; [now apply lang_emp in H|exact H]|now right]. }
  assert (ER : forall x, lang x w \/ lang Emp w <-> lang x w).
  { intros x. split; [intros [H|H]; [exact H|now apply lang_emp in H]|now left]. }
  destruct a; cbn [mkAlt]; try (now rewrite EL);
    destruct b; try (now rewrite ER); now rewrite lang_alt_iff.
Qed.

Lemma lang_mkSeq a b w : lang (mkSeq a b) w <-> lang (Seq a b) w.
Proof.
  assert (EL : forall x, lang (Seq Emp x) w <-> lang Emp w).
  { intros x. split; intros H; [|now apply lang_emp in H].
    apply lang_seq in H. destruct H as (u & v & _ & H & _). now apply lang_emp in H. }
  assert (ER : forall x, lang (Seq x Emp) w <-> lang Emp w).
  { intros x. split; intros H; [|now apply lang_emp in H].
    apply lang_seq in H. destruct H as (u & v & _ & _ & H). now apply lang_emp in H. }
  assert (PL : forall x, lang (Seq Eps x) w <-> lang x w).
  { intros x. split; intros H.
    - apply lang_seq in H. destruct H as (u & v & E & Hu & Hv). apply lang_eps in Hu. now subst.
    - change w with ([] ++ w). constructor; [constructor|exact H]. }
  destruct a; cbn [mkSeq]; try (now rewrite EL);
    destruct b; try (now rewrite ER); try (now rewrite PL); reflexivity.
Qed.

Lemma nullable_ok r : nullable r = true <-> lang r [].
Proof.
  induction r as [| |k|a IHa b IHb|a IHa b IHb|a IHa]; cbn [nullable]; split; intros H.
  - discriminate.
  - now apply lang_emp in H.
  - constructor.
  - reflexivity.
  - discriminate.
  - apply lang_sym in H. destruct H as (c & E & _). discriminate.
  - apply orb_true_iff in H. destruct H as [H|H]; [apply LAltL; now apply IHa|apply LAltR; now apply IHb].
  - apply orb_true_iff. apply lang_alt in H. destruct H as [H|H]; [left; now apply IHa|right; now apply IHb].
  - apply andb_true_iff in H. destruct H as [H1 H2]. change (@nil N) with (@nil N ++ []).
    constructor; [now apply IHa|now apply IHb].
  - apply lang_seq in H. destruct H as (u & v & E & Ha & Hb). symmetry in E. apply app_eq_nil in E.
    destruct E as [-> ->]. apply andb_true_iff. split; [now apply IHa|now apply IHb].
  - constructor.
  - reflexivity.
Qed.

Lemma star_cons a c w : lang (Star a) (c :: w) ->
  exists u v, w = u ++ v /\ lang a (c :: u) /\ lang (Star a) v.
Proof.
  intros H. remember (Star a) as r eqn:Er. remember (c :: w) as x eqn:Ex. revert c w Er Ex.
  induction H as [| | | | | |a' u v Ha _ Hv IHv]; intros c0 w0 Er Ex; try discriminate.
  inversion Er; subst. destruct u as [|y u].
  - cbn [app] in Ex. apply (IHv c0 w0 eq_refl Ex).
  - cbn [app] in Ex. inversion Ex; subst. exists u, v. auto.
Qed.

Lemma seq_cons a b c u v : lang a (c :: u) -> lang b v -> lang (Seq a b) (c :: u ++ v).
Proof. intros Ha Hb. change (c :: u ++ v) with ((c :: u) ++ v). now constructor. Qed.

Lemma deriv_ok c r : forall w, lang (deriv c r) w <-> lang r (c :: w).
Proof.
  induction r as [| |k|a IHa b IHb|a IHa b IHb|a IHa]; intros w; cbn [deriv].
  - split; intros H; now apply lang_emp in H.
  - split; intros H; [now apply lang_emp in H|apply lang_eps in H; discriminate].
  - destruct (cset_test k c) eqn:E; split; intros H.
    + apply lang_eps in H. subst. now constructor.
    + apply lang_sym in H. destruct H as (c' & E' & _). inversion E'; subst. constructor.
    + now apply lang_emp in H.
    + apply lang_sym in H. destruct H as (c' & E' & P). inversion E'; subst. congruence.
  - rewrite lang_mkAlt, !lang_alt_iff, IHa, IHb. reflexivity.
  - assert (FWD : forall x, lang (Seq (deriv c a) b) x -> lang (Seq a b) (c :: x)).
    { intros x H. apply lang_seq in H. destruct H as (u & v & E & Ha & Hb). subst.
      apply seq_cons; [now apply IHa|assumption]. }
    assert (BWD : forall x, lang (Seq a b) (c :: x) ->
                            lang (Seq (deriv c a) b) x \/ (lang a [] /\ lang b (c :: x))).
    { intros x H. apply lang_seq in H. destruct H as (u & v & E & Ha & Hb). destruct u as [|y u].
      - cbn [app] in E. subst. right. auto.
      - cbn [app] in E. inversion E; subst. left. constructor; [now apply IHa|assumption]. }
    destruct (nullable a) eqn:Na; split; intros H.
    + apply lang_mkAlt, lang_alt in H. destruct H as [H|H]; [apply lang_mkSeq in H; now apply FWD|].
      change (c :: w) with ([] ++ c :: w). constructor; [now apply nullable_ok|now apply IHb].
    + apply lang_mkAlt. apply BWD in H. destruct H as [H|[_ H]];
        [apply LAltL; now apply lang_mkSeq|apply LAltR; now apply IHb].
    + apply lang_mkSeq in H. now apply FWD.
    + apply lang_mkSeq. apply BWD in H. destruct H as [H|[H _]]; [assumption|].
      apply nullable_ok in H. congruence.
  - split; intros H.
    + apply lang_mkSeq, lang_seq in H. destruct H as (u & v & E & Ha & Hb). subst.
      change (c :: u ++ v) with ((c :: u) ++ v). apply LStarS; [now apply IHa|assumption].
    + apply lang_mkSeq. apply star_cons in H. destruct H as (u & v & E & H1 & H2). subst.
      constructor; [now apply IHa|assumption].
Qed.

Theorem matches_ok : forall w r, matches r w = true <-> lang r w.
Proof.
  induction w as [|c w IH]; intros r; cbn [matches]; [apply nullable_ok|].
  rewrite IH. apply deriv_ok.
Qed.

(* two matchers agree as booleans as soon as the languages agree *)
Lemma matches_ext r1 r2 w : (lang r1 w <-> lang r2 w) -> matches r1 w = matches r2 w.
Proof.
  intros H. apply eq_true_iff_eq. rewrite !matches_ok. exact H.
Qed.

(* ---- derived forms ---- *)
Lemma star_anynl w : lang (Star AnyNL) w.
Proof.
  induction w as [|c w IH]; [constructor|]. change (c :: w) with ([c] ++ w).
  apply LStarS; [now constructor|exact IH].
Qed.

Lemma lang_opt a w : lang (Opt a) w <-> lang a w \/ w = [].
Proof. unfold Opt. rewrite lang_alt_iff, lang_eps_iff. reflexivity. Qed.

Lemma lang_plus a w : lang (Plus a) w <-> exists u v, w = u ++ v /\ lang a u /\ lang (Star a) v.
Proof. unfold Plus. apply lang_seq_iff. Qed.

(* ---- unanchored search ---- *)
Definition search (r : re) (w : str) : bool :=
  matches (Seq (Star AnyNL) (Seq r (Star AnyNL))) w.

Theorem search_ok r w : search r w = true <-> exists a m b, w = a ++ m ++ b /\ lang r m.
Proof.
  unfold search. rewrite matches_ok. split.
  - intros H. apply lang_seq in H. destruct H as (a & x & E & _ & H).
    apply lang_seq in H. destruct H as (m & b & E' & Hm & _). subst. now exists a, m, b.
  - intros (a & m & b & E & Hm). subst.
    constructor; [apply star_anynl|]. constructor; [exact Hm|apply star_anynl].
Qed.

Print Assumptions matches_ok.
Print Assumptions search_ok.
