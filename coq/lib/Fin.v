(* Finite-domain enumeration: all N below 2^bits, with a completeness lemma, so that a
   boolean check evaluated by vm_compute over the whole domain lifts to a forall. *)
From Coq Require Import List NArith Bool Lia.
Import ListNotations.
Open Scope N_scope.

Fixpoint below_pow2 (bits : nat) : list N :=
  match bits with
  | O => [0]
  | S b => let l := below_pow2 b in l ++ map (fun x => x + 2 ^ N.of_nat b) l
  end.

Lemma below_pow2_complete bits : forall m, m < 2 ^ N.of_nat bits -> In m (below_pow2 bits).
Proof.
  induction bits as [|b IH]; intros m H.
  - cbn in H. left. lia.
  - cbn [below_pow2]. apply in_or_app. rewrite Nat2N.inj_succ, N.pow_succ_r' in H.
    destruct (N.lt_ge_cases m (2 ^ N.of_nat b)) as [L|G]; [left; now apply IH|].
    right. apply in_map_iff. exists (m - 2 ^ N.of_nat b). split; [lia|apply IH; lia].
Qed.

Lemma forall_below_pow2 bits (P : N -> bool) :
  forallb P (below_pow2 bits) = true -> forall m, m < 2 ^ N.of_nat bits -> P m = true.
Proof. intros H m Hm. rewrite forallb_forall in H. apply H. now apply below_pow2_complete. Qed.

Definition all16 : list N := below_pow2 16.
Lemma forall16 (P : N -> bool) : forallb P all16 = true -> forall m, m < 65536 -> P m = true.
Proof. intros H m Hm. apply (forall_below_pow2 16 P H). exact Hm. Qed.
