(* Proleptic Gregorian calendar arithmetic in Z (Howard Hinnant's days_from_civil /
   civil_from_days, the algorithms behind chrono's NaiveDate), with fully quantified
   round-trip theorems.  Day 0 = 1970-01-01.  Z./ and Z.modulo are floor division,
   as the algorithms require, so negative day numbers / timestamps work.

   Proof architecture: one 400-year era (146097 days) is checked by computation
   (vm_compute over a list-doubling enumeration), every other era is reached by shift
   lemmas (days_from_civil (y + 400k) m d = days_from_civil y m d + 146097k and the matching
   one for civil_from_days). *)
From Coq Require Import ZArith List Lia Bool.
Import ListNotations.
Open Scope Z_scope.

(* ------------------------------------------------------------------------- *)
(* Definitions                                                               *)
(* ------------------------------------------------------------------------- *)

(* Hinnant: the part of days_from_civil after era / year-of-era have been split off. *)
Definition days_core (era yoe m d : Z) : Z :=
  let mp := (m + 9) mod 12 in
  let doy := (153 * mp + 2) / 5 + d - 1 in
  let doe := yoe * 365 + yoe / 4 - yoe / 100 + doy in
  era * 146097 + doe - 719468.

Definition days_from_civil (y m d : Z) : Z :=
  let y' := if m <=? 2 then y - 1 else y in
  let era := y' / 400 in
  let yoe := y' - era * 400 in
  days_core era yoe m d.

(* Hinnant: the part of civil_from_days after era / day-of-era have been split off. *)
Definition civil_core (era doe : Z) : Z * Z * Z :=
  let yoe := (doe - doe / 1460 + doe / 36524 - doe / 146096) / 365 in
  let y := yoe + era * 400 in
  let doy := doe - (365 * yoe + yoe / 4 - yoe / 100) in
  let mp := (5 * doy + 2) / 153 in
  let d := doy - (153 * mp + 2) / 5 + 1 in
  let m := if mp <? 10 then mp + 3 else mp - 9 in
  ((if m <=? 2 then y + 1 else y), m, d).

Definition civil_from_days (z : Z) : Z * Z * Z :=
  let z := z + 719468 in
  let era := z / 146097 in
  let doe := z - era * 146097 in
  civil_core era doe.

Definition is_leap (y : Z) : bool :=
  ((y mod 4 =? 0) && negb (y mod 100 =? 0)) || (y mod 400 =? 0).

Definition days_in_month (y m : Z) : Z :=
  if m =? 2 then (if is_leap y then 29 else 28)
  else if (m =? 4) || (m =? 6) || (m =? 9) || (m =? 11) then 30 else 31.

Definition valid_date (y m d : Z) : bool :=
  (1 <=? m) && (m <=? 12) && (1 <=? d) && (d <=? days_in_month y m).

(* The calendar successor of a date. *)
Definition next_date (y m d : Z) : Z * Z * Z :=
  if d <? days_in_month y m then (y, m, d + 1)
  else if m <? 12 then (y, m + 1, 1) else (y + 1, 1, 1).

(* Day of week.  Convention: 0 = Sunday, 1 = Monday, ..., 6 = Saturday, i.e. chrono's
   [Weekday::num_days_from_sunday].  1970-01-01 (day 0) was a Thursday (= 4).
   fselect's DAYOFWEEK uses [number_from_sunday] = this + 1 (Sunday = 1 .. Saturday = 7);
   chrono's [num_days_from_monday] is [weekday_from_monday]. *)
Definition weekday (z : Z) : Z := (z + 4) mod 7.
Definition number_from_sunday (z : Z) : Z := weekday z + 1.
Definition weekday_from_monday (z : Z) : Z := (z + 3) mod 7.

Definition secs_of (y m d hh mm ss : Z) : Z :=
  days_from_civil y m d * 86400 + hh * 3600 + mm * 60 + ss.

Definition datetime_of_secs (t : Z) : Z * Z * Z * Z * Z * Z :=
  let dd := t / 86400 in
  let r := t - dd * 86400 in
  let '(y, m, d) := civil_from_days dd in
  (y, m, d, r / 3600, (r mod 3600) / 60, r mod 60).

(* Lexicographic order on (y, m, d). *)
Definition date_lt (a b : Z * Z * Z) : Prop :=
  let '(y1, m1, d1) := a in
  let '(y2, m2, d2) := b in
  y1 < y2 \/ (y1 = y2 /\ (m1 < m2 \/ (m1 = m2 /\ d1 < d2))).

(* ------------------------------------------------------------------------- *)
(* Finite enumeration over Z                                                 *)
(* ------------------------------------------------------------------------- *)

Fixpoint below_pow2Z (bits : nat) : list Z :=
  match bits with
  | O => [0]
  | S b => let l := below_pow2Z b in l ++ map (fun x => x + 2 ^ Z.of_nat b) l
  end.

Lemma below_pow2Z_complete bits : forall m, 0 <= m < 2 ^ Z.of_nat bits -> In m (below_pow2Z bits).
Proof.
  induction bits as [|b IH]; intros m Hm.
  - cbn in Hm. left. lia.
  - cbn [below_pow2Z]. apply in_or_app.
    rewrite Nat2Z.inj_succ, Z.pow_succ_r in Hm by lia.
    destruct (Z.lt_ge_cases m (2 ^ Z.of_nat b)) as [L|G]; [left; apply IH; lia|].
    right. apply in_map_iff. exists (m - 2 ^ Z.of_nat b). split; [lia|apply IH; lia].
Qed.

Definition range0 (bits : nat) (n : Z) : list Z := filter (fun z => z <? n) (below_pow2Z bits).

Lemma range0_complete bits n m : n <= 2 ^ Z.of_nat bits -> 0 <= m < n -> In m (range0 bits n).
Proof.
  intros Hn Hm. unfold range0. apply filter_In. split.
  - apply below_pow2Z_complete. lia.
  - apply Z.ltb_lt. lia.
Qed.

(* ------------------------------------------------------------------------- *)
(* One era by computation                                                    *)
(* ------------------------------------------------------------------------- *)

Definition triple_eqb (a b : Z * Z * Z) : bool :=
  let '(y1, m1, d1) := a in let '(y2, m2, d2) := b in (y1 =? y2) && (m1 =? m2) && (d1 =? d2).

Lemma triple_eqb_eq a b : triple_eqb a b = true -> a = b.
Proof.
  destruct a as [[y1 m1] d1], b as [[y2 m2] d2]. cbn [triple_eqb]. intros H.
  apply andb_true_iff in H. destruct H as [H H3]. apply andb_true_iff in H. destruct H as [H1 H2].
  apply Z.eqb_eq in H1, H2, H3. now subst.
Qed.

(* day -> civil -> day, validity, and "the next day is the next calendar date" *)
Definition ok_day (z : Z) : bool :=
  let '(y, m, d) := civil_from_days z in
  valid_date y m d && (days_from_civil y m d =? z)
  && triple_eqb (civil_from_days (z + 1)) (next_date y m d).

(* the era starting 2000-03-01 = day 11017 *)
Definition era_days : list Z := range0 18 146097.

Lemma era_ok : forallb (fun z => ok_day (z + 11017)) era_days = true.
Proof. vm_cast_no_check (@eq_refl bool true). Qed.

Lemma era_ok_day z : 11017 <= z < 11017 + 146097 -> ok_day z = true.
Proof.
  intros Hz. pose proof era_ok as H. rewrite forallb_forall in H.
  specialize (H (z - 11017)). replace (z - 11017 + 11017) with z in H by lia.
  apply H. apply range0_complete; [cbn; lia | lia].
Qed.

(* civil -> day -> civil for every valid date of the 400 years 0..399 *)
Definition ok_date (y m d : Z) : bool :=
  if valid_date y m d then triple_eqb (civil_from_days (days_from_civil y m d)) (y, m, d) else true.

Definition months : list Z := [1;2;3;4;5;6;7;8;9;10;11;12].
Definition mdays : list Z :=
  [1;2;3;4;5;6;7;8;9;10;11;12;13;14;15;16;17;18;19;20;21;22;23;24;25;26;27;28;29;30;31].
Definition era_years : list Z := range0 9 400.

Lemma era_dates_ok :
  forallb (fun y => forallb (fun m => forallb (fun d => ok_date y m d) mdays) months) era_years = true.
Proof. vm_cast_no_check (@eq_refl bool true). Qed.

Lemma in_months m : 1 <= m <= 12 -> In m months.
Proof.
  intros H. unfold months.
  assert (E : m = 1 \/ m = 2 \/ m = 3 \/ m = 4 \/ m = 5 \/ m = 6 \/ m = 7 \/ m = 8 \/ m = 9 \/ m = 10
              \/ m = 11 \/ m = 12) by lia.
  cbn [In]. intuition.
Qed.

Lemma in_mdays d : 1 <= d <= 31 -> In d mdays.
Proof.
  intros H. unfold mdays.
  replace d with (1 + (d - 1)) by lia.
  assert (E : 0 <= d - 1 < 31) by lia. revert E. generalize (d - 1). intros k Hk.
  assert (In k (range0 5 31)) as Hin by (apply range0_complete; [cbn; lia|lia]).
  revert Hin. vm_compute. intros Hin.
  repeat (destruct Hin as [Hin|Hin]; [subst k; vm_compute; tauto|]). destruct Hin.
Qed.

Lemma days_in_month_bounds y m : 28 <= days_in_month y m <= 31.
Proof.
  unfold days_in_month. destruct (m =? 2); [destruct (is_leap y); lia|].
  destruct ((m =? 4) || (m =? 6) || (m =? 9) || (m =? 11)); lia.
Qed.

Lemma valid_date_bounds y m d :
  valid_date y m d = true -> 1 <= m <= 12 /\ 1 <= d <= days_in_month y m.
Proof.
  unfold valid_date. intros H.
  apply andb_true_iff in H. destruct H as [H H4]. apply andb_true_iff in H. destruct H as [H H3].
  apply andb_true_iff in H. destruct H as [H1 H2].
  apply Z.leb_le in H1, H2, H3, H4. lia.
Qed.

Lemma era_ok_date y m d : 0 <= y < 400 -> valid_date y m d = true ->
  civil_from_days (days_from_civil y m d) = (y, m, d).
Proof.
  intros Hy Hv. pose proof era_dates_ok as H. rewrite forallb_forall in H.
  specialize (H y (range0_complete 9 400 y ltac:(cbn; lia) Hy)).
  rewrite forallb_forall in H.
  destruct (valid_date_bounds y m d Hv) as [Hm Hd].
  pose proof (days_in_month_bounds y m) as Hb.
  specialize (H m (in_months m Hm)). rewrite forallb_forall in H.
  specialize (H d (in_mdays d ltac:(lia))).
  unfold ok_date in H. rewrite Hv in H. now apply triple_eqb_eq.
Qed.

(* ------------------------------------------------------------------------- *)
(* Shift lemmas: 400 years = 146097 days                                     *)
(* ------------------------------------------------------------------------- *)

Lemma div_shift a k n : n > 0 -> (a + k * n) / n = a / n + k.
Proof. intros Hn. rewrite Z.div_add by lia. reflexivity. Qed.

Lemma days_from_civil_shift y m d k :
  days_from_civil (y + 400 * k) m d = days_from_civil y m d + 146097 * k.
Proof.
  unfold days_from_civil.
  assert (A : forall y', (y' + 400 * k) / 400 = y' / 400 + k).
  { intros y'. replace (y' + 400 * k) with (y' + k * 400) by lia. apply div_shift. lia. }
  assert (B : forall era yoe, days_core (era + k) yoe m d = days_core era yoe m d + 146097 * k).
  { intros era yoe. unfold days_core. lia. }
  destruct (m <=? 2).
  - replace (y + 400 * k - 1) with ((y - 1) + 400 * k) by lia. rewrite A.
    replace (y - 1 + 400 * k - ((y - 1) / 400 + k) * 400) with (y - 1 - (y - 1) / 400 * 400) by lia.
    apply B.
  - rewrite A.
    replace (y + 400 * k - (y / 400 + k) * 400) with (y - y / 400 * 400) by lia.
    apply B.
Qed.

Definition shift_year (k : Z) (t : Z * Z * Z) : Z * Z * Z :=
  let '(y, m, d) := t in (y + 400 * k, m, d).

Lemma civil_core_shift era doe k : civil_core (era + k) doe = shift_year k (civil_core era doe).
Proof.
  unfold civil_core, shift_year.
  match goal with |- context [if ?c <=? 2 then _ else _] => destruct (c <=? 2) end;
    f_equal; f_equal; lia.
Qed.

Lemma civil_from_days_shift z k :
  civil_from_days (z + 146097 * k) = shift_year k (civil_from_days z).
Proof.
  unfold civil_from_days.
  replace (z + 146097 * k + 719468) with ((z + 719468) + k * 146097) by lia.
  rewrite div_shift by lia.
  replace (z + 719468 + k * 146097 - ((z + 719468) / 146097 + k) * 146097)
    with (z + 719468 - (z + 719468) / 146097 * 146097) by lia.
  apply civil_core_shift.
Qed.

Ltac Zify.zify_post_hook ::= Z.div_mod_to_equations.

Lemma is_leap_shift y k : is_leap (y + 400 * k) = is_leap y.
Proof.
  unfold is_leap.
  replace ((y + 400 * k) mod 4) with (y mod 4) by lia.
  replace ((y + 400 * k) mod 100) with (y mod 100) by lia.
  replace ((y + 400 * k) mod 400) with (y mod 400) by lia.
  reflexivity.
Qed.

Lemma days_in_month_shift y m k : days_in_month (y + 400 * k) m = days_in_month y m.
Proof. unfold days_in_month. now rewrite is_leap_shift. Qed.

Lemma valid_date_shift y m d k : valid_date (y + 400 * k) m d = valid_date y m d.
Proof. unfold valid_date. now rewrite days_in_month_shift. Qed.

Lemma next_date_shift y m d k : next_date (y + 400 * k) m d = shift_year k (next_date y m d).
Proof.
  unfold next_date. rewrite days_in_month_shift.
  destruct (d <? days_in_month y m); [reflexivity|].
  destruct (m <? 12); cbn [shift_year]; f_equal; f_equal; lia.
Qed.

(* ------------------------------------------------------------------------- *)
(* Fully quantified round trips                                              *)
(* ------------------------------------------------------------------------- *)

Lemma ok_day_all z : ok_day z = true.
Proof.
  set (k := (z - 11017) / 146097).
  set (z0 := z - 146097 * k).
  assert (Hz0 : 11017 <= z0 < 11017 + 146097) by (subst z0 k; lia).
  pose proof (era_ok_day z0 Hz0) as H0.
  assert (Ez : z = z0 + 146097 * k) by (subst z0; lia).
  rewrite Ez. clearbody z0 k. clear Ez Hz0 z.
  unfold ok_day in *.
  replace (z0 + 146097 * k + 1) with ((z0 + 1) + 146097 * k) by lia.
  rewrite !civil_from_days_shift.
  destruct (civil_from_days z0) as [[y m] d]. cbn [shift_year].
  apply andb_true_iff in H0. destruct H0 as [H0 H3]. apply andb_true_iff in H0. destruct H0 as [H1 H2].
  rewrite valid_date_shift, H1, days_from_civil_shift, next_date_shift.
  apply Z.eqb_eq in H2. apply triple_eqb_eq in H3. rewrite H2, H3, Z.eqb_refl.
  cbn [andb].
  destruct (next_date y m d) as [[y2 m2] d2]. cbn [shift_year triple_eqb]. now rewrite !Z.eqb_refl.
Qed.

Theorem days_roundtrip : forall z,
  let '(y, m, d) := civil_from_days z in days_from_civil y m d = z /\ valid_date y m d = true.
Proof.
  intros z. pose proof (ok_day_all z) as H. unfold ok_day in H.
  destruct (civil_from_days z) as [[y m] d].
  apply andb_true_iff in H. destruct H as [H _]. apply andb_true_iff in H. destruct H as [H1 H2].
  apply Z.eqb_eq in H2. now split.
Qed.

Theorem civil_succ : forall z,
  civil_from_days (z + 1) = let '(y, m, d) := civil_from_days z in next_date y m d.
Proof.
  intros z. pose proof (ok_day_all z) as H. unfold ok_day in H.
  destruct (civil_from_days z) as [[y m] d].
  apply andb_true_iff in H. destruct H as [_ H]. now apply triple_eqb_eq.
Qed.

Theorem civil_roundtrip : forall y m d,
  valid_date y m d = true -> civil_from_days (days_from_civil y m d) = (y, m, d).
Proof.
  intros y m d Hv.
  set (k := y / 400). set (y0 := y - 400 * k).
  assert (Hy0 : 0 <= y0 < 400) by (subst y0 k; lia).
  assert (Ey : y = y0 + 400 * k) by (subst y0; lia).
  rewrite Ey in Hv |- *. clearbody y0 k. clear Ey y.
  rewrite valid_date_shift in Hv.
  rewrite days_from_civil_shift, civil_from_days_shift, (era_ok_date y0 m d Hy0 Hv).
  reflexivity.
Qed.

Corollary days_from_civil_inj y1 m1 d1 y2 m2 d2 :
  valid_date y1 m1 d1 = true -> valid_date y2 m2 d2 = true ->
  days_from_civil y1 m1 d1 = days_from_civil y2 m2 d2 -> (y1, m1, d1) = (y2, m2, d2).
Proof.
  intros H1 H2 E. rewrite <- (civil_roundtrip _ _ _ H1), <- (civil_roundtrip _ _ _ H2). now rewrite E.
Qed.

(* ------------------------------------------------------------------------- *)
(* Monotonicity                                                              *)
(* ------------------------------------------------------------------------- *)

Lemma date_lt_trans a b c : date_lt a b -> date_lt b c -> date_lt a c.
Proof.
  destruct a as [[y1 m1] d1], b as [[y2 m2] d2], c as [[y3 m3] d3]. unfold date_lt. lia.
Qed.

Lemma date_lt_irrefl a : ~ date_lt a a.
Proof. destruct a as [[y1 m1] d1]. unfold date_lt. lia. Qed.

Lemma next_date_lt y m d : date_lt (y, m, d) (next_date y m d).
Proof.
  unfold next_date.
  destruct (d <? days_in_month y m); [unfold date_lt; lia|].
  destruct (m <? 12) eqn:E; unfold date_lt; [apply Z.ltb_lt in E|]; lia.
Qed.

Lemma civil_succ_lt z : date_lt (civil_from_days z) (civil_from_days (z + 1)).
Proof.
  rewrite civil_succ. destruct (civil_from_days z) as [[y m] d]. apply next_date_lt.
Qed.

Lemma civil_from_days_mono z1 z2 : z1 < z2 -> date_lt (civil_from_days z1) (civil_from_days z2).
Proof.
  intros H.
  assert (G : forall n : nat, date_lt (civil_from_days z1) (civil_from_days (z1 + 1 + Z.of_nat n))).
  { induction n as [|n IH].
    - replace (z1 + 1 + Z.of_nat 0) with (z1 + 1) by lia. apply civil_succ_lt.
    - eapply date_lt_trans; [exact IH|].
      replace (z1 + 1 + Z.of_nat (S n)) with ((z1 + 1 + Z.of_nat n) + 1) by lia.
      apply civil_succ_lt. }
  specialize (G (Z.to_nat (z2 - z1 - 1))).
  replace (z1 + 1 + Z.of_nat (Z.to_nat (z2 - z1 - 1))) with z2 in G by lia. exact G.
Qed.

Theorem days_from_civil_monotone : forall y1 m1 d1 y2 m2 d2,
  valid_date y1 m1 d1 = true -> valid_date y2 m2 d2 = true ->
  (date_lt (y1, m1, d1) (y2, m2, d2) <-> days_from_civil y1 m1 d1 < days_from_civil y2 m2 d2).
Proof.
  intros y1 m1 d1 y2 m2 d2 H1 H2.
  assert (BWD : forall a1 b1 c1 a2 b2 c2, valid_date a1 b1 c1 = true -> valid_date a2 b2 c2 = true ->
            days_from_civil a1 b1 c1 < days_from_civil a2 b2 c2 -> date_lt (a1, b1, c1) (a2, b2, c2)).
  { intros a1 b1 c1 a2 b2 c2 V1 V2 L. apply civil_from_days_mono in L.
    now rewrite (civil_roundtrip _ _ _ V1), (civil_roundtrip _ _ _ V2) in L. }
  split; [|apply BWD; assumption].
  intros L.
  destruct (Z.lt_trichotomy (days_from_civil y1 m1 d1) (days_from_civil y2 m2 d2)) as [T|[T|T]].
  - exact T.
  - apply (days_from_civil_inj _ _ _ _ _ _ H1 H2) in T. rewrite T in L. now apply date_lt_irrefl in L.
  - apply (BWD _ _ _ _ _ _ H2 H1) in T. exfalso. apply (date_lt_irrefl (y1, m1, d1)).
    eapply date_lt_trans; eassumption.
Qed.

(* ------------------------------------------------------------------------- *)
(* Seconds                                                                   *)
(* ------------------------------------------------------------------------- *)

Theorem secs_roundtrip : forall y m d hh mm ss,
  valid_date y m d = true -> 0 <= hh < 24 -> 0 <= mm < 60 -> 0 <= ss < 60 ->
  datetime_of_secs (secs_of y m d hh mm ss) = (y, m, d, hh, mm, ss).
Proof.
  intros y m d hh mm ss Hv Hh Hm Hs. unfold datetime_of_secs, secs_of.
  set (D := days_from_civil y m d).
  assert (E : (D * 86400 + hh * 3600 + mm * 60 + ss) / 86400 = D) by lia.
  rewrite E.
  replace (D * 86400 + hh * 3600 + mm * 60 + ss - D * 86400) with (hh * 3600 + mm * 60 + ss) by lia.
  subst D. rewrite (civil_roundtrip _ _ _ Hv).
  repeat f_equal; lia.
Qed.

Theorem secs_of_datetime : forall t,
  let '(y, m, d, hh, mm, ss) := datetime_of_secs t in
  secs_of y m d hh mm ss = t /\ valid_date y m d = true /\ 0 <= hh < 24 /\ 0 <= mm < 60 /\ 0 <= ss < 60.
Proof.
  intros t. unfold datetime_of_secs, secs_of.
  pose proof (days_roundtrip (t / 86400)) as H.
  destruct (civil_from_days (t / 86400)) as [[y m] d]. destruct H as [H1 H2].
  rewrite H1. repeat split; try assumption; lia.
Qed.

Lemma weekday_range z : 0 <= weekday z < 7.
Proof. unfold weekday. lia. Qed.
Lemma weekday_succ z : weekday (z + 1) = (weekday z + 1) mod 7.
Proof. unfold weekday. lia. Qed.
Lemma weekday_week z : weekday (z + 7) = weekday z.
Proof. unfold weekday. lia. Qed.

(* ------------------------------------------------------------------------- *)
(* Non-vacuity                                                               *)
(* ------------------------------------------------------------------------- *)

Example ex_epoch : days_from_civil 1970 1 1 = 0. Proof. reflexivity. Qed.
Example ex_leap_day : civil_from_days (days_from_civil 2024 2 29) = (2024, 2, 29). Proof. reflexivity. Qed.
Example ex_leap_day_valid : valid_date 2024 2 29 = true /\ valid_date 2023 2 29 = false
  /\ valid_date 1900 2 29 = false /\ valid_date 2000 2 29 = true. Proof. repeat split. Qed.
Example ex_year_end : civil_from_days (days_from_civil 2023 12 31 + 1) = (2024, 1, 1). Proof. reflexivity. Qed.
Example ex_neg : civil_from_days (-1) = (1969, 12, 31). Proof. reflexivity. Qed.
Example ex_year0 : civil_from_days (days_from_civil 0 1 1) = (0, 1, 1) /\ days_from_civil 0 1 1 = -719528.
Proof. split; reflexivity. Qed.
Example ex_weekday : weekday (days_from_civil 2024 2 29) = 4 (* Thursday *)
  /\ weekday 0 = 4 /\ weekday (days_from_civil 2026 9 27) = 0 (* Sunday *). Proof. repeat split. Qed.
Example ex_secs : secs_of 2024 2 29 23 59 59 = 1709251199
  /\ datetime_of_secs 1709251199 = (2024, 2, 29, 23, 59, 59)
  /\ datetime_of_secs (-1) = (1969, 12, 31, 23, 59, 59). Proof. repeat split. Qed.

Print Assumptions civil_roundtrip.
Print Assumptions days_roundtrip.
Print Assumptions civil_succ.
Print Assumptions days_from_civil_monotone.
Print Assumptions secs_roundtrip.
Print Assumptions secs_of_datetime.
