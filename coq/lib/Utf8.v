(* UTF-8 between code-point strings ([str] = list of Unicode scalar values) and byte lists.

   [utf8_encode]  : char::encode_utf8 for every element (Rust `String` -> `as_bytes`)
   [utf8_decode]  : strict decoding (`String::from_utf8`), None on any ill-formed sequence
   [utf8_lossy]   : `String::from_utf8_lossy`: every maximal ill-formed subpart becomes one
                    U+FFFD (core::str::lossy::Utf8Chunks: the lead byte plus the continuation
                    bytes accepted so far form one invalid chunk; the offending byte is examined
                    again as the start of the next sequence; a truncated sequence at the end of
                    the input is one chunk).

   The decoder is a one-byte-at-a-time automaton, so all recursions are structural.
   Round trip [utf8_decode (utf8_encode x) = Some x] for every string of scalar values; the
   per-character fact is checked by computation over all 17 * 2^16 candidates below 0x110000. *)
From Coq Require Import List NArith Bool Lia.
From FS Require Import lib.Str lib.Fin.
Import ListNotations.
Open Scope N_scope.

Definition valid_scalar (c : N) : bool := (c <? 0xD800) || ((0xDFFF <? c) && (c <? 0x110000)).

Definition utf8_enc1 (c : N) : list N :=
  if c <? 0x80 then [c]
  else if c <? 0x800 then [0xC0 + N.shiftr c 6; 0x80 + N.land c 63]
  else if c <? 0x10000 then [0xE0 + N.shiftr c 12; 0x80 + N.land (N.shiftr c 6) 63; 0x80 + N.land c 63]
  else [0xF0 + N.shiftr c 18; 0x80 + N.land (N.shiftr c 12) 63; 0x80 + N.land (N.shiftr c 6) 63; 0x80 + N.land c 63].

Definition utf8_encode (x : str) : list N := flat_map utf8_enc1 x.

(* ---------- decoding automaton ---------- *)

Inductive ev := Ch (c : N) | Bad.

(* [Cont n acc lo hi]: n+1 continuation bytes are still expected, the next one in lo..hi *)
Inductive dstate := Start | Cont (n : nat) (acc lo hi : N).

Definition in_rng (lo hi b : N) : bool := (lo <=? b) && (b <=? hi).

(* first byte of a sequence: core::str::validations::utf8_char_width + the second-byte ranges
   of Utf8Chunks::next (Table 3-7 of the Unicode standard) *)
Definition dstart (b : N) : list ev * dstate :=
  if b <? 0x80 then ([Ch b], Start)
  else if in_rng 0xC2 0xDF b then ([], Cont 0 (b - 0xC0) 0x80 0xBF)
  else if b =? 0xE0 then ([], Cont 1 0 0xA0 0xBF)
  else if in_rng 0xE1 0xEC b then ([], Cont 1 (b - 0xE0) 0x80 0xBF)
  else if b =? 0xED then ([], Cont 1 13 0x80 0x9F)
  else if in_rng 0xEE 0xEF b then ([], Cont 1 (b - 0xE0) 0x80 0xBF)
  else if b =? 0xF0 then ([], Cont 2 0 0x90 0xBF)
  else if in_rng 0xF1 0xF3 b then ([], Cont 2 (b - 0xF0) 0x80 0xBF)
  else if b =? 0xF4 then ([], Cont 2 4 0x80 0x8F)
  else ([Bad], Start).

Definition dstep (st : dstate) (b : N) : list ev * dstate :=
  match st with
  | Start => dstart b
  | Cont n acc lo hi =>
      if in_rng lo hi b then
        let acc' := acc * 64 + (b - 0x80) in
        match n with
        | O => ([Ch acc'], Start)
        | S n' => ([], Cont n' acc' 0x80 0xBF)
        end
      else let '(e, st') := dstart b in (Bad :: e, st')
  end.

Fixpoint drun (st : dstate) (bs : list N) : list ev :=
  match bs with
  | [] => match st with Start => [] | _ => [Bad] end
  | b :: r => let '(e, st') := dstep st b in e ++ drun st' r
  end.

Definition ev_cp (e : ev) : N := match e with Ch c => c | Bad => 0xFFFD end.
Definition is_ch (e : ev) : bool := match e with Ch _ => true | Bad => false end.

Definition utf8_lossy (bs : list N) : str := map ev_cp (drun Start bs).
Definition utf8_decode (bs : list N) : option str :=
  let es := drun Start bs in if forallb is_ch es then Some (map ev_cp es) else None.

(* ---------- round trip ---------- *)

(* events and final state of a finite run; [drun] of an append factors through it *)
Fixpoint drun_st (st : dstate) (bs : list N) : list ev * dstate :=
  match bs with
  | [] => ([], st)
  | b :: r => let '(e, st') := dstep st b in let '(e2, st2) := drun_st st' r in (e ++ e2, st2)
  end.

Lemma drun_app st a b : drun st (a ++ b) = fst (drun_st st a) ++ drun (snd (drun_st st a)) b.
Proof.
  revert st; induction a as [|x a IH]; intros st; cbn [app drun drun_st fst snd]; [reflexivity|].
  destruct (dstep st x) as [e st']. rewrite IH. destruct (drun_st st' a) as [e2 st2].
  cbn [fst snd]. now rewrite app_assoc.
Qed.

Definition ev_eqb (a b : ev) : bool :=
  match a, b with Ch x, Ch y => x =? y | Bad, Bad => true | _, _ => false end.

Definition enc1_ok (c : N) : bool :=
  negb (valid_scalar c) ||
  match drun_st Start (utf8_enc1 c) with
  | ([Ch d], Start) => (d =? c) && forallb (fun b => b <? 256) (utf8_enc1 c)
  | _ => false
  end.

(* all candidates below 0x110000 = 17 * 2^16, checked by computation (about 20 s) *)
Definition planes : list N := [0;1;2;3;4;5;6;7;8;9;10;11;12;13;14;15;16].

Lemma enc1_ok_all :
  forallb (fun hi => forallb (fun lo => enc1_ok (hi * 65536 + lo)) all16) planes = true.
Proof. vm_cast_no_check (@eq_refl bool true). Qed.

Lemma in_planes h : h <= 16 -> In h planes.
Proof.
  intros H. unfold planes.
  assert (C : h = 0 \/ h = 1 \/ h = 2 \/ h = 3 \/ h = 4 \/ h = 5 \/ h = 6 \/ h = 7 \/ h = 8 \/ h = 9
              \/ h = 10 \/ h = 11 \/ h = 12 \/ h = 13 \/ h = 14 \/ h = 15 \/ h = 16) by lia.
  cbn [In]. intuition.
Qed.

Lemma valid_scalar_lt c : valid_scalar c = true -> c < 0x110000.
Proof.
  unfold valid_scalar.
  rewrite orb_true_iff, andb_true_iff, !N.ltb_lt. lia.
Qed.

Lemma enc1_ok_c c : valid_scalar c = true -> enc1_ok c = true.
Proof.
  intros V. apply valid_scalar_lt in V.
  pose proof enc1_ok_all as A. rewrite forallb_forall in A.
  pose proof (N.div_mod c 65536 ltac:(lia)) as D.
  assert (Hh : c / 65536 <= 16).
  { assert (c / 65536 < 17) by (apply N.div_lt_upper_bound; lia). lia. }
  specialize (A (c / 65536) (in_planes _ Hh)).
  pose proof (forall16 _ A (c mod 65536) ltac:(apply N.mod_lt; lia)) as B. cbv beta in B.
  replace (c / 65536 * 65536 + c mod 65536) with c in B by lia. exact B.
Qed.

Lemma enc1_run c : valid_scalar c = true ->
  drun_st Start (utf8_enc1 c) = ([Ch c], Start) /\ forallb (fun b => b <? 256) (utf8_enc1 c) = true.
Proof.
  intros V. pose proof (enc1_ok_c c V) as H.
  unfold enc1_ok in H. rewrite V in H. cbn [negb orb] in H.
  destruct (drun_st Start (utf8_enc1 c)) as [[|[d|] [|? ?]] [|? ? ? ?]]; try discriminate.
  apply andb_true_iff in H. destruct H as [H1 H2]. apply N.eqb_eq in H1. subst d. now split.
Qed.

Lemma drun_encode x r : forallb valid_scalar x = true ->
  drun Start (utf8_encode x ++ r) = map Ch x ++ drun Start r.
Proof.
  induction x as [|c x IH]; intros V; [reflexivity|].
  cbn [forallb] in V. apply andb_true_iff in V. destruct V as [V1 V2].
  cbn [utf8_encode flat_map]. rewrite <- app_assoc, drun_app.
  destruct (enc1_run c V1) as [E _]. rewrite E. cbn [fst snd app map].
  f_equal. apply (IH V2).
Qed.

Lemma map_ev_cp_Ch x : map ev_cp (map Ch x) = x.
Proof. induction x as [|c x IH]; cbn [map ev_cp]; [reflexivity|now rewrite IH]. Qed.

Lemma forallb_is_ch_Ch x : forallb is_ch (map Ch x) = true.
Proof. induction x as [|c x IH]; cbn [map forallb is_ch andb]; [reflexivity|exact IH]. Qed.

Theorem utf8_roundtrip x : forallb valid_scalar x = true -> utf8_decode (utf8_encode x) = Some x.
Proof.
  intros V. unfold utf8_decode. pose proof (drun_encode x [] V) as H.
  rewrite app_nil_r in H. cbn [drun] in H. rewrite app_nil_r in H. rewrite H.
  now rewrite forallb_is_ch_Ch, map_ev_cp_Ch.
Qed.

Theorem utf8_lossy_encode x : forallb valid_scalar x = true -> utf8_lossy (utf8_encode x) = x.
Proof.
  intros V. unfold utf8_lossy. pose proof (drun_encode x [] V) as H.
  rewrite app_nil_r in H. cbn [drun] in H. rewrite app_nil_r in H. rewrite H.
  apply map_ev_cp_Ch.
Qed.

Lemma utf8_encode_bytes x : forallb valid_scalar x = true ->
  forallb (fun b => b <? 256) (utf8_encode x) = true.
Proof.
  induction x as [|c x IH]; intros V; [reflexivity|].
  cbn [forallb] in V. apply andb_true_iff in V. destruct V as [V1 V2].
  cbn [utf8_encode flat_map]. rewrite forallb_app. destruct (enc1_run c V1) as [_ E].
  rewrite E. cbn [andb]. apply (IH V2).
Qed.

Lemma utf8_encode_ascii x : forallb (fun c => c <? 0x80) x = true -> utf8_encode x = x.
Proof.
  induction x as [|c x IH]; intros V; [reflexivity|].
  cbn [forallb] in V. apply andb_true_iff in V. destruct V as [V1 V2].
  cbn [utf8_encode flat_map]. unfold utf8_enc1. rewrite V1. cbn [app]. f_equal. apply (IH V2).
Qed.

Lemma utf8_encode_app x y : utf8_encode (x ++ y) = utf8_encode x ++ utf8_encode y.
Proof. unfold utf8_encode. apply flat_map_app. Qed.

(* examples *)
Example ex_enc : utf8_encode [0x68; 0xE9; 0x20AC; 0x1F600] = [0x68; 0xC3; 0xA9; 0xE2; 0x82; 0xAC; 0xF0; 0x9F; 0x98; 0x80].
Proof. vm_compute. reflexivity. Qed.
Example ex_lossy_trunc : utf8_lossy [0x61; 0xE2; 0x82] = [0x61; 0xFFFD].
Proof. vm_compute. reflexivity. Qed.
Example ex_lossy_resync : utf8_lossy [0xE2; 0x82; 0x41; 0xFF; 0xC0; 0x80] = [0xFFFD; 0x41; 0xFFFD; 0xFFFD; 0xFFFD].
Proof. vm_compute. reflexivity. Qed.
Example ex_surrogate : utf8_decode [0xED; 0xA0; 0x80] = None /\ utf8_lossy [0xED; 0xA0; 0x80] = [0xFFFD; 0xFFFD; 0xFFFD].
Proof. vm_compute. split; reflexivity. Qed.
